import PhysisModel.Base.Reader
/-!
Model of `src/sqpack/data.rs` (`SqPackData::read_from_offset`, `read_standard_file`,
`read_model_file`, `read_texture_file`), `read_data_block` in `src/sqpack/mod.rs`,
`no_header_decompress` (`src/compression.rs`, through the parameter `inflate`) and the write of
`ModelFileHeader` (`src/model.rs`).  The model mirrors the code **with fix C02-01 applied**.

`whole` is the content of the dat file; a file position is a `Nat` (`u64` in the code; an
addition that leaves `u64` is a debug-build panic).  Results are `Option (Option Bytes)`:
outer `none` = panic (`unwrap`/`expect`/index/overflow), inner `none` = returns `None`.
`inflate c n` stands for `no_header_decompress` on the compressed bytes `c` into a zeroed buffer of
`n` bytes: `some d` (with `d.length = n`) when zlib reports `Z_STREAM_END`, else `none`.
-/
namespace Physis.Dat
open Physis Physis.Reader

abbrev Inflate := Bytes → Nat → Option Bytes

/-- `v as i32 as u64` (sign extension) -/
def i32AsU64 (v : UInt32) : Nat :=
  if v < 0x80000000 then v.toNat else v.toNat + (18446744073709551616 - 4294967296)

/-- `v as i16 as u64` -/
def i16AsU64 (v : UInt16) : Nat :=
  if v < 0x8000 then v.toNat else v.toNat + (18446744073709551616 - 65536)

/-- `a + b` on `u64` with overflow checks (`none` = panic) -/
def addU64 (a b : Nat) : Option Nat := if a + b < 18446744073709551616 then some (a + b) else none

/-! ### read_data_block -/

/-- `BlockHeader::read`: size, 4 bytes padding, x, y, then `compression` which reads one more
`i32` and restores the position -/
def readBlockHeader (l : Bytes) : Option ((UInt32 × UInt32 × UInt32) × Bytes) := do
  let (size, l) ← u32le l
  let l := skip 4 l
  let (x, l) ← u32le l
  let (y, l) ← u32le l
  let (_, _) ← u32le l
  some ((size, x, y), l)

/-- `read_data_block(buf, starting_position)` -/
def readDataBlock (inflate : Inflate) (whole : Bytes) (pos : Nat) : Option (Option Bytes) :=
  match readBlockHeader (whole.drop pos) with
  | none => some none                             -- `BlockHeader::read(..).ok()?`
  | some ((_size, x, y), l) =>
    -- `usize::try_from` / `u64::try_from` of a negative length: `None`
    if y ≥ 0x80000000 then some none
    else if x ≥ 0x80000000 then some none
    else if x < 32000 then
      -- `MAX_DECOMPRESSED_BLOCK_SIZE`: a deflated block declaring more than 1 MiB is refused
      if y.toNat > 1048576 then some none else
      match bytes x.toNat l with
      | none => some none
      | some (compressed, _) => some (inflate compressed y.toNat)
    else
      match bytes y.toNat l with
      | none => some none
      | some (d, _) => some (some d)

/-! ### FileInfo -/

structure Tri (α : Type) where
  a0 : α
  a1 : α
  a2 : α
deriving Repr, DecidableEq

/-- `ModelMemorySizes<T>` -/
structure MMS (α : Type) where
  stackSize : α
  runtimeSize : α
  vertexBufferSize : Tri α
  edgeGeometryVertexBufferSize : Tri α
  indexBufferSize : Tri α
deriving Repr

def readTri {α} (rd : Bytes → Option (α × Bytes)) (l : Bytes) : Option (Tri α × Bytes) := do
  let (a0, l) ← rd l
  let (a1, l) ← rd l
  let (a2, l) ← rd l
  some (⟨a0, a1, a2⟩, l)

def readMMS {α} (rd : Bytes → Option (α × Bytes)) (l : Bytes) : Option (MMS α × Bytes) := do
  let (s, l) ← rd l
  let (r, l) ← rd l
  let (v, l) ← readTri rd l
  let (e, l) ← readTri rd l
  let (i, l) ← readTri rd l
  some ({ stackSize := s, runtimeSize := r, vertexBufferSize := v,
          edgeGeometryVertexBufferSize := e, indexBufferSize := i }, l)

/-- `ModelFileBlock` -/
structure ModelFileBlock where
  numBlocks : UInt32
  numUsedBlocks : UInt32
  version : UInt32
  uncompressedSize : MMS UInt32
  compressedSize : MMS UInt32
  offset : MMS UInt32
  index : MMS UInt16
  num : MMS UInt16
  vertexDeclarationNum : UInt16
  materialNum : UInt16
  numLods : UInt8
  indexBufferStreamingEnabled : Bool
  edgeGeometryEnabled : Bool
deriving Repr

def readModelFileBlock (l : Bytes) : Option (ModelFileBlock × Bytes) := do
  let (numBlocks, l) ← u32le l
  let (numUsedBlocks, l) ← u32le l
  let (version, l) ← u32le l
  let (us, l) ← readMMS u32le l
  let (cs, l) ← readMMS u32le l
  let (off, l) ← readMMS u32le l
  let (idx, l) ← readMMS u16le l
  let (num, l) ← readMMS u16le l
  let (vdn, l) ← u16le l
  let (mn, l) ← u16le l
  let (lods, l) ← u8 l
  let (ibs, l) ← u8 l
  let (ege, l) ← u8 l
  let l := skip 1 l
  some ({ numBlocks := numBlocks, numUsedBlocks := numUsedBlocks, version := version,
          uncompressedSize := us, compressedSize := cs, offset := off, index := idx, num := num,
          vertexDeclarationNum := vdn, materialNum := mn, numLods := lods,
          indexBufferStreamingEnabled := ibs == 1, edgeGeometryEnabled := ege == 1 }, l)

/-- `TextureLodBlock` -/
structure TextureLodBlock where
  compressedOffset : UInt32
  compressedSize : UInt32
  decompressedSize : UInt32
  blockOffset : UInt32
  blockCount : UInt32
deriving Repr

def readLod (l : Bytes) : Option (TextureLodBlock × Bytes) := do
  let (a, l) ← u32le l
  let (b, l) ← u32le l
  let (c, l) ← u32le l
  let (d, l) ← u32le l
  let (e, l) ← u32le l
  some ({ compressedOffset := a, compressedSize := b, decompressedSize := c, blockOffset := d,
          blockCount := e }, l)

def readLods : Nat → Bytes → Option (List TextureLodBlock × Bytes)
  | 0, l => some ([], l)
  | n + 1, l => do
    let (x, l) ← readLod l
    let (xs, l) ← readLods n l
    some (x :: xs, l)

inductive Info
  | empty
  | standard (numBlocks : UInt32)
  | model (m : ModelFileBlock)
  | texture (numBlocks : UInt32) (lods : List TextureLodBlock)
deriving Repr

structure FileInfo where
  size : UInt32
  fileSize : UInt32
  info : Info
deriving Repr

/-- `FileInfo::read` -/
def readFileInfo (l : Bytes) : Option (FileInfo × Bytes) := do
  let (size, l) ← u32le l
  let (ft, l) ← u32le l
  let (fileSize, l) ← u32le l
  if ft == 1 then some ({ size := size, fileSize := fileSize, info := .empty }, l)
  else if ft == 2 then
    let l := skip 8 l
    let (n, l) ← u32le l
    some ({ size := size, fileSize := fileSize, info := .standard n }, l)
  else if ft == 3 then
    let (m, l) ← readModelFileBlock l
    some ({ size := size, fileSize := fileSize, info := .model m }, l)
  else if ft == 4 then
    let l := skip 8 l
    let (n, l) ← u32le l
    let (lods, l) ← readLods n.toNat l
    some ({ size := size, fileSize := fileSize, info := .texture n lods }, l)
  else none

/-! ### standard files -/

/-- `Block::read` × n (`offset: i32`, 4 bytes padding) -/
def readBlocks : Nat → Bytes → Option (List UInt32 × Bytes)
  | 0, l => some ([], l)
  | n + 1, l => do
    let (o, l) ← u32le l
    let l := skip 4 l
    let (os, l) ← readBlocks n l
    some (o :: os, l)

/-- the second loop of `read_standard_file`; `none` = panic -/
def readStandardBlocks (inflate : Inflate) (whole : Bytes) (start : Nat) : List UInt32 → Option Bytes
  | [] => some []
  | o :: os =>
    match addU64 start (i32AsU64 o) with
    | none => none
    | some pos =>
      match readDataBlock inflate whole pos with
      | some (some d) =>
        match readStandardBlocks inflate whole start os with
        | some ds => some (d ++ ds)
        | none => none
      | _ => none                                   -- `.expect("Failed to read data block.")`

def readStandardFile (inflate : Inflate) (whole : Bytes) (offset : Nat) (size : UInt32)
    (numBlocks : UInt32) (l : Bytes) : Option (Option Bytes) :=
  match readBlocks numBlocks.toNat l with
  | none => some none
  | some (blocks, _) =>
    match readStandardBlocks inflate whole (offset + size.toNat) blocks with
    | none => none
    | some d => some (some d)

/-! ### model files -/

def decodeU16s : Bytes → List UInt16
  | a :: b :: r => (a.toUInt16 ||| (b.toUInt16 <<< 8)) :: decodeU16s r
  | _ => []

/-- `ModelMemorySizes<u16>::total` (u16 additions with overflow checks; `none` = panic) -/
def totalU16 (m : MMS UInt16) : Option Nat :=
  let t := m.stackSize.toNat + m.runtimeSize.toNat +
    m.vertexBufferSize.a0.toNat + m.edgeGeometryVertexBufferSize.a0.toNat + m.indexBufferSize.a0.toNat +
    m.vertexBufferSize.a1.toNat + m.edgeGeometryVertexBufferSize.a1.toNat + m.indexBufferSize.a1.toNat +
    m.vertexBufferSize.a2.toNat + m.edgeGeometryVertexBufferSize.a2.toNat + m.indexBufferSize.a2.toNat
  if t < 65536 then some t else none

/-- a run of `n` blocks starting at `pos`; each block advances the file position by the next
entry of `compressed_block_sizes` (`sizes` = the entries from `current_block` on).  `none` = panic
(`expect` on the block, index out of bounds).  Returns the data and the remaining sizes. -/
def readRun (inflate : Inflate) (whole : Bytes) : Nat → Nat → List UInt16 → Option (Bytes × List UInt16)
  | 0, _, sizes => some ([], sizes)
  | n + 1, pos, sizes =>
    match readDataBlock inflate whole pos with
    | some (some d) =>
      match sizes with
      | [] => none
      | s :: sizes =>
        match readRun inflate whole n (pos + s.toNat) sizes with
        | some (ds, r) => some (d ++ ds, r)
        | none => none
    | _ => none

/-- `ModelFileHeader::write` (0x44 bytes) -/
structure ModelFileHeader where
  version : UInt32
  stackSize : UInt32
  runtimeSize : UInt32
  vertexDeclarationCount : UInt16
  materialCount : UInt16
  vertexOffsets : Tri UInt32
  indexOffsets : Tri UInt32
  vertexBufferSize : Tri UInt32
  indexBufferSize : Tri UInt32
  lodCount : UInt8
  indexBufferStreamingEnabled : Bool
  hasEdgeGeometry : Bool
deriving Repr, DecidableEq

def putTri (t : Tri UInt32) : Bytes := putU32le t.a0 ++ putU32le t.a1 ++ putU32le t.a2

def boolByte (b : Bool) : UInt8 := if b then 1 else 0

def writeModelFileHeader (h : ModelFileHeader) : Bytes :=
  putU32le h.version ++ putU32le h.stackSize ++ putU32le h.runtimeSize ++
  putU16le h.vertexDeclarationCount ++ putU16le h.materialCount ++
  putTri h.vertexOffsets ++ putTri h.indexOffsets ++ putTri h.vertexBufferSize ++
  putTri h.indexBufferSize ++
  [h.lodCount, boolByte h.indexBufferStreamingEnabled, boolByte h.hasEdgeGeometry, 0]

/-- state of the reassembly: bytes written behind 0x44, remaining block sizes -/
structure MState where
  buf : Bytes
  sizes : List UInt16

/-- `process_model_data` for one section; returns (offsets[i], data_sizes[i], state).
`prevOffset` is `offsets[i-1]` (`none` for `i = 0`).  `none` = panic. -/
def processModelData (inflate : Inflate) (whole : Bytes) (base : Nat) (prevOffset : Option UInt32)
    (size : UInt16) (offset : UInt32) (st : MState) : Option (UInt32 × UInt32 × MState) :=
  if size != 0 then
    let currentVertexOffset := (0x44 + st.buf.length).toUInt32
    let off :=
      match prevOffset with
      | none => currentVertexOffset
      | some p => if currentVertexOffset != p then currentVertexOffset else 0
    match readRun inflate whole size.toNat (base + offset.toNat) st.sizes with
    | none => none
    | some (d, sizes) => some (off, d.length.toUInt32, { buf := st.buf ++ d, sizes := sizes })
  else some (0, 0, st)

def readModelFile (inflate : Inflate) (whole : Bytes) (offset : Nat) (size : UInt32)
    (m : ModelFileBlock) (l : Bytes) : Option (Option Bytes) :=
  let base := offset + size.toNat
  match totalU16 m.num with
  | none => none
  | some total =>
    match bytes (2 * total) l with
    | none => some none
    | some (tbl, _) =>
      let sizes := decodeU16s tbl
      match readRun inflate whole m.num.stackSize.toNat (base + m.offset.stackSize.toNat) sizes with
      | none => none
      | some (stack, sizes) =>
      match readRun inflate whole m.num.runtimeSize.toNat (base + m.offset.runtimeSize.toNat) sizes with
      | none => none
      | some (runtime, sizes) =>
      let st : MState := { buf := stack ++ runtime, sizes := sizes }
      match processModelData inflate whole base none m.num.vertexBufferSize.a0 m.offset.vertexBufferSize.a0 st with
      | none => none
      | some (vo0, vs0, st) =>
      -- fix C02-01: the edge-geometry runs are read as well (their offsets / sizes are not stored)
      match processModelData inflate whole base none m.num.edgeGeometryVertexBufferSize.a0 m.offset.edgeGeometryVertexBufferSize.a0 st with
      | none => none
      | some (eo0, _, st) =>
      match processModelData inflate whole base none m.num.indexBufferSize.a0 m.offset.indexBufferSize.a0 st with
      | none => none
      | some (io0, is0, st) =>
      match processModelData inflate whole base (some vo0) m.num.vertexBufferSize.a1 m.offset.vertexBufferSize.a1 st with
      | none => none
      | some (vo1, vs1, st) =>
      match processModelData inflate whole base (some eo0) m.num.edgeGeometryVertexBufferSize.a1 m.offset.edgeGeometryVertexBufferSize.a1 st with
      | none => none
      | some (eo1, _, st) =>
      match processModelData inflate whole base (some io0) m.num.indexBufferSize.a1 m.offset.indexBufferSize.a1 st with
      | none => none
      | some (io1, is1, st) =>
      match processModelData inflate whole base (some vo1) m.num.vertexBufferSize.a2 m.offset.vertexBufferSize.a2 st with
      | none => none
      | some (vo2, vs2, st) =>
      match processModelData inflate whole base (some eo1) m.num.edgeGeometryVertexBufferSize.a2 m.offset.edgeGeometryVertexBufferSize.a2 st with
      | none => none
      | some (_, _, st) =>
      match processModelData inflate whole base (some io1) m.num.indexBufferSize.a2 m.offset.indexBufferSize.a2 st with
      | none => none
      | some (io2, is2, st) =>
      let header : ModelFileHeader :=
        { version := m.version
          stackSize := stack.length.toUInt32
          runtimeSize := runtime.length.toUInt32
          vertexDeclarationCount := m.vertexDeclarationNum
          materialCount := m.materialNum
          vertexOffsets := ⟨vo0, vo1, vo2⟩
          indexOffsets := ⟨io0, io1, io2⟩
          vertexBufferSize := ⟨vs0, vs1, vs2⟩
          indexBufferSize := ⟨is0, is1, is2⟩
          lodCount := m.numLods
          indexBufferStreamingEnabled := m.indexBufferStreamingEnabled
          hasEdgeGeometry := m.edgeGeometryEnabled }
      some (some (writeModelFileHeader header ++ st.buf))

/-! ### texture files -/

/-- the inner loop of `read_texture_file` for one LOD: `tbl` = bytes at the current file position
(the i16 block-size table).  Outer `none` = panic, inner `none` = `None`. -/
def readLodBlocks (inflate : Inflate) (whole : Bytes) :
    Nat → Nat → Bytes → Option (Option (Bytes × Bytes))
  | 0, _, tbl => some (some ([], tbl))
  | n + 1, running, tbl =>
    match readDataBlock inflate whole running with
    | none => none
    | some none => some none
    | some (some d) =>
      match u16le tbl with
      | none => some none                              -- `read_le::<i16>().ok()?`
      | some (s, tbl) =>
        -- `u64::try_from(i16)`: a negative block size is corrupt (`None`); `checked_add`
        if s ≥ 0x8000 then some none else
        match addU64 running s.toNat with
        | none => some none
        | some running =>
          match readLodBlocks inflate whole n running tbl with
          | none => none
          | some none => some none
          | some (some (ds, tbl)) => some (some (d ++ ds, tbl))

def readAllLods (inflate : Inflate) (whole : Bytes) (start : Nat) :
    List TextureLodBlock → Bytes → Option (Option Bytes)
  | [], _ => some (some [])
  | lod :: lods, tbl =>
    match readLodBlocks inflate whole lod.blockCount.toNat (lod.compressedOffset.toNat + start) tbl with
    | none => none
    | some none => some none
    | some (some (d, tbl)) =>
      match readAllLods inflate whole start lods tbl with
      | none => none
      | some none => some none
      | some (some ds) => some (some (d ++ ds))

def readTextureFile (inflate : Inflate) (whole : Bytes) (offset : Nat) (size : UInt32)
    (lods : List TextureLodBlock) (l : Bytes) : Option (Option Bytes) :=
  match lods with
  | [] => none                                           -- `lods[0]`
  | lod0 :: _ =>
    let start := offset + size.toNat
    let header? : Option Bytes :=
      if lod0.compressedSize != 0 then
        match bytes lod0.compressedOffset.toNat (whole.drop start) with
        | some (h, _) => some h
        | none => none
      else some []
    match header? with
    | none => some none
    | some header =>
      match readAllLods inflate whole start lods l with
      | none => none
      | some none => some none
      | some (some d) => some (some (header ++ d))

/-! ### dispatch -/

/-- `SqPackData::read_from_offset` -/
def readFromOffset (inflate : Inflate) (whole : Bytes) (offset : Nat) : Option (Option Bytes) :=
  match readFileInfo (whole.drop offset) with
  | none => some none
  | some (fi, l) =>
    match fi.info with
    | .empty => some none
    | .standard n => readStandardFile inflate whole offset fi.size n l
    | .model m => readModelFile inflate whole offset fi.size m l
    | .texture _ lods => readTextureFile inflate whole offset fi.size lods l

end Physis.Dat
