import PhysisModel.Model.LeRead
import PhysisModel.Model.Utf8Lossy
import PhysisModel.Spec.CharDatLayout
import PhysisModel.Generated.CharDatCodes
/-!
Model of `src/chardat.rs` (`CharacterData::from_existing`, `write_to_buffer`, `calc_checksum`) and
of `read_string` / `write_string` / `read_bool_from` / `write_bool_as` in
`src/common_file_operations.rs`.

The value type is the plain record `Spec.CharDat.Preset` (same field names as the Rust structs
`CharacterData` / `CustomizeData`); the *order* in which fields are written and read is defined
here, following the declaration order of the Rust struct, and is what the theorems compare with
the documented offsets.  `Race` / `Gender` / `Tribe` values are represented by the byte their
binrw writer emits; which bytes the readers accept comes from `Generated/CharDatCodes.lean`,
dumped from the compiled code on every run (T2).

`read_string` decodes the 164 comment bytes lossily (`String::from_utf8_lossy`, fix a103be4:
every maximal invalid part becomes U+FFFD, `Model/Utf8Lossy.lean`) and trims NULs at both ends; a
NUL *inside* the comment survives the read and makes `write_string` (`CString::new(..).unwrap()`)
panic when the value is written again.
-/
namespace Physis.CharDat
open Physis.LeRead Physis.Generated
open Physis.Spec.CharDat (Appearance Preset)

abbrev CustomizeData := Appearance
abbrev CharacterData := Preset

def MAX_COMMENT_LENGTH : Nat := 164

/-- `write_bool_as::<u8>` -/
def writeBool (x : Bool) : UInt8 := if x then 1 else 0
/-- `read_bool_from::<u8>` -/
def readBool (x : UInt8) : Bool := x == 1

/-- `#[brw(repr = u8)]` reader of an enum: accepted byte ↦ value (named by the byte it is written as) -/
def readEnum (table : List (UInt8 × UInt8)) (b : UInt8) : Option UInt8 := table.lookup b

/-- `write_string`: `CString::new(s).unwrap().as_bytes_with_nul()`; `none` = the `unwrap` panics (interior NUL) -/
def writeString (s : Bytes) : Option Bytes := if 0 ∈ s then none else some (s ++ [0])

/-- `str::trim_matches('\0')` — both ends -/
def trimNul (s : Bytes) : Bytes :=
  ((s.dropWhile (· == 0)).reverse.dropWhile (· == 0)).reverse

/-- `read_string`: `String::from_utf8_lossy(&bytes).trim_matches('\0')` -/
def readString (raw : Bytes) : Bytes := trimNul (Utf8Lossy.fromUtf8Lossy raw)

/-- `CustomizeData::write_le`: fields in declaration order -/
def writeCustomize (c : CustomizeData) : Bytes :=
  [c.race, c.gender, c.age, c.height, c.tribe, c.face, c.hair, writeBool c.enableHighlights,
   c.skinTone, c.rightEyeColor, c.hairTone, c.highlights, c.facialFeatures, c.facialFeatureColor,
   c.eyebrows, c.leftEyeColor, c.eyes, c.nose, c.jaw, c.mouth, c.lipsToneFurPattern,
   c.raceFeatureSize, c.raceFeatureType, c.bust, c.facePaint, c.facePaintColor, c.voice]

/-- `CustomizeData::read_le` -/
def readCustomize : Bytes → Option (CustomizeData × Bytes)
  | race :: gender :: age :: height :: tribe :: face :: hair :: enableHighlights ::
    skinTone :: rightEyeColor :: hairTone :: highlights :: facialFeatures :: facialFeatureColor ::
    eyebrows :: leftEyeColor :: eyes :: nose :: jaw :: mouth :: lipsToneFurPattern ::
    raceFeatureSize :: raceFeatureType :: bust :: facePaint :: facePaintColor :: voice :: rest =>
    match readEnum raceTable race, readEnum genderTable gender, readEnum tribeTable tribe with
    | some race, some gender, some tribe =>
      some ({ race, gender, age, height, tribe, face, hair, enableHighlights := readBool enableHighlights,
              skinTone, rightEyeColor, hairTone, highlights, facialFeatures, facialFeatureColor,
              eyebrows, leftEyeColor, eyes, nose, jaw, mouth, lipsToneFurPattern,
              raceFeatureSize, raceFeatureType, bust, facePaint, facePaintColor, voice }, rest)
    | _, _, _ => none
  | _ => none

/-- `Vec::resize(n, 0)` -/
def resize (v : Bytes) (n : Nat) : Bytes := (v ++ List.replicate (n - v.length) 0).take n

/-- `for (i, byte) in buffer.iter().enumerate() { checksum ^= (*byte as u32) << (i % 24); }` -/
def checksumLoop (buffer : Bytes) : UInt32 :=
  (buffer.foldl (fun (st : UInt32 × Nat) byte => (st.1 ^^^ (byte.toUInt32 <<< (st.2 % 24).toUInt32), st.2 + 1)) (0, 0)).1

/-- `CharacterData::calc_checksum`; `none` = panic in `write_string` -/
def calcChecksum (d : CharacterData) : Option UInt32 :=
  match writeString d.comment with
  | none => none
  | some comment =>
    let buffer := writeCustomize d.appearance ++ [0x00] ++ putU32le d.timestamp ++ resize comment MAX_COMMENT_LENGTH
    some (checksumLoop buffer)

/-- `CharacterData::write_to_buffer`; `none` = panic (the function itself returns `Some`) -/
def writeChar (d : CharacterData) : Option Bytes :=
  match calcChecksum d, writeString d.comment with
  | some checksum, some comment =>
    some ([0x14, 0xFF, 0x13, 0x20] ++            -- magic = 0x2013FF14u32, little endian
      putU32le d.version ++
      putU32le checksum ++ [0, 0, 0, 0] ++        -- pad_after = 4
      writeCustomize d.appearance ++
      [0] ++ putU32le d.timestamp ++              -- pad_before = 1
      comment ++ List.replicate (MAX_COMMENT_LENGTH - comment.length) 0)   -- pad_size_to
  | _, _ => none

/-- `CharacterData::from_existing`; `none` = returns `None` -/
def parseChar (b : Bytes) : Option CharacterData :=
  match takeU32 b with
  | none => none
  | some (magic, b) =>
    if magic ≠ 0x2013FF14 then none else
    match takeU32 b with
    | none => none
    | some (version, b) =>
      match takeU32 b with             -- checksum: read, not verified
      | none => none
      | some (_, b) =>
        match readCustomize (skip 4 b) with
        | none => none
        | some (customize, b) =>
          match takeU32 (skip 1 b) with
          | none => none
          | some (timestamp, b) =>
            match takeN MAX_COMMENT_LENGTH b with
            | none => none
            | some (raw, _) => some ⟨version, customize, timestamp, readString raw⟩

end Physis.CharDat
