import PhysisModel.Model.StrLines
/-!
Model of `src/cfg.rs` (`ConfigFile::from_existing`, `write_to_buffer`, `has_key`,
`has_category`, `set_value`), written to read like the Rust.

`settings: HashMap<String, ConfigMap>` is an association list with at most one entry per category
(new categories appended).  The map is only ever *indexed* (`entry`, `get_mut`, `contains_key`,
`[]`) or traversed with order-independent effects (`values()` in `has_key`, `values_mut()` in
`set_value`) — `Proofs/Cfg.lean` proves both traversals invariant under permutation of the map.

`has_category` mirrors the code **after** fix `fixes/C08-01-has-category.patch` (the pinned commit
consulted `settings` only, so a category without key/value lines was reported absent — D11).
-/
namespace Physis.Cfg
open Physis.StrLines

abbrev Entry := Bytes × Bytes
/-- `HashMap<String, ConfigMap>` -/
abbrev Settings := List (Bytes × List Entry)

structure ConfigFile where
  categories : List Bytes
  settings : Settings
deriving Repr, DecidableEq

/-- `settings.get(cat)` / `settings.contains_key(cat)` / `settings[cat]` -/
def get? : Settings → Bytes → Option (List Entry)
  | [], _ => none
  | (c, ks) :: rest, cat => if c = cat then some ks else get? rest cat

/-- `settings.entry(cat).or_insert_with(|| ConfigMap{keys: vec![]}); settings.get_mut(cat)?.keys.push(kv)` -/
def pushKey : Settings → Bytes → Entry → Settings
  | [], cat, kv => [(cat, [kv])]
  | (c, ks) :: rest, cat, kv =>
    if c = cat then (c, ks ++ [kv]) :: rest else (c, ks) :: pushKey rest cat kv

/-- body of the `for line in reader.lines()` loop; state = (`current_category`, `cfg`);
`none` = panic in `&line[1..line.len() - 1]` -/
def step (st : Option Bytes × ConfigFile) (line : Bytes) : Option (Option Bytes × ConfigFile) :=
  if line ≠ [] ∧ line ≠ [0] then
    if 60 ∈ line ∨ 62 ∈ line then
      -- `line.len() - 1` cannot underflow: the line is not empty
      match slice line 1 (line.length - 1) with
      | none => none
      | some name => some (some name, { st.2 with categories := st.2.categories ++ [name] })
    else
      match st.1, splitOnce 9 line with
      | some category, some (key, value) =>
        some (st.1, { st.2 with settings := pushKey st.2.settings category (key, value) })
      | _, _ => some st
  else some st

/-- `ConfigFile::from_existing` (`none` = panic; the Rust function itself never returns `None`:
the `?` on `get_mut` follows the `entry().or_insert_with()` of the same key) -/
def parseCfg (b : Bytes) : Option ConfigFile :=
  match (lines b).foldlM step (none, ⟨[], []⟩) with
  | some st => some st.2
  | none => none

/-- `format!("{}\t{}\r\n", key.0, key.1)` -/
def writeKey (e : Entry) : Bytes := e.1 ++ [9] ++ e.2 ++ [13, 10]

/-- one iteration of `for category in &self.categories` -/
def writeCategory (s : Settings) (category : Bytes) : Bytes :=
  [13, 10, 60] ++ category ++ [62, 13, 10] ++
    (match get? s category with
     | some keys => keys.flatMap writeKey
     | none => [])

/-- `ConfigFile::write_to_buffer` (always `Some`: writing into a `Vec` cannot fail) -/
def writeCfg (cf : ConfigFile) : Bytes :=
  cf.categories.flatMap (writeCategory cf.settings) ++ [0]

/-- `ConfigFile::has_key` -/
def hasKey (cf : ConfigFile) (selectKey : Bytes) : Bool :=
  cf.settings.any fun m => m.2.any fun e => selectKey == e.1

/-- `ConfigFile::has_category` (fixed: looks at `categories`) -/
def hasCategory (cf : ConfigFile) (selectCategory : Bytes) : Bool :=
  cf.categories.any fun c => c == selectCategory

/-- `ConfigFile::set_value` -/
def setValue (cf : ConfigFile) (selectKey newValue : Bytes) : ConfigFile :=
  { cf with settings := cf.settings.map fun m =>
      (m.1, m.2.map fun e => if selectKey = e.1 then (e.1, newValue) else e) }

end Physis.Cfg
