import PhysisModel.Spec.PbdLayout
/-!
C16 `pbdl` cases: a deformer forest (same fields as `pbd`) plus a placement of its out-of-line blocks —
`stored` = `;`-separated `<item index>:<filler hex>` (a block holding the bones of that item, behind the
filler bytes; storage order = list order; a repeated index stores a block nobody points at),
`reserved` = `;`-separated 4-byte hex strings in item order, `trailer` = hex.  The file handed to the real
code is `Spec.Pbd.encodePlaced` of it (the encoder of `c16_pbd_parse_placed` / `c16_pbd_chain_placed`).
-/
namespace Physis.Driver.C16Pbd
open Physis

def fields (sep : String) (s : String) : List String := if s == "-" then [] else s.splitOn sep

def stored? (f : Spec.Pbd.File) (s : String) : Option Spec.Pbd.Stored :=
  match s.splitOn ":" with
  | [i, g] => do
    let it ← f.items[← i.toNat?]?
    some ⟨← Bytes.ofHexFast g, it.bones⟩
  | _ => none

/-- malformed fields, an item without a stored block, or a placement outside `WFPlaced` ⇒ `none` ⇒ `bad-case` -/
def placedEncoder (stored reserved trailer : String) (f : Spec.Pbd.File) : Option Bytes := do
  let st ← (fields ";" stored).mapM (stored? f)
  let res ← (fields ";" reserved).mapM Bytes.ofHexFast
  let p : Spec.Pbd.Placement := ⟨st, res, ← Bytes.ofHexFast trailer⟩
  if !(decide (Spec.Pbd.WFPlaced f p)) then none
  Spec.Pbd.encodePlaced f p

end Physis.Driver.C16Pbd
