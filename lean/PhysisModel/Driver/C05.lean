import PhysisModel.Base.Proto
import PhysisModel.Spec.Excel
import PhysisModel.Model.Exd
import PhysisModel.Model.ExcelRootList
import PhysisModel.Spec.Archive
import PhysisModel.Spec.SqPackData
import PhysisModel.Spec.Deflate
import PhysisModel.Model.GameDataExcel
import PhysisModel.Model.Inflate
import PhysisModel.Driver.C01
import PhysisModel.Base.Mutate
/-!
Driver for C05.  Case grammar (single spaces, `-` = empty list):

* `row <sub 0|1> <version> <dataOffset> <cols> <pages> <langs> <rowCount> <rows> <query id>`
  * cols  `code:offset,…`   pages `start:count,…`   langs `code,…`
  * rows  `id=cells|cells;id=…`, cells `tok,tok…`, tok one of `s:<hex>` `b:0|1` `i8:` `u8:` `i16:`
    `u16:` `i32:` `u32:` `f:<u32 bit pattern>` `i64:` `u64:` (decimal, signed where signed)
  * input for the real code: `row <exh hex> <exd hex> <id>` (Spec encoders); answer: `none` or the
    sub-rows `cells|cells…` in the token syntax above
* `exh <sub> <version> <dataOffset> <cols> <pages> <langs> <rowCount>` — header round trip; answer
  `<dataOffset> <rowCount> <cols> <pages> <langs>` (the public fields)
* `fname <name hex> <lang code> <start id>` — page file name, as hex
* `names <version> <name hex>:<id>,…` — root list; input `exl <hex of encodeRootList>`; answer
  `<version> <name hex>:<id>,…` (what `get_all_sheet_names` / `read_excel_sheet_header` iterate over)
* `sheets <platform 0..4> <dirs> <calls> <record>…` — sheets stored in a synthetic installation and
  read through `GameData` (see the section "sheets in an archive" below for the record grammar)
* `mut <seed> <k> row …` / `mut <seed> <k> exh …` / `mut <seed> <k> names …` — the same encoded
  file(s) with `k` bytes damaged (`Base/Mutate.lean`; for `row` the header when `seed` is even,
  the page when it is odd; the query id is kept); expected = the answer of the model of the code on
  the damaged file (tags `corr mut`); `read_row` returns `None` where it used to panic (fix
  d7f255a), so the model's `panic` and `none` are one answer here
-/
namespace Physis.Driver.C05
open Physis Physis.Proto Physis.Spec.Excel

def colTypeOfCode (c : Nat) : Option ColType :=
  match c with
  | 0x0 => some .string | 0x1 => some .bool | 0x2 => some .int8 | 0x3 => some .uint8
  | 0x4 => some .int16 | 0x5 => some .uint16 | 0x6 => some .int32 | 0x7 => some .uint32
  | 0x9 => some .float32 | 0xA => some .int64 | 0xB => some .uint64
  | n => if h : 0x19 ≤ n ∧ n < 0x21 then some (.packedBool ⟨n - 0x19, by omega⟩) else none

def langOfCode : Nat → Option Lang
  | 0 => some .none | 1 => some .ja | 2 => some .en | 3 => some .de | 4 => some .fr
  | 5 => some .chs | 6 => some .cht | 7 => some .ko | _ => none

def splitList (s : String) (sep : String) : List String := if s == "-" then [] else s.splitOn sep

def pair (s : String) (sep : String) : Option (String × String) :=
  match s.splitOn sep with
  | [a, b] => some (a, b)
  | _ => none

def natLt (s : String) (bound : Nat) : Option Nat := do
  let n ← s.toNat?
  if n < bound then some n else none

def intIn (s : String) (bits : Nat) : Option Nat := do
  let i ← s.toInt?
  if i < -(2 ^ (bits - 1) : Int) ∨ i ≥ (2 ^ (bits - 1) : Int) then none
  else if i ≥ 0 then some i.toNat else some (2 ^ bits - i.natAbs)

def parseCell (t : String) : Option Cell := do
  let (k, v) ← pair t ":"
  match k with
  | "s" => (Bytes.ofHexFast v).map .str
  | "b" => if v == "1" then some (.bool true) else if v == "0" then some (.bool false) else none
  | "i8" => (intIn v 8).map (fun n => .i8 (UInt8.ofNat n))
  | "u8" => (natLt v (2 ^ 8)).map (fun n => .u8 (UInt8.ofNat n))
  | "i16" => (intIn v 16).map (fun n => .i16 (UInt16.ofNat n))
  | "u16" => (natLt v (2 ^ 16)).map (fun n => .u16 (UInt16.ofNat n))
  | "i32" => (intIn v 32).map (fun n => .i32 (UInt32.ofNat n))
  | "u32" => (natLt v (2 ^ 32)).map (fun n => .u32 (UInt32.ofNat n))
  | "f" => (natLt v (2 ^ 32)).map (fun n => .f32 (UInt32.ofNat n))
  | "i64" => (intIn v 64).map (fun n => .i64 (UInt64.ofNat n))
  | "u64" => (natLt v (2 ^ 64)).map (fun n => .u64 (UInt64.ofNat n))
  | _ => none

def signed (n bits : Nat) : Int := if n < 2 ^ (bits - 1) then (n : Int) else (n : Int) - (2 ^ bits : Int)

def showCell : Cell → String
  | .str s => "s:" ++ Bytes.toHex s
  | .bool b => if b then "b:1" else "b:0"
  | .i8 v => "i8:" ++ toString (signed v.toNat 8)
  | .u8 v => "u8:" ++ toString v.toNat
  | .i16 v => "i16:" ++ toString (signed v.toNat 16)
  | .u16 v => "u16:" ++ toString v.toNat
  | .i32 v => "i32:" ++ toString (signed v.toNat 32)
  | .u32 v => "u32:" ++ toString v.toNat
  | .f32 v => "f:" ++ toString v.toNat
  | .i64 v => "i64:" ++ toString (signed v.toNat 64)
  | .u64 v => "u64:" ++ toString v.toNat

def showData : Exd.ColumnData → String
  | .string s => "s:" ++ Bytes.toHex s
  | .bool b => if b then "b:1" else "b:0"
  | .int8 v => "i8:" ++ toString (signed v.toNat 8)
  | .uint8 v => "u8:" ++ toString v.toNat
  | .int16 v => "i16:" ++ toString (signed v.toNat 16)
  | .uint16 v => "u16:" ++ toString v.toNat
  | .int32 v => "i32:" ++ toString (signed v.toNat 32)
  | .uint32 v => "u32:" ++ toString v.toNat
  | .float32 v => "f:" ++ toString v.toNat
  | .int64 v => "i64:" ++ toString (signed v.toNat 64)
  | .uint64 v => "u64:" ++ toString v.toNat

def showSubs {α} (f : α → String) (subs : List (List α)) : String :=
  "|".intercalate (subs.map (fun cells => ",".intercalate (cells.map f)))

def parseRow (t : String) : Option Row := do
  let (i, rest) ← pair t "="
  let id ← natLt i (2 ^ 32)
  let subs ← (rest.splitOn "|").mapM (fun sub => (sub.splitOn ",").mapM parseCell)
  some { id := UInt32.ofNat id, subs }

def parseSchema (sub ver dof cols pages langs rc : String) : Option Schema := do
  let subrows ← if sub == "1" then some true else if sub == "0" then some false else none
  let version ← natLt ver (2 ^ 16)
  let dataOffset ← natLt dof (2 ^ 16)
  let columns ← (splitList cols ",").mapM (fun c => do
    let (a, b) ← pair c ":"
    let ty ← colTypeOfCode (← a.toNat?)
    let off ← natLt b (2 ^ 16)
    some ({ ty, offset := UInt16.ofNat off } : Column))
  let pages ← (splitList pages ",").mapM (fun c => do
    let (a, b) ← pair c ":"
    some ({ startId := UInt32.ofNat (← natLt a (2 ^ 32)), rowCount := UInt32.ofNat (← natLt b (2 ^ 32)) } : Page))
  let languages ← (splitList langs ",").mapM (fun c => do langOfCode (← c.toNat?))
  let rowCount ← natLt rc (2 ^ 32)
  some { version := UInt16.ofNat version, dataOffset := UInt16.ofNat dataOffset, columns, pages,
         languages, rowCount := UInt32.ofNat rowCount, subrows }

def showExhSpec (s : Schema) : String :=
  s!"{s.dataOffset.toNat} {s.rowCount.toNat} " ++
  (if s.columns.isEmpty then "-" else ",".intercalate (s.columns.map (fun c => s!"{c.ty.code.toNat}:{c.offset.toNat}"))) ++ " " ++
  (if s.pages.isEmpty then "-" else ",".intercalate (s.pages.map (fun p => s!"{p.startId.toNat}:{p.rowCount.toNat}"))) ++ " " ++
  (if s.languages.isEmpty then "-" else ",".intercalate (s.languages.map (fun l => toString l.code.toNat)))

def showExhModel (e : Exh.EXH) : String :=
  s!"{e.header.dataOffset.toNat} {e.header.rowCount.toNat} " ++
  (if e.columnDefinitions.isEmpty then "-" else ",".intercalate (e.columnDefinitions.map (fun c => s!"{c.dataType.code.toNat}:{c.offset.toNat}"))) ++ " " ++
  (if e.pages.isEmpty then "-" else ",".intercalate (e.pages.map (fun p => s!"{p.startId.toNat}:{p.rowCount.toNat}"))) ++ " " ++
  (if e.languages.isEmpty then "-" else ",".intercalate (e.languages.map (fun l => toString l.code.toNat)))

def showR (r : Exd.R (List (List Exd.ColumnData))) : String :=
  match r with
  | .ok subs => showSubs showData subs
  | .error .none => "none"
  | .error .panic => "panic"

/-! ## sheets in an archive

  sheets <platform 0..4> <dirs> <calls> <record> <record> …

* dirs     comma-separated hex names of the directories below `sqpack` (listing order)
* records  (space-separated token groups, in this order: at most one `R`, then sheets each followed by its pages)
  * `R <store> <version> <name hex>:<id>,…`                       the root list `exd/root.exl`
  * `S <name hex> <store> <sub> <ver> <dataOffset> <cols> <pages> <langs> <rowCount>`   a sheet and its header
  * `P <page index> <lang code> <store> <rows>`                     a page file of the preceding sheet
* store    `-` (the file is not stored) or `<chunk>.<kinds 1|2|3>.<dat id>.<gap>.<pattern>`: index
           chunk, index kinds that list it (1 = `.index`, 2 = `.index2`, 3 = both), dat file id,
           128-byte units of filler in front of the entry, and the block pattern `<n><r|s|f>_…`:
           the content is cut into blocks of these sizes (cyclically) stored raw / as an RFC 1951
           stored stream / as a fixed-Huffman literal stream
* calls    comma-separated, all on one handle, in order:
           `n` get_all_sheet_names · `h<name hex>` read_excel_sheet_header ·
           `s<header name hex>.<page name hex>.<lang>.<page>[.<id>…]` read_excel_sheet_header, then
           read_excel_sheet with that header under the (possibly differently spelled) page name,
           then `read_row` per id · `e<path hex>` exists · `o<path hex>` find_offset

Every file is encoded by the `Spec/` encoders (`encodeRootList` / `encodeExh` / `encodeExd`,
`packStandard`, `encodeIndex`); category, repository directory and file names come from
`Spec/Archive` (`resolve`, `indexName`, `datName`).  `input`: `sheets <platform> <dirs> <files> <calls>`
with files as in C01.  Answers joined by `;`: `N<name hex>,…` | `H<header fields>` |
`S<row answer>+…` | `T` | `F` | `o<n>` | `onone` | `none` | `hdr-none` | `page-none` | `panic`.
-/
section archive
open Physis.Spec.Archive Physis.Spec.SqPackData

structure Store where
  chunk : Nat
  kinds : Nat
  dat : Nat
  gap : Nat
  pattern : List (Nat × Char)

def parseStore (s : String) : Option (Option Store) :=
  if s == "-" then some none else
  match s.splitOn "." with
  | [ch, k, d, g, pat] => do
    let pattern ← (pat.splitOn "_").mapM (fun t => do
      let m := t.back
      let n ← (t.dropEnd 1).toString.toNat?
      if n == 0 || !(m == 'r' || m == 's' || m == 'f') then none else some (n, m))
    let k ← k.toNat?
    if k < 1 || k > 3 || pattern.isEmpty then none else
    some (some { chunk := ← ch.toNat?, kinds := k, dat := ← d.toNat?, gap := ← g.toNat?, pattern })
  | _ => none

inductive Content
  | root (v : Int) (es : List (Bytes × Int))
  | header (s : Schema)
  | page (s : Schema) (rows : List Row)

def Content.bytes : Content → Bytes
  | .root v es => encodeRootList v es
  | .header s => encodeExh s
  | .page s rows => encodeExd s rows

def Content.wf : Content → Bool
  | .root v es => decide (WFrootList v es)
  | .header s => decide (WFschema s)
  | .page s rows => decide (WFschema s) && decide (WFrows s rows)

structure StoredFile where
  path : Bytes
  content : Content
  store : Store

/-- "exd/root.exl" -/
def rootPath : Bytes := "exd/root.exl".toUTF8.toList

/-- the `R` / `S` / `P` records; `cur` = the sheet the following `P` records belong to -/
def parseRecords : List String → Option (Bytes × Schema) → Option (List StoredFile)
  | [], _ => some []
  | "R" :: st :: ver :: ents :: rest, cur => do
    let st ← parseStore st
    let v ← ver.toInt?
    let es ← (splitList ents ",").mapM (fun e => do
      let (n, i) ← pair e ":"
      some ((← Bytes.ofHexFast n), (← i.toInt?)))
    let more ← parseRecords rest cur
    some (match st with | some st => ⟨rootPath, .root v es, st⟩ :: more | none => more)
  | "S" :: name :: st :: sub :: ver :: dof :: cols :: pages :: langs :: rc :: rest, _ => do
    let name ← Bytes.ofHexFast name
    let st ← parseStore st
    let s ← parseSchema sub ver dof cols pages langs rc
    let more ← parseRecords rest (some (name, s))
    some (match st with | some st => ⟨headerPath name, .header s, st⟩ :: more | none => more)
  | "P" :: k :: lang :: st :: rows :: rest, cur => do
    let (name, s) ← cur
    let k ← k.toNat?
    let l ← lang.toNat?.bind langOfCode
    let st ← parseStore st
    let rows ← (splitList rows ";").mapM parseRow
    let pg ← s.pages[k]?
    let more ← parseRecords rest cur
    some (match st with
      | some st => ⟨Str.lower (pagePath name l pg), .page s rows, st⟩ :: more
      | none => more)
  | _, _ => none

/-! ### a fixed-Huffman, literals-only DEFLATE stream (RFC 1951 §3.2.6) -/

/-- `n` bits of `v`, most significant first (Huffman codes are packed MSB first) -/
def msbBits (n v : Nat) : List Bool := (List.range n).map (fun i => v.testBit (n - 1 - i))

def litCode (b : UInt8) : List Bool :=
  if b.toNat < 144 then msbBits 8 (0x30 + b.toNat) else msbBits 9 (0x190 + (b.toNat - 144))

/-- bits to bytes, least significant bit first (fuel: one unit per byte suffices) -/
def packBitsAux : Nat → List Bool → Bytes
  | 0, _ => []
  | fuel + 1, bs =>
    if bs.isEmpty then [] else
    let byte := (bs.take 8).zipIdx.foldl (fun acc (b, i) => if b then acc + 2 ^ i else acc) 0
    UInt8.ofNat byte :: packBitsAux fuel (bs.drop 8)

def packBits (bs : List Bool) : Bytes := packBitsAux bs.length bs

/-- BFINAL = 1, BTYPE = 01, one literal code per byte, end-of-block (7 zero bits) -/
def fixedLiteralStream (d : Bytes) : Bytes :=
  packBits ([true, true, false] ++ d.flatMap litCode ++ List.replicate 7 false)

def mkBlock (data : Bytes) : Char → Block
  | 's' => { data, compressed := some (Spec.Deflate.storedBlock data) }
  | 'f' => { data, compressed := some (fixedLiteralStream data) }
  | _ => { data, compressed := none }

/-- cut `content` into blocks with the sizes / modes of `pat`, cyclically -/
def cutBlocks (pat : List (Nat × Char)) : Nat → Nat → Bytes → List Block
  | 0, _, _ => []
  | fuel + 1, i, content =>
    if content.isEmpty then [] else
    match pat[i % pat.length]? with
    | none => []
    | some (n, m) => mkBlock (content.take n) m :: cutBlocks pat fuel (i + 1) (content.drop n)

structure Placed where
  files : List ((Nat × Nat × Nat × Nat) × Bytes)        -- (exp, cat id, chunk, dat id) ↦ dat file
  slots : List ((Nat × Nat × Nat × Nat) × List Entry)   -- (exp, cat id, chunk, kind 1|2) ↦ entries
  table : List ((Nat × Nat × Nat × Nat × Nat) × Content) -- (exp, cat id, chunk, dat id, offset) ↦ what sits there

def updList {κ α} [BEq κ] (l : List (κ × α)) (k : κ) (dflt : α) (f : α → α) : List (κ × α) :=
  if l.any (fun x => x.1 == k) then l.map (fun x => if x.1 == k then (x.1, f x.2) else x)
  else l ++ [(k, f dflt)]

def filler (n seed : Nat) : Bytes := (List.range n).map (fun i => ((i * 13 + seed) % 251 + 1).toUInt8)

/-- place one file: repository and category as `Spec.Archive.resolve` says for its path -/
def place (dirs : List Bytes) (pl : Placed) (f : StoredFile) : Option Placed := do
  let a0 : Archive := { platform := .win32, dirs, slot := fun _ _ _ _ => .absent }
  let (exp, cat) ← resolve a0 f.path
  if !f.content.wf then none
  let bs := cutBlocks f.store.pattern (f.content.bytes.length + 1) 0 f.content.bytes
  if !standardWf bs || contents bs != f.content.bytes then none
  let dk := (exp, cat.id, f.store.chunk, f.store.dat)
  let cur := ((pl.files.lookup dk).getD []).length
  let off := cur + 128 * f.store.gap
  let files := updList pl.files dk [] (fun d => d ++ filler (128 * f.store.gap) cur ++ packStandard bs)
  let addTo (slots : List ((Nat × Nat × Nat × Nat) × List Entry)) (kn : Nat) (k : Kind) :=
    match hashOf k f.path with
    | some h => updList slots (exp, cat.id, f.store.chunk, kn) [] (fun es =>
        es ++ [{ hash := h, synonym := false, datId := f.store.dat.toUInt8, offset := off.toUInt64 }])
    | none => slots
  let slots := if f.store.kinds == 1 || f.store.kinds == 3 then addTo pl.slots 1 .index1 else pl.slots
  let slots := if f.store.kinds == 2 || f.store.kinds == 3 then addTo slots 2 .index2 else slots
  some { files, slots, table := pl.table ++ [((exp, cat.id, f.store.chunk, f.store.dat, off), f.content)] }

inductive ACall
  | names
  | header (name : Bytes)
  | sheet (hname pname : Bytes) (lang : Lang) (page : Nat) (ids : List UInt32)
  | query (q : GameData.Query)

def parseCall (s : String) : Option ACall := do
  if s == "n" then some .names
  else if s.startsWith "h" then some (.header (← Bytes.ofHexFast (s.drop 1).toString))
  else if s.startsWith "s" then
    match (s.drop 1).toString.splitOn "." with
    | hn :: pn :: lang :: page :: ids =>
      some (.sheet (← Bytes.ofHexFast hn) (← Bytes.ofHexFast pn) (← lang.toNat?.bind langOfCode) (← page.toNat?)
        ((← ids.mapM (fun i => natLt i (2 ^ 32))).map UInt32.ofNat))
    | _ => none
  else if s.startsWith "e" then some (.query (.exists (← Bytes.ofHexFast (s.drop 1).toString)))
  else if s.startsWith "o" then some (.query (.findOffset (← Bytes.ofHexFast (s.drop 1).toString)))
  else none

/-- what the installation stores under a game path (specification: `locate`, then the table of
what was packed where) -/
def storedAt (a : Archive) (table : List ((Nat × Nat × Nat × Nat × Nat) × Content)) (p : Bytes) : Option Content :=
  match locate a p with
  | none => none
  | some l => table.lookup (l.exp, l.cat.id, l.chunk, l.datId.toNat, l.offset.toNat)

def rootOf (a : Archive) (table : List ((Nat × Nat × Nat × Nat × Nat) × Content)) : Option (List (Bytes × Int)) :=
  match storedAt a table rootPath with
  | some (.root _ es) => some es
  | _ => none

def headerOf (a : Archive) (table : List ((Nat × Nat × Nat × Nat × Nat) × Content)) (name : Bytes) : Option Schema :=
  match rootOf a table with
  | none => none
  | some es =>
    if es.any (fun e => e.1 == name) then
      match storedAt a table (headerPath name) with
      | some (.header s) => some s
      | _ => none
    else none

/-- the specification's answer to a call; the `Bool` says whether a known-finding row was read;
`none` = the case is outside the grammar (a page decoded with a foreign header) -/
def specCall (a : Archive) (table : List ((Nat × Nat × Nat × Nat × Nat) × Content)) : ACall → Option (String × Bool)
  | .names =>
    some (match rootOf a table with
      | some es => "N" ++ (if es.isEmpty then "-" else ",".intercalate (es.map (fun e => Bytes.toHex e.1)))
      | none => "none", false)
  | .header name =>
    some (match headerOf a table name with
      | some s => "H" ++ showExhSpec s
      | none => "none", false)
  | .sheet hname pname lang k ids =>
    match headerOf a table hname with
    | none => some ("hdr-none", false)
    | some s =>
      match s.pages[k]? with
      | none => none
      | some pg =>
        match storedAt a table (pagePath pname lang pg) with
        | some (.page s' rows) =>
          if encodeExh s' != encodeExh s then none else
          let hits := ids.map (fun q => rows.find? (fun r => r.id == q))
          some ("S" ++ "+".intercalate (hits.map (fun h => match h with
              | some r => showSubs showCell r.subs
              | none => "none")),
            hits.any (fun h => match h with | some r => singleSubrow s r | none => false))
        | some _ => none
        | none => some ("page-none", false)
  | .query (.exists p) => some (if (locate a p).isSome then "T" else "F", false)
  | .query (.findOffset p) =>
    some (match locate a p with | some l => "o" ++ toString l.offset.toNat | none => "onone", false)
  | .query _ => none

def showOO {α} (f : α → String) : Option (Option α) → String
  | none => "panic"
  | some none => "none"
  | some (some x) => f x

/-- the model's answers: all calls on one handle -/
def modelCalls (disk : GameData.Disk) : GameData.GameData → List ACall → List String
  | _, [] => []
  | g, c :: cs =>
    let inflate : Dat.Inflate := fun c n => Physis.Inflate.inflatesTo c n
    match c with
    | .names =>
      let (r, g) := GameData.getAllSheetNames inflate disk g
      showOO (fun ns => "N" ++ (if ns.isEmpty then "-" else ",".intercalate (ns.map Bytes.toHex))) r :: modelCalls disk g cs
    | .header name =>
      let (r, g) := GameData.readExcelSheetHeader inflate disk g name
      showOO (fun h => "H" ++ showExhModel h) r :: modelCalls disk g cs
    | .sheet hname pname lang k ids =>
      let (r, g) := GameData.readExcelSheetHeader inflate disk g hname
      match r with
      | none => "panic" :: modelCalls disk g cs
      | some none => "hdr-none" :: modelCalls disk g cs
      | some (some exh) =>
        match Exh.Language.ofCode lang.code with
        | none => "bad-lang" :: modelCalls disk g cs
        | some ml =>
          let (r, g) := GameData.readExcelSheet inflate disk g pname exh ml k
          (match r with
            | none => "panic"
            | some none => "page-none"
            | some (some exd) => "S" ++ "+".intercalate (ids.map (fun q => showR (Exd.readRow exd exh q))))
            :: modelCalls disk g cs
    | .query q =>
      let (ans, g) := GameData.step disk g q
      C01.showAnswer disk ans :: modelCalls disk g cs

def handleSheets (pl dirs calls : String) (records : List String) : Option String := do
  let plat ← C01.platOf (← pl.toNat?)
  let dirsB ← (splitList dirs ",").mapM Bytes.ofHexFast
  let callsP ← (splitList calls ",").mapM parseCall
  let stored ← parseRecords records none
  let placed ← stored.foldlM (place dirsB) { files := [], slots := [], table := [] }
  let slotSpecs ← placed.slots.mapM (fun ((e, c, ch, kn), es) => do
    let cat ← C01.catOfId c
    let k ← C01.kindOf kn
    let f : IndexFile := { platform := plat, kind := k, entries := es,
                           dataSeg := List.replicate 256 0xFF, folderSeg := List.replicate 16 0x11 }
    if !f.wf then none else
    some ({ exp := e, cat, chunk := ch, kind := k, slot := .file f } : C01.SlotSpec))
  -- files of a directory that does not exist cannot exist
  if slotSpecs.any (fun s => !dirsB.contains (repoDir s.exp)) then none
  let a := C01.archiveOf plat dirsB slotSpecs
  let datFiles ← placed.files.mapM (fun ((e, c, ch, d), b) => do
    let cat ← C01.catOfId c
    some ((repoDir e, datName plat e cat ch d), b))
  let files : C01.Files :=
    slotSpecs.filterMap (fun s => (s.slot.bytes).map (fun b => ((repoDir s.exp, indexName plat s.exp s.cat s.chunk s.kind), b)))
      ++ datFiles
  let spec ← callsP.mapM (specCall a placed.table)
  let disk : GameData.Disk := fun d n => files.lookup (d, n)
  let model := match GameData.fromExisting (C01.modelPlat plat) dirsB with
    | none => callsP.map (fun _ => "panic")
    | some g => modelCalls disk g callsP
  let implCalls := ",".intercalate (callsP.map (fun c => match c with
    | .names => "n"
    | .header n => "h" ++ Bytes.toHex n
    | .sheet hn pn l k ids => "s" ++ ".".intercalate ([Bytes.toHex hn, Bytes.toHex pn, toString l.code.toNat, toString k] ++ ids.map (fun i => toString i.toNat))
    | .query (.exists p) => "e" ++ Bytes.toHex p
    | .query (.findOffset p) => "o" ++ Bytes.toHex p
    | .query (.extract p) => "x" ++ Bytes.toHex p))
  let input := " ".intercalate ["sheets", toString plat.id.toNat, dirs, C01.showFiles files, implCalls]
  let triv := spec.all (fun x => x.1 == "none" || x.1 == "hdr-none" || x.1 == "page-none" || x.1 == "F" || x.1 == "onone")
  let tags := (if triv then ["triv"] else []) ++ (if spec.any (·.2) then ["kf:exd.single-subrow"] else [])
  if callsP.isEmpty then none else
  some (answer input (";".intercalate (spec.map (·.1))) tags (some (";".intercalate model)))

end archive

/-- `row …` (and `mut <seed> <k> row …`: `k` damaged bytes in the header — even `seed` — or in the
page — odd `seed`; the query id is kept) -/
def handleRow (sub ver dof cols pages langs rc rows q : String) (dmg : Option (UInt64 × Nat) := none) : String :=
  match parseSchema sub ver dof cols pages langs rc, (splitList rows ";").mapM parseRow, natLt q (2 ^ 32) with
  | some s, some rs, some qn =>
    if decide (WFschema s) && decide (WFrows s rs) then
      let q := UInt32.ofNat qn
      if let some (seed, k) := dmg then
        let inHeader := seed % 2 == 0
        let exh := if inHeader then Mutate.mutate (encodeExh s) seed k else encodeExh s
        let exd := if inHeader then encodeExd s rs else Mutate.mutate (encodeExd s rs) seed k
        -- `read_row` returns `None` where it used to panic (fix d7f255a): one answer
        let model := match Exh.fromExisting exh with
          | none => "parse-none:exh"
          | some h =>
            match Exd.fromExisting exd with
            | none => "parse-none:exd"
            | some d =>
              match Exd.readRow d h q with
              | .ok subs => showSubs showData subs
              | .error _ => "none"
        answer s!"row {Bytes.toHex exh} {Bytes.toHex exd} {qn}" model ["corr", "mut"]
      else
      let exh := encodeExh s
      let exd := encodeExd s rs
      let hit := rs.find? (fun r => r.id == q)
      let expected := match hit with
        | some r => showSubs showCell r.subs
        | none => "none"
      let tags := match hit with
        | some r => if singleSubrow s r then ["kf:exd.single-subrow"] else []
        | none => []
      let model := match Exh.fromExisting exh, Exd.fromExisting exd with
        | some h, some d => showR (Exd.readRow d h q)
        | _, _ => "parse-none"
      answer s!"row {Bytes.toHex exh} {Bytes.toHex exd} {qn}" expected tags (some model)
    else bad
  | _, _, _ => bad

/-- `exh …` (and `mut <seed> <k> exh …`) -/
def handleExh (sub ver dof cols pages langs rc : String) (dmg : Option (UInt64 × Nat) := none) : String :=
  match parseSchema sub ver dof cols pages langs rc with
  | some s =>
    if decide (WFschema s) then
      let exh := match dmg with
        | some (seed, k) => Mutate.mutate (encodeExh s) seed k
        | none => encodeExh s
      let model := match Exh.fromExisting exh with
        | some h => showExhModel h
        | none => "none"
      if dmg.isSome then answer s!"exh {Bytes.toHex exh}" model ["corr", "mut"] else
      answer s!"exh {Bytes.toHex exh}" (showExhSpec s) [] (some model)
    else bad
  | none => bad

/-- `names …` (and `mut <seed> <k> names …`: damaged bytes of the root list text) -/
def handleNames (ver ents : String) (dmg : Option (UInt64 × Nat) := none) : String :=
  match ver.toInt?, (splitList ents ",").mapM (fun e => do
      let (n, i) ← pair e ":"
      some ((← Bytes.ofHexFast n), (← i.toInt?))) with
  | some v, some es =>
    if decide (WFrootList v es) then
      let showEs := fun (l : List (Bytes × Int)) =>
        if l.isEmpty then "-" else ",".intercalate (l.map (fun e => s!"{Bytes.toHex e.1}:{e.2}"))
      let file := match dmg with
        | some (seed, k) => Mutate.mutate (encodeRootList v es) seed k
        | none => encodeRootList v es
      let m := ExcelRootList.fromExisting file
      if dmg.isSome then answer s!"exl {Bytes.toHex file}" s!"{m.version} {showEs m.entries}" ["corr", "mut"] else
      answer s!"exl {Bytes.toHex file}" s!"{v} {showEs es}" []
        (some s!"{m.version} {showEs m.entries}")
    else bad
  | _, _ => bad

/-- `namesj <version> <entries> <junk>`: a root list with lines that are no entries (blank lines,
text without a comma, a name without a number, `#` comments — `junk`, hex lines joined by `,`,
line `i mod n` goes in front of entry `i`, the last one also behind the last entry): such lines
are ignored, every entry before and behind them is listed.  Correspondence only (the theorem
`c05_sheet_names` speaks about `encodeRootList`). -/
def handleNamesJ (ver ents junk : String) : String :=
  match ver.toInt?, (splitList ents ",").mapM (fun e => do
      let (n, i) ← pair e ":"
      some ((← Bytes.ofHexFast n), (← i.toInt?))),
      (junk.splitOn ",").mapM (fun j => if j == "e" then some [] else Bytes.ofHexFast j) with
  | some v, some es, some js =>
    let junkOk := js.all fun j => !j.contains 10 &&
      (j.isEmpty || j.head? == some 0x23 || !j.contains 0x2c ||
        (j.getLast? == some 0x2c) || (j.reverse.takeWhile (· != 0x2c)).any (fun c => c < 0x30 || c > 0x39))
    if decide (WFrootList v es) && junkOk && !js.isEmpty then
      let showEs := fun (l : List (Bytes × Int)) =>
        if l.isEmpty then "-" else ",".intercalate (l.map (fun e => s!"{Bytes.toHex e.1}:{e.2}"))
      -- a junk list that starts with the token `crlf` (hex 63726c66) asks for CR LF line ends
      -- throughout (that token itself is then no line)
      let crlf := js.head? == some [0x63, 0x72, 0x6c, 0x66]
      let js := if crlf then js.drop 1 else js
      let nl : Bytes := if crlf then [13, 10] else [10]
      let jl := fun (i : Nat) => if js.isEmpty then [] else nl ++ js.getD (i % js.length) []
      let file := [0x45, 0x58, 0x4c, 0x54, 0x2c] ++ showInt v
        ++ (es.zipIdx.map (fun (e, i) => jl i ++ nl ++ (e.1 ++ 0x2c :: showInt e.2))).flatten ++ jl es.length
        ++ (if crlf then nl else [])
      let m := ExcelRootList.fromExisting file
      answer s!"exl {Bytes.toHex file}" s!"{v} {showEs es}" ["corr"] (some s!"{m.version} {showEs m.entries}")
    else bad
  | _, _, _ => bad

/-- one case line in, one answer line out (see `Base/Proto.lean`) -/
def handle (line : String) : String :=
  match fields line with
  | "idx" :: _ => Physis.Driver.C01.handle line
  | "sheets" :: pl :: dirs :: calls :: records =>
    match handleSheets pl dirs calls records with
    | some r => r
    | none => bad
  | ["row", sub, ver, dof, cols, pages, langs, rc, rows, q] => handleRow sub ver dof cols pages langs rc rows q
  | ["exh", sub, ver, dof, cols, pages, langs, rc] => handleExh sub ver dof cols pages langs rc
  | ["mut", seed, k, "row", sub, ver, dof, cols, pages, langs, rc, rows, q] =>
    match seed.toNat?, k.toNat? with
    | some s, some k => handleRow sub ver dof cols pages langs rc rows q (some (s.toUInt64, k))
    | _, _ => bad
  | ["mut", seed, k, "exh", sub, ver, dof, cols, pages, langs, rc] =>
    match seed.toNat?, k.toNat? with
    | some s, some k => handleExh sub ver dof cols pages langs rc (some (s.toUInt64, k))
    | _, _ => bad
  | ["mut", seed, k, "names", ver, ents] =>
    match seed.toNat?, k.toNat? with
    | some s, some k => handleNames ver ents (some (s.toUInt64, k))
    | _, _ => bad
  | ["fname", name, lang, start] =>
    match Bytes.ofHexFast name, lang.toNat?.bind langOfCode, natLt start (2 ^ 32) with
    | some n, some l, some st =>
      let expected := pageFileName n l { startId := UInt32.ofNat st, rowCount := 0 }
      let model := match Exh.Language.ofCode l.code with
        | some ml => Bytes.toHex (Exd.calculateFilename n ml { startId := UInt32.ofNat st, rowCount := 0 })
        | none => "none"
      answer "=" (Bytes.toHex expected) [] (some model)
    | _, _, _ => bad
  | ["names", ver, ents] => handleNames ver ents
  | ["namesj", ver, ents, junk] => handleNamesJ ver ents junk
  | _ => bad

end Physis.Driver.C05
