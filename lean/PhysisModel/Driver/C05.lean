import PhysisModel.Base.Proto
import PhysisModel.Spec.Excel
import PhysisModel.Model.Exd
import PhysisModel.Model.ExcelRootList
/-!
Driver for C05.  Case grammar (single spaces, `-` = empty list):

* `row <sub 0|1> <version> <dataOffset> <cols> <pages> <langs> <rowCount> <rows> <query id>`
  * cols  `code:offset,…`   pages `start:count,…`   langs `code,…`
  * rows  `id=cells|cells;id=…`, cells `tok,tok…`, tok one of `s:<hex>` `b:0|1` `i8:` `u8:` `i16:`
    `u16:` `i32:` `u32:` `f:<u32 bit pattern>` `i64:` `u64:` (decimal, signed where signed)
  * input for the real code: `row <exh hex> <exd hex> <id>` (Spec encoders); answer: `none` or the
    sub-rows `cells|cells…` in the token syntax above
* `exh <sub> <version> <dataOffset> <cols> <pages> <langs> <rowCount>` — header round trip; answer
  `<dataOffset> <rowCount> <cols> <pages> <langs>` (the public fields)
* `fname <name hex> <lang code> <start id>` — page file name, as hex
* `names <version> <name hex>:<id>,…` — root list; input `exl <hex of encodeRootList>`; answer
  `<version> <name hex>:<id>,…` (what `get_all_sheet_names` / `read_excel_sheet_header` iterate over)
-/
namespace Physis.Driver.C05
open Physis Physis.Proto Physis.Spec.Excel

def colTypeOfCode (c : Nat) : Option ColType :=
  match c with
  | 0x0 => some .string | 0x1 => some .bool | 0x2 => some .int8 | 0x3 => some .uint8
  | 0x4 => some .int16 | 0x5 => some .uint16 | 0x6 => some .int32 | 0x7 => some .uint32
  | 0x9 => some .float32 | 0xA => some .int64 | 0xB => some .uint64
  | n => if h : 0x19 ≤ n ∧ n < 0x21 then some (.packedBool ⟨n - 0x19, by omega⟩) else none

def langOfCode : Nat → Option Lang
  | 0 => some .none | 1 => some .ja | 2 => some .en | 3 => some .de | 4 => some .fr
  | 5 => some .chs | 6 => some .cht | 7 => some .ko | _ => none

def splitList (s : String) (sep : String) : List String := if s == "-" then [] else s.splitOn sep

def pair (s : String) (sep : String) : Option (String × String) :=
  match s.splitOn sep with
  | [a, b] => some (a, b)
  | _ => none

def natLt (s : String) (bound : Nat) : Option Nat := do
  let n ← s.toNat?
  if n < bound then some n else none

def intIn (s : String) (bits : Nat) : Option Nat := do
  let i ← s.toInt?
  if i < -(2 ^ (bits - 1) : Int) ∨ i ≥ (2 ^ (bits - 1) : Int) then none
  else if i ≥ 0 then some i.toNat else some (2 ^ bits - i.natAbs)

def parseCell (t : String) : Option Cell := do
  let (k, v) ← pair t ":"
  match k with
  | "s" => (Bytes.ofHexFast v).map .str
  | "b" => if v == "1" then some (.bool true) else if v == "0" then some (.bool false) else none
  | "i8" => (intIn v 8).map (fun n => .i8 (UInt8.ofNat n))
  | "u8" => (natLt v (2 ^ 8)).map (fun n => .u8 (UInt8.ofNat n))
  | "i16" => (intIn v 16).map (fun n => .i16 (UInt16.ofNat n))
  | "u16" => (natLt v (2 ^ 16)).map (fun n => .u16 (UInt16.ofNat n))
  | "i32" => (intIn v 32).map (fun n => .i32 (UInt32.ofNat n))
  | "u32" => (natLt v (2 ^ 32)).map (fun n => .u32 (UInt32.ofNat n))
  | "f" => (natLt v (2 ^ 32)).map (fun n => .f32 (UInt32.ofNat n))
  | "i64" => (intIn v 64).map (fun n => .i64 (UInt64.ofNat n))
  | "u64" => (natLt v (2 ^ 64)).map (fun n => .u64 (UInt64.ofNat n))
  | _ => none

def signed (n bits : Nat) : Int := if n < 2 ^ (bits - 1) then (n : Int) else (n : Int) - (2 ^ bits : Int)

def showCell : Cell → String
  | .str s => "s:" ++ Bytes.toHex s
  | .bool b => if b then "b:1" else "b:0"
  | .i8 v => "i8:" ++ toString (signed v.toNat 8)
  | .u8 v => "u8:" ++ toString v.toNat
  | .i16 v => "i16:" ++ toString (signed v.toNat 16)
  | .u16 v => "u16:" ++ toString v.toNat
  | .i32 v => "i32:" ++ toString (signed v.toNat 32)
  | .u32 v => "u32:" ++ toString v.toNat
  | .f32 v => "f:" ++ toString v.toNat
  | .i64 v => "i64:" ++ toString (signed v.toNat 64)
  | .u64 v => "u64:" ++ toString v.toNat

def showData : Exd.ColumnData → String
  | .string s => "s:" ++ Bytes.toHex s
  | .bool b => if b then "b:1" else "b:0"
  | .int8 v => "i8:" ++ toString (signed v.toNat 8)
  | .uint8 v => "u8:" ++ toString v.toNat
  | .int16 v => "i16:" ++ toString (signed v.toNat 16)
  | .uint16 v => "u16:" ++ toString v.toNat
  | .int32 v => "i32:" ++ toString (signed v.toNat 32)
  | .uint32 v => "u32:" ++ toString v.toNat
  | .float32 v => "f:" ++ toString v.toNat
  | .int64 v => "i64:" ++ toString (signed v.toNat 64)
  | .uint64 v => "u64:" ++ toString v.toNat

def showSubs {α} (f : α → String) (subs : List (List α)) : String :=
  "|".intercalate (subs.map (fun cells => ",".intercalate (cells.map f)))

def parseRow (t : String) : Option Row := do
  let (i, rest) ← pair t "="
  let id ← natLt i (2 ^ 32)
  let subs ← (rest.splitOn "|").mapM (fun sub => (sub.splitOn ",").mapM parseCell)
  some { id := UInt32.ofNat id, subs }

def parseSchema (sub ver dof cols pages langs rc : String) : Option Schema := do
  let subrows ← if sub == "1" then some true else if sub == "0" then some false else none
  let version ← natLt ver (2 ^ 16)
  let dataOffset ← natLt dof (2 ^ 16)
  let columns ← (splitList cols ",").mapM (fun c => do
    let (a, b) ← pair c ":"
    let ty ← colTypeOfCode (← a.toNat?)
    let off ← natLt b (2 ^ 16)
    some ({ ty, offset := UInt16.ofNat off } : Column))
  let pages ← (splitList pages ",").mapM (fun c => do
    let (a, b) ← pair c ":"
    some ({ startId := UInt32.ofNat (← natLt a (2 ^ 32)), rowCount := UInt32.ofNat (← natLt b (2 ^ 32)) } : Page))
  let languages ← (splitList langs ",").mapM (fun c => do langOfCode (← c.toNat?))
  let rowCount ← natLt rc (2 ^ 32)
  some { version := UInt16.ofNat version, dataOffset := UInt16.ofNat dataOffset, columns, pages,
         languages, rowCount := UInt32.ofNat rowCount, subrows }

def showExhSpec (s : Schema) : String :=
  s!"{s.dataOffset.toNat} {s.rowCount.toNat} " ++
  (if s.columns.isEmpty then "-" else ",".intercalate (s.columns.map (fun c => s!"{c.ty.code.toNat}:{c.offset.toNat}"))) ++ " " ++
  (if s.pages.isEmpty then "-" else ",".intercalate (s.pages.map (fun p => s!"{p.startId.toNat}:{p.rowCount.toNat}"))) ++ " " ++
  (if s.languages.isEmpty then "-" else ",".intercalate (s.languages.map (fun l => toString l.code.toNat)))

def showExhModel (e : Exh.EXH) : String :=
  s!"{e.header.dataOffset.toNat} {e.header.rowCount.toNat} " ++
  (if e.columnDefinitions.isEmpty then "-" else ",".intercalate (e.columnDefinitions.map (fun c => s!"{c.dataType.code.toNat}:{c.offset.toNat}"))) ++ " " ++
  (if e.pages.isEmpty then "-" else ",".intercalate (e.pages.map (fun p => s!"{p.startId.toNat}:{p.rowCount.toNat}"))) ++ " " ++
  (if e.languages.isEmpty then "-" else ",".intercalate (e.languages.map (fun l => toString l.code.toNat)))

def showR (r : Exd.R (List (List Exd.ColumnData))) : String :=
  match r with
  | .ok subs => showSubs showData subs
  | .error .none => "none"
  | .error .panic => "panic"

/-- one case line in, one answer line out (see `Base/Proto.lean`) -/
def handle (line : String) : String :=
  match fields line with
  | ["row", sub, ver, dof, cols, pages, langs, rc, rows, q] =>
    match parseSchema sub ver dof cols pages langs rc, (splitList rows ";").mapM parseRow, natLt q (2 ^ 32) with
    | some s, some rs, some qn =>
      if decide (WFschema s) && decide (WFrows s rs) then
        let q := UInt32.ofNat qn
        let exh := encodeExh s
        let exd := encodeExd s rs
        let hit := rs.find? (fun r => r.id == q)
        let expected := match hit with
          | some r => showSubs showCell r.subs
          | none => "none"
        let tags := match hit with
          | some r => if singleSubrow s r then ["kf:exd.single-subrow"] else []
          | none => []
        let model := match Exh.fromExisting exh, Exd.fromExisting exd with
          | some h, some d => showR (Exd.readRow d h q)
          | _, _ => "parse-none"
        answer s!"row {Bytes.toHex exh} {Bytes.toHex exd} {qn}" expected tags (some model)
      else bad
    | _, _, _ => bad
  | ["exh", sub, ver, dof, cols, pages, langs, rc] =>
    match parseSchema sub ver dof cols pages langs rc with
    | some s =>
      if decide (WFschema s) then
        let exh := encodeExh s
        let model := match Exh.fromExisting exh with
          | some h => showExhModel h
          | none => "none"
        answer s!"exh {Bytes.toHex exh}" (showExhSpec s) [] (some model)
      else bad
    | none => bad
  | ["fname", name, lang, start] =>
    match Bytes.ofHexFast name, lang.toNat?.bind langOfCode, natLt start (2 ^ 32) with
    | some n, some l, some st =>
      let expected := pageFileName n l { startId := UInt32.ofNat st, rowCount := 0 }
      let model := match Exh.Language.ofCode l.code with
        | some ml => Bytes.toHex (Exd.calculateFilename n ml { startId := UInt32.ofNat st, rowCount := 0 })
        | none => "none"
      answer "=" (Bytes.toHex expected) [] (some model)
    | _, _, _ => bad
  | ["names", ver, ents] =>
    match ver.toInt?, (splitList ents ",").mapM (fun e => do
        let (n, i) ← pair e ":"
        some ((← Bytes.ofHexFast n), (← i.toInt?))) with
    | some v, some es =>
      if decide (WFrootList v es) then
        let showEs := fun (l : List (Bytes × Int)) =>
          if l.isEmpty then "-" else ",".intercalate (l.map (fun e => s!"{Bytes.toHex e.1}:{e.2}"))
        let m := ExcelRootList.fromExisting (encodeRootList v es)
        answer s!"exl {Bytes.toHex (encodeRootList v es)}" s!"{v} {showEs es}" []
          (some s!"{m.version} {showEs m.entries}")
      else bad
    | _, _ => bad
  | _ => bad

end Physis.Driver.C05
