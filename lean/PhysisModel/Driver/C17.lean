import PhysisModel.Base.Proto
import PhysisModel.Generated.C17Enums
import PhysisModel.Model.Fault.Cfg
import PhysisModel.Model.Fault.Fiin
import PhysisModel.Model.Fault.Gearsets
import PhysisModel.Model.Fault.Log
import PhysisModel.Model.Fault.Patchlist
import PhysisModel.Model.Fault.Patch
import PhysisModel.Model.Fault.Exec
namespace Physis.Driver.C17
open Physis Physis.Proto Physis.F Physis.StrF

def chardatEnums : Chardat.Enums where
  race := fun b => Generated.C17Enums.raceValid.contains b.toNat
  gender := fun b => Generated.C17Enums.genderValid.contains b.toNat
  tribe := fun b => Generated.C17Enums.tribeValid.contains b.toNat

def logEnums : Log.Enums where
  filter := fun b => Generated.C17Enums.filterTable.lookup b.toNat
  channel := fun b => Generated.C17Enums.channelTable.lookup b.toNat

/-- outcome line of an `Option`-returning entry point -/
def outcome (m : M α) (digest : α → Bytes) (inputLen : Nat) : String :=
  let over := if m.peak > budget inputLen then " overalloc:model" else ""
  match m.res with
  | .ok a => "some:" ++ hex64 (fnv1a (digest a)) ++ over
  | .fail => "none" ++ over
  | .fault f => "fault:" ++ f.name ++ over

def kindOf (s : String) : Option Patchlist.Kind :=
  if s == "boot" then some .boot else if s == "game" then some .game else none

def plEntry (i : Nat) (s : String) : Option Patchlist.PatchEntry :=
  match s.splitOn "," with
  | [a, b, c, d] => do
    let len ← a.toInt?
    let size ← b.toInt?
    let hbs ← c.toInt?
    let nh ← d.toNat?
    pure ⟨Patchlist.str s!"u{i}", Patchlist.str s!"v{i}", hbs, len, size,
      (List.range nh).map (fun j => Patchlist.str s!"h{j}")⟩
  | _ => none

def plEntries (s : String) : Option (List Patchlist.PatchEntry) :=
  if s == "-" then some [] else
  let rec go (i : Nat) : List String → Option (List Patchlist.PatchEntry)
    | [] => some []
    | x :: r => do let e ← plEntry i x; let es ← go (i + 1) r; pure (e :: es)
  go 0 (s.splitOn ";")

def plRoundTrip (k : Patchlist.Kind) (b : Bytes) : String :=
  if !validUtf8 b then "not-utf8" else
  let m := Patchlist.fromString true k b
  match m.res with
  | .ok ps =>
    let w := Patchlist.toString true k [] [] ps
    match w.res with
    | .ok out =>
      let over := if max m.peak w.peak > budget b.length then " overalloc:model" else ""
      "ok:" ++ hex64 (fnv1a (Patchlist.digest ps)) ++ ":" ++ hex64 (fnv1a (dBytes out)) ++ over
    | .fail => "none"
    | .fault f => "fault:" ++ f.name
  | .fail => "none"
  | .fault f => "fault:" ++ f.name

/-- the subset of raw deflate the generator emits: one final *stored* block (anything else is
answered as "does not inflate"; the generator's other streams start with the reserved block type) -/
def miniInflate (comp : Bytes) (n : Nat) : Bool :=
  match comp with
  | h :: l0 :: l1 :: n0 :: n1 :: rest =>
    if h &&& 7 == 1 then
      let len := l0.toNat + 256 * l1.toNat
      let nlen := n0.toNat + 256 * n1.toNat
      len + nlen == 0xFFFF && len ≤ rest.length && len ≤ n
    else false
  | _ => false

def parseTree (s : String) : Option (List Fs.Path × List Fs.Path) :=
  if s == "-" then some ([], []) else
  (s.splitOn ";").foldlM (fun (acc : List Fs.Path × List Fs.Path) e =>
    match e.splitOn ":" with
    | [k, h] =>
      match Bytes.ofHex h with
      | some b =>
        let p := Fs.components b
        let pre := (Fs.prefixes p).filter (fun q => !q.isEmpty)
        if k == "d" then some (acc.1 ++ pre, acc.2)
        else if k == "f" then some (acc.1 ++ pre.dropLast, acc.2 ++ [p])
        else none
      | none => none
    | _ => none) ([], [])

def applyOutcome (root : Fs.Root) (dirs files : List Fs.Path) (b : Bytes) : String × List String :=
  let fs : Fs.FS := { root := root, dirs := if root == .dir then dirs else [], files := if root == .dir then files else [] }
  let m := Patch.apply miniInflate (2 ^ 24) fs b
  -- never taken (`c17_apply_alloc`); kept so that a model that did over-request would disagree with
  -- the implementation's measured answer instead of passing silently
  let over := if m.peak > budget b.length then " overalloc:model" else ""
  match m.res with
  | .ok _ => ("ok" ++ over, [])
  | .fail => ("err" ++ over, [])
  | .fault f => ("fault:" ++ f.name ++ over, [])

/-- one case line in, one answer line out (see `Base/Proto.lean`) -/
def handle1 (line : String) : String :=
  match fields line with
  | [op, h] =>
    match Bytes.ofHexFast h with
    | none => bad
    | some b =>
      let n := b.length
      let triv := if n ≤ 1 then ["triv"] else []
      match op with
      | "cfg" => answer "=" (outcome (Cfg.fromExisting true b) Cfg.digest n) triv
      | "exl" => answer "=" (outcome (Exl.fromExisting b) Exl.digest n) triv
      | "fiin" => answer "=" (outcome (Fiin.fromExisting true b) Fiin.digest n) triv
      | "chardat" => answer "=" (outcome (Chardat.fromExisting true chardatEnums b) Chardat.digest n) triv
      | "gearsets" => answer "=" (outcome (Gearsets.fromExisting true b) Gearsets.digest n) triv
      | "log" => answer "=" (outcome (Log.fromExisting true logEnums b) Log.digest n) triv
      | "pl_boot" => answer "=" (plRoundTrip .boot b) triv
      | "pl_game" => answer "=" (plRoundTrip .game b) triv
      | _ => bad
  | ["apply", root, tree, mode, h] =>
    let root? : Option Fs.Root := if root == "dir" then some .dir else if root == "missing" then some .missing
      else if root == "file" then some .file else none
    match root?, parseTree tree, Bytes.ofHexFast h with
    | some r, some (ds, fs), some b =>
      if mode == "file" then
        let (o, tags) := applyOutcome r ds fs b
        answer "=" o tags
      else if mode == "missing" || mode == "isdir" then answer "=" "err"
      else bad
    | _, _, _ => bad
  | ["applyfull", ph, h] =>
    -- `applyfull <path hex> <patch hex>`: the patch (built by the generator: an AddFile command with
    -- non-empty blocks for that path, then EOF_) is applied to a tree in which the path is a link to
    -- a device whose every write fails (`/dev/full`): the target opens and seeks, the write does
    -- not.  "A patch that fails part-way reports an error rather than success": expected `err`,
    -- provided the same patch on a tree with a regular file at the path succeeds (sanity of the case)
    match Bytes.ofHex ph, Bytes.ofHexFast h with
    | some p, some b =>
      let path := Fs.components p
      let pre := (Fs.prefixes path).filter (fun q => !q.isEmpty)
      let (o, _) := applyOutcome .dir pre.dropLast [path] b
      if o == "ok" then answer "=" "err" ["io-fault:write"] else bad
    | _, _ => bad
  | ["execlookup", mode, h] =>
    match Bytes.ofHexFast h with
    | some b =>
      if mode == "file" then answer "=" (outcome (Exec.extractFrontierUrl true (some b)) dBytes b.length)
      else if mode == "missing" || mode == "isdir" then answer "=" (outcome (Exec.extractFrontierUrl true none) dBytes 0)
      else bad
    | none => bad
  | ["bootdata", mode, h] =>
    match Bytes.ofHexFast h with
    | some b =>
      if mode == "ok" then answer "=" (outcome (Exec.bootData true (some b)) dBytes b.length)
      else if mode == "nodir" then answer "=" (outcome (Exec.bootData false none) dBytes 0)
      else if mode == "nover" || mode == "verdir" then answer "=" (outcome (Exec.bootData true none) dBytes 0)
      else bad
    | none => bad
  | ["pl_write", k, es] =>
    match kindOf k, plEntries es with
    | some k, some ps =>
      let w := Patchlist.toString true k (Patchlist.str "ID") (Patchlist.str "loc") ps
      match w.res with
      | .ok out => answer "=" ("ok:" ++ hex64 (fnv1a (dBytes out)))
      | .fail => answer "=" "none"
      | .fault f => answer "=" ("fault:" ++ f.name)
    | _, _ => bad
  | _ => bad

/-- `leak <n> <case>`: the case repeated `5·n + 1` times in one process (`harness/src/c17_leak.rs`).
The specified answer is the case's own — every call is a function of its input alone and leaves
nothing behind: neither heap (the models log every request of a call and hold no state between
calls; `c17_*_alloc`), nor inflate state, nor descriptors. -/
def handle (line : String) : String :=
  match fields line with
  | "leak" :: n :: rest =>
    match n.toNat? with
    | some k =>
      if k = 0 ∨ k > 10000 ∨ rest.isEmpty ∨ rest.head? == some "leak" then bad
      else handle1 (" ".intercalate rest)
    | none => bad
  | _ => handle1 line

end Physis.Driver.C17
