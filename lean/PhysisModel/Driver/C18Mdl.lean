import PhysisModel.Base.Proto
import PhysisModel.Base.ParserA
import PhysisModel.Driver.C18Util
import PhysisModel.Model.C18Mdl
namespace Physis.Driver.C18Mdl
open Physis Physis.Proto Physis.A Physis.Driver.C18

/-- `none` = not a case of this part -/
def handle? (f : List String) : Option String :=
  match f with
  | ["mdl", h] =>
    match Bytes.ofHexFast h with
    | some b =>
      some (answer "=" (Physis.C18Mdl.mdl b).cls
        (if Physis.C18Mdl.amplified b then ["kf:mdl-overlap-amplification"] else []))
    | none => some bad
  | _ => none

end Physis.Driver.C18Mdl
