import PhysisModel.Base.Proto
import PhysisModel.Base.ParserA
namespace Physis.Driver.C18
open Physis Physis.Proto Physis.A

/-- an asset entry point on bytes: the expected answer is the outcome class of the model
(`none` / `some`); a fault of the model (never, by the `c18_*_total` theorems) would be printed
as `fault:<kind>` and can only disagree with the implementation's `panic:` line. -/
def asset {α : Type} (e : Bytes → Res α) (h : String) : String :=
  match Bytes.ofHexFast h with
  | some b => answer "=" (e b).cls
  | none => bad

/-- an entry point that has no complete model (panic-by-construction readers covered by recorded
findings): the specified answer is "any outcome that is not a crash", printed `ok` by the harness -/
def anyOk (h : String) : String :=
  match Bytes.ofHexFast h with
  | some _ => answer "=" "ok"
  | none => bad

end Physis.Driver.C18
