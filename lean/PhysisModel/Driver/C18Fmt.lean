import PhysisModel.Base.Proto
import PhysisModel.Base.ParserA
import PhysisModel.Driver.C18Util
import PhysisModel.Model.C18Fmt
namespace Physis.Driver.C18Fmt
open Physis Physis.Proto Physis.A Physis.Driver.C18

/-- `none` = not a case of this part -/
def handle? (f : List String) : Option String :=
  match f with
  | ["cmp", h] => some (asset Physis.C18Fmt.cmp h)
  | ["tex", h] => some (asset Physis.C18Fmt.tex h)
  | ["exdrow", hx, dx, id] =>
    match Bytes.ofHexFast hx, Bytes.ofHexFast dx, id.toNat? with
    | some hb, some db, some i =>
      if i ≤ 4294967295 then some (answer "=" (Physis.C18Fmt.exdRow hb db i).cls) else some bad
    | _, _, _ => some bad
  | _ => none

end Physis.Driver.C18Fmt
