import PhysisModel.Base.Proto
import PhysisModel.Model.Blowfish
import PhysisModel.Spec.Blowfish
/-!
C11 driver.  Case grammar (hex fields, `-` = empty):

* `enc <key> <msg>`  — `Blowfish::new(key).encrypt(msg)`
* `dec <key> <data>` — `Blowfish::new(key).decrypt(data)`
* `rt <key> <msg>`   — `decrypt(encrypt(msg))`
* `seq <key> <e|d><hex>,<e|d><hex>,…` — ONE `Blowfish::new(key)` handle, then `encrypt` (`e`) /
  `decrypt` (`d`) calls in that order on the same handle; the answers joined by `,`.  The
  property gives every call the answer it has on a fresh handle (the cipher has no per-call state).
* `kat <key> <plain> <cipher>` — a published ECB test vector (8-byte key, block and ciphertext as
  the big-endian words `L‖R` of the publication); the harness feeds the two words little-endian.

`expected` is computed by `Spec/Blowfish.lean` only: textbook Blowfish keyed with the first 8 key
bytes, tables = hexadecimal digits of π computed by the spec (never the tables extracted from the
source).  For `rt` it is `pad8 msg` itself, for `kat` the published ciphertext — and the line is
rejected (`bad-case`, a machinery failure) if the spec cipher does not reproduce the publication.
`model` is the model of the Rust code running on the extracted tables.
-/
namespace Physis.Driver.C11
open Physis Physis.Proto

def optHex (o : Option Bytes) : String := match o with | some b => Bytes.toHex b | none => "none"

/-- the key the property assigns to `key`: its first 8 bytes (`none`: outside the quantifier) -/
def specKey (key : Bytes) : Option { k : Bytes // 0 < k.length } :=
  if h : 8 ≤ key.length then some ⟨key.take 8, by simp; omega⟩ else none

/-- big-endian word pair of a published vector -/
def bePair : Bytes → Option (UInt32 × UInt32)
  | [a, b, c, d, e, f, g, h] => some (Spec.Blowfish.le32 d c b a, Spec.Blowfish.le32 h g f e)
  | _ => none

def wordSwap (x : UInt32 × UInt32) : Bytes := putU32le x.1 ++ putU32le x.2

def seqItem (s : String) : Option (Bool × Bytes) :=
  match s.toList with
  | 'e' :: r => (Bytes.ofHexFast (String.ofList r)).map (true, ·)
  | 'd' :: r => (Bytes.ofHexFast (String.ofList r)).map (false, ·)
  | _ => none

def handle (line : String) : String :=
  match fields line with
  | ["seq", k, items] =>
    match Bytes.ofHexFast k, (items.splitOn ",").mapM seqItem with
    | some key, some ops =>
      match specKey key with
      | none => bad
      | some ⟨k8, h8⟩ =>
        let spec := ops.map fun (enc, m) =>
          Bytes.toHex (if enc then Spec.Blowfish.encrypt k8 h8 m else Spec.Blowfish.decrypt k8 h8 m)
        let model := match Blowfish.new key with
          | none => ["none"]
          | some st => ops.map fun (enc, m) => optHex (if enc then Blowfish.encrypt st m else Blowfish.decrypt st m)
        answer "=" (String.intercalate "," spec) [] (some (String.intercalate "," model))
    | _, _ => bad
  | [op, k, m] =>
    match Bytes.ofHexFast k, Bytes.ofHexFast m with
    | some key, some msg =>
      match specKey key with
      | none => bad
      | some ⟨k8, h8⟩ =>
        if op == "enc" then
          answer "=" (Bytes.toHex (Spec.Blowfish.encrypt k8 h8 msg)) []
            (some (optHex (Blowfish.encryptWith key msg)))
        else if op == "dec" then
          answer "=" (Bytes.toHex (Spec.Blowfish.decrypt k8 h8 msg)) []
            (some (optHex (Blowfish.decryptWith key msg)))
        else if op == "rt" then
          answer "=" (Bytes.toHex (Spec.Blowfish.pad8 msg)) (if msg.isEmpty then ["triv"] else [])
            (some (optHex ((Blowfish.new key).bind fun st => (Blowfish.encrypt st msg).bind (Blowfish.decrypt st))))
        else bad
    | _, _ => bad
  | ["kat", k, p, c] =>
    match Bytes.ofHex k, (Bytes.ofHex p).bind bePair, (Bytes.ofHex c).bind bePair with
    | some key, some plain, some cipher =>
      if h : key.length = 8 then
        let t := Spec.Blowfish.subkeys key (by omega)
        if Spec.Blowfish.encryptBlock t plain == cipher && Spec.Blowfish.decryptBlock t cipher == plain then
          answer "=" (Bytes.toHex (wordSwap cipher)) []
            (some (optHex (Blowfish.encryptWith key (wordSwap plain))))
        else bad  -- the spec cipher disagrees with the published vector
      else bad
    | _, _, _ => bad
  | _ => bad

end Physis.Driver.C11
