import PhysisModel.Base.Proto
import PhysisModel.Model.Cfg
import PhysisModel.Model.Exl
import PhysisModel.Spec.CfgText
import PhysisModel.Spec.ExlText
/-!
C08 driver.  Case grammar (see `harness/src/c08.rs`):

* `cfg <config> <edits> <probes>` — parse the documented file of `<config>`, observe, apply the
  `set_value` sequence, observe again.
* `cfgw <config> <presence>` — build the `ConfigFile` value directly (for a category without keys
  the presence bit says whether the map holds an empty entry), write, parse back.
* `exl <version> <rows> <probes>` / `exlw <version> <entries>` — same for Excel lists.

`<config>` = `.` | categories separated by `;`, each `<name>{,<key>=<value>}`; `<edits>` = `.` |
`<key>=<value>,…`; `<probes>` = `.` | `<hex>,…`; `<rows>` = `.` | `E<name>=<int>` / `C<text>`
separated by `,`.  All text as hex of its UTF-8 bytes (`-` = empty).
-/
namespace Physis.Driver.C08
open Physis Physis.Proto

def hx (s : String) : Option Bytes := Bytes.ofHexFast s

def listOf (s : String) (sep : String) : List String := if s == "." then [] else s.splitOn sep

def parsePair (s : String) : Option (Bytes × Bytes) :=
  match s.splitOn "=" with
  | [k, v] => do pure (← hx k, ← hx v)
  | _ => none

def parseCategory (s : String) : Option Spec.Cfg.Category :=
  match s.splitOn "," with
  | [] => none
  | n :: kvs => do pure (← hx n, ← kvs.mapM parsePair)

def parseConfig (s : String) : Option Spec.Cfg.Config := (listOf s ";").mapM parseCategory
def parseEdits (s : String) : Option (List (Bytes × Bytes)) := (listOf s ",").mapM parsePair
def parseProbes (s : String) : Option (List Bytes) := (listOf s ",").mapM hx

def showPair (e : Bytes × Bytes) : String := e.1.toHex ++ "=" ++ e.2.toHex
def showConfig (c : Spec.Cfg.Config) : String :=
  if c.isEmpty then "." else
  ";".intercalate (c.map fun cat => ",".intercalate (cat.1.toHex :: cat.2.map showPair))
def showEdits (l : List (Bytes × Bytes)) : String :=
  if l.isEmpty then "." else ",".intercalate (l.map showPair)
def showProbes (l : List Bytes) : String :=
  if l.isEmpty then "." else ",".intercalate (l.map Bytes.toHex)
def bit (b : Bool) : String := if b then "1" else "0"

/-! ### configuration: specification answers -/

def specQueries (c : Spec.Cfg.Config) (probes : List Bytes) : String :=
  String.join (probes.map fun p =>
    bit (decide (p ∈ Spec.Cfg.keysOf c)) ++ bit (decide (p ∈ Spec.Cfg.namesOf c)))

def specCfg (c : Spec.Cfg.Config) (edits : List (Bytes × Bytes)) (probes : List Bytes) : String :=
  let c' := Spec.Cfg.setValues c edits
  "P[" ++ showConfig c ++ " x=0]|W0[same]|Q0[" ++ specQueries c probes ++
  "]|E[" ++ showConfig c' ++ " x=0]|W1[" ++ (Spec.Cfg.encode c').toHex ++ "]|Q1[" ++ specQueries c' probes ++ "]|R[ok]"

/-! ### configuration: answers of the model of the code -/

/-- canonical dump of a `ConfigFile`, exactly as `harness/src/c08.rs` prints the real one -/
def dumpCf (cf : Cfg.ConfigFile) : String :=
  let v : Spec.Cfg.Config := cf.categories.map fun n =>
    (n, match Cfg.get? cf.settings n with | some ks => ks | none => [])
  let extra := (cf.settings.filter fun m => !cf.categories.contains m.1).length
  showConfig v ++ " x=" ++ toString extra

def modelQueries (cf : Cfg.ConfigFile) (probes : List Bytes) : String :=
  String.join (probes.map fun p => bit (Cfg.hasKey cf p) ++ bit (Cfg.hasCategory cf p))

def modelCfg (file : Bytes) (edits : List (Bytes × Bytes)) (probes : List Bytes) : String :=
  match Cfg.parseCfg file with
  | none => "panic"
  | some cf =>
    let w0 := Cfg.writeCfg cf
    let cf' := edits.foldl (fun cf e => Cfg.setValue cf e.1 e.2) cf
    let w1 := Cfg.writeCfg cf'
    let r := match Cfg.parseCfg w1 with
      | none => "panic"
      | some cf2 => if dumpCf cf2 == dumpCf cf' then "ok" else "diff:" ++ dumpCf cf2
    "P[" ++ dumpCf cf ++ "]|W0[" ++ (if w0 == file then "same" else w0.toHex) ++ "]|Q0[" ++ modelQueries cf probes ++
    "]|E[" ++ dumpCf cf' ++ "]|W1[" ++ w1.toHex ++ "]|Q1[" ++ modelQueries cf' probes ++ "]|R[" ++ r ++ "]"

/-- the `ConfigFile` value built directly for `cfgw` -/
def buildCf (c : Spec.Cfg.Config) (presence : List Bool) : Cfg.ConfigFile :=
  ⟨c.map (·.1), ((c.zip presence).filter fun cp => !cp.1.2.isEmpty || cp.2).map (·.1)⟩

def modelCfgW (cf : Cfg.ConfigFile) : String :=
  let w := Cfg.writeCfg cf
  "W[" ++ w.toHex ++ "]|R[" ++ (match Cfg.parseCfg w with | none => "panic" | some cf2 => dumpCf cf2) ++ "]"

/-! ### Excel lists -/

def parseInt32 (s : String) : Option Int :=
  match s.toInt? with
  | some v => if -2147483648 ≤ v ∧ v ≤ 2147483647 then some v else none
  | none => none

def parseRow (s : String) : Option Spec.Exl.Row :=
  match s.toList with
  | 'E' :: rest =>
    match (String.ofList rest).splitOn "=" with
    | [n, i] => do pure (.entry (← hx n) (← parseInt32 i))
    | _ => none
  | 'C' :: rest => do pure (.comment (← hx (String.ofList rest)))
  | _ => none

def showEntries (es : List (Bytes × Int)) : String :=
  if es.isEmpty then "." else ",".intercalate (es.map fun e => e.1.toHex ++ "=" ++ toString e.2)

def exlAnswer (version : Int) (entries : List (Bytes × Int)) (written : Bytes) (cont : List Bool) (r : String) : String :=
  "V[" ++ toString version ++ "]|E[" ++ showEntries entries ++ "]|W[" ++ written.toHex ++ "]|C[" ++
    String.join (cont.map bit) ++ "]|R[" ++ r ++ "]"

def specExl (f : Spec.Exl.ListFile) (probes : List Bytes) : String :=
  let es := Spec.Exl.entriesOf f
  exlAnswer f.version es (Spec.Exl.encode (Spec.Exl.stripComments f))
    (probes.map fun p => decide (p ∈ es.map (·.1))) "ok"

def modelExl (file : Bytes) (probes : List Bytes) : String :=
  let e := Exl.parseExl file
  let w := Exl.writeExl e
  let e2 := Exl.parseExl w
  exlAnswer e.version e.entries w (probes.map (Exl.contains e))
    (if e2 == e then "ok" else "diff:" ++ toString e2.version ++ ":" ++ showEntries e2.entries)

def modelExlW (e : Exl.EXL) : String :=
  let w := Exl.writeExl e
  let e2 := Exl.parseExl w
  "W[" ++ w.toHex ++ "]|R[" ++ toString e2.version ++ ":" ++ showEntries e2.entries ++ "]"

/-- one case line in, one answer line out (see `Base/Proto.lean`) -/
def handle (line : String) : String :=
  match fields line with
  | ["cfg", cs, es, ps] =>
    match parseConfig cs, parseEdits es, parseProbes ps with
    | some c, some edits, some probes =>
      let file := Spec.Cfg.encode c
      let triv := if c.isEmpty then ["triv"] else []
      answer ("cfg " ++ file.toHex ++ " " ++ showEdits edits ++ " " ++ showProbes probes)
        (specCfg c edits probes) triv (some (modelCfg file edits probes))
    | _, _, _ => bad
  | ["cfgw", cs, pr] =>
    match parseConfig cs with
    | some c =>
      let bits := if pr == "." then some [] else pr.toList.mapM fun ch =>
        if ch == '1' then some true else if ch == '0' then some false else none
      match bits with
      | some bits =>
        if bits.length ≠ c.length then bad else
        answer "=" ("W[" ++ (Spec.Cfg.encode c).toHex ++ "]|R[" ++ showConfig c ++ " x=0]")
          (if c.isEmpty then ["triv"] else []) (some (modelCfgW (buildCf c bits)))
      | none => bad
    | none => bad
  | ["exl", vs, rs, ps] =>
    match parseInt32 vs, (listOf rs ",").mapM parseRow, parseProbes ps with
    | some v, some rows, some probes =>
      let f : Spec.Exl.ListFile := ⟨v, rows⟩
      let file := Spec.Exl.encode f
      answer ("exl " ++ file.toHex ++ " " ++ showProbes probes) (specExl f probes) []
        (some (modelExl file probes))
    | _, _, _ => bad
  | ["exlw", vs, rs] =>
    match parseInt32 vs, (listOf rs ",").mapM parseRow with
    | some v, some rows =>
      let f : Spec.Exl.ListFile := ⟨v, rows⟩
      if Spec.Exl.stripComments f ≠ f then bad else
      let es := Spec.Exl.entriesOf f
      answer "=" ("W[" ++ (Spec.Exl.encode f).toHex ++ "]|R[" ++ toString v ++ ":" ++ showEntries es ++ "]") []
        (some (modelExlW ⟨v, es⟩))
    | _, _ => bad
  | _ => bad

end Physis.Driver.C08
