import PhysisModel.Base.Proto
import PhysisModel.Base.Half
import PhysisModel.Model.Shpk
import PhysisModel.Spec.Shpk
import PhysisModel.Spec.ShpkText
import PhysisModel.Spec.Crc32
import PhysisModel.Model.Mtrl
import PhysisModel.Spec.Mtrl
import PhysisModel.Spec.MtrlText
import PhysisModel.Base.Mutate
/-!
Driver of C14.  Ops:

* `sel k1,k2,…` — `build_selector`;  `selall sys scn mat sub` — `build_selector_from_all_keys`
* `shcrc <hex>` — `ShaderPackage::crc`
* `half h1,h2,…` — `f16::to_f32` bit patterns (ties `Base/Half.lean` to the `half` crate)
* `shpk key=value …` — a stored shader package (`Spec.Shpk.PackageF`), encoded here by
  `Spec.Shpk.encode`; `q=` lists the selectors passed to `find_node`
* `mtrl key=value …` — a stored material, encoded by `Spec.Mtrl.encode`
* `mut <seed> <k> shpk …` / `mut <seed> <k> mtrl …` — the same encoded file with `k` bytes damaged
  (`Base/Mutate.lean`); expected = the model's answer on the damaged file (tag `corr`); the reader's
  panic sites return `None` since the C18 fixes, so `panic` and `none` are one answer here
-/
namespace Physis.Driver.C14
open Physis Physis.Proto Physis.MsCommon
open Physis.Spec.Shpk

/-! ### case-line parsing helpers (reject, never default) -/

def splitList (sep : String) (s : String) : List String :=
  if s == "-" then [] else s.splitOn sep

def pU32 (s : String) : Option UInt32 := do
  let n ← s.toNat?
  if n < 4294967296 then some (UInt32.ofNat n) else none
def pU16 (s : String) : Option UInt16 := do
  let n ← s.toNat?
  if n < 65536 then some (UInt16.ofNat n) else none
def pU8 (s : String) : Option UInt8 := do
  let n ← s.toNat?
  if n < 256 then some (UInt8.ofNat n) else none

def pU32s (s : String) : Option (List UInt32) := (splitList "," s).mapM pU32
def pU16s (s : String) : Option (List UInt16) := (splitList "," s).mapM pU16

/-- `key=value` fields of a case line into an association list -/
def kvs (fs : List String) : Option (List (String × String)) :=
  fs.mapM fun f => match f.splitOn "=" with
    | [k, v] => some (k, v)
    | _ => none

def get (m : List (String × String)) (k : String) : Option String := m.lookup k

/-! ### shader packages -/

def pParam (s : String) : Option ParamF :=
  match s.splitOn ":" with
  | [id, off, len, unk, slot, size] => do
    pure { id := ← pU32 id, strOff := ← pU32 off, strLen := ← pU16 len, unknown := ← pU16 unk,
           slot := ← pU16 slot, size := ← pU16 size }
  | _ => none
def pParams (s : String) : Option (List ParamF) := (splitList "," s).mapM pParam

def pShader (s : String) : Option ShaderF :=
  match s.splitOn "/" with
  | [d, n, a, b, c, e] => do
    pure { dataOffset := ← pU32 d, dataSize := ← pU32 n, scalars := ← pParams a,
           resources := ← pParams b, uavs := ← pParams c, textures := ← pParams e }
  | _ => none
def pShaders (s : String) : Option (List ShaderF) := (splitList ";" s).mapM pShader

def pKey (s : String) : Option Key :=
  match s.splitOn ":" with
  | [a, b] => do pure { id := ← pU32 a, defaultValue := ← pU32 b }
  | _ => none
def pKeys (s : String) : Option (List Key) := (splitList "," s).mapM pKey

def pPass (s : String) : Option Pass :=
  match s.splitOn ":" with
  | [a, b, c] => do pure { id := ← pU32 a, vertexShader := ← pU32 b, pixelShader := ← pU32 c }
  | _ => none

def pAlias (s : String) : Option NodeAlias :=
  match s.splitOn ":" with
  | [a, b] => do pure { selector := ← pU32 a, node := ← pU32 b }
  | _ => none

def pMatParam (s : String) : Option MaterialParameter :=
  match s.splitOn ":" with
  | [a, b, c] => do pure { id := ← pU32 a, byteOffset := ← pU16 b, byteSize := ← pU16 c }
  | _ => none

def pNode (s : String) : Option NodeF :=
  match s.splitOn "/" with
  | [sel, idx, a, b, c, d, ps] => do
    pure { selector := ← pU32 sel, passIndices := ← Bytes.ofHex idx, systemKeys := ← pU32s a,
           sceneKeys := ← pU32s b, materialKeys := ← pU32s c, subviewKeys := ← pU32s d,
           passes := ← (splitList "," ps).mapM pPass }
  | _ => none

def pPackage (m : List (String × String)) : Option PackageF := do
  let sv ← pU32s (← get m "sv")
  let (sv1, sv2) ← (match sv with | [a, b] => some (a, b) | _ => none)
  pure {
    version := ← pU32 (← get m "ver"), format := ← Bytes.ofHex (← get m "fmt")
    fileLength := ← pU32 (← get m "flen"), materialParametersSize := ← pU32 (← get m "mps")
    hasMatParamDefaults := ← pU16 (← get m "hd")
    unknown1 := ← pU16 (← get m "u1"), unknown2 := ← pU16 (← get m "u2")
    vertexShaders := ← pShaders (← get m "vs"), pixelShaders := ← pShaders (← get m "ps")
    materialParameters := ← (splitList "," (← get m "mp")).mapM pMatParam
    matParamDefaults := ← pU32s (← get m "def")
    scalars := ← pParams (← get m "sc"), samplers := ← pParams (← get m "sa")
    textures := ← pParams (← get m "tx"), uavs := ← pParams (← get m "ua")
    systemKeys := ← pKeys (← get m "sk"), sceneKeys := ← pKeys (← get m "ck")
    materialKeys := ← pKeys (← get m "mk")
    subViewKey1Default := sv1, subViewKey2Default := sv2
    nodes := ← (splitList ";" (← get m "nodes")).mapM pNode
    aliases := ← (splitList "," (← get m "al")).mapM pAlias
    blob := ← Bytes.ofHex (← get m "blob"), strings := ← Bytes.ofHex (← get m "str") }

def showFind (r : Except Err (Option Nat)) : String :=
  match r with
  | .ok none => "none"
  | .ok (some i) => toString i
  | .error .panic => "panic"
  | .error .fail => "none"

/-- expected `find_node` answer from the specification -/
def specFind (p : ShaderPackage) (sel : UInt32) : String :=
  match resolve p.nodes p.nodeAliases sel with
  | none => "none"
  | some i => if i < p.nodes.length then toString i else "panic"

def handleShpk (fs : List String) (dmg : Option (UInt64 × Nat) := none) : String :=
  match kvs fs with
  | none => bad
  | some m =>
    match pPackage m, (get m "q").bind pU32s with
    | some f, some qs =>
      if !WF f then bad else
      if let some (seed, k) := dmg then
        let file := Mutate.mutate (encode f) seed k
        let model := match Shpk.fromExisting file with
          | .ok p => render p ++ ";find=" ++ brk "," (qs.map fun q =>
              match Shpk.findNodeIdx p q with | .ok (some i) => toString i | _ => "none")
          | .error _ => "none"
        answer ("shpk " ++ Bytes.toHex file ++ " " ++ showNatList (qs.map (·.toNat))) model ["corr", "mut"]
      else
      let file := encode f
      let v := view f
      let expected := render v ++ ";find=" ++ brk "," (qs.map (specFind v))
      let model := match Shpk.fromExisting file with
        | .ok p => render p ++ ";find=" ++ brk "," (qs.map fun q => showFind (Shpk.findNodeIdx p q))
        | .error .fail => "none"
        | .error .panic => "panic"
      answer ("shpk " ++ Bytes.toHex file ++ " " ++ showNatList (qs.map (·.toNat))) expected [] (some model)
    | _, _ => bad

/-! ### materials -/

namespace M
open Physis.Spec.Mtrl

/-- big-endian hex words (`3c00` = 1.0) -/
def pWords (s : String) : Option (List UInt16) := do
  let bs ← Bytes.ofHex s
  let rec go : Bytes → Option (List UInt16)
    | [] => some []
    | [_] => none
    | a :: b :: r => (go r).map ((a.toUInt16 <<< 8 ||| b.toUInt16) :: ·)
  go bs

def pBits (s : String) (n : Nat) : Option (List Bool) :=
  let cs := s.toList
  if cs.length = n && cs.all (fun c => c == '0' || c == '1') then some (cs.map (· == '1')) else none

def pColorSet (s : String) : Option ColorSetF :=
  match s.splitOn ":" with
  | [a, b] => do pure { nameOffset := ← pU16 a, index := ← pU16 b }
  | _ => none

def pColorTable (s : String) : Option ColorTableF :=
  if s == "none" then some .absent
  else if s == "opaque" then some .opaque
  else match s.splitOn ":" with
    | ["L", rows] => (splitList "/" rows).mapM pWords |>.map .legacy
    | ["D", rows] => (splitList "/" rows).mapM pWords |>.map .dawntrail
    | _ => none

def pLegacyDye (s : String) : Option LegacyColorDyeTableRow :=
  match s.splitOn "." with
  | [t, bits] => do
    match ← pBits bits 5 with
    | [a, b, c, d, e] => pure { template := ← pU16 t, diffuse := a, specular := b, emissive := c, gloss := d,
                                specularStrength := e }
    | _ => none
  | _ => none

def pDawntrailDye (s : String) : Option DawntrailDyeF :=
  match s.splitOn "." with
  | [t, ch, bits, spare] => do
    match ← pBits bits 12 with
    | [a, b, c, d, e, f, g, h, i, j, k, l] =>
      pure { row := { template := ← pU16 t, channel := ← pU8 ch, diffuse := a, specular := b, emissive := c
                      scalar3 := d, metalness := e, roughness := f, sheenRate := g, sheenTintRate := h
                      sheenAperture := i, anisotropy := j, sphereMapIndex := k, sphereMapMask := l }
             spare := ← pU32 spare }
    | _ => none
  | _ => none

def pDyeTable (s : String) : Option DyeTableF :=
  if s == "none" then some .absent
  else if s == "opaque" then some .opaque
  else match s.splitOn ":" with
    | ["L", rows] => (splitList "," rows).mapM pLegacyDye |>.map .legacy
    | ["D", rows] => (splitList "," rows).mapM pDawntrailDye |>.map .dawntrail
    | _ => none

def pShaderKey (s : String) : Option ShaderKey :=
  match s.splitOn ":" with
  | [a, b] => do pure { category := ← pU32 a, value := ← pU32 b }
  | _ => none

def pConstant (s : String) : Option ConstantF :=
  match s.splitOn ":" with
  | [a, b, c] => do pure { constantId := ← pU32 a, valueOffset := ← pU16 b, valueSize := ← pU16 c }
  | _ => none

def pSampler (s : String) : Option Sampler :=
  match s.splitOn ":" with
  | [u, fl, a, b, c, d] => do
    pure { textureUsage := ← u.toNat?, flags := ← pU32 fl, textureIndex := ← pU8 a, unknown1 := ← pU8 b
           unknown2 := ← pU8 c, unknown3 := ← pU8 d }
  | _ => none

def pMaterial (m : List (String × String)) : Option MaterialF := do
  pure {
    version := ← pU32 (← get m "ver"), fileSize := ← pU16 (← get m "fsz"), dataSetSize := ← pU16 (← get m "dss")
    textures := ← (splitList ";" (← get m "tex")).mapM (fun t => if t == "e" then some [] else Bytes.ofHex t)
    heapRest := ← Bytes.ofHex (← get m "rest")
    shaderPackageNameOffset := ← pU16 (← get m "spo")
    textureOffsets := ← pU32s (← get m "offs")
    uvSets := ← (splitList "," (← get m "uv")).mapM pColorSet
    colorSets := ← (splitList "," (← get m "cs")).mapM pColorSet
    tableFlags := ← pU32 (← get m "tf"), additionalRest := ← Bytes.ofHex (← get m "ar")
    colorTable := ← pColorTable (← get m "ct"), dyeTable := ← pDyeTable (← get m "dye")
    shaderValueListSize := ← pU16 (← get m "svs"), materialFlags := ← pU32 (← get m "mf")
    shaderKeys := ← (splitList "," (← get m "keys")).mapM pShaderKey
    constants := ← (splitList "," (← get m "const")).mapM pConstant
    samplers := ← (splitList "," (← get m "samp")).mapM pSampler
    shaderValues := ← pU32s (← get m "vals"), trailing := ← Bytes.ofHex (← get m "trail") }

def handleMtrl (fs : List String) (dmg : Option (UInt64 × Nat) := none) : String :=
  match kvs fs with
  | none => bad
  | some m =>
    match pMaterial m with
    | some f =>
      if !WF f then bad else
      if let some (seed, k) := dmg then
        let file := Mutate.mutate (encode f) seed k
        let model := match Mtrl.fromExisting file with
          | .ok p => render p
          | .error _ => "none"
        answer ("mtrl " ++ Bytes.toHex file) model ["corr", "mut"]
      else
      let file := encode f
      let model := match Mtrl.fromExisting file with
        | .ok p => render p
        | .error .fail => "none"
        | .error .panic => "panic"
      answer ("mtrl " ++ Bytes.toHex file) (render (view f)) [] (some model)
    | none => bad

end M

/-- one case line in, one answer line out (see `Base/Proto.lean`) -/
def handle (line : String) : String :=
  match fields line with
  | ["sel", ks] =>
    match pU32s ks with
    | some ks => answer "=" (n32 (selectorOf ks)) [] (some (n32 (Shpk.buildSelector ks)))
    | none => bad
  | ["selall", a, b, c, d] =>
    match pU32s a, pU32s b, pU32s c, pU32s d with
    | some a, some b, some c, some d =>
      answer "=" (n32 (selectorOf [selectorOf a, selectorOf b, selectorOf c, selectorOf d])) []
        (some (n32 (Shpk.buildSelectorFromAllKeys a b c d)))
    | _, _, _, _ => bad
  | ["shcrc", h] =>
    match Bytes.ofHexFast h with
    | some bs => answer "=" (n32 (Spec.Crc32.crcBitwise 0 0 bs)) []
        (some (n32 (Shpk.crc Spec.Crc32.zlibCrc32 bs)))
    | none => bad
  | ["half", hs] =>
    match pU16s hs with
    | some hs => answer "=" (showNatList (hs.map fun h => (halfToF32 h).toNat))
    | none => bad
  | "shpk" :: rest => handleShpk rest
  | "mtrl" :: rest => M.handleMtrl rest
  | "mut" :: seed :: k :: "shpk" :: rest =>
    match seed.toNat?, k.toNat? with
    | some s, some k => handleShpk rest (some (s.toUInt64, k))
    | _, _ => bad
  | "mut" :: seed :: k :: "mtrl" :: rest =>
    match seed.toNat?, k.toNat? with
    | some s, some k => M.handleMtrl rest (some (s.toUInt64, k))
    | _, _ => bad
  | _ => bad

end Physis.Driver.C14
