import PhysisModel.Base.Proto
import PhysisModel.Spec.Archive
import PhysisModel.Spec.SqPackData
import PhysisModel.Model.GameData
import PhysisModel.Model.Dat
import PhysisModel.Base.Mutate
/-!
Driver for C01.  Case grammar (one line, fields separated by single spaces):

  arch <platform 0..4> <dirs> <slots> <dats> <queries> <mode>

* dirs     `-` or comma-separated hex names of the directories below `sqpack` (listing order)
* slots    `-` or `;`-separated `exp:cat:chunk:kind:J<hex>` (junk file) or
           `exp:cat:chunk:kind:F,<platform>,<header kind 1|2>,<data seg len>,<folder seg len>[,<entry>…]`
           with entry = `P<path hex>/<syn 0|1>/<dat id>/<offset in 128-byte units>` (hash of the path
           under the header kind) or `H<n>/<m>/<syn>/<dat>/<units>` (explicit hash words; m ignored for index2)
* dats     `-` or `;`-separated `exp:cat:chunk:datid:<units>/<content hex>[,<units>/<content hex>…]`
           (a dat file holding raw single-block standard entries at those offsets)
* queries  comma-separated `e<path hex>` (exists) | `o<path hex>` (find_offset) | `x<path hex>` (extract)
* mode     `one` (all queries on one handle) | `fresh` (a new handle per query)

  idx <F,… file spec as above> <paths>      one index file, `SqPackIndex::find_entry` on each path (hex,
  comma-separated, each with a `/`); `input` = `<index file hex> <paths>`; answers `d<dat id>o<offset>` | `none`

`input` for the implementation: `<platform> <dirs> <files> <queries> <mode>` with
files = `;`-separated `<dir hex>/<name hex>:<content hex>` — every file encoded by `Spec/`.
Answers: comma-separated `T` | `F` | `o<decimal>` | `onone` | `x<hex>` | `xnone` | `panic`.
-/
namespace Physis.Driver.C01
open Physis Physis.Proto Physis.Spec.Archive

def platOf : Nat → Option Platform
  | 0 => some .win32 | 1 => some .ps3 | 2 => some .ps4 | 3 => some .ps5 | 4 => some .xbox | _ => none

def allCats : List Category :=
  [.common, .bgcommon, .bg, .cut, .chara, .shader, .ui, .sound, .vfx, .uiScript, .exd,
   .gameScript, .music, .sqpackTest, .debug]

def catOfId (n : Nat) : Option Category := allCats.find? (fun c => c.id == n)

def kindOf : Nat → Option Kind
  | 1 => some .index1 | 2 => some .index2 | _ => none

def splitList (s : String) (sep : String) : List String :=
  if s == "-" then [] else s.splitOn sep

structure SlotSpec where
  exp : Nat
  cat : Category
  chunk : Nat
  kind : Kind
  slot : Slot

def parseEntry (k : Kind) (s : String) : Option Entry := do
  if s.startsWith "P" then
    match (s.drop 1).toString.splitOn "/" with
    | [p, syn, dat, units] =>
      let p ← Bytes.ofHexFast p
      let h ← hashOf k (Str.lower p)
      some { hash := h, synonym := (← syn.toNat?) == 1, datId := (← dat.toNat?).toUInt8,
             offset := ((← units.toNat?) * 128).toUInt64 }
    | _ => none
  else if s.startsWith "H" then
    match (s.drop 1).toString.splitOn "/" with
    | [n, m, syn, dat, units] =>
      let n ← n.toNat?
      let m ← m.toNat?
      let h : Hash := match k with | .index1 => .split n.toUInt32 m.toUInt32 | .index2 => .full n.toUInt32
      some { hash := h, synonym := (← syn.toNat?) == 1, datId := (← dat.toNat?).toUInt8,
             offset := ((← units.toNat?) * 128).toUInt64 }
    | _ => none
  else none

def parseSlot (s : String) : Option SlotSpec := do
  match s.splitOn ":" with
  | [e, c, ch, k, spec] =>
    let e ← e.toNat?
    let c ← catOfId (← c.toNat?)
    let ch ← ch.toNat?
    let k ← kindOf (← k.toNat?)
    if spec.startsWith "J" then
      let bs ← Bytes.ofHexFast (spec.drop 1).toString
      some ⟨e, c, ch, k, .junk bs⟩
    else
      match spec.splitOn "," with
      | "F" :: pl :: hk :: dl :: fl :: ents =>
        let pl ← platOf (← pl.toNat?)
        let hk ← kindOf (← hk.toNat?)
        let dl ← dl.toNat?
        let fl ← fl.toNat?
        let ents ← ents.mapM (parseEntry hk)
        some ⟨e, c, ch, k, .file { platform := pl, kind := hk, entries := ents,
                                   dataSeg := List.replicate dl 0xFF, folderSeg := List.replicate fl 0x11 }⟩
      | _ => none
  | _ => none

structure DatSpec where
  exp : Nat
  cat : Category
  chunk : Nat
  datId : Nat
  entries : List (Nat × Bytes)     -- (offset, content)

def parseDat (s : String) : Option DatSpec := do
  match s.splitOn ":" with
  | [e, c, ch, d, ents] =>
    let ents ← (ents.splitOn ",").mapM (fun x =>
      match x.splitOn "/" with
      | [u, h] => do some ((← u.toNat?) * 128, ← Bytes.ofHexFast h)
      | _ => none)
    some ⟨← e.toNat?, ← catOfId (← c.toNat?), ← ch.toNat?, ← d.toNat?, ents⟩
  | _ => none

def parseQuery (s : String) : Option GameData.Query := do
  let p ← Bytes.ofHexFast (s.drop 1).toString
  if s.startsWith "e" then some (.exists p)
  else if s.startsWith "o" then some (.findOffset p)
  else if s.startsWith "x" then some (.extract p)
  else none

def archiveOf (pl : Platform) (dirs : List Bytes) (slots : List SlotSpec) : Archive :=
  { platform := pl, dirs := dirs,
    slot := fun e c ch k =>
      match slots.find? (fun s => s.exp == e && s.cat == c && s.chunk == ch && s.kind == k) with
      | some s => s.slot
      | none => .absent }

def placeAt (file : Bytes) (off : Nat) (entry : Bytes) : Bytes :=
  file.take off ++ List.replicate (off - file.length) 0 ++ entry ++ file.drop (off + entry.length)

def datBytes (d : DatSpec) : Bytes :=
  d.entries.foldl (fun f (off, content) =>
    placeAt f off (Spec.SqPackData.packStandard [{ data := content, compressed := none }])) []

abbrev Files := List ((Bytes × Bytes) × Bytes)

def materialise (pl : Platform) (slots : List SlotSpec) (dats : List DatSpec) : Files :=
  slots.filterMap (fun s => (s.slot.bytes).map (fun b => ((repoDir s.exp, indexName pl s.exp s.cat s.chunk s.kind), b))) ++
  dats.map (fun d => ((repoDir d.exp, datName pl d.exp d.cat d.chunk d.datId), datBytes d))

def showFiles (fs : Files) : String :=
  if fs.isEmpty then "-" else
  ";".intercalate (fs.map (fun ((d, n), b) => Bytes.toHex d ++ "/" ++ Bytes.toHex n ++ ":" ++ Bytes.toHex b))

/-- the specification's answer, from the abstract archive -/
def specAnswer (a : Archive) (dats : List DatSpec) : GameData.Query → String
  | .exists p => if (locate a p).isSome then "T" else "F"
  | .findOffset p =>
    match locate a p with
    | some l => "o" ++ toString l.offset.toNat
    | none => "onone"
  | .extract p =>
    match locate a p with
    | none => "xnone"
    | some l =>
      match dats.find? (fun d => d.exp == l.exp && d.cat == l.cat && d.chunk == l.chunk && d.datId == l.datId.toNat) with
      | none => "xnone"
      | some d =>
        match d.entries.lookup l.offset.toNat with
        | some content => "x" ++ Bytes.toHex content
        | none => "xnone"

def modelPlat : Platform → Repository.Platform
  | .win32 => .win32 | .ps3 => .ps3 | .ps4 => .ps4 | .ps5 => .ps5 | .xbox => .xbox

def showAnswer (disk : GameData.Disk) : GameData.Answer → String
  | .bool b => if b then "T" else "F"
  | .offset (some o) => "o" ++ toString o.toNat
  | .offset none => "onone"
  | .dat none => "xnone"
  | .dat (some (k, off)) =>
    match disk k.1 k.2 with
    | none => "xnone"
    | some content =>
      match Dat.readFromOffset (fun _ _ => none) content off.toNat with
      | none => "panic"
      | some none => "xnone"
      | some (some d) => "x" ++ Bytes.toHex d
  | .panic => "panic"

def modelAnswers (pl : Platform) (dirs : List Bytes) (files : Files) (qs : List GameData.Query) (fresh : Bool) : List String :=
  let disk : GameData.Disk := fun d n => files.lookup (d, n)
  match GameData.fromExisting (modelPlat pl) dirs with
  | none => qs.map (fun _ => "panic")
  | some g =>
    if fresh then qs.map (fun q => showAnswer disk (GameData.step disk g q).1)
    else (GameData.answers disk g qs).map (showAnswer disk)

/-- `idx`: one index file, `SqPackIndex::from_existing` + `find_entry` per path -/
def handleIdx (spec qs : String) (dmg : Option (UInt64 × Nat) := none) : Option String := do
  let f ← (match spec.splitOn "," with
    | "F" :: pl :: hk :: dl :: fl :: ents => do
      let pl ← platOf (← pl.toNat?)
      let hk ← kindOf (← hk.toNat?)
      let ents ← ents.mapM (parseEntry hk)
      some ({ platform := pl, kind := hk, entries := ents, dataSeg := List.replicate (← dl.toNat?) 0xFF,
              folderSeg := List.replicate (← fl.toNat?) 0x11 } : IndexFile)
    | _ => none)
  let paths ← (splitList qs ",").mapM Bytes.ofHexFast
  if !f.wf then none else
  let file := encodeIndex f
  let showE (d : UInt8) (o : UInt64) : String := "d" ++ toString d.toNat ++ "o" ++ toString o.toNat
  -- paths without a folder separator are outside the property (and panic under `index`)
  if paths.any (fun p => (hashOf f.kind (Str.lower p)).isNone) then none else
  if let some (seed, k) := dmg then
    -- `mut <seed> <k> idx …`: the encoded index file with `k` damaged bytes (Base/Mutate.lean, most of
    -- them in the two headers); the model of the code against the code
    let file := Mutate.mutate file seed k (bias := 2048)
    let model := match Index.parse file with
      | none => paths.map (fun _ => "noindex")
      | some ix => paths.map (fun p =>
        match Index.findEntry ix p with
        | some (some e) => showE e.dataFileId e.offset
        | _ => "none")
    return answer (Bytes.toHex file ++ " " ++ qs) (",".intercalate model) ["corr", "mut"]
  let expected := paths.map (fun p =>
    match findIn f (Str.lower p) with
    | some e => showE e.datId e.offset
    | none => "none")
  let model := match Index.parse file with
    | none => paths.map (fun _ => "noindex")
    | some ix => paths.map (fun p =>
      match Index.findEntry ix p with
      | none => "panic"
      | some none => "none"
      | some (some e) => showE e.dataFileId e.offset)
  let found := paths.any (fun p => (findIn f (Str.lower p)).isSome)
  some (answer (Bytes.toHex file ++ " " ++ qs) (",".intercalate expected) (if found then [] else ["triv"])
    (some (",".intercalate model)))

/-- one case line in, one answer line out (see `Base/Proto.lean`) -/
def handle (line : String) : String :=
  match fields line with
  | ["idx", spec, qs] =>
    match handleIdx spec qs with
    | some r => r
    | none => bad
  | ["mut", seed, k, "idx", spec, qs] =>
    match seed.toNat?, k.toNat? with
    | some sd, some k =>
      match handleIdx spec qs (some (sd.toUInt64, k)) with
      | some r => r
      | none => bad
    | _, _ => bad
  | ["arch", pl, dirs, slots, dats, qs, mode] =>
    match (do
      let pl ← platOf (← pl.toNat?)
      let dirsB ← (splitList dirs ",").mapM Bytes.ofHexFast
      let slotsP ← (splitList slots ";").mapM parseSlot
      let datsP ← (splitList dats ";").mapM parseDat
      -- files of a directory that does not exist cannot exist
      let slotsP := slotsP.filter (fun s => dirsB.contains (repoDir s.exp))
      let datsP := datsP.filter (fun d => dirsB.contains (repoDir d.exp))
      let qsP ← (splitList qs ",").mapM parseQuery
      let fresh ← (if mode == "one" then some false else if mode == "fresh" then some true else none)
      let a := archiveOf pl dirsB slotsP
      let files := materialise pl slotsP datsP
      let expected := ",".intercalate (qsP.map (specAnswer a datsP))
      let model := ",".intercalate (modelAnswers pl dirsB files qsP fresh)
      let input := " ".intercalate [toString pl.id.toNat, dirs, showFiles files, qs, mode]
      let stored := qsP.any (fun q => match q with
        | .exists p | .findOffset p | .extract p => (locate a p).isSome)
      some (answer input (if qsP.isEmpty then "-" else expected) (if stored then [] else ["triv"])
        (some (if qsP.isEmpty then "-" else model)))) with
    | some r => r
    | none => bad
  | _ => bad

end Physis.Driver.C01
