import PhysisModel.Base.Proto
namespace Physis.Driver.C01
open Physis Physis.Proto

/-- one case line in, one answer line out (see `Base/Proto.lean`) -/
def handle (line : String) : String :=
  match fields line with
  | _ => bad

end Physis.Driver.C01
