import PhysisModel.Base.Proto
import PhysisModel.Base.HexFast
import PhysisModel.Model.Sha1
import PhysisModel.Model.Fiin
import PhysisModel.Model.PatchList
import PhysisModel.Spec.Sha1
import PhysisModel.Spec.Fiin
import PhysisModel.Spec.PatchList
import PhysisModel.Base.Mutate
/-!
C10 driver.  Case grammar (strings are hex of their UTF-8 bytes, `-` = empty):

* `sha1 <hex>`                         digest of the bytes (through `FileInfo::new` on one file)
* `new <files>` / `newwrite <files>`   `files` = `-` | `f;f;…`, `f` = `<path>:<content>`
* `write <entries>` / `parse <entries>` / `rt <entries>`
                                       `entries` = `-` | `e,e,…`, `e` = `<i32 size>:<name>:<digest>`
* `plwrite|plparse|plrt <boot|game> <id> <content-location> <requested-version> <u64> <patches>`
                                       `patches` = `-` | `p;p;…`,
                                       `p` = `<len>,<size>,<a>,<b>,<hbs>,<version>,<url>,<hashes>`,
                                       `hashes` = `_` | `h+h+…`
* `mut <seed> <k> parse <entries>`     the encoded FIIN table with `k` damaged bytes (`Base/Mutate.lean`;
                                       three times out of four the positions are drawn over the 32 header
                                       bytes + the records, i.e. not from the 992 padding bytes)
* `mut <seed> <k> plparse …`           the encoded wire text with `k` damaged bytes; the text handed to
                                       `from_string` is a `&str`, so the new bytes are ASCII (half of them
                                       separators / digits / signs, `textByte`) and replace ASCII bytes only
                                       (a text that is no `&str` would be answered `not-utf8` by both sides)
  for both: expected = the answer of the model of the code on the damaged input (tags `corr mut`)
-/
namespace Physis.Driver.C10
open Physis Physis.Proto
open Physis.Spec.Fiin (Entry)
open Physis.Spec.PatchList (Kind PatchEntry PatchList)

def showEntries (es : List Entry) : String :=
  if es.isEmpty then "-" else
  ",".intercalate (es.map fun e =>
    toString e.fileSize.toInt32.toInt ++ ":" ++ Bytes.toHex e.fileName ++ ":" ++ Bytes.toHex e.sha1)

def showRes : Fiin.Res (List Entry) → String
  | .ok es => showEntries es
  | .none => "none"
  | .panic => "panic"

def parseEntry (s : String) : Option Entry :=
  match s.splitOn ":" with
  | [sz, name, sha] => do
    let sz ← sz.toInt?
    if sz < -(2 ^ 31 : Int) ∨ sz ≥ 2 ^ 31 then none
    let name ← Bytes.ofHex name
    let sha ← Bytes.ofHex sha
    pure ⟨UInt32.ofInt sz, name, sha⟩
  | _ => none

def parseEntries (s : String) : Option (List Entry) :=
  if s == "-" then some [] else (s.splitOn ",").mapM parseEntry

def parseFile (s : String) : Option (Bytes × Bytes) :=
  match s.splitOn ":" with
  | [p, c] => do
    let p ← Bytes.ofHex p
    let c ← Bytes.ofHexBig c
    pure (p, c)
  | _ => none

def parseFiles (s : String) : Option (List (Bytes × Bytes)) :=
  if s == "-" then some [] else (s.splitOn ";").mapM parseFile

/-- the table `FileInfo::new` must produce according to the property: base name, exact size,
SHA-1 (FIPS 180-4) of every file -/
def specNew (files : List (Bytes × Bytes)) : List Entry :=
  files.map fun (p, c) => ⟨UInt32.ofNat c.length, Spec.Fiin.baseName p, Spec.Sha1.sha1 c⟩

def parseHashes (s : String) : Option (List Bytes) :=
  if s == "_" then some [] else (s.splitOn "+").mapM Bytes.ofHex

def parsePatch (s : String) : Option PatchEntry :=
  match s.splitOn "," with
  | [len, size, a, b, hbs, ver, url, hs] => do
    let len ← len.toInt?
    let size ← size.toInt?
    let a ← a.toInt?
    let b ← b.toInt?
    let hbs ← hbs.toInt?
    let ver ← Bytes.ofHex ver
    let url ← Bytes.ofHex url
    let hs ← parseHashes hs
    pure ⟨url, ver, hbs, len, size, hs, a, b⟩
  | _ => none

def parsePatches (s : String) : Option (List PatchEntry) :=
  if s == "-" then some [] else (s.splitOn ";").mapM parsePatch

def showHashes (hs : List Bytes) : String :=
  if hs.isEmpty then "_" else "+".intercalate (hs.map Bytes.toHex)

def showPatch (p : PatchEntry) : String :=
  ",".intercalate [toString p.length, toString p.sizeOnDisk, toString p.unknownA, toString p.unknownB,
    toString p.hashBlockSize, Bytes.toHex p.version, Bytes.toHex p.url, showHashes p.hashes]

def showPatchList (pl : PatchList) : String :=
  "len=" ++ toString pl.patchLength ++ " id=" ++ Bytes.toHex pl.id ++ " cl=" ++ Bytes.toHex pl.contentLocation ++
  " rv=" ++ Bytes.toHex pl.requestedVersion ++ " p=" ++
  (if pl.patches.isEmpty then "-" else ";".intercalate (pl.patches.map showPatch))

def parseKind : String → Option Kind
  | "boot" => some .boot
  | "game" => some .game
  | _ => none

def parsePl (kind id cl rv n ps : String) : Option (Kind × PatchList) := do
  let kind ← parseKind kind
  let id ← Bytes.ofHex id
  let cl ← Bytes.ofHex cl
  let rv ← Bytes.ofHex rv
  let n ← n.toNat?
  let ps ← parsePatches ps
  pure (kind, ⟨id, n, cl, rv, ps⟩)

def optHex : Option Bytes → String
  | some b => Bytes.toHex b
  | none => "panic"

def optPl : Option PatchList → String
  | some pl => showPatchList pl
  | none => "panic"

/-- tag for trivial cases (nothing to hash / no entries / no patches) -/
def trivIf (b : Bool) : List String := if b then ["triv"] else []

/-! ### damaged inputs (family `mut`) -/

/-- FIIN: header (32 bytes), 992 padding bytes, records.  Damage drawn over header + records (the
padding is only hit when the whole file is damaged, `seed % 4 = 0`). -/
def damageFiin (file : Bytes) (seed : UInt64) (k : Nat) : Bytes :=
  if seed % 4 == 0 || file.length < 1024 then Mutate.mutate file seed k else
  let compact := Mutate.mutate (file.take 32 ++ file.drop 1024) seed k 128
  compact.take 32 ++ (file.drop 32).take 992 ++ compact.drop 32

/-- the bytes a damaged text gets: tab, CR, LF, comma, digits, signs, NUL, space … half of the time,
otherwise `Mutate.newByte` folded into ASCII -/
def textByte (old : UInt8) (r : UInt64) : UInt8 :=
  let seps : Array UInt8 := #[9, 13, 10, 0x2c, 0x30, 0x39, 0x2d, 0x2b, 0x20, 0x00, 0x3a, 0x58, 0x31, 9, 13, 10]
  let v := if (r >>> 44) % 2 == 0 then seps[((r >>> 52) % 16).toNat]! else Mutate.newByte old r &&& 0x7F
  if v == old then old ^^^ 0x01 else v

/-- `Mutate.mutate` with `textByte` -/
def damageText (bs : Bytes) (seed : UInt64) (k : Nat) : Bytes :=
  if bs.isEmpty then bs else
  let rec go (a : Array UInt8) (s : UInt64) : Nat → Array UInt8
    | 0 => a
    | n + 1 =>
      let s1 := Mutate.lcg s
      let s2 := Mutate.lcg s1
      let range := if (s1 >>> 62) % 2 == 0 then min 256 a.size else a.size
      let pos0 := ((s1 >>> 20) % range.toUInt64).toNat
      -- the next ASCII byte at or after the drawn position (cyclically): the text stays a `&str`
      let pos := ((List.range a.size).find? (fun d => a[(pos0 + d) % a.size]! < 0x80)).map (fun d => (pos0 + d) % a.size)
      match pos with
      | some pos => go (a.set! pos (textByte a[pos]! s2)) s2 n
      | none => go a s2 n
  (go bs.toArray seed k).toList

def handleParse (es : String) (dmg : Option (UInt64 × Nat) := none) : String :=
  match parseEntries es with
  | some es =>
    if let some (seed, k) := dmg then
      let file := damageFiin (Spec.Fiin.encode es) seed k
      -- the reader returns `None` / decodes lossily where it used to panic (fix d91cecd)
      let model := match Fiin.parse file with
        | .ok es => showEntries es
        | _ => "none"
      answer ("parse " ++ Bytes.toHex file) model ["corr", "mut"]
    else
    let file := Spec.Fiin.encode es
    answer ("parse " ++ Bytes.toHex file) (showEntries (es.map Spec.Fiin.normEntry)) (trivIf es.isEmpty)
      (some (showRes (Fiin.parse file)))
  | none => bad

def handlePlparse (kind id cl rv n ps : String) (dmg : Option (UInt64 × Nat) := none) : String :=
  match parsePl kind id cl rv n ps with
  | some (k, pl) =>
    if let some (seed, nd) := dmg then
      let text := damageText (Spec.PatchList.encode k pl) seed nd
      let model := if Spec.Fiin.utf8Valid text then optPl (PatchList.fromString k text) else "not-utf8"
      answer ("plparse " ++ kind ++ " " ++ Bytes.toHex text) model ["corr", "mut"]
    else
    let text := Spec.PatchList.encode k pl
    answer ("plparse " ++ kind ++ " " ++ Bytes.toHex text) (showPatchList (Spec.PatchList.decoded k pl)) []
      (some (optPl (PatchList.fromString k text)))
  | none => bad

/-- one case line in, one answer line out (see `Base/Proto.lean`) -/
def handle (line : String) : String :=
  match fields line with
  | ["sha1", h] =>
    match Bytes.ofHexBig h with
    | some bs => answer "=" (Bytes.toHex (Spec.Sha1.sha1 bs)) [] (some (Bytes.toHex (Sha1.sha1 bs)))
    | none => bad
  | ["new", fs] =>
    match parseFiles fs with
    | some files =>
      answer "=" (showEntries (specNew files)) (trivIf files.isEmpty)
        (some (match Fiin.new files with | some es => showEntries es | none => "none"))
    | none => bad
  | ["newwrite", fs] =>
    match parseFiles fs with
    | some files =>
      answer "=" (Bytes.toHex (Spec.Fiin.encode (specNew files))) []
        (some (match Fiin.new files with | some es => Bytes.toHex (Fiin.write es) | none => "none"))
    | none => bad
  | ["write", es] =>
    match parseEntries es with
    | some es => answer "=" (Bytes.toHex (Spec.Fiin.encode es)) [] (some (Bytes.toHex (Fiin.write es)))
    | none => bad
  | ["parse", es] => handleParse es
  | ["mut", seed, k, "parse", es] =>
    match seed.toNat?, k.toNat? with
    | some s, some k => handleParse es (some (s.toUInt64, k))
    | _, _ => bad
  | ["mut", seed, k, "plparse", kind, id, cl, rv, n, ps] =>
    match seed.toNat?, k.toNat? with
    | some s, some k => handlePlparse kind id cl rv n ps (some (s.toUInt64, k))
    | _, _ => bad
  | ["rt", es] =>
    match parseEntries es with
    | some es =>
      answer "=" (showEntries (es.map Spec.Fiin.normEntry)) (trivIf es.isEmpty)
        (some (showRes (Fiin.parse (Fiin.write es))))
    | none => bad
  | ["plwrite", kind, id, cl, rv, n, ps] =>
    match parsePl kind id cl rv n ps with
    | some (kind, pl) =>
      answer "=" (Bytes.toHex (Spec.PatchList.encode kind pl)) [] (some (optHex (PatchList.toString kind pl)))
    | none => bad
  | ["plparse", kind, id, cl, rv, n, ps] => handlePlparse kind id cl rv n ps
  | ["plrt", kind, id, cl, rv, n, ps] =>
    match parsePl kind id cl rv n ps with
    | some (kind, pl) =>
      answer "=" (showPatchList (Spec.PatchList.decoded kind pl)) []
        (some (optPl ((PatchList.toString kind pl).bind (PatchList.fromString kind))))
    | none => bad
  | _ => bad

end Physis.Driver.C10
