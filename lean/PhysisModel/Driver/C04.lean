import PhysisModel.Base.Proto
import PhysisModel.Base.FsText
import PhysisModel.Model.Patch
import PhysisModel.Model.PatchWriter
import PhysisModel.Spec.ZiPatchCreate
namespace Physis.Driver.C04
open Physis Physis.Proto Physis.Fs Physis.FsText

def outcomeStr : Patch.Outcome → String
  | .ok => "ok" | .parseError => "err:ParseError" | .ioError => "err:InvalidPatchFile" | .panic => "panic"

def stripKey (k : String) (s : String) : Option String :=
  if s.startsWith (k ++ "=") then some (s.drop (k.length + 1)).toString else none

/-- `pair a=<tree> b=<tree>`: create the patch from (A, B), apply it to a copy of A, print the
regular files; `pure=1` = A and B are unchanged by `create`. -/
def handle (line : String) : String :=
  match fields line with
  | ["pair", a, b] =>
    match (stripKey "a" a).bind parseTree, (stripKey "b" b).bind parseTree with
    | some A, some B =>
      let la := files A
      let lb := files B
      if !Spec.ZiPatchCreate.Inputs A lb then bad else
      let expected := "ok files=" ++ showTree (lb.map fun e => (e.1, Node.file e.2)) false ++ " pure=1"
      let model := match Patch.createSeek la lb with
        | none => "none"
        | some patch =>
          let (o, T) := Patch.apply (fun _ _ => none) patch A
          outcomeStr o ++ " files=" ++ showTree T false ++ " pure=1"
      answer "=" expected (if la.isEmpty && lb.isEmpty then ["triv"] else []) (some model)
    | _, _ => bad
  | ["cbytes", a, b] =>
    -- tie of the writer model to the code: the bytes of the created patch (listing order forced:
    -- at most one regular file per side)
    match (stripKey "a" a).bind parseTree, (stripKey "b" b).bind parseTree with
    | some A, some B =>
      let la := files A
      let lb := files B
      if la.length > 1 || lb.length > 1 || !Spec.ZiPatchCreate.Inputs A lb then bad else
      let m := match Patch.createSeek la lb with
        | none => "none"
        | some patch => "patch=" ++ showContent patch
      answer "=" m ["tie"] (some m)
    | _, _ => bad
  | _ => bad

end Physis.Driver.C04
