import PhysisModel.Base.Proto
import PhysisModel.Base.ParserA
import PhysisModel.Driver.C18Util
import PhysisModel.Model.C18Stm
import PhysisModel.Model.C18Avfx
import PhysisModel.Model.C18Dic
import PhysisModel.Model.C18Lgb
import PhysisModel.Model.C18Havok
namespace Physis.Driver.C18Pbc
open Physis Physis.Proto Physis.A Physis.Driver.C18

/-- `dic`: no complete model; the expected answer is "any non-crashing outcome", and inputs whose
node walk is unbounded (see `Model/C18Dic.lean`) carry the tag of the recorded finding -/
def dic (h : String) : String :=
  match Bytes.ofHexFast h with
  | some b => answer "=" "ok" (if C18Dic.walkUnbounded b then ["kf:dic.walk-unbounded"] else [])
  | none => bad

/-- `sklb`: outcome class of the complete model; files whose objects take heap out of proportion (by
the model's estimate) carry the tag of the recorded finding -/
def sklb (h : String) : String :=
  match Bytes.ofHexFast h with
  | some b =>
    answer "=" (C18Havok.fromExisting b).cls
      (if C18Havok.heapOutOfProportion b then ["kf:sklb.object-heap-amplification"] else [])
  | none => bad

/-- `none` = not a case of this part -/
def handle? (f : List String) : Option String :=
  match f with
  | ["stm", h] => some (asset C18Stm.fromExisting h)
  | ["avfx", h] => some (asset C18Avfx.fromExisting h)
  | ["sklb", h] => some (sklb h)
  | ["lgb", h] => some (asset C18Lgb.fromExisting h)
  | ["dic", h] => some (dic h)
  | _ => none

end Physis.Driver.C18Pbc
