import PhysisModel.Base.Proto
import PhysisModel.Model.Inflate
/-! auxiliary driver `XINF`: validates `Model/Inflate.lean` against zlib (used by C02's check) -/
namespace Physis.Driver.Inflate
open Physis Physis.Proto

def fnv (bs : Bytes) : UInt64 :=
  bs.foldl (fun h b => (h ^^^ b.toUInt64) * 0x100000001b3) 0xcbf29ce484222325

def digest (bs : Bytes) : String := s!"{bs.length}:{(fnv bs).toNat}"

def handle (line : String) : String :=
  match fields line with
  | ["inflate", c, d] =>
    match Bytes.ofHexFast c, Bytes.ofHexFast d with
    | some cb, some db =>
      -- specification: the stream was produced by deflate from `d`, so it must inflate to `d`
      let m := match Physis.Inflate.inflate cb with
        | some o => "some:" ++ digest o
        | none => "none"
      answer "=" ("some:" ++ digest db) [] (some m)
    | _, _ => bad
  | ["garbage", c] =>
    match Bytes.ofHexFast c with
    | some cb =>
      let m := match Physis.Inflate.inflate cb with
        | some o => "some:" ++ digest o
        | none => "none"
      answer "=" m ["triv"]
    | none => bad
  | _ => bad

end Physis.Driver.Inflate
