import PhysisModel.Base.Proto
import PhysisModel.Model.C18Hdr
namespace Physis.Driver.C18
open Physis Physis.Proto Physis.A

/-- an asset entry point on bytes: the expected answer is the outcome class of the model
(`none` / `some`); a fault of the model (never, by the `c18_*_total` theorems) would be printed
as `fault:<kind>` and can only disagree with the implementation's `panic:` line. -/
def asset {α : Type} (e : Bytes → Res α) (h : String) : String :=
  match Bytes.ofHexFast h with
  | some b => answer "=" (e b).cls
  | none => bad

/-- one case line in, one answer line out (see `Base/Proto.lean`) -/
def handle (line : String) : String :=
  match fields line with
  | ["uld", h] => asset C18Hdr.uld h
  | ["sgb", h] => asset C18Hdr.sgb h
  | ["scd", h] => asset C18Hdr.scd h
  | ["hwc", h] => asset C18Hdr.hwc h
  | ["iwc", h] => asset C18Hdr.iwc h
  | ["tmb", h] => asset C18Hdr.tmb h
  | ["skp", h] => asset C18Hdr.skp h
  | ["schd", h] => asset C18Hdr.schd h
  | ["phyb", h] => asset C18Hdr.phyb h
  | ["pap", h] => asset C18Hdr.pap h
  | ["sqdb", h] => asset C18Hdr.sqdb h
  | ["exh", h] => asset C18Hdr.exh h
  | ["exd", h] => asset C18Hdr.exd h
  | _ => bad

end Physis.Driver.C18
