import PhysisModel.Base.Proto
import PhysisModel.Driver.C18Util
import PhysisModel.Model.C18Hdr
import PhysisModel.Driver.C18Fmt
import PhysisModel.Driver.C18Arc
import PhysisModel.Driver.C18Mat
import PhysisModel.Driver.C18Skel
import PhysisModel.Driver.C18Mdl
import PhysisModel.Driver.C18Pbc
namespace Physis.Driver.C18
open Physis Physis.Proto Physis.A

/-- one case line in, one answer line out (see `Base/Proto.lean`) -/
def handle (line : String) : String :=
  match fields line with
  | ["uld", h] => asset C18Hdr.uld h
  | ["sgb", h] => asset C18Hdr.sgb h
  | ["scd", h] => asset C18Hdr.scd h
  | ["hwc", h] => asset C18Hdr.hwc h
  | ["iwc", h] => asset C18Hdr.iwc h
  | ["tmb", h] => asset C18Hdr.tmb h
  | ["skp", h] => asset C18Hdr.skp h
  | ["schd", h] => asset C18Hdr.schd h
  | ["phyb", h] => asset C18Hdr.phyb h
  | ["pap", h] => asset C18Hdr.pap h
  | ["sqdb", h] => asset C18Hdr.sqdb h
  | ["exh", h] => asset C18Hdr.exh h
  | ["exd", h] => asset C18Hdr.exd h
  | f =>
    -- the other parts of C18 live in their own driver modules
    match [C18Fmt.handle?, C18Arc.handle?, C18Mat.handle?, C18Skel.handle?, C18Mdl.handle?,
           C18Pbc.handle?].findSome? (fun h => h f) with
    | some a => a
    | none => bad

end Physis.Driver.C18
