import PhysisModel.Base.Proto
import PhysisModel.Base.ParserA
import PhysisModel.Driver.C18Util
import PhysisModel.Model.C18Skel
namespace Physis.Driver.C18Skel
open Physis Physis.Proto Physis.A Physis.Driver.C18

/-- cases in the class of the recorded finding `pbd.shared-blocks` (decoded size out of proportion) -/
def sharedTag (b : Bytes) (walk : Bool) : List String :=
  if Physis.C18Skel.pbdOutOfProportion b walk then ["kf:pbd.shared-blocks"] else []

/-- `none` = not a case of this part -/
def handle? (f : List String) : Option String :=
  match f with
  | ["pbd", h] =>
    match Bytes.ofHexFast h with
    | some bs => some (answer "=" (Physis.C18Skel.pbd bs).cls (sharedTag bs false))
    | none => some bad
  | ["tera", h] => some (asset Physis.C18Skel.tera h)
  | ["pbddeform", h, a, b] =>
    match Bytes.ofHexFast h, a.toNat?, b.toNat? with
    | some bs, some frm, some to =>
      if frm ≤ 65535 ∧ to ≤ 65535 then
        some (answer "=" (Physis.C18Skel.pbdDeform bs frm to).cls (sharedTag bs true))
      else some bad
    | _, _, _ => some bad
  | _ => none

end Physis.Driver.C18Skel
