import PhysisModel.Base.Proto
import PhysisModel.Base.ParserA
import PhysisModel.Driver.C18Util
namespace Physis.Driver.C18Arc
open Physis Physis.Proto Physis.A Physis.Driver.C18

/-- `none` = not a case of this part -/
def handle? (f : List String) : Option String :=
  match f with
  | _ => none

end Physis.Driver.C18Arc
