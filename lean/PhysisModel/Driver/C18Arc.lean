import PhysisModel.Base.Proto
import PhysisModel.Base.ParserA
import PhysisModel.Driver.C18Util
import PhysisModel.Model.C18Dat
namespace Physis.Driver.C18Arc
open Physis Physis.Proto Physis.A Physis.Driver.C18

/-- Raw-deflate oracle for streams made of *stored* blocks (what the generator writes): `true` iff
`inflate` reaches `Z_STREAM_END` within `outLen` bytes of output.  For any other block type, and for
the corner `outLen = 0`, the oracle does not know and answers `unknown`. -/
def inflStoredGo (unknown : Bool) : Nat → Bytes → Nat → Bool
  | 0, _, _ => unknown
  | fuel + 1, data, outRem =>
    match data with
    | [] => false
    | b :: rest =>
      if (b.toNat / 2) % 4 ≠ 0 then unknown
      else match rest with
        | l0 :: l1 :: n0 :: n1 :: body =>
          let len := l0.toNat + 256 * l1.toNat
          let nlen := n0.toNat + 256 * n1.toNat
          if len + nlen ≠ 65535 then false
          else if (body.take len).length ≠ len then false
          else if outRem < len then false
          else if b.toNat % 2 = 1 then true
          else inflStoredGo unknown fuel (body.drop len) (outRem - len)
        | _ => false

def inflStored (unknown : Bool) (comp : Bytes) (outLen : Nat) : Bool :=
  if outLen = 0 then unknown else inflStoredGo unknown (comp.length + 1) comp outLen

/-- `dat <hex> <offset>`: the class when both readings of the unknown inflate results agree,
otherwise "any outcome that is not a crash" -/
def dat (h off : String) : String :=
  match Bytes.ofHexFast h, off.toNat? with
  | some w, some o =>
    if o > 18446744073709551615 then bad else
    let r1 := (C18Dat.readFromOffset (inflStored true) w o).cls
    let r2 := (C18Dat.readFromOffset (inflStored false) w o).cls
    if r1 == r2 then answer ("dat " ++ h ++ " " ++ off ++ " cls") r1
    else answer ("dat " ++ h ++ " " ++ off ++ " any") "ok"
  | _, _ => bad

/-- `none` = not a case of this part -/
def handle? (f : List String) : Option String :=
  match f with
  | ["dat", h, off] => some (dat h off)
  | _ => none

end Physis.Driver.C18Arc
