import PhysisModel.Base.Proto
import PhysisModel.Base.ParserA
import PhysisModel.Driver.C18Util
import PhysisModel.Model.C18Dat
import PhysisModel.Model.C18Arc
namespace Physis.Driver.C18Arc
open Physis Physis.Proto Physis.A Physis.Driver.C18

/-- Raw-deflate oracle for streams made of *stored* blocks (what the generator writes): `true` iff
`inflate` reaches `Z_STREAM_END` within `outLen` bytes of output.  For any other block type, and for
the corner `outLen = 0`, the oracle does not know and answers `unknown`. -/
def inflStoredGo (unknown : Bool) : Nat → Bytes → Nat → Bool
  | 0, _, _ => unknown
  | fuel + 1, data, outRem =>
    match data with
    | [] => false
    | b :: rest =>
      if (b.toNat / 2) % 4 ≠ 0 then unknown
      else match rest with
        | l0 :: l1 :: n0 :: n1 :: body =>
          let len := l0.toNat + 256 * l1.toNat
          let nlen := n0.toNat + 256 * n1.toNat
          if len + nlen ≠ 65535 then false
          else if (body.take len).length ≠ len then false
          else if outRem < len then false
          else if b.toNat % 2 = 1 then true
          else inflStoredGo unknown fuel (body.drop len) (outRem - len)
        | _ => false

def inflStored (unknown : Bool) (comp : Bytes) (outLen : Nat) : Bool :=
  if outLen = 0 then unknown else inflStoredGo unknown (comp.length + 1) comp outLen

/-- Driver-side predicate for the recorded finding `dat.block-table-amplification` (not part of the
proved model): the total size a *standard* entry declares for its blocks, following the block table
as the reader does.  Block tables may point several entries at the same bytes, so a small file can
declare (and the reader then produces) far more output than it has input. -/
def declaredBlock (w : Bytes) (pos : Nat) : Nat :=
  match (P.runAt (do
      let _ ← P.u32le; P.skip 4
      let x ← C18Hdr.u32leNat; let y ← C18Hdr.u32leNat
      pure (x, y)) w pos).out with
  | .ok ((x, y), _) =>
    if x < 32000 ∨ 2147483648 ≤ x then (if y ≤ C18Dat.maxBlock then y else 0)
    else (if y < 2147483648 then y else 0)
  | _ => 0

def declaredStandardTotal (w : Bytes) (offset : Nat) : Nat :=
  match (P.runAt C18Dat.fileInfo w offset).out with
  | .ok (fi, pos) =>
    match fi.info with
    | .standard nb =>
      match (P.runAt (P.count nb C18Dat.blockEntry) w pos).out with
      | .ok (blocks, _) =>
        blocks.foldl (fun acc o => acc + (if o < 2147483648 then declaredBlock w (offset + fi.size + o) else 0)) 0
      | _ => 0
    | _ => 0
  | _ => 0

/-- the heap holds the output vector (grown by doubling) plus one block -/
def amplifies (w : Bytes) (offset : Nat) : Bool :=
  decide (declaredStandardTotal w offset > 8 * w.length + 4194304)

/-- `dat <hex> <offset>`: the class when both readings of the unknown inflate results agree,
otherwise "any outcome that is not a crash" -/
def dat (h off : String) : String :=
  match Bytes.ofHexFast h, off.toNat? with
  | some w, some o =>
    if o > 18446744073709551615 then bad else
    let r1 := (C18Dat.readFromOffset (inflStored true) w o).cls
    let r2 := (C18Dat.readFromOffset (inflStored false) w o).cls
    let tags := if amplifies w o then ["kf:dat.block-table-amplification"] else []
    if r1 == r2 then answer ("dat " ++ h ++ " " ++ off ++ " cls") r1 tags
    else answer ("dat " ++ h ++ " " ++ off ++ " any") "ok" tags
  | _, _ => bad

/-- a synthetic installation: `<hexpath>=<hexcontent>` / `<hexpath>=/`, comma separated, or `-` -/
def treeOk (t : String) : Bool :=
  t == "-" || (t.splitOn ",").all (fun e =>
    match e.splitOn "=" with
    | [p, c] => (Bytes.ofHexFast p).isSome && p != "-" && (c == "/" || (Bytes.ofHexFast c).isSome)
    | _ => false)

/-- second tree of a fault sequence: files, `=/` directories, `=!` deletions -/
def tree2Ok (t : String) : Bool :=
  t == "-" || (t.splitOn ",").all (fun e =>
    match e.splitOn "=" with
    | [p, c] => (Bytes.ofHexFast p).isSome && p != "-" && (c == "/" || c == "!" || (Bytes.ofHexFast c).isSome)
    | _ => false)

/-- `none` = not a case of this part -/
def handle? (f : List String) : Option String :=
  match f with
  | ["dat", h, off] => some (dat h off)
  | ["index", h] => some (asset C18Arc.index h)
  | ["indexq", h, q] =>
    match Bytes.ofHexFast h, Bytes.ofHexFast q with
    | some w, some path =>
      -- a file that does not parse gives `none`; on a parsed index `exists` / `find_entry` /
      -- `calculate_hash` never crash (`c18_index_hash_total`) and agree with each other.  For an ASCII
      -- path the model also predicts the answer (`e0` / `e1`); Unicode lower-casing is not modelled,
      -- there the specified answer is "no crash" (`ok`).
      let r := C18Arc.index w
      match r.out with
      | .ok ix =>
        if path.all (· < 0x80) then
          match (C18Arc.existsAscii ix path).out with
          | .ok b => some (answer ("indexq " ++ h ++ " " ++ q ++ " cls") (if b then "e1" else "e0"))
          | _ => some (answer ("indexq " ++ h ++ " " ++ q ++ " cls") (C18Arc.existsAscii ix path).cls)
        else some (answer ("indexq " ++ h ++ " " ++ q ++ " any") "ok")
      | _ => some (answer ("indexq " ++ h ++ " " ++ q ++ " cls") r.cls)
    | _, _ => some bad
  | ["repo", n] =>
    match Bytes.ofHexFast n with
    | some name =>
      if name.isEmpty || name.contains 0x2F || name.contains 0 || name == [0x2E] || name == [0x2E, 0x2E]
      then some bad
      else some (answer "=" (C18Arc.expansionNumber name).cls)
    | none => some bad
  | ["gd", t, op, q] =>
    -- GameData over a damaged installation: the specified answer is "no crash"; the components are
    -- covered by `c18_index_*`, `c18_dat_*`, `c18_repo_*`
    if treeOk t && (op == "exists" || op == "extract") && (Bytes.ofHexFast q).isSome
    then some (answer "=" "ok") else some bad
  | ["gd2", t, t2, op, q] =>
    -- fault sequence between open and read
    if treeOk t && tree2Ok t2 && (op == "exists" || op == "extract") && (Bytes.ofHexFast q).isSome
    then some (answer "=" "ok") else some bad
  | ["leak", n, h, off] =>
    -- residual heap after n failed extractions does not grow with n (`c18_inflate_balanced`)
    match n.toNat?, Bytes.ofHexFast h, off.toNat? with
    | some k, some _, some _ => if k = 0 ∨ k > 10000 then some bad else some (answer "=" "leak:none")
    | _, _, _ => some bad
  | _ => none

end Physis.Driver.C18Arc
