import PhysisModel.Base.Proto
import PhysisModel.Base.ParserA
import PhysisModel.Driver.C18Util
import PhysisModel.Model.C18Mtrl
import PhysisModel.Model.C18Shpk
namespace Physis.Driver.C18Mat
open Physis Physis.Proto Physis.A Physis.Driver.C18

def kfAmplify : String := "kf:shpk.shared-region-amplification"

/-- `asset` with the tag of the recorded finding on the inputs of its class -/
def shpkAsset {α : Type} (e : Bytes → Res α) (h : String) : String :=
  match Bytes.ofHexFast h with
  | some b => answer "=" (e b).cls (if C18Shpk.amplifies b then [kfAmplify] else [])
  | none => bad

/-- `none` = not a case of this part -/
def handle? (f : List String) : Option String :=
  match f with
  | ["mtrl", h] => some (asset C18Mtrl.mtrl h)
  | ["shpk", h] => some (shpkAsset C18Shpk.shpk h)
  | ["shpknode", h, s] =>
    match s.toNat? with
    | some sel => if sel < 4294967296 then some (shpkAsset (fun b => C18Shpk.shpknode b sel) h) else some bad
    | none => some bad
  | _ => none

end Physis.Driver.C18Mat
