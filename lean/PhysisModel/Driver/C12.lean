import PhysisModel.Base.Proto
import PhysisModel.Model.Crc
import PhysisModel.Spec.Crc32
import PhysisModel.Base.HexFast
import PhysisModel.Model.Sha1
import PhysisModel.Spec.Sha1
import PhysisModel.Spec.Archive
import PhysisModel.Driver.C10
namespace Physis.Driver.C12
open Physis Physis.Proto

/-- one case line in, one answer line out (see `Base/Proto.lean`) -/
def handle (line : String) : String :=
  match fields line with
  | ["jamcrc", h] =>
    match Bytes.ofHexFast h with
    | some bs => answer "=" (toString (Spec.Crc32.crcBitwise 0xFFFFFFFF 0 (bs.map asciiLower)).toNat) []
        (some (toString (Crc.partialHash bs).toNat))
    | none => bad
  | ["shcrc", h] =>
    match Bytes.ofHexFast h with
    | some bs => answer "=" (toString (Spec.Crc32.crcBitwise 0 0 bs).toNat) []
        (some (toString (Crc.xivCrc Spec.Crc32.zlibCrc32 bs).toNat))
    | none => bad
  | ["sha1", h] =>
    -- file digest (`FileInfo::new`): FIPS 180-4 SHA-1 vs. the model of `src/sha1.rs`
    match Bytes.ofHexBig h with
    | some bs => answer "=" (Bytes.toHex (Spec.Sha1.sha1 bs)) [] (some (Bytes.toHex (Sha1.sha1 bs)))
    | none => bad
  | ["new", _] =>
    -- digests of several files hashed by ONE `FileInfo::new` call (state surviving between the
    -- files of a call would show here): C10's `new` case, shared
    Physis.Driver.C10.handle line
  | ["idxci", k, ph] =>
    -- letter case must not matter for a path hash at the index level either, under both index
    -- kinds, with and without a folder part: an index file (Spec/Archive encoder) that stores the
    -- hash of the LOWER-CASED path must answer the query spelled as given
    match Bytes.ofHexFast ph, k.toNat? with
    | some p, some kn =>
      let lp := p.map asciiLower
      let crc := fun (b : Bytes) => Spec.Crc32.crcBitwise 0xFFFFFFFF 0 b
      let kind : Option Spec.Archive.Kind := if kn = 1 then some .index1 else if kn = 2 then some .index2 else none
      match kind with
      | none => bad
      | some kind =>
        let h : Spec.Archive.Hash := match kind with
          | .index2 => .full (crc lp)
          | .index1 =>
            match Str.rsplitOnce Str.slash lp with
            | some (folder, file) => .split (crc file) (crc folder)
            | none => .split (crc lp) (crc [])      -- a file outside any folder: folder = ""
        let f : Spec.Archive.IndexFile :=
          { platform := .win32, kind := kind,
            entries := [{ hash := h, synonym := false, datId := 1, offset := 256 }],
            dataSeg := [], folderSeg := [] }
        answer (Bytes.toHex (Spec.Archive.encodeIndex f) ++ " " ++ ph) "d1o256"
    | _, _ => bad
  | _ => bad

end Physis.Driver.C12
