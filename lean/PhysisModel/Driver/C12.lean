import PhysisModel.Base.Proto
import PhysisModel.Model.Crc
import PhysisModel.Spec.Crc32
import PhysisModel.Base.HexFast
import PhysisModel.Model.Sha1
import PhysisModel.Spec.Sha1
namespace Physis.Driver.C12
open Physis Physis.Proto

/-- one case line in, one answer line out (see `Base/Proto.lean`) -/
def handle (line : String) : String :=
  match fields line with
  | ["jamcrc", h] =>
    match Bytes.ofHexFast h with
    | some bs => answer "=" (toString (Spec.Crc32.crcBitwise 0xFFFFFFFF 0 (bs.map asciiLower)).toNat) []
        (some (toString (Crc.partialHash bs).toNat))
    | none => bad
  | ["shcrc", h] =>
    match Bytes.ofHexFast h with
    | some bs => answer "=" (toString (Spec.Crc32.crcBitwise 0 0 bs).toNat) []
        (some (toString (Crc.xivCrc Spec.Crc32.zlibCrc32 bs).toNat))
    | none => bad
  | ["sha1", h] =>
    -- file digest (`FileInfo::new`): FIPS 180-4 SHA-1 vs. the model of `src/sha1.rs`
    match Bytes.ofHexBig h with
    | some bs => answer "=" (Bytes.toHex (Spec.Sha1.sha1 bs)) [] (some (Bytes.toHex (Sha1.sha1 bs)))
    | none => bad
  | _ => bad

end Physis.Driver.C12
