import PhysisModel.Driver.Inflate
import PhysisModel.Driver.C01
import PhysisModel.Driver.C02
import PhysisModel.Driver.C03
import PhysisModel.Driver.C04
import PhysisModel.Driver.C05
import PhysisModel.Driver.C06
import PhysisModel.Driver.C07
import PhysisModel.Driver.C08
import PhysisModel.Driver.C09
import PhysisModel.Driver.C10
import PhysisModel.Driver.C11
import PhysisModel.Driver.C12
import PhysisModel.Driver.C13
import PhysisModel.Driver.C14
import PhysisModel.Driver.C15
import PhysisModel.Driver.C16
import PhysisModel.Driver.C17
import PhysisModel.Driver.C18
namespace Physis.Driver
def handlers : List (String × (String → String)) := [
  ("C01", C01.handle), ("C02", C02.handle), ("C03", C03.handle), ("C04", C04.handle),
  ("C05", C05.handle), ("C06", C06.handle), ("C07", C07.handle), ("C08", C08.handle),
  ("C09", C09.handle), ("C10", C10.handle), ("C11", C11.handle), ("C12", C12.handle),
  ("C13", C13.handle), ("C14", C14.handle), ("C15", C15.handle), ("C16", C16.handle),
  ("C17", C17.handle), ("C18", C18.handle),
  ("XINF", Inflate.handle)]
end Physis.Driver
