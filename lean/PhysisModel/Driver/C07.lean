import PhysisModel.Driver.C06Case
import PhysisModel.Spec.MdlEdit
import PhysisModel.Spec.MdlRedundant
import PhysisModel.Model.MdlWrite
import PhysisModel.Base.Mutate
namespace Physis.Driver.C07
open Physis Physis.Proto Physis.Mdl Physis.Spec.Mdl Physis.Driver.C06Case

/-! Case grammar (after the model tokens of `Driver/C06Case.lean` and a `|` token):
```
rv=<lod>:<part>:<vcount>:<stride.hex/…>:<indices u16 BE hex|->:<off.count/…|->
rs=1
as=<lod>:<shape>:<shape_mesh_index>:<part>:<base/…|->:<stride.hex/…|->
```
The concrete input for the real code carries decoded vertices instead of stream bytes:
`rv=<lod>:<part>:<vertices|->:<indices|->:<off.count/…|->`, `as=…:<base.vertex/…|->`. -/

def parseStreams (s : String) : Option (List AStream) :=
  (listOf "/" s).mapM fun t =>
    match t.splitOn "." with
    | [st, h] => do
      let st ← st.toNat?
      let d ← Bytes.ofHexFast h
      some ⟨st.toUInt8, d⟩
    | _ => none

def parsePairs (s : String) : Option (List (UInt32 × UInt32)) :=
  (listOf "/" s).mapM fun t =>
    match t.splitOn "." with
    | [a, b] => do
      let a ← a.toNat?
      let b ← b.toNat?
      some (a.toUInt32, b.toUInt32)
    | _ => none

def parseEdit (tok : String) : Option AEdit := do
  let (k, v) ← kv tok
  match k, v.splitOn ":" with
  | "rv", [lod, part, vc, streams, indices, subs] => do
    let lod ← lod.toNat?
    let part ← part.toNat?
    let vc ← vc.toNat?
    let streams ← parseStreams streams
    let indices ← (Bytes.ofHexFast indices) >>= u16sOfBE
    let subs ← parsePairs subs
    some (.replace lod part vc.toUInt16 streams indices subs)
  | "rs", ["1"] => some .removeShapes
  | "as", [lod, shape, smi, part, bases, streams] => do
    let lod ← lod.toNat?
    let shape ← shape.toNat?
    let smi ← smi.toNat?
    let part ← part.toNat?
    let bases ← nats "/" bases
    let streams ← parseStreams streams
    some (.addShape lod shape smi part (bases.map Nat.toUInt32) streams)
  | _, _ => none

def splitBar (toks : List String) : List String × List String :=
  (toks.takeWhile (· != "|"), (toks.dropWhile (· != "|")).drop 1)

/-- an edit with its vertex data decoded under the mesh's declaration -/
inductive CEdit
  | replace (lod part : Nat) (verts : List Vertex) (indices : List UInt16) (subs : List (UInt32 × UInt32))
  | removeShapes
  | addShape (lod shape smi part : Nat) (vals : List (UInt32 × Vertex))

def meshAt (m : AbstractModel) (lod part : Nat) : Option AMesh := do
  let l ← m.lods[lod]?
  l.meshes[part]?

/-- concrete arguments for the API call, decoded with the specification's `verticesOf` -/
def concretize (m : AbstractModel) : AEdit → Option CEdit
  | .replace lod part vc streams indices subs => do
    let mesh ← meshAt m lod part
    some (.replace lod part (verticesOf { mesh with vertexCount := vc, streams := streams }) indices subs)
  | .removeShapes => some .removeShapes
  | .addShape lod shape smi part bases streams => do
    let mesh ← meshAt m lod part
    let vs := verticesOf { mesh with vertexCount := bases.length.toUInt16, streams := streams }
    some (.addShape lod shape smi part (List.zip bases vs))

def concretizeAll : AbstractModel → List AEdit → Option (List CEdit)
  | _, [] => some []
  | m, e :: rest => do
    let c ← concretize m e
    -- an edit the specification rejects (outside the quantifier) leaves the abstract state as it is
    let m' := (applyEdit m e).getD m
    let cs ← concretizeAll m' rest
    some (c :: cs)

def ceditText : CEdit → String
  | .replace lod part verts indices subs =>
    "rv=" ++ toString lod ++ ":" ++ toString part ++ ":" ++ verticesText verts ++ ":" ++
      orDash (indices.flatMap u16Hex) ++ ":" ++
      joinOrDash "/" (subs.map fun (o, c) => toString o.toNat ++ "." ++ toString c.toNat)
  | .removeShapes => "rs=1"
  | .addShape lod shape smi part vals =>
    "as=" ++ toString lod ++ ":" ++ toString shape ++ ":" ++ toString smi ++ ":" ++ toString part ++
      ":" ++ joinOrDash "/" (vals.map fun (b, v) => toString b.toNat ++ "." ++ String.ofList (vertexChars v))

def applyCEdit (m : MDL) : CEdit → Mdl.R MDL
  | .replace lod part verts indices subs => replaceVertices m lod part verts indices subs
  | .removeShapes => removeShapeMeshes m
  | .addShape lod shape smi part vals => addShapeMesh m lod shape smi part vals

def b01 (b : Bool) : String := if b then "1" else "0"

def flagsText (edited : Bool) (fheq mdeq : Bool) (f : HeaderFlags) : String :=
  if edited then
    "fheq=- mdeq=" ++ b01 mdeq ++ " sz=" ++ b01 f.sized ++ " pad=" ++ b01 f.padded ++
      " dis=" ++ b01 f.disjoint ++ " inb=" ++ b01 f.inBounds
  else
    "fheq=" ++ b01 fheq ++ " mdeq=" ++ b01 mdeq ++ " sz=- pad=- dis=- inb=" ++ b01 f.inBounds

/-- parse → edits → write → parse, as the model of the code does it -/
def modelRun (file : Bytes) (edits : List CEdit) (withView : Bool := true) (maskInb : Bool := false) :
    String × Option Bytes :=
  match fromExisting file with
  | .error .fail => ("none", none)
  | .error .panic => ("none", none)   -- reader panic sites return `None` since the C18-5x fixes
  | .ok m0 =>
    match edits.foldlM applyCEdit m0 with
    | .error _ => ("panic@edit", none)
    | .ok mE =>
      match writeToBuffer mE with
      | .error .fail => ("none@write", none)
      | .error .panic => ("panic@write", none)
      | .ok buf =>
        match fromExisting buf with
        | .error .fail => ("none@reparse", some buf)
        | .error .panic => ("none@reparse", some buf)   -- reader panic sites return `None` (C18-5x fixes)
        | .ok m1 =>
          let fl := headerFlags m1.fileHeader buf.length m1.lods
          let t := flagsText (!edits.isEmpty) (buf.take 68 == file.take 68)
              (decide (m1.modelData = mE.modelData)) fl
          let t := if maskInb then String.ofList (t.toList.dropLast) ++ "-" else t
          ("ok " ++ t ++
            (if withView then " " ++ viewText m1.view else ""), some buf)

def specText (edited : Bool) (v : View) : String :=
  "ok " ++ flagsText edited true true HeaderFlags.allOk ++ " " ++ viewText v

/-- the final state must satisfy C07's quantifier: canonical, consistent starts -/
def inQuantifier (m : AbstractModel) : Bool := WF m && CanonicalAny m && (view m).isSome

/-- input class of the recorded finding: reader-supported layout without an inverse encoder -/
def whyOutside (m : AbstractModel) : String :=
  if !WF m then "outside:wf" else if !CanonicalAny m then "outside:canonical" else "outside:refs"

/-! ### the free-layout family (`editfree`) — correspondence only, no theorem

`Spec.Mdl.Canonical` (through `startsOk`) and `Spec.Mdl.relayout` only give a meaning to final
states whose meshes lie in the index buffer **in mesh order and packed**; `c07_edit_then_parse_*`
therefore say nothing about a history after which a LOD's meshes lie in another order or with gaps
between them, although such a history supplies "contiguous sub-mesh splits consistently for every
mesh of the LOD" just as well.  For these the driver computes the expected answer directly: the
re-parsed file must report the supplied geometry — `view` of the abstract final state, which does
not look at the layout when there are no shape meshes (vertices, indices, sub-mesh ranges, raw
streams and names are taken from the meshes as they are) — with all header flags ok. -/

/-- `CanonicalAny` without `startsOk` -/
def canonicalFree (m : AbstractModel) : Bool :=
  isV5 m.version && m.terrainShadowMeshes.isEmpty && m.terrainShadowSubmeshes.isEmpty &&
  (m.lods.drop m.lodCount.toNat).all (fun l => l.meshes.isEmpty) &&
  (allMeshes m).all canonicalMeshAny &&
  f32Ok m.misc.radius && f32Ok m.misc.modelClipOutOfDistance && f32Ok m.misc.shadowClipOutOfDistance &&
  m.lods.all (fun l => noNaNBlock (l.mid.take 8)) &&
  m.elementIds.all (fun e => noNaNBlock (e.drop 8)) && noNaNBlock m.boundingBoxes &&
  m.boneBoundingBoxes.all noNaNBlock

/-- index range `(start, count)` of a mesh: from its first sub-mesh's offset, as many words as it
has indices -/
def meshRange (m : AMesh) : Option (Nat × Nat) :=
  match m.submeshes with
  | s :: _ => some (s.indexOffset.toNat, m.indices.length)
  | [] => none

/-- the sub-meshes a mesh carries split its range contiguously -/
def subsContiguous (m : AMesh) : Bool :=
  match meshRange m with
  | none => false
  | some (start, n) =>
    let rec go : Nat → List Submesh → Bool
      | pos, [] => pos == start + n
      | pos, s :: rest => s.indexOffset.toNat == pos && go (pos + s.indexCount.toNat) rest
    go start m.submeshes

/-- the ranges of the meshes of every LOD in use are pairwise disjoint and below 2³¹ words -/
def rangesDisjoint (l : ALod) : Bool :=
  let rs := l.meshes.filterMap meshRange
  rs.length == l.meshes.length && rs.all (fun r => r.1 + r.2 < 2147483648) &&
  (List.range rs.length).all fun i => (List.range rs.length).all fun j =>
    i ≥ j || match rs[i]?, rs[j]? with
      | some a, some b => a.1 + a.2 ≤ b.1 || b.1 + b.2 ≤ a.1
      | _, _ => true

/-- final state of a free-layout history: everything `inQuantifier` asks except the mesh-order
starts, no shape meshes, consistent ranges -/
def freeOk (m : AbstractModel) : Bool :=
  WF m && canonicalFree m && m.shapeMeshes.isEmpty && m.shapeValues.isEmpty &&
  (m.lods.take m.lodCount.toNat).all (fun l => rangesDisjoint l && l.meshes.all subsContiguous) &&
  !hasUnwritable m && (view m).isSome

def kfTags (m : AbstractModel) : List String :=
  if hasUnwritable m then ["kf:c07.writer-unsupported-layout"] else []

/-! ### redundant header copies (`wredun`)

The file header and the LOD table both store every LOD's vertex / index offsets and buffer sizes.
`Spec.Mdl.encodeMdl` writes consistent copies; the reader uses `lods[i].vertex_data_offset` and
`file_header.index_offsets[i]` only.  `wredun redun=<f>.<lod>.<delta>,… <model>` adds `delta` to a
copy the reader does not use (`lio` = LOD-table index offset, `fvo` = file-header vertex offset,
`fvs` / `fis` = file-header vertex / index buffer size, `lvs` / `lis` = LOD-table sizes, `fss` / `frs` =
stored stack / runtime size, `flc` = the file header's LOD count): the file is
`Spec.Mdl.encodeMdlR a ρ` for the `ρ` that adds the deltas, it still parses to the same model
(`c06_parse_redundant_partial`), so parse → write → parse must report the same view, an unchanged
file header and unchanged model data (the in-bounds flag of the unedited header is not compared).

Theorems (`Properties/C07.lean`): unedited — `c07_write_redundant_partial` (tag `thm`; its
hypothesis `keepsTail`, some declared section end reaches the end of the file, is evaluated here;
cases outside it are tagged `corr`: correspondence only, `c07_write_redundant_bytes` still says the
written file differs by trailing zeros only); with an edit history — `c07_edit_redundant_partial`
(every `ρ`; tag `thm`).  Since fix C07-06 `update_headers` does not look at the stored file-header LOD
count either; the specification's answer is the view of the edited model as for every other case,
the model of the code is the 4th field. -/

def setArr3 (a : Arr3 UInt32) (i : Nat) (f : UInt32 → UInt32) : Arr3 UInt32 :=
  match i with
  | 0 => { a with a := f a.a }
  | 1 => { a with b := f a.b }
  | _ => { a with c := f a.c }

/-- `v + d`, or `v − d` where that would leave the `u32` range (a wrapped size would make the writer
extend the file to gigabytes) -/
def addDelta (d : Int) (v : UInt32) : UInt32 :=
  let n : Int := v.toNat + d
  UInt32.ofNat (if n < 0 || n ≥ 4294967296 then (v.toNat - d).toNat else n.toNat)

def parseRedun (tok : String) : Option (List (String × Nat × Int)) := do
  let (k, v) ← kv tok
  if k != "redun" then none
  (v.splitOn ",").mapM fun it =>
    match it.splitOn "." with
    | [f, l, d] => do
      let l ← l.toNat?
      let d ← d.toInt?
      if l < 3 && ["lio", "fvo", "fvs", "fis", "lvs", "lis", "fss", "frs", "flc"].contains f then some (f, l, d) else none
    | _ => none

def redunFH (fh : FileHeader) (r : String × Nat × Int) : FileHeader :=
  let (f, l, d) := r
  if f == "fvo" then { fh with vertexOffsets := setArr3 fh.vertexOffsets l (addDelta d) }
  else if f == "fvs" then { fh with vertexBufferSize := setArr3 fh.vertexBufferSize l (addDelta d) }
  else if f == "fis" then { fh with indexBufferSize := setArr3 fh.indexBufferSize l (addDelta d) }
  -- the stored stack / runtime sizes: the reader walks the runtime block by its own counts and never
  -- looks at them (the LOD number of the token is not used)
  else if f == "fss" then { fh with stackSize := addDelta d fh.stackSize }
  else if f == "frs" then { fh with runtimeSize := addDelta d fh.runtimeSize }
  -- the file header's LOD count (the reader loops over `ModelHeader.lodCount`); `u8`, wrapping
  else if f == "flc" then { fh with lodCount := UInt8.ofNat ((fh.lodCount.toNat + d) % 256).toNat }
  else fh

def redunMD (md : ModelData) (r : String × Nat × Int) : ModelData :=
  let (f, l, d) := r
  let g : MeshLod → MeshLod :=
    if f == "lio" then fun x => { x with indexDataOffset := addDelta d x.indexDataOffset }
    else if f == "lvs" then fun x => { x with vertexBufferSize := addDelta d x.vertexBufferSize }
    else if f == "lis" then fun x => { x with indexBufferSize := addDelta d x.indexBufferSize }
    else id
  { md with lods := md.lods.modify l g }

def handle (line : String) : String :=
  match fields line with
  | "wredun" :: rtok :: toks =>
    let (mt, et) := splitBar toks
    match parseModel mt, parseRedun rtok, et.mapM parseEdit with
    | some a, some rs, some es =>
      let file := encFileHeader (rs.foldl redunFH (fileHeader a)) ++
        (encModelData a.version (rs.foldl redunMD (modelData a)) ++ sections a)
      if es.isEmpty then
        let (ans, _) := modelRun file [] true true
        let input := "editr " ++ Bytes.toHex file
        -- `Redundant.keepsTail`: the largest declared section end of the stored file header
        let keeps : Bool :=
          decide ((encodeMdl a).length ≤ declaredEnd (rs.foldl redunFH (fileHeader a)))
        match inQuantifier a, view a with
        | true, some v =>
          answer input ("ok fheq=1 mdeq=1 sz=- pad=- dis=- inb=- " ++ viewText v)
            ([if keeps then "thm" else "corr", "redundant-copies"] ++ kfTags a) (some ans)
        | _, _ => answer input ans ["triv", whyOutside a]
      else
        -- an edit history on such a file: every edit ends with `update_headers`, which recomputes
        -- all copies — the written file must be the one the same history gives on the consistent file
        match concretizeAll a es with
        | none => bad
        | some ces =>
          let (ans, _) := modelRun file ces
          let input := "edit " ++ Bytes.toHex file ++ String.join (ces.map fun c => " " ++ ceditText c)
          -- a perturbed copy of a LOD the model does not use (index ≥ lod_count) is not touched by
          -- `update_headers`: the header-consistency flags, which look at all three slots, are then
          -- not the specification's business — model against code only
          let unused := rs.any fun (f, l, _) => f != "fss" && f != "frs" && f != "flc" && l ≥ a.lodCount.toNat
          -- `c07_edit_redundant_partial` (every ρ, the stored file-header LOD count included: since
          -- fix C07-06 no edit reads it, it is echoed into the written file)
          let lcTags : List String := ["thm"]
          match applyEdits a es with
          | some a' =>
            match inQuantifier a && inQuantifier a' && !unused, view a' with
            | true, some v => answer input (specText true v) (lcTags ++ ["redundant-copies"] ++ kfTags a') (some ans)
            | _, _ => answer input ans ["triv", if inQuantifier a then whyOutside a' else whyOutside a]
          | none => answer input ans ["triv", "outside:edit"]
    | _, _, _ => bad
  | "mut" :: seed :: k :: "write" :: toks =>
    -- the encoded file with `k` damaged bytes (Base/Mutate.lean) through parse → write → parse:
    -- model of the code vs the code (no specification answer for a damaged file)
    match parseModel toks, seed.toNat?, k.toNat? with
    | some a, some seed, some k =>
      let file := Mutate.mutate (encodeMdl a) seed.toUInt64 k (bias := 68 + 136 * (allMeshes a).length + 200)
      -- the writer extends the buffer to the largest `offset + size` of the file header: a damaged
      -- header field would make it (model and code alike) produce gigabytes — such files are skipped
      let huge : Bool := match fromExisting file with
        | .ok m0 =>
          let fh := m0.fileHeader
          let ends := [fh.vertexOffsets.a.toNat + fh.vertexBufferSize.a.toNat,
            fh.vertexOffsets.b.toNat + fh.vertexBufferSize.b.toNat,
            fh.vertexOffsets.c.toNat + fh.vertexBufferSize.c.toNat,
            fh.indexOffsets.a.toNat + fh.indexBufferSize.a.toNat,
            fh.indexOffsets.b.toNat + fh.indexBufferSize.b.toNat,
            fh.indexOffsets.c.toNat + fh.indexBufferSize.c.toNat,
            (m0.modelData.lods.map fun l => l.vertexDataOffset.toNat + l.vertexBufferSize.toNat).foldl max 0,
            (m0.modelData.lods.map fun l => l.indexDataOffset.toNat + l.indexBufferSize.toNat).foldl max 0]
          decide (ends.foldl max 0 > file.length + 65536)
        | _ => false
      if huge then answer "skip" "skip" ["triv", "mut-huge"] else
      let (ans, _) := modelRun file []
      answer ("edit " ++ Bytes.toHex file) ans ["corr", "mut"]
    | _, _, _ => bad
  | "wgap" :: toks =>
    -- a mesh record that belongs to no LOD: the harness lowers LOD 0's mesh count by one in the
    -- encoded file (LOD 1 then starts behind a gap in the mesh table) and asks for a metamorphic
    -- property only: parse -> write -> parse returns the view of the first parse (`stable`).
    -- Correspondence only: `Spec.encodeMdl` cannot express such files.
    match parseModel toks with
    | none => bad
    | some a =>
      match a.lods with
      | l0 :: _ :: _ =>
        if l0.meshes.length ≥ 2 && inQuantifier a && (view a).isSome then
          answer ("wgap " ++ Bytes.toHex (encodeMdl a)) "stable" ["corr"]
        else answer "skip" "skip" ["triv"]
      | _ => answer "skip" "skip" ["triv"]
  | "write" :: toks =>
    match parseModel toks with
    | none => bad
    | some a =>
      let file := encodeMdl a
      let (ans, _) := modelRun file []
      let input := "edit " ++ Bytes.toHex file
      match inQuantifier a, view a with
      | true, some v => answer input (specText false v) (kfTags a) (some ans)
      | _, _ => answer input ans ["triv", whyOutside a]
  | "edit" :: toks =>
    let (mt, et) := splitBar toks
    match parseModel mt, et.mapM parseEdit with
    | some a, some es =>
      match concretizeAll a es with
      | none => bad
      | some ces =>
        let file := encodeMdl a
        let (ans, _) := modelRun file ces
        let input := "edit " ++ Bytes.toHex file ++ String.join (ces.map fun c => " " ++ ceditText c)
        match applyEdits a es with
        | some a' =>
          match inQuantifier a && inQuantifier a', view a' with
          | true, some v => answer input (specText (!es.isEmpty) v) (kfTags a') (some ans)
          | _, _ => answer input ans ["triv", if inQuantifier a then whyOutside a' else whyOutside a]
        | none => answer input ans ["triv", "outside:edit"]
    | _, _ => bad
  | "editfree" :: toks =>
    let (mt, et) := splitBar toks
    match parseModel mt, et.mapM parseEdit with
    | some a, some es =>
      match concretizeAll a es with
      | none => bad
      | some ces =>
        let file := encodeMdl a
        let (ans, _) := modelRun file ces
        let input := "edit " ++ Bytes.toHex file ++ String.join (ces.map fun c => " " ++ ceditText c)
        match applyEdits a es with
        | some a' =>
          match inQuantifier a && !es.isEmpty && freeOk a', view a' with
          | true, some v =>
            answer input (specText true v)
              ["corr", if inQuantifier a' then "layout:meshorder" else "layout:free"] (some ans)
          | _, _ => answer input ans ["triv", "outside:free"]
        | none => answer input ans ["triv", "outside:edit"]
    | _, _ => bad
  | "wbytes" :: toks =>
    let (mt, et) := splitBar toks
    match parseModel mt, et.mapM parseEdit with
    | some a, some es =>
      match concretizeAll a es with
      | none => bad
      | some ces =>
        let file := encodeMdl a
        let (ans, buf) := modelRun file ces
        let input := "wbytes " ++ Bytes.toHex file ++ String.join (ces.map fun c => " " ++ ceditText c)
        let out := match buf with
          | some b => Bytes.toHex b
          | none => ans
        answer input out ["corr"]
    | _, _ => bad
  | ["rawwrite", h] =>
    match Bytes.ofHexFast h with
    | none => bad
    | some file =>
      let (ans, _) := modelRun file [] false
      match fromExisting file with
      | .ok _ => answer "=" ("ok " ++ flagsText false true true HeaderFlags.allOk) ["sample"] (some ans)
      | _ => answer "=" ans ["triv"]
  | _ => bad

end Physis.Driver.C07
