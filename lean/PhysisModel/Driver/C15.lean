import PhysisModel.Base.Proto
import PhysisModel.Model.Race
import PhysisModel.Model.Paths
import PhysisModel.Spec.Paths
namespace Physis.Driver.C15
open Physis Physis.Proto Physis.Paths

def bstr (b : Bytes) : String := String.ofList (b.map (fun c => Char.ofNat c.toNat))

def showOpt : Option Nat → String
  | some c => s!"some:{c}"
  | none => "none"

/-- insertion sort with the implementation's comparator (model of `Vec::sort` + `Ord`) -/
def insertBy (cmp : Repo → Repo → Ordering) (x : Repo) : List Repo → List Repo
  | [] => [x]
  | y :: ys => if cmp x y == .gt then y :: insertBy cmp x ys else x :: y :: ys
def sortBy (cmp : Repo → Repo → Ordering) (l : List Repo) : List Repo := l.foldr (insertBy cmp) []

def repoOf (n : Nat) : Repo := if n = 0 then none else some n
def repoNameOf : Repo → String
  | none => "ffxiv"
  | some n => s!"ex{n}"

def specSort (l : List Repo) : List Repo :=
  sortBy (fun a b => compare (Spec.Paths.repoKey a) (Spec.Paths.repoKey b)) l

def names (l : List Repo) : String := ",".intercalate (l.map repoNameOf)

def nats (fs : List String) : Option (List Nat) := fs.mapM (·.toNat?)

def handleCase (line : String) : String :=
  match fields line with
  | "tribes" :: fs =>
    match nats fs with
    | some [r] =>
      let (a, b) := Spec.Paths.ownTribes r
      let m := match Race.supportedTribes r with | some (x, y) => s!"{x},{y}" | none => "none"
      if 1 ≤ r ∧ r ≤ 8 then answer "=" s!"{a},{b}" [] (some m) else bad
    | _ => bad
  | "race" :: fs =>
    match nats fs with
    | some [r, t, g] =>
      -- the property does not fix the numeric code: the expected answer is the model's; on a
      -- mismatch the judge checks "defined exactly on valid triples" and the table theorems decide
      answer "=" (showOpt (Race.raceId r t g)) (if decide (Spec.Paths.validTriple r t g) then [] else ["triv"])
    | _ => bad
  | "skel" :: fs =>
    match nats fs with
    | some [r, t, g] =>
      match Race.raceId r t g with
      | some c => answer "=" (bstr (skeletonPath c))
      | none => bad
    | _ => bad
  | "char" :: fs =>
    match nats fs with
    | some [k, ver, r, t, g] =>
      match Race.raceId r t g, charCategory k with
      | some c, some cat => answer "=" (bstr (characterPath cat ver c))
      | _, _ => bad
    | _ => bad
  | "equip" :: fs =>
    match nats fs with
    | some [id, r, t, g, s] =>
      match Race.raceId r t g, slotAbbrev s with
      | some c, some a =>
        let d := match deconstruct (equipmentFile id c a) with
          | some (i, s') => s!"some:{i},{s'}"
          | none => "none"
        -- specification: the id and slot read back are the ones the path was built from
        answer "=" (bstr (equipmentPath id c a) ++ s!" some:{id},{s}") [] (some (bstr (equipmentPath id c a) ++ " " ++ d))
      | _, _ => bad
    | _ => bad
  | "names" :: fs =>
    match nats fs with
    | some [cat, ex, chunk, p, dat] =>
      match platformString p with
      | some tag =>
        let folder := bstr (repoName ex)
        let spec := s!"{folder}/{bstr (Spec.Paths.indexName cat ex chunk tag)},{folder}/{bstr (Spec.Paths.index2Name cat ex chunk tag)},{folder}/{bstr (Spec.Paths.datName cat ex chunk tag dat)}"
        let rd := s!"{folder}/{bstr (indexFilename cat ex chunk tag)},{folder}/{bstr (index2Filename cat ex chunk tag)},{folder}/{bstr (datFilename cat ex chunk tag dat)}"
        let sub := ex * 256 + chunk
        let pf := bstr (patchFolder sub)
        let pt := s!"{pf}/{bstr (patchIndexFilename cat sub tag 0)},{pf}/{bstr (patchIndexFilename cat sub tag 2)},{pf}/{bstr (patchDatFilename cat sub tag dat)}"
        answer "=" s!"read={spec} patch={spec}" [] (some s!"read={rd} patch={pt}")
      | none => bad
    | _ => bad
  | "names2" :: fs =>
    -- `names2 <cat> <ex> <chunk> <dat> <platform of .index> <of .index2> <of .dat> <order>`: one patch
    -- with several TargetInfo commands; each file carries the tag of the platform in force at its
    -- command (`order` < 6 = the order of the three commands in the patch; the names do not depend on it)
    match nats fs with
    | some [cat, ex, chunk, dat, pi, pi2, pd, ord] =>
      match platformString pi, platformString pi2, platformString pd with
      | some ti, some ti2, some td =>
        if ord ≥ 6 then bad else
        let folder := bstr (repoName ex)
        let spec := s!"{folder}/{bstr (Spec.Paths.indexName cat ex chunk ti)},{folder}/{bstr (Spec.Paths.index2Name cat ex chunk ti2)},{folder}/{bstr (Spec.Paths.datName cat ex chunk td dat)}"
        let rd := s!"{folder}/{bstr (indexFilename cat ex chunk ti)},{folder}/{bstr (index2Filename cat ex chunk ti2)},{folder}/{bstr (datFilename cat ex chunk td dat)}"
        let sub := ex * 256 + chunk
        let pf := bstr (patchFolder sub)
        let pt := s!"{pf}/{bstr (patchIndexFilename cat sub ti 0)},{pf}/{bstr (patchIndexFilename cat sub ti2 2)},{pf}/{bstr (patchDatFilename cat sub td dat)}"
        answer "=" s!"read={spec} patch={spec}" [] (some s!"read={rd} patch={pt}")
      | _, _, _ => bad
    | _ => bad
  | "names3" :: fs =>
    -- `names3 <cat> <ex> <chunk> <platform> <dat> <dat> <dat>`: three AddData commands in a row on one
    -- category / expansion / chunk; each writes to the data file its own number names
    match nats fs with
    | some [cat, ex, chunk, pl, d1, d2, d3] =>
      match platformString pl with
      | some t =>
        let folder := bstr (repoName ex)
        let sub := ex * 256 + chunk
        let pf := bstr (patchFolder sub)
        let uniq := fun (l : List String) => (l.toArray.qsort (· < ·)).toList.eraseDups
        let spec := ",".intercalate (uniq ([d1, d2, d3].map fun d => s!"{folder}/{bstr (Spec.Paths.datName cat ex chunk t d)}"))
        let rd := ",".intercalate (uniq ([d1, d2, d3].map fun d => s!"{folder}/{bstr (datFilename cat ex chunk t d)}"))
        let pt := ",".intercalate (uniq ([d1, d2, d3].map fun d => s!"{pf}/{bstr (patchDatFilename cat sub t d)}"))
        answer "=" s!"read={spec} patch={spec}" [] (some s!"read={rd} patch={pt}")
      | none => bad
    | _ => bad
  | [op, l] =>
    if op != "sort" && op != "discover" then bad else
    match natList l with
    | some ns =>
      let rs := ns.map repoOf
      answer "=" (names (specSort rs)) [] (some (names (sortBy repoCmp rs)))
    | none => bad
  | _ => bad

/-- property predicate on the implementation's own answer, for cases where the property does not
fix the answer uniquely -/
def judge (case actual : String) : String :=
  match fields case with
  | "race" :: fs =>
    match nats fs with
    | some [r, t, g] =>
      let valid := decide (Spec.Paths.validTriple r t g)
      let defined := actual.startsWith "some:"
      if (valid && defined) || (!valid && actual == "none") then "ok" else "fail"
    | _ => "fail"
  | "equip" :: fs =>
    match nats fs with
    | some [id, _, _, _, s] => if (actual.splitOn " ").getLast? == some s!"some:{id},{s}" then "ok" else "fail"
    | _ => "fail"
  | "skel" :: _ => if actual.startsWith "panic" then "fail" else "ok"
  | "char" :: _ => if actual.startsWith "panic" then "fail" else "ok"
  | _ => "fail"

def handle (line : String) : String :=
  match line.trimAscii.toString.splitOn "\t" with
  | ["JUDGE", case, actual] => "=\t" ++ judge case actual
  | _ => handleCase line

end Physis.Driver.C15
