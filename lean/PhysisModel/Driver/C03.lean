import PhysisModel.Base.Proto
import PhysisModel.Base.FsText
import PhysisModel.Model.Patch
import PhysisModel.Spec.ZiPatch
import PhysisModel.Spec.ZiPatchSparse
import PhysisModel.Model.Inflate
import PhysisModel.Base.Mutate
/-!
Driver for C03.  Case grammar (one line):

```
apply api=<zipatch|game|boot> tree=<tree> cmds=<cmd>,<cmd>,…          one patch
chain api=<…> tree=<tree> cmds=<cmd>,… cmds=<cmd>,… …                  several patches, in order
cmd := T:<platform>:<region>:<debug>:<version>:<deleted>:<seek>
     | X:<status>:<version>:<install>     | I:<A|D>:<0|1>:<hash>:<off>:<num>
     | FH2:<namehex>:<depot>  | FH3:<namehex>:<n1>.<n2>.….<n13>  | APLY:<opt>:<val>
     | ADIR:<namehex> | DELD:<namehex>
     | A:<main>:<sub>:<file>:<off>:<del>:<content>          (content length = 128·blocks)
     | D:<main>:<sub>:<file>:<off>:<num> | E:<main>:<sub>:<file>:<off>:<num>
     | H:<D|I>:<V|I|D>:<main>:<sub>:<file>:<content>        (1024 bytes)
     | FA:<off>:<exp>:<path>:<block>;<block>;…  (block := r<content> | z<compressed hex>_<content>; `-` = none)
     | FD:<exp>:<path> | FR:<exp>:<path> | FM:<exp>:<path>
```
`<path>` is written as in `Base/FsText.lean` (`%20` = space, …).  `cmds=-` is the empty list.  The answer's input field is `<api> <patch hex> …` — the patches
encoded by `Spec.ZiPatch.encodePatch` (the harness takes the start tree from the case line).

`applybig api=<…> tree=<tree> cmds=<cmd>,… [cmds=<cmd>,… …]` — same grammar, same encoder, for command
lists whose block offsets / wipe counts / AddFile offsets reach byte offsets of 2^32 and more (files of
4–32 GiB, sparse on the Rust side).  The expected tree is computed by the **sparse** evaluation of the
reference semantics (`Spec/ZiPatchSparse.lean`: `runChainS` on run-length encoded contents, FNV-1a of a
zero run by modular exponentiation), which `c03_sparse_refines` / `c03_sparse_chain` / `c03_sparse_text`
prove equal to `Spec.ZiPatch.runChain` + `FsText.showTree` on the dense tree, for all inputs.  No `model`
field: the dense model cannot be executed at these sizes; `c03_sparse_model` (= `c03_chain` through
`c03_sparse_chain`) proves that the model's answer on these cases is the expected one.  A command list
that is not well formed is a `bad-case` here (the generator emits well-formed lists only).
-/
namespace Physis.Driver.C03
open Physis Physis.Proto Physis.Fs Physis.FsText Physis.Spec.ZiPatch

/-- tail-recursive hex (patches can be long) -/
def toHexFast (bs : Bytes) : String :=
  if bs.isEmpty then "-" else
  String.ofList (bs.foldl (fun acc b => Bytes.hexDigit (b.toNat % 16) :: Bytes.hexDigit (b.toNat / 16) :: acc) []).reverse

def outcomeStr : Patch.Outcome → String
  | .ok => "ok" | .parseError => "err:ParseError" | .ioError => "err:InvalidPatchFile" | .panic => "panic"

def stripKey (k : String) (s : String) : Option String :=
  if s.startsWith (k ++ "=") then some (s.drop (k.length + 1)).toString else none

def u8? (s : String) : Option UInt8 := s.toNat?.bind fun n => if n < 256 then some n.toUInt8 else none
def u16? (s : String) : Option UInt16 := s.toNat?.bind fun n => if n < 65536 then some n.toUInt16 else none
def u32? (s : String) : Option UInt32 := s.toNat?.bind fun n => if n < 2 ^ 32 then some n.toUInt32 else none
def u64? (s : String) : Option UInt64 := s.toNat?.bind fun n => if n < 2 ^ 64 then some n.toUInt64 else none

def parseBlock (s : String) : Option Block :=
  if s.startsWith "r" then (parseContent (s.drop 1).toString).map Block.raw
  else if s.startsWith "z" then
    match (s.drop 1).toString.splitOn "_" with
    | [c, d] => do
      let c ← Bytes.ofHexFast c
      let d ← parseContent d
      pure (Block.deflated c d)
    | _ => none
  else none

/-- the path of a file operation: text as in `FsText` (`%hh` escapes for the bytes that are not
letters, digits, `.`, `_`, `-`, `/`), any arrangement of `/` (a path outside `pathOk` is a legitimate
case: it is outside `WFseq` and compared with the model only) -/
def pathBytes (s : String) : Option Bytes :=
  if s.isEmpty then none else pathText? s

def parseCmd (s : String) : Option Cmd :=
  match s.splitOn ":" with
  | ["T", pl, rg, dbg, v, del, sk] => do
    pure (.target (← u16? pl) (← u16? rg) (← u16? dbg) (← u16? v) (← u64? del) (← u64? sk))
  | ["X", st, v, inst] => do pure (.patchInfo (← u8? st) (← u8? v) (← u64? inst))
  | ["I", c, syn, h, off, num] => do
    let add ← (if c == "A" then some true else if c == "D" then some false else none)
    let syn ← (if syn == "1" then some true else if syn == "0" then some false else none)
    pure (.index add syn (← u64? h) (← u32? off) (← u32? num))
  | ["FH2", name, depot] => do pure (.fhdr2 (← Bytes.ofHex name) (← u32? depot))
  | ["FH3", name, nums] => do
    let ns ← (nums.splitOn ".").mapM u32?
    pure (.fhdr3 (← Bytes.ofHex name) ns)
  | ["APLY", o, v] => do pure (.aply (← u32? o) (← u32? v))
  | ["ADIR", name] => do pure (.adir (← Bytes.ofHex name))
  | ["DELD", name] => do pure (.deld (← Bytes.ofHex name))
  | ["A", m, sub, f, off, del, data] => do
    pure (.addData (← u16? m) (← u16? sub) (← u32? f) (← u32? off) (← u32? del) (← parseContent data))
  | ["D", m, sub, f, off, num] => do
    pure (.deleteData (← u16? m) (← u16? sub) (← u32? f) (← u32? off) (← u32? num))
  | ["E", m, sub, f, off, num] => do
    pure (.expandData (← u16? m) (← u16? sub) (← u32? f) (← u32? off) (← u32? num))
  | ["H", fk, hk, m, sub, f, data] => do
    let isIdx ← (if fk == "I" then some true else if fk == "D" then some false else none)
    let k ← (if hk == "V" then some HeaderKind.version else if hk == "I" then some HeaderKind.index
      else if hk == "D" then some HeaderKind.data else none)
    pure (.header isIdx k (← u16? m) (← u16? sub) (← u32? f) (← parseContent data))
  | ["FA", off, exp, path, blocks] => do
    let bs ← (if blocks == "-" then some [] else (blocks.splitOn ";").mapM parseBlock)
    pure (.addFile (← u64? off) (← u16? exp) (← pathBytes path) bs)
  | ["FD", exp, path] => do pure (.deleteFile (← u16? exp) (← pathBytes path))
  | ["FR", exp, path] => do pure (.removeAll (← u16? exp) (← pathBytes path))
  | ["FM", exp, path] => do pure (.mkDirTree (← u16? exp) (← pathBytes path))
  | _ => none

def parseCmds (s : String) : Option (List Cmd) :=
  if s == "-" then some [] else (s.splitOn ",").mapM parseCmd

/-- the (compressed, original) pairs travelling in the case: the driver's `inflate` -/
def inflateTable (cs : List Cmd) : List (Bytes × Bytes) :=
  cs.flatMap fun c => match c with
    | .addFile _ _ _ blocks => blocks.filterMap fun b => match b with
      | .deflated c d => some (c, d)
      | .raw _ => none
    | _ => []

def tableInflate (tab : List (Bytes × Bytes)) (x : Bytes) (n : Nat) : Option Bytes :=
  (tab.find? fun e => e.2.length == n && x.take e.1.length == e.1).map (·.2)

/-! ### `mut`: a damaged patch (model of the code against the code, outcome and resulting tree)

The dense tree model materialises every byte, and a damaged offset / count field can ask for
gigabytes (so can the real patcher: that is the format).  `safePatch` walks the chunks of the
damaged patch as the model reads them and admits the case only if every offset, count and size
that drives a write is small; anything else is skipped. -/

/-- a path with a NUL byte inside: every `std::fs` call on it fails (`InvalidInput`, the path cannot
become a C string); `Base/Fs.lean` has no such paths (the theorems are about NUL-free names), so a
damaged patch that names one is not compared -/
def nulFree (p : Bytes) : Bool := !(Patch.trimNul p).contains 0

def chunkSafe : Patch.Chunk → Bool
  | .addDirectory n => nulFree n
  | .deleteDirectory n => nulFree n
  | .fileOp _ off size _ path => off.toNat ≤ 2 ^ 22 && size.toNat ≤ 2 ^ 22 && nulFree path
  | .addData _ _ _ off del data => off.toNat ≤ 2 ^ 22 && del.toNat ≤ 2 ^ 20 && data.length ≤ 2 ^ 20
  | .deleteData _ _ _ off num => off.toNat ≤ 2 ^ 22 && num.toNat ≤ 2 ^ 13
  | .expandData _ _ _ off num => off.toNat ≤ 2 ^ 22 && num.toNat ≤ 2 ^ 13
  | _ => true

def scanSafe (inflate : Bytes → Nat → Option Bytes) : Nat → Bytes → Bool
  | 0, _ => true
  | fuel + 1, s =>
    match Patch.rdChunkBody s with
    | .ok .eof _ => true
    | .ok c sb =>
      if !chunkSafe c then false
      else if sb.length < 4 then true
      else
        match c with
        | .fileOp .addFile _ size _ _ =>
          match Patch.readBlocks inflate (sb.length + 1) sb size.toNat [] with
          | none => true
          | some (_, s') => scanSafe inflate fuel (s'.drop 4)
        | _ => scanSafe inflate fuel (sb.drop 4)
    | _ => true

def safePatch (inflate : Bytes → Nat → Option Bytes) (patch : Bytes) : Bool :=
  match Patch.rdPatchHeader patch with
  | some s => scanSafe inflate patch.length s
  | none => true

def handleMut (seed k : Nat) (api tree cmds : String) : String :=
  match stripKey "api" api, (stripKey "tree" tree).bind parseTree, (stripKey "cmds" cmds).bind parseCmds with
  | some api, some t, some cs =>
    if !(api == "zipatch" || api == "game" || api == "boot") then bad else
    if api == "boot" && !isFile t [Bytes.ofString "ffxivboot.ver"] then bad else
    let patch := Mutate.mutate (encodePatch cs) seed.toUInt64 k (bias := 160)
    -- the real inflater in both readings of a short stream (`Inflate.inflatesToFill`): a case whose
    -- answer depends on the reading is not compared
    let i1 : Bytes → Nat → Option Bytes := fun c n => Physis.Inflate.inflatesTo c n
    let i2 : Bytes → Nat → Option Bytes := fun c n => Physis.Inflate.inflatesToFill c n
    if !(safePatch i1 patch && safePatch i2 patch) then answer "skip" "skip" ["triv", "mut-large"] else
    let show' := fun (r : Patch.Outcome × Tree) =>
      (if r.1 == .ok then "ok" else "err") ++ " " ++ showTree r.2 true
    let a1 := show' (Patch.applyAll i1 [patch] t)
    let a2 := show' (Patch.applyAll i2 [patch] t)
    if a1 != a2 then answer "skip" "skip" ["triv", "mut-short-stream"] else
    answer (api ++ " " ++ toHexFast patch) a1 ["corr", "mut"]
  | _, _, _ => bad

def handleCase (api tree : String) (cmdss : List String) : String :=
  match stripKey "api" api, (stripKey "tree" tree).bind parseTree, cmdss.mapM (fun s => (stripKey "cmds" s).bind parseCmds) with
  | some api, some t, some pss =>
    if !(api == "zipatch" || api == "game" || api == "boot") then bad else
    if api == "boot" && !isFile t [Bytes.ofString "ffxivboot.ver"] then bad else
    let patches := pss.map encodePatch
    let inflate := tableInflate (inflateTable pss.flatten)
    let (o, mt) := Patch.applyAll inflate patches t
    let model := outcomeStr o ++ " " ++ showTree mt true
    let input := " ".intercalate (api :: patches.map toHexFast)
    match (if WFchain pss t then runChain pss t else none) with
    | some st => answer input ("ok " ++ showTree st true) (if pss.flatten.isEmpty then ["triv"] else []) (some model)
    | none => answer input model ["triv", "nwf"] (some model)
  | _, _, _ => bad

def handleBig (api tree : String) (cmdss : List String) : String :=
  match stripKey "api" api, (stripKey "tree" tree).bind parseTree, cmdss.mapM (fun s => (stripKey "cmds" s).bind parseCmds) with
  | some api, some t, some pss =>
    if !(api == "zipatch" || api == "game" || api == "boot") then bad else
    if api == "boot" && !isFile t [Bytes.ofString "ffxivboot.ver"] then bad else
    let st := Spec.ZiPatchSparse.liftTree t
    if !Spec.ZiPatchSparse.WFchainS pss st then bad else
    match Spec.ZiPatchSparse.runChainS pss st with
    | some st' =>
      let input := " ".intercalate (api :: (pss.map encodePatch).map toHexFast)
      answer input ("ok " ++ Spec.ZiPatchSparse.showTreeS st' true) (if pss.flatten.isEmpty then ["triv"] else [])
    | none => bad
  | _, _, _ => bad

def handle (line : String) : String :=
  match fields line with
  | "applybig" :: api :: tree :: cmdss => if cmdss.isEmpty then bad else handleBig api tree cmdss
  | ["apply", api, tree, cmds] => handleCase api tree [cmds]
  | ["mut", seed, k, "apply", api, tree, cmds] =>
    match seed.toNat?, k.toNat? with
    | some sd, some k => handleMut sd k api tree cmds
    | _, _ => bad
  | "chain" :: api :: tree :: cmdss => if cmdss.isEmpty then bad else handleCase api tree cmdss
  | _ => bad

end Physis.Driver.C03
