import PhysisModel.Model.Inflate
import PhysisModel.Driver.Inflate
import PhysisModel.Base.Proto
import PhysisModel.Spec.SqPackData
import PhysisModel.Model.Dat
/-!
Driver for C02.  Case grammar (one line, fields separated by single spaces):

  std <units> <suffix len> <blocks>
  tex <units> <suffix len> <texture header hex> <mip>|<mip>|…          (mip = blocks)
  mdl <units> <suffix len> <version>,<vertex decls>,<materials>,<lods>,<ibs 0|1>,<edge 0|1> <sec>|…  (11 sections: stack runtime v0 e0 i0 v1 e1 i1 v2 e2 i2; sec = blocks)

* blocks   `-` (none) or `;`-separated `r<content hex>` (stored raw) | `d<content hex>/<deflate stream hex>`
           (stored as that raw-deflate stream; produced by the harness with zlib's own `deflate`)
* the entry is placed at offset `units * 128` of a dat file, behind a filler prefix and before a
  filler suffix of `suffix len` bytes.

`input` for the implementation: `<offset> <dat file hex>` — the file is `prefix ++ pack… ++ suffix`
with the entry encoded by `Spec/SqPackData`.  Answer: extracted bytes as hex | `none` | `panic`.
The model's `inflate` parameter is instantiated with the (stream ↦ content) pairs of the case.
-/
namespace Physis.Driver.C02
open Physis Physis.Proto Physis.Spec.SqPackData

def parseBlock (s : String) : Option Block := do
  if s.startsWith "r" then
    some { data := ← Bytes.ofHexFast (s.drop 1).toString, compressed := none }
  else if s.startsWith "d" then
    match (s.drop 1).toString.splitOn "/" with
    | [d, c] => some { data := ← Bytes.ofHexFast d, compressed := some (← Bytes.ofHexFast c) }
    | _ => none
  else none

def parseBlocks (s : String) : Option (List Block) :=
  if s == "-" then some [] else (s.splitOn ";").mapM parseBlock

def filler (n : Nat) (seed : Nat) : Bytes :=
  (List.range n).map (fun i => ((i * 7 + seed) % 251 + 1).toUInt8)

/-- The model's `inflate` parameter is instantiated with the executable RFC 1951 inflater
(`Model/Inflate.lean`, itself checked against zlib by the `inflate` / `garbage` cases below): the
(compressed, original) pairs delivered by the harness are not trusted — a stream that does not
inflate to its claimed content makes the model disagree with the expected answer. -/
def inflateOf (_ : List Block) : Dat.Inflate := fun c n => Physis.Inflate.inflatesTo c n

def showRes : Option (Option Bytes) → String
  | none => "panic"
  | some none => "none"
  | some (some d) => Bytes.toHex d

def finish (units suffix : Nat) (entry : Bytes) (all : List Block) (expected : Bytes) (wf : Bool) : String :=
  let pre := filler (units * 128) 3
  let file := pre ++ entry ++ filler suffix 5
  let model := Dat.readFromOffset (inflateOf all) file (units * 128)
  if wf then
    answer (toString (units * 128) ++ " " ++ Bytes.toHex file) (Bytes.toHex expected) [] (some (showRes model))
  else bad

def handle (line : String) : String :=
  match fields line with
  | "inflate" :: _ => Physis.Driver.Inflate.handle line
  | "garbage" :: _ => Physis.Driver.Inflate.handle line
  | ["std", units, suffix, blocks] =>
    match (do
      let bs ← parseBlocks blocks
      some (finish (← units.toNat?) (← suffix.toNat?) (packStandard bs) bs (contents bs) (standardWf bs))) with
    | some r => r
    | none => bad
  | ["tex", units, suffix, hdr, mips] =>
    match (do
      let hdr ← Bytes.ofHexFast hdr
      let mips ← (mips.splitOn "|").mapM parseBlocks
      some (finish (← units.toNat?) (← suffix.toNat?) (packTexture hdr mips) mips.flatten
        (hdr ++ contents mips.flatten) (textureWf hdr mips))) with
    | some r => r
    | none => bad
  | ["mdl", units, suffix, mt, secs] =>
    match (do
      let m ← (match mt.splitOn "," with
        | [v, vd, mn, l, ibs, ege] => do
          some ({ version := (← v.toNat?).toUInt32, vertexDeclarationNum := (← vd.toNat?).toUInt16,
                  materialNum := (← mn.toNat?).toUInt16, numLods := (← l.toNat?).toUInt8,
                  indexBufferStreaming := (← ibs.toNat?) == 1, edgeGeometry := (← ege.toNat?) == 1 } : ModelMeta)
        | _ => none)
      let secs ← (secs.splitOn "|").mapM parseBlocks
      match secs with
      | [st, rt, v0, e0, i0, v1, e1, i1, v2, e2, i2] =>
        let s : ModelSections := ⟨st, rt, v0, e0, i0, v1, e1, i1, v2, e2, i2⟩
        some (finish (← units.toNat?) (← suffix.toNat?) (packModel m s) s.all (unpackedModel m s) (modelWf s))
      | _ => none) with
    | some r => r
    | none => bad
  | _ => bad

end Physis.Driver.C02
