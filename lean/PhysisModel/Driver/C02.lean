import PhysisModel.Model.Inflate
import PhysisModel.Driver.Inflate
import PhysisModel.Base.Proto
import PhysisModel.Spec.SqPackData
import PhysisModel.Model.Dat
import PhysisModel.Model.Extract
import PhysisModel.Driver.C01
import PhysisModel.Base.Mutate
/-!
Driver for C02.  Case grammar (one line, fields separated by single spaces):

  std <units> <suffix len> <blocks>
  tex <units> <suffix len> <texture header hex> <mip>|<mip>|…          (mip = blocks)
  mdl <units> <suffix len> <version>,<vertex decls>,<materials>,<lods>,<ibs 0|1>,<edge 0|1> <sec>|…  (11 sections: stack runtime v0 e0 i0 v1 e1 i1 v2 e2 i2; sec = blocks)

* blocks   `-` (none) or `;`-separated `r<content hex>` (stored raw) | `d<content hex>/<deflate stream hex>`
           (stored as that raw-deflate stream; produced by the harness with zlib's own `deflate`)
* the entry is placed at offset `units * 128` of a dat file, behind a filler prefix and before a
  filler suffix of `suffix len` bytes.

`input` for the implementation: `<offset> <dat file hex>` — the file is `prefix ++ pack… ++ suffix`
with the entry encoded by `Spec/SqPackData`.  Answer: extracted bytes as hex | `none` | `panic`.
The model's `inflate` parameter is instantiated with the executable inflater of `Model/Inflate.lean`.

End to end (the property is stated for entries "in dat0..dat7", observed at `GameData::extract`):

  xarch <platform 0..4> <dirs> <queries> <mode> <record> <record> …

see the section "entries in a synthetic installation" below.
-/
namespace Physis.Driver.C02
open Physis Physis.Proto Physis.Spec.SqPackData

def parseBlock (s : String) : Option Block := do
  if s.startsWith "r" then
    some { data := ← Bytes.ofHexFast (s.drop 1).toString, compressed := none }
  else if s.startsWith "d" then
    match (s.drop 1).toString.splitOn "/" with
    | [d, c] => some { data := ← Bytes.ofHexFast d, compressed := some (← Bytes.ofHexFast c) }
    | _ => none
  else none

def parseBlocks (s : String) : Option (List Block) :=
  if s == "-" then some [] else (s.splitOn ";").mapM parseBlock

def filler (n : Nat) (seed : Nat) : Bytes :=
  (List.range n).map (fun i => ((i * 7 + seed) % 251 + 1).toUInt8)

/-- `texgap`: the filler in front of the chains of LOD 1, 2, … from their lengths (joined by `|`) -/
def parseGaps (s : String) : Option (List Bytes) := do
  let gl ← (s.splitOn "|").mapM (·.toNat?)
  some (gl.zipIdx.map fun (n, i) => filler n (11 + i))

/-- The model's `inflate` parameter is instantiated with the executable RFC 1951 inflater
(`Model/Inflate.lean`, itself checked against zlib by the `inflate` / `garbage` cases below): the
(compressed, original) pairs delivered by the harness are not trusted — a stream that does not
inflate to its claimed content makes the model disagree with the expected answer. -/
def inflateOf (_ : List Block) : Dat.Inflate := fun c n => Physis.Inflate.inflatesTo c n

def showRes : Option (Option Bytes) → String
  | none => "panic"
  | some none => "none"
  | some (some d) => Bytes.toHex d

def parseMeta (mt : String) : Option ModelMeta :=
  match mt.splitOn "," with
  | [v, vd, mn, l, ibs, ege] => do
    some { version := (← v.toNat?).toUInt32, vertexDeclarationNum := (← vd.toNat?).toUInt16,
           materialNum := (← mn.toNat?).toUInt16, numLods := (← l.toNat?).toUInt8,
           indexBufferStreaming := (← ibs.toNat?) == 1, edgeGeometry := (← ege.toNat?) == 1 }
  | _ => none

def parseSections (secs : String) : Option ModelSections := do
  match ← (secs.splitOn "|").mapM parseBlocks with
  | [st, rt, v0, e0, i0, v1, e1, i1, v2, e2, i2] => some ⟨st, rt, v0, e0, i0, v1, e1, i1, v2, e2, i2⟩
  | _ => none

def finish (units suffix : Nat) (entry : Bytes) (all : List Block) (expected : Bytes) (wf : Bool)
    (dmg : Option (UInt64 × Nat) := none) : String :=
  let pre := filler (units * 128) 3
  if let some (seed, k) := dmg then
    -- `mut <seed> <k> <case>`: `k` damaged bytes in the entry (Base/Mutate.lean); the model of the
    -- code against the code; the reader's former panic sites return `None` since the C18 fixes
    let file := pre ++ Mutate.mutate entry seed k (bias := 384) ++ filler suffix 5
    let show' := fun (r : Option (Option Bytes)) => match r with
      | some (some d) => Bytes.toHex d
      | _ => "none"
    let ans := show' (Dat.readFromOffset (inflateOf all) file (units * 128))
    -- a damaged stream that ends before the declared length leaves unspecified bytes in the block
    -- (see `Inflate.inflatesToFill`): such cases are not compared
    let ans' := show' (Dat.readFromOffset (fun c n => Physis.Inflate.inflatesToFill c n) file (units * 128))
    if !wf then bad
    else if ans != ans' then answer "skip" "skip" ["triv", "mut-short-stream"]
    else answer (toString (units * 128) ++ " " ++ Bytes.toHex file) ans ["corr", "mut"]
  else
  let file := pre ++ entry ++ filler suffix 5
  let model := Dat.readFromOffset (inflateOf all) file (units * 128)
  if wf then
    answer (toString (units * 128) ++ " " ++ Bytes.toHex file) (Bytes.toHex expected) [] (some (showRes model))
  else bad

/-! ## entries in a synthetic installation, extracted through `GameData::extract`

  xarch <platform 0..4> <dirs> <queries> <mode> <record> <record> …

* dirs     comma-separated hex names of the directories below `sqpack` (listing order)
* queries  comma-separated `x<path hex>` (extract) | `e<path hex>` (exists) | `o<path hex>` (find_offset)
* mode     `one` (all queries on one handle) | `fresh` (a new handle per query)
* record   `E <path hex> <chunk> <kinds 1|2|3> <dat id 0..7> <units> <payload>`: the index files of
           the path's repository / category (as `Spec.Archive.resolve` says) and that chunk — `.index`
           (kinds 1), `.index2` (2) or both (3) — list the path with dat id and offset `units * 128`;
           payload = `std <blocks>` | `tex <texture header hex> <mips>` | `mdl <meta> <secs>` (as in
           the single-file ops above): that entry, encoded by `Spec/SqPackData`, sits at that offset
           of dat file `<dat id>`; or `none`: nothing is written (the index entry points at whatever
           another record put at that offset, or into a dat file that does not exist).
           The records of one dat file come in ascending offset order and must not overlap (else
           `bad-case`); gaps are filled with non-zero filler that depends on the dat id, so that the
           same offset in two dat files never holds the same bytes unless the case says so.

Index files are encoded by `Spec/Archive.encodeIndex`, file names come from `Spec/Archive`; `input`:
`xarch <platform> <dirs> <files> <queries> <mode>` with files as in C01 (it is run by C01's
installation runner).  Answers as in C01: `x<hex>` | `xnone` | `T` | `F` | `o<n>` | `onone` | `panic`.
Specification: `locate` (C01) gives repository, category, chunk, dat id and offset of a path; the
expected answer is the content packed at that place (`c02_extract_standard` is the theorem behind
it; for texture / model entries the same composition with `c02_texture` / `c02_model`).
-/
section archive
open Physis.Spec.Archive

inductive Payload
  | std (bs : List Block)
  | tex (hdr : Bytes) (mips : List (List Block))
  | mdl (m : ModelMeta) (s : ModelSections)
  | nothing

def Payload.pack : Payload → Bytes
  | .std bs => packStandard bs
  | .tex hdr mips => packTexture hdr mips
  | .mdl m s => packModel m s
  | .nothing => []

/-- what the property says extraction must return -/
def Payload.content : Payload → Bytes
  | .std bs => contents bs
  | .tex hdr mips => hdr ++ contents mips.flatten
  | .mdl m s => unpackedModel m s
  | .nothing => []

def Payload.wf : Payload → Bool
  | .std bs => standardWf bs
  | .tex hdr mips => textureWf hdr mips
  | .mdl _ s => modelWf s
  | .nothing => true

structure XEntry where
  path : Bytes
  chunk : Nat
  kinds : Nat
  dat : Nat
  units : Nat
  payload : Payload

def mkEntry (path ch k d u : String) (payload : Payload) : Option XEntry := do
  let k ← k.toNat?
  let d ← d.toNat?
  if k < 1 || k > 3 || d > 7 then none
  some { path := ← Bytes.ofHexFast path, chunk := ← ch.toNat?, kinds := k, dat := d, units := ← u.toNat?, payload }

def parseRecords : List String → Option (List XEntry)
  | [] => some []
  | "E" :: path :: ch :: k :: d :: u :: "std" :: blocks :: rest => do
    some ((← mkEntry path ch k d u (.std (← parseBlocks blocks))) :: (← parseRecords rest))
  | "E" :: path :: ch :: k :: d :: u :: "tex" :: hdr :: mips :: rest => do
    some ((← mkEntry path ch k d u (.tex (← Bytes.ofHexFast hdr) (← (mips.splitOn "|").mapM parseBlocks)))
      :: (← parseRecords rest))
  | "E" :: path :: ch :: k :: d :: u :: "mdl" :: mt :: secs :: rest => do
    some ((← mkEntry path ch k d u (.mdl (← parseMeta mt) (← parseSections secs))) :: (← parseRecords rest))
  | "E" :: path :: ch :: k :: d :: u :: "none" :: rest => do
    some ((← mkEntry path ch k d u .nothing) :: (← parseRecords rest))
  | _ => none

structure Placed where
  files : List ((Nat × Nat × Nat × Nat) × Bytes)          -- (exp, cat id, chunk, dat id) ↦ dat file
  slots : List ((Nat × Nat × Nat × Nat) × List Entry)     -- (exp, cat id, chunk, kind 1|2) ↦ entries
  table : List ((Nat × Nat × Nat × Nat × Nat) × Bytes)    -- (exp, cat id, chunk, dat id, offset) ↦ packed content

def updList {κ α} [BEq κ] (l : List (κ × α)) (k : κ) (dflt : α) (f : α → α) : List (κ × α) :=
  if l.any (fun x => x.1 == k) then l.map (fun x => if x.1 == k then (x.1, f x.2) else x)
  else l ++ [(k, f dflt)]

/-- place one record: repository and category as `Spec.Archive.resolve` says for its path -/
def place (dirs : List Bytes) (pl : Placed) (e : XEntry) : Option Placed := do
  let a0 : Archive := { platform := .win32, dirs, slot := fun _ _ _ _ => .absent }
  let (exp, cat) ← resolve a0 e.path
  if !e.payload.wf then none
  let dk := (exp, cat.id, e.chunk, e.dat)
  let off := e.units * 128
  let (files, table) ← (match e.payload with
    | .nothing => some (pl.files, pl.table)
    | p =>
      let cur := ((pl.files.lookup dk).getD []).length
      if cur > off then none else
      some (updList pl.files dk [] (fun d => d ++ filler (off - cur) (cur + 17 * e.dat + 3) ++ p.pack),
            pl.table ++ [((exp, cat.id, e.chunk, e.dat, off), p.content)]))
  let lp := Str.lower e.path
  let addTo (slots : List ((Nat × Nat × Nat × Nat) × List Entry)) (kn : Nat) (k : Kind) : Option (List ((Nat × Nat × Nat × Nat) × List Entry)) := do
    let h ← hashOf k lp
    some (updList slots (exp, cat.id, e.chunk, kn) [] (fun es =>
      es ++ [{ hash := h, synonym := false, datId := e.dat.toUInt8, offset := off.toUInt64 }]))
  let slots ← (if e.kinds == 1 || e.kinds == 3 then addTo pl.slots 1 .index1 else some pl.slots)
  let slots ← (if e.kinds == 2 || e.kinds == 3 then addTo slots 2 .index2 else some slots)
  some { files, slots, table }

/-- the specification's answer; `none` = the case is outside the grammar (an index entry pointing
into an existing dat file at an offset where no record starts) -/
def specAnswer (a : Archive) (pl : Placed) : GameData.Query → Option String
  | .exists p => some (if (locate a p).isSome then "T" else "F")
  | .findOffset p => some (match locate a p with | some l => "o" ++ toString l.offset.toNat | none => "onone")
  | .extract p =>
    match locate a p with
    | none => some "xnone"
    | some l =>
      match pl.table.lookup (l.exp, l.cat.id, l.chunk, l.datId.toNat, l.offset.toNat) with
      | some content => some ("x" ++ Bytes.toHex content)
      | none => if (pl.files.lookup (l.exp, l.cat.id, l.chunk, l.datId.toNat)).isSome then none else some "xnone"

def showExtract : Option (Option Bytes) → String
  | none => "panic"
  | some none => "xnone"
  | some (some d) => "x" ++ Bytes.toHex d

def modelStep (disk : GameData.Disk) (g : GameData.GameData) : GameData.Query → String × GameData.GameData
  | .extract p => let (r, g) := GameData.extractFull (inflateOf []) disk g p; (showExtract r, g)
  | q => let (ans, g) := GameData.step disk g q; (C01.showAnswer disk ans, g)

def modelAnswers (disk : GameData.Disk) : GameData.GameData → List GameData.Query → List String
  | _, [] => []
  | g, q :: qs => let (s, g) := modelStep disk g q; s :: modelAnswers disk g qs

def handleXarch (pl dirs qs mode : String) (records : List String) : Option String := do
  let plat ← C01.platOf (← pl.toNat?)
  let dirsB ← (C01.splitList dirs ",").mapM Bytes.ofHexFast
  let qsP ← (C01.splitList qs ",").mapM C01.parseQuery
  let fresh ← (if mode == "one" then some false else if mode == "fresh" then some true else none)
  let entries ← parseRecords records
  let placed ← entries.foldlM (place dirsB) { files := [], slots := [], table := [] }
  let slotSpecs ← placed.slots.mapM (fun ((e, c, ch, kn), es) => do
    let cat ← C01.catOfId c
    let k ← C01.kindOf kn
    let f : IndexFile := { platform := plat, kind := k, entries := es,
                           dataSeg := List.replicate 256 0xFF, folderSeg := List.replicate 16 0x11 }
    if !f.wf then none else
    some ({ exp := e, cat, chunk := ch, kind := k, slot := .file f } : C01.SlotSpec))
  -- files of a directory that does not exist cannot exist
  if slotSpecs.any (fun s => !dirsB.contains (repoDir s.exp)) then none
  let a := C01.archiveOf plat dirsB slotSpecs
  let datFiles ← placed.files.mapM (fun ((e, c, ch, d), b) => do
    let cat ← C01.catOfId c
    some ((repoDir e, datName plat e cat ch d), b))
  let files : C01.Files :=
    slotSpecs.filterMap (fun s => (s.slot.bytes).map (fun b => ((repoDir s.exp, indexName plat s.exp s.cat s.chunk s.kind), b)))
      ++ datFiles
  let spec ← qsP.mapM (specAnswer a placed)
  let disk : GameData.Disk := fun d n => files.lookup (d, n)
  let model := match GameData.fromExisting (C01.modelPlat plat) dirsB with
    | none => qsP.map (fun _ => "panic")
    | some g => if fresh then qsP.map (fun q => (modelStep disk g q).1) else modelAnswers disk g qsP
  let input := " ".intercalate ["xarch", toString plat.id.toNat, dirs, C01.showFiles files, qs, mode]
  let triv := spec.all (fun x => x == "xnone" || x == "x" || x == "F" || x == "onone")
  if qsP.isEmpty then none else
  some (answer input (",".intercalate spec) (if triv then ["triv"] else []) (some (",".intercalate model)))

end archive

def handle (line : String) : String :=
  match fields line with
  | "inflate" :: _ => Physis.Driver.Inflate.handle line
  | "garbage" :: _ => Physis.Driver.Inflate.handle line
  | ["std", units, suffix, blocks] =>
    match (do
      let bs ← parseBlocks blocks
      some (finish (← units.toNat?) (← suffix.toNat?) (packStandard bs) bs (contents bs) (standardWf bs))) with
    | some r => r
    | none => bad
  | ["tex", units, suffix, hdr, mips] =>
    match (do
      let hdr ← Bytes.ofHexFast hdr
      let mips ← (mips.splitOn "|").mapM parseBlocks
      some (finish (← units.toNat?) (← suffix.toNat?) (packTexture hdr mips) mips.flatten
        (hdr ++ contents mips.flatten) (textureWf hdr mips))) with
    | some r => r
    | none => bad
  | ["texgap", units, suffix, hdr, mips, gaps] =>
    -- mip chains with filler between them (`Spec.packTextureG`; gap lengths joined by `|`);
    -- theorem `c02_texture_gapped`: expected = texture header ++ mip contents, nothing of the filler
    match (do
      let hdr ← Bytes.ofHexFast hdr
      let mips ← (mips.splitOn "|").mapM parseBlocks
      let gs ← parseGaps gaps
      some (finish (← units.toNat?) (← suffix.toNat?) (packTextureG hdr mips gs) mips.flatten
        (hdr ++ contents mips.flatten) (textureGWf hdr mips gs))) with
    | some r => r
    | none => bad
  | ["mdl", units, suffix, mt, secs] =>
    match (do
      let m ← parseMeta mt
      let s ← parseSections secs
      some (finish (← units.toNat?) (← suffix.toNat?) (packModel m s) s.all (unpackedModel m s) (modelWf s))) with
    | some r => r
    | none => bad
  | ["mut", seed, k, "std", units, suffix, blocks] =>
    match (do
      let bs ← parseBlocks blocks
      some (finish (← units.toNat?) (← suffix.toNat?) (packStandard bs) bs (contents bs) (standardWf bs)
        (some ((← seed.toNat?).toUInt64, ← k.toNat?)))) with
    | some r => r
    | none => bad
  | ["mut", seed, k, "tex", units, suffix, hdr, mips] =>
    match (do
      let hdr ← Bytes.ofHexFast hdr
      let mips ← (mips.splitOn "|").mapM parseBlocks
      some (finish (← units.toNat?) (← suffix.toNat?) (packTexture hdr mips) mips.flatten
        (hdr ++ contents mips.flatten) (textureWf hdr mips) (some ((← seed.toNat?).toUInt64, ← k.toNat?)))) with
    | some r => r
    | none => bad
  | ["mut", seed, k, "texgap", units, suffix, hdr, mips, gaps] =>
    match (do
      let hdr ← Bytes.ofHexFast hdr
      let mips ← (mips.splitOn "|").mapM parseBlocks
      let gs ← parseGaps gaps
      some (finish (← units.toNat?) (← suffix.toNat?) (packTextureG hdr mips gs) mips.flatten
        (hdr ++ contents mips.flatten) (textureGWf hdr mips gs) (some ((← seed.toNat?).toUInt64, ← k.toNat?)))) with
    | some r => r
    | none => bad
  | ["mut", seed, k, "mdl", units, suffix, mt, secs] =>
    match (do
      let m ← parseMeta mt
      let s ← parseSections secs
      some (finish (← units.toNat?) (← suffix.toNat?) (packModel m s) s.all (unpackedModel m s) (modelWf s)
        (some ((← seed.toNat?).toUInt64, ← k.toNat?)))) with
    | some r => r
    | none => bad
  | "idx" :: _ => Physis.Driver.C01.handle line
  | "xarch" :: pl :: dirs :: qs :: mode :: records =>
    match handleXarch pl dirs qs mode records with
    | some r => r
    | none => bad
  | _ => bad

end Physis.Driver.C02
