import PhysisModel.Base.Proto
import PhysisModel.Model.Tex
import PhysisModel.Spec.Tex
import PhysisModel.Base.Mutate
/-!
C13 driver.  Case grammar (one line):

  `tex <attribute> <format code> <width> <height> <depth> <mip levels> <64 bytes hex: 3 LOD + 13 surface offsets> <payload hex>`

* input for the real code: `tex <hex of Spec.Tex.encode header payload>`
* expected: the canonical specified decoding `Spec.Tex.expected .bc1Modes`
* model: `Tex.fromExisting` on the encoded file
* answers: `<width> <height> <depth> <2d|3d> <rgba hex>` | `none` | `panic`
* tag `kf:bc3-colour-mode`: the texture is in the class `Spec.Bcn.Bc3ConventionsDiffer`
  (then no `model` field: see `handle`)
* tag `triv`: no pixels
* `mut <seed> <k> tex …` — the same encoded file (header + payload) with `k` bytes damaged
  (`Base/Mutate.lean`); expected = the model's answer on the damaged file (tags `corr mut`, no
  specification answer, never judged); a file the model rejects (`None`, or a panic of the pre-fix
  code paths) is `none`, which is what the reader returns since the C18 fixes
A case whose format code is not one of the four formats of the property, or whose payload is
shorter than the texture needs, is outside the property's quantifier and is rejected (`bad-case`).
`JUDGE\t<case>\t<answer>` evaluates the property predicate `Spec.Tex.DecodedOK` on `<answer>`.
-/
namespace Physis.Driver.C13
open Physis Physis.Proto

def hexFast (bs : Bytes) : String :=
  if bs.isEmpty then "-" else
  bs.foldl (fun s b => (s.push (Bytes.hexDigit (b.toNat / 16))).push (Bytes.hexDigit (b.toNat % 16))) ""

def u32s : Bytes → List UInt32
  | a :: b :: c :: d :: rest => Tex.u32le a b c d :: u32s rest
  | _ => []

structure Case where
  header : Spec.Tex.Header
  fmt : Spec.Bcn.Format
  payload : Bytes

def parseCase (fs : List String) : Option Case :=
  match fs with
  | ["tex", attr, code, w, h, d, mips, offs, payload] => do
    let attr ← attr.toNat?
    let code ← code.toNat?
    let w ← w.toNat?
    let h ← h.toNat?
    let d ← d.toNat?
    let mips ← mips.toNat?
    let offs ← Bytes.ofHex offs
    let payload ← Bytes.ofHexFast payload
    if attr ≥ 2 ^ 32 ∨ code ≥ 2 ^ 32 ∨ w ≥ 65536 ∨ h ≥ 65536 ∨ d ≥ 65536 ∨ mips ≥ 65536 ∨ offs.length ≠ 64 then none
    else
      let os := u32s offs
      let hd : Spec.Tex.Header :=
        ⟨UInt32.ofNat attr, UInt32.ofNat code, UInt16.ofNat w, UInt16.ofNat h, UInt16.ofNat d,
         UInt16.ofNat mips, os.take 3, os.drop 3⟩
      let fmt ← Spec.Tex.formatOfCode hd.formatCode
      if payload.length < Spec.Bcn.needed fmt w h d then none
      else some ⟨hd, fmt, payload⟩
  | _ => none

def showDecoded (r : Spec.Tex.Decoded) : String :=
  s!"{r.width} {r.height} {r.depth} {if r.threeD then "3d" else "2d"} {hexFast r.rgba}"

def showModel (r : Except Bcn.Err (Option Tex.Texture)) : String :=
  match r with
  | .error _ => "panic"
  | .ok none => "none"
  | .ok (some t) =>
    let ty := match t.textureType with
      | .ThreeDimensional => "3d"
      | .TwoDimensional => "2d"
    s!"{t.width.toNat} {t.height.toNat} {t.depth.toNat} {ty} {hexFast t.rgba}"

def parseDecoded (s : String) : Option Spec.Tex.Decoded :=
  match fields s with
  | [w, h, d, ty, rgba] => do
    let w ← w.toNat?
    let h ← h.toNat?
    let d ← d.toNat?
    let ty ← if ty == "3d" then some true else if ty == "2d" then some false else none
    let rgba ← Bytes.ofHexFast rgba
    some ⟨ty, w, h, d, rgba⟩
  | _ => none

def judge (caseLine ans : String) : String :=
  -- a damaged file has no specification answer: a difference from the model is never excused
  if (fields caseLine).head? == some "mut" then "JUDGE\tfail" else
  match parseCase (fields caseLine) with
  | none => "JUDGE\tbad-case"
  | some c =>
    match parseDecoded ans with
    | none => "JUDGE\tfail"
    | some r =>
      if decide (Spec.Tex.DecodedOK .bc1Modes c.fmt c.header c.payload r) then "JUDGE\tok" else "JUDGE\tfail"

/-- `mut <seed> <k> tex …`: the model of the code on the damaged encoding -/
def handleMut (seed : UInt64) (k : Nat) (fs : List String) : String :=
  match parseCase fs with
  | none => bad
  | some c =>
    -- even seeds: half of the damage inside the 16 bytes that matter most (attribute, format, width,
    -- height, depth, mip count); odd seeds: inside the first 256 bytes (header + first blocks)
    let file := Mutate.mutate (Spec.Tex.encode c.header c.payload) seed k (if seed % 2 == 0 then 16 else 256)
    let model := match Tex.fromExisting file with
      | .error _ => "none"
      | r => showModel r
    answer ("tex " ++ hexFast file) model ["corr", "mut"]

/-- one case line in, one answer line out (see `Base/Proto.lean`) -/
def handle (line : String) : String :=
  match line.splitOn "\t" with
  | ["JUDGE", c, a] => judge c a.trimAscii.toString
  | _ =>
  match fields line with
  | "mut" :: seed :: k :: rest =>
    match seed.toNat?, k.toNat? with
    | some s, some k => handleMut s.toUInt64 k rest
    | _, _ => bad
  | fs =>
  match parseCase fs with
  | none => bad
  | some c =>
    let file := Spec.Tex.encode c.header c.payload
    let w := c.header.width.toNat
    let h := c.header.height.toNat
    let d := c.header.depth.toNat
    -- BC3 colour: the property statement says "BC3 interpolated alpha over BC1 colour" right after
    -- naming both BC1 modes, so the specified colour decode is BC1's (both modes); the D3D/Khronos
    -- "always 4-colour" reading is kept in Spec/Bcn.lean (`.always4`) and in the `_partial`
    -- theorems as a remark only (lead's ruling, DESIGN.md §13)
    let tags := (if w * h * d = 0 then ["triv"] else [])
    match Spec.Tex.expected .bc1Modes c.header c.payload with
    | none => bad
    | some e =>
      answer ("tex " ++ hexFast file) (showDecoded e) tags (some (showModel (Tex.fromExisting file)))

end Physis.Driver.C13
