import PhysisModel.Driver.C06Case
namespace Physis.Driver.C06
open Physis Physis.Proto Physis.Mdl Physis.Spec.Mdl Physis.Driver.C06Case

/-- the input class of the recorded finding `c06.blendweights-byte4`: some mesh with vertices
declares a (BlendWeights, Byte4) element -/
def hasWeightsByte4 (m : AbstractModel) : Bool :=
  (allMeshes m).any fun mesh => mesh.vertexCount != 0 &&
    mesh.decl.any fun e => e.vertexUsage == VU.blendWeights && e.vertexType == VT.byte4

def specText (m : AbstractModel) : String :=
  match view m with
  | some v => viewText v
  | none => "outside"

/-- one case line in, one answer line out (see `Base/Proto.lean`) -/
def handle (line : String) : String :=
  match fields line with
  | "parse" :: toks =>
    match parseModel toks with
    | none => bad
    | some m =>
      let file := encodeMdl m
      let modelAns := resultText (fromExisting file)
      let input := "parse " ++ Bytes.toHex file
      if WF m && (view m).isSome then
        answer input (specText m) (if hasWeightsByte4 m then ["kf:c06.blendweights-byte4"] else [])
          (some modelAns)
      else
        -- outside the property's quantifier: correspondence of the model only
        answer input modelAns ["triv", if WF m then "outside:refs" else "outside:wf"]
  | ["raw", h] =>
    match Bytes.ofHexFast h with
    | some bs => answer "=" (resultText (fromExisting bs)) ["corr"]
    | none => bad
  | _ => bad

end Physis.Driver.C06
