import PhysisModel.Driver.C06Case
import PhysisModel.Spec.MdlPlaced
namespace Physis.Driver.C06
open Physis Physis.Proto Physis.Mdl Physis.Spec.Mdl Physis.Driver.C06Case

/-- the input class of the recorded finding `c06.blendweights-byte4`: some mesh with vertices
declares a (BlendWeights, Byte4) element -/
def hasWeightsByte4 (m : AbstractModel) : Bool :=
  (allMeshes m).any fun mesh => mesh.vertexCount != 0 &&
    mesh.decl.any fun e => e.vertexUsage == VU.blendWeights && e.vertexType == VT.byte4

def specText (m : AbstractModel) : String :=
  match view m with
  | some v => viewText v
  | none => "outside"

/-! ### `placed`: the same abstract model stored with another placement of its vertex streams

```
placed lay=<L0>|<L1>|<L2> <model tokens as for `parse`>
<Li> = <vpre hex|->;<ipre hex|->;<item,item,…|->
item = s<d>.<j>          stream j of mesh d (of this LOD) is stored next
     | g<hex>            these bytes are stored next (gap / padding)
     | a<d>.<j>.<e>.<k>  stream j of mesh d shares the bytes of the already stored stream k of mesh e
```
`vpre` / `ipre`: bytes in front of the LOD's vertex section / between it and the index section.
The recipe only *builds* a `Spec.Mdl.Placement`; whether it holds every stream is decided by
`Spec.Mdl.PlacedOk`. -/

structure LayState where
  sec : Bytes := []
  placed : List ((Nat × Nat) × Nat) := []   -- ((mesh, stream), offset)

def dj (s : String) : Option (List Nat) := (s.splitOn ".").mapM (·.toNat?)

def layItem (l : ALod) (st : LayState) (item : String) : Option LayState :=
  match item.toList with
  | 's' :: rest => do
    match ← dj (String.ofList rest) with
    | [d, j] =>
      let mesh ← l.meshes[d]?
      let s ← mesh.streams[j]?
      some { sec := st.sec ++ s.data, placed := ((d, j), st.sec.length) :: st.placed }
    | _ => none
  | 'g' :: rest => do
    let b ← Bytes.ofHexFast (String.ofList rest)
    some { st with sec := st.sec ++ b }
  | 'a' :: rest => do
    match ← dj (String.ofList rest) with
    | [d, j, e, k] =>
      let off ← st.placed.lookup (e, k)
      some { st with placed := ((d, j), off) :: st.placed }
    | _ => none
  | _ => none

/-- vertex section, gaps and per-mesh stream offsets of one LOD -/
def layLod (l : ALod) (s : String) : Option (Bytes × Bytes × Bytes × List (List Nat)) :=
  match s.splitOn ";" with
  | [vpre, ipre, items] => do
    let vpre ← Bytes.ofHexFast vpre
    let ipre ← Bytes.ofHexFast ipre
    let st ← (listOf "," items).foldlM (layItem l) {}
    let offs ← (List.zip (List.range l.meshes.length) l.meshes).mapM fun (d, mesh) =>
      (List.range mesh.streams.length).mapM fun j => st.placed.lookup (d, j)
    some (st.sec, vpre, ipre, offs)
  | _ => none

def parseLay (m : AbstractModel) (tok : String) : Option Placement := do
  let (k, v) ← kv tok
  if k != "lay" then none
  let parts := v.splitOn "|"
  if parts.length != m.lods.length then none
  let ls ← (List.zip m.lods parts).mapM fun (l, s) => layLod l s
  some { vsecs := ls.map (·.1), vpre := ls.map (·.2.1), ipre := ls.map (·.2.2.1),
         offs := ls.flatMap (·.2.2.2) }

/-- one case line in, one answer line out (see `Base/Proto.lean`) -/
def handle (line : String) : String :=
  match fields line with
  | "parse" :: toks =>
    match parseModel toks with
    | none => bad
    | some m =>
      let file := encodeMdl m
      let modelAns := resultText (fromExisting file)
      let input := "parse " ++ Bytes.toHex file
      if WF m && (view m).isSome then
        answer input (specText m) (if hasWeightsByte4 m then ["kf:c06.blendweights-byte4"] else [])
          (some modelAns)
      else
        -- outside the property's quantifier: correspondence of the model only
        answer input modelAns ["triv", if WF m then "outside:refs" else "outside:wf"]
  | "placed" :: lay :: toks =>
    match parseModel toks with
    | none => bad
    | some m =>
      match parseLay m lay with
      | none => bad
      | some p =>
        let file := encodeMdlP m p
        let modelAns := resultText (fromExisting file)
        let input := "parse " ++ Bytes.toHex file
        if WFP m p && (view m).isSome then
          -- inside the quantifier of `c06_placed_parse_encode_partial`: expected = the unchanged view
          answer input (specText m)
            (["layout:placed"] ++ (if hasWeightsByte4 m then ["kf:c06.blendweights-byte4"] else []))
            (some modelAns)
        else
          answer input modelAns
            ["triv", if !WF m then "outside:wf" else if !PlacedOk m p then "outside:placement"
                     else "outside:refs"]
  | ["raw", h] =>
    match Bytes.ofHexFast h with
    | some bs => answer "=" (resultText (fromExisting bs)) ["corr"]
    | none => bad
  | _ => bad

end Physis.Driver.C06
