import PhysisModel.Driver.C06Case
import PhysisModel.Spec.MdlPlaced
import PhysisModel.Spec.MdlFill
import PhysisModel.Base.Mutate
namespace Physis.Driver.C06
open Physis Physis.Proto Physis.Mdl Physis.Spec.Mdl Physis.Driver.C06Case

/-- the input class of the recorded finding `c06.blendweights-byte4`: some mesh with vertices
declares a (BlendWeights, Byte4) element -/
def hasWeightsByte4 (m : AbstractModel) : Bool :=
  (allMeshes m).any fun mesh => mesh.vertexCount != 0 &&
    mesh.decl.any fun e => e.vertexUsage == VU.blendWeights && e.vertexType == VT.byte4

def specText (m : AbstractModel) : String :=
  match view m with
  | some v => viewText v
  | none => "outside"

/-! ### `placed`: the same abstract model stored with another placement of its vertex streams

```
placed lay=<L0>|<L1>|<L2> <model tokens as for `parse`>
<Li> = <vpre hex|->;<ipre hex|->;<item,item,…|->
item = s<d>.<j>          stream j of mesh d (of this LOD) is stored next
     | g<hex>            these bytes are stored next (gap / padding)
     | a<d>.<j>.<e>.<k>  stream j of mesh d shares the bytes of the already stored stream k of mesh e
```
`vpre` / `ipre`: bytes in front of the LOD's vertex section / between it and the index section.
The recipe only *builds* a `Spec.Mdl.Placement`; whether it holds every stream is decided by
`Spec.Mdl.PlacedOk`. -/

structure LayState where
  sec : Bytes := []
  placed : List ((Nat × Nat) × Nat) := []   -- ((mesh, stream), offset)

def dj (s : String) : Option (List Nat) := (s.splitOn ".").mapM (·.toNat?)

def layItem (l : ALod) (st : LayState) (item : String) : Option LayState :=
  match item.toList with
  | 's' :: rest => do
    match ← dj (String.ofList rest) with
    | [d, j] =>
      let mesh ← l.meshes[d]?
      let s ← mesh.streams[j]?
      some { sec := st.sec ++ s.data, placed := ((d, j), st.sec.length) :: st.placed }
    | _ => none
  | 'g' :: rest => do
    let b ← Bytes.ofHexFast (String.ofList rest)
    some { st with sec := st.sec ++ b }
  | 'a' :: rest => do
    match ← dj (String.ofList rest) with
    | [d, j, e, k] =>
      let off ← st.placed.lookup (e, k)
      some { st with placed := ((d, j), off) :: st.placed }
    | _ => none
  | _ => none

/-- vertex section, gaps and per-mesh stream offsets of one LOD -/
def layLod (l : ALod) (s : String) : Option (Bytes × Bytes × Bytes × List (List Nat)) :=
  match s.splitOn ";" with
  | [vpre, ipre, items] => do
    let vpre ← Bytes.ofHexFast vpre
    let ipre ← Bytes.ofHexFast ipre
    let st ← (listOf "," items).foldlM (layItem l) {}
    let offs ← (List.zip (List.range l.meshes.length) l.meshes).mapM fun (d, mesh) =>
      (List.range mesh.streams.length).mapM fun j => st.placed.lookup (d, j)
    some (st.sec, vpre, ipre, offs)
  | _ => none

def parseLay (m : AbstractModel) (tok : String) : Option Placement := do
  let (k, v) ← kv tok
  if k != "lay" then none
  let parts := v.splitOn "|"
  if parts.length != m.lods.length then none
  let ls ← (List.zip m.lods parts).mapM fun (l, s) => layLod l s
  some { vsecs := ls.map (·.1), vpre := ls.map (·.2.1), ipre := ls.map (·.2.2.1),
         offs := ls.flatMap (·.2.2.2) }

/-! ### `declfill`: the same abstract model with arbitrary bytes where a declaration block carries
no information (`Spec/MdlFill.lean`)

```
declfill fill=<seed> <model tokens as for `parse`>
```
The filler bytes come from a 64-bit LCG seeded with `<seed>`; one byte in four is 0xFF, one in four
a value that is not a `VertexType` / `VertexUsage` discriminant; the marker slot's type and usage
bytes are drawn from the valid discriminants (the only constraint `declFillOk` imposes). -/

def lcg (s : UInt64) : UInt64 := s * 6364136223846793005 + 1442695040888963407

def fillByte (s : UInt64) : UInt8 :=
  let r := (s >>> 33)
  match (r % 4).toNat with
  | 0 => 0xFF
  | 1 => if (r >>> 2) % 2 == 0 then 0x12 else ((8 : UInt8) + ((r >>> 3) % 200).toUInt8)
  | _ => (r >>> 8).toUInt8

def fillBytes : Nat → UInt64 → Bytes × UInt64
  | 0, s => ([], s)
  | n + 1, s =>
    let s' := lcg s
    let (bs, s'') := fillBytes n s'
    (fillByte s' :: bs, s'')

def validTypes : List UInt8 := [0, 1, 2, 3, 5, 6, 7, 8, 9, 10, 13, 14, 16, 17]

def mkFill (d : List VertexElement) (s : UInt64) : DeclFill × UInt64 :=
  let (pb, s1) := fillBytes (3 * d.length) s
  let rec triples : Bytes → List (UInt8 × UInt8 × UInt8)
    | a :: b :: c :: r => (a, b, c) :: triples r
    | _ => []
  let (mk, s2) := fillBytes 5 s1
  let s3 := lcg s2
  let s4 := lcg s3
  let (tl, s5) := fillBytes ((16 - d.length) * 8) s4
  ({ pads := triples pb, mkOffset := mk.getD 0 0, mkIndex := mk.getD 1 0,
     mkPad := (mk.getD 2 0, mk.getD 3 0, mk.getD 4 0),
     mkType := validTypes.getD ((s3 >>> 33) % 14).toNat 0, mkUsage := ((s4 >>> 33) % 8).toUInt8,
     tail := tl }, s5)

def mkFills : List (List VertexElement) → UInt64 → List DeclFill
  | [], _ => []
  | d :: ds, s => let (f, s') := mkFill d s; f :: mkFills ds s'

/-- one case line in, one answer line out (see `Base/Proto.lean`) -/
def handle (line : String) : String :=
  match fields line with
  | "parse" :: toks =>
    match parseModel toks with
    | none => bad
    | some m =>
      let file := encodeMdl m
      let modelAns := resultText (fromExisting file)
      let input := "parse " ++ Bytes.toHex file
      if WF m && (view m).isSome then
        answer input (specText m) (if hasWeightsByte4 m then ["kf:c06.blendweights-byte4"] else [])
          (some modelAns)
      else
        -- outside the property's quantifier: correspondence of the model only
        answer input modelAns ["triv", if WF m then "outside:refs" else "outside:wf"]
  | "placed" :: lay :: toks =>
    match parseModel toks with
    | none => bad
    | some m =>
      match parseLay m lay with
      | none => bad
      | some p =>
        let file := encodeMdlP m p
        let modelAns := resultText (fromExisting file)
        let input := "parse " ++ Bytes.toHex file
        if WFP m p && (view m).isSome then
          -- inside the quantifier of `c06_placed_parse_encode_partial`: expected = the unchanged view
          answer input (specText m)
            (["layout:placed"] ++ (if hasWeightsByte4 m then ["kf:c06.blendweights-byte4"] else []))
            (some modelAns)
        else
          answer input modelAns
            ["triv", if !WF m then "outside:wf" else if !PlacedOk m p then "outside:placement"
                     else "outside:refs"]
  | "declfill" :: fill :: toks =>
    match parseModel toks, (kv fill).bind (fun (k, v) => if k == "fill" then v.toNat? else none) with
    | some m, some seed =>
      let fs := mkFills (modelData m).decls seed.toUInt64
      let file := encodeMdlF m fs
      let modelAns := resultText (fromExisting file)
      let input := "parse " ++ Bytes.toHex file
      if WF m && (view m).isSome && declFillsOk (modelData m).decls fs then
        -- expected = the unchanged view (proved: block and runtime-block level `c06_decl_fill_*`,
        -- `c06_grammar_fill_roundtrip`, `c06_headers_of_fill`; whole file `c06_parse_fill_partial`)
        answer input (specText m)
          (["decl:filled"] ++ (if hasWeightsByte4 m then ["kf:c06.blendweights-byte4"] else []))
          (some modelAns)
      else
        answer input modelAns ["triv", if WF m then "outside:refs" else "outside:wf"]
    | _, _ => bad
  | "mut" :: seed :: k :: "parse" :: toks =>
    -- the encoded file with `k` damaged bytes (Base/Mutate.lean): model of the code vs the code
    match parseModel toks, seed.toNat?, k.toNat? with
    | some m, some seed, some k =>
      let file := Mutate.mutate (encodeMdl m) seed.toUInt64 k (bias := 68 + 136 * (allMeshes m).length + 200)
      answer ("parse " ++ Bytes.toHex file) (resultText (fromExisting file)) ["corr", "mut"]
    | _, _, _ => bad
  | ["raw", h] =>
    match Bytes.ofHexFast h with
    | some bs => answer "=" (resultText (fromExisting bs)) ["corr"]
    | none => bad
  | _ => bad

end Physis.Driver.C06
