import PhysisModel.Base.Proto
import PhysisModel.Base.MdlTypes
import PhysisModel.Spec.Mdl
import PhysisModel.Model.Mdl
/-!
Case grammar shared by the C06 and C07 drivers: an abstract model is a list of `key=value` tokens

```
ver=<u32> fmc=<u16> str=<0|1> edge=<0|1> lodn=<u8>
misc=<radius,flags1,flags2,clip1,clip2,u4,u5,bgc,bgcc,u6,u7,u8,u9>
attrs=<hex,…|-> bones=<…> mats=<…> eids=<hex,…> tsm=<hex,…> tss=<hex,…>
bt=<hex128:count,…|-> bt2=<count:hex:padding,…|-> map=<u16,…|-> pad=<hex> bbs=<hex> bbb=<hex,…>
shapes=<namehex:s0.s1.s2:c0.c1.c2,…|-> shm=<off:count:voff,…|-> shv=<base:repl,…|->
lod=<midhex>:<edgeoff>:<polycount>   (three times; each followed by its meshes)
mesh=<vcount>;<material>;<bonetable>;<indexpad>;<decl: 5 bytes per element, hex>;<stride:hex/stride:hex…>;<indices: u16 BE hex|->;<off:count:mask:bstart:bcount/…|->
```
and the canonical text of a parse result.
-/
namespace Physis.Driver.C06Case
open Physis Physis.Proto Physis.Mdl Physis.Spec.Mdl

def kv (tok : String) : Option (String × String) :=
  match tok.splitOn "=" with
  | [k, v] => some (k, v)
  | _ => none

def listOf (sep : String) (s : String) : List String :=
  if s == "-" then [] else s.splitOn sep

def hexList (s : String) : Option (List Bytes) := (listOf "," s).mapM Bytes.ofHexFast

def nats (sep : String) (s : String) : Option (List Nat) := (listOf sep s).mapM (·.toNat?)

def u16sOfBE : Bytes → Option (List UInt16)
  | [] => some []
  | [_] => none
  | a :: b :: rest => do
    let r ← u16sOfBE rest
    some (((a.toUInt16 <<< 8) ||| b.toUInt16) :: r)

def u16sOfLE : Bytes → Option (List UInt16)
  | [] => some []
  | [_] => none
  | a :: b :: rest => do
    let r ← u16sOfLE rest
    some ((a.toUInt16 ||| (b.toUInt16 <<< 8)) :: r)

def declOf : Bytes → Option (List VertexElement)
  | [] => some []
  | s :: o :: t :: u :: i :: rest => do
    let r ← declOf rest
    some (⟨s, o, t, u, i⟩ :: r)
  | _ => none

def parseStream (s : String) : Option AStream :=
  match s.splitOn ":" with
  | [st, h] => do
    let st ← st.toNat?
    let d ← Bytes.ofHexFast h
    some ⟨st.toUInt8, d⟩
  | _ => none

def parseSubmesh (s : String) : Option Submesh := do
  match ← nats ":" s with
  | [o, c, m, bs, bc] => some ⟨o.toUInt32, c.toUInt32, m.toUInt32, bs.toUInt16, bc.toUInt16⟩
  | _ => none

def parseMesh (s : String) : Option AMesh :=
  match s.splitOn ";" with
  | [vc, mat, bti, pad, decl, streams, indices, subs] => do
    let vc ← vc.toNat?
    let mat ← mat.toNat?
    let bti ← bti.toNat?
    let pad ← pad.toNat?
    let decl ← (Bytes.ofHexFast decl) >>= declOf
    let streams ← (listOf "/" streams).mapM parseStream
    let indices ← (Bytes.ofHexFast indices) >>= u16sOfBE
    let subs ← (listOf "/" subs).mapM parseSubmesh
    some { decl, vertexCount := vc.toUInt16, streams, indices, indexPad := pad,
           materialIndex := mat.toUInt16, boneTableIndex := bti.toUInt16, submeshes := subs }
  | _ => none

def parseLod (s : String) : Option ALod :=
  match s.splitOn ":" with
  | [mid, e, p] => do
    let mid ← Bytes.ofHexFast mid
    let e ← e.toNat?
    let p ← p.toNat?
    some { meshes := [], mid, edgeGeometryDataOffset := e.toUInt32, polygonCount := p.toUInt32 }
  | _ => none

def arr3U16 (s : String) : Option (Arr3 UInt16) := do
  match ← nats "." s with
  | [a, b, c] => some ⟨a.toUInt16, b.toUInt16, c.toUInt16⟩
  | _ => none

def parseShape (s : String) : Option AShape :=
  match s.splitOn ":" with
  | [n, a, b] => do
    let n ← Bytes.ofHexFast n
    let a ← arr3U16 a
    let b ← arr3U16 b
    some ⟨n, a, b⟩
  | _ => none

def parseShapeMesh (s : String) : Option ShapeMesh := do
  match ← nats ":" s with
  | [a, b, c] => some ⟨a.toUInt32, b.toUInt32, c.toUInt32⟩
  | _ => none

def parseShapeValue (s : String) : Option ShapeValue := do
  match ← nats ":" s with
  | [a, b] => some ⟨a.toUInt16, b.toUInt16⟩
  | _ => none

def parseBT (s : String) : Option BoneTable :=
  match s.splitOn ":" with
  | [h, c] => do
    let ix ← (Bytes.ofHexFast h) >>= u16sOfBE
    let c ← c.toNat?
    some ⟨ix, c.toUInt8⟩
  | _ => none

def parseBT2 (s : String) : Option BoneTableV2 :=
  match s.splitOn ":" with
  | [c, h, p] => do
    let c ← c.toNat?
    let ix ← (Bytes.ofHexFast h) >>= u16sOfBE
    let p ← p.toNat?
    some ⟨c.toUInt16, ix, p.toUInt16⟩
  | _ => none

def parseMisc (s : String) : Option AHeaderMisc := do
  match ← nats "," s with
  | [r, f1, f2, c1, c2, u4, u5, bgc, bgcc, u6, u7, u8, u9] =>
    some ⟨r.toUInt32, f1.toUInt8, f2.toUInt8, c1.toUInt32, c2.toUInt32, u4.toUInt16, u5.toUInt8,
          bgc.toUInt8, bgcc.toUInt8, u6.toUInt8, u7.toUInt16, u8.toUInt16, u9.toUInt16⟩
  | _ => none

def emptyModel : AbstractModel :=
  { version := 0x1000005, fileMaterialCount := 0, indexBufferStreamingEnabled := false,
    hasEdgeGeometry := false, lodCount := 1, lods := [],
    misc := ⟨0, 1, 0, 0, 0, 0, 0, 0, 0, 0, 0, 0, 0⟩, attributes := [], bones := [],
    materials := [], shapes := [], shapeMeshes := [], shapeValues := [], elementIds := [],
    terrainShadowMeshes := [], terrainShadowSubmeshes := [], boneTables := [],
    boneTablesV2 := [], submeshBoneMap := [], padding := [], boundingBoxes := [],
    boneBoundingBoxes := [] }

/-- append a mesh to the last LOD seen -/
def addMesh (m : AbstractModel) (mesh : AMesh) : Option AbstractModel :=
  match m.lods.reverse with
  | [] => none
  | l :: before => some { m with lods := (({ l with meshes := l.meshes ++ [mesh] }) :: before).reverse }

def step (m : AbstractModel) (tok : String) : Option AbstractModel := do
  let (k, v) ← kv tok
  match k with
  | "ver" => do let n ← v.toNat?; some { m with version := n.toUInt32 }
  | "fmc" => do let n ← v.toNat?; some { m with fileMaterialCount := n.toUInt16 }
  | "str" => do let n ← v.toNat?; some { m with indexBufferStreamingEnabled := n == 1 }
  | "edge" => do let n ← v.toNat?; some { m with hasEdgeGeometry := n == 1 }
  | "lodn" => do let n ← v.toNat?; some { m with lodCount := n.toUInt8 }
  | "misc" => do let x ← parseMisc v; some { m with misc := x }
  | "attrs" => do let x ← hexList v; some { m with attributes := x }
  | "bones" => do let x ← hexList v; some { m with bones := x }
  | "mats" => do let x ← hexList v; some { m with materials := x }
  | "eids" => do let x ← hexList v; some { m with elementIds := x }
  | "tsm" => do let x ← hexList v; some { m with terrainShadowMeshes := x }
  | "tss" => do let x ← hexList v; some { m with terrainShadowSubmeshes := x }
  | "bt" => do let x ← (listOf "," v).mapM parseBT; some { m with boneTables := x }
  | "bt2" => do let x ← (listOf "," v).mapM parseBT2; some { m with boneTablesV2 := x }
  | "map" => do let x ← nats "," v; some { m with submeshBoneMap := x.map Nat.toUInt16 }
  | "pad" => do let x ← Bytes.ofHexFast v; some { m with padding := x }
  | "bbs" => do let x ← Bytes.ofHexFast v; some { m with boundingBoxes := x }
  | "bbb" => do let x ← hexList v; some { m with boneBoundingBoxes := x }
  | "shapes" => do let x ← (listOf "," v).mapM parseShape; some { m with shapes := x }
  | "shm" => do let x ← (listOf "," v).mapM parseShapeMesh; some { m with shapeMeshes := x }
  | "shv" => do let x ← (listOf "," v).mapM parseShapeValue; some { m with shapeValues := x }
  | "lod" => do let x ← parseLod v; some { m with lods := m.lods ++ [x] }
  | "mesh" => do let x ← parseMesh v; addMesh m x
  | _ => none

def parseModel (toks : List String) : Option AbstractModel := toks.foldlM step emptyModel

/-! ### canonical text of a parse result -/

def hexDigits (n : Nat) (v : Nat) : List Char :=
  (List.range n).map fun i => Bytes.hexDigit ((v >>> (4 * (n - 1 - i))) % 16)

def canonF32 (x : UInt32) : UInt32 := if SoftFloat.isNaN32 x then 0x7FC00000 else x

def f32Hex (x : UInt32) : List Char := hexDigits 8 (canonF32 x).toNat
def u16Hex (x : UInt16) : List Char := hexDigits 4 x.toNat
def u8Hex (x : UInt8) : List Char := hexDigits 2 x.toNat

def vertexChars (v : Vertex) : List Char :=
  (v.position ++ v.uv0 ++ v.uv1 ++ v.normal ++ v.bitangent ++ v.color ++ v.boneWeight).flatMap f32Hex
    ++ v.boneId.flatMap u8Hex

def orDash (cs : List Char) : String := if cs.isEmpty then "-" else String.ofList cs

def joinOrDash (sep : String) (l : List String) : String :=
  if l.isEmpty then "-" else sep.intercalate l

def verticesText (vs : List Vertex) : String := orDash (vs.flatMap vertexChars)

def partText (p : Part) : String :=
  "P mat=" ++ toString p.materialIndex.toNat ++
  " v=" ++ verticesText p.vertices ++
  " i=" ++ orDash (p.indices.flatMap u16Hex) ++
  " sm=" ++ joinOrDash "," (p.submeshes.map fun s =>
      toString s.indexCount.toNat ++ ":" ++ toString s.indexOffset.toNat) ++
  " sh=" ++ joinOrDash "," (p.shapes.map fun s =>
      Bytes.toHex s.name ++ ":" ++ verticesText s.morphedVertices) ++
  " st=" ++ joinOrDash "," ((List.zip p.vertexStreamStrides p.vertexStreams).map fun (st, d) =>
      toString st ++ ":" ++ Bytes.toHex d)

def viewText (v : View) : String :=
  "ok bones=" ++ joinOrDash "," (v.affectedBoneNames.map Bytes.toHex) ++
  " mats=" ++ joinOrDash "," (v.materialNames.map Bytes.toHex) ++
  String.join (v.lods.map fun parts => " L" ++ String.join (parts.map fun p => " " ++ partText p))

def resultText : Mdl.R MDL → String
  | .ok m => viewText m.view
  | .error .fail => "none"
  -- every site where the pinned `MDL::from_existing` panicked (the model's `.panic`) returns
  -- `None` since the C18-50..59 `fix:` commits (`c18_mdl_total`); such inputs are outside C06's
  -- quantifier, the answer is kept only so that the case grammar stays total
  | .error .panic => "none"

end Physis.Driver.C06Case
