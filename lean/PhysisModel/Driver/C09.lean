import PhysisModel.Base.Proto
import PhysisModel.Model.CharDat
import PhysisModel.Model.GearSets
import PhysisModel.Spec.CharDatLayout
import PhysisModel.Spec.GearSetLayout
import PhysisModel.Base.Mutate
/-!
C09 driver.  Case grammar (see `harness/src/c09.rs`):

* `char <version> <appearance> <timestamp> <comment>` — `<appearance>` = the 27 appearance bytes as
  hex in the documented order (race, gender, age, height, tribe, face, hair, highlights on/off, …,
  voice); `<comment>` hex of the UTF-8 bytes.  `charbad` = the same with an undocumented race /
  gender / tribe code (the file must be rejected).
* `gear <current> <unk1> <unk3> <sets>` — `<sets>` = `.` | `;`-separated
  `<pos>:<index>:<name>:<unk64>:<facewear|->:<slots>`, `<slots>` = `.` | `,`-separated
  `<slot>/<id>/<glamour|->/<u1>/<u2>/<u3>/<u4>/<u5>`.

* `mut <seed> <k> char …` / `mut <seed> <k> gear …` — the same encoded file with `k` bytes damaged
  (`Base/Mutate.lean`); expected = the answer of the model of the code on the damaged file (tags
  `corr mut`): what the damaged file parses to (F), what the parsed value is written as (W; a
  written file that differs from the input is reported as its hex / as length + FNV-1a hash), and
  the writes of the abstract case (D, T) as in the plain ops.  `W[panic]`: a damaged comment with a
  NUL inside parses and then panics in `write_string` (see `corpus/C09/mut-comment-interior-nul.case`).

The `<input>` column is `<op> <file>` with the file produced by the `Spec/` encoder.
-/
namespace Physis.Driver.C09
open Physis Physis.Proto

def u8? (s : String) : Option UInt8 := s.toNat?.bind fun n => if n < 256 then some n.toUInt8 else none
def u16? (s : String) : Option UInt16 := s.toNat?.bind fun n => if n < 65536 then some n.toUInt16 else none
def u32? (s : String) : Option UInt32 := s.toNat?.bind fun n => if n < 4294967296 then some n.toUInt32 else none
def u64? (s : String) : Option UInt64 := s.toNat?.bind fun n => if n < 18446744073709551616 then some n.toUInt64 else none
def opt32? (s : String) : Option (Option UInt32) := if s == "-" then some none else (u32? s).map some
def showOpt (o : Option UInt32) : String := match o with | some v => toString v | none => "-"

/-! ### character presets -/

def appearanceOf : Bytes → Option Spec.CharDat.Appearance
  | [race, gender, age, height, tribe, face, hair, hl, skinTone, rightEyeColor, hairTone, highlights,
     facialFeatures, facialFeatureColor, eyebrows, leftEyeColor, eyes, nose, jaw, mouth,
     lipsToneFurPattern, raceFeatureSize, raceFeatureType, bust, facePaint, facePaintColor, voice] =>
    if hl > 1 then none else
    some { race, gender, age, height, tribe, face, hair, enableHighlights := hl == 1, skinTone,
           rightEyeColor, hairTone, highlights, facialFeatures, facialFeatureColor, eyebrows,
           leftEyeColor, eyes, nose, jaw, mouth, lipsToneFurPattern, raceFeatureSize,
           raceFeatureType, bust, facePaint, facePaintColor, voice }
  | _ => none

def appearanceBytes (a : Spec.CharDat.Appearance) : Bytes :=
  [a.race, a.gender, a.age, a.height, a.tribe, a.face, a.hair, (if a.enableHighlights then 1 else 0),
   a.skinTone, a.rightEyeColor, a.hairTone, a.highlights, a.facialFeatures, a.facialFeatureColor,
   a.eyebrows, a.leftEyeColor, a.eyes, a.nose, a.jaw, a.mouth, a.lipsToneFurPattern,
   a.raceFeatureSize, a.raceFeatureType, a.bust, a.facePaint, a.facePaintColor, a.voice]

def showPreset (p : Spec.CharDat.Preset) : String :=
  toString p.version.toNat ++ ";" ++ (appearanceBytes p.appearance).toHex ++ ";" ++
    toString p.timestamp.toNat ++ ";" ++ p.comment.toHex

def sameOr (file : Bytes) (w : Option Bytes) : String :=
  match w with
  | none => "panic"
  | some w => if w == file then "same" else w.toHex

def presetOf (v a t c : String) : Option Spec.CharDat.Preset := do
  let v ← u32? v
  let a ← appearanceOf (← Bytes.ofHex a)
  let t ← u32? t
  let c ← Bytes.ofHex c
  pure ⟨v, a, t, c⟩

def modelChar (file : Bytes) (p : Spec.CharDat.Preset) : String :=
  match CharDat.parseChar file with
  | none => "none"
  | some d =>
    "F[" ++ showPreset d ++ "]|W[" ++ sameOr file (CharDat.writeChar d) ++ "]|D[" ++ sameOr file (CharDat.writeChar p) ++ "]"

/-! ### gear sets -/

def parseSlot (s : String) : Option (Nat × Spec.GearSet.Slot) :=
  match s.splitOn "/" with
  | [j, id, gl, u1, u2, u3, u4, u5] => do
    let j ← j.toNat?
    if j ≥ 14 then none
    pure (j, ⟨← u32? id, ← opt32? gl, ← u32? u1, ← u32? u2, ← u32? u3, ← u32? u4, ← u32? u5⟩)
  | _ => none

def place {α : Type} (n : Nat) (items : List (Nat × α)) : Option (List (Option α)) :=
  items.foldlM (fun acc (i, x) =>
    match acc[i]? with
    | some none => some (acc.set i (some x))
    | _ => none) (List.replicate n none)

def parseSet (s : String) : Option (Nat × Spec.GearSet.GearSet) :=
  match s.splitOn ":" with
  | [pos, index, name, unk, fw, slots] => do
    let pos ← pos.toNat?
    let slots ← ((if slots == "." then [] else slots.splitOn ",").mapM parseSlot)
    let slots ← place 14 slots
    pure (pos, ⟨← u8? index, ← Bytes.ofHex name, ← u64? unk, slots, ← opt32? fw⟩)
  | _ => none

def tableOf (cur u1 u3 sets : String) : Option Spec.GearSet.Table := do
  let sets ← ((if sets == "." then [] else sets.splitOn ";").mapM parseSet)
  let sets ← place 100 sets
  pure ⟨← u8? u1, ← u8? cur, ← u16? u3, sets⟩

def zipIdx' {α : Type} (l : List α) : List (Nat × α) := (List.range l.length).zip l

def showSlots (slots : List (Option (UInt32 × Option UInt32))) : String :=
  let present := (zipIdx' slots).filterMap fun (j, s) => s.map fun (id, gl) =>
    (Spec.GearSet.slotNames.getD j "?") ++ "/" ++ toString id.toNat ++ "/" ++ showOpt gl
  if present.isEmpty then "." else ",".intercalate present

def showSets (sets : List (Option (UInt8 × Bytes × Option UInt32 × List (Option (UInt32 × Option UInt32))))) : String :=
  let present := (zipIdx' sets).filterMap fun (i, s) => s.map fun (index, name, fw, slots) =>
    toString i ++ ":" ++ toString index.toNat ++ ":" ++ name.toHex ++ ":" ++ showOpt fw ++ ":" ++ showSlots slots
  if present.isEmpty then "." else ";".intercalate present

def showTable (t : Spec.GearSet.Table) : String :=
  toString t.current.toNat ++ "|" ++ toString t.sets.length ++ "|" ++
    showSets (t.sets.map (Option.map fun g => (g.index, g.name, g.facewear, g.slots.map (Option.map fun s => (s.id, s.glamour)))))

def showGearSets (g : GearSets.GearSets) : String :=
  toString g.currentGearset.toNat ++ "|" ++ toString g.gearsets.length ++ "|" ++
    showSets (g.gearsets.map (Option.map fun g => (g.index, g.name, g.facewear, g.slots.map (Option.map fun s => (s.id, s.glamourId)))))

/-- can the harness build this table through the public API (hidden per-set / per-slot fields zero)? -/
def buildable (t : Spec.GearSet.Table) : Bool :=
  t.sets.all fun s => match s with
    | none => true
    | some g => g.unk == 0 && g.slots.all fun x => match x with
      | none => true
      | some x => x.unk1 == 0 && x.unk2 == 0 && x.unk3 == 0 && x.unk4 == 0 && x.unk5 == 0

/-- the value the harness builds: the parsed base object with `current_gearset` and `gearsets` replaced -/
def modelBuilt (base : GearSets.GearSets) (t : Spec.GearSet.Table) : GearSets.GearSets :=
  { base with currentGearset := t.current,
              gearsets := t.sets.map (Option.map fun g =>
                ({ index := g.index, name := g.name, facewear := g.facewear,
                   slots := g.slots.map (Option.map fun s => ({ id := s.id, glamourId := s.glamour } : GearSets.GearSlot)) } : GearSets.GearSet)) }

/-- FNV-1a (32 bit) of a written file that differs from the input: both sides print length and hash -/
def fnv1a (bs : Bytes) : UInt32 :=
  bs.foldl (fun h b => (h ^^^ b.toUInt32) * 16777619) 2166136261

def sameOrHash (file x : Bytes) : String :=
  if x == file then "same" else "diff:" ++ toString x.length ++ ":" ++ toString (fnv1a x).toNat

def modelGear (file : Bytes) (t : Spec.GearSet.Table) : String :=
  match GearSets.parseGear file with
  | .none => "none"
  | .panic => "panic"
  | .ok g =>
    let w := GearSets.writeGear g
    let d := if buildable t then sameOrHash file (GearSets.writeGear (modelBuilt g t)) else "skip"
    -- the same value with the list cut behind its last used position, and with three extra
    -- unused positions appended: the writer always emits the fixed 100-slot table
    let trimmed (b : GearSets.GearSets) : GearSets.GearSets :=
      { b with gearsets := (b.gearsets.reverse.dropWhile (·.isNone)).reverse }
    let longer (b : GearSets.GearSets) : GearSets.GearSets :=
      { b with gearsets := b.gearsets ++ [none, none, none] }
    let sameOrLen (x : Bytes) : String := sameOrHash file x
    let t := if buildable t then
        sameOrLen (GearSets.writeGear (trimmed (modelBuilt g t))) ++ "," ++ sameOrLen (GearSets.writeGear (longer (modelBuilt g t)))
      else "skip"
    "F[" ++ showGearSets g ++ "]|W[" ++ sameOrHash file w ++ "]|D[" ++ d ++ "]|T[" ++ t ++ "]"

def handleChar (v a t c : String) (dmg : Option (UInt64 × Nat) := none) : String :=
  match presetOf v a t c with
  | some p =>
    if let some (seed, k) := dmg then
      -- the documented file is 212 bytes: positions uniform over the whole file
      let file := Mutate.mutate (Spec.CharDat.encode p) seed k
      answer ("char " ++ file.toHex) (modelChar file p) ["corr", "mut"]
    else
    let file := Spec.CharDat.encode p
    answer ("char " ++ file.toHex) ("F[" ++ showPreset p ++ "]|W[same]|D[same]") [] (some (modelChar file p))
  | none => bad

def handleGear (cur u1 u3 sets : String) (dmg : Option (UInt64 × Nat) := none) : String :=
  match tableOf cur u1 u3 sets with
  | some t =>
    if let some (seed, k) := dmg then
      -- half of the positions in the header, the table head and the first set (17 + 4 + 452 bytes)
      let file := Mutate.mutate (Spec.GearSet.encode t) seed k 473
      answer ("gear " ++ Bytes.toHex file) (modelGear file t) ["corr", "mut"]
    else
    let file := Spec.GearSet.encode t
    let tags := if Spec.GearSet.overlapsMarker t then ["kf:gearsets.id-overlaps-marker"] else []
    let tags := if t.sets.all (·.isNone) then "triv" :: tags else tags
    answer ("gear " ++ Bytes.toHex file)
      ("F[" ++ showTable t ++ "]|W[same]|D[" ++ (if buildable t then "same" else "skip") ++ "]|T[" ++
        (if buildable t then "same,same" else "skip") ++ "]") tags
      (some (modelGear file t))
  | none => bad

/-- one case line in, one answer line out (see `Base/Proto.lean`) -/
def handle (line : String) : String :=
  match fields line with
  | ["char", v, a, t, c] => handleChar v a t c
  | ["gear", cur, u1, u3, sets] => handleGear cur u1 u3 sets
  | ["mut", seed, k, "char", v, a, t, c] =>
    match seed.toNat?, k.toNat? with
    | some s, some k => handleChar v a t c (some (s.toUInt64, k))
    | _, _ => bad
  | ["mut", seed, k, "gear", cur, u1, u3, sets] =>
    match seed.toNat?, k.toNat? with
    | some s, some k => handleGear cur u1 u3 sets (some (s.toUInt64, k))
    | _, _ => bad
  | ["charbad", v, a, t, c] =>
    match presetOf v a t c with
    | some p =>
      if p.appearance.race ∈ Spec.CharDat.raceCodes ∧ p.appearance.gender ∈ Spec.CharDat.genderCodes ∧
          p.appearance.tribe ∈ Spec.CharDat.tribeCodes then bad else
      let file := Spec.CharDat.encode p
      answer ("charbad " ++ file.toHex) "none" []
        (some (match CharDat.parseChar file with | none => "none" | some d => "F[" ++ showPreset d ++ "]"))
    | none => bad
  | _ => bad

end Physis.Driver.C09
