import PhysisModel.Driver.C16Pbd
import PhysisModel.Base.Proto
import PhysisModel.Model.Cmp
import PhysisModel.Spec.Cmp
import PhysisModel.Model.Tera
import PhysisModel.Spec.Tera
import PhysisModel.Model.Layer
import PhysisModel.Spec.Layer
import PhysisModel.Model.Pbd
import PhysisModel.Spec.Pbd
import PhysisModel.Model.Sklb
import PhysisModel.Spec.HavokTag
import PhysisModel.Base.Mutate
/-!
Driver of C16 (case grammar: `harness/src/c16.rs`).

Family `mut`: `mut <seed> <k> <case>` for the ops whose input is one encoded file (`cmp`, `tera_parse`,
`layer_parse`, `pbd`, `pbdl`, `skel`, `skelstd`): the case is parsed and encoded exactly as for the plain
op, `k` bytes of the file are damaged (`Base/Mutate.lean`), the executable model of the code runs on the
damaged file and its answer is the expected one (tags `corr mut`, no specification answer); the query
part of a case (`pbd` body ids) is kept.  The readers return `None` where they used to panic (C18 fixes),
so every way the model does not return a value (`none`, `panic`, `diverges`) is the answer `none` here.
Where the model leaves its modelled part on a damaged file (`unmodelled`: a layer group whose damaged
layer count sends the reader into the layer parser, a skeleton container with animation bindings) there is
no answer to compare with: the next seeds are tried instead (`redraw`).
-/
namespace Physis.Driver.C16
open Physis Physis.Proto

/-- damage parameter of the `mut` family: seed and number of bytes -/
abbrev Dmg := Option (UInt64 × Nat)

/-- the damaged file and the model's outcome on it; `unmodelled` ⇒ the next seed (at most `n` times,
then the undamaged file) -/
def redraw {α} (run : Bytes → Outcome α) (file : Bytes) (k : Nat) (bias : Nat := 256) : Nat → UInt64 → Bytes × Outcome α
  | 0, _ => (file, run file)
  | n + 1, seed =>
    let f := Mutate.mutate file seed k bias
    match run f with
    | .unmodelled => redraw run file k bias n (seed + 1)
    | o => (f, o)

/-- answer of a `mut` case: a value or `none` (`bad-case` if the model has no opinion even on the
undamaged file, which no generated case does) -/
def mutOutcome {α} (f : α → String) : Outcome α → Option String
  | .ok v => some ("some " ++ f v)
  | .unmodelled => none
  | _ => some "none"

/-! ### field parsing (malformed ⇒ `none` ⇒ `bad-case`) -/

def items (sep : String) (s : String) : List String := if s == "-" then [] else s.splitOn sep

def u32? (s : String) : Option UInt32 := do
  let n ← s.toNat?
  if n < 2 ^ 32 then some (UInt32.ofNat n) else none

def u16? (s : String) : Option UInt16 := do
  let n ← s.toNat?
  if n < 2 ^ 16 then some (UInt16.ofNat n) else none

def u32List? (s : String) : Option (List UInt32) := (items "," s).mapM u32?

def pair? {α} (f : String → Option α) (s : String) : Option (α × α) :=
  match s.splitOn ":" with
  | [a, b] => do some (← f a, ← f b)
  | _ => none

def join (sep : String) (l : List String) : String := if l.isEmpty then "-" else sep.intercalate l

def showOutcome {α} (f : α → String) : Outcome α → String
  | .ok v => "some " ++ f v
  | .none => "none"
  | .panic => "panic"
  | .diverges => "diverges"
  | .unmodelled => "unmodelled"

/-! ### cmp -/

def cycleTo (pat : Bytes) (n : Nat) : Bytes :=
  if pat.isEmpty then List.replicate n 0 else
  let reps := n / pat.length + 1
  ((List.replicate reps pat).flatten).take n

def showRows (rows : List (List UInt32)) : String :=
  join ";" (rows.map fun r => join "," (r.map fun w => toString w.toNat))

def cmpCase (pat rows tail : String) (dmg : Dmg := none) : Option String := do
  let pat ← Bytes.ofHexFast pat
  let rows ← (items ";" rows).mapM u32List?
  let tail ← Bytes.ofHexFast tail
  let f : Spec.Cmp.File := ⟨cycleTo pat Spec.Cmp.headerSize, rows, tail⟩
  if !(decide (Spec.Cmp.WF f)) then none
  let file := Spec.Cmp.encode f
  if let some (seed, k) := dmg then
    -- the 0x2A800 bytes in front of the table are never read: three seeds out of four damage only
    -- what lies behind them (rows and trailing bytes), the fourth any byte of the file
    let body := file.drop Spec.Cmp.headerSize
    let file := if seed % 4 == 0 || body.isEmpty then Mutate.mutate file seed k
      else file.take Spec.Cmp.headerSize ++ Mutate.mutate body seed k
    let model ← mutOutcome showRows (Cmp.fromExisting file)
    return answer ("cmp " ++ Bytes.toHex file) model ["corr", "mut"]
  pure (answer ("cmp " ++ Bytes.toHex file) ("some " ++ showRows f.rows) []
    (some (showOutcome showRows (Cmp.fromExisting file))))

/-! ### tera -/

def showPlate (x y : UInt32) (name : Bytes) : String :=
  toString x.toNat ++ ":" ++ toString y.toNat ++ ":" ++ Bytes.toHex name

def showSpecPlates (l : List Spec.Tera.Plate) : String := join "," (l.map fun p => showPlate p.x p.y p.filename)
def showModelPlates (l : List Tera.PlateModel) : String := join "," (l.map fun p => showPlate p.x p.y p.filename)
def showOpt {α} (f : α → String) : Option α → String
  | some v => "some " ++ f v
  | none => "none"

def teraParse (version ps clip unk positions : String) (dmg : Dmg := none) : Option String := do
  let f : Spec.Tera.File := ⟨← u32? version, ← u32? ps, ← u32? clip, ← u32? unk, ← (items "," positions).mapM (pair? u16?)⟩
  let file := Spec.Tera.encode f
  if let some (seed, k) := dmg then
    -- even seeds: half of the damage inside the 20 header bytes (plate count, plate size)
    let file := Mutate.mutate file seed k (if seed % 2 == 0 then 20 else 256)
    return answer ("tera_parse " ++ Bytes.toHex file) (showOpt showModelPlates (Tera.fromExisting file)) ["corr", "mut"]
  -- the specification only speaks about exactly representable plate centres
  let exp ← Spec.Tera.plates f
  pure (answer ("tera_parse " ++ Bytes.toHex file) ("some " ++ showSpecPlates exp) []
    (some (showOpt showModelPlates (Tera.fromExisting file))))

/-- write → read of a terrain on the 128-unit grid -/
def teraRoundtrip (positions : String) : Option String := do
  let ps ← (items "," positions).mapM (pair? u16?)
  let plates := Spec.Tera.gridPlates ps
  let input := join "," (plates.map fun p => toString p.x.toNat ++ ":" ++ toString p.y.toNat)
  let m := Tera.fromExisting (Tera.writeToBuffer (plates.map fun p => ⟨p.x, p.y, p.filename⟩))
  pure (answer ("tera_rt " ++ input) ("some " ++ showSpecPlates plates) [] (some (showOpt showModelPlates m)))

/-- the writer alone on a grid terrain: the documented layout -/
def teraWriteGrid (positions : String) : Option String := do
  let ps ← (items "," positions).mapM (pair? u16?)
  let plates := Spec.Tera.gridPlates ps
  let input := join "," (plates.map fun p => toString p.x.toNat ++ ":" ++ toString p.y.toNat)
  let exp := Spec.Tera.encode ⟨0x1000003, 128, 0, 0x3F800000, ps⟩
  let m := Tera.writeToBuffer (plates.map fun p => ⟨p.x, p.y, p.filename⟩)
  pure (answer ("tera_write " ++ input) (Bytes.toHex exp) [] (some (Bytes.toHex m)))

/-- conformance of the float model only (arbitrary f32 bit patterns; the property does not say what
the writer does off the grid): expected = model, tagged `triv` -/
def teraWriteAny (positions : String) : Option String := do
  let ps ← (items "," positions).mapM (pair? u32?)
  let m := Tera.writeToBuffer (ps.map fun p => ⟨p.1, p.2, []⟩)
  pure (answer "=" (Bytes.toHex m) ["triv", "float-model"] (some (Bytes.toHex m)))

/-! ### empty layer groups -/

def showGroupS (g : Spec.Layer.EmptyGroup) : String :=
  s!"{g.fileId.toNat} {g.chunkId.toNat} {g.layerGroupId.toNat} {Bytes.toHex g.name}"
def showGroupM (g : Layer.Group) : String :=
  s!"{g.fileId.toNat} {g.chunkId.toNat} {g.layerGroupId.toNat} {Bytes.toHex g.name}"

def layerGroup? (a b c name : String) : Option Spec.Layer.EmptyGroup := do
  let g : Spec.Layer.EmptyGroup := ⟨← u32? a, ← u32? b, ← u32? c, ← Bytes.ofHexFast name⟩
  if decide (Spec.Layer.WF g) then some g else none

def bindOutcome {α β} (o : Outcome α) (f : α → Outcome β) : Outcome β :=
  match o with
  | .ok v => f v
  | .none => .none
  | .panic => .panic
  | .diverges => .diverges
  | .unmodelled => .unmodelled

def layerCase (op a b c name : String) (dmg : Dmg := none) : Option String := do
  let g ← layerGroup? a b c name
  let gm : Layer.Group := ⟨g.fileId, g.chunkId, g.layerGroupId, g.name⟩
  if let some (seed, k) := dmg then
    if op != "layer_parse" then none
    -- half of the damage inside the 36 bytes of file and chunk header, the rest anywhere (the name)
    let (file, o) := redraw Layer.fromExisting (Spec.Layer.encode g) k 36 16 seed
    return answer ("layer_parse " ++ Bytes.toHex file) (← mutOutcome showGroupM o) ["corr", "mut"]
  match op with
  | "layer_parse" =>
    let file := Spec.Layer.encode g
    pure (answer ("layer_parse " ++ Bytes.toHex file) ("some " ++ showGroupS g) []
      (some (showOutcome showGroupM (Layer.fromExisting file))))
  | "layer_write" =>
    pure (answer "=" ("some " ++ Bytes.toHex (Spec.Layer.encode g)) []
      (some (showOutcome Bytes.toHex (Layer.writeToBuffer gm))))
  | "layer_rt" =>
    pure (answer "=" ("some " ++ showGroupS g) []
      (some (showOutcome showGroupM (bindOutcome (Layer.writeToBuffer gm) Layer.fromExisting))))
  | _ => none

/-! ### pbd -/

def bone? (s : String) : Option Spec.Pbd.Bone :=
  match s.splitOn "/" with
  | [n, m] => do some ⟨← Bytes.ofHexFast n, ← u32List? m⟩
  | _ => none

def item? (s : String) : Option Spec.Pbd.Item :=
  match s.splitOn ":" with
  | [b, l, bones] => do some ⟨← u16? b, ← u16? l, ← (items "+" bones).mapM bone?⟩
  | _ => none

def link? (s : String) : Option Spec.Pbd.Link :=
  match s.splitOn ":" with
  | [p, f, n, d] => do some ⟨← u16? p, ← u16? f, ← u16? n, ← u16? d⟩
  | _ => none

def showBonesS (l : List Spec.Pbd.Bone) : String :=
  join "+" (l.map fun b => Bytes.toHex b.name ++ "/" ++ join "," (b.deform.map fun w => toString w.toNat))
def showBonesM (l : List Pbd.Bone) : String :=
  join "+" (l.map fun b => Bytes.toHex b.name ++ "/" ++ join "," (b.deform.map fun w => toString w.toNat))

/-- bone names as the code returns them: every byte pushed as a `char` (Latin-1), printed as UTF-8;
the identity on the ASCII names of well-formed files -/
def showBonesLatin1 (l : List Pbd.Bone) : String :=
  showBonesM (l.map fun b => ⟨Layer.latin1ToUtf8 b.name, b.deform⟩)

def pbdCase (its lks fromS toS : String)
    (enc : Spec.Pbd.File → Option Bytes := fun f => some (Spec.Pbd.encode f)) (dmg : Dmg := none) : Option String := do
  let f : Spec.Pbd.File := ⟨← (items ";" its).mapM item?, ← (items ";" lks).mapM link?⟩
  let a ← u16? fromS
  let b ← u16? toS
  if !(decide (Spec.Pbd.WFTree f) && decide (Spec.Pbd.WFLayout f)) then none
  let file ← enc f
  if let some (seed, k) := dmg then
    -- even seeds: half of the damage inside the item and link tables of the canonical layout
    -- (4 + 12 n + 8 n bytes); odd seeds: inside the first 256 bytes
    let file := Mutate.mutate file seed k (if seed % 2 == 0 then 4 + 20 * f.items.length else 256)
    let model ← match Pbd.fromExisting file with
      | .ok h => mutOutcome showBonesLatin1 (Pbd.getDeformMatrices h a b)
      | .unmodelled => none
      | _ => some "file-none"
    return answer s!"pbd {Bytes.toHex file} {a.toNat} {b.toNat}" model ["corr", "mut"]
  let model := match Pbd.fromExisting file with
    | .ok h => showOutcome showBonesM (Pbd.getDeformMatrices h a b)
    | o => "file-" ++ showOutcome (fun _ => "") o
  let input := s!"pbd {Bytes.toHex file} {a.toNat} {b.toNat}"
  if a == b then pure (answer input "none" ["triv"] (some model)) else
  match Spec.Pbd.findItem f a with
  | none => pure (answer input "none" ["triv"] (some model))
  | some start =>
    if decide (Spec.Pbd.HasSibling f start) then
      match Spec.Pbd.deformBones f start b with
      | some bones => pure (answer input ("some " ++ showBonesS bones) [] (some model))
      | none => none
    else
      -- a start node without sibling link: undocumented, left unconstrained by the property
      pure (answer input model ["triv", "no-sibling"] (some model))

/-! ### skeletons: SKLB container + Havok binary tag file -/

section Skel
open Spec.HavokTag

def int? (s : String) : Option Int := s.toInt?

def hex? (s : String) : Option Bytes := Bytes.ofHexFast s

/-- `head/x/y/..` → the items after the head (`head` alone = no items) -/
def slashItems (s : String) : List String := (s.splitOn "/").drop 1

/-- one value from a token stream (prefix notation, see `harness/src/c16.rs`):
`_` absent, `b<u8>`, `i<int>`, `r<u32>`, `s<hex>`, `o<index>`, `B<hex>`, `I<kind>/<int>/..`,
`R/<u32>/..`, `S/<hex>/..`, `O/<index>/..`, `V/<u32>.<u32>. ../..`, `X<n>x<k>` followed by `k` column values -/
def parseVal : Nat → List String → Option (Val × List String)
  | 0, _ => none
  | _, [] => none
  | fuel + 1, tok :: rest =>
    let body := (tok.drop 1).toString
    match tok.front with
    | '_' => if tok == "_" then some (.absent, rest) else none
    | 'b' => do let n ← body.toNat?; if n < 256 then some (.byte n.toUInt8, rest) else none
    | 'i' => do some (.int (← int? body), rest)
    | 'r' => do some (.real (← u32? body), rest)
    | 's' => do some (.str (← hex? body), rest)
    | 'o' => do some (.ref (← body.toNat?), rest)
    | 'B' => do some (.bytes (← hex? body), rest)
    | 'I' => do
      let kind ← int? ((body.splitOn "/").headD "")
      some (.ints kind (← (slashItems body).mapM int?), rest)
    | 'R' => do some (.reals (← (slashItems tok).mapM u32?), rest)
    | 'S' => do some (.strs (← (slashItems tok).mapM hex?), rest)
    | 'O' => do some (.refs (← (slashItems tok).mapM (·.toNat?)), rest)
    | 'V' => do some (.vecs (← (slashItems tok).mapM fun v => (v.splitOn ".").mapM u32?), rest)
    | 'X' =>
      match body.splitOn "x" with
      | [n, k] => do
        let n ← n.toNat?
        let k ← k.toNat?
        let rec cols : Nat → List String → Option (List Val × List String)
          | 0, ts => some ([], ts)
          | j + 1, ts => do
            let (v, ts) ← parseVal fuel ts
            let (vs, ts) ← cols j ts
            some (v :: vs, ts)
        let (cs, rest) ← cols k rest
        some (.structs n cs, rest)
      | _ => none
    | _ => none

def parseVals (fuel : Nat) : Nat → List String → Option (List Val)
  | 0, _ => none
  | _, [] => some []
  | k + 1, ts => do
    let (v, ts) ← parseVal fuel ts
    let vs ← parseVals fuel k ts
    some (v :: vs)

def memberDecl? (s : String) : Option MemberDecl :=
  match s.splitOn "/" with
  | [n, ty, tuple, cls] => do some ⟨← hex? n, ← ty.toNat?, ← int? tuple, ← hex? cls⟩
  | _ => none

def tagItem? (s : String) : Option Item :=
  match s.splitOn ":" with
  | ["T", name, version, parent, members] => do
    some (.type ⟨← hex? name, ← int? version, ← parent.toNat?, ← (items "," members).mapM memberDecl?⟩)
  | ["O", ty, fields] => do
    let toks := items "," fields
    some (.obj (← ty.toNat?) (← parseVals (toks.length + 1) (toks.length + 1) toks))
  | _ => none

def header? (ver hdr gap : String) : Option Spec.Sklb.Header := do
  match ← u32List? hdr with
  | [a, b, c, d, e, f] =>
    let h : Spec.Sklb.Header := ⟨← u32? ver, a, b, c, d, e, f, ← hex? gap⟩
    if decide h.WF then some h else none
  | _ => none

def showTriple (v : UInt32 × UInt32 × UInt32) : String := s!"{v.1.toNat},{v.2.1.toNat},{v.2.2.toNat}"
def showQuad (v : UInt32 × UInt32 × UInt32 × UInt32) : String :=
  s!"{v.1.toNat},{v.2.1.toNat},{v.2.2.1.toNat},{v.2.2.2.toNat}"

def showSkelS (l : List Bone) : String :=
  join ";" (l.map fun b => s!"{Bytes.toHex b.name}:{b.parent}:{showTriple b.position}:{showQuad b.rotation}:{showTriple b.scale}")
def showSkelM (l : List Havok.Bone) : String :=
  join ";" (l.map fun b => s!"{Bytes.toHex b.name}:{b.parent}:{showTriple b.position}:{showQuad b.rotation}:{showTriple b.scale}")

def skelAnswer (h : Spec.Sklb.Header) (p : Enc) (f : TagFile) (dmg : Dmg := none) : Option String := do
  if !wf f then none
  let bones ← bonesOf f
  let file := Spec.Sklb.encode h (encode p f)
  if let some (seed, k) := dmg then
    -- the model with the reader's bound on the number of struct-array elements (`Havok.readBounded`):
    -- a damaged count can trip it
    let (file, o) := redraw Sklb.fromExistingBounded file k 256 16 seed
    return answer ("skel " ++ Bytes.toHex file) (← mutOutcome showSkelM o) ["corr", "mut"]
  let tags := (if usesUnimplemented [] f then ["kf:havok-unimplemented-member-kind"] else []) ++
    (if guardTrips p f then ["kf:havok-array-length-guard"] else []) ++
    (if usesWideInt f then ["kf:havok-int-beyond-i32"] else [])
  pure (answer ("skel " ++ Bytes.toHex file) ("some " ++ showSkelS bones) tags
    (some (showOutcome showSkelM (Sklb.fromExisting file))))

/-- an arbitrary tag file (types and objects in file order) -/
def skelCase (ver hdr gap reuse width its : String) (dmg : Dmg := none) : Option String := do
  let h ← header? ver hdr gap
  let p : Enc := ⟨← reuse.toNat?, ← width.toNat?⟩
  let f ← (items ";" its).mapM tagItem?
  skelAnswer h p f dmg

def boneRec? (s : String) : Option BoneRec :=
  match s.splitOn ":" with
  | [name, parent, pose, lock] => do
    match ← u32List? pose with
    | [t0, t1, t2, t3, r0, r1, r2, r3, s0, s1, s2, s3] =>
      let l ← lock.toNat?
      if l < 256 then
        some ⟨⟨← hex? name, ← int? parent, (t0, t1, t2), (r0, r1, r2, r3), (s0, s1, s2)⟩, t3, s3, l.toUInt8⟩
      else none
    | _ => none
  | _ => none

/-- the standard file `Spec.HavokTag.stdFile` of `c16_skeleton` -/
def skelStdCase (ver hdr gap reuse width name vname kind bones : String) (dmg : Dmg := none) : Option String := do
  let h ← header? ver hdr gap
  let p : Enc := ⟨← reuse.toNat?, ← width.toNat?⟩
  let s : Skel := ⟨← hex? name, ← hex? vname, ← int? kind, ← (items ";" bones).mapM boneRec?⟩
  skelAnswer h p (stdFile s) dmg

end Skel

/-- the ops of the `mut` family (`none` ⇒ `bad-case`) -/
def handleMut (dmg : Dmg) (fs : List String) : Option String :=
  match fs with
  | ["cmp", pat, rows, tail] => cmpCase pat rows tail dmg
  | ["tera_parse", v, ps, clip, unk, positions] => teraParse v ps clip unk positions dmg
  | ["pbdl", its, lks, a, b, stored, reserved, trailer] =>
    pbdCase its lks a b (C16Pbd.placedEncoder stored reserved trailer) dmg
  | ["pbd", its, lks, a, b] => pbdCase its lks a b (dmg := dmg)
  | ["skel", ver, hdr, gap, reuse, width, its] => skelCase ver hdr gap reuse width its dmg
  | ["skelstd", ver, hdr, gap, reuse, width, name, vname, kind, bones] =>
    skelStdCase ver hdr gap reuse width name vname kind bones dmg
  | ["layer_parse", a, b, c, name] => layerCase "layer_parse" a b c name dmg
  | _ => none

/-- one case line in, one answer line out (see `Base/Proto.lean`) -/
def handle (line : String) : String :=
  let r : Option String :=
    match fields line with
    | "mut" :: seed :: k :: rest =>
      match seed.toNat?, k.toNat? with
      | some s, some k => handleMut (some (s.toUInt64, k)) rest
      | _, _ => none
    | ["cmp", pat, rows, tail] => cmpCase pat rows tail
    | ["tera_parse", v, ps, clip, unk, positions] => teraParse v ps clip unk positions
    | ["tera_rt", positions] => teraRoundtrip positions
    | ["tera_write", positions] => teraWriteGrid positions
    | ["tera_wany", positions] => teraWriteAny positions
    | ["pbdl", its, lks, a, b, stored, reserved, trailer] =>
      pbdCase its lks a b (C16Pbd.placedEncoder stored reserved trailer)
    | ["pbd", its, lks, a, b] => pbdCase its lks a b
    | ["skel", ver, hdr, gap, reuse, width, its] => skelCase ver hdr gap reuse width its
    | ["skelstd", ver, hdr, gap, reuse, width, name, vname, kind, bones] =>
      skelStdCase ver hdr gap reuse width name vname kind bones
    | [op, a, b, c, name] => layerCase op a b c name
    | _ => none
  r.getD bad

end Physis.Driver.C16
