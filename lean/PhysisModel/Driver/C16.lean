import PhysisModel.Base.Proto
import PhysisModel.Model.Cmp
import PhysisModel.Spec.Cmp
import PhysisModel.Model.Tera
import PhysisModel.Spec.Tera
import PhysisModel.Model.Layer
import PhysisModel.Spec.Layer
namespace Physis.Driver.C16
open Physis Physis.Proto

/-! ### field parsing (malformed ⇒ `none` ⇒ `bad-case`) -/

def items (sep : String) (s : String) : List String := if s == "-" then [] else s.splitOn sep

def u32? (s : String) : Option UInt32 := do
  let n ← s.toNat?
  if n < 2 ^ 32 then some (UInt32.ofNat n) else none

def u16? (s : String) : Option UInt16 := do
  let n ← s.toNat?
  if n < 2 ^ 16 then some (UInt16.ofNat n) else none

def u32List? (s : String) : Option (List UInt32) := (items "," s).mapM u32?

def pair? {α} (f : String → Option α) (s : String) : Option (α × α) :=
  match s.splitOn ":" with
  | [a, b] => do some (← f a, ← f b)
  | _ => none

def join (sep : String) (l : List String) : String := if l.isEmpty then "-" else sep.intercalate l

def showOutcome {α} (f : α → String) : Outcome α → String
  | .ok v => "some " ++ f v
  | .none => "none"
  | .panic => "panic"
  | .diverges => "diverges"
  | .unmodelled => "unmodelled"

/-! ### cmp -/

def cycleTo (pat : Bytes) (n : Nat) : Bytes :=
  if pat.isEmpty then List.replicate n 0 else
  let reps := n / pat.length + 1
  ((List.replicate reps pat).flatten).take n

def showRows (rows : List (List UInt32)) : String :=
  join ";" (rows.map fun r => join "," (r.map fun w => toString w.toNat))

def cmpCase (pat rows tail : String) : Option String := do
  let pat ← Bytes.ofHexFast pat
  let rows ← (items ";" rows).mapM u32List?
  let tail ← Bytes.ofHexFast tail
  let f : Spec.Cmp.File := ⟨cycleTo pat Spec.Cmp.headerSize, rows, tail⟩
  if !(decide (Spec.Cmp.WF f)) then none
  let file := Spec.Cmp.encode f
  pure (answer ("cmp " ++ Bytes.toHex file) ("some " ++ showRows f.rows) []
    (some (showOutcome showRows (Cmp.fromExisting file))))

/-! ### tera -/

def showPlate (x y : UInt32) (name : Bytes) : String :=
  toString x.toNat ++ ":" ++ toString y.toNat ++ ":" ++ Bytes.toHex name

def showSpecPlates (l : List Spec.Tera.Plate) : String := join "," (l.map fun p => showPlate p.x p.y p.filename)
def showModelPlates (l : List Tera.PlateModel) : String := join "," (l.map fun p => showPlate p.x p.y p.filename)
def showOpt {α} (f : α → String) : Option α → String
  | some v => "some " ++ f v
  | none => "none"

def teraParse (version ps clip unk positions : String) : Option String := do
  let f : Spec.Tera.File := ⟨← u32? version, ← u32? ps, ← u32? clip, ← u32? unk, ← (items "," positions).mapM (pair? u16?)⟩
  let file := Spec.Tera.encode f
  -- the specification only speaks about exactly representable plate centres
  let exp ← Spec.Tera.plates f
  pure (answer ("tera_parse " ++ Bytes.toHex file) ("some " ++ showSpecPlates exp) []
    (some (showOpt showModelPlates (Tera.fromExisting file))))

/-- write → read of a terrain on the 128-unit grid -/
def teraRoundtrip (positions : String) : Option String := do
  let ps ← (items "," positions).mapM (pair? u16?)
  let plates := Spec.Tera.gridPlates ps
  let input := join "," (plates.map fun p => toString p.x.toNat ++ ":" ++ toString p.y.toNat)
  let m := Tera.fromExisting (Tera.writeToBuffer (plates.map fun p => ⟨p.x, p.y, p.filename⟩))
  pure (answer ("tera_rt " ++ input) ("some " ++ showSpecPlates plates) [] (some (showOpt showModelPlates m)))

/-- the writer alone on a grid terrain: the documented layout -/
def teraWriteGrid (positions : String) : Option String := do
  let ps ← (items "," positions).mapM (pair? u16?)
  let plates := Spec.Tera.gridPlates ps
  let input := join "," (plates.map fun p => toString p.x.toNat ++ ":" ++ toString p.y.toNat)
  let exp := Spec.Tera.encode ⟨0x1000003, 128, 0, 0x3F800000, ps⟩
  let m := Tera.writeToBuffer (plates.map fun p => ⟨p.x, p.y, p.filename⟩)
  pure (answer ("tera_write " ++ input) (Bytes.toHex exp) [] (some (Bytes.toHex m)))

/-- conformance of the float model only (arbitrary f32 bit patterns; the property does not say what
the writer does off the grid): expected = model, tagged `triv` -/
def teraWriteAny (positions : String) : Option String := do
  let ps ← (items "," positions).mapM (pair? u32?)
  let m := Tera.writeToBuffer (ps.map fun p => ⟨p.1, p.2, []⟩)
  pure (answer "=" (Bytes.toHex m) ["triv", "float-model"] (some (Bytes.toHex m)))

/-! ### empty layer groups -/

def showGroupS (g : Spec.Layer.EmptyGroup) : String :=
  s!"{g.fileId.toNat} {g.chunkId.toNat} {g.layerGroupId.toNat} {Bytes.toHex g.name}"
def showGroupM (g : Layer.Group) : String :=
  s!"{g.fileId.toNat} {g.chunkId.toNat} {g.layerGroupId.toNat} {Bytes.toHex g.name}"

def layerGroup? (a b c name : String) : Option Spec.Layer.EmptyGroup := do
  let g : Spec.Layer.EmptyGroup := ⟨← u32? a, ← u32? b, ← u32? c, ← Bytes.ofHexFast name⟩
  if decide (Spec.Layer.WF g) then some g else none

def bindOutcome {α β} (o : Outcome α) (f : α → Outcome β) : Outcome β :=
  match o with
  | .ok v => f v
  | .none => .none
  | .panic => .panic
  | .diverges => .diverges
  | .unmodelled => .unmodelled

def layerCase (op a b c name : String) : Option String := do
  let g ← layerGroup? a b c name
  let gm : Layer.Group := ⟨g.fileId, g.chunkId, g.layerGroupId, g.name⟩
  match op with
  | "layer_parse" =>
    let file := Spec.Layer.encode g
    pure (answer ("layer_parse " ++ Bytes.toHex file) ("some " ++ showGroupS g) []
      (some (showOutcome showGroupM (Layer.fromExisting file))))
  | "layer_write" =>
    pure (answer "=" ("some " ++ Bytes.toHex (Spec.Layer.encode g)) []
      (some (showOutcome Bytes.toHex (Layer.writeToBuffer gm))))
  | "layer_rt" =>
    pure (answer "=" ("some " ++ showGroupS g) []
      (some (showOutcome showGroupM (bindOutcome (Layer.writeToBuffer gm) Layer.fromExisting))))
  | _ => none

/-- one case line in, one answer line out (see `Base/Proto.lean`) -/
def handle (line : String) : String :=
  let r : Option String :=
    match fields line with
    | ["cmp", pat, rows, tail] => cmpCase pat rows tail
    | ["tera_parse", v, ps, clip, unk, positions] => teraParse v ps clip unk positions
    | ["tera_rt", positions] => teraRoundtrip positions
    | ["tera_write", positions] => teraWriteGrid positions
    | ["tera_wany", positions] => teraWriteAny positions
    | [op, a, b, c, name] => layerCase op a b c name
    | _ => none
  r.getD bad

end Physis.Driver.C16
