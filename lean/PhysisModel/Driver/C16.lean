import PhysisModel.Driver.C16Pbd
import PhysisModel.Base.Proto
import PhysisModel.Model.Cmp
import PhysisModel.Spec.Cmp
import PhysisModel.Model.Tera
import PhysisModel.Spec.Tera
import PhysisModel.Model.Layer
import PhysisModel.Spec.Layer
import PhysisModel.Model.Pbd
import PhysisModel.Spec.Pbd
namespace Physis.Driver.C16
open Physis Physis.Proto

/-! ### field parsing (malformed ⇒ `none` ⇒ `bad-case`) -/

def items (sep : String) (s : String) : List String := if s == "-" then [] else s.splitOn sep

def u32? (s : String) : Option UInt32 := do
  let n ← s.toNat?
  if n < 2 ^ 32 then some (UInt32.ofNat n) else none

def u16? (s : String) : Option UInt16 := do
  let n ← s.toNat?
  if n < 2 ^ 16 then some (UInt16.ofNat n) else none

def u32List? (s : String) : Option (List UInt32) := (items "," s).mapM u32?

def pair? {α} (f : String → Option α) (s : String) : Option (α × α) :=
  match s.splitOn ":" with
  | [a, b] => do some (← f a, ← f b)
  | _ => none

def join (sep : String) (l : List String) : String := if l.isEmpty then "-" else sep.intercalate l

def showOutcome {α} (f : α → String) : Outcome α → String
  | .ok v => "some " ++ f v
  | .none => "none"
  | .panic => "panic"
  | .diverges => "diverges"
  | .unmodelled => "unmodelled"

/-! ### cmp -/

def cycleTo (pat : Bytes) (n : Nat) : Bytes :=
  if pat.isEmpty then List.replicate n 0 else
  let reps := n / pat.length + 1
  ((List.replicate reps pat).flatten).take n

def showRows (rows : List (List UInt32)) : String :=
  join ";" (rows.map fun r => join "," (r.map fun w => toString w.toNat))

def cmpCase (pat rows tail : String) : Option String := do
  let pat ← Bytes.ofHexFast pat
  let rows ← (items ";" rows).mapM u32List?
  let tail ← Bytes.ofHexFast tail
  let f : Spec.Cmp.File := ⟨cycleTo pat Spec.Cmp.headerSize, rows, tail⟩
  if !(decide (Spec.Cmp.WF f)) then none
  let file := Spec.Cmp.encode f
  pure (answer ("cmp " ++ Bytes.toHex file) ("some " ++ showRows f.rows) []
    (some (showOutcome showRows (Cmp.fromExisting file))))

/-! ### tera -/

def showPlate (x y : UInt32) (name : Bytes) : String :=
  toString x.toNat ++ ":" ++ toString y.toNat ++ ":" ++ Bytes.toHex name

def showSpecPlates (l : List Spec.Tera.Plate) : String := join "," (l.map fun p => showPlate p.x p.y p.filename)
def showModelPlates (l : List Tera.PlateModel) : String := join "," (l.map fun p => showPlate p.x p.y p.filename)
def showOpt {α} (f : α → String) : Option α → String
  | some v => "some " ++ f v
  | none => "none"

def teraParse (version ps clip unk positions : String) : Option String := do
  let f : Spec.Tera.File := ⟨← u32? version, ← u32? ps, ← u32? clip, ← u32? unk, ← (items "," positions).mapM (pair? u16?)⟩
  let file := Spec.Tera.encode f
  -- the specification only speaks about exactly representable plate centres
  let exp ← Spec.Tera.plates f
  pure (answer ("tera_parse " ++ Bytes.toHex file) ("some " ++ showSpecPlates exp) []
    (some (showOpt showModelPlates (Tera.fromExisting file))))

/-- write → read of a terrain on the 128-unit grid -/
def teraRoundtrip (positions : String) : Option String := do
  let ps ← (items "," positions).mapM (pair? u16?)
  let plates := Spec.Tera.gridPlates ps
  let input := join "," (plates.map fun p => toString p.x.toNat ++ ":" ++ toString p.y.toNat)
  let m := Tera.fromExisting (Tera.writeToBuffer (plates.map fun p => ⟨p.x, p.y, p.filename⟩))
  pure (answer ("tera_rt " ++ input) ("some " ++ showSpecPlates plates) [] (some (showOpt showModelPlates m)))

/-- the writer alone on a grid terrain: the documented layout -/
def teraWriteGrid (positions : String) : Option String := do
  let ps ← (items "," positions).mapM (pair? u16?)
  let plates := Spec.Tera.gridPlates ps
  let input := join "," (plates.map fun p => toString p.x.toNat ++ ":" ++ toString p.y.toNat)
  let exp := Spec.Tera.encode ⟨0x1000003, 128, 0, 0x3F800000, ps⟩
  let m := Tera.writeToBuffer (plates.map fun p => ⟨p.x, p.y, p.filename⟩)
  pure (answer ("tera_write " ++ input) (Bytes.toHex exp) [] (some (Bytes.toHex m)))

/-- conformance of the float model only (arbitrary f32 bit patterns; the property does not say what
the writer does off the grid): expected = model, tagged `triv` -/
def teraWriteAny (positions : String) : Option String := do
  let ps ← (items "," positions).mapM (pair? u32?)
  let m := Tera.writeToBuffer (ps.map fun p => ⟨p.1, p.2, []⟩)
  pure (answer "=" (Bytes.toHex m) ["triv", "float-model"] (some (Bytes.toHex m)))

/-! ### empty layer groups -/

def showGroupS (g : Spec.Layer.EmptyGroup) : String :=
  s!"{g.fileId.toNat} {g.chunkId.toNat} {g.layerGroupId.toNat} {Bytes.toHex g.name}"
def showGroupM (g : Layer.Group) : String :=
  s!"{g.fileId.toNat} {g.chunkId.toNat} {g.layerGroupId.toNat} {Bytes.toHex g.name}"

def layerGroup? (a b c name : String) : Option Spec.Layer.EmptyGroup := do
  let g : Spec.Layer.EmptyGroup := ⟨← u32? a, ← u32? b, ← u32? c, ← Bytes.ofHexFast name⟩
  if decide (Spec.Layer.WF g) then some g else none

def bindOutcome {α β} (o : Outcome α) (f : α → Outcome β) : Outcome β :=
  match o with
  | .ok v => f v
  | .none => .none
  | .panic => .panic
  | .diverges => .diverges
  | .unmodelled => .unmodelled

def layerCase (op a b c name : String) : Option String := do
  let g ← layerGroup? a b c name
  let gm : Layer.Group := ⟨g.fileId, g.chunkId, g.layerGroupId, g.name⟩
  match op with
  | "layer_parse" =>
    let file := Spec.Layer.encode g
    pure (answer ("layer_parse " ++ Bytes.toHex file) ("some " ++ showGroupS g) []
      (some (showOutcome showGroupM (Layer.fromExisting file))))
  | "layer_write" =>
    pure (answer "=" ("some " ++ Bytes.toHex (Spec.Layer.encode g)) []
      (some (showOutcome Bytes.toHex (Layer.writeToBuffer gm))))
  | "layer_rt" =>
    pure (answer "=" ("some " ++ showGroupS g) []
      (some (showOutcome showGroupM (bindOutcome (Layer.writeToBuffer gm) Layer.fromExisting))))
  | _ => none

/-! ### pbd -/

def bone? (s : String) : Option Spec.Pbd.Bone :=
  match s.splitOn "/" with
  | [n, m] => do some ⟨← Bytes.ofHexFast n, ← u32List? m⟩
  | _ => none

def item? (s : String) : Option Spec.Pbd.Item :=
  match s.splitOn ":" with
  | [b, l, bones] => do some ⟨← u16? b, ← u16? l, ← (items "+" bones).mapM bone?⟩
  | _ => none

def link? (s : String) : Option Spec.Pbd.Link :=
  match s.splitOn ":" with
  | [p, f, n, d] => do some ⟨← u16? p, ← u16? f, ← u16? n, ← u16? d⟩
  | _ => none

def showBonesS (l : List Spec.Pbd.Bone) : String :=
  join "+" (l.map fun b => Bytes.toHex b.name ++ "/" ++ join "," (b.deform.map fun w => toString w.toNat))
def showBonesM (l : List Pbd.Bone) : String :=
  join "+" (l.map fun b => Bytes.toHex b.name ++ "/" ++ join "," (b.deform.map fun w => toString w.toNat))

def pbdCase (its lks fromS toS : String)
    (enc : Spec.Pbd.File → Option Bytes := fun f => some (Spec.Pbd.encode f)) : Option String := do
  let f : Spec.Pbd.File := ⟨← (items ";" its).mapM item?, ← (items ";" lks).mapM link?⟩
  let a ← u16? fromS
  let b ← u16? toS
  if !(decide (Spec.Pbd.WFTree f) && decide (Spec.Pbd.WFLayout f)) then none
  let file ← enc f
  let model := match Pbd.fromExisting file with
    | .ok h => showOutcome showBonesM (Pbd.getDeformMatrices h a b)
    | o => "file-" ++ showOutcome (fun _ => "") o
  let input := s!"pbd {Bytes.toHex file} {a.toNat} {b.toNat}"
  if a == b then pure (answer input "none" ["triv"] (some model)) else
  match Spec.Pbd.findItem f a with
  | none => pure (answer input "none" ["triv"] (some model))
  | some start =>
    if decide (Spec.Pbd.HasSibling f start) then
      match Spec.Pbd.deformBones f start b with
      | some bones => pure (answer input ("some " ++ showBonesS bones) [] (some model))
      | none => none
    else
      -- a start node without sibling link: undocumented, left unconstrained by the property
      pure (answer input model ["triv", "no-sibling"] (some model))

/-- one case line in, one answer line out (see `Base/Proto.lean`) -/
def handle (line : String) : String :=
  let r : Option String :=
    match fields line with
    | ["cmp", pat, rows, tail] => cmpCase pat rows tail
    | ["tera_parse", v, ps, clip, unk, positions] => teraParse v ps clip unk positions
    | ["tera_rt", positions] => teraRoundtrip positions
    | ["tera_write", positions] => teraWriteGrid positions
    | ["tera_wany", positions] => teraWriteAny positions
    | ["pbdl", its, lks, a, b, stored, reserved, trailer] =>
      pbdCase its lks a b (C16Pbd.placedEncoder stored reserved trailer)
    | ["pbd", its, lks, a, b] => pbdCase its lks a b
    | [op, a, b, c, name] => layerCase op a b c name
    | _ => none
  r.getD bad

end Physis.Driver.C16
