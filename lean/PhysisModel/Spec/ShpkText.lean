import PhysisModel.Spec.Shpk
/-!
Canonical one-line text of a decoded shader package (the observable compared by the
correspondence; the Rust harness prints the same text from the real structures).  Printing only.
-/
namespace Physis.Spec.Shpk

def sepBy (sep : String) (l : List String) : String := sep.intercalate l
def brk (sep : String) (l : List String) : String := "[" ++ sepBy sep l ++ "]"
def n32 (v : UInt32) : String := toString v.toNat
def n16 (v : UInt16) : String := toString v.toNat

/-- an `f32` that is only observable through `{:?}`: the bit pattern, except that NaNs (whose
payload `Debug` does not show) are all printed `nan` -/
def f32dbg (b : UInt32) : String :=
  if (b &&& 0x7F800000) == 0x7F800000 && (b &&& 0x007FFFFF) != 0 then "nan" else n32 b

def renderParam (p : ResourceParameter) : String :=
  sepBy ":" [n32 p.id, n16 p.unknown, n16 p.slot, n16 p.size, Bytes.toHex p.name]

def renderShader (s : Shader) : String :=
  sepBy "/" [n32 s.dataOffset, n32 s.dataSize, n16 s.scalarParameterCount,
    n16 s.resourceParameterCount, n16 s.uavParameterCount, n16 s.textureCount,
    brk "," (s.scalarParameters.map renderParam), brk "," (s.resourceParameters.map renderParam),
    brk "," (s.uavParameters.map renderParam), brk "," (s.textureParameters.map renderParam),
    Bytes.toHex s.additionalData, Bytes.toHex s.bytecode]

def renderKey (k : Key) : String := n32 k.id ++ ":" ++ n32 k.defaultValue
def renderPass (p : Pass) : String := sepBy ":" [n32 p.id, n32 p.vertexShader, n32 p.pixelShader]

def renderNode (n : Node) : String :=
  sepBy "/" [n32 n.selector, n32 n.passCount, Bytes.toHex n.passIndices,
    brk "," (n.systemKeys.map n32), brk "," (n.sceneKeys.map n32), brk "," (n.materialKeys.map n32),
    brk "," (n.subviewKeys.map n32), brk "," (n.passes.map renderPass)]

def render (p : ShaderPackage) : String :=
  sepBy ";" [
    "ver=" ++ n32 p.version, "fmt=" ++ Bytes.toHex p.format, "flen=" ++ n32 p.fileLength,
    "sdo=" ++ n32 p.shaderDataOffset, "so=" ++ n32 p.stringsOffset,
    "vsc=" ++ n32 p.vertexShaderCount, "psc=" ++ n32 p.pixelShaderCount,
    "mps=" ++ n32 p.materialParametersSize, "mpc=" ++ n16 p.materialParameterCount,
    "hd=" ++ n16 p.hasMatParamDefaults, "scc=" ++ n16 p.scalarParameterCount,
    "sac=" ++ n16 p.samplerCount, "txc=" ++ n16 p.textureCount, "uac=" ++ n16 p.uavCount,
    "skc=" ++ n32 p.systemKeyCount, "ckc=" ++ n32 p.sceneKeyCount, "mkc=" ++ n32 p.materialKeyCount,
    "nc=" ++ n32 p.nodeCount, "nac=" ++ n32 p.nodeAliasCount,
    "vs=" ++ brk "|" (p.vertexShaders.map renderShader),
    "ps=" ++ brk "|" (p.pixelShaders.map renderShader),
    "mp=" ++ brk "," (p.materialParameters.map fun m => sepBy ":" [n32 m.id, n16 m.byteOffset, n16 m.byteSize]),
    "def=" ++ brk "," (p.matParamDefaults.map f32dbg),
    "sc=" ++ brk "," (p.scalarParameters.map renderParam),
    "sa=" ++ brk "," (p.samplerParameters.map renderParam),
    "tx=" ++ brk "," (p.textureParameters.map renderParam),
    "ua=" ++ brk "," (p.uavParameters.map renderParam),
    "sk=" ++ brk "," (p.systemKeys.map renderKey), "ck=" ++ brk "," (p.sceneKeys.map renderKey),
    "mk=" ++ brk "," (p.materialKeys.map renderKey),
    "sv=" ++ n32 p.subViewKey1Default ++ "," ++ n32 p.subViewKey2Default,
    "nodes=" ++ brk "|" (p.nodes.map renderNode),
    "sel=" ++ brk "," (p.nodeSelectors.map fun (s, n) => n32 s ++ ":" ++ n32 n),
    "al=" ++ brk "," (p.nodeAliases.map fun a => n32 a.selector ++ ":" ++ n32 a.node)]

end Physis.Spec.Shpk
