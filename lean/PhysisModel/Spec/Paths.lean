import PhysisModel.Base.Bytes
/-!
Specification side of C15: which tribes belong to which race, what a body type is, the canonical
repository order, and the documented shape of index / dat file names.  Nothing here looks at
the model of the code.
-/
namespace Physis.Spec.Paths

/-- A race's own two tribes, by the game's numbering: race `r` (1..8) owns tribes `2r-1` and `2r`
(Hyur: Midlander, Highlander; …; Viera: Rava, Veena). -/
def ownTribes (r : Nat) : Nat × Nat := (2 * r - 1, 2 * r)

def validRace (r : Nat) : Prop := 1 ≤ r ∧ r ≤ 8
def validTriple (r t g : Nat) : Prop := 1 ≤ r ∧ r ≤ 8 ∧ (t = 2 * r - 1 ∨ t = 2 * r) ∧ g ≤ 1

instance (r t g : Nat) : Decidable (validTriple r t g) := by unfold validTriple; infer_instance

/-- Body type: the two tribes of a race share one body per gender, except Hyur, whose
Midlanders and Highlanders are visually distinct. -/
def bodyType (r t g : Nat) : Nat × Nat × Nat := (r, g, if r = 1 then t else 0)

/-- ordering key of a repository: base game first, then expansions by number -/
def repoKey : Option Nat → Nat
  | none => 0
  | some n => n

def hexChar (n : Nat) : UInt8 :=
  ([0x30,0x31,0x32,0x33,0x34,0x35,0x36,0x37,0x38,0x39,0x61,0x62,0x63,0x64,0x65,0x66] : List UInt8).getD n 0x3f
def decChar (n : Nat) : UInt8 :=
  ([0x30,0x31,0x32,0x33,0x34,0x35,0x36,0x37,0x38,0x39] : List UInt8).getD n 0x3f

/-- the documented stem: two hex digits of the category, two decimal digits of the expansion,
two decimal digits of the chunk, `.`, the platform tag -/
def stem (cat ex chunk : Nat) (tag : Bytes) : Bytes :=
  [hexChar (cat / 16), hexChar (cat % 16), decChar (ex / 10), decChar (ex % 10),
   decChar (chunk / 10), decChar (chunk % 10), 0x2e] ++ tag

def indexName (cat ex chunk : Nat) (tag : Bytes) : Bytes := stem cat ex chunk tag ++ [0x2e,0x69,0x6e,0x64,0x65,0x78]
def index2Name (cat ex chunk : Nat) (tag : Bytes) : Bytes := indexName cat ex chunk tag ++ [0x32]
/-- data-file number 0..7 is one decimal digit -/
def datName (cat ex chunk : Nat) (tag : Bytes) (dat : Nat) : Bytes :=
  stem cat ex chunk tag ++ [0x2e,0x64,0x61,0x74, decChar dat]

end Physis.Spec.Paths
