import PhysisModel.Base.Bytes
/-!
Layout of `chara/xls/charamake/human.cmp` as far as Physis reads it: an opaque block of 0x2A800
bytes followed by racial scaling rows of fourteen little-endian f32 (here: their u32 bit patterns)
and fewer than one row of trailing bytes.
-/
namespace Physis.Spec.Cmp

def headerSize : Nat := 0x2a800
def rowWords : Nat := 14

structure File where
  /-- the first 0x2A800 bytes (not interpreted) -/
  head : Bytes
  /-- rows of 14 f32 bit patterns: male min/max size, male min/max tail, female min/max size,
  female min/max tail, bust min x/y/z, bust max x/y/z -/
  rows : List (List UInt32)
  /-- left-over bytes (less than one row) -/
  tail : Bytes

def WF (f : File) : Prop :=
  f.head.length = headerSize ∧ (∀ r ∈ f.rows, r.length = rowWords) ∧ f.tail.length < 4 * rowWords

instance (f : File) : Decidable (WF f) := by unfold WF; infer_instance

def encodeRow (r : List UInt32) : Bytes := r.flatMap putU32le

def encode (f : File) : Bytes := f.head ++ (f.rows.flatMap encodeRow ++ f.tail)

end Physis.Spec.Cmp
