import PhysisModel.Spec.Bcn
/-!
Specification of the `.tex` container for property C13: an 80-byte little-endian header
(attribute flags, format code, width, height, depth, mip count, 3 LOD offsets, 13 surface
offsets) followed by the payload of the first surface, and what a decoder has to report for it.
`encode` is the encoder the correspondence check feeds to the real code.
-/
namespace Physis.Spec.Tex
open Physis.Spec.Bcn

structure Header where
  attrs : UInt32
  formatCode : UInt32
  width : UInt16
  height : UInt16
  depth : UInt16
  mipLevels : UInt16
  lodOffsets : List UInt32
  offsetToSurface : List UInt32
  deriving DecidableEq, Repr

/-- the header is well-formed: 3 LOD offsets and 13 surface offsets -/
def Header.WF (h : Header) : Prop := h.lodOffsets.length = 3 ∧ h.offsetToSurface.length = 13

instance (h : Header) : Decidable h.WF := by unfold Header.WF; infer_instance

def encodeHeader (h : Header) : Bytes :=
  putU32le h.attrs ++ putU32le h.formatCode ++ putU16le h.width ++ putU16le h.height ++
  putU16le h.depth ++ putU16le h.mipLevels ++ h.lodOffsets.flatMap putU32le ++
  h.offsetToSurface.flatMap putU32le

/-- a texture file: header, then the payload -/
def encode (h : Header) (payload : Bytes) : Bytes := encodeHeader h ++ payload

/-- format codes of the four formats of the property -/
def formatOfCode (c : UInt32) : Option Format :=
  if c = 0x1450 then some .bgra
  else if c = 0x3420 then some .bc1
  else if c = 0x3431 then some .bc3
  else if c = 0x6230 then some .bc5
  else none

def codeOfFormat : Format → UInt32
  | .bgra => 0x1450 | .bc1 => 0x3420 | .bc3 => 0x3431 | .bc5 => 0x6230

/-- attribute bit `TEXTURE_TYPE3_D` (bit 24) -/
def is3D (attrs : UInt32) : Bool := attrs.toNat / 2 ^ 24 % 2 = 1

/-- what a decoder reports -/
structure Decoded where
  threeD : Bool
  width : Nat
  height : Nat
  depth : Nat
  rgba : Bytes
  deriving DecidableEq, Repr

/-- **Property predicate on a reported result.** -/
def DecodedOK (conv : Bc3Colour) (fmt : Format) (h : Header) (payload : Bytes) (r : Decoded) : Prop :=
  r.threeD = is3D h.attrs ∧ r.width = h.width.toNat ∧ r.height = h.height.toNat ∧
  r.depth = h.depth.toNat ∧
  ImageOK conv fmt h.width.toNat h.height.toNat h.depth.toNat payload.toArray r.rgba.toArray

instance (conv fmt h payload r) : Decidable (DecodedOK conv fmt h payload r) := by
  unfold DecodedOK; infer_instance

/-- the canonical expected result (`none`: format not one of the four, or payload too short —
outside the property's quantifier) -/
def expected (conv : Bc3Colour) (h : Header) (payload : Bytes) : Option Decoded :=
  match formatOfCode h.formatCode with
  | none => none
  | some fmt =>
    match canonImage conv fmt h.width.toNat h.height.toNat h.depth.toNat payload.toArray with
    | none => none
    | some rgba => some ⟨is3D h.attrs, h.width.toNat, h.height.toNat, h.depth.toNat, rgba⟩

end Physis.Spec.Tex
