import PhysisModel.Base.Fs
import PhysisModel.Base.FsText
import PhysisModel.Spec.ZiPatch
/-!
# ZiPatch reference semantics on *sparse* files (C03, byte offsets ≥ 2^32)

`Spec.ZiPatch.effect` gives file contents as dense `List UInt8`; a data file with a record at a
byte offset of 4 GiB and more cannot be evaluated that way.  This file evaluates the **same**
semantics on a run-length representation of file contents:

* `Seg` / `SFile` — a file is a concatenation of segments, a segment is a run of `n` zero bytes
  (`.z n`, costs nothing) or literal bytes (`.d bs`);  `dense` is its denotation, `len` its length;
* `takeS`, `dropS`, `writeS` (`seek(off); write_all`, the written bytes being sparse themselves: a
  wipe of 4 GiB is one `.z`), `setLenS`;
* `fnvS` — FNV-1a 64 of the denotation, arithmetically: a run of `n` zeros multiplies the state by
  `prime ^ n` (`powFast`, square and multiply in `UInt64`);
* `STree`, `effectS`, `runS`, `runChainS` — `effect` / `run` / `runChain` with sparse contents, line by line;
* `showTreeS` — the canonical text (`path:h<len>.<fnv>`).

`Properties/C03.lean` (`c03_sparse_*`) proves, for all inputs, that every one of these agrees with
its dense counterpart (`dense (writeS s off d) = Fs.writeAt (dense s) off (dense d)`,
`fnvS f = fnv1a (dense f)`, `run (denseSt s) cs = (runS s cs).map denseSt`,
`showTreeS t = showTree (denseTree t)`), so the expected answers of the huge-offset cases are
answers of the specification the other C03 theorems speak about.

This file must not import any `Model/` file.
-/
namespace Physis.Spec.ZiPatchSparse
open Physis Physis.Fs Physis.Spec.ZiPatch

/-! ## sparse file contents -/

inductive Seg where
  | z (n : Nat)
  | d (bs : Bytes)
  deriving DecidableEq, Repr, Inhabited

def Seg.len : Seg → Nat
  | .z n => n
  | .d bs => bs.length

def Seg.dense : Seg → Bytes
  | .z n => zeros n
  | .d bs => bs

def Seg.take (k : Nat) : Seg → Seg
  | .z n => .z (min k n)
  | .d bs => .d (bs.take k)

def Seg.drop (k : Nat) : Seg → Seg
  | .z n => .z (n - k)
  | .d bs => .d (bs.drop k)

abbrev SFile := List Seg

def len : SFile → Nat
  | [] => 0
  | s :: r => s.len + len r

/-- the denotation: the bytes of the file -/
def dense : SFile → Bytes
  | [] => []
  | s :: r => s.dense ++ dense r

/-- the first `k` bytes -/
def takeS : Nat → SFile → SFile
  | _, [] => []
  | k, s :: r => if k ≤ s.len then [s.take k] else s :: takeS (k - s.len) r

/-- all but the first `k` bytes -/
def dropS : Nat → SFile → SFile
  | _, [] => []
  | k, s :: r => if k < s.len then s.drop k :: r else dropS (k - s.len) r

/-- `seek(Start(off)); write_all(new)` (`Fs.writeAt`): the old bytes before `off`, zeros in a gap
past the old end, the written bytes, the old bytes behind them; writing nothing changes nothing -/
def writeS (old : SFile) (off : Nat) (new : SFile) : SFile :=
  if len new = 0 then old
  else takeS off old ++ .z (off - len old) :: (new ++ dropS (off + len new) old)

/-- `set_len(n)`: truncate, or extend with zeros -/
def setLenS (old : SFile) (n : Nat) : SFile := takeS n old ++ [.z (n - len old)]

/-! ## FNV-1a 64 without touching the zeros -/

def fnvPrime : UInt64 := 0x100000001b3
def fnvBasis : UInt64 := 0xcbf29ce484222325

/-- `b ^ n` in `UInt64` by repeated multiplication (the definition `powFast` is proved equal to) -/
def powSlow (b : UInt64) : Nat → UInt64
  | 0 => 1
  | n + 1 => powSlow b n * b

/-- square and multiply; the fuel (`n` itself is enough: the exponent halves at every step) keeps
the recursion structural, so the kernel can evaluate it -/
def powAux : Nat → UInt64 → Nat → UInt64
  | 0, _, _ => 1
  | fuel + 1, b, n =>
    if n = 0 then 1
    else
      let r := powAux fuel (b * b) (n / 2)
      if n % 2 = 1 then r * b else r

def powFast (b : UInt64) (n : Nat) : UInt64 := powAux n b n

def fnvStep (h : UInt64) (b : UInt8) : UInt64 := (h ^^^ b.toUInt64) * fnvPrime

/-- one segment: a zero byte maps `h` to `(h xor 0) · prime`, so `n` of them multiply by `prime ^ n` -/
def fnvSeg (h : UInt64) : Seg → UInt64
  | .z n => h * powFast fnvPrime n
  | .d bs => bs.foldl fnvStep h

def fnvS (f : SFile) : UInt64 := f.foldl fnvSeg fnvBasis

/-- canonical text of a content: as `FsText.showContent` on the denotation -/
def showContentS (f : SFile) : String :=
  if len f ≤ 32 then Bytes.toHex (dense f) else s!"h{len f}.{FsText.hex16 (fnvS f)}"

/-! ## trees with sparse files (mirror of `Base/Fs.lean`) -/

inductive SNode where
  | file (f : SFile)
  | dir
  deriving DecidableEq, Repr, Inhabited

def SNode.dense : SNode → Node
  | .file f => .file (ZiPatchSparse.dense f)
  | .dir => .dir

abbrev STree := List (Path × SNode)

def denseTree (t : STree) : Tree := t.map fun e => (e.1, e.2.dense)

/-- an ordinary tree as a sparse one (every file one literal segment) -/
def liftTree (t : Tree) : STree :=
  t.map fun e => (e.1, match e.2 with | .file d => SNode.file [.d d] | .dir => SNode.dir)

def getS : STree → Path → Option SNode
  | [], _ => none
  | (q, n) :: r, p => if q = p then some n else getS r p

def eraseS (t : STree) (p : Path) : STree := t.filter (fun e => decide (e.1 ≠ p))
def setS (t : STree) (p : Path) (n : SNode) : STree := (p, n) :: eraseS t p
def eraseUnderS (t : STree) (p : Path) : STree := t.filter (fun e => decide (¬ p <+: e.1))

def isFileS (t : STree) (p : Path) : Bool :=
  match getS t p with
  | some (.file _) => true
  | _ => false

def isDirS (t : STree) (p : Path) : Bool :=
  match p with
  | [] => true
  | _ => match getS t p with
    | some .dir => true
    | _ => false

def mkdirAllS (t : STree) (pre : Path) : Path → Option STree
  | [] => some t
  | c :: rest =>
    match getS t (pre ++ [c]) with
    | some (.file _) => none
    | some .dir => mkdirAllS t (pre ++ [c]) rest
    | none => mkdirAllS (setS t (pre ++ [c]) .dir) (pre ++ [c]) rest

/-! ## the reference semantics, sparse (mirror of `Spec.ZiPatch.effect`) -/

structure SSt where
  plat : Option UInt16
  tree : STree

def denseSt (s : SSt) : St := { plat := s.plat, tree := denseTree s.tree }

def placeFileS (t : STree) (p : Path) (f : SFile → SFile) : Option STree :=
  match p, getS t p with
  | [], _ => none
  | _, some .dir => none
  | _, some (.file old) => some (setS t p (.file (f old)))
  | _, none => some (setS t p (.file (f [])))

def updateFileS (t : STree) (mk : Bool) (p : Path) (f : SFile → SFile) : Option STree :=
  if mk then (mkdirAllS t [] p.dropLast).bind fun t1 => placeFileS t1 p f
  else if isDirS t p.dropLast then placeFileS t p f else none

/-- `Spec.ZiPatch.emptyBlock`: the 20-byte header, then one run of zeros -/
def emptyBlockS (n : UInt32) : SFile :=
  [.d (putU32le 128 ++ putU32le 0 ++ putU32le 0 ++ putU32le (n - 1) ++ putU32le 0), .z (128 * n.toNat - 20)]

def effectS (s : SSt) : Cmd → Option SSt
  | .target pl .. => some { s with plat := some pl }
  | .addData m sub f off del data =>
    s.plat.bind platformName |>.bind fun pn =>
      (updateFileS s.tree true (datPath pn m sub f)
        (fun old => writeS old (128 * off.toNat) [.d data, .z (128 * del.toNat)])).map
        fun t => { s with tree := t }
  | .deleteData m sub f off num =>
    s.plat.bind platformName |>.bind fun pn =>
      (updateFileS s.tree false (datPath pn m sub f)
        (fun old => writeS old (128 * off.toNat) (emptyBlockS num))).map fun t => { s with tree := t }
  | .expandData m sub f off num =>
    s.plat.bind platformName |>.bind fun pn =>
      (updateFileS s.tree true (datPath pn m sub f)
        (fun old => writeS old (128 * off.toNat) (emptyBlockS num))).map fun t => { s with tree := t }
  | .header isIdx k m sub f data =>
    s.plat.bind platformName |>.bind fun pn =>
      (updateFileS s.tree true (if isIdx then indexPath pn m sub f else datPath pn m sub f)
        (fun old => writeS old (if k = .version then 0 else 1024) [.d data])).map
        fun t => { s with tree := t }
  | .addFile off _ path blocks =>
    (updateFileS s.tree true (splitSlash path)
      (fun old => if off = 0 then [.d (fileData blocks)] else writeS old off.toNat [.d (fileData blocks)])).map
      fun t => { s with tree := t }
  | .deleteFile _ path =>
    some { s with tree := if isFileS s.tree (splitSlash path) then eraseS s.tree (splitSlash path) else s.tree }
  | .removeAll exp _ =>
    let d : Path := [sSqpack, expansionFolder exp]
    some { s with tree := if isDirS s.tree d then eraseUnderS s.tree d else s.tree }
  | .mkDirTree _ path =>
    (mkdirAllS s.tree [] (splitSlash path)).map fun t => { s with tree := t }
  | _ => some s

def runS (s : SSt) : List Cmd → Option SSt
  | [] => some s
  | c :: cs => (effectS s c).bind fun s' => runS s' cs

def runChainS : List (List Cmd) → STree → Option STree
  | [], t => some t
  | cs :: rest, t =>
    match runS { plat := none, tree := t } cs with
    | some s => runChainS rest s.tree
    | none => none

/-- `Spec.ZiPatch.WFchain`, decided without dense contents -/
def WFchainS (pss : List (List Cmd)) (t : STree) : Bool :=
  pss.all (fun cs => cs.all Cmd.wf) && (runChainS pss t).isSome

/-! ## canonical text (mirror of `FsText.showTree`) -/

def showTreeS (t : STree) (withDirs : Bool) : String :=
  let es := t.filter (fun e => withDirs || (match e.2 with | .file _ => true | .dir => false))
  let es := es.mergeSort (fun a b => FsText.bytesLe (joinSlash a.1) (joinSlash b.1))
  if es.isEmpty then "-" else
  ";".intercalate (es.map fun e =>
    match e.2 with
    | .file f => FsText.showPath e.1 ++ ":" ++ showContentS f
    | .dir => FsText.showPath e.1 ++ "/")

end Physis.Spec.ZiPatchSparse
