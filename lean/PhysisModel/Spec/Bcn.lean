import PhysisModel.Base.Bytes
/-!
Specification of the pixel formats of property C13, written from the format documents
(Microsoft "Texture Block Compression in Direct3D 11", Khronos Data Format Specification §S3TC/RGTC),
in plain natural-number arithmetic.  Nothing here mentions the Rust code or its model.

* `PixelOK conv fmt block i px` — pixel `i` (row-major inside the 4×4 block; `0` for the 1×1
  "block" of an uncompressed format) of the encoded `block` may decode to `px`.
  Exact everywhere except where the property statement leaves latitude: the alpha of the black
  entry in BC1's 3-colour mode is unconstrained.
* `ImageOK` — a whole decoded image (all widths, heights, depths; partial edge blocks).
* `canonPixel` / `canonImage` — one canonical decoding satisfying `PixelOK` (black entry opaque).

Conventions fixed here (the usual ones): a 5-bit or 6-bit endpoint is expanded by bit replication;
interpolants are rounded down.  `c13_expand_close` / `c13_interp_close` (Properties/C13) show these are
within < 1 of the exact rationals `v·255/(2ⁿ−1)`, `(2a+b)/3`, … .

BC3's colour half: the format documents say it is **always** decoded in 4-colour mode
(`Bc3Colour.always4`); decoding it with BC1's `q0 > q1` mode switch (`Bc3Colour.bc1Modes`) is a
different convention.  Both are expressible so that theorems can say precisely which one holds.
-/
namespace Physis.Spec.Bcn

structure Px where
  r : UInt8
  g : UInt8
  b : UInt8
  a : UInt8
  deriving DecidableEq, Repr

inductive Format | bgra | bc1 | bc3 | bc5
  deriving DecidableEq, Repr

/-- how the colour half of a BC3 block treats `q0 ≤ q1` -/
inductive Bc3Colour | always4 | bc1Modes
  deriving DecidableEq, Repr

/-- edge length of a block in pixels -/
def Format.dim : Format → Nat
  | .bgra => 1 | _ => 4
/-- bytes per encoded block -/
def Format.blockBytes : Format → Nat
  | .bgra => 4 | .bc1 => 8 | .bc3 => 16 | .bc5 => 16

/-- little-endian value of a byte string -/
def leNat : Bytes → Nat
  | [] => 0
  | b :: bs => b.toNat + 256 * leNat bs

/-- 5 → 8 bit expansion by bit replication: `(v << 3) | (v >> 2)` -/
def expand5 (v : Nat) : Nat := v * 8 + v / 4
/-- 6 → 8 bit expansion by bit replication: `(v << 2) | (v >> 4)` -/
def expand6 (v : Nat) : Nat := v * 4 + v / 16

structure Rgb where
  r : Nat
  g : Nat
  b : Nat
  deriving DecidableEq, Repr

/-- RGB565: red in bits 15..11, green in bits 10..5, blue in bits 4..0 -/
def rgb565 (q : Nat) : Rgb := ⟨expand5 (q / 2048 % 32), expand6 (q / 32 % 64), expand5 (q % 32)⟩

/-- `(m·x + n·y) / (m+n)` per channel, rounded down -/
def Rgb.mix (m n : Nat) (x y : Rgb) : Rgb :=
  ⟨(m * x.r + n * y.r) / (m + n), (m * x.g + n * y.g) / (m + n), (m * x.b + n * y.b) / (m + n)⟩

/-- Entry `k` (0..3) of the colour palette with endpoints `q0 q1`: colour and alpha, `none` =
alpha unconstrained.  `four = true` forces the 4-colour mode. -/
def colourEntry (four : Bool) (q0 q1 k : Nat) : Rgb × Option Nat :=
  let c0 := rgb565 q0
  let c1 := rgb565 q1
  if q0 > q1 ∨ four = true then
    match k with
    | 0 => (c0, some 255)
    | 1 => (c1, some 255)
    | 2 => (Rgb.mix 2 1 c0 c1, some 255)
    | _ => (Rgb.mix 1 2 c0 c1, some 255)
  else
    match k with
    | 0 => (c0, some 255)
    | 1 => (c1, some 255)
    | 2 => (Rgb.mix 1 1 c0 c1, some 255)
    | _ => (⟨0, 0, 0⟩, none)

/-- Entry `k` (0..7) of the BC3/BC4/BC5 single-channel palette with endpoints `a0 a1` -/
def alphaEntry (a0 a1 k : Nat) : Nat :=
  if k = 0 then a0
  else if k = 1 then a1
  else if a0 > a1 then ((8 - k) * a0 + (k - 1) * a1) / 7    -- six interpolants, k = 2..7
  else if k = 6 then 0
  else if k = 7 then 255
  else ((6 - k) * a0 + (k - 1) * a1) / 5                      -- four interpolants, k = 2..5

/-- selector of pixel `i` in a little-endian field of `bits`-bit selectors, pixel 0 in the lowest bits -/
def selector (bits : Nat) (field : Nat) (i : Nat) : Nat := field / (2 ^ bits) ^ i % 2 ^ bits

/-- palette entry selected for pixel `i` of an 8-byte colour block -/
def colourAt (four : Bool) (cb : Bytes) (i : Nat) : Option (Rgb × Option Nat) :=
  match cb with
  | [d0, d1, d2, d3, d4, d5, d6, d7] =>
    some (colourEntry four (leNat [d0, d1]) (leNat [d2, d3]) (selector 2 (leNat [d4, d5, d6, d7]) i))
  | _ => none

/-- value selected for pixel `i` of an 8-byte single-channel block -/
def alphaAt (ab : Bytes) (i : Nat) : Option Nat :=
  match ab with
  | [a0, a1, s0, s1, s2, s3, s4, s5] =>
    some (alphaEntry a0.toNat a1.toNat (selector 3 (leNat [s0, s1, s2, s3, s4, s5]) i))
  | _ => none

def optAlphaOK (o : Option Nat) (a : UInt8) : Prop :=
  match o with
  | some v => a.toNat = v
  | none => True

instance (o a) : Decidable (optAlphaOK o a) := by
  unfold optAlphaOK; split <;> infer_instance

/-- the colour channels of `px` are those of palette entry `e` -/
def rgbOK (e : Rgb) (px : Px) : Prop := px.r.toNat = e.r ∧ px.g.toNat = e.g ∧ px.b.toNat = e.b

instance (e px) : Decidable (rgbOK e px) := by unfold rgbOK; infer_instance

/-- **The per-pixel relation of property C13.** -/
def PixelOK (conv : Bc3Colour) (fmt : Format) (block : Bytes) (i : Nat) (px : Px) : Prop :=
  match fmt with
  | .bgra => i = 0 ∧ block = [px.b, px.g, px.r, px.a]
  | .bc1 =>
    i < 16 ∧ match colourAt false block i with
      | some e => rgbOK e.1 px ∧ optAlphaOK e.2 px.a
      | none => False
  | .bc3 =>
    i < 16 ∧ alphaAt (block.take 8) i = some px.a.toNat ∧
    match colourAt (conv = .always4) (block.drop 8) i with
      | some e => rgbOK e.1 px
      | none => False
  | .bc5 =>
    i < 16 ∧ alphaAt (block.take 8) i = some px.r.toNat ∧ alphaAt (block.drop 8) i = some px.g.toNat ∧
    px.b = 0 ∧ px.a = 255

instance (conv fmt block i px) : Decidable (PixelOK conv fmt block i px) := by
  unfold PixelOK
  split
  · infer_instance
  · split <;> infer_instance
  · split <;> infer_instance
  · infer_instance

/-- The canonical decoding: the black entry of BC1's 3-colour mode is opaque. -/
def canonPixel (conv : Bc3Colour) (fmt : Format) (block : Bytes) (i : Nat) : Option Px :=
  match fmt with
  | .bgra =>
    match block with
    | [b, g, r, a] => if i = 0 then some ⟨r, g, b, a⟩ else none
    | _ => none
  | .bc1 =>
    match colourAt false block i with
    | some e => some ⟨UInt8.ofNat e.1.r, UInt8.ofNat e.1.g, UInt8.ofNat e.1.b, UInt8.ofNat (e.2.getD 255)⟩
    | none => none
  | .bc3 =>
    match colourAt (conv = .always4) (block.drop 8) i, alphaAt (block.take 8) i with
    | some e, some a => some ⟨UInt8.ofNat e.1.r, UInt8.ofNat e.1.g, UInt8.ofNat e.1.b, UInt8.ofNat a⟩
    | _, _ => none
  | .bc5 =>
    match alphaAt (block.take 8) i, alphaAt (block.drop 8) i with
    | some r, some g => some ⟨UInt8.ofNat r, UInt8.ofNat g, 0, 255⟩
    | _, _ => none

/-! ### whole images -/

/-- number of blocks along an edge of `n` pixels -/
def Format.blocks (fmt : Format) (n : Nat) : Nat := (n + fmt.dim - 1) / fmt.dim

/-- blocks per depth slice; slices are stored one after another, each row-major -/
def sliceBlocks (fmt : Format) (w h : Nat) : Nat := fmt.blocks w * fmt.blocks h

/-- payload bytes a `w × h × d` texture occupies -/
def needed (fmt : Format) (w h d : Nat) : Nat := d * sliceBlocks fmt w h * fmt.blockBytes

/-- index of the block holding pixel `(x, y)` of slice `z` -/
def blockIndex (fmt : Format) (w h x y z : Nat) : Nat :=
  z * sliceBlocks fmt w h + (y / fmt.dim) * fmt.blocks w + x / fmt.dim

/-- position of pixel `(x, y)` inside its block (row-major) -/
def within (fmt : Format) (x y : Nat) : Nat := (y % fmt.dim) * fmt.dim + x % fmt.dim

/-- the `n`-th encoded block of the payload -/
def blockAt (fmt : Format) (payload : Array UInt8) (n : Nat) : Bytes :=
  (payload.extract (n * fmt.blockBytes) (n * fmt.blockBytes + fmt.blockBytes)).toList

/-- pixel `k` of an RGBA8 byte image -/
def pxAt (rgba : Array UInt8) (k : Nat) : Option Px :=
  match rgba[4 * k]?, rgba[4 * k + 1]?, rgba[4 * k + 2]?, rgba[4 * k + 3]? with
  | some r, some g, some b, some a => some ⟨r, g, b, a⟩
  | _, _, _, _ => none

/-- pixel `(x,y,z)` of the decoded image `rgba` is a permitted decoding of its block -/
def PixelAtOK (conv : Bc3Colour) (fmt : Format) (w h : Nat) (payload rgba : Array UInt8) (x y z : Nat) : Prop :=
  match pxAt rgba ((z * h + y) * w + x) with
  | some px => PixelOK conv fmt (blockAt fmt payload (blockIndex fmt w h x y z)) (within fmt x y) px
  | none => False

instance (conv fmt w h payload rgba x y z) : Decidable (PixelAtOK conv fmt w h payload rgba x y z) := by
  unfold PixelAtOK; split <;> infer_instance

/-- **The image-level statement of property C13**: `w·h·d` RGBA pixels, each one permitted. -/
def ImageOK (conv : Bc3Colour) (fmt : Format) (w h d : Nat) (payload rgba : Array UInt8) : Prop :=
  rgba.size = 4 * (w * h * d) ∧
  ∀ z, z < d → ∀ y, y < h → ∀ x, x < w → PixelAtOK conv fmt w h payload rgba x y z

instance (conv fmt w h d payload rgba) : Decidable (ImageOK conv fmt w h d payload rgba) := by
  unfold ImageOK; infer_instance

/-- The scope of the property's quantifier for 3-D textures: block rows never straddle slices. -/
def SliceAligned (fmt : Format) (h d : Nat) : Prop := d ≤ 1 ∨ h % fmt.dim = 0

instance (fmt h d) : Decidable (SliceAligned fmt h d) := by unfold SliceAligned; infer_instance

/-- canonical pixel `k` (`k = (z·h + y)·w + x`) -/
def canonPixelAt (conv : Bc3Colour) (fmt : Format) (w h : Nat) (payload : Array UInt8) (k : Nat) : Option Px :=
  let x := k % w
  let y := k / w % h
  let z := k / w / h
  canonPixel conv fmt (blockAt fmt payload (blockIndex fmt w h x y z)) (within fmt x y)

def Px.bytes (p : Px) : Bytes := [p.r, p.g, p.b, p.a]

/-- The canonical decoded image; `none` when the payload is shorter than the texture needs. -/
def canonImage (conv : Bc3Colour) (fmt : Format) (w h d : Nat) (payload : Array UInt8) : Option Bytes :=
  if payload.size < needed fmt w h d then none
  else (List.range (w * h * d)).foldr
    (fun k acc => match canonPixelAt conv fmt w h payload k, acc with
      | some p, some bs => some (p.bytes ++ bs)
      | _, _ => none) (some [])

/-- The class on which the two BC3 colour conventions differ: some visible pixel selects a palette
entry of a colour block with `q0 ≤ q1` whose colour is different under the two readings. -/
def Bc3ConventionsDiffer (fmt : Format) (w h d : Nat) (payload : Array UInt8) : Prop :=
  fmt = .bc3 ∧ ∃ z, z < d ∧ ∃ y, y < h ∧ ∃ x, x < w ∧
    let cb := (blockAt fmt payload (blockIndex fmt w h x y z)).drop 8
    (colourAt true cb (within fmt x y)).map (·.1) ≠ (colourAt false cb (within fmt x y)).map (·.1)

instance (fmt w h d payload) : Decidable (Bc3ConventionsDiffer fmt w h d payload) := by
  unfold Bc3ConventionsDiffer; infer_instance

end Physis.Spec.Bcn
