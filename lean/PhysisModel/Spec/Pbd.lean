import PhysisModel.Base.Bytes
/-!
Pre-bone deformer (`chara/xls/bonedeformer/human.pbd`): `n` items (one per body id, each with a list
of named 4×3 matrices stored out of line) and `n` tree links (parent / first child / next sibling /
deformer index).  i16 fields are kept as u16 bit patterns (`0xFFFF` = −1 = "none").

```
0            count i32
4            n × item  : body_id u16, link_index i16, data_offset i32, 4 reserved bytes
4 + 12n      n × link  : parent i16, first_child i16, next_sibling i16, deformer_index u16
data_offset  bone_count i32, bone_count × name_offset u16, (u16 padding when bone_count is odd),
             bone_count × 12 f32, then the NUL-terminated names (name_offset is relative to data_offset)
```
-/
namespace Physis.Spec.Pbd

structure Bone where
  name : Bytes
  /-- 12 f32 bit patterns -/
  deform : List UInt32
  deriving DecidableEq, Repr

structure Item where
  bodyId : UInt16
  linkIndex : UInt16
  bones : List Bone
  deriving DecidableEq, Repr

structure Link where
  parent : UInt16
  firstChild : UInt16
  nextSibling : UInt16
  deformerIndex : UInt16
  deriving DecidableEq, Repr

structure File where
  items : List Item
  links : List Link
  deriving DecidableEq, Repr

def none16 : UInt16 := 0xFFFF

/-! ### the parent chain -/

/-- link indices from `i` up to its root (inclusive), `none` when the chain leaves the table or does
not end within `fuel` steps -/
def ancestors (links : List Link) : Nat → Nat → Option (List Nat)
  | 0, _ => none
  | fuel + 1, i =>
    match links[i]? with
    | none => none
    | some l => if l.parent = none16 then some [i] else (ancestors links fuel l.parent.toNat).map (i :: ·)

/-- the parent links form a forest: every chain ends at a root -/
def Forest (links : List Link) : Prop :=
  ∀ i, i < links.length → (ancestors links links.length i).isSome
instance (links : List Link) : Decidable (Forest links) := by
  unfold Forest; exact Nat.decidableBallLT _ _

def itemOfLink (f : File) (l : Nat) : Option Item :=
  match f.links[l]? with
  | none => none
  | some k => f.items[k.deformerIndex.toNat]?

/-- well-formed tree tables: as many links as items, deformer indices inside the item table, a forest -/
def WFTree (f : File) : Prop :=
  f.links.length = f.items.length ∧
  (∀ l ∈ f.links, l.deformerIndex.toNat < f.items.length ∧ (l.parent = none16 ∨ l.parent < 0x8000)) ∧
  (∀ it ∈ f.items, it.linkIndex.toNat < f.links.length ∧ it.linkIndex < 0x8000) ∧
  Forest f.links
instance (f : File) : Decidable (WFTree f) := by unfold WFTree; infer_instance

/-- the start node has a sibling link (the documented case) -/
def HasSibling (f : File) (it : Item) : Prop :=
  match f.links[it.linkIndex.toNat]? with
  | some l => l.nextSibling ≠ none16
  | none => False
instance (f : File) (it : Item) : Decidable (HasSibling f it) := by
  unfold HasSibling; split <;> infer_instance

/-- the first item carrying a body id -/
def findItem (f : File) (bodyId : UInt16) : Option Item := f.items.find? (·.bodyId == bodyId)

/-- **What `get_deform_matrices(from, to)` must return**: the bones of the `from` item followed by the
bones of its ancestors, nearest first, up to but excluding the item whose body id is `to` (or through
the root when `to` is not an ancestor). -/
def deformBones (f : File) (start : Item) (to : UInt16) : Option (List Bone) := do
  let chain ← ancestors f.links f.links.length start.linkIndex.toNat
  let above ← chain.tail.mapM (itemOfLink f)
  pure (start.bones ++ (above.takeWhile (·.bodyId != to)).flatMap (·.bones))

/-! ### encoder -/

def nameHeap (bones : List Bone) : Bytes := bones.flatMap (fun b => b.name ++ [0])

/-- offsets of the names inside a block whose heap starts at `base` -/
def nameOffsets : Nat → List Bone → List UInt16
  | _, [] => []
  | base, b :: r => UInt16.ofNat base :: nameOffsets (base + b.name.length + 1) r

def blockHeaderLen (k : Nat) : Nat := 4 + 2 * k + (if k % 2 = 1 then 2 else 0) + 48 * k

def encodeBlock (bones : List Bone) : Bytes :=
  let k := bones.length
  putU32le (UInt32.ofNat k) ++ (nameOffsets (blockHeaderLen k) bones).flatMap putU16le ++
    (if k % 2 = 1 then [0, 0] else []) ++ bones.flatMap (fun b => b.deform.flatMap putU32le) ++ nameHeap bones

def encodeItems : Nat → List Item → Bytes
  | _, [] => []
  | off, it :: r =>
    putU16le it.bodyId ++ putU16le it.linkIndex ++ putU32le (UInt32.ofNat off) ++ [0, 0, 0, 0] ++
      encodeItems (off + (encodeBlock it.bones).length) r

def encodeLink (l : Link) : Bytes :=
  putU16le l.parent ++ putU16le l.firstChild ++ putU16le l.nextSibling ++ putU16le l.deformerIndex

def encode (f : File) : Bytes :=
  let n := f.items.length
  putU32le (UInt32.ofNat n) ++ encodeItems (4 + 12 * n + 8 * f.links.length) f.items ++
    f.links.flatMap encodeLink ++ f.items.flatMap (fun it => encodeBlock it.bones)

/-- what the layout can hold: equal table sizes, 12 floats per matrix, NUL-free ASCII names, name offsets
within u16, the file within i32 -/
def WFLayout (f : File) : Prop :=
  f.links.length = f.items.length ∧
  (∀ it ∈ f.items, (encodeBlock it.bones).length < 2 ^ 16 ∧
    ∀ b ∈ it.bones, b.deform.length = 12 ∧ ∀ c ∈ b.name, c ≠ 0 ∧ c < 128) ∧
  (encode f).length < 2 ^ 31
instance (f : File) : Decidable (WFLayout f) := by unfold WFLayout; infer_instance

end Physis.Spec.Pbd
