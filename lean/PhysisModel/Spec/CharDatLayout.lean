import PhysisModel.Base.Bytes
import PhysisModel.Spec.Fiin   -- only for the UTF-8 automaton (`utf8Valid`)
/-!
# Character preset files (`FFXIV_CHARA_nn.DAT`) — the documented layout, specification side

```
0x00 u32  magic 0x2013FF14        0x04 u32 version          0x08 u32 checksum      0x0C 4 × 0
0x10 race   0x11 gender  0x12 age     0x13 height  0x14 tribe   0x15 face    0x16 hair
0x17 highlights on/off (0/1)          0x18 skin    0x19 right eye colour     0x1A hair colour
0x1B highlight colour  0x1C facial features   0x1D facial feature colour     0x1E eyebrows
0x1F left eye colour   0x20 eyes    0x21 nose    0x22 jaw     0x23 mouth   0x24 lips / fur pattern
0x25 race feature size 0x26 race feature type   0x27 bust    0x28 face paint   0x29 face paint colour
0x2A voice  0x2B 0      0x2C u32 timestamp (Unix seconds)     0x30 comment, NUL padded to 164 bytes
```
All integers little endian; the file is 0xD4 = 212 bytes.  The checksum is the XOR over the bytes
at 0x10 … 0xD3 of `byte << (i mod 24)` (as 32-bit values, `i` counted from 0x10).
Race codes 1–8, gender 0/1, tribe codes 1–16.  Nothing here refers to the model of the Rust code.
-/
namespace Physis.Spec.CharDat

structure Appearance where
  race : UInt8
  gender : UInt8
  age : UInt8
  height : UInt8
  tribe : UInt8
  face : UInt8
  hair : UInt8
  enableHighlights : Bool
  skinTone : UInt8
  rightEyeColor : UInt8
  hairTone : UInt8
  highlights : UInt8
  facialFeatures : UInt8
  facialFeatureColor : UInt8
  eyebrows : UInt8
  leftEyeColor : UInt8
  eyes : UInt8
  nose : UInt8
  jaw : UInt8
  mouth : UInt8
  lipsToneFurPattern : UInt8
  raceFeatureSize : UInt8
  raceFeatureType : UInt8
  bust : UInt8
  facePaint : UInt8
  facePaintColor : UInt8
  voice : UInt8
deriving Repr, DecidableEq

structure Preset where
  version : UInt32
  appearance : Appearance
  timestamp : UInt32
  comment : Bytes
deriving Repr, DecidableEq

def fileSize : Nat := 0xD4
def commentSize : Nat := 164

/-- documented checksum of a file: XOR of `byte << (i mod 24)` over the bytes 0x10 … 0xD3 -/
def docChecksum (file : Bytes) : UInt32 :=
  let region := (file.drop 0x10).take 0xC4
  (region.foldl (fun (acc : UInt32 × Nat) b => (acc.1 ^^^ (b.toUInt32 <<< (acc.2 % 24).toUInt32), acc.2 + 1)) (0, 0)).1

def boolByte (b : Bool) : UInt8 := if b then 1 else 0

/-- the file with a given value in the checksum field, fields in the order of their documented offsets -/
def layout (p : Preset) (checksum : UInt32) : Bytes :=
  let a := p.appearance;
  /- 0x00 -/ [0x14, 0xFF, 0x13, 0x20] ++
  /- 0x04 -/ putU32le p.version ++
  /- 0x08 -/ putU32le checksum ++
  /- 0x0C -/ [0, 0, 0, 0] ++
  /- 0x10 -/ [a.race, a.gender, a.age, a.height, a.tribe, a.face, a.hair, boolByte a.enableHighlights,
  /- 0x18 -/  a.skinTone, a.rightEyeColor, a.hairTone, a.highlights, a.facialFeatures, a.facialFeatureColor,
  /- 0x1E -/  a.eyebrows, a.leftEyeColor, a.eyes, a.nose, a.jaw, a.mouth, a.lipsToneFurPattern,
  /- 0x25 -/  a.raceFeatureSize, a.raceFeatureType, a.bust, a.facePaint, a.facePaintColor, a.voice,
  /- 0x2B -/  0] ++
  /- 0x2C -/ putU32le p.timestamp ++
  /- 0x30 -/ p.comment ++ List.replicate (commentSize - p.comment.length) 0

/-- the preset file: the layout carrying its own documented checksum -/
def encode (p : Preset) : Bytes := layout p (docChecksum (layout p 0))

/-- documented codes -/
def raceCodes : List UInt8 := [1, 2, 3, 4, 5, 6, 7, 8]
def genderCodes : List UInt8 := [0, 1]
def tribeCodes : List UInt8 := [1, 2, 3, 4, 5, 6, 7, 8, 9, 10, 11, 12, 13, 14, 15, 16]

/-- well-formed preset: documented race / gender / tribe codes; comment of at most 163 bytes
without NUL (it is NUL-terminated inside its 164-byte field) that is text (well-formed UTF-8, as
every Rust `String` is) -/
def WF (p : Preset) : Prop :=
  p.appearance.race ∈ raceCodes ∧ p.appearance.gender ∈ genderCodes ∧ p.appearance.tribe ∈ tribeCodes ∧
  p.comment.length ≤ 163 ∧ 0 ∉ p.comment ∧ Spec.Fiin.utf8Valid p.comment = true

instance (p) : Decidable (WF p) :=
  inferInstanceAs (Decidable (p.appearance.race ∈ raceCodes ∧ p.appearance.gender ∈ genderCodes ∧
    p.appearance.tribe ∈ tribeCodes ∧ p.comment.length ≤ 163 ∧ 0 ∉ p.comment ∧
    Spec.Fiin.utf8Valid p.comment = true))

def Canonical (b : Bytes) : Prop := ∃ p, WF p ∧ b = encode p

end Physis.Spec.CharDat
