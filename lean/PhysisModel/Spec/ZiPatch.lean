import PhysisModel.Base.Fs
import PhysisModel.Spec.Crc32
/-!
# ZiPatch: wire format and reference semantics (specification side of C03 / C04)

* `Cmd` — the abstract syntax of a patch: one constructor per chunk / SQPK command.
* `encodePatch` — the wire format as the reference patcher reads it (big-endian sizes, 4-byte
  chunk tags, CRC-32 trailer, 128-byte block units, file blocks padded to 128 bytes).  This is the
  encoder the correspondence feeds to the real code; it shares nothing with Physis.
* `effect` — the reference semantics: what one command does to the install.  Directory structure
  goes through the `Fs` primitives; **file contents are given byte by byte** (`overlay`: the value
  of every index of the touched file).  `none` = the reference leaves the command undefined on that
  state (no target platform yet, a regular file where a directory is needed, …); `WFseq` is
  "every command is syntactically well formed and `effect` is defined along the sequence".

This file must not import any `Model/` file.
-/
namespace Physis.Spec.ZiPatch
open Physis Physis.Fs

/-! ## abstract syntax -/

/-- one data block of an AddFile command: stored raw, or deflated (`c` = the compressed bytes as
they travel, `d` = what they inflate to; `d` is what the reference semantics writes) -/
inductive Block where
  | raw (d : Bytes)
  | deflated (c d : Bytes)
  deriving DecidableEq, Repr

def Block.data : Block → Bytes
  | .raw d => d
  | .deflated _ d => d

inductive HeaderKind where
  | version | index | data
  deriving DecidableEq, Repr

inductive Cmd where
  | fhdr2 (name : Bytes) (depot : UInt32)
  | fhdr3 (name : Bytes) (nums : List UInt32)
  | aply (opt val : UInt32)
  | adir (name : Bytes)
  | deld (name : Bytes)
  | patchInfo (status ver : UInt8) (install : UInt64)
  | target (platform region debug ver : UInt16) (deleted seek : UInt64)
  | index (add syn : Bool) (hash : UInt64) (off num : UInt32)
  | addData (main sub : UInt16) (file off del : UInt32) (data : Bytes)
  | deleteData (main sub : UInt16) (file off num : UInt32)
  | expandData (main sub : UInt16) (file off num : UInt32)
  | header (isIndex : Bool) (kind : HeaderKind) (main sub : UInt16) (file : UInt32) (data : Bytes)
  | addFile (off : UInt64) (exp : UInt16) (path : Bytes) (blocks : List Block)
  | deleteFile (exp : UInt16) (path : Bytes)
  | removeAll (exp : UInt16) (path : Bytes)
  | mkDirTree (exp : UInt16) (path : Bytes)
  deriving DecidableEq, Repr

/-! ## names -/

def sSqpack : Name := [0x73, 0x71, 0x70, 0x61, 0x63, 0x6b]
def sFfxiv : Name := [0x66, 0x66, 0x78, 0x69, 0x76]
def sEx : Bytes := [0x65, 0x78]
def sDat : Bytes := [0x2e, 0x64, 0x61, 0x74]
def sIndex : Bytes := [0x2e, 0x69, 0x6e, 0x64, 0x65, 0x78]

def decimal (n : Nat) : Bytes := (Nat.toDigits 10 n).map (fun c => c.toNat.toUInt8)

def nibble (n : UInt16) : UInt8 :=
  let d := (n &&& 15).toUInt8
  if d < 10 then 48 + d else 87 + d

/-- two lower-case hex digits of a value below 256 -/
def hex2 (n : UInt16) : Bytes := [nibble (n >>> 4), nibble n]

/-- `{:02x}`: at least two digits, more when the value needs them -/
def hexMin2 (n : UInt16) : Bytes :=
  if n < 0x100 then hex2 n
  else if n < 0x1000 then [nibble (n >>> 8), nibble (n >>> 4), nibble n]
  else [nibble (n >>> 12), nibble (n >>> 8), nibble (n >>> 4), nibble n]

/-- platform id on the wire (a big-endian u16) → the name used in file names -/
def platformName (p : UInt16) : Option Bytes :=
  if p = 0 then some [0x77, 0x69, 0x6e, 0x33, 0x32]      -- win32
  else if p = 1 then some [0x70, 0x73, 0x33]             -- ps3
  else if p = 2 then some [0x70, 0x73, 0x34]             -- ps4
  else if p = 3 then some [0x70, 0x73, 0x35]             -- ps5
  else if p = 4 then some [0x6c, 0x79, 0x73]             -- lys
  else none

/-- `ffxiv` for expansion 0, `ex<n>` otherwise -/
def expansionFolder (e : UInt16) : Name :=
  if e = 0 then sFfxiv else sEx ++ decimal e.toNat

/-- The sub id is `expansion · 256 + chunk`; file names spell category, expansion and chunk with
two hex digits each. -/
def stem (plat : Bytes) (main sub : UInt16) : Bytes :=
  hexMin2 main ++ hex2 (sub >>> 8) ++ hex2 (sub &&& 0xff) ++ [0x2e] ++ plat

def repoDir (sub : UInt16) : Path := [sSqpack, expansionFolder (sub >>> 8)]

def datPath (plat : Bytes) (main sub : UInt16) (file : UInt32) : Path :=
  repoDir sub ++ [stem plat main sub ++ sDat ++ decimal file.toNat]

def indexPath (plat : Bytes) (main sub : UInt16) (file : UInt32) : Path :=
  repoDir sub ++ [stem plat main sub ++ sIndex ++ (if file = 0 then [] else decimal file.toNat)]

def sDot : Bytes := [0x2e]
def sDotDot : Bytes := [0x2e, 0x2e]

/-- a relative path the reference semantics speaks about: ASCII, no NUL, no empty / `.` / `..`
component -/
def pathOk (p : Bytes) : Bool :=
  p.all (fun b => b ≠ 0 && b < 128) &&
  (splitSlash p).all (fun c => !c.isEmpty && c ≠ sDot && c ≠ sDotDot)

/-! ## wire format -/

def tagFHDR : Bytes := [0x46, 0x48, 0x44, 0x52]
def tagAPLY : Bytes := [0x41, 0x50, 0x4c, 0x59]
def tagADIR : Bytes := [0x41, 0x44, 0x49, 0x52]
def tagDELD : Bytes := [0x44, 0x45, 0x4c, 0x44]
def tagSQPK : Bytes := [0x53, 0x51, 0x50, 0x4b]
def tagEOF : Bytes := [0x45, 0x4f, 0x46, 0x5f]

/-- the 12-byte file magic `\x91ZIPATCH\r\n\x1a\n` -/
def fileMagic : Bytes := [0x91, 0x5a, 0x49, 0x50, 0x41, 0x54, 0x43, 0x48, 0x0d, 0x0a, 0x1a, 0x0a]

def u32 (n : Nat) : UInt32 := UInt32.ofNat n

/-- length of a block on the wire: header + payload rounded up to 128 -/
def paddedLen (n : Nat) : Nat := (n + 143) / 128 * 128

/-- a file block: 16-byte header (`header size = 16`, 0, compressed size or 32000, original
size), the payload, zero padding up to the next multiple of 128 -/
def encodeBlock : Block → Bytes
  | .raw d =>
    putU32le 16 ++ putU32le 0 ++ putU32le 32000 ++ putU32le (u32 d.length) ++ d ++
      zeros (paddedLen d.length - 16 - d.length)
  | .deflated c d =>
    putU32le 16 ++ putU32le 0 ++ putU32le (u32 c.length) ++ putU32le (u32 d.length) ++ c ++
      zeros (paddedLen c.length - 16 - c.length)

def fileSize (blocks : List Block) : Nat := (blocks.map (fun b => b.data.length)).sum

def fileData (blocks : List Block) : Bytes := (blocks.map Block.data).flatten

def fileOpBody (op : UInt8) (off size : UInt64) (exp : UInt16) (path : Bytes) : Bytes :=
  [0x46, op, 0, 0] ++ putU64be off ++ putU64be size ++ putU32be (u32 (path.length + 1)) ++
    putU16be exp ++ [0, 0] ++ path ++ [0]

def targetIds (main sub : UInt16) (file : UInt32) : Bytes :=
  putU16be main ++ putU16be sub ++ putU32be file

def headerKindByte : HeaderKind → UInt8
  | .version => 0x56 | .index => 0x49 | .data => 0x44

/-- body of an SQPK command after its inner size field (starts with the command letter) -/
def sqpkBody : Cmd → Bytes
  | .patchInfo st v inst => [0x58, st, v, 0] ++ putU64be inst
  | .target pl rg dbg v del sk =>
    [0x54, 0, 0, 0] ++ putU16be pl ++ putU16be rg ++ putU16be dbg ++ putU16be v ++
      putU64le del ++ putU64le sk ++ zeros 96
  | .index add syn h off num =>
    [0x49, if add then 0x41 else 0x44, if syn then 1 else 0, 0] ++ putU64be h ++ putU32be off ++
      putU32be num ++ zeros 8
  | .addData m s f off del data =>
    [0x41, 0, 0, 0] ++ targetIds m s f ++ putU32be off ++ putU32be (u32 (data.length / 128)) ++
      putU32be del ++ data
  | .deleteData m s f off num =>
    [0x44, 0, 0, 0] ++ targetIds m s f ++ putU32be off ++ putU32be num ++ zeros 4
  | .expandData m s f off num =>
    [0x45, 0, 0, 0] ++ targetIds m s f ++ putU32be off ++ putU32be num ++ zeros 4
  | .header isIdx k m s f data =>
    [0x48, if isIdx then 0x49 else 0x44, headerKindByte k, 0] ++ targetIds m s f ++ data
  | .addFile off exp path blocks =>
    fileOpBody 0x41 off (UInt64.ofNat (fileSize blocks)) exp path ++ (blocks.map encodeBlock).flatten
  | .deleteFile exp path => fileOpBody 0x44 0 0 exp path
  | .removeAll exp path => fileOpBody 0x52 0 0 exp path
  | .mkDirTree exp path => fileOpBody 0x4d 0 0 exp path
  | _ => []

/-- chunk tag and chunk body -/
def chunkParts : Cmd → Bytes × Bytes
  | .fhdr2 name depot => (tagFHDR, [0, 0, 2, 0] ++ name ++ zeros 8 ++ putU32be depot)
  | .fhdr3 name nums => (tagFHDR, [0, 0, 3, 0] ++ name ++ (nums.map putU32be).flatten ++ zeros 0xB8)
  | .aply opt val => (tagAPLY, putU32be opt ++ zeros 4 ++ putU32be val)
  | .adir name => (tagADIR, putU32be (u32 name.length) ++ name)
  | .deld name => (tagDELD, putU32be (u32 name.length) ++ name)
  | c => (tagSQPK, let b := sqpkBody c; putU32be (u32 (b.length + 4)) ++ b)

/-- `size ‖ tag ‖ body ‖ crc32(tag ‖ body)` (sizes and checksum big-endian) -/
def encodeCmd (c : Cmd) : Bytes :=
  let (tag, body) := chunkParts c
  putU32be (u32 body.length) ++ tag ++ body ++ putU32be (Crc32.zlibCrc32 0 (tag ++ body))

def eofChunk : Bytes := putU32be 0 ++ tagEOF ++ putU32be (Crc32.zlibCrc32 0 tagEOF)

def encodeCmds (cs : List Cmd) : Bytes := (cs.map encodeCmd).flatten

def encodePatch (cs : List Cmd) : Bytes := fileMagic ++ encodeCmds cs ++ eofChunk

/-! ## syntactic well-formedness (decidable) -/

def asciiNoNul (s : Bytes) : Bool := s.all (fun b => b ≠ 0 && b < 128)

def Block.wf : Block → Bool
  | .raw d => 0 < d.length && d.length < 2 ^ 31
  | .deflated c d => 0 < d.length && d.length ≤ 2 ^ 20 && c.length < 32000   -- 1 MiB: the reader's limit (the game writes ≤ 16000)

def Cmd.wf : Cmd → Bool
  | .fhdr2 name _ => name.length = 4 && asciiNoNul name
  | .fhdr3 name nums => name.length = 4 && asciiNoNul name && nums.length = 13
  | .aply opt _ => opt = 1 || opt = 2
  | .adir name => asciiNoNul name && name.length < 2 ^ 32
  | .deld name => asciiNoNul name && name.length < 2 ^ 32
  | .patchInfo .. => true
  | .target pl rg .. => pl < 5 && (rg = 0xFFFF || rg = 1)
  | .index .. => true
  | .addData _ _ _ _ _ data => data.length % 128 = 0 && 128 ≤ data.length && data.length / 128 < 2 ^ 32
  | .deleteData _ _ _ _ num => 1 ≤ num && num.toNat ≤ 2 ^ 31
  | .expandData _ _ _ _ num => 1 ≤ num && num.toNat ≤ 2 ^ 31
  | .header _ _ _ _ _ data => data.length = 1024
  | .addFile _ _ path blocks =>
    pathOk path && path.length + 1 < 2 ^ 32 && blocks.all Block.wf && fileSize blocks < 2 ^ 64
  | .deleteFile _ path => pathOk path && path.length + 1 < 2 ^ 32
  | .removeAll _ path => pathOk path && path.length + 1 < 2 ^ 32
  | .mkDirTree _ path => pathOk path && path.length + 1 < 2 ^ 32

/-! ## reference semantics -/

/-- The content of a file after `new` has been written at byte `off`, **index by index**: inside
the written range the payload byte, elsewhere the old byte, and 0 where the old file had no byte
(a gap between the old end and `off`).  Writing nothing changes nothing. -/
def overlay (old : Bytes) (off : Nat) (new : Bytes) : Bytes :=
  if new.isEmpty then old
  else
    let a := old.toArray
    let b := new.toArray
    let hi := off + b.size
    (List.range (max a.size hi)).map fun i =>
      if off ≤ i ∧ i < hi then b.getD (i - off) 0 else a.getD i 0

/-- an empty block of `n` 128-byte units: the 20-byte header
`(block size 128, 0, file size 0, n − 1 further blocks, 0 used)` followed by zeros -/
def emptyBlock (n : UInt32) : Bytes :=
  putU32le 128 ++ putU32le 0 ++ putU32le 0 ++ putU32le (n - 1) ++ putU32le 0 ++
    zeros (128 * n.toNat - 20)

structure St where
  plat : Option UInt16
  tree : Tree

/-- replace the content of the file at `p` by `f old` (`old = []` when there was no file).
Undefined on the root and when `p` is a directory. -/
def placeFile (t : Tree) (p : Path) (f : Bytes → Bytes) : Option Tree :=
  match p, get t p with
  | [], _ => none
  | _, some .dir => none
  | _, some (.file old) => some (set t p (.file (f old)))
  | _, none => some (set t p (.file (f [])))

/-- with `mk`: create the directories leading to `p` first (undefined when one of them is a regular
file); without: the parent directory must exist.  Then `placeFile`. -/
def updateFile (t : Tree) (mk : Bool) (p : Path) (f : Bytes → Bytes) : Option Tree :=
  if mk then (mkdirAll t [] p.dropLast).bind fun t1 => placeFile t1 p f
  else if isDir t p.dropLast then placeFile t p f else none

def effect (s : St) : Cmd → Option St
  | .target pl .. => some { s with plat := some pl }
  | .addData m sub f off del data =>
    s.plat.bind platformName |>.bind fun pn =>
      (updateFile s.tree true (datPath pn m sub f)
        (fun old => overlay old (128 * off.toNat) (data ++ zeros (128 * del.toNat)))).map
        fun t => { s with tree := t }
  | .deleteData m sub f off num =>
    s.plat.bind platformName |>.bind fun pn =>
      (updateFile s.tree false (datPath pn m sub f)
        (fun old => overlay old (128 * off.toNat) (emptyBlock num))).map fun t => { s with tree := t }
  | .expandData m sub f off num =>
    s.plat.bind platformName |>.bind fun pn =>
      (updateFile s.tree true (datPath pn m sub f)
        (fun old => overlay old (128 * off.toNat) (emptyBlock num))).map fun t => { s with tree := t }
  | .header isIdx k m sub f data =>
    s.plat.bind platformName |>.bind fun pn =>
      (updateFile s.tree true (if isIdx then indexPath pn m sub f else datPath pn m sub f)
        (fun old => overlay old (if k = .version then 0 else 1024) data)).map
        fun t => { s with tree := t }
  | .addFile off _ path blocks =>
    (updateFile s.tree true (splitSlash path)
      (fun old => if off = 0 then fileData blocks else overlay old off.toNat (fileData blocks))).map
      fun t => { s with tree := t }
  | .deleteFile _ path =>
    some { s with tree := if isFile s.tree (splitSlash path) then erase s.tree (splitSlash path) else s.tree }
  | .removeAll exp _ =>
    let d : Path := [sSqpack, expansionFolder exp]
    some { s with tree := if isDir s.tree d then eraseUnder s.tree d else s.tree }
  | .mkDirTree _ path =>
    -- the path names the directory tree to make
    (mkdirAll s.tree [] (splitSlash path)).map fun t => { s with tree := t }
  | _ => some s

/-- the file a data / header command addresses under the current platform -/
def targetPath (plat : Option UInt16) : Cmd → Option Path
  | .addData m sub f .. => (plat.bind platformName).map fun pn => datPath pn m sub f
  | .deleteData m sub f .. => (plat.bind platformName).map fun pn => datPath pn m sub f
  | .expandData m sub f .. => (plat.bind platformName).map fun pn => datPath pn m sub f
  | .header isIdx _ m sub f _ =>
    (plat.bind platformName).map fun pn => if isIdx then indexPath pn m sub f else datPath pn m sub f
  | .addFile _ _ path _ => some (splitSlash path)
  | .deleteFile _ path => some (splitSlash path)
  | _ => none

/-- the paths a command may change: its target file and the directories leading to it; for
RemoveAll everything at or below the expansion's `sqpack` folder; for MakeDirTree the directories
of its path -/
def touched (plat : Option UInt16) (c : Cmd) (q : Path) : Prop :=
  match c with
  | .removeAll exp _ => [sSqpack, expansionFolder exp] <+: q
  | .mkDirTree _ path => q <+: splitSlash path
  | c => match targetPath plat c with
    | some p => q <+: p
    | none => False

def run (s : St) : List Cmd → Option St
  | [] => some s
  | c :: cs => (effect s c).bind fun s' => run s' cs

/-- the paths a whole sequence may change, the platform being tracked along the way -/
def touchedRun (s : St) : List Cmd → Path → Prop
  | [], _ => False
  | c :: cs, q => touched s.plat c q ∨ match effect s c with
    | some s1 => touchedRun s1 cs q
    | none => False

/-- a well-formed sequence on a given start state: every command syntactically well formed and
the reference semantics defined at every step (decidable) -/
def WFseq (cs : List Cmd) (s : St) : Bool :=
  cs.all Cmd.wf && (run s cs).isSome

/-- reference semantics of several patches applied in order: each patch starts without a target
platform; only the tree carries over -/
def runChain : List (List Cmd) → Tree → Option Tree
  | [], t => some t
  | cs :: rest, t =>
    match run { plat := none, tree := t } cs with
    | some s => runChain rest s.tree
    | none => none

/-- every patch of a chain is a well-formed sequence on the tree it meets (decidable) -/
def WFchain (pss : List (List Cmd)) (t : Tree) : Bool :=
  pss.all (fun cs => cs.all Cmd.wf) && (runChain pss t).isSome

/-! ## the assumption on zlib

`inflate compressed outLen` stands for raw inflate (`no_header_decompress`) into a buffer of
`outLen` bytes.  The only thing assumed about it: it inverts the compression that produced the
deflated blocks of the patch at hand, and ignores the zero padding after the stream. -/

def Block.inflateOk (inflate : Bytes → Nat → Option Bytes) : Block → Prop
  | .raw _ => True
  | .deflated c d => inflate (c ++ zeros (paddedLen c.length - 16 - c.length)) d.length = some d

def InflateOK (inflate : Bytes → Nat → Option Bytes) (cs : List Cmd) : Prop :=
  ∀ off exp path blocks, Cmd.addFile off exp path blocks ∈ cs → ∀ b ∈ blocks, b.inflateOk inflate

end Physis.Spec.ZiPatch
