import PhysisModel.Spec.Mdl
/-!
# C07 — specification side: canonical encodings, abstract edits, header self-consistency

* `canonicalMesh` — the attribute encodings a writer can reproduce: only `(usage, type)` pairs with
  an inverse encoder, every usage at most once, elements inside the stride and pairwise disjoint,
  every byte not covered by an element zero, the padding lanes of `Half4`/`Single4` positions
  (1.0) and `Half4` normals (0.0) and the tangent handedness byte (0 / 255) canonical, no NaN.
* `AEdit` / `applyEdit` — what `replace_vertices`, `remove_shape_meshes`, `add_shape_mesh` mean on an
  abstract model.
* `HeaderFlags` — the self-consistency predicate of the property on a written file: per LOD the
  vertex section is sized Σ count × stride, the index section is 16-byte padded and holds the
  indices, sections are disjoint / ordered / after the runtime block, and in bounds of the file.
-/
namespace Physis.Spec.Mdl
open Physis Physis.Mdl Physis.SoftFloat

/-! ## canonical encodings -/

/-- `(usage, type)` pairs for which the writer has an encoder that inverts the reader -/
def writable (usage type : UInt8) : Bool :=
  (usage == VU.position && (type == VT.single4 || type == VT.half4 || type == VT.single3)) ||
  (usage == VU.blendWeights && type == VT.byteFloat4) ||
  (usage == VU.blendIndices && type == VT.byte4) ||
  (usage == VU.normal && (type == VT.half4 || type == VT.single3)) ||
  (usage == VU.uv && (type == VT.half4 || type == VT.single4)) ||
  (usage == VU.biTangent && type == VT.byteFloat4) ||
  (usage == VU.color && type == VT.byteFloat4)

def halfOk (h : UInt16) : Bool := !isNaN16 h
def f32Ok (x : UInt32) : Bool := !isNaN32 x

/-- canonical raw bytes of one element (`raw.length = typeSize type`) -/
def canonicalRaw (usage type : UInt8) (raw : Bytes) : Bool :=
  if type == VT.single3 then (f32sOf raw).all f32Ok
  else if type == VT.single4 then
    (f32sOf raw).all f32Ok && (usage != VU.position || (f32sOf raw).drop 3 == [0x3F800000])
  else if type == VT.half4 then
    (u16sOf raw).all halfOk &&
    (usage != VU.position || (u16sOf raw).drop 3 == [0x3C00]) &&
    (usage != VU.normal || (u16sOf raw).drop 3 == [0])
  else if usage == VU.biTangent then (raw.drop 3).all (fun b => b == 0 || b == 255)
  else true

def covered (decl : List VertexElement) (stream pos : Nat) : Bool :=
  decl.any fun e => e.stream.toNat == stream && e.offset.toNat ≤ pos && pos < e.offset.toNat + elemSize e

def disjointElems (decl : List VertexElement) : Bool :=
  (List.range decl.length).all fun i => (List.range decl.length).all fun j =>
    i ≥ j || match decl[i]?, decl[j]? with
      | some a, some b =>
        a.vertexUsage != b.vertexUsage &&
        (a.stream != b.stream || a.offset.toNat + elemSize a ≤ b.offset.toNat ||
          b.offset.toNat + elemSize b ≤ a.offset.toNat)
      | _, _ => true

/-- one vertex record of stream `si` is canonical -/
def canonicalRecord (decl : List VertexElement) (si : Nat) (rec : Bytes) : Bool :=
  (decl.all fun e => e.stream.toNat != si ||
    canonicalRaw e.vertexUsage e.vertexType ((rec.drop e.offset.toNat).take (elemSize e))) &&
  (List.zip (List.range rec.length) rec).all fun (p, b) => b == 0 || covered decl si p

def chunks (n : Nat) (count : Nat) (data : Bytes) : List Bytes :=
  (List.range count).map fun k => (data.drop (k * n)).take n

/-- array-based evaluation of `chunks` for the compiled driver -/
def chunksA (n count : Nat) (data : Bytes) : List Bytes :=
  let a := data.toArray
  (List.range count).map fun k => sliceA a (k * n) n

@[csimp] theorem chunks_eq_A : @chunks = @chunksA := by
  funext n count data
  simp only [chunks, chunksA, sliceA_eq]

def canonicalMesh (m : AMesh) : Bool :=
  m.decl.all (fun e => writable e.vertexUsage e.vertexType) && disjointElems m.decl &&
  (List.zip (List.range m.streams.length) m.streams).all fun (si, s) =>
    (chunks s.stride.toNat m.vertexCount.toNat s.data).all (canonicalRecord m.decl si)

/-- the layout relation `update_headers` relies on: a mesh's first index is its first sub-mesh's
offset -/
def startsOk : Nat → List AMesh → Bool
  | _, [] => true
  | ibase, m :: rest =>
    (match m.submeshes with
     | s :: _ => s.indexOffset.toNat == ibase
     | [] => false) && startsOk (ibase + meshIndexWords m) rest

def noNaNBlock (b : Bytes) : Bool := (f32sOf b).all f32Ok

/-- C07's quantifier on the model being written: version ≤ 5, canonical attribute encodings, no
terrain-shadow tables, NaN-free float tables (Rust's `==` on the header data is not reflexive on
NaN) -/
def Canonical (m : AbstractModel) : Bool :=
  isV5 m.version && m.terrainShadowMeshes.isEmpty && m.terrainShadowSubmeshes.isEmpty &&
  (m.lods.drop m.lodCount.toNat).all (fun l => l.meshes.isEmpty) &&
  (allMeshes m).all canonicalMesh && m.lods.all (fun l => startsOk 0 l.meshes) &&
  f32Ok m.misc.radius && f32Ok m.misc.modelClipOutOfDistance && f32Ok m.misc.shadowClipOutOfDistance &&
  m.lods.all (fun l => noNaNBlock (l.mid.take 8)) &&
  m.elementIds.all (fun e => noNaNBlock (e.drop 8)) && noNaNBlock m.boundingBoxes &&
  m.boneBoundingBoxes.all noNaNBlock

/-! ## abstract edits -/

inductive AEdit
  /-- `replace_vertices(lod, part, …)`: new vertex count, canonical streams, indices, and the
  `(index_offset, index_count)` of the first sub-meshes -/
  | replace (lod part : Nat) (vcount : UInt16) (streams : List AStream) (indices : List UInt16)
      (subs : List (UInt32 × UInt32))
  /-- `remove_shape_meshes()` -/
  | removeShapes
  /-- `add_shape_mesh(lod, shape, shape_mesh_index, part, values)`: base indices and the
  replacement vertices (as canonical records appended to each stream) -/
  | addShape (lod shape smi part : Nat) (bases : List UInt32) (streams : List AStream)
deriving Repr, Inhabited

def updSubs : List Submesh → List (UInt32 × UInt32) → List Submesh
  | s :: ss, (o, c) :: rest => { s with indexOffset := o, indexCount := c } :: updSubs ss rest
  | ss, _ => ss

def modifyMesh (m : AbstractModel) (lod part : Nat) (f : AMesh → AMesh) : Option AbstractModel := do
  let l ← m.lods[lod]?
  let mesh ← l.meshes[part]?
  if lod ≥ m.lodCount.toNat then none else
  some { m with lods := m.lods.set lod { l with meshes := l.meshes.set part (f mesh) } }

def meshStart (l : ALod) (part : Nat) : Nat := ((l.meshes.take part).map meshIndexWords).sum

def applyEdit (m : AbstractModel) : AEdit → Option AbstractModel
  | .replace lod part vcount streams indices subs =>
    modifyMesh m lod part fun mesh =>
      { mesh with vertexCount := vcount, streams := streams, indices := indices, indexPad := 0,
                  submeshes := updSubs mesh.submeshes subs }
  | .removeShapes =>
    some { m with shapeMeshes := [], shapeValues := []
                  shapes := m.shapes.map fun s =>
                    { s with shapeMeshStartIndex := Arr3.rep 0, shapeMeshCount := Arr3.rep 0 } }
  | .addShape lod shape smi part bases streams => do
    let l ← m.lods[lod]?
    let mesh ← l.meshes[part]?
    let sh ← m.shapes[shape]?
    let c ← sh.shapeMeshCount.get? lod
    let start := (meshStart l part).toUInt32
    let n := bases.length
    -- shape values are u16 and count from the mesh's start index: an edit whose indices do not
    -- fit is not expressible in the format (the code panics on the overflow / would wrap)
    -- … and "the mesh's start index" must mean something: its first sub-mesh's offset (what
    -- `update_headers` takes as `start_index`) has to be the mesh's position in the index section.
    -- Between the `replace_vertices` calls of one re-layout it is not (the code then records the
    -- stale value, `corpus/C07/sp-add-shape-noncontiguous.case`): such a history is not supplied
    -- consistently
    if (meshStart l part) + mesh.vertexCount.toNat + n > 65536 ||
       bases.any (fun b => (meshStart l part) + b.toNat ≥ 65536) ||
       (match mesh.submeshes with
        | s :: _ => s.indexOffset != start
        | [] => true) then none else
    let sh' := { sh with
      shapeMeshStartIndex :=
        if smi == 0 then sh.shapeMeshStartIndex.set lod m.shapeMeshes.length.toUInt16
        else sh.shapeMeshStartIndex
      shapeMeshCount := sh.shapeMeshCount.set lod (c + 1) }
    let vals := (List.zip (List.range n) bases).map fun (i, b) =>
      ({ baseIndicesIndex := start.toUInt16 + b.toUInt16
         replacingVertexIndex := start.toUInt16 + (mesh.vertexCount.toNat + i).toUInt16 } : ShapeValue)
    let m' ← modifyMesh m lod part fun mesh =>
      { mesh with vertexCount := (mesh.vertexCount.toNat + n).toUInt16
                  streams := List.zipWith (fun (a b : AStream) => { a with data := a.data ++ b.data })
                    mesh.streams streams }
    some { m' with shapes := m.shapes.set shape sh'
                   shapeMeshes := m.shapeMeshes ++ [⟨start, n.toUInt32, m.shapeValues.length.toUInt32⟩]
                   shapeValues := m.shapeValues ++ vals }

def applyEdits (m : AbstractModel) (es : List AEdit) : Option AbstractModel := es.foldlM applyEdit m

/-! ## header self-consistency of a written file -/

structure HeaderFlags where
  sized : Bool      -- vertex_buffer_size[i] = Σ vertex count × stride over the LOD's meshes
  padded : Bool     -- index_buffer_size[i] is a multiple of 16 and holds 2·Σ index counts
  disjoint : Bool   -- non-empty sections start after the runtime block and are pairwise disjoint
  inBounds : Bool   -- every section ends inside the file
deriving DecidableEq, Repr, Inhabited

def HeaderFlags.allOk : HeaderFlags := ⟨true, true, true, true⟩

/-- evaluates the predicate on a written file's header `fh`, its length and the re-parsed parts -/
def headerFlags (fh : FileHeader) (fileLen : Nat) (lods : List (List Part)) : HeaderFlags :=
  let ix := [0, 1, 2]
  let g (a : Arr3 UInt32) (i : Nat) : Nat := ((a.get? i).getD 0).toNat
  let vsum (i : Nat) : Nat := ((lods.getD i []).map fun p =>
    (p.vertexStreamStrides.map fun st => p.vertices.length * st).sum).sum
  let isum (i : Nat) : Nat := 2 * ((lods.getD i []).map fun p => p.indices.length).sum
  let secs : List (Nat × Nat) :=
    ix.map (fun i => (g fh.vertexOffsets i, g fh.vertexBufferSize i)) ++
    ix.map (fun i => (g fh.indexOffsets i, g fh.indexBufferSize i))
  let ne := secs.filter fun s => s.2 != 0
  { sized := ix.all fun i => g fh.vertexBufferSize i == vsum i
    padded := ix.all fun i => g fh.indexBufferSize i % 16 == 0 && isum i ≤ g fh.indexBufferSize i
    disjoint :=
      (ne.all fun s => 68 + fh.stackSize.toNat + fh.runtimeSize.toNat ≤ s.1) &&
      (List.range ne.length).all fun a => (List.range ne.length).all fun b =>
        a ≥ b || match ne[a]?, ne[b]? with
          | some x, some y => x.1 + x.2 ≤ y.1 || y.1 + y.2 ≤ x.1
          | _, _ => true
    inBounds := secs.all fun s => s.1 + s.2 ≤ fileLen }

/-! ## the class of the recorded finding `c07.writer-unsupported-layout`

Canonical in every respect except that some declaration uses a `(usage, type)` pair the reader
supports but the writer has no (inverse) encoder for: (UV, Half2), (UV, ByteFloat4),
(BlendWeights, UnsignedShort4), (BlendIndices, UnsignedShort4), (Tangent, ByteFloat4) — the
writer panics — and (BlendWeights, Byte4) — written with `round(x) as u8`. -/

def canonicalMeshAny (m : AMesh) : Bool :=
  m.decl.all (fun e => supported e.vertexUsage e.vertexType) && disjointElems m.decl &&
  (List.zip (List.range m.streams.length) m.streams).all fun (si, s) =>
    (chunks s.stride.toNat m.vertexCount.toNat s.data).all (canonicalRecord m.decl si)

def CanonicalAny (m : AbstractModel) : Bool :=
  isV5 m.version && m.terrainShadowMeshes.isEmpty && m.terrainShadowSubmeshes.isEmpty &&
  (m.lods.drop m.lodCount.toNat).all (fun l => l.meshes.isEmpty) &&
  (allMeshes m).all canonicalMeshAny && m.lods.all (fun l => startsOk 0 l.meshes) &&
  f32Ok m.misc.radius && f32Ok m.misc.modelClipOutOfDistance && f32Ok m.misc.shadowClipOutOfDistance &&
  m.lods.all (fun l => noNaNBlock (l.mid.take 8)) &&
  m.elementIds.all (fun e => noNaNBlock (e.drop 8)) && noNaNBlock m.boundingBoxes &&
  m.boneBoundingBoxes.all noNaNBlock

/-- some mesh with vertices declares a pair outside `writable` -/
def hasUnwritable (m : AbstractModel) : Bool :=
  (allMeshes m).any fun mesh => mesh.vertexCount != 0 &&
    mesh.decl.any fun e => !writable e.vertexUsage e.vertexType

end Physis.Spec.Mdl
