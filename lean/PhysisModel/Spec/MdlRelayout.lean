import PhysisModel.Spec.MdlEdit
/-!
# C07 — the layout `update_headers` gives a file, on abstract models

`Spec.encodeMdl` lays an abstract model out with whatever index padding words (`indexPad`) and
`edge_geometry_data_offset` it carries.  `MDL::update_headers` — run at the end of every edit —
always pads a LOD's index section to the next multiple of 16 bytes *strictly above* the end of its
last mesh's indices and sets `edge_geometry_data_offset` to the index section's offset.

* `LaidOut m` — `m` already has that layout (decidable);
* `relayout m` — `m` with the last mesh of every LOD re-padded and the edge-geometry offsets reset:
  the same geometry (`view`), laid out the way the writer lays an edited model out.

The geometry, the declarations, the sub-mesh ranges, the shape tables and the names are untouched.
-/
namespace Physis.Spec.Mdl
open Physis Physis.Mdl

/-- index words of a LOD up to the end of its last mesh's own indices (without that mesh's padding) -/
def lodIndexExtent (l : ALod) : Nat :=
  match l.meshes[l.meshes.length - 1]? with
  | some last => (l.meshes.map meshIndexWords).sum - last.indexPad
  | none => 0

/-- `update_headers`' size of the index section: the extent in bytes rounded up to the next
multiple of 16 strictly above it -/
def paddedIndexSize (l : ALod) : Nat := (2 * lodIndexExtent l / 16 + 1) * 16

/-- file offset of the vertex section of LOD `i` -/
def sectionOffset (m : AbstractModel) (i : Nat) : Nat :=
  dataStart m + ((m.lods.take i).map (fun l => lodVertexSize l + lodIndexSize l)).sum

/-- `m` is laid out the way `update_headers` lays a model out: every LOD in use has a mesh, its
index section is padded to `paddedIndexSize`, its `edge_geometry_data_offset` is the offset of its
index section -/
def LaidOut (m : AbstractModel) : Bool :=
  (List.range m.lodCount.toNat).all fun i =>
    match m.lods[i]? with
    | some l => !l.meshes.isEmpty && lodIndexSize l == paddedIndexSize l &&
        l.edgeGeometryDataOffset == (sectionOffset m i + lodVertexSize l).toUInt32
    | none => false

/-- every LOD in use has at least one mesh -/
def usedNonempty (m : AbstractModel) : Bool :=
  (m.lods.take m.lodCount.toNat).all fun l => !l.meshes.isEmpty

/-- re-pad the last mesh of a LOD; `ibase` = index words before the list -/
def padLast : Nat → List AMesh → List AMesh
  | _, [] => []
  | ibase, [x] =>
    [{ x with indexPad :=
        (2 * (ibase + x.indices.length) / 16 + 1) * 8 - (ibase + x.indices.length) }]
  | ibase, x :: y :: rest => x :: padLast (ibase + meshIndexWords x) (y :: rest)

def relayoutPads (m : AbstractModel) : AbstractModel :=
  { m with lods := m.lods.map fun l => { l with meshes := padLast 0 l.meshes } }

/-- the same model in `update_headers`' layout -/
def relayout (m : AbstractModel) : AbstractModel :=
  let m1 := relayoutPads m
  { m1 with lods := (List.zip (List.range m1.lods.length) m1.lods).map fun (i, l) =>
      { l with edgeGeometryDataOffset := (sectionOffset m1 i + lodVertexSize l).toUInt32 } }

end Physis.Spec.Mdl
