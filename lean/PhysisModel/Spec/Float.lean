/-!
What an IEEE-754 binary interchange bit pattern *means* (IEEE 754-2019 §3.4), and what "the
correctly rounded result" means (§4.3.1, roundTiesToEven), stated with exact integer arithmetic.
Independent of `Base/SoftFloat.lean`: no conversion or rounding routine is used here, and this file
imports nothing.

`valHalf`/`valF32`/`FVal.same` are evaluated by the kernel on all 65 536 halves
(`Proofs/SoftFloat.lean`); for that reason only, inside `section NatCore` the operator tokens are
re-bound by local macros to the primitive `Nat` functions which the type-class notation unfolds to
anyway (`a % b` is `Nat.mod a b`, `a == b` is `Nat.beq a b`, …; the kernel has GMP fast paths for
these but spends 10–80 µs per occurrence getting through the instances and through `Decidable`),
and conditions are `Bool`s (`bif`).
-/
namespace Physis.Spec.Float

/-- a floating-point datum: NaN, `±∞`, or the real number `± mant · 2^exp` (zeros keep their sign) -/
inductive FVal where
  | nan
  | inf (neg : Bool)
  | fin (neg : Bool) (mant : Nat) (exp : Int)
  deriving Repr

def FVal.isNaN : FVal → Bool
  | .nan => true
  | _ => false

section NatCore

local macro_rules | `($a + $b) => `(Nat.add $a $b)
local macro_rules | `($a - $b) => `(Nat.sub $a $b)
local macro_rules | `($a * $b) => `(Nat.mul $a $b)
local macro_rules | `($a / $b) => `(Nat.div $a $b)
local macro_rules | `($a % $b) => `(Nat.mod $a $b)
local macro_rules | `($a ^ $b) => `(Nat.pow $a $b)
local macro_rules | `($a == $b) => `(Nat.beq $a $b)

/-! The binary interchange format with `w` exponent bits and `p` trailing significand bits (IEEE-754
§3.4): a bit pattern is `x = S · 2^(w+p) + E · 2^p + T`, the exponent bias is `2^(w-1) - 1`. -/

def fieldT (p x : Nat) : Nat := x % 2 ^ p
def fieldE (w p x : Nat) : Nat := (x / 2 ^ p) % 2 ^ w
def fieldS (w p x : Nat) : Bool := (x / 2 ^ (p + w)) % 2 == 1
def bias (w : Nat) : Nat := 2 ^ (w - 1) - 1

/-- IEEE-754 §3.4:
* `E = 2^w - 1`: `T = 0` is `±∞`, anything else NaN;
* `E = 0`: the subnormal `± T · 2^(1 - (bias + p))`;
* otherwise the normal `± (2^p + T) · 2^(E - (bias + p))`.
(`Int.subNatNat a b` is the integer `a - b` of two naturals.) -/
def valBits (w p : Nat) (x : Nat) : FVal :=
  bif fieldE w p x == 2 ^ w - 1 then
    (bif fieldT p x == 0 then .inf (fieldS w p x) else .nan)
  else bif fieldE w p x == 0 then
    .fin (fieldS w p x) (fieldT p x) (Int.subNatNat 1 (bias w + p))
  else
    .fin (fieldS w p x) (2 ^ p + fieldT p x) (Int.subNatNat (fieldE w p x) (bias w + p))

/-- the same datum: both NaN, the same infinity, or the same sign and `m · 2^e = n · 2^f`, compared
after aligning both to the smaller exponent (`Int.toNat` of a negative number is `0`, so only the
side with the larger exponent is scaled); `+0` and `-0` are different. -/
def FVal.same : FVal → FVal → Bool
  | .nan, .nan => true
  | .inf a, .inf b => !(xor a b)
  | .fin s m e, .fin t n f =>
    !(xor s t) && m * 2 ^ (Int.toNat (Int.sub e f)) == n * 2 ^ (Int.toNat (Int.sub f e))
  | _, _ => false

end NatCore

/-- binary16: 5 exponent bits, 10 significand bits, bias 15 -/
def valHalf (h : UInt16) : FVal := valBits 5 10 h.toNat
/-- binary32: 8 exponent bits, 23 significand bits, bias 127 -/
def valF32 (x : UInt32) : FVal := valBits 8 23 x.toNat

/-- A binary32 datum as a signed multiple of `2^-149` (every finite binary32 is one).  An infinity
counts as `± 2^128`, the value the next binade would start with: IEEE-754 §4.3.1 rounds as if the
exponent range were unbounded and overflows exactly when that result reaches `2^128`. -/
def units32 : FVal → Option Int
  | .nan => none
  | .inf neg => some (if neg then -(2 ^ (128 + 149) : Int) else 2 ^ (128 + 149))
  | .fin neg m e =>
    let u : Int := (m * 2 ^ (e + 149).toNat : Nat)
    some (if neg then -u else u)

/-- the two bit patterns next to a finite `r` in value order (`±0` counts as one point) -/
def neighbours32 (r : UInt32) : UInt32 × UInt32 :=
  if r &&& 0x7FFFFFFF == 0 then (0x80000001, 0x00000001) else (r - 1, r + 1)

/-- `r` is a correctly rounded (roundTiesToEven) binary32 for the rational `num / den`, `den > 0`:
`r` is finite and at least as close to `num / den` as both of its neighbours, and where a neighbour
is exactly as close, `r` is the one with the even significand.
`|r - num/den| ≤ |r' - num/den|` is compared as `|U r · den - num · 2^149| ≤ |U r' · den - num · 2^149|`
with `U = units32` (both sides multiplied by `den · 2^149`). -/
def isNearestF32 (r : UInt32) (num den : Nat) : Bool :=
  match valF32 r with
  | .fin .. =>
    let t : Int := (num * 2 ^ 149 : Nat)
    let dist (x : UInt32) : Option Nat :=
      (units32 (valF32 x)).map fun u => (u * (den : Int) - t).natAbs
    let even := r &&& 1 == 0
    let nb := neighbours32 r
    match dist r, dist nb.1, dist nb.2 with
    | some d, some dl, some dh =>
      den != 0 && (d < dl || (d == dl && even)) && (d < dh || (d == dh && even))
    | _, _, _ => false
  | _ => false

end Physis.Spec.Float
