import PhysisModel.Base.ReaderC16
/-!
Terrain (`bg/.../terrain.tera`) layout and meaning: a 20-byte header (version, plate count, plate
size, clip distance, one unknown float), 32 reserved bytes, then one `(x, y)` pair of i16 per plate.
Plate `i` lies at `plate_size · (x + ½, y + ½)` and its model file is `%04d.mdl` of its index.
f32 values are u32 bit patterns; i16 values are u16 bit patterns.
-/
namespace Physis.Spec.Tera

structure File where
  version : UInt32
  plateSize : UInt32
  clip : UInt32
  unknown : UInt32
  positions : List (UInt16 × UInt16)

/-- what `Terrain::from_existing` returns per plate -/
structure Plate where
  x : UInt32
  y : UInt32
  filename : Bytes
  deriving DecidableEq, Repr

def encodePos (p : UInt16 × UInt16) : Bytes := putU16le p.1 ++ putU16le p.2

def encode (f : File) : Bytes :=
  putU32le f.version ++ (putU32le (UInt32.ofNat f.positions.length) ++ (putU32le f.plateSize ++
    (putU32le f.clip ++ (putU32le f.unknown ++ (List.replicate 32 0 ++ f.positions.flatMap encodePos)))))

def WF (f : File) : Prop := f.positions.length < 2 ^ 32
instance (f : File) : Decidable (WF f) := by unfold WF; infer_instance

def signBitN (neg : Bool) : Nat := if neg then 2 ^ 31 else 0

/-- the binary32 bit pattern (as a number below 2^32) of `(-1)^neg · m · 2^e` when that number is a
*normal, exactly representable* binary32 value (or zero); `none` otherwise -/
def exactF32N (neg : Bool) (m : Nat) (e : Int) : Option Nat :=
  if m == 0 then some (signBitN neg) else
  let l := Nat.log2 m
  let ex : Int := l + e + 127
  if ex < 1 ∨ ex > 254 then none
  else if l ≤ 23 then some (signBitN neg + ex.toNat * 2 ^ 23 + (m * 2 ^ (23 - l) - 2 ^ 23))
  else if m % 2 ^ (l - 23) != 0 then none
  else some (signBitN neg + ex.toNat * 2 ^ 23 + (m / 2 ^ (l - 23) - 2 ^ 23))

/-- value of an i16 given by its u16 bit pattern -/
def i16Val (c : Nat) : Int := if c < 32768 then (c : Int) else (c : Int) - 65536

/-- centre coordinate of a plate: `plate_size · (c + ½) = plate_size · (2c + 1) / 2` -/
def positionN (plateSize : Nat) (c : Nat) : Option Nat :=
  let k : Int := 2 * i16Val c + 1
  exactF32N (decide (k < 0)) (plateSize * k.natAbs) (-1)

def position (plateSize : UInt32) (c : UInt16) : Option UInt32 :=
  (positionN plateSize.toNat c.toNat).map UInt32.ofNat

/-- binary32 bit pattern of a non-zero integer of magnitude below 2^24 (exact) -/
def f32OfIntN (n : Int) : Nat :=
  if n == 0 then 0 else
  let m := n.natAbs
  let l := Nat.log2 m
  signBitN (decide (n < 0)) + (l + 127) * 2 ^ 23 + (m * 2 ^ (23 - l) - 2 ^ 23)

/-- the 128-unit grid: plate coordinate `c` has its centre at `128 c + 64` -/
def gridPosN (c : Nat) : Nat := f32OfIntN (128 * i16Val c + 64)

def gridPos (c : UInt16) : UInt32 := UInt32.ofNat (gridPosN c.toNat)

def plateName (i : Nat) : Bytes := fmtDec04 i ++ [0x2e, 0x6d, 0x64, 0x6c]

def gridPlatesFrom (i : Nat) : List (UInt16 × UInt16) → List Plate
  | [] => []
  | p :: ps => ⟨gridPos p.1, gridPos p.2, plateName i⟩ :: gridPlatesFrom (i + 1) ps

/-- the terrain whose plates sit at the given grid coordinates -/
def gridPlates (ps : List (UInt16 × UInt16)) : List Plate := gridPlatesFrom 0 ps

/-- expected plates of an arbitrary file (plate sizes other than 128 included), defined when every
centre is exactly representable -/
def platesFrom (plateSize : UInt32) (i : Nat) : List (UInt16 × UInt16) → Option (List Plate)
  | [] => some []
  | p :: ps => do
    let x ← position plateSize p.1
    let y ← position plateSize p.2
    let rest ← platesFrom plateSize (i + 1) ps
    pure (⟨x, y, plateName i⟩ :: rest)

def plates (f : File) : Option (List Plate) := platesFrom f.plateSize 0 f.positions

end Physis.Spec.Tera
