import PhysisModel.Base.ReaderC16
/-!
Terrain (`bg/.../terrain.tera`) layout and meaning: a 20-byte header (version, plate count, plate
size, clip distance, one unknown float), 32 reserved bytes, then one `(x, y)` pair of i16 per plate.
Plate `i` lies at `plate_size · (x + ½, y + ½)` and its model file is `%04d.mdl` of its index.
f32 values are u32 bit patterns; i16 values are u16 bit patterns.
-/
namespace Physis.Spec.Tera

structure File where
  version : UInt32
  plateSize : UInt32
  clip : UInt32
  unknown : UInt32
  positions : List (UInt16 × UInt16)

/-- what `Terrain::from_existing` returns per plate -/
structure Plate where
  x : UInt32
  y : UInt32
  filename : Bytes
  deriving DecidableEq, Repr

def encodePos (p : UInt16 × UInt16) : Bytes := putU16le p.1 ++ putU16le p.2

def encode (f : File) : Bytes :=
  putU32le f.version ++ (putU32le (UInt32.ofNat f.positions.length) ++ (putU32le f.plateSize ++
    (putU32le f.clip ++ (putU32le f.unknown ++ (List.replicate 32 0 ++ f.positions.flatMap encodePos)))))

def WF (f : File) : Prop := f.positions.length < 2 ^ 32
instance (f : File) : Decidable (WF f) := by unfold WF; infer_instance

def signBitN (neg : Bool) : Nat := if neg then 2 ^ 31 else 0

/-- the binary32 bit pattern (as a number below 2^32) of `(-1)^neg · m · 2^e` when that number is a
*normal, exactly representable* binary32 value (or zero); `none` otherwise -/
def exactF32N (neg : Bool) (m : Nat) (e : Int) : Option Nat :=
  if m == 0 then some (signBitN neg) else
  let l := Nat.log2 m
  let ex : Int := l + e + 127
  if ex < 1 ∨ ex > 254 then none
  else if l ≤ 23 then some (signBitN neg + ex.toNat * 2 ^ 23 + (m * 2 ^ (23 - l) - 2 ^ 23))
  else if m % 2 ^ (l - 23) != 0 then none
  else some (signBitN neg + ex.toNat * 2 ^ 23 + (m / 2 ^ (l - 23) - 2 ^ 23))

/-- value of an i16 given by its u16 bit pattern -/
def i16Val (c : Nat) : Int := if c < 32768 then (c : Int) else (c : Int) - 65536

/-- centre coordinate of a plate: `plate_size · (c + ½) = plate_size · (2c + 1) / 2` -/
def positionN (plateSize : Nat) (c : Nat) : Option Nat :=
  let k : Int := 2 * i16Val c + 1
  exactF32N (decide (k < 0)) (plateSize * k.natAbs) (-1)

def position (plateSize : UInt32) (c : UInt16) : Option UInt32 :=
  (positionN plateSize.toNat c.toNat).map UInt32.ofNat

/-! The 128-unit grid, in fixed-width arithmetic (so that facts about all 65 536 coordinates can be
decided by bit-blasting): plate coordinate `c` (i16) has its centre at the integer `128 c + 64`, whose
magnitude is between 64 and 2^22 + 64 and therefore exactly representable. -/

/-- index of the most significant set bit of a 32-bit number -/
def msb4 (x : UInt32) : UInt32 := if x >>> 16 ≠ 0 then 16 else 0
def msb3 (x : UInt32) : UInt32 := msb4 x + (if x >>> (msb4 x + 8) ≠ 0 then 8 else 0)
def msb2 (x : UInt32) : UInt32 := msb3 x + (if x >>> (msb3 x + 4) ≠ 0 then 4 else 0)
def msb1 (x : UInt32) : UInt32 := msb2 x + (if x >>> (msb2 x + 2) ≠ 0 then 2 else 0)
def msb (x : UInt32) : UInt32 := msb1 x + (if x >>> (msb1 x + 1) ≠ 0 then 1 else 0)

def mag32 (n : UInt32) : UInt32 := if n ≥ 0x80000000 then 0 - n else n

/-- binary32 bit pattern of a non-zero two's complement integer `n` of magnitude below 2^24 (such an
integer is exactly representable): sign, exponent field `127 + ⌊log2 |n|⌋`, and the magnitude shifted so
that its leading bit lands on (and is dropped as) the implicit bit -/
def f32OfInt32 (n : UInt32) : UInt32 :=
  (if n ≥ 0x80000000 then (0x80000000 : UInt32) else 0) |||
  ((msb (mag32 n) + 127) <<< 23) |||
  ((mag32 n <<< (23 - msb (mag32 n))) &&& 0x7FFFFF)

/-- sign extension of an i16 bit pattern -/
def sext16 (c : UInt16) : UInt32 := if c ≥ 0x8000 then c.toUInt32 ||| 0xFFFF0000 else c.toUInt32

/-- `128 c + 64` as a two's complement 32-bit number -/
def gridInt (c : UInt16) : UInt32 := 128 * sext16 c + 64

def gridPos (c : UInt16) : UInt32 := f32OfInt32 (gridInt c)

def plateName (i : Nat) : Bytes := fmtDec04 i ++ [0x2e, 0x6d, 0x64, 0x6c]

def gridPlatesFrom (i : Nat) : List (UInt16 × UInt16) → List Plate
  | [] => []
  | p :: ps => ⟨gridPos p.1, gridPos p.2, plateName i⟩ :: gridPlatesFrom (i + 1) ps

/-- the terrain whose plates sit at the given grid coordinates -/
def gridPlates (ps : List (UInt16 × UInt16)) : List Plate := gridPlatesFrom 0 ps

/-- expected plates of an arbitrary file (plate sizes other than 128 included), defined when every
centre is exactly representable -/
def platesFrom (plateSize : UInt32) (i : Nat) : List (UInt16 × UInt16) → Option (List Plate)
  | [] => some []
  | p :: ps => do
    let x ← position plateSize p.1
    let y ← position plateSize p.2
    let rest ← platesFrom plateSize (i + 1) ps
    pure (⟨x, y, plateName i⟩ :: rest)

def plates (f : File) : Option (List Plate) := platesFrom f.plateSize 0 f.positions

end Physis.Spec.Tera
