import PhysisModel.Base.Bytes
/-!
The bitwise, reflected CRC-32 (polynomial 0xEDB88320) as every textbook states it — no tables.
`crcBitwise init xorout s`: JAMCRC is `init = 0xFFFFFFFF, xorout = 0`; the usual CRC-32
(zlib, PNG) is `init = xorout = 0xFFFFFFFF`.
-/
namespace Physis.Spec.Crc32

def poly : UInt32 := 0xEDB88320

def bitStep (c : UInt32) : UInt32 :=
  if (c &&& 1) == 1 then (c >>> 1) ^^^ poly else c >>> 1

def byteStep (c : UInt32) (b : UInt8) : UInt32 :=
  let c := c ^^^ b.toUInt32
  bitStep (bitStep (bitStep (bitStep (bitStep (bitStep (bitStep (bitStep c)))))))

def crcBitwise (init xorout : UInt32) (s : Bytes) : UInt32 :=
  (s.foldl byteStep init) ^^^ xorout

/-- zlib's documented `crc32(crc, buf)`: continue a standard CRC-32 whose running value is `crc`. -/
def zlibCrc32 (crc : UInt32) (s : Bytes) : UInt32 :=
  ~~~(s.foldl byteStep (~~~crc))

end Physis.Spec.Crc32
