import PhysisModel.Base.Bytes
/-!
The FIIN ("FileInfo") table format, as a byte layout — independent of how Physis reads or writes it.

```
0x000  "FileInfo"                  8 bytes
0x008  zero                        16 bytes
0x018  1024            i32 LE      (header size)
0x01C  96 · n          i32 LE      (size of the entry area)
0x020  zero                        992 bytes
0x400  n records of 96 bytes:
         +0   file size            i32 LE
         +4   zero                 4 bytes
         +8   file name            64 bytes, NUL padded
         +72  SHA-1 digest         20 bytes + 4 zero bytes
```
-/
namespace Physis.Spec.Fiin

/-- `FIINEntry`; `fileSize` holds the bit pattern of the Rust `i32` -/
structure Entry where
  fileSize : UInt32
  fileName : Bytes
  sha1 : Bytes
deriving DecidableEq, Repr

def zeros (n : Nat) : Bytes := List.replicate n 0

/-- `b` followed by zero bytes up to `n` bytes (longer strings are not cut) -/
def padTo (n : Nat) (b : Bytes) : Bytes := b ++ zeros (n - b.length)

def magic : Bytes := [0x46, 0x69, 0x6c, 0x65, 0x49, 0x6e, 0x66, 0x6f]  -- "FileInfo"

def encodeEntry (e : Entry) : Bytes :=
  putU32le e.fileSize ++ (zeros 4 ++ (padTo 64 e.fileName ++ padTo 24 e.sha1))

def encode (es : List Entry) : Bytes :=
  magic ++ (zeros 16 ++ (putU32le 1024 ++ (putU32le (UInt32.ofNat (es.length * 96)) ++
    (zeros 992 ++ (es.map encodeEntry).flatten))))

/-! ### UTF-8 (RFC 3629 / Unicode Table 3-7) as a byte automaton -/

inductive U8State
  | start   -- between characters
  | c1      -- one continuation byte missing
  | c2      -- two continuation bytes missing
  | c3      -- three
  | e0      -- after E0: next in A0..BF, then one more
  | ed      -- after ED: next in 80..9F, then one more
  | f0      -- after F0: next in 90..BF, then two more
  | f4      -- after F4: next in 80..8F, then two more
deriving DecidableEq

def isCont (b : UInt8) : Bool := 0x80 ≤ b && b ≤ 0xBF

def utf8Step (s : U8State) (b : UInt8) : Option U8State :=
  match s with
  | .start =>
    if b < 0x80 then some .start
    else if 0xC2 ≤ b && b ≤ 0xDF then some .c1
    else if b == 0xE0 then some .e0
    else if (0xE1 ≤ b && b ≤ 0xEC) || b == 0xEE || b == 0xEF then some .c2
    else if b == 0xED then some .ed
    else if b == 0xF0 then some .f0
    else if 0xF1 ≤ b && b ≤ 0xF3 then some .c3
    else if b == 0xF4 then some .f4
    else none
  | .c1 => if isCont b then some .start else none
  | .c2 => if isCont b then some .c1 else none
  | .c3 => if isCont b then some .c2 else none
  | .e0 => if 0xA0 ≤ b && b ≤ 0xBF then some .c1 else none
  | .ed => if 0x80 ≤ b && b ≤ 0x9F then some .c1 else none
  | .f0 => if 0x90 ≤ b && b ≤ 0xBF then some .c2 else none
  | .f4 => if 0x80 ≤ b && b ≤ 0x8F then some .c2 else none

def utf8Run : U8State → Bytes → Option U8State
  | s, [] => some s
  | s, b :: bs => match utf8Step s b with
    | some s' => utf8Run s' bs
    | none => none

/-- the byte string is well-formed UTF-8 (what `String::from_utf8` accepts) -/
def utf8Valid (bs : Bytes) : Bool := utf8Run .start bs == some .start

/-! ### well-formed entries -/

/-- the entry can be stored in a 96-byte record and read back: the name is a Rust `String`
(well-formed UTF-8) of at most 64 bytes that neither starts nor ends with NUL (NULs are the
padding), the digest has at most 24 bytes. -/
def WFEntry (e : Entry) : Bool :=
  e.fileName.length ≤ 64 && utf8Valid e.fileName &&
  e.fileName.head? != some 0 && e.fileName.getLast? != some 0 &&
  e.sha1.length ≤ 24

/-- a table whose entry area size fits the `i32` header field -/
def WF (es : List Entry) : Bool := es.length * 96 < 2 ^ 31 && es.all WFEntry

/-- what a record holds after a trip through the file: the digest field is always 24 bytes -/
def normEntry (e : Entry) : Entry := { e with sha1 := padTo 24 e.sha1 }

/-! ### `FileInfo::new`: what the table of a set of files must contain -/

/-- the bytes after the last `/` (the whole path if there is none) -/
def baseNameGo : Bytes → Bytes → Bytes
  | [], acc => acc.reverse
  | c :: rest, acc => if c = 0x2f then baseNameGo rest [] else baseNameGo rest (c :: acc)

def baseName (path : Bytes) : Bytes := baseNameGo path []

/-- the path names a file: its last component is not empty, `.` or `..` -/
def WFPath (path : Bytes) : Bool :=
  let b := baseName path
  b != [] && b != [0x2e] && b != [0x2e, 0x2e]

end Physis.Spec.Fiin
