import PhysisModel.Base.MdlTypes
import PhysisModel.Base.SoftFloat
/-!
# The MDL format as a definition (C06 / C07)

* `enc…` — the on-disk layout of every record of the format, field by field, little endian
  (version-dependent fields are emitted **only** for their version).
* `AbstractModel` — what a model *is* for the purposes of C06: per-LOD meshes with a vertex
  declaration, raw vertex streams, an index list, sub-mesh ranges; name lists; the auxiliary
  tables.  `encodeMdl` lays such a model out as a file (header, runtime block, per-LOD vertex and
  index sections) — this is the encoder whose output is fed to the real `MDL::from_existing`.
* `view` — what the property says the reader must report: vertices decoded from the element's
  stream / offset / stride / numeric type with the standard meaning of the type (`stdDecode`),
  indices, sub-mesh ranges, raw streams, names.

This file does not import any model of the code.
-/
namespace Physis.Spec.Mdl
open Physis Physis.Mdl Physis.SoftFloat

/-! ## record encoders -/

def zeros (n : Nat) : Bytes := List.replicate n 0
def putBool (b : Bool) : Bytes := [if b then 1 else 0]
def putArr3U32 (x : Arr3 UInt32) : Bytes := putU32le x.a ++ (putU32le x.b ++ putU32le x.c)
def putArr3U16 (x : Arr3 UInt16) : Bytes := putU16le x.a ++ (putU16le x.b ++ putU16le x.c)

def encFileHeader (h : FileHeader) : Bytes :=
  putU32le h.version ++ (putU32le h.stackSize ++ (putU32le h.runtimeSize ++
  (putU16le h.vertexDeclarationCount ++ (putU16le h.materialCount ++
  (putArr3U32 h.vertexOffsets ++ (putArr3U32 h.indexOffsets ++
  (putArr3U32 h.vertexBufferSize ++ (putArr3U32 h.indexBufferSize ++
  ([h.lodCount] ++ (putBool h.indexBufferStreamingEnabled ++
  (putBool h.hasEdgeGeometry ++ [0])))))))))))

def encElement (e : VertexElement) : Bytes :=
  [e.stream, e.offset, e.vertexType, e.vertexUsage, e.usageIndex, 0, 0, 0]

/-- the terminating slot: stream 0xFF, everything else zero -/
def endMarker : Bytes := [0xFF, 0, 0, 0, 0, 0, 0, 0]

/-- one 17-slot declaration block (136 bytes for 1..16 elements) -/
def encDecl (d : List VertexElement) : Bytes :=
  d.flatMap encElement ++ (endMarker ++ zeros ((16 - d.length) * 8))

def encModelHeader (h : ModelHeader) : Bytes :=
  putU16le h.stringCount ++ ([0, 0] ++ (putU32le h.stringSize ++ (h.strings ++
  (putU32le h.radius ++
  (putU16le h.meshCount ++ (putU16le h.attributeCount ++ (putU16le h.submeshCount ++
  (putU16le h.materialCount ++ (putU16le h.boneCount ++ (putU16le h.boneTableCount ++
  (putU16le h.shapeCount ++ (putU16le h.shapeMeshCount ++ (putU16le h.shapeValueCount ++
  ([h.lodCount] ++ ([h.flags1] ++ (putU16le h.elementIdCount ++
  ([h.terrainShadowMeshCount] ++ ([h.flags2] ++
  (putU32le h.modelClipOutOfDistance ++ (putU32le h.shadowClipOutOfDistance ++
  (putU16le h.unknown4 ++ (putU16le h.terrainShadowSubmeshCount ++
  ([h.unknown5] ++ ([h.bgChangeMaterialIndex] ++ ([h.bgCrestChangeMaterialIndex] ++
  ([h.unknown6] ++ (putU16le h.unknown7 ++ (putU16le h.unknown8 ++ (putU16le h.unknown9 ++
  zeros 6)))))))))))))))))))))))))))))

def encMeshLod (l : MeshLod) : Bytes :=
  putU16le l.meshIndex ++ (putU16le l.meshCount ++ (l.mid ++
  (putU32le l.edgeGeometryDataOffset ++ (putU32le l.polygonCount ++ (zeros 4 ++
  (putU32le l.vertexBufferSize ++ (putU32le l.indexBufferSize ++
  (putU32le l.vertexDataOffset ++ putU32le l.indexDataOffset))))))))

def encMesh (m : Mesh) : Bytes :=
  putU16le m.vertexCount ++ ([0, 0] ++ (putU32le m.indexCount ++ (putU16le m.materialIndex ++
  (putU16le m.submeshIndex ++ (putU16le m.submeshCount ++ (putU16le m.boneTableIndex ++
  (putU32le m.startIndex ++ (putArr3U32 m.vertexBufferOffsets ++
  ([m.vertexBufferStrides.a, m.vertexBufferStrides.b, m.vertexBufferStrides.c] ++
  [m.vertexStreamCount])))))))))

def encSubmesh (s : Submesh) : Bytes :=
  putU32le s.indexOffset ++ (putU32le s.indexCount ++ (putU32le s.attributeIndexMask ++
  (putU16le s.boneStartIndex ++ putU16le s.boneCount)))

def encBoneTable (t : BoneTable) : Bytes :=
  t.boneIndices.flatMap putU16le ++ ([t.boneCount] ++ zeros 3)

def encBoneTableV2 (t : BoneTableV2) : Bytes :=
  [0, 0] ++ (putU16le t.boneCount ++ (t.boneIndices.flatMap putU16le ++
  (if t.boneCount % 2 == 0 then putU16le t.padding else [])))

def encShape (s : ShapeStruct) : Bytes :=
  putU32le s.stringOffset ++ (putArr3U16 s.shapeMeshStartIndex ++ putArr3U16 s.shapeMeshCount)

def encShapeMesh (s : ShapeMesh) : Bytes :=
  putU32le s.meshIndexOffset ++ (putU32le s.shapeValueCount ++ putU32le s.shapeValueOffset)

def encShapeValue (s : ShapeValue) : Bytes :=
  putU16le s.baseIndicesIndex ++ putU16le s.replacingVertexIndex

def isV5 (version : UInt32) : Bool := version ≤ 0x1000005
def isV6 (version : UInt32) : Bool := version ≥ 0x1000006

/-- the runtime part of the file: declarations, `ModelHeader`, all tables -/
def encModelData (version : UInt32) (d : ModelData) : Bytes :=
  d.decls.flatMap encDecl ++ (encModelHeader d.header ++ (d.elementIds.flatten ++
  (d.lods.flatMap encMeshLod ++ (d.meshes.flatMap encMesh ++
  (d.attributeNameOffsets.flatMap putU32le ++ (d.terrainShadowMeshes.flatten ++
  (d.submeshes.flatMap encSubmesh ++ (d.terrainShadowSubmeshes.flatten ++
  (d.materialNameOffsets.flatMap putU32le ++ (d.boneNameOffsets.flatMap putU32le ++
  ((if isV5 version then d.boneTables.flatMap encBoneTable else []) ++
  ((if isV6 version then d.boneTablesV2.flatMap encBoneTableV2 else []) ++
  (d.shapes.flatMap encShape ++ (d.shapeMeshes.flatMap encShapeMesh ++
  (d.shapeValues.flatMap encShapeValue ++
  ((if isV5 version then putU32le d.submeshBoneMapSize else []) ++
  ((if isV6 version then putU16le d.submeshBoneMapSizeV2 else []) ++
  (d.submeshBoneMap.flatMap putU16le ++ ([d.paddingAmount] ++ (d.unknownPadding ++
  (d.boundingBoxes ++ d.boneBoundingBoxes.flatten)))))))))))))))))))))

/-! ## abstract models -/

structure AStream where
  stride : UInt8
  data : Bytes            -- vertexCount × stride bytes
deriving DecidableEq, Repr, Inhabited

structure AMesh where
  decl : List VertexElement
  vertexCount : UInt16
  streams : List AStream  -- 1..3
  indices : List UInt16
  indexPad : Nat          -- zero u16 words following this mesh's indices in the index section
  materialIndex : UInt16
  boneTableIndex : UInt16
  submeshes : List Submesh
deriving DecidableEq, Repr, Inhabited

structure ALod where
  meshes : List AMesh
  mid : Bytes             -- 28 bytes (ranges, water / shadow / fog mesh ranges, edge geometry size)
  edgeGeometryDataOffset : UInt32
  polygonCount : UInt32
deriving DecidableEq, Repr, Inhabited

structure AShape where
  name : Bytes
  shapeMeshStartIndex : Arr3 UInt16
  shapeMeshCount : Arr3 UInt16
deriving DecidableEq, Repr, Inhabited

/-- scalar fields of `ModelHeader` that are not derived from the tables -/
structure AHeaderMisc where
  radius : UInt32
  flags1 : UInt8
  flags2 : UInt8
  modelClipOutOfDistance : UInt32
  shadowClipOutOfDistance : UInt32
  unknown4 : UInt16
  unknown5 : UInt8
  bgChangeMaterialIndex : UInt8
  bgCrestChangeMaterialIndex : UInt8
  unknown6 : UInt8
  unknown7 : UInt16
  unknown8 : UInt16
  unknown9 : UInt16
deriving DecidableEq, Repr, Inhabited

structure AbstractModel where
  version : UInt32
  fileMaterialCount : UInt16
  indexBufferStreamingEnabled : Bool
  hasEdgeGeometry : Bool
  lodCount : UInt8                      -- number of LODs in use (1..3)
  lods : List ALod                      -- exactly 3 (unused ones have no meshes)
  misc : AHeaderMisc
  attributes : List Bytes               -- names (NUL-free)
  bones : List Bytes
  materials : List Bytes
  shapes : List AShape
  shapeMeshes : List ShapeMesh
  shapeValues : List ShapeValue
  elementIds : List Bytes
  terrainShadowMeshes : List Bytes
  terrainShadowSubmeshes : List Bytes
  boneTables : List BoneTable           -- version ≤ 5
  boneTablesV2 : List BoneTableV2       -- version ≥ 6
  submeshBoneMap : List UInt16
  padding : Bytes
  boundingBoxes : Bytes                 -- 128 bytes
  boneBoundingBoxes : List Bytes        -- one per bone, 32 bytes each
deriving DecidableEq, Repr, Inhabited

/-! ### layout -/

def cstr (s : Bytes) : Bytes := s ++ [0]

/-- offsets of consecutive NUL-terminated strings starting at `base` -/
def nameOffsets : Nat → List Bytes → List Nat
  | _, [] => []
  | base, s :: rest => base :: nameOffsets (base + s.length + 1) rest

def namesSize (l : List Bytes) : Nat := (l.map (fun s => s.length + 1)).sum

/-- the string table: attribute, bone, material, shape names, each NUL-terminated -/
def allNames (m : AbstractModel) : List Bytes :=
  m.attributes ++ (m.bones ++ (m.materials ++ m.shapes.map (·.name)))

def stringTable (m : AbstractModel) : Bytes := (allNames m).flatMap cstr

def attrBase (_m : AbstractModel) : Nat := 0
def boneBase (m : AbstractModel) : Nat := namesSize m.attributes
def materialBase (m : AbstractModel) : Nat := boneBase m + namesSize m.bones
def shapeBase (m : AbstractModel) : Nat := materialBase m + namesSize m.materials

def allMeshes (m : AbstractModel) : List AMesh := m.lods.flatMap (·.meshes)

def streamSize (m : AMesh) : Nat := (m.streams.map (·.data.length)).sum
def lodVertexSize (l : ALod) : Nat := (l.meshes.map streamSize).sum
def meshIndexWords (m : AMesh) : Nat := m.indices.length + m.indexPad
def lodIndexSize (l : ALod) : Nat := 2 * (l.meshes.map meshIndexWords).sum

/-- running offsets of the streams of one mesh inside the LOD's vertex section -/
def streamOffsets : Nat → List AStream → List Nat
  | _, [] => []
  | base, s :: rest => base :: streamOffsets (base + s.data.length) rest

/-- mesh table rows of one LOD: `vbase` = running vertex offset, `ibase` = running start index,
`sbase` = running sub-mesh index -/
def meshRows : Nat → Nat → Nat → List AMesh → List Mesh
  | _, _, _, [] => []
  | vbase, ibase, sbase, m :: rest =>
    { vertexCount := m.vertexCount
      indexCount := m.indices.length.toUInt32
      materialIndex := m.materialIndex
      submeshIndex := sbase.toUInt16
      submeshCount := m.submeshes.length.toUInt16
      boneTableIndex := m.boneTableIndex
      startIndex := ibase.toUInt32
      vertexBufferOffsets := Arr3.ofList 0 ((streamOffsets vbase m.streams).map Nat.toUInt32)
      vertexBufferStrides := Arr3.ofList 0 (m.streams.map (·.stride))
      vertexStreamCount := m.streams.length.toUInt8 } ::
    meshRows (vbase + streamSize m) (ibase + meshIndexWords m) (sbase + m.submeshes.length) rest

/-- all mesh rows: LOD after LOD; the sub-mesh index runs over the whole model -/
def allMeshRows : Nat → List ALod → List Mesh
  | _, [] => []
  | sbase, l :: rest =>
    meshRows 0 0 sbase l.meshes ++
      allMeshRows (sbase + (l.meshes.map (fun (x : AMesh) => x.submeshes.length)).sum) rest

/-- `MeshLod` rows; `mbase` = running mesh index, `off` = running file offset of the sections -/
def lodRows : Nat → Nat → List ALod → List MeshLod
  | _, _, [] => []
  | mbase, off, l :: rest =>
    { meshIndex := mbase.toUInt16
      meshCount := l.meshes.length.toUInt16
      mid := l.mid
      edgeGeometryDataOffset := l.edgeGeometryDataOffset
      polygonCount := l.polygonCount
      vertexBufferSize := (lodVertexSize l).toUInt32
      indexBufferSize := (lodIndexSize l).toUInt32
      vertexDataOffset := off.toUInt32
      indexDataOffset := (off + lodVertexSize l).toUInt32 } ::
    lodRows (mbase + l.meshes.length) (off + lodVertexSize l + lodIndexSize l) rest

def shapeRows (m : AbstractModel) : List ShapeStruct :=
  (List.zip (nameOffsets (shapeBase m) (m.shapes.map (·.name))) m.shapes).map fun (o, s) =>
    { stringOffset := o.toUInt32, shapeMeshStartIndex := s.shapeMeshStartIndex,
      shapeMeshCount := s.shapeMeshCount }

/-- the runtime tables of `m` when the vertex / index sections start at file offset `dataStart` -/
def modelDataAt (m : AbstractModel) (dataStart : Nat) : ModelData :=
  let meshes : List AMesh := allMeshes m
  { decls := meshes.map (fun (x : AMesh) => x.decl)
    header :=
      { stringCount := (allNames m).length.toUInt16
        stringSize := (stringTable m).length.toUInt32
        strings := stringTable m
        radius := m.misc.radius
        meshCount := meshes.length.toUInt16
        attributeCount := m.attributes.length.toUInt16
        submeshCount := (meshes.map (fun (x : AMesh) => x.submeshes.length)).sum.toUInt16
        materialCount := m.materials.length.toUInt16
        boneCount := m.bones.length.toUInt16
        boneTableCount := (if isV5 m.version then m.boneTables.length else m.boneTablesV2.length).toUInt16
        shapeCount := m.shapes.length.toUInt16
        shapeMeshCount := m.shapeMeshes.length.toUInt16
        shapeValueCount := m.shapeValues.length.toUInt16
        lodCount := m.lodCount
        flags1 := m.misc.flags1
        elementIdCount := m.elementIds.length.toUInt16
        terrainShadowMeshCount := m.terrainShadowMeshes.length.toUInt8
        flags2 := m.misc.flags2
        modelClipOutOfDistance := m.misc.modelClipOutOfDistance
        shadowClipOutOfDistance := m.misc.shadowClipOutOfDistance
        unknown4 := m.misc.unknown4
        terrainShadowSubmeshCount := m.terrainShadowSubmeshes.length.toUInt16
        unknown5 := m.misc.unknown5
        bgChangeMaterialIndex := m.misc.bgChangeMaterialIndex
        bgCrestChangeMaterialIndex := m.misc.bgCrestChangeMaterialIndex
        unknown6 := m.misc.unknown6
        unknown7 := m.misc.unknown7
        unknown8 := m.misc.unknown8
        unknown9 := m.misc.unknown9 }
    elementIds := m.elementIds
    lods := lodRows 0 dataStart m.lods
    meshes := allMeshRows 0 m.lods
    attributeNameOffsets := (nameOffsets (attrBase m) m.attributes).map Nat.toUInt32
    terrainShadowMeshes := m.terrainShadowMeshes
    submeshes := meshes.flatMap (fun (x : AMesh) => x.submeshes)
    terrainShadowSubmeshes := m.terrainShadowSubmeshes
    materialNameOffsets := (nameOffsets (materialBase m) m.materials).map Nat.toUInt32
    boneNameOffsets := (nameOffsets (boneBase m) m.bones).map Nat.toUInt32
    boneTables := if isV5 m.version then m.boneTables else []
    boneTablesV2 := if isV6 m.version then m.boneTablesV2 else []
    shapes := shapeRows m
    shapeMeshes := m.shapeMeshes
    shapeValues := m.shapeValues
    submeshBoneMapSize := if isV5 m.version then (2 * m.submeshBoneMap.length).toUInt32 else 0
    submeshBoneMapSizeV2 := if isV6 m.version then (2 * m.submeshBoneMap.length).toUInt16 else 0
    submeshBoneMap := m.submeshBoneMap
    paddingAmount := m.padding.length.toUInt8
    unknownPadding := m.padding
    boundingBoxes := m.boundingBoxes
    boneBoundingBoxes := m.boneBoundingBoxes }

/-- size of the runtime part (independent of the section offsets) -/
def runtimeBlockSize (m : AbstractModel) : Nat := (encModelData m.version (modelDataAt m 0)).length

def dataStart (m : AbstractModel) : Nat := 0x44 + runtimeBlockSize m

def modelData (m : AbstractModel) : ModelData := modelDataAt m (dataStart m)

def stackSizeOf (m : AbstractModel) : Nat := (allMeshes m).length * 136

def fileHeader (m : AbstractModel) : FileHeader :=
  let rows := (modelData m).lods
  { version := m.version
    stackSize := (stackSizeOf m).toUInt32
    runtimeSize := (runtimeBlockSize m - stackSizeOf m).toUInt32
    vertexDeclarationCount := (allMeshes m).length.toUInt16
    materialCount := m.fileMaterialCount
    vertexOffsets := Arr3.ofList 0 (rows.map (·.vertexDataOffset))
    indexOffsets := Arr3.ofList 0 (rows.map (·.indexDataOffset))
    vertexBufferSize := Arr3.ofList 0 (rows.map (·.vertexBufferSize))
    indexBufferSize := Arr3.ofList 0 (rows.map (·.indexBufferSize))
    lodCount := m.lodCount
    indexBufferStreamingEnabled := m.indexBufferStreamingEnabled
    hasEdgeGeometry := m.hasEdgeGeometry }

def vertexSection (l : ALod) : Bytes := l.meshes.flatMap fun m => m.streams.flatMap (·.data)
def meshIndexBytes (m : AMesh) : Bytes := m.indices.flatMap putU16le ++ zeros (2 * m.indexPad)
def indexSection (l : ALod) : Bytes := l.meshes.flatMap meshIndexBytes
def sections (m : AbstractModel) : Bytes := m.lods.flatMap fun l => vertexSection l ++ indexSection l

/-- **the encoder**: a whole `.mdl` file -/
def encodeMdl (m : AbstractModel) : Bytes :=
  encFileHeader (fileHeader m) ++ (encModelData m.version (modelData m) ++ sections m)

/-! ## what the reader must report -/

/-- size in bytes read for a numeric type by the typed readers -/
def typeSize (t : UInt8) : Nat :=
  if t == VT.single3 then 12 else if t == VT.single4 then 16 else if t == VT.half4 then 8
  else if t == VT.half2 then 4 else if t == VT.byte4 then 4 else if t == VT.byteFloat4 then 4
  else if t == VT.ushort4 then 8 else 0

def f32sOf : Bytes → List UInt32
  | a :: b :: c :: d :: rest =>
    (a.toUInt32 ||| (b.toUInt32 <<< 8) ||| (c.toUInt32 <<< 16) ||| (d.toUInt32 <<< 24)) :: f32sOf rest
  | _ => []

def u16sOf : Bytes → List UInt16
  | a :: b :: rest => (a.toUInt16 ||| (b.toUInt16 <<< 8)) :: u16sOf rest
  | _ => []

/-- signed-normalised byte (`2b/255 − 1`) with the handedness convention for `w`: 255 ↦ 1, else −1 -/
def snormBytes (bs : Bytes) : List UInt32 :=
  (bs.take 3).map readTangentXYZ ++ (bs.drop 3).map readTangentW

/-- the supported `(usage, type)` combinations and what each stores.  `raw` is exactly
`typeSize type` bytes.  Unsupported combinations leave the vertex unchanged here (the reader
rejects them; they are outside the property's quantifier). -/
def stdDecode (usage type : UInt8) (raw : Bytes) (v : Vertex) : Vertex :=
  if usage == VU.position then
    if type == VT.single4 then { v with position := (f32sOf raw).take 3 }
    else if type == VT.half4 then { v with position := ((u16sOf raw).map halfToF32).take 3 }
    else if type == VT.single3 then { v with position := f32sOf raw }
    else v
  else if usage == VU.blendWeights then
    if type == VT.byteFloat4 then { v with boneWeight := raw.map readByteFloat }
    else if type == VT.byte4 then { v with boneWeight := raw.map u8ToF32 }
    else if type == VT.ushort4 then { v with boneWeight := (u16sOf raw).map u16ToF32 }
    else v
  else if usage == VU.blendIndices then
    if type == VT.byte4 then { v with boneId := raw }
    else if type == VT.ushort4 then { v with boneId := (u16sOf raw).map UInt16.toUInt8 }
    else v
  else if usage == VU.normal then
    if type == VT.half4 then { v with normal := ((u16sOf raw).map halfToF32).take 3 }
    else if type == VT.single3 then { v with normal := f32sOf raw }
    else v
  else if usage == VU.uv then
    if type == VT.byteFloat4 then
      { v with uv0 := (raw.map readByteFloat).take 2, uv1 := (raw.map readByteFloat).drop 2 }
    else if type == VT.half4 then
      { v with uv0 := ((u16sOf raw).map halfToF32).take 2, uv1 := ((u16sOf raw).map halfToF32).drop 2 }
    else if type == VT.single4 then
      { v with uv0 := (f32sOf raw).take 2, uv1 := (f32sOf raw).drop 2 }
    else if type == VT.half2 then { v with uv0 := (u16sOf raw).map halfToF32 }
    else v
  else if usage == VU.biTangent then
    if type == VT.byteFloat4 then { v with bitangent := snormBytes raw } else v
  else if usage == VU.color then
    if type == VT.byteFloat4 then { v with color := raw.map readByteFloat } else v
  else v

/-- `(usage, type)` combinations the reader supports (the property's quantifier) -/
def supported (usage type : UInt8) : Bool :=
  (usage == VU.position && (type == VT.single4 || type == VT.half4 || type == VT.single3)) ||
  (usage == VU.blendWeights && (type == VT.byteFloat4 || type == VT.byte4 || type == VT.ushort4)) ||
  (usage == VU.blendIndices && (type == VT.byte4 || type == VT.ushort4)) ||
  (usage == VU.normal && (type == VT.half4 || type == VT.single3)) ||
  (usage == VU.uv && (type == VT.byteFloat4 || type == VT.half4 || type == VT.single4 || type == VT.half2)) ||
  (usage == VU.biTangent && type == VT.byteFloat4) ||
  (usage == VU.tangent && type == VT.byteFloat4) ||
  (usage == VU.color && type == VT.byteFloat4)

/-- number of bytes the element occupies in its vertex record (tangents are skipped unread) -/
def elemSize (e : VertexElement) : Nat :=
  if e.vertexUsage == VU.tangent then 0 else typeSize e.vertexType

/-- vertex `k` of a mesh: every element of the declaration, in order, decoded from
`streams[e.stream].data` at `k·stride + e.offset` -/
def vertexOf (m : AMesh) (k : Nat) : Vertex :=
  m.decl.foldl (fun v e =>
    match m.streams[e.stream.toNat]? with
    | some s =>
      stdDecode e.vertexUsage e.vertexType
        ((s.data.drop (k * s.stride.toNat + e.offset.toNat)).take (elemSize e)) v
    | none => v) Vertex.default

def verticesOf (m : AMesh) : List Vertex := (List.range m.vertexCount.toNat).map (vertexOf m)

/-! `vertexOf` walks the stream list from its head for every element (quadratic in the vertex
count when compiled).  The compiled driver uses the array-based `verticesOfA`, proved equal
(`@[csimp]`); theorems keep talking about `verticesOf`. -/

/-- `(l.drop off).take n` through an array -/
def sliceA (a : Array UInt8) (off n : Nat) : Bytes := (a.extract off (off + n)).toList

theorem sliceA_eq (l : Bytes) (off n : Nat) : sliceA l.toArray off n = (l.drop off).take n := by
  simp [sliceA, List.extract_eq_take_drop]

def vertexOfA (m : AMesh) (arrs : Array (AStream × Array UInt8)) (k : Nat) : Vertex :=
  m.decl.foldl (fun v e =>
    match arrs[e.stream.toNat]? with
    | some (s, a) =>
      stdDecode e.vertexUsage e.vertexType
        (sliceA a (k * s.stride.toNat + e.offset.toNat) (elemSize e)) v
    | none => v) Vertex.default

def verticesOfA (m : AMesh) : List Vertex :=
  let arrs := (m.streams.map fun s => (s, s.data.toArray)).toArray
  (List.range m.vertexCount.toNat).map (vertexOfA m arrs)

theorem vertexOfA_eq (m : AMesh) (k : Nat) :
    vertexOfA m (m.streams.map fun s => (s, s.data.toArray)).toArray k = vertexOf m k := by
  unfold vertexOfA vertexOf
  congr 1
  funext v e
  simp only [List.getElem?_toArray, List.getElem?_map]
  cases m.streams[e.stream.toNat]? with
  | none => rfl
  | some s => simp [sliceA_eq]

@[csimp] theorem verticesOf_eq_A : @verticesOf = @verticesOfA := by
  funext m
  simp only [verticesOf, verticesOfA]
  congr 1
  funext k
  exact (vertexOfA_eq m k).symm

/-- the shapes reported for a mesh (mirrors the selection rule of the format as implemented by
Penumbra's MeshExporter, which the code cites) — see `Model/Mdl.lean` for the code's version.
`start` = the mesh's first index in the LOD's index section. -/
def shapeDeltas (verts : List Vertex) (indices : List UInt16) (vals : List ShapeValue) :
    Option (List Vertex) :=
  vals.foldlM (fun (acc : List Vertex) sv => do
    let ix ← indices[sv.baseIndicesIndex.toNat]?
    let old ← verts[ix.toNat]?
    let new ← verts[sv.replacingVertexIndex.toNat]?
    if ix.toNat < acc.length then
      some (acc.set ix.toNat
        { (acc.getD ix.toNat Vertex.default) with
          position := List.zipWith f32Sub new.position old.position })
    else none) (verts.map fun _ => Vertex.default)

def shapesOf (m : AbstractModel) (lod : Nat) (start : Nat) (mesh : AMesh) :
    Option (List Shape) :=
  let verts := verticesOf mesh
  m.shapes.foldlM (fun (acc : List Shape) sh => do
    let s0 ← sh.shapeMeshStartIndex.get? lod
    let c0 ← sh.shapeMeshCount.get? lod
    let sms := ((m.shapeMeshes.drop s0.toNat).take c0.toNat).filter
      (fun sm => sm.meshIndexOffset == start.toUInt32)
    let vals := (sms.flatMap fun sm =>
        (m.shapeValues.drop sm.shapeValueOffset.toNat).take sm.shapeValueCount.toNat).filter
      (fun sv => sv.baseIndicesIndex ≥ start.toUInt32.toUInt16 &&
        sv.baseIndicesIndex < (start + mesh.indices.length).toUInt32.toUInt16)
    if vals.isEmpty then some acc else do
      let d ← shapeDeltas verts mesh.indices vals
      some (acc ++ [{ name := sh.name.flatMap latin1Utf8, morphedVertices := d }])) []

/-- parts of one LOD; `mbase` running mesh index, `ibase` running start index, `sbase` running
sub-mesh index -/
def partsOf (m : AbstractModel) (lod : Nat) : Nat → Nat → Nat → List AMesh → Option (List Part)
  | _, _, _, [] => some []
  | mbase, ibase, sbase, mesh :: rest => do
    let shapes ← shapesOf m lod ibase mesh
    let tail ← partsOf m lod (mbase + 1) (ibase + meshIndexWords mesh) (sbase + mesh.submeshes.length) rest
    some ({ meshIndex := mbase.toUInt16
            vertices := verticesOf mesh
            vertexStreams := mesh.streams.map (·.data)
            vertexStreamStrides := mesh.streams.map (·.stride.toNat)
            indices := mesh.indices
            materialIndex := mesh.materialIndex
            submeshes := (List.zip (List.range mesh.submeshes.length) mesh.submeshes).map
              fun (i, s) => ⟨sbase + i, s.indexCount, s.indexOffset⟩
            shapes := shapes } :: tail)

def lodsView (m : AbstractModel) : Nat → Nat → Nat → List ALod → Option (List (List Part))
  | _, _, _, [] => some []
  | 0, _, _, _ => some []
  | n + 1, mbase, sbase, l :: rest => do
    let parts ← partsOf m (m.lodCount.toNat - (n + 1)) mbase 0 sbase l.meshes
    let tail ← lodsView m n (mbase + l.meshes.length)
      (sbase + (l.meshes.map (fun (x : AMesh) => x.submeshes.length)).sum) rest
    some (parts :: tail)

/-- what `MDL::from_existing (encodeMdl m)` must report; `none` when a shape table refers outside
the mesh (outside the quantifier) -/
def view (m : AbstractModel) : Option View := do
  let lods ← lodsView m m.lodCount.toNat 0 0 m.lods
  some { lods := lods
         affectedBoneNames := m.bones.map (·.flatMap latin1Utf8)
         materialNames := m.materials.map (·.flatMap latin1Utf8) }

/-! ## well-formedness (the quantifier of C06) -/

def nameOk (s : Bytes) : Bool := s.all (· != 0)

def elemOk (m : AMesh) (e : VertexElement) : Bool :=
  supported e.vertexUsage e.vertexType && e.stream.toNat < m.streams.length &&
  (match m.streams[e.stream.toNat]? with
   | some s => e.offset.toNat + elemSize e ≤ s.stride.toNat || m.vertexCount == 0
   | none => false)

def meshOk (m : AMesh) : Bool :=
  1 ≤ m.decl.length && m.decl.length ≤ 16 && m.decl.all (elemOk m) &&
  1 ≤ m.streams.length && m.streams.length ≤ 3 &&
  m.streams.all (fun s => s.data.length == m.vertexCount.toNat * s.stride.toNat) &&
  m.submeshes.length < 65536

def blocksOk (n : Nat) (l : List Bytes) : Bool := l.all (·.length == n)

def boneTableOk (t : BoneTable) : Bool := t.boneIndices.length == 64
def boneTableV2Ok (t : BoneTableV2) : Bool :=
  t.boneIndices.length == t.boneCount.toNat && (t.boneCount % 2 == 0 || t.padding == 0)

/-- the decidable well-formedness predicate of `c06_parse_encode` -/
def WF (m : AbstractModel) : Bool :=
  m.lods.length == 3 && 1 ≤ m.lodCount.toNat && m.lodCount.toNat ≤ 3 &&
  m.lods.all (fun l => l.mid.length == 28 && l.meshes.all meshOk) &&
  validFlags1 m.misc.flags1 && validFlags2 m.misc.flags2 &&
  (allNames m).all nameOk &&
  (allMeshes m).length < 65536 && (allNames m).length < 65536 &&
  ((allMeshes m).map (fun (x : AMesh) => x.submeshes.length)).sum < 65536 &&
  m.attributes.length < 65536 && m.bones.length < 65536 && m.materials.length < 65536 &&
  m.shapes.length < 65536 && m.shapeMeshes.length < 65536 && m.shapeValues.length < 65536 &&
  m.elementIds.length < 65536 && m.terrainShadowMeshes.length < 256 &&
  m.terrainShadowSubmeshes.length < 65536 &&
  blocksOk 32 m.elementIds && blocksOk 20 m.terrainShadowMeshes &&
  blocksOk 12 m.terrainShadowSubmeshes && blocksOk 32 m.boneBoundingBoxes &&
  m.boneBoundingBoxes.length == m.bones.length && m.boundingBoxes.length == 128 &&
  m.padding.length < 256 &&
  (if isV5 m.version then m.boneTables.length < 65536 && m.boneTables.all boneTableOk &&
      2 * m.submeshBoneMap.length < 4294967296
   else m.boneTablesV2.length < 65536 && m.boneTablesV2.all boneTableV2Ok &&
      2 * m.submeshBoneMap.length < 65536) &&
  (stringTable m).length < 4294967296 && (encodeMdl m).length < 4294967296

end Physis.Spec.Mdl
