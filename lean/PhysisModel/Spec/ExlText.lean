import PhysisModel.Base.Bytes
import PhysisModel.Base.Decimal
/-!
# Excel list files (`exd/root.exl`) — specification side

A list file is LF-separated text: the header `EXLT,<version>`, then one row per line — either an
entry `<name>,<id>` (decimal 32-bit id, `-` for negatives) or a comment row starting with `#`.
There is no LF after the last row.  Reading a list yields the version and the entries in order;
comment rows carry no data.
-/
namespace Physis.Spec.Exl
open Physis.Decimal

inductive Row where
  | entry (name : Bytes) (id : Int)
  | comment (text : Bytes)   -- the whole line, beginning with `#`
deriving Repr, DecidableEq

structure ListFile where
  version : Int
  rows : List Row
deriving Repr, DecidableEq

def rowLine : Row → Bytes
  | .entry name id => name ++ 44 :: showInt id
  | .comment text => text

def headerLine (version : Int) : Bytes := [69, 88, 76, 84, 44] ++ showInt version   -- "EXLT,"

def encode (f : ListFile) : Bytes :=
  headerLine f.version ++ f.rows.flatMap fun r => 10 :: rowLine r

/-- the data of a list: entries in order -/
def entriesOf (f : ListFile) : List (Bytes × Int) :=
  f.rows.filterMap fun r => match r with | .entry n i => some (n, i) | .comment _ => none

/-- comment rows removed -/
def stripComments (f : ListFile) : ListFile :=
  { f with rows := f.rows.filter fun r => match r with | .entry _ _ => true | .comment _ => false }

def I32 (v : Int) : Prop := -2147483648 ≤ v ∧ v ≤ 2147483647

/-- an entry name: no `,`, no LF, not beginning with `#`, and not the header token `EXLT` -/
def NameOK (n : Bytes) : Prop := 44 ∉ n ∧ 10 ∉ n ∧ n.head? ≠ some 35 ∧ n ≠ [69, 88, 76, 84]

/-- a comment row: begins with `#`, no LF, does not end in CR -/
def CommentOK (t : Bytes) : Prop := t.head? = some 35 ∧ 10 ∉ t ∧ t.getLast? ≠ some 13

def RowOK : Row → Prop
  | .entry n i => NameOK n ∧ I32 i
  | .comment t => CommentOK t

def WF (f : ListFile) : Prop := I32 f.version ∧ ∀ r ∈ f.rows, RowOK r

instance (v) : Decidable (I32 v) := inferInstanceAs (Decidable (-2147483648 ≤ v ∧ v ≤ 2147483647))
instance (n) : Decidable (NameOK n) :=
  inferInstanceAs (Decidable (44 ∉ n ∧ 10 ∉ n ∧ n.head? ≠ some 35 ∧ n ≠ [69, 88, 76, 84]))
instance (t) : Decidable (CommentOK t) :=
  inferInstanceAs (Decidable (t.head? = some 35 ∧ 10 ∉ t ∧ t.getLast? ≠ some 13))
instance : (r : Row) → Decidable (RowOK r)
  | .entry n i => inferInstanceAs (Decidable (NameOK n ∧ I32 i))
  | .comment t => inferInstanceAs (Decidable (CommentOK t))
instance (f) : Decidable (WF f) := inferInstanceAs (Decidable (I32 f.version ∧ ∀ r ∈ f.rows, RowOK r))

/-- canonical file: the encoding of a well-formed list without comment rows -/
def Canonical (b : Bytes) : Prop := ∃ f, WF f ∧ stripComments f = f ∧ b = encode f

end Physis.Spec.Exl
