import PhysisModel.Base.Bytes
/-!
# The configuration text format (`FFXIV.cfg`, `FFXIV_BOOT.cfg`) — specification side

A configuration is a list of categories in file order; a category has a name and its
`key TAB value` lines in order.  The file is a sequence of CRLF-terminated lines — per category a
blank line, `<name>`, then one `key<TAB>value` line per setting — followed by a single NUL byte.
Nothing here refers to the model of the Rust code.
-/
namespace Physis.Spec.Cfg

abbrev Entry := Bytes × Bytes
abbrev Category := Bytes × List Entry
abbrev Config := List Category

/-- `key TAB value` -/
def kvLine (e : Entry) : Bytes := e.1 ++ 9 :: e.2
/-- `<name>` -/
def catLine (n : Bytes) : Bytes := 60 :: (n ++ [62])
def catLines (c : Category) : List Bytes := [] :: catLine c.1 :: c.2.map kvLine
/-- the text lines of the file, in order -/
def fileLines (c : Config) : List Bytes := c.flatMap catLines
def crlf (l : Bytes) : Bytes := l ++ [13, 10]
/-- the file: every line CRLF-terminated, then one NUL -/
def encode (c : Config) : Bytes := (fileLines c).flatMap crlf ++ [0]

/-- `set_value` as the property states it: every occurrence of the key, in every category, gets
the new value; nothing else changes -/
def setValue (c : Config) (key value : Bytes) : Config :=
  c.map fun cat => (cat.1, cat.2.map fun e => if e.1 = key then (e.1, value) else e)

def setValues (c : Config) (edits : List (Bytes × Bytes)) : Config :=
  edits.foldl (fun c e => setValue c e.1 e.2) c

/-- all keys of the file -/
def keysOf (c : Config) : List Bytes := c.flatMap fun cat => cat.2.map (·.1)
/-- all category names of the file -/
def namesOf (c : Config) : List Bytes := c.map (·.1)

/-! ### well-formedness (weaker than, i.e. implied by, the property's quantifier) -/

/-- a category name: no LF, and (as every valid UTF-8 string) not starting with a continuation byte -/
def startsOnBoundary (n : Bytes) : Bool :=
  match n with
  | [] => true
  | b :: _ => (b &&& 0xC0) != 0x80
def NameOK (n : Bytes) : Prop := 10 ∉ n ∧ startsOnBoundary n = true
/-- a key: no LF, `<`, `>`, TAB (may be empty) -/
def KeyOK (k : Bytes) : Prop := 10 ∉ k ∧ 60 ∉ k ∧ 62 ∉ k ∧ 9 ∉ k
/-- a value: no LF, `<`, `>` (may be empty, may contain TAB and CR) -/
def ValueOK (v : Bytes) : Prop := 10 ∉ v ∧ 60 ∉ v ∧ 62 ∉ v

def EntryOK (e : Entry) : Prop := KeyOK e.1 ∧ ValueOK e.2

/-- distinct category names; names, keys and values free of the structural characters -/
def WF (c : Config) : Prop :=
  (namesOf c).Nodup ∧ ∀ cat ∈ c, NameOK cat.1 ∧ ∀ e ∈ cat.2, EntryOK e

instance (n) : Decidable (NameOK n) := inferInstanceAs (Decidable (10 ∉ n ∧ startsOnBoundary n = true))
instance (k) : Decidable (KeyOK k) := inferInstanceAs (Decidable (10 ∉ k ∧ 60 ∉ k ∧ 62 ∉ k ∧ 9 ∉ k))
instance (v) : Decidable (ValueOK v) := inferInstanceAs (Decidable (10 ∉ v ∧ 60 ∉ v ∧ 62 ∉ v))
instance (e) : Decidable (EntryOK e) := inferInstanceAs (Decidable (KeyOK e.1 ∧ ValueOK e.2))
instance (c) : Decidable (WF c) :=
  inferInstanceAs (Decidable ((namesOf c).Nodup ∧ ∀ cat ∈ c, NameOK cat.1 ∧ ∀ e ∈ cat.2, EntryOK e))

/-- a canonical file is the encoding of a well-formed configuration -/
def Canonical (b : Bytes) : Prop := ∃ c, WF c ∧ b = encode c

end Physis.Spec.Cfg
