import PhysisModel.Spec.Mdl
/-!
# MDL files with an arbitrary placement of the vertex streams (C06)

`Spec.Mdl.encodeMdl` stores the streams of a mesh back to back, mesh after mesh — the placement
the library's own writer produces.  The format does not demand it: every mesh row carries an
explicit `vertex_buffer_offsets[stream]`, so a LOD's vertex section may hold the streams in any
order (stream-major `[m0s0][m1s0][m0s1][m1s1]`, reversed), with gaps / alignment padding between
them, or share bytes between streams; and nothing says that a LOD's index section starts where its
vertex section ends (models with edge geometry keep that data in between) or that a vertex
section starts where the previous LOD ends.

A `Placement` gives, per LOD, the vertex section **byte for byte**, the bytes in front of it and
between it and the index section (counted in no section size) and, per mesh (numbered through
the whole model like the mesh table) and stream, the offset of the stream inside its LOD's
section.  `PlacedOk` says that every stream's bytes are found at its offset, inside the section —
nothing else is asked (no order, no disjointness).  `encodeMdlP` is the file: the same runtime
block as `encodeMdl` except for the mesh rows' `vertex_buffer_offsets` and the LOD rows' section
sizes / offsets.  What must be reported is the unchanged `view m`.

`canonP m` is the back-to-back placement; on it `encodeMdlP` is `encodeMdl`
(`Proofs/MdlPlaced.lean`, `encodeMdlP_canon`).

This file does not import any model of the code.
-/
namespace Physis.Spec.Mdl
open Physis Physis.Mdl

structure Placement where
  vsecs : List Bytes            -- per LOD: the whole vertex section
  offs : List (List Nat)        -- per mesh (model-wide mesh index), per stream: offset in the section
  vpre : List Bytes             -- per LOD: bytes in front of the vertex section (in no section)
  ipre : List Bytes             -- per LOD: bytes between the vertex and the index section
                                --   (in no section; where edge geometry data lives)
deriving DecidableEq, Repr, Inhabited

/-- model-wide index of the first mesh of LOD `i` -/
def meshBase (m : AbstractModel) (i : Nat) : Nat := ((m.lods.take i).map (fun l => l.meshes.length)).sum

def Placement.vsec (p : Placement) (i : Nat) : Bytes := p.vsecs.getD i []
def Placement.vgap (p : Placement) (i : Nat) : Bytes := p.vpre.getD i []
def Placement.igap (p : Placement) (i : Nat) : Bytes := p.ipre.getD i []

/-- offset of stream `j` of the mesh with model-wide index `k` -/
def Placement.off (p : Placement) (k j : Nat) : Nat := (p.offs.getD k []).getD j 0

/-- `data` occupies `[off, off + data.length)` of `vsec` -/
def placedAt (vsec : Bytes) (off : Nat) (data : Bytes) : Bool :=
  off + data.length ≤ vsec.length && (vsec.drop off).take data.length == data

/-- every stream of every mesh lies, byte for byte, at its offset inside its LOD's vertex section -/
def PlacedOk (m : AbstractModel) (p : Placement) : Bool :=
  (List.range m.lods.length).all fun i =>
    (List.range (m.lods.getD i default).meshes.length).all fun d =>
      let mesh := (m.lods.getD i default).meshes.getD d default
      (List.range mesh.streams.length).all fun j =>
        placedAt (p.vsec i) (p.off (meshBase m i + d) j) (mesh.streams.getD j default).data

/-! ### layout -/

/-- the bytes of LOD `i`: gap, vertex section, gap, index section -/
def lodBytesP (m : AbstractModel) (p : Placement) (i : Nat) : Bytes :=
  p.vgap i ++ (p.vsec i ++ (p.igap i ++ indexSection (m.lods.getD i default)))

/-- their number -/
def secSizeP (m : AbstractModel) (p : Placement) (i : Nat) : Nat :=
  (p.vgap i).length + ((p.vsec i).length + ((p.igap i).length + lodIndexSize (m.lods.getD i default)))

/-- file offset of the bytes of LOD `i` when the sections start at `ds` -/
def secOffP (m : AbstractModel) (p : Placement) (ds i : Nat) : Nat :=
  ds + (((List.range m.lods.length).take i).map (secSizeP m p)).sum

/-- file offset of the vertex section of LOD `i` -/
def vOffP (m : AbstractModel) (p : Placement) (ds i : Nat) : Nat :=
  secOffP m p ds i + (p.vgap i).length

/-- file offset of the index section of LOD `i` -/
def iOffP (m : AbstractModel) (p : Placement) (ds i : Nat) : Nat :=
  vOffP m p ds i + (p.vsec i).length + (p.igap i).length

def lodRowP (m : AbstractModel) (p : Placement) (ds i : Nat) : MeshLod :=
  let l := m.lods.getD i default
  { meshIndex := (meshBase m i).toUInt16
    meshCount := l.meshes.length.toUInt16
    mid := l.mid
    edgeGeometryDataOffset := l.edgeGeometryDataOffset
    polygonCount := l.polygonCount
    vertexBufferSize := (p.vsec i).length.toUInt32
    indexBufferSize := (lodIndexSize l).toUInt32
    vertexDataOffset := (vOffP m p ds i).toUInt32
    indexDataOffset := (iOffP m p ds i).toUInt32 }

def lodRowsP (m : AbstractModel) (p : Placement) (ds : Nat) : List MeshLod :=
  (List.range m.lods.length).map (lodRowP m p ds)

/-- a mesh row with the stream offsets `o` -/
def meshRowP (row : Mesh) (o : List Nat) : Mesh :=
  { row with vertexBufferOffsets := ⟨(o.getD 0 0).toUInt32, (o.getD 1 0).toUInt32, (o.getD 2 0).toUInt32⟩ }

/-- the mesh table: the rows of `encodeMdl` with the placement's stream offsets -/
def meshRowsP (m : AbstractModel) (p : Placement) : List Mesh :=
  (allMeshRows 0 m.lods).mapIdx fun k row => meshRowP row (p.offs.getD k [])

def modelDataAtP (m : AbstractModel) (p : Placement) (ds : Nat) : ModelData :=
  { modelDataAt m ds with lods := lodRowsP m p ds, meshes := meshRowsP m p }

def runtimeBlockSizeP (m : AbstractModel) (p : Placement) : Nat :=
  (encModelData m.version (modelDataAtP m p 0)).length

def dataStartP (m : AbstractModel) (p : Placement) : Nat := 0x44 + runtimeBlockSizeP m p

def modelDataP (m : AbstractModel) (p : Placement) : ModelData := modelDataAtP m p (dataStartP m p)

def fileHeaderP (m : AbstractModel) (p : Placement) : FileHeader :=
  let rows := (modelDataP m p).lods
  { fileHeader m with
    runtimeSize := (runtimeBlockSizeP m p - stackSizeOf m).toUInt32
    vertexOffsets := Arr3.ofList 0 (rows.map (·.vertexDataOffset))
    indexOffsets := Arr3.ofList 0 (rows.map (·.indexDataOffset))
    vertexBufferSize := Arr3.ofList 0 (rows.map (·.vertexBufferSize))
    indexBufferSize := Arr3.ofList 0 (rows.map (·.indexBufferSize)) }

def sectionsP (m : AbstractModel) (p : Placement) : Bytes :=
  (List.range m.lods.length).flatMap (lodBytesP m p)

/-- **the encoder for an arbitrary placement of the vertex streams** -/
def encodeMdlP (m : AbstractModel) (p : Placement) : Bytes :=
  encFileHeader (fileHeaderP m p) ++ (encModelData m.version (modelDataP m p) ++ sectionsP m p)

/-- the quantifier of the placed theorems: a well-formed abstract model, a placement that holds
every stream, a file below 4 GiB -/
def WFP (m : AbstractModel) (p : Placement) : Bool :=
  WF m && PlacedOk m p && (encodeMdlP m p).length < 4294967296

/-! ### the canonical (back-to-back) placement -/

def canonP (m : AbstractModel) : Placement :=
  { vsecs := m.lods.map vertexSection
    offs := (allMeshRows 0 m.lods).map fun row => row.vertexBufferOffsets.toList.map (·.toNat)
    vpre := []
    ipre := [] }

end Physis.Spec.Mdl
