import PhysisModel.Base.Bytes
import PhysisModel.Base.StrF
/-!
The Havok *binary tag file* format (version 3) as far as skeleton files use it, as an encoder from an
abstract file (type declarations and objects in file order) to bytes, the meaning of such a file for
`Skeleton::from_existing` (`bonesOf`), and the SKLB container (`Spec.Sklb`).

```
file    := 1E 0D B0 CA CE FA 11 D0  int(1) int(3)  item*  int(7)
item    := int(2) type | int(4) object
type    := string(name) int(version) int(parent type index) int(#members) member*
member  := string(name) int(type bits) [int(tuple size) if TUPLE] [string(class) if base is OBJECT/STRUCT]
object  := int(type index) bitfield(#all members incl. inherited) value-of-each-present-member
value   := BYTE: u8 | INT: int | REAL: f32le | STRING: string | OBJECT: int(object index)
         | ARRAY of t: int(n) body(t, n)
body    := BYTE: n×u8 | INT: int(element kind) n×int | REAL: n×f32le | STRING: n×string | OBJECT: n×int
         | VECk: n×k×f32le | STRUCT: bitfield(#all members of the class) body(member, n) for each present member
int     := sign in bit 0 of the first byte, magnitude in 6 + 7 + 7 + ... bits, little end first,
           bit 7 = "another byte follows" (at most five bytes for an i32)
string  := int(len) bytes (the string gets the next index) | int(-index) of an earlier string
           (index 0 = "string", 1 = "")
bitfield:= ceil(n / 8) bytes, member i is present iff bit (i mod 8) of byte (i div 8) is set
```
Type index 0 is the built-in member-less type `object`; declared types are numbered from 1 in file
order; object index 0 is the null object, objects are numbered from 1 in file order; the first object
is the root.
-/
namespace Physis.Spec.HavokTag

/-! ### packed integers -/

/-- bytes needed for magnitude `m` -/
def minWidth (m : UInt32) : Nat :=
  if m < 0x40 then 1 else if m < 0x2000 then 2 else if m < 0x100000 then 3 else if m < 0x8000000 then 4 else 5

/-- magnitude `m`, sign bit `s`, written in exactly `k` bytes (`minWidth m ≤ k ≤ 5`) -/
def packedBytes (m : UInt32) (s : UInt8) (k : Nat) : Bytes :=
  let b0 : UInt8 := ((m &&& 0x3f) <<< 1).toUInt8 ||| s
  let g0 : UInt8 := ((m >>> 6) &&& 0x7f).toUInt8
  let g1 : UInt8 := ((m >>> 13) &&& 0x7f).toUInt8
  let g2 : UInt8 := ((m >>> 20) &&& 0x7f).toUInt8
  let g3 : UInt8 := ((m >>> 27) &&& 0x7f).toUInt8
  match k with
  | 0 => [b0]
  | 1 => [b0]
  | 2 => [b0 ||| 0x80, g0]
  | 3 => [b0 ||| 0x80, g0 ||| 0x80, g1]
  | 4 => [b0 ||| 0x80, g0 ||| 0x80, g1 ||| 0x80, g2]
  | _ => [b0 ||| 0x80, g0 ||| 0x80, g1 ||| 0x80, g2 ||| 0x80, g3]

/-- the 7-bit groups of a magnitude that does not fit 31 bits (Havok INT members can hold 64-bit
values), little end first, continuation flag on all but the last -/
def wideTail : Nat → Nat → Bytes
  | 0, _ => []
  | fuel + 1, m => if m < 128 then [UInt8.ofNat m] else UInt8.ofNat (128 + m % 128) :: wideTail fuel (m / 128)

/-- an integer in at least `w` bytes (a writer may pad with zero groups): up to five bytes for an `i32`
other than `i32::MIN`, up to ten for wider values -/
def encodePackedIntW (w : Nat) (n : Int) : Bytes :=
  if n.natAbs < 2 ^ 31 then
    let m := UInt32.ofNat n.natAbs
    packedBytes m (if n < 0 then 1 else 0) (max (min w 5) (minWidth m))
  else
    UInt8.ofNat (128 + (n.natAbs % 64) * 2 + (if n < 0 then 1 else 0)) :: wideTail 10 (n.natAbs / 64)

/-- the shortest form -/
def encodePackedInt (n : Int) : Bytes := encodePackedIntW 1 n

def InRange (n : Int) : Prop := -(2 ^ 31) < n ∧ n < 2 ^ 31
instance (n : Int) : Decidable (InRange n) := by unfold InRange; infer_instance

/-- what an INT value of the format can be (up to 64 bits); the reader keeps an `i32` -/
def Wide (n : Int) : Prop := n.natAbs < 2 ^ 63
instance (n : Int) : Decidable (Wide n) := by unfold Wide; infer_instance

/-! ### bit fields -/

def bit (b : Bool) (i : Nat) : UInt8 := if b then (1 : UInt8) <<< i.toUInt8 else 0

/-- the byte whose bit `j` is `bits[j]` (absent = 0) -/
def byteOfBits (bits : List Bool) : UInt8 :=
  bit (bits.getD 0 false) 0 ||| bit (bits.getD 1 false) 1 ||| bit (bits.getD 2 false) 2 |||
  bit (bits.getD 3 false) 3 ||| bit (bits.getD 4 false) 4 ||| bit (bits.getD 5 false) 5 |||
  bit (bits.getD 6 false) 6 ||| bit (bits.getD 7 false) 7

/-- eight bits per byte, least significant first; the last byte is padded with zero bits
(`fuel` = an upper bound of the number of bytes, so that the definition is structural) -/
def encodeBitsAux : Nat → List Bool → Bytes
  | 0, _ => []
  | fuel + 1, bits => if bits.isEmpty then [] else byteOfBits bits :: encodeBitsAux fuel (bits.drop 8)

def encodeBits (bits : List Bool) : Bytes := encodeBitsAux bits.length bits

/-! ### encoder parameters and strings -/

/-- latitude a writer has: `reuse` bit `i mod 16` says whether a string that is already remembered at
index `i` (below 2^31) is written as a back reference; every integer takes at least `width` bytes -/
structure Enc where
  reuse : Nat
  width : Nat
  deriving Repr

def Enc.int (p : Enc) (n : Int) : Bytes := encodePackedIntW p.width n
def Enc.nat (p : Enc) (n : Nat) : Bytes := p.int (n : Int)

/-- strings the reader knows initially -/
def initStrings : List Bytes := [[115, 116, 114, 105, 110, 103], []]

/-- first index ≥ 1 at which `s` is remembered -/
def findString (tbl : List Bytes) (s : Bytes) : Option Nat :=
  match tbl with
  | [] => none
  | _ :: t => (t.findIdx? (· == s)).map (· + 1)

def encString (p : Enc) (tbl : List Bytes) (s : Bytes) : Bytes × List Bytes :=
  match findString tbl s with
  | some i =>
    if p.reuse.testBit (i % 16) && decide (i < 2 ^ 31) then (p.int (-(i : Int)), tbl)
    else (p.nat s.length ++ s, tbl ++ [s])
  | none => (p.nat s.length ++ s, tbl ++ [s])

def encStrings (p : Enc) : List Bytes → List Bytes → Bytes × List Bytes
  | tbl, [] => ([], tbl)
  | tbl, s :: r =>
    let (a, tbl) := encString p tbl s
    let (b, tbl) := encStrings p tbl r
    (a ++ b, tbl)

/-! ### abstract files -/

structure MemberDecl where
  name : Bytes
  /-- type bits: base 1 BYTE, 2 INT, 3 REAL, 4..7 VEC4/8/12/16, 8 OBJECT, 9 STRUCT, 10 STRING; 0x10 ARRAY; 0x20 TUPLE -/
  ty : Nat
  tuple : Int
  /-- class name, written when the base type is OBJECT or STRUCT -/
  cls : Bytes
  deriving DecidableEq, Repr, Inhabited

structure TypeDecl where
  name : Bytes
  version : Int
  parent : Nat
  members : List MemberDecl
  deriving DecidableEq, Repr, Inhabited

/-- a member value as stored.  A column of a STRUCT array is the array value of the member's base
type with one entry per element. -/
inductive Val where
  | absent
  | byte (v : UInt8)
  | int (v : Int)
  | real (v : UInt32)
  | str (s : Bytes)
  | ref (i : Nat)
  | bytes (l : List UInt8)
  /-- `kind` is the extra word version-3 files put in front of integer arrays -/
  | ints (kind : Int) (l : List Int)
  | reals (l : List UInt32)
  | strs (l : List Bytes)
  | refs (l : List Nat)
  | vecs (l : List (List UInt32))
  /-- `n` elements, one column per member of the class (inherited members first) -/
  | structs (n : Nat) (cols : List Val)
  deriving Repr, Inhabited

inductive Item where
  | type (t : TypeDecl)
  | obj (ty : Nat) (fields : List Val)
  deriving Repr, Inhabited

abbrev TagFile := List Item

def isTuple (ty : Nat) : Bool := ty &&& 0x20 != 0
def isArray (ty : Nat) : Bool := ty &&& 0x10 != 0
def baseType (ty : Nat) : Nat := ty &&& 0x0f

def f32le (v : UInt32) : Bytes := putU32le v

def Val.present : Val → Bool
  | .absent => false
  | _ => true

/-- number of elements of an array value -/
def Val.len : Val → Nat
  | .bytes l => l.length
  | .ints _ l => l.length
  | .reals l => l.length
  | .strs l => l.length
  | .refs l => l.length
  | .vecs l => l.length
  | .structs n _ => n
  | _ => 0

mutual
/-- a scalar value, or the elements of an array value (without the leading count) -/
def encBody (p : Enc) : List Bytes → Val → Bytes × List Bytes
  | tbl, .absent => ([], tbl)
  | tbl, .byte v => ([v], tbl)
  | tbl, .int v => (p.int v, tbl)
  | tbl, .real v => (f32le v, tbl)
  | tbl, .str s => encString p tbl s
  | tbl, .ref i => (p.nat i, tbl)
  | tbl, .bytes l => (l, tbl)
  | tbl, .ints kind l => (p.int kind ++ (l.map p.int).flatten, tbl)
  | tbl, .reals l => ((l.map f32le).flatten, tbl)
  | tbl, .strs l => encStrings p tbl l
  | tbl, .refs l => ((l.map fun i => p.nat i).flatten, tbl)
  | tbl, .vecs l => ((l.map fun v => (v.map f32le).flatten).flatten, tbl)
  | tbl, .structs _ cols =>
    let (b, tbl) := encBodies p tbl cols
    (encodeBits (cols.map Val.present) ++ b, tbl)
def encBodies (p : Enc) : List Bytes → List Val → Bytes × List Bytes
  | tbl, [] => ([], tbl)
  | tbl, v :: r =>
    let (a, tbl) := encBody p tbl v
    let (b, tbl) := encBodies p tbl r
    (a ++ b, tbl)
end

/-- a present member of an object: arrays carry their element count -/
def encField (p : Enc) (tbl : List Bytes) (ty : Nat) (v : Val) : Bytes × List Bytes :=
  if isArray ty && v.present then
    let (b, tbl) := encBody p tbl v
    (p.nat v.len ++ b, tbl)
  else encBody p tbl v

def encFields (p : Enc) : List Bytes → List Nat → List Val → Bytes × List Bytes
  | tbl, ty :: tys, v :: vs =>
    let (a, tbl) := encField p tbl ty v
    let (b, tbl) := encFields p tbl tys vs
    (a ++ b, tbl)
  | tbl, _, _ => ([], tbl)

def encMember (p : Enc) (tbl : List Bytes) (m : MemberDecl) : Bytes × List Bytes :=
  let (a, tbl) := encString p tbl m.name
  let t := (if isTuple m.ty then p.int m.tuple else [])
  if baseType m.ty == 8 || baseType m.ty == 9 then
    let (c, tbl) := encString p tbl m.cls
    (a ++ p.nat m.ty ++ t ++ c, tbl)
  else (a ++ p.nat m.ty ++ t, tbl)

def encMembers (p : Enc) : List Bytes → List MemberDecl → Bytes × List Bytes
  | tbl, [] => ([], tbl)
  | tbl, m :: r =>
    let (a, tbl) := encMember p tbl m
    let (b, tbl) := encMembers p tbl r
    (a ++ b, tbl)

def encType (p : Enc) (tbl : List Bytes) (t : TypeDecl) : Bytes × List Bytes :=
  let (a, tbl) := encString p tbl t.name
  let (b, tbl) := encMembers p tbl t.members
  (a ++ p.int t.version ++ p.nat t.parent ++ p.nat t.members.length ++ b, tbl)

/-- `members()` of type index `k` given the declarations so far: inherited members first -/
def allMembers (decls : List TypeDecl) : Nat → Nat → List MemberDecl
  | 0, _ => []
  | _, 0 => []
  | fuel + 1, k + 1 =>
    match decls[k]? with
    | none => []
    | some t => allMembers decls fuel t.parent ++ t.members

def membersOf (decls : List TypeDecl) (k : Nat) : List MemberDecl := allMembers decls (k + 1) k

/-- items in file order; `decls` = the types declared so far -/
def encItems (p : Enc) : List Bytes → List TypeDecl → List Item → Bytes
  | _, _, [] => []
  | tbl, decls, .type t :: r =>
    let (a, tbl) := encType p tbl t
    p.int 2 ++ a ++ encItems p tbl (decls ++ [t]) r
  | tbl, decls, .obj ty fields :: r =>
    let (a, tbl) := encFields p tbl ((membersOf decls ty).map (·.ty)) fields
    p.int 4 ++ p.nat ty ++ encodeBits (fields.map Val.present) ++ a ++ encItems p tbl decls r

def signature : Bytes := [0x1E, 0x0D, 0xB0, 0xCA, 0xCE, 0xFA, 0x11, 0xD0]

def encode (p : Enc) (f : TagFile) : Bytes :=
  signature ++ p.int 1 ++ p.int 3 ++ encItems p initStrings [] f ++ p.int 7

/-! ### what a file means for `Skeleton::from_existing` -/

structure Bone where
  name : Bytes
  parent : Int
  position : UInt32 × UInt32 × UInt32
  rotation : UInt32 × UInt32 × UInt32 × UInt32
  scale : UInt32 × UInt32 × UInt32
  deriving DecidableEq, Repr, Inhabited

def typesOf : TagFile → List TypeDecl
  | [] => []
  | .type t :: r => t :: typesOf r
  | .obj .. :: r => typesOf r

def objectsOf : TagFile → List (Nat × List Val)
  | [] => []
  | .type _ :: r => objectsOf r
  | .obj ty fs :: r => (ty, fs) :: objectsOf r

/-- index of the member called `name` -/
def memberIndex (ms : List MemberDecl) (name : Bytes) : Option Nat := ms.findIdx? (·.name == name)

/-- the stored value of member `name` of an object / of the columns of a STRUCT array -/
def field (ms : List MemberDecl) (vals : List Val) (name : Bytes) : Option Val :=
  (memberIndex ms name).bind (vals[·]?)

/-- members of the class called `cls` (type index = position + 1) -/
def classMembers (decls : List TypeDecl) (cls : Bytes) : Option (List MemberDecl) :=
  (decls.findIdx? (·.name == cls)).map fun k => membersOf decls (k + 1)

def n_namedVariants : Bytes := [110, 97, 109, 101, 100, 86, 97, 114, 105, 97, 110, 116, 115]
def n_className : Bytes := [99, 108, 97, 115, 115, 78, 97, 109, 101]
def n_variant : Bytes := [118, 97, 114, 105, 97, 110, 116]
def n_hkaAnimationContainer : Bytes :=
  [104, 107, 97, 65, 110, 105, 109, 97, 116, 105, 111, 110, 67, 111, 110, 116, 97, 105, 110, 101, 114]
def n_skeletons : Bytes := [115, 107, 101, 108, 101, 116, 111, 110, 115]
def n_bindings : Bytes := [98, 105, 110, 100, 105, 110, 103, 115]
def n_bones : Bytes := [98, 111, 110, 101, 115]
def n_name : Bytes := [110, 97, 109, 101]
def n_parentIndices : Bytes := [112, 97, 114, 101, 110, 116, 73, 110, 100, 105, 99, 101, 115]
def n_referencePose : Bytes := [114, 101, 102, 101, 114, 101, 110, 99, 101, 80, 111, 115, 101]

def boneOf (name : Bytes) (parent : Int) : List UInt32 → Option Bone
  | [t0, t1, t2, _, r0, r1, r2, r3, s0, s1, s2, _] =>
    some ⟨name, parent, (t0, t1, t2), (r0, r1, r2, r3), (s0, s1, s2)⟩
  | _ => none

def zipBones : List Bytes → List Int → List (List UInt32) → Option (List Bone)
  | [], _, _ => some []
  | n :: ns, p :: ps, t :: ts => do
    let b ← boneOf n p t
    let r ← zipBones ns ps ts
    pure (b :: r)
  | _, _, _ => none

/-- the bones of skeleton object `(ty, fs)` -/
def skeletonBones (decls : List TypeDecl) (ty : Nat) (fs : List Val) : Option (List Bone) :=
  let ms := membersOf decls ty
  match field ms fs n_bones, field ms fs n_parentIndices, field ms fs n_referencePose,
      (memberIndex ms n_bones).bind (ms[·]?) with
  | some (.structs _ cols), some (.ints _ parents), some (.vecs poses), some bm =>
    match (classMembers decls bm.cls).bind (field · cols n_name) with
    | some (.strs names) => zipBones names parents poses
    | _ => none
  | _, _, _, _ => none

/-- first named variant whose class name is `hkaAnimationContainer` → its object index -/
def findVariant : List Bytes → List Nat → Option Nat
  | c :: cs, v :: vs => if c == n_hkaAnimationContainer then some v else findVariant cs vs
  | _, _ => none

/-- root (object 1) → `namedVariants` → `hkaAnimationContainer` → `skeletons[0]` → bones -/
def bonesOf (f : TagFile) : Option (List Bone) :=
  let decls := typesOf f
  let objs := objectsOf f
  match objs with
  | [] => none
  | (rty, rfs) :: _ =>
    let rms := membersOf decls rty
    match field rms rfs n_namedVariants, (memberIndex rms n_namedVariants).bind (rms[·]?) with
    | some (.structs _ cols), some nvm =>
      match classMembers decls nvm.cls with
      | none => none
      | some vms =>
        match field vms cols n_className, field vms cols n_variant with
        | some (.strs cns), some (.refs vs) =>
          match (findVariant cns vs).bind fun i => if i = 0 then none else objs[i - 1]? with
          | none => none
          | some (cty, cfs) =>
            match field (membersOf decls cty) cfs n_skeletons with
            | some (.refs (s :: _)) =>
              if s = 0 then none else
              match objs[s - 1]? with
              | some (sty, sfs) => skeletonBones decls sty sfs
              | none => none
            | _ => none
        | _, _ => none
    | _, _ => none

/-! ### well-formed files -/

def n_object : Bytes := [111, 98, 106, 101, 99, 116]

def vecSize (b : Nat) : Nat := 4 * (b - 3)

def okString (s : Bytes) : Bool := StrF.validUtf8 s && decide (s.length < 2 ^ 31)

/-- member kinds `Skeleton::from_existing`'s reader implements when the member is present in an
object: scalars BYTE, INT, REAL, STRING, OBJECT and arrays of BYTE .. STRING -/
def implementedField (ty : Nat) : Bool :=
  if isArray ty then 1 ≤ baseType ty && baseType ty ≤ 10
  else ty == 1 || ty == 2 || ty == 3 || ty == 8 || ty == 10

/-- kinds for which an *absent* member has a default value -/
def implementedDefault (ty : Nat) : Bool :=
  isArray ty || isTuple ty || ty ≤ 8 || ty == 10

mutual
/-- `v` is a well-formed value (or column of `n` elements when `col`) for base type `base` -/
def bodyOK (decls : List TypeDecl) (nobjs : Nat) (base : Nat) (cls : Bytes) (n : Option Nat) : Val → Bool
  | .bytes l => base == 1 && n.all (· == l.length)
  | .ints kind l => base == 2 && decide (InRange kind) && l.all (fun v => decide (Wide v)) && n.all (· == l.length)
  | .reals l => base == 3 && n.all (· == l.length)
  | .strs l => base == 10 && l.all okString && n.all (· == l.length)
  | .refs l => base == 8 && l.all (· ≤ nobjs) && n.all (· == l.length)
  | .vecs l => 4 ≤ base && base ≤ 7 && l.all (·.length == vecSize base) && n.all (· == l.length)
  | .structs k cols =>
    base == 9 && n.all (· == k) && decide (k < 2 ^ 31) &&
    match classMembers decls cls with
    | none => false
    | some ms => colsOK decls nobjs k ms cols
  | _ => false
/-- columns of a STRUCT array of `n` elements: only scalar member types can be present -/
def colsOK (decls : List TypeDecl) (nobjs : Nat) (n : Nat) : List MemberDecl → List Val → Bool
  | [], [] => true
  | m :: ms, v :: vs =>
    (match v with
     | .absent => true
     | v => !isArray m.ty && !isTuple m.ty && bodyOK decls nobjs (baseType m.ty) m.cls (some n) v) &&
    colsOK decls nobjs n ms vs
  | _, _ => false
end

/-- a present / absent member of an object -/
def fieldOK (decls : List TypeDecl) (nobjs : Nat) (m : MemberDecl) : Val → Bool
  | .absent => true
  | .byte _ => m.ty == 1
  | .int v => m.ty == 2 && decide (Wide v)
  | .real _ => m.ty == 3
  | .str s => m.ty == 10 && okString s
  | .ref i => m.ty == 8 && i ≤ nobjs
  | v => (isArray m.ty && decide (v.len < 2 ^ 31) && bodyOK decls nobjs (baseType m.ty) m.cls none v)
         -- kinds the reader does not implement: their layout is only fixed up to the element values
         || (!implementedField m.ty && bodyOK decls nobjs (baseType m.ty) m.cls none v)

def fieldsOK (decls : List TypeDecl) (nobjs : Nat) : List MemberDecl → List Val → Bool
  | [], [] => true
  | m :: ms, v :: vs => fieldOK decls nobjs m v && fieldsOK decls nobjs ms vs
  | _, _ => false

def memberOK (m : MemberDecl) : Bool :=
  okString m.name && decide (m.ty < 64) && decide (InRange m.tuple) && okString m.cls

def itemsOK (nobjs : Nat) : List TypeDecl → List Item → Bool
  | _, [] => true
  | decls, .type t :: r =>
    okString t.name && t.name != n_object && !(decls.any (·.name == t.name)) && decide (InRange t.version) &&
    decide (t.parent ≤ decls.length) && decide (t.members.length < 2 ^ 31) && t.members.all memberOK &&
    itemsOK nobjs (decls ++ [t]) r
  | decls, .obj ty fs :: r =>
    decide (ty ≤ decls.length) && fieldsOK decls nobjs (membersOf decls ty) fs && itemsOK nobjs decls r

/-- every index resolves, every value has the shape its member type demands, integers fit `i32`
(without `i32::MIN`), strings are UTF-8, type names are unique -/
def wf (f : TagFile) : Bool := itemsOK (objectsOf f).length [] f

/-- the file instantiates a member of a kind the reader has no code for (recorded finding
`havok-unimplemented-member-kind`): a present tuple / scalar vector / scalar struct / void member of
an object, or an absent scalar struct -/
def usesUnimplemented : List TypeDecl → List Item → Bool
  | _, [] => false
  | decls, .type t :: r => usesUnimplemented (decls ++ [t]) r
  | decls, .obj ty fs :: r =>
    ((membersOf decls ty).zip fs).any (fun (m, v) =>
      if v.present then !implementedField m.ty else !implementedDefault m.ty) ||
    usesUnimplemented decls r

mutual
/-- an array value / column stores at least one byte per element -/
def storesData : Val → Bool
  | .absent => false
  | .structs _ cols => colsStore cols
  | _ => true
def colsStore : List Val → Bool
  | [] => false
  | v :: r => storesData v || colsStore r
end

/-- the file has an object member that is a STRUCT array with elements but without any per-element
data (every column absent, recursively): its element count can exceed the number of bytes that
follow (recorded finding `havok-array-length-guard`) -/
def hasDatalessStructArray : List Item → Bool
  | [] => false
  | .type _ :: r => hasDatalessStructArray r
  | .obj _ fs :: r =>
    fs.any (fun v => match v with
      | .structs n cols => decide (1 ≤ n) && !colsStore cols
      | _ => false) || hasDatalessStructArray r

mutual
/-- the value contains an integer outside `i32` (without `i32::MIN`) -/
def valWide : Val → Bool
  | .int v => !decide (InRange v)
  | .ints _ l => l.any (fun v => !decide (InRange v))
  | .structs _ cols => colsWide cols
  | _ => false
def colsWide : List Val → Bool
  | [] => false
  | v :: r => valWide v || colsWide r
end

/-- the file stores an INT value that does not fit the reader's `i32` (recorded finding
`havok-int-beyond-i32`) -/
def usesWideInt : List Item → Bool
  | [] => false
  | .type _ :: r => usesWideInt r
  | .obj _ fs :: r => colsWide fs || usesWideInt r

/-- for every present array member among `vs`: its element count and the number of bytes between its
count and the end of the tag file (`after` = bytes behind these members) -/
def fieldTails (p : Enc) : List Bytes → List Nat → List Val → Nat → List (Nat × Nat)
  | tbl, ty :: tys, v :: vs, after =>
    let (a, tbl1) := encField p tbl ty v
    let rest := (encFields p tbl1 tys vs).1.length + after
    (if isArray ty && v.present then [(v.len, a.length - (p.nat v.len).length + rest)] else []) ++
      fieldTails p tbl1 tys vs after
  | _, _, _, _ => []

/-- the same for every object of a file (`encItems`' traversal) -/
def itemTails (p : Enc) : List Bytes → List TypeDecl → List Item → List (Nat × Nat)
  | _, _, [] => []
  | tbl, decls, .type t :: r => itemTails p (encType p tbl t).2 (decls ++ [t]) r
  | tbl, decls, .obj ty fields :: r =>
    let tys := (membersOf decls ty).map (·.ty)
    let tbl' := (encFields p tbl tys fields).2
    fieldTails p tbl tys fields ((encItems p tbl' decls r).length + (p.int 7).length) ++
      itemTails p tbl' decls r

/-- some array has more elements than bytes follow its element count (recorded finding
`havok-array-length-guard`; only a STRUCT array without per-element data can) -/
def guardTrips (p : Enc) (f : TagFile) : Bool :=
  (itemTails p initStrings [] f).any fun (n, tail) => decide (tail < n)

/-! ### the standard skeleton file -/

def n_hkRootLevelContainer : Bytes :=
  [104, 107, 82, 111, 111, 116, 76, 101, 118, 101, 108, 67, 111, 110, 116, 97, 105, 110, 101, 114]
def n_hkRootLevelContainerNamedVariant : Bytes :=
  [104, 107, 82, 111, 111, 116, 76, 101, 118, 101, 108, 67, 111, 110, 116, 97, 105, 110, 101, 114,
   78, 97, 109, 101, 100, 86, 97, 114, 105, 97, 110, 116]
def n_hkBaseObject : Bytes := [104, 107, 66, 97, 115, 101, 79, 98, 106, 101, 99, 116]
def n_hkReferencedObject : Bytes :=
  [104, 107, 82, 101, 102, 101, 114, 101, 110, 99, 101, 100, 79, 98, 106, 101, 99, 116]
def n_memSizeAndFlags : Bytes := [109, 101, 109, 83, 105, 122, 101, 65, 110, 100, 70, 108, 97, 103, 115]
def n_referenceCount : Bytes := [114, 101, 102, 101, 114, 101, 110, 99, 101, 67, 111, 117, 110, 116]
def n_animations : Bytes := [97, 110, 105, 109, 97, 116, 105, 111, 110, 115]
def n_attachments : Bytes := [97, 116, 116, 97, 99, 104, 109, 101, 110, 116, 115]
def n_skins : Bytes := [115, 107, 105, 110, 115]
def n_hkaSkeleton : Bytes := [104, 107, 97, 83, 107, 101, 108, 101, 116, 111, 110]
def n_referenceFloats : Bytes := [114, 101, 102, 101, 114, 101, 110, 99, 101, 70, 108, 111, 97, 116, 115]
def n_floatSlots : Bytes := [102, 108, 111, 97, 116, 83, 108, 111, 116, 115]
def n_localFrames : Bytes := [108, 111, 99, 97, 108, 70, 114, 97, 109, 101, 115]
def n_partitions : Bytes := [112, 97, 114, 116, 105, 116, 105, 111, 110, 115]
def n_hkaBone : Bytes := [104, 107, 97, 66, 111, 110, 101]
def n_lockTranslation : Bytes := [108, 111, 99, 107, 84, 114, 97, 110, 115, 108, 97, 116, 105, 111, 110]
def n_hkaAnimation : Bytes := [104, 107, 97, 65, 110, 105, 109, 97, 116, 105, 111, 110]
def n_hkaAnimationBinding : Bytes :=
  [104, 107, 97, 65, 110, 105, 109, 97, 116, 105, 111, 110, 66, 105, 110, 100, 105, 110, 103]
def n_hkaBoneAttachment : Bytes :=
  [104, 107, 97, 66, 111, 110, 101, 65, 116, 116, 97, 99, 104, 109, 101, 110, 116]
def n_hkaMeshBinding : Bytes := [104, 107, 97, 77, 101, 115, 104, 66, 105, 110, 100, 105, 110, 103]
def n_hkaSkeletonLocalFrameOnBone : Bytes :=
  [104, 107, 97, 83, 107, 101, 108, 101, 116, 111, 110, 76, 111, 99, 97, 108, 70, 114, 97, 109, 101,
   79, 110, 66, 111, 110, 101]
def n_hkaSkeletonPartition : Bytes :=
  [104, 107, 97, 83, 107, 101, 108, 101, 116, 111, 110, 80, 97, 114, 116, 105, 116, 105, 111, 110]

def tRoot : TypeDecl :=
  ⟨n_hkRootLevelContainer, 0, 0, [⟨n_namedVariants, 0x19, 0, n_hkRootLevelContainerNamedVariant⟩]⟩
def tNamedVariant : TypeDecl :=
  ⟨n_hkRootLevelContainerNamedVariant, 0, 0,
    [⟨n_name, 10, 0, []⟩, ⟨n_className, 10, 0, []⟩, ⟨n_variant, 8, 0, n_hkReferencedObject⟩]⟩
def tBase : TypeDecl := ⟨n_hkBaseObject, 0, 0, []⟩
def tReferenced : TypeDecl :=
  ⟨n_hkReferencedObject, 0, 3, [⟨n_memSizeAndFlags, 2, 0, []⟩, ⟨n_referenceCount, 2, 0, []⟩]⟩
def tContainer : TypeDecl :=
  ⟨n_hkaAnimationContainer, 1, 4,
    [⟨n_skeletons, 0x18, 0, n_hkaSkeleton⟩, ⟨n_animations, 0x18, 0, n_hkaAnimation⟩,
     ⟨n_bindings, 0x18, 0, n_hkaAnimationBinding⟩, ⟨n_attachments, 0x18, 0, n_hkaBoneAttachment⟩,
     ⟨n_skins, 0x18, 0, n_hkaMeshBinding⟩]⟩
def tSkeleton : TypeDecl :=
  ⟨n_hkaSkeleton, 5, 4,
    [⟨n_name, 10, 0, []⟩, ⟨n_parentIndices, 0x12, 0, []⟩, ⟨n_bones, 0x19, 0, n_hkaBone⟩,
     ⟨n_referencePose, 0x16, 0, []⟩, ⟨n_referenceFloats, 0x13, 0, []⟩, ⟨n_floatSlots, 0x1a, 0, []⟩,
     ⟨n_localFrames, 0x19, 0, n_hkaSkeletonLocalFrameOnBone⟩,
     ⟨n_partitions, 0x19, 0, n_hkaSkeletonPartition⟩]⟩
def tBone : TypeDecl := ⟨n_hkaBone, 0, 0, [⟨n_name, 10, 0, []⟩, ⟨n_lockTranslation, 1, 0, []⟩]⟩

/-- the type table Havok 2012 writes for a skeleton (types 1..7; the classes of the members that
skeleton files leave empty are referenced by name only) -/
def stdTypes : List TypeDecl := [tRoot, tNamedVariant, tBase, tReferenced, tContainer, tSkeleton, tBone]

/-- a bone as stored: the fourth components of translation and scale and the lock flag are in the
file but not in the parsed `Bone` -/
structure BoneRec where
  bone : Bone
  posW : UInt32
  scaleW : UInt32
  lock : UInt8
  deriving DecidableEq, Repr, Inhabited

structure Skel where
  /-- `hkaSkeleton.name` -/
  name : Bytes
  /-- name of the named variant (the game's files say `hkaAnimationContainer` again) -/
  variantName : Bytes
  /-- the element-kind word in front of `parentIndices` -/
  intKind : Int
  bones : List BoneRec
  deriving Repr, Inhabited

def BoneRec.pose (b : BoneRec) : List UInt32 :=
  [b.bone.position.1, b.bone.position.2.1, b.bone.position.2.2, b.posW,
   b.bone.rotation.1, b.bone.rotation.2.1, b.bone.rotation.2.2.1, b.bone.rotation.2.2.2,
   b.bone.scale.1, b.bone.scale.2.1, b.bone.scale.2.2, b.scaleW]

/-- root container (object 1) → animation container (2) → skeleton (3) -/
def stdFile (s : Skel) : TagFile :=
  stdTypes.map Item.type ++ [
    .obj 1 [.structs 1 [.strs [s.variantName], .strs [n_hkaAnimationContainer], .refs [2]]],
    .obj 5 [.absent, .absent, .refs [3], .absent, .absent, .absent, .absent],
    .obj 6 [.absent, .absent, .str s.name, .ints s.intKind (s.bones.map (·.bone.parent)),
      .structs s.bones.length [.strs (s.bones.map (·.bone.name)), .bytes (s.bones.map (·.lock))],
      .vecs (s.bones.map BoneRec.pose), .absent, .absent, .absent, .absent]]

/-- what `c16_skeleton` assumes about a skeleton: strings are UTF-8 and shorter than 2^31 bytes,
parent indices and the kind word fit an `i32` (without `i32::MIN`), fewer than 2^31 bones -/
def Skel.WF (s : Skel) : Prop :=
  okString s.name ∧ okString s.variantName ∧ InRange s.intKind ∧ s.bones.length < 2 ^ 31 ∧
  ∀ b ∈ s.bones, okString b.bone.name ∧ InRange b.bone.parent

end Physis.Spec.HavokTag

/-! ### the SKLB container -/
namespace Physis.Spec.Sklb

/-- what precedes the Havok payload.  `old` = version `0x31323030` (16-bit offsets), otherwise
version `0x31333030` / `0x31333031` (32-bit offsets, one more word) -/
structure Header where
  version : UInt32
  unkOffset : UInt32
  unk : UInt32
  bodyId : UInt32
  mapper1 : UInt32
  mapper2 : UInt32
  mapper3 : UInt32
  /-- bytes between the fixed header and the Havok data (skipped through `havok_offset`) -/
  gap : Bytes
  deriving Repr

def vOld : UInt32 := 0x31323030
def vNew0 : UInt32 := 0x31333030
def vNew1 : UInt32 := 0x31333031

def Header.WF (h : Header) : Prop :=
  (h.version = vOld ∧ 28 + h.gap.length < 2 ^ 16) ∨
  ((h.version = vNew0 ∨ h.version = vNew1) ∧ 36 + h.gap.length < 2 ^ 32)
instance (h : Header) : Decidable h.WF := by unfold Header.WF; infer_instance

def magic : Bytes := [0x62, 0x6C, 0x6B, 0x73]

/-- `blks`, version, offsets and ids, the gap, then the Havok tag file up to the end of the file -/
def encode (h : Header) (payload : Bytes) : Bytes :=
  if h.version = vOld then
    magic ++ putU32le h.version ++ putU16le h.unkOffset.toUInt16 ++
      putU16le (UInt16.ofNat (28 + h.gap.length)) ++ putU32le h.bodyId ++ putU32le h.mapper1 ++
      putU32le h.mapper2 ++ putU32le h.mapper3 ++ h.gap ++ payload
  else
    magic ++ putU32le h.version ++ putU32le h.unkOffset ++ putU32le (UInt32.ofNat (36 + h.gap.length)) ++
      putU32le h.unk ++ putU32le h.bodyId ++ putU32le h.mapper1 ++ putU32le h.mapper2 ++
      putU32le h.mapper3 ++ h.gap ++ payload

end Physis.Spec.Sklb
