import PhysisModel.Base.Bytes
/-!
The simplest DEFLATE compressor: one final *stored* block (RFC 1951 §3.2.4).  It shows that the
hypothesis "the compressed block inflates to its content" used by C02's theorems is satisfiable
for every block content of at most 65 535 bytes (C02's blocks are at most 16 000 bytes).
-/
namespace Physis.Spec.Deflate

def storedBlock (d : Bytes) : Bytes :=
  [1, UInt8.ofNat (d.length % 256), UInt8.ofNat (d.length / 256),
      UInt8.ofNat ((65535 - d.length) % 256), UInt8.ofNat ((65535 - d.length) / 256)] ++ d

end Physis.Spec.Deflate
