import PhysisModel.Base.Str
import PhysisModel.Spec.Crc32
/-!
# SqPack installations: the reference semantics of archive lookup (C01)

An *archive* is described abstractly: which directories sit below `<game>/sqpack`, and for every
(expansion, category, chunk, index kind) whether an index file is absent, is a well-formed index
file with a given entry table, or is junk that is not an index file.  `Stored` / `locate` say
which game paths the archive contains and where; `encodeIndex` is the on-disk encoding of an index
file (the layout Physis reads: 1024-byte SqPack header, 1024-byte index header, entry table, data
segment, folder segment).  `Realises` ties a concrete disk (a map from (directory, file name) to
bytes) to an archive.

This file must not import any model of the code.
-/
namespace Physis.Spec.Archive
open Physis Physis.Str

/-! ### platforms, categories, file names -/

inductive Platform | win32 | ps3 | ps4 | ps5 | xbox
deriving DecidableEq, Repr

def Platform.id : Platform → UInt8
  | .win32 => 0 | .ps3 => 1 | .ps4 => 2 | .ps5 => 3 | .xbox => 4

/-- platform part of a file name: win32, ps3, ps4, ps5, lys -/
def Platform.suffix : Platform → Bytes
  | .win32 => [119,105,110,51,50] | .ps3 => [112,115,51] | .ps4 => [112,115,52]
  | .ps5 => [112,115,53] | .xbox => [108,121,115]

inductive Category
  | common | bgcommon | bg | cut | chara | shader | ui | sound | vfx | uiScript | exd
  | gameScript | music | sqpackTest | debug
deriving DecidableEq, Repr

def Category.id : Category → Nat
  | .common => 0x00 | .bgcommon => 0x01 | .bg => 0x02 | .cut => 0x03 | .chara => 0x04
  | .shader => 0x05 | .ui => 0x06 | .sound => 0x07 | .vfx => 0x08 | .uiScript => 0x09
  | .exd => 0x0A | .gameScript => 0x0B | .music => 0x0C | .sqpackTest => 0x12 | .debug => 0x13

/-- first path component ↦ category (the known root folders of the game's virtual file system) -/
def categoryNames : List (Bytes × Category) := [
  ([99,111,109,109,111,110], .common),                              -- common
  ([98,103,99,111,109,109,111,110], .bgcommon),                     -- bgcommon
  ([98,103], .bg),                                                  -- bg
  ([99,117,116], .cut),                                             -- cut
  ([99,104,97,114,97], .chara),                                     -- chara
  ([115,104,97,100,101,114], .shader),                              -- shader
  ([117,105], .ui),                                                 -- ui
  ([115,111,117,110,100], .sound),                                  -- sound
  ([118,102,120], .vfx),                                            -- vfx
  ([117,105,95,115,99,114,105,112,116], .uiScript),                 -- ui_script
  ([101,120,100], .exd),                                            -- exd
  ([103,97,109,101,95,115,99,114,105,112,116], .gameScript),        -- game_script
  ([109,117,115,105,99], .music),                                   -- music
  ([115,113,112,97,99,107,95,116,101,115,116], .sqpackTest),        -- sqpack_test
  ([100,101,98,117,103], .debug)]                                   -- debug

def catOfName (s : Bytes) : Option Category := categoryNames.lookup s

inductive Kind | index1 | index2
deriving DecidableEq, Repr

/-- "ffxiv" -/
def baseDir : Bytes := [102,102,120,105,118]
/-- "ex<e>" -/
def exName (e : Nat) : Bytes := [101,120] ++ dec e
/-- directory of expansion `e` below `sqpack` (0 = base game) -/
def repoDir (e : Nat) : Bytes := if e = 0 then baseDir else exName e

/-- `CCEEKK.<platform>` : category (2 hex digits), expansion, chunk (2 decimal digits each) -/
def stem (pl : Platform) (e : Nat) (c : Category) (chunk : Nat) : Bytes :=
  hex2 c.id ++ dec2 e ++ dec2 chunk ++ [46] ++ pl.suffix

def indexName (pl : Platform) (e : Nat) (c : Category) (chunk : Nat) (k : Kind) : Bytes :=
  stem pl e c chunk ++ [46,105,110,100,101,120] ++ (match k with | .index1 => ([] : Bytes) | .index2 => [50])

def datName (pl : Platform) (e : Nat) (c : Category) (chunk : Nat) (datId : Nat) : Bytes :=
  stem pl e c chunk ++ [46,100,97,116] ++ dec datId

/-! ### index files -/

inductive Hash
  | split (name path : UInt32)   -- index: hash of the file name, hash of the folder
  | full (h : UInt32)            -- index2: hash of the whole path
deriving DecidableEq, Repr

def Hash.kind : Hash → Kind
  | .split .. => .index1
  | .full .. => .index2

structure Entry where
  hash : Hash
  synonym : Bool
  datId : UInt8
  offset : UInt64
deriving DecidableEq, Repr

/-- dat id fits 3 bits; the offset is a multiple of 128 below 2^35 (28 bits of 128-byte units) -/
def Entry.wf (e : Entry) : Bool :=
  e.datId < 8 && e.offset % 128 == 0 && e.offset < 0x800000000

structure IndexFile where
  platform : Platform
  kind : Kind
  entries : List Entry
  /-- data segment (a multiple of 256 bytes in retail files; content not interpreted) -/
  dataSeg : Bytes
  /-- folder segment (16-byte records; content not interpreted by lookup) -/
  folderSeg : Bytes
deriving Repr

def recSize : Kind → Nat
  | .index1 => 16
  | .index2 => 8

def IndexFile.wf (f : IndexFile) : Bool :=
  f.entries.all (fun e => e.wf && decide (e.hash.kind = f.kind)) &&
  decide (2048 + recSize f.kind * f.entries.length + f.dataSeg.length + f.folderSeg.length < 4294967296)

def zeros (n : Nat) : Bytes := List.replicate n 0

/-- "SqPack\0\0" -/
def sqpackMagic : Bytes := [83,113,80,97,99,107,0,0]

/-- the 32-bit location word of an entry: bit 0 synonym, bits 1..3 dat id, bits 4..31 offset/128 -/
def entryWord (e : Entry) : UInt32 :=
  (e.offset >>> 3).toUInt32 ||| (e.datId.toUInt32 <<< 1) ||| (if e.synonym then 1 else 0)

def encodeEntry (e : Entry) : Bytes :=
  match e.hash with
  | .split name path => putU32le name ++ putU32le path ++ putU32le (entryWord e) ++ putU32le 0
  | .full h => putU32le h ++ putU32le (entryWord e)

def encodeEntries (es : List Entry) : Bytes := (es.map encodeEntry).flatten

/-- 1024-byte SqPack file header (type 2 = index; SHA-1 fields are not verified by readers and
are written as zero) -/
def encodeSqPackHeader (pl : Platform) : Bytes :=
  sqpackMagic ++ [pl.id, 0, 0, 0] ++ putU32le 1024 ++ putU32le 1 ++ [2, 0, 0, 0] ++
  putU32le 0 ++ putU32le 0 ++ [0xFF, 0xFF, 0xFF, 0xFF] ++ zeros 924 ++ zeros 20 ++ zeros 44

/-- segment descriptor: leading word, offset, size, 60 bytes of hash area -/
def encodeDescriptor (count offset size : UInt32) : Bytes :=
  putU32le count ++ putU32le offset ++ putU32le size ++ zeros 20 ++ zeros 40

def Kind.byte : Kind → UInt8
  | .index1 => 0
  | .index2 => 1

/-- 1024-byte index header as Physis lays it out (size; four 72-byte descriptors, 4 bytes after
the first; index type; reserved; hash) -/
def encodeIndexHeader (k : Kind) (entOff entSize dataOff dataSize folderOff folderSize : UInt32) : Bytes :=
  putU32le 1024 ++ encodeDescriptor 1 entOff entSize ++ zeros 4 ++
  encodeDescriptor 1 dataOff dataSize ++ encodeDescriptor 0 0 0 ++
  encodeDescriptor 0 folderOff folderSize ++ [k.byte, 0, 0, 0] ++ zeros 656 ++ zeros 20 ++ zeros 44 ++
  zeros 4

def encodeIndex (f : IndexFile) : Bytes :=
  let ents := encodeEntries f.entries
  let entOff := 2048
  let dataOff := entOff + ents.length
  let folderOff := dataOff + f.dataSeg.length
  encodeSqPackHeader f.platform ++
  encodeIndexHeader f.kind entOff.toUInt32 ents.length.toUInt32 dataOff.toUInt32
    f.dataSeg.length.toUInt32 folderOff.toUInt32 f.folderSeg.length.toUInt32 ++
  ents ++ f.dataSeg ++ f.folderSeg

/-! ### archives -/

inductive Slot
  | absent
  | file (f : IndexFile)
  | junk (bs : Bytes)      -- a file with that name that is not a SqPack file

def Slot.bytes : Slot → Option Bytes
  | .absent => none
  | .file f => some (encodeIndex f)
  | .junk bs => some bs

def Slot.wf : Slot → Bool
  | .absent => true
  | .file f => f.wf
  | .junk bs => bs.take 8 != sqpackMagic

structure Archive where
  platform : Platform
  /-- names of the directories below `<game>/sqpack`, in the order the OS lists them -/
  dirs : List Bytes
  /-- expansion (0 = base) → category → chunk → kind → index file -/
  slot : Nat → Category → Nat → Kind → Slot

def isDigit (b : UInt8) : Bool := 48 ≤ b && b ≤ 57

/-- a directory below `sqpack` is the base game, an expansion `ex1`..`ex9`, or something that is
not taken for a repository (no dot, third character not a digit) -/
def dirOK (n : Bytes) : Bool :=
  n == baseDir || (List.range' 1 9).any (fun e => n == exName e) ||
  (!n.contains 46 && match n with | _ :: _ :: c :: _ => !isDigit c | _ => false)

/-- every directory name is admissible and every index file of the expansions 0..9, chunks
0..254 (the ones lookup can name) is well-formed -/
def Archive.WF (a : Archive) : Prop :=
  (∀ n ∈ a.dirs, dirOK n = true) ∧ ∀ e c ch k, e < 10 → ch < 255 → (a.slot e c ch k).wf = true

/-- a disk (directory below sqpack, file name) ↦ content realises the archive when every index
file name of the expansions 0..9, chunks 0..254 holds exactly what the archive says (other files —
dat files, version files, anything else — are free) -/
def Realises (disk : Bytes → Bytes → Option Bytes) (a : Archive) : Prop :=
  ∀ e c ch k, e < 10 → ch < 255 →
    disk (repoDir e) (indexName a.platform e c ch k) = (a.slot e c ch k).bytes

def allCategories : List Category :=
  [.common, .bgcommon, .bg, .cut, .chara, .shader, .ui, .sound, .vfx, .uiScript, .exd,
   .gameScript, .music, .sqpackTest, .debug]

/-- every (expansion, category, chunk, kind) lookup can name -/
def allSlots : List (Nat × Category × Nat × Kind) :=
  (List.range 10).flatMap fun e => allCategories.flatMap fun c => (List.range 255).flatMap fun ch =>
    [(e, c, ch, Kind.index1), (e, c, ch, Kind.index2)]

/-- the canonical disk of an archive: its index files under their names, nothing else -/
def diskOf (a : Archive) : Bytes → Bytes → Option Bytes := fun d n =>
  match allSlots.find? (fun x => repoDir x.1 == d && indexName a.platform x.1 x.2.1 x.2.2.1 x.2.2.2 == n) with
  | some x => (a.slot x.1 x.2.1 x.2.2.1 x.2.2.2).bytes
  | none => none

/-! ### what is stored, and where -/

def jamcrc (s : Bytes) : UInt32 := Crc32.crcBitwise 0xFFFFFFFF 0 s

/-- hash of a lower-cased path under an index kind (`none`: no folder separator) -/
def hashOf (k : Kind) (lp : Bytes) : Option Hash :=
  match k with
  | .index2 => some (.full (jamcrc lp))
  | .index1 =>
    match rsplitOnce slash lp with
    | some (folder, file) => some (.split (jamcrc file) (jamcrc folder))
    | none => none

/-- the expansion a repository token names: `exN` if that directory exists, else the base game -/
def expansionOf (a : Archive) (tok : Bytes) : Nat :=
  match (List.range' 1 9).find? (fun e => exName e == tok) with
  | some e => if a.dirs.contains tok then e else 0
  | none => 0

/-- repository and category a path names (case-insensitive); `none` if the path has no `/` or its
first component is not a known category -/
def resolve (a : Archive) (p : Bytes) : Option (Nat × Category) :=
  match splitOnce slash (lower p) with
  | none => none
  | some (cat, rest) =>
    match catOfName cat with
    | none => none
    | some c => some (expansionOf a (firstToken slash rest), c)

def findIn (f : IndexFile) (lp : Bytes) : Option Entry :=
  match hashOf f.kind lp with
  | some h => f.entries.find? (fun e => e.hash == h)
  | none => none

def Slot.find : Slot → Bytes → Option Entry
  | .file f, lp => findIn f lp
  | _, _ => none

/-- search order: chunk ascending, `index` before `index2` -/
def candidates : List (Nat × Kind) :=
  (List.range 255).flatMap (fun ch => [(ch, Kind.index1), (ch, Kind.index2)])

structure Loc where
  exp : Nat
  cat : Category
  chunk : Nat
  datId : UInt8
  offset : UInt64
deriving DecidableEq, Repr

def locate (a : Archive) (p : Bytes) : Option Loc :=
  match resolve a p with
  | none => none
  | some (e, c) =>
    candidates.findSome? (fun (ch, k) =>
      match (a.slot e c ch k).find (lower p) with
      | some en => some ⟨e, c, ch, en.datId, en.offset⟩
      | none => none)

/-- the path's hash occurs in an index file of the repository and category it names -/
def Stored (a : Archive) (p : Bytes) : Prop :=
  ∃ e c, resolve a p = some (e, c) ∧ ∃ ch, ch < 255 ∧ ∃ k f, a.slot e c ch k = .file f ∧
    ∃ h, hashOf f.kind (lower p) = some h ∧ ∃ en ∈ f.entries, en.hash = h

/-- dat file (directory, name) a location designates -/
def Loc.datFile (pl : Platform) (l : Loc) : Bytes × Bytes :=
  (repoDir l.exp, datName pl l.exp l.cat l.chunk l.datId.toNat)

end Physis.Spec.Archive
