import PhysisModel.Base.Bytes
import PhysisModel.Spec.Fiin   -- only for the UTF-8 automaton (`utf8Valid`)
/-!
# Gear-set files (`GEARSET.DAT`) — the documented layout, specification side

```
0x00 u32 file type 0x006D0005   0x04 u32 max size 45205   0x08 u32 content size 45205   0x0C 4 × 0   0x10 0xFF
0x11 body, every byte XORed with 0x73:
     +0 u8 ?   +1 u8 current set   +2 u16 ?   +4 100 × gear set (452 bytes each)
gear set:  +0 u8 index   +1 name, NUL padded to 47   +48 u64 ?   +56 14 × slot (28 bytes)   +448 u32 facewear (0 = none)
slot:      +0 u32 item id with the marker bits 1 000 000 (0xF4240) set   +4 u32 glamour id (0 = none)   +8 5 × u32 ?
```
Slot numbers: 0 main hand, 1 off hand, 2 head, 3 body, 4 hands, 5 waist, 6 legs, 7 feet, 8 bracelets,
9 necklace, 10 earrings, 11 ring 1, 12 ring 2, 13 soul crystal.  An empty slot holds the bare marker
and zeros; an unused set is the all-empty set with an empty name.  Integers little endian; the
file is 17 + 45204 = 45221 bytes.  `decode` below is an independent reader with fixed strides.
Nothing here refers to the model of the Rust code.
-/
namespace Physis.Spec.GearSet

structure Slot where
  id : UInt32
  glamour : Option UInt32
  unk1 : UInt32
  unk2 : UInt32
  unk3 : UInt32
  unk4 : UInt32
  unk5 : UInt32
deriving Repr, DecidableEq

structure GearSet where
  index : UInt8
  name : Bytes
  unk : UInt64
  /-- 14 entries, by slot number -/
  slots : List (Option Slot)
  facewear : Option UInt32
deriving Repr, DecidableEq

structure Table where
  unk1 : UInt8
  current : UInt8
  unk3 : UInt16
  /-- 100 entries -/
  sets : List (Option GearSet)
deriving Repr, DecidableEq

def marker : UInt32 := 1000000
def key : UInt8 := 0x73
def numSets : Nat := 100
def numSlots : Nat := 14
def setSize : Nat := 452
def slotSize : Nat := 28
def bodySize : Nat := 45204
def fileSize : Nat := 45221

def slotNames : List String :=
  ["MainHand", "SecondaryHand", "Head", "Body", "Hands", "Waist", "Legs", "Feet", "Bracelets",
   "Necklace", "Earrings", "Ring1", "Ring2", "Soul"]

def optId : Option UInt32 → UInt32
  | some v => v
  | none => 0

def encSlot : Option Slot → Bytes
  | none => putU32le marker ++ List.replicate 24 0
  | some s => putU32le (s.id ||| marker) ++ putU32le (optId s.glamour) ++ putU32le s.unk1 ++
      putU32le s.unk2 ++ putU32le s.unk3 ++ putU32le s.unk4 ++ putU32le s.unk5

def emptySet : GearSet := ⟨0, [], 0, List.replicate 14 none, none⟩

def encSome (g : GearSet) : Bytes :=
  [g.index] ++ (g.name ++ List.replicate (47 - g.name.length) 0) ++ putU64le g.unk ++
    g.slots.flatMap encSlot ++ putU32le (optId g.facewear)

def encSet : Option GearSet → Bytes
  | none => encSome emptySet
  | some g => encSome g

def encBody (t : Table) : Bytes :=
  [t.unk1, t.current] ++ putU16le t.unk3 ++ t.sets.flatMap encSet

def header : Bytes :=
  [0x05, 0x00, 0x6d, 0x00] ++ putU32le 45205 ++ putU32le 45205 ++ [0, 0, 0, 0] ++ [0xFF]

def encode (t : Table) : Bytes := header ++ (encBody t).map (· ^^^ key)

/-! ### independent decoder (fixed strides) -/

def u32At (b : Bytes) (off : Nat) : Option UInt32 := getU32le ((b.drop off).take 4)

def idOpt (v : UInt32) : Option UInt32 := if v = 0 then none else some v

/-- `n` consecutive fixed-size records -/
def chunks : Nat → Nat → Bytes → List Bytes
  | 0, _, _ => []
  | n + 1, size, b => b.take size :: chunks n size (b.drop size)

/-- a 28-byte slot record -/
def decSlot (rec : Bytes) : Option (Option Slot) := do
  let raw ← u32At rec 0
  let gl ← u32At rec 4
  let u1 ← u32At rec 8
  let u2 ← u32At rec 12
  let u3 ← u32At rec 16
  let u4 ← u32At rec 20
  let u5 ← u32At rec 24
  let id := raw &&& ~~~marker
  pure (if id = 0 then none else some ⟨id, idOpt gl, u1, u2, u3, u4, u5⟩)

/-- a 452-byte gear-set record -/
def decSet (rec : Bytes) : Option (Option GearSet) := do
  let index ← rec[0]?
  let name := ((rec.drop 1).take 47).takeWhile (· ≠ 0)
  let unk ← getU64le ((rec.drop 48).take 8)
  let slots ← (chunks 14 28 (rec.drop 56)).mapM decSlot
  let fw ← u32At rec 448
  pure (if name = [] then none else some ⟨index, name, unk, slots, idOpt fw⟩)

def decode (file : Bytes) : Option Table := do
  if file.length ≠ 45221 then none
  if file.take 17 ≠ header then none
  let body := (file.drop 17).map (· ^^^ key)
  let unk1 ← body[0]?
  let current ← body[1]?
  let unk3 ← getU16le ((body.drop 2).take 2)
  let sets ← (chunks 100 452 (body.drop 4)).mapM decSet
  pure ⟨unk1, current, unk3, sets⟩

/-! ### well-formedness -/

/-- the item id does not touch the marker bits and is not zero -/
def IdOK (id : UInt32) : Prop := id &&& marker = 0 ∧ id ≠ 0

def SlotOK (s : Slot) : Prop := IdOK s.id ∧ s.glamour ≠ some 0

def SetOK (g : GearSet) : Prop :=
  g.name ≠ [] ∧ g.name.length ≤ 46 ∧ 0 ∉ g.name ∧ g.slots.length = 14 ∧
  (∀ s ∈ g.slots, ∀ x, s = some x → SlotOK x) ∧ g.facewear ≠ some 0 ∧
  Spec.Fiin.utf8Valid g.name = true      -- a name is text (a Rust `String`)

def WF (t : Table) : Prop := t.sets.length = 100 ∧ ∀ s ∈ t.sets, ∀ g, s = some g → SetOK g

/-- the only clause the library violates (finding `gearsets.id-overlaps-marker`): some item id
shares a bit with the marker 0xF4240 -/
def overlapsMarker (t : Table) : Bool :=
  t.sets.any fun s => match s with
    | none => false
    | some g => g.slots.any fun x => match x with
      | none => false
      | some x => x.id &&& marker != 0

instance (id) : Decidable (IdOK id) := inferInstanceAs (Decidable (id &&& marker = 0 ∧ id ≠ 0))
instance (s) : Decidable (SlotOK s) := inferInstanceAs (Decidable (IdOK s.id ∧ s.glamour ≠ some 0))
instance : (s : Option Slot) → Decidable (∀ x, s = some x → SlotOK x)
  | none => isTrue (fun _ h => nomatch h)
  | some x => if h : SlotOK x then isTrue (fun _ e => by cases e; exact h) else isFalse (fun f => h (f x rfl))
instance (g) : Decidable (SetOK g) :=
  inferInstanceAs (Decidable (g.name ≠ [] ∧ g.name.length ≤ 46 ∧ 0 ∉ g.name ∧ g.slots.length = 14 ∧
    (∀ s ∈ g.slots, ∀ x, s = some x → SlotOK x) ∧ g.facewear ≠ some 0 ∧
    Spec.Fiin.utf8Valid g.name = true))
instance : (s : Option GearSet) → Decidable (∀ g, s = some g → SetOK g)
  | none => isTrue (fun _ h => nomatch h)
  | some x => if h : SetOK x then isTrue (fun _ e => by cases e; exact h) else isFalse (fun f => h (f x rfl))
instance (t) : Decidable (WF t) :=
  inferInstanceAs (Decidable (t.sets.length = 100 ∧ ∀ s ∈ t.sets, ∀ g, s = some g → SetOK g))

def Canonical (b : Bytes) : Prop := ∃ t, WF t ∧ b = encode t

end Physis.Spec.GearSet
