import PhysisModel.Base.Bytes
/-!
Layout of a layer-group file (`.lgb`) that holds one chunk and no layers, as documented by the
repository's sample `resources/tests/empty_planlive.lgb`:

```
0  file_id u32 | file_size i32 (whole file) | total_chunk_count i32 = 1
12 chunk_id u32 | chunk_size i32 = 24 | layer_group_id i32 | name_offset u32 = 16 | layer_offset i32 = 16 | layer_count i32 = 0
36 name bytes, NUL            (name_offset is relative to byte 20)
```
-/
namespace Physis.Spec.Layer

structure EmptyGroup where
  fileId : UInt32
  chunkId : UInt32
  /-- i32, as its bit pattern -/
  layerGroupId : UInt32
  /-- the chunk name (ASCII, no NUL) -/
  name : Bytes
  deriving DecidableEq, Repr

/-- names the format can hold and Physis' byte-to-char reader returns unchanged: ASCII without NUL;
the whole file must be shorter than 2^31 bytes (`file_size` is an i32) -/
def WF (g : EmptyGroup) : Prop := (∀ c ∈ g.name, c ≠ 0 ∧ c < 128) ∧ g.name.length + 37 < 2 ^ 31
instance (g : EmptyGroup) : Decidable (WF g) := by unfold WF; infer_instance

def encode (g : EmptyGroup) : Bytes :=
  putU32le g.fileId ++ (putU32le (UInt32.ofNat (g.name.length + 37)) ++ (putU32le 1 ++
  (putU32le g.chunkId ++ (putU32le 24 ++ (putU32le g.layerGroupId ++ (putU32le 16 ++
  (putU32le 16 ++ (putU32le 0 ++ (g.name ++ [0])))))))))

end Physis.Spec.Layer
