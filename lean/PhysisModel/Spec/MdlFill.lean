import PhysisModel.Spec.Mdl
/-!
# Declaration blocks whose unused bytes are arbitrary (C06)

`Spec.Mdl.encDecl` writes zeros wherever a 17-slot vertex-declaration block carries no
information: the three padding bytes of every element, the four fields and the padding of the
end-marker slot, and every slot behind the marker.  The format gives those bytes no meaning (the
library's own writer zeroes them, files from other tools need not), so the property quantifies
over **every** value of them.  `encDeclF d f` is the same block with those bytes supplied by `f`;
`encDecl d` is the instance `DeclFill.zero d`.  The only constraint is the one the format itself
imposes on a slot that is read as an element: the marker slot's type and usage bytes are enum
discriminants (`validType`, `validUsage`) — the reader decodes the whole slot before it looks at
the stream byte.

This file does not import any model of the code.
-/
namespace Physis.Spec.Mdl
open Physis Physis.Mdl

/-- the bytes of a declaration block that carry no information -/
structure DeclFill where
  /-- three padding bytes per element -/
  pads : List (UInt8 × UInt8 × UInt8)
  /-- offset, type, usage, usage index of the end-marker slot (its stream byte is 0xFF) -/
  mkOffset : UInt8
  mkType : UInt8
  mkUsage : UInt8
  mkIndex : UInt8
  mkPad : UInt8 × UInt8 × UInt8
  /-- the slots behind the marker -/
  tail : Bytes
deriving Repr, Inhabited

def encElementP (e : VertexElement) (p : UInt8 × UInt8 × UInt8) : Bytes :=
  [e.stream, e.offset, e.vertexType, e.vertexUsage, e.usageIndex, p.1, p.2.1, p.2.2]

def encElementsP : List VertexElement → List (UInt8 × UInt8 × UInt8) → Bytes
  | e :: es, p :: ps => encElementP e p ++ encElementsP es ps
  | _, _ => []

def markerF (f : DeclFill) : Bytes :=
  [0xFF, f.mkOffset, f.mkType, f.mkUsage, f.mkIndex, f.mkPad.1, f.mkPad.2.1, f.mkPad.2.2]

/-- one 17-slot declaration block with the given don't-care bytes -/
def encDeclF (d : List VertexElement) (f : DeclFill) : Bytes :=
  encElementsP d f.pads ++ (markerF f ++ f.tail)

/-- the shape a filler must have for a declaration of `d.length` elements -/
def declFillOk (d : List VertexElement) (f : DeclFill) : Bool :=
  f.pads.length == d.length && validType f.mkType && validUsage f.mkUsage &&
  f.tail.length == (16 - d.length) * 8

/-- the filler `encDecl` uses: zeros everywhere -/
def DeclFill.zero (d : List VertexElement) : DeclFill :=
  { pads := List.replicate d.length (0, 0, 0), mkOffset := 0, mkType := 0, mkUsage := 0, mkIndex := 0,
    mkPad := (0, 0, 0), tail := zeros ((16 - d.length) * 8) }

def encDeclsF : List (List VertexElement) → List DeclFill → Bytes
  | d :: ds, f :: fs => encDeclF d f ++ encDeclsF ds fs
  | _, _ => []

def declFillsOk : List (List VertexElement) → List DeclFill → Bool
  | d :: ds, f :: fs => declFillOk d f && declFillsOk ds fs
  | [], [] => true
  | _, _ => false

/-- the runtime block with filled declaration blocks -/
def encModelDataF (version : UInt32) (d : ModelData) (fs : List DeclFill) : Bytes :=
  encDeclsF d.decls fs ++ encModelData version { d with decls := [] }

/-- a whole `.mdl` file whose declaration blocks carry the given don't-care bytes -/
def encodeMdlF (m : AbstractModel) (fs : List DeclFill) : Bytes :=
  encFileHeader (fileHeader m) ++ (encModelDataF m.version (modelData m) fs ++ sections m)

end Physis.Spec.Mdl
