import PhysisModel.Base.Bytes
import PhysisModel.Base.Half
import PhysisModel.Generated.MtrlTextureUsage
/-!
# Materials (`.mtrl`): what a file stores, and its byte encoding

* `Material` … — the decoded material (shape of the Rust structs of `src/mtrl.rs`; `f32` as bit
  pattern, strings as bytes).
* `MaterialF` — the stored material: header fields, texture paths, the rest of the string heap,
  UV / colour sets, additional data (table flags), colour table rows as the 16 / 32 stored
  half-words of each row, dye rows as their bit fields, shader keys, constants, samplers, shader
  values.
* `encode` — the little-endian layout.  `view` — the meaning: every colour-table component is the
  widening of **its own** stored half (`decodeLegacyRow`, `decodeDawntrailRow` say which word is
  which component), every dye flag its own bit (`packLegacyDye`, `packDawntrailDye` say which),
  constants are the floats at their byte offset, texture paths are the first strings of the heap.
* `WF` — decidable well-formedness.

No model is imported here.
-/
namespace Physis.Spec.Mtrl
open Physis.Generated

/-! ### decoded material -/

structure ShaderKey where
  category : UInt32
  value : UInt32
  deriving DecidableEq, Repr

structure Constant where
  id : UInt32
  numValues : UInt32
  values : List UInt32
  deriving DecidableEq, Repr

structure Sampler where
  /-- index of the `TextureUsage` variant in declaration order -/
  textureUsage : Nat
  flags : UInt32
  textureIndex : UInt8
  unknown1 : UInt8
  unknown2 : UInt8
  unknown3 : UInt8
  deriving DecidableEq, Repr

structure LegacyColorTableRow where
  diffuseColor : List UInt32
  specularStrength : UInt32
  specularColor : List UInt32
  glossStrength : UInt32
  emissiveColor : List UInt32
  tileSet : UInt16
  materialRepeat : List UInt32
  materialSkew : List UInt32
  deriving DecidableEq, Repr

structure DawntrailColorTableRow where
  diffuseColor : List UInt32
  unknown1 : UInt32
  specularColor : List UInt32
  unknown2 : UInt32
  emissiveColor : List UInt32
  unknown3 : UInt32
  sheenRate : UInt32
  sheenTint : UInt32
  sheenAperture : UInt32
  unknown4 : UInt32
  roughness : UInt32
  unknown5 : UInt32
  metalness : UInt32
  anisotropy : UInt32
  unknown6 : UInt32
  sphereMask : UInt32
  unknown7 : UInt32
  unknown8 : UInt32
  shaderIndex : UInt16
  tileSet : UInt16
  tileAlpha : UInt32
  sphereIndex : UInt16
  materialRepeat : List UInt32
  materialSkew : List UInt32
  deriving DecidableEq, Repr

inductive ColorTable
  | legacy (rows : List LegacyColorTableRow)
  | dawntrail (rows : List DawntrailColorTableRow)
  | opaque
  deriving DecidableEq, Repr

structure LegacyColorDyeTableRow where
  template : UInt16
  diffuse : Bool
  specular : Bool
  emissive : Bool
  gloss : Bool
  specularStrength : Bool
  deriving DecidableEq, Repr

structure DawntrailColorDyeTableRow where
  template : UInt16
  channel : UInt8
  diffuse : Bool
  specular : Bool
  emissive : Bool
  scalar3 : Bool
  metalness : Bool
  roughness : Bool
  sheenRate : Bool
  sheenTintRate : Bool
  sheenAperture : Bool
  anisotropy : Bool
  sphereMapIndex : Bool
  sphereMapMask : Bool
  deriving DecidableEq, Repr

inductive ColorDyeTable
  | legacy (rows : List LegacyColorDyeTableRow)
  | dawntrail (rows : List DawntrailColorDyeTableRow)
  | opaque
  deriving DecidableEq, Repr

structure Material where
  shaderPackageName : Bytes
  texturePaths : List Bytes
  shaderKeys : List ShaderKey
  constants : List Constant
  samplers : List Sampler
  colorTable : Option ColorTable
  colorDyeTable : Option ColorDyeTable
  deriving DecidableEq, Repr

/-! ### stored material -/

structure ColorSetF where
  nameOffset : UInt16
  index : UInt16
  deriving DecidableEq, Repr

structure ConstantF where
  constantId : UInt32
  valueOffset : UInt16
  valueSize : UInt16
  deriving DecidableEq, Repr

/-- colour table as stored: per row its 16 (legacy) / 32 (Dawntrail) half-words in file order -/
inductive ColorTableF
  | absent
  | legacy (rows : List (List UInt16))
  | dawntrail (rows : List (List UInt16))
  | opaque
  deriving DecidableEq, Repr

/-- a stored Dawntrail dye row: the decoded fields plus the bits no field uses -/
structure DawntrailDyeF where
  row : DawntrailColorDyeTableRow
  /-- bits 12–15 and 29–31 of the stored word -/
  spare : UInt32
  deriving DecidableEq, Repr

inductive DyeTableF
  | absent
  | legacy (rows : List LegacyColorDyeTableRow)
  | dawntrail (rows : List DawntrailDyeF)
  | opaque
  deriving DecidableEq, Repr

structure MaterialF where
  version : UInt32
  fileSize : UInt16
  dataSetSize : UInt16
  /-- texture paths, stored NUL-terminated at the start of the string heap, in order -/
  textures : List Bytes
  /-- the string heap after the texture paths (set names, shader package name, padding) -/
  heapRest : Bytes
  /-- offset of the shader package name in the heap -/
  shaderPackageNameOffset : UInt16
  /-- one `u32` per texture (offset / flags words; not interpreted by the reader) -/
  textureOffsets : List UInt32
  uvSets : List ColorSetF
  colorSets : List ColorSetF
  /-- first four bytes of the additional data -/
  tableFlags : UInt32
  /-- additional data after the flags word -/
  additionalRest : Bytes
  colorTable : ColorTableF
  dyeTable : DyeTableF
  shaderValueListSize : UInt16
  materialFlags : UInt32
  shaderKeys : List ShaderKey
  constants : List ConstantF
  samplers : List Sampler
  shaderValues : List UInt32
  /-- bytes after the shader values (ignored by the reader) -/
  trailing : Bytes
  deriving DecidableEq, Repr

/-! ### colour rows: which stored word is which component -/

def h (w : UInt16) : UInt32 := halfToF32 w

def decodeLegacyRow : List UInt16 → LegacyColorTableRow
  | [d0, d1, d2, ss, s0, s1, s2, gs, e0, e1, e2, ts, r0, r1, k0, k1] =>
    { diffuseColor := [h d0, h d1, h d2], specularStrength := h ss
      specularColor := [h s0, h s1, h s2], glossStrength := h gs
      emissiveColor := [h e0, h e1, h e2], tileSet := ts
      materialRepeat := [h r0, h r1], materialSkew := [h k0, h k1] }
  | _ => -- not a 16-word row: excluded by `WF`
    { diffuseColor := [], specularStrength := 0, specularColor := [], glossStrength := 0
      emissiveColor := [], tileSet := 0, materialRepeat := [], materialSkew := [] }

def decodeDawntrailRow : List UInt16 → DawntrailColorTableRow
  | [d0, d1, d2, u1, s0, s1, s2, u2, e0, e1, e2, u3, sr, st, sa, u4, ro, u5, me, an, u6, sm, u7, u8,
     si, ts, ta, sp, r0, r1, k0, k1] =>
    { diffuseColor := [h d0, h d1, h d2], unknown1 := h u1
      specularColor := [h s0, h s1, h s2], unknown2 := h u2
      emissiveColor := [h e0, h e1, h e2], unknown3 := h u3
      sheenRate := h sr, sheenTint := h st, sheenAperture := h sa, unknown4 := h u4
      roughness := h ro, unknown5 := h u5, metalness := h me, anisotropy := h an, unknown6 := h u6
      sphereMask := h sm, unknown7 := h u7, unknown8 := h u8
      shaderIndex := si, tileSet := ts, tileAlpha := h ta, sphereIndex := sp
      materialRepeat := [h r0, h r1], materialSkew := [h k0, h k1] }
  | _ => -- not a 32-word row: excluded by `WF`
    { diffuseColor := [], unknown1 := 0, specularColor := [], unknown2 := 0, emissiveColor := []
      unknown3 := 0, sheenRate := 0, sheenTint := 0, sheenAperture := 0, unknown4 := 0, roughness := 0
      unknown5 := 0, metalness := 0, anisotropy := 0, unknown6 := 0, sphereMask := 0, unknown7 := 0
      unknown8 := 0, shaderIndex := 0, tileSet := 0, tileAlpha := 0, sphereIndex := 0
      materialRepeat := [], materialSkew := [] }

/-! ### dye rows: which bit is which flag -/

def bit16 (b : Bool) (i : UInt16) : UInt16 := if b then (1 : UInt16) <<< i else 0
def bit32 (b : Bool) (i : UInt32) : UInt32 := if b then (1 : UInt32) <<< i else 0

/-- legacy dye word: bits 0–4 flags, bits 5–15 template -/
def packLegacyDye (r : LegacyColorDyeTableRow) : UInt16 :=
  bit16 r.diffuse 0 ||| bit16 r.specular 1 ||| bit16 r.emissive 2 ||| bit16 r.gloss 3 |||
  bit16 r.specularStrength 4 ||| (r.template <<< 5)

/-- bits of a Dawntrail dye word that carry a field: 0–11 flags, 16–26 template, 27–28 channel -/
def dawntrailDyeUsed : UInt32 := 0x1FFF0FFF

/-- Dawntrail dye word: bits 0–11 flags, 16–26 template, 27–28 channel -/
def packDawntrailDye (d : DawntrailDyeF) : UInt32 :=
  let r := d.row
  bit32 r.diffuse 0 ||| bit32 r.specular 1 ||| bit32 r.emissive 2 ||| bit32 r.scalar3 3 |||
  bit32 r.metalness 4 ||| bit32 r.roughness 5 ||| bit32 r.sheenRate 6 ||| bit32 r.sheenTintRate 7 |||
  bit32 r.sheenAperture 8 ||| bit32 r.anisotropy 9 ||| bit32 r.sphereMapIndex 10 |||
  bit32 r.sphereMapMask 11 ||| (r.template.toUInt32 <<< 16) ||| (r.channel.toUInt32 <<< 27) ||| d.spare

/-! ### encoder -/

def u8len (l : List α) : UInt8 := UInt8.ofNat l.length
def u16len (l : List α) : UInt16 := UInt16.ofNat l.length

/-- the string heap: texture paths NUL-terminated in order, then the rest -/
def heap (f : MaterialF) : Bytes := f.textures.flatMap (fun p => p ++ [0]) ++ f.heapRest

def encColorSet (c : ColorSetF) : Bytes := putU16le c.nameOffset ++ putU16le c.index

def encColorTable : ColorTableF → Bytes
  | .absent => []
  | .legacy rows => rows.flatMap (fun r => r.flatMap putU16le)
  | .dawntrail rows => rows.flatMap (fun r => r.flatMap putU16le)
  | .opaque => []

def encDyeTable : DyeTableF → Bytes
  | .absent => []
  | .legacy rows => rows.flatMap (fun r => putU16le (packLegacyDye r))
  | .dawntrail rows => rows.flatMap (fun r => putU32le (packDawntrailDye r))
  | .opaque => []

def encShaderKey (k : ShaderKey) : Bytes := putU32le k.category ++ putU32le k.value

def encConstant (c : ConstantF) : Bytes :=
  putU32le c.constantId ++ (putU16le c.valueOffset ++ putU16le c.valueSize)

def encSampler (s : Sampler) : Bytes :=
  putU32le (textureUsageMagics.getD s.textureUsage 0) ++ (putU32le s.flags ++
    [s.textureIndex, s.unknown1, s.unknown2, s.unknown3])

def encode (f : MaterialF) : Bytes :=
  -- MaterialFileHeader
  putU32le f.version ++ (putU16le f.fileSize ++ (putU16le f.dataSetSize ++
  (putU16le (u16len (heap f)) ++ (putU16le f.shaderPackageNameOffset ++
  ([u8len f.textures, u8len f.uvSets, u8len f.colorSets, UInt8.ofNat (4 + f.additionalRest.length)] ++
  -- offsets, sets, strings, additional data
  (f.textureOffsets.flatMap putU32le ++ (f.uvSets.flatMap encColorSet ++
  (f.colorSets.flatMap encColorSet ++ (heap f ++ (putU32le f.tableFlags ++ (f.additionalRest ++
  -- tables
  (encColorTable f.colorTable ++ (encDyeTable f.dyeTable ++
  -- MaterialHeader
  (putU16le f.shaderValueListSize ++ (putU16le (u16len f.shaderKeys) ++
  (putU16le (u16len f.constants) ++ (putU16le (u16len f.samplers) ++ (putU32le f.materialFlags ++
  (f.shaderKeys.flatMap encShaderKey ++ (f.constants.flatMap encConstant ++
  (f.samplers.flatMap encSampler ++ (f.shaderValues.flatMap putU32le ++ f.trailing))))))))))))))))))))))

/-! ### meaning -/

def cstr (b : Bytes) : Bytes := b.takeWhile (· != 0)

/-- the floats of a constant: `value_size / 4` floats at byte offset `value_offset`, in a
zero-filled array of four -/
def viewConstant (values : List UInt32) (c : ConstantF) : Constant :=
  let n := c.valueSize.toNat / 4
  { id := c.constantId, numValues := (c.valueSize / 4).toUInt32
    values := ((values.drop (c.valueOffset.toNat / 4)).take n) ++ List.replicate (4 - n) 0 }

def viewColorTable : ColorTableF → Option ColorTable
  | .absent => none
  | .legacy rows => some (.legacy (rows.map decodeLegacyRow))
  | .dawntrail rows => some (.dawntrail (rows.map decodeDawntrailRow))
  | .opaque => some .opaque

def viewDyeTable : DyeTableF → Option ColorDyeTable
  | .absent => none
  | .legacy rows => some (.legacy rows)
  | .dawntrail rows => some (.dawntrail (rows.map (·.row)))
  | .opaque => some .opaque

/-- a heap byte is one character of the reported string (the library pushes `byte as char`, i.e.
the byte's Latin-1 code point); the reported `String` is that character's UTF-8 encoding: the byte
itself below 0x80, two bytes from 0x80 on -/
def latin1Utf8 (b : UInt8) : Bytes :=
  if b < 0x80 then [b] else [(0xC0 : UInt8) ||| (b >>> 6), (0x80 : UInt8) ||| (b &&& 0x3F)]

def view (f : MaterialF) : Material :=
  { shaderPackageName := (cstr ((heap f).drop f.shaderPackageNameOffset.toNat)).flatMap latin1Utf8
    texturePaths := f.textures.map (·.flatMap latin1Utf8)
    shaderKeys := f.shaderKeys
    constants := f.constants.map (viewConstant f.shaderValues)
    samplers := f.samplers
    colorTable := viewColorTable f.colorTable
    colorDyeTable := viewDyeTable f.dyeTable }

/-! ### which tables the flags announce -/

inductive TableKind | absent | legacy | dawntrail | opaque
  deriving DecidableEq, Repr

/-- bits 4–11 of the flags word: `width_log | height_log << 4` -/
def dimensionLogs (flags : UInt32) : UInt8 := (flags >>> 4).toUInt8

/-- colour table announced by the flags: bit 2 = present; 4×16 (`0x42`) or unspecified = legacy
16 rows, 8×32 (`0x53`) = Dawntrail 32 rows, anything else is not decoded -/
def colorKind (flags : UInt32) : TableKind :=
  if flags &&& 0x4 == 0 then .absent
  else if dimensionLogs flags == 0 || dimensionLogs flags == 0x42 then .legacy
  else if dimensionLogs flags == 0x53 then .dawntrail
  else .opaque

/-- dye table announced by the flags: bit 3 = present; unspecified = legacy, height 32 = Dawntrail -/
def dyeKind (flags : UInt32) : TableKind :=
  if flags &&& 0x8 == 0 then .absent
  else if dimensionLogs flags == 0 then .legacy
  else if 0x50 ≤ dimensionLogs flags && dimensionLogs flags ≤ 0x5F then .dawntrail
  else .opaque

def ColorTableF.kind : ColorTableF → TableKind
  | .absent => .absent | .legacy _ => .legacy | .dawntrail _ => .dawntrail | .opaque => .opaque
def DyeTableF.kind : DyeTableF → TableKind
  | .absent => .absent | .legacy _ => .legacy | .dawntrail _ => .dawntrail | .opaque => .opaque

/-! ### well-formedness -/

def wfColorTable : ColorTableF → Bool
  | .legacy rows => decide (rows.length = 16) && rows.all (fun r => decide (r.length = 16))
  | .dawntrail rows => decide (rows.length = 32) && rows.all (fun r => decide (r.length = 32))
  | _ => true

def wfLegacyDye (r : LegacyColorDyeTableRow) : Bool := decide (r.template < 2048)
def wfDawntrailDye (d : DawntrailDyeF) : Bool :=
  decide (d.row.template < 2048) && decide (d.row.channel < 4) && (d.spare &&& dawntrailDyeUsed == 0)

def wfDyeTable : DyeTableF → Bool
  | .legacy rows => decide (rows.length = 16) && rows.all wfLegacyDye
  | .dawntrail rows => decide (rows.length = 32) && rows.all wfDawntrailDye
  | _ => true

/-- a path is any string of non-NUL bytes (not only ASCII: a heap byte ≥ 0x80 is reported as its
Latin-1 character, see `latin1Utf8`) -/
def wfPath (p : Bytes) : Bool := p.all (fun b => b != 0)

def wfConstant (f : MaterialF) (c : ConstantF) : Bool :=
  decide (c.valueSize.toNat / 4 ≤ 4) &&
  decide (c.valueOffset.toNat / 4 + c.valueSize.toNat / 4 ≤ f.shaderValues.length)

def wfSampler (s : Sampler) : Bool := decide (s.textureUsage < textureUsageMagics.length)

def WF (f : MaterialF) : Bool :=
  decide ((heap f).length < 65536) &&
  decide (f.textures.length < 256) && decide (f.uvSets.length < 256) &&
  decide (f.colorSets.length < 256) && decide (4 + f.additionalRest.length < 256) &&
  decide (f.textureOffsets.length = f.textures.length) &&
  f.textures.all wfPath &&
  -- the shader package name is a NUL-terminated string inside the heap
  decide (f.shaderPackageNameOffset.toNat < (heap f).length) &&
  ((heap f).drop f.shaderPackageNameOffset.toNat).any (· == 0) &&
  (f.colorTable.kind == colorKind f.tableFlags) && wfColorTable f.colorTable &&
  (f.dyeTable.kind == dyeKind f.tableFlags) && wfDyeTable f.dyeTable &&
  decide (f.shaderKeys.length < 65536) && decide (f.constants.length < 65536) &&
  decide (f.samplers.length < 65536) &&
  decide (f.shaderValues.length = f.shaderValueListSize.toNat / 4) &&
  f.constants.all (wfConstant f) && f.samplers.all wfSampler

end Physis.Spec.Mtrl
