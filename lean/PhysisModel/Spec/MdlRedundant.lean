import PhysisModel.Spec.Mdl
/-!
# Model files whose redundant header copies are arbitrary (C06)

A `.mdl` file stores several facts twice.  The file header (`FileHeader`) carries per LOD a vertex
offset, an index offset, a vertex buffer size and an index buffer size, the sizes of the
declaration stack and of the runtime block, and a LOD count; the LOD table of the runtime block
(`MeshLod`) carries per LOD the same two offsets and two sizes, and the `ModelHeader` carries the
LOD count again.  `Spec.Mdl.encodeMdl` writes consistent copies (what the library's own writer
does); files from other tools, or files edited in place, need not agree with themselves.

`MDL::from_existing` uses exactly one copy of each fact and never compares the copies:

| fact                      | copy the reader uses                | copies it never looks at |
|---------------------------|-------------------------------------|--------------------------|
| vertex data offset of LOD | `MeshLod.vertexDataOffset`          | `FileHeader.vertexOffsets` |
| index data offset of LOD  | `FileHeader.indexOffsets`           | `MeshLod.indexDataOffset` |
| vertex buffer size        | — (never read)                      | `FileHeader.vertexBufferSize`, `MeshLod.vertexBufferSize` |
| index buffer size         | — (never read)                      | `FileHeader.indexBufferSize`, `MeshLod.indexBufferSize` |
| stack / runtime size      | — (the grammar walks by its counts) | `FileHeader.stackSize`, `FileHeader.runtimeSize` |
| LOD count                 | `ModelHeader.lodCount`              | `FileHeader.lodCount` |
| edge geometry data offset | — (never read)                      | `MeshLod.edgeGeometryDataOffset` |

so the property quantifies over **every** value of the copies in the right-hand column:
`encodeMdlR m ρ` is the file of `encodeMdl m` with those fields replaced as `ρ` says, and
`encodeMdl m` is the instance `Redundant.id`.  (`MeshLod.edgeGeometryDataOffset`, like
`MeshLod.polygonCount`, the 28 bytes `MeshLod.mid`, `FileHeader.materialCount` and the two flags of
the file header, is already a free component of `AbstractModel`; it is listed here too so that the
statement about the LOD table row is complete.)

This file does not import any model of the code.
-/
namespace Physis.Spec.Mdl
open Physis Physis.Mdl

/-- replacements for the stored copies `MDL::from_existing` never looks at.  Every component maps
the value `encodeMdl` would store to the value that is stored instead: a constant function stores
an arbitrary value, the identity keeps the consistent copy.  The components for the LOD table take
the row number (0..2) first. -/
structure Redundant where
  /-- `FileHeader.stackSize` -/
  stackSize : UInt32 → UInt32
  /-- `FileHeader.runtimeSize` -/
  runtimeSize : UInt32 → UInt32
  /-- `FileHeader.vertexOffsets` (all three) -/
  vertexOffsets : Arr3 UInt32 → Arr3 UInt32
  /-- `FileHeader.vertexBufferSize` (all three) -/
  vertexBufferSize : Arr3 UInt32 → Arr3 UInt32
  /-- `FileHeader.indexBufferSize` (all three) -/
  indexBufferSize : Arr3 UInt32 → Arr3 UInt32
  /-- `FileHeader.lodCount` (the reader loops over `ModelHeader.lodCount`) -/
  fileLodCount : UInt8 → UInt8
  /-- `MeshLod.edgeGeometryDataOffset` of row `i` -/
  lodEdgeGeometryDataOffset : Nat → UInt32 → UInt32
  /-- `MeshLod.vertexBufferSize` of row `i` -/
  lodVertexBufferSize : Nat → UInt32 → UInt32
  /-- `MeshLod.indexBufferSize` of row `i` -/
  lodIndexBufferSize : Nat → UInt32 → UInt32
  /-- `MeshLod.indexDataOffset` of row `i` -/
  lodIndexDataOffset : Nat → UInt32 → UInt32

namespace Redundant

/-- keep every consistent copy -/
protected def id : Redundant :=
  { stackSize := fun x => x, runtimeSize := fun x => x, vertexOffsets := fun x => x,
    vertexBufferSize := fun x => x, indexBufferSize := fun x => x, fileLodCount := fun x => x,
    lodEdgeGeometryDataOffset := fun _ x => x, lodVertexBufferSize := fun _ x => x,
    lodIndexBufferSize := fun _ x => x, lodIndexDataOffset := fun _ x => x }

/-- store the same 32-bit value `x` in every redundant `u32` copy and `c` as the file header's
LOD count -/
def const (x : UInt32) (c : UInt8) : Redundant :=
  { stackSize := fun _ => x, runtimeSize := fun _ => x, vertexOffsets := fun _ => ⟨x, x, x⟩,
    vertexBufferSize := fun _ => ⟨x, x, x⟩, indexBufferSize := fun _ => ⟨x, x, x⟩,
    fileLodCount := fun _ => c,
    lodEdgeGeometryDataOffset := fun _ _ => x, lodVertexBufferSize := fun _ _ => x,
    lodIndexBufferSize := fun _ _ => x, lodIndexDataOffset := fun _ _ => x }

/-- the file header with its unread fields replaced; `version`, `vertexDeclarationCount` (read by
the grammar), `indexOffsets` (read by the geometry stage), `materialCount` and the two flags are
kept -/
def fh (ρ : Redundant) (h : FileHeader) : FileHeader :=
  { h with
    stackSize := ρ.stackSize h.stackSize
    runtimeSize := ρ.runtimeSize h.runtimeSize
    vertexOffsets := ρ.vertexOffsets h.vertexOffsets
    vertexBufferSize := ρ.vertexBufferSize h.vertexBufferSize
    indexBufferSize := ρ.indexBufferSize h.indexBufferSize
    lodCount := ρ.fileLodCount h.lodCount }

/-- row `i` of the LOD table with its unread fields replaced; `meshIndex`, `meshCount`,
`vertexDataOffset` (read by the geometry stage), `mid` (28 bytes) and `polygonCount` are kept -/
def lod (ρ : Redundant) (i : Nat) (l : MeshLod) : MeshLod :=
  { l with
    edgeGeometryDataOffset := ρ.lodEdgeGeometryDataOffset i l.edgeGeometryDataOffset
    vertexBufferSize := ρ.lodVertexBufferSize i l.vertexBufferSize
    indexBufferSize := ρ.lodIndexBufferSize i l.indexBufferSize
    indexDataOffset := ρ.lodIndexDataOffset i l.indexDataOffset }

/-- `ρ.lod` on every row, rows numbered from `i` -/
def lods (ρ : Redundant) : Nat → List MeshLod → List MeshLod
  | _, [] => []
  | i, l :: rest => ρ.lod i l :: lods ρ (i + 1) rest

/-- the runtime block with the unread fields of its LOD table replaced; every other table, the
`ModelHeader` and the declarations are kept -/
def md (ρ : Redundant) (d : ModelData) : ModelData :=
  { d with lods := ρ.lods 0 d.lods }

end Redundant

/-- **the encoder with arbitrary redundant copies**: the file of `encodeMdl m` in which the stored
copies the reader never looks at hold what `ρ` says.  Both header blocks keep their length, so the
geometry sections lie where the (unchanged) offsets the reader does use point. -/
def encodeMdlR (m : AbstractModel) (ρ : Redundant) : Bytes :=
  encFileHeader (ρ.fh (fileHeader m)) ++ (encModelData m.version (ρ.md (modelData m)) ++ sections m)

/-! ### what the writer does with the copies (C07)

`MDL::write_to_buffer` echoes every stored copy (it writes `file_header` and `model_data` as they are
in memory) and places vertex / index data by the copies the reader uses.  The only unread copies it
*looks at* are `FileHeader.vertexOffsets`, `vertexBufferSize`, `indexBufferSize`: after the geometry
it zero-extends the buffer to the largest `offset + size` the file header declares (64-bit sum). -/

/-- the largest section end the file header declares: `max (offset[i] + size[i])` over the three
vertex and three index slots, in unbounded arithmetic (the code sums in `u64`) -/
def declaredEnd (h : FileHeader) : Nat :=
  (List.zipWith (fun (o s : UInt32) => o.toNat + s.toNat)
    (h.vertexOffsets.toList ++ h.indexOffsets.toList)
    (h.vertexBufferSize.toList ++ h.indexBufferSize.toList)).foldl max 0

/-- some section end declared by the (replaced) file header reaches the end of the file.  Holds for
every `ρ` whenever the third LOD has no meshes (its index offset — a copy the reader uses, kept by
`ρ` — is then the file length); with three LODs in use it asks that the replaced sizes still cover
the index padding behind the last mesh. -/
def Redundant.keepsTail (ρ : Redundant) (m : AbstractModel) : Bool :=
  decide ((encodeMdl m).length ≤ declaredEnd (ρ.fh (fileHeader m)))

end Physis.Spec.Mdl
