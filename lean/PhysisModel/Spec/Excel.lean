import PhysisModel.Base.Bytes
/-!
# Specification of the Excel header (EXH) and data page (EXD) file formats

Abstract values (a sheet *schema*, a set of *rows* made of *sub-rows* made of typed *cells*) and the
encoders that lay them out as the documented big-endian formats.  Nothing here mentions the Rust
reader; the property theorems state that the model of the reader, run on `encodeExh s` /
`encodeExd s rows`, returns the abstract cells again.

Layout (all integers big-endian):

* EXH: `"EXHF"`, version u16, fixed-region size u16, #columns u16, #pages u16, #languages u16,
  u16 (unknown), u8 (unknown), **u8 sheet kind (1 = default, 2 = sub-rows)**, u16 (unknown),
  row count u32, 8 unknown bytes; then per column `(type code u16, offset u16)`, per page
  `(start id u32, row count u32)`, per language one code byte.
* EXD: `"EXDF"`, version u16, u16, index size u32 (= 8·#rows), data size u32, 16 unknown bytes; the
  index `(row id u32, absolute file offset u32)` per row; then per row a chunk
  `payload size u32, sub-row count u16, payload`.
* payload = records ++ string heap.  One record per sub-row: in a sub-row sheet a `u16` sub-row id
  followed by the fixed-size region, in a default sheet just the fixed-size region.
* fixed-size region (`dataOffset` bytes): a cell of column `(ty, off)` occupies `ty.size` bytes at
  `off`: bool = one byte 0/1; integers / float bit pattern big-endian; packed bool *k* = bit *k* of
  the byte at `off` (several packed-bool columns may share a byte); string = u32 offset of the
  NUL-terminated string in the heap, counted from the end of *that record's* fixed-size region.
-/
namespace Physis.Spec.Excel
open Physis

/-! ## abstract values -/

inductive ColType
  | string | bool | int8 | uint8 | int16 | uint16 | int32 | uint32 | float32 | int64 | uint64
  | packedBool (bit : Fin 8)
  deriving DecidableEq, Repr

/-- on-disk type code -/
def ColType.code : ColType → UInt16
  | .string => 0x0 | .bool => 0x1 | .int8 => 0x2 | .uint8 => 0x3 | .int16 => 0x4 | .uint16 => 0x5
  | .int32 => 0x6 | .uint32 => 0x7 | .float32 => 0x9 | .int64 => 0xA | .uint64 => 0xB
  | .packedBool b => UInt16.ofNat (0x19 + b.val)

/-- bytes a cell of this type occupies in the fixed-size region -/
def ColType.size : ColType → Nat
  | .string => 4 | .bool => 1 | .int8 => 1 | .uint8 => 1 | .int16 => 2 | .uint16 => 2
  | .int32 => 4 | .uint32 => 4 | .float32 => 4 | .int64 => 8 | .uint64 => 8
  | .packedBool _ => 1

inductive Lang | none | ja | en | de | fr | chs | cht | ko
  deriving DecidableEq, Repr

def Lang.code : Lang → UInt8
  | .none => 0 | .ja => 1 | .en => 2 | .de => 3 | .fr => 4 | .chs => 5 | .cht => 6 | .ko => 7

/-- language code used in page file names (ASCII) -/
def Lang.suffix : Lang → Bytes
  | .none => [] | .ja => [0x6a, 0x61] | .en => [0x65, 0x6e] | .de => [0x64, 0x65]
  | .fr => [0x66, 0x72] | .chs => [0x63, 0x68, 0x73] | .cht => [0x63, 0x68, 0x74]
  | .ko => [0x6b, 0x6f]

/-- A cell value.  Signed integers are carried as their two's-complement bit pattern, floats as
their IEEE-754 bit pattern (so equality is exact). -/
inductive Cell
  | str (s : Bytes) | bool (b : Bool)
  | i8 (v : UInt8) | u8 (v : UInt8) | i16 (v : UInt16) | u16 (v : UInt16)
  | i32 (v : UInt32) | u32 (v : UInt32) | f32 (bits : UInt32) | i64 (v : UInt64) | u64 (v : UInt64)
  deriving DecidableEq, Repr

def Cell.hasType : Cell → ColType → Bool
  | .str _, .string => true | .bool _, .bool => true | .bool _, .packedBool _ => true
  | .i8 _, .int8 => true | .u8 _, .uint8 => true | .i16 _, .int16 => true | .u16 _, .uint16 => true
  | .i32 _, .int32 => true | .u32 _, .uint32 => true | .f32 _, .float32 => true
  | .i64 _, .int64 => true | .u64 _, .uint64 => true
  | _, _ => false

structure Column where
  ty : ColType
  offset : UInt16
  deriving DecidableEq, Repr

structure Page where
  startId : UInt32
  rowCount : UInt32
  deriving DecidableEq, Repr

structure Schema where
  version : UInt16
  /-- size of the fixed-size region of one record -/
  dataOffset : UInt16
  columns : List Column
  pages : List Page
  languages : List Lang
  rowCount : UInt32
  /-- sheet kind: `true` = rows consist of sub-rows (kind byte 2) -/
  subrows : Bool
  deriving Repr

structure Row where
  id : UInt32
  subs : List (List Cell)
  deriving Repr

/-! ## EXH -/

def encodeColumn (c : Column) : Bytes := putU16be c.ty.code ++ putU16be c.offset
def encodePage (p : Page) : Bytes := putU32be p.startId ++ putU32be p.rowCount

def exhMagic : Bytes := [0x45, 0x58, 0x48, 0x46]
def exdMagic : Bytes := [0x45, 0x58, 0x44, 0x46]

def encodeExhHeader (s : Schema) : Bytes :=
  exhMagic ++ putU16be s.version ++ putU16be s.dataOffset
    ++ putU16be (UInt16.ofNat s.columns.length) ++ putU16be (UInt16.ofNat s.pages.length)
    ++ putU16be (UInt16.ofNat s.languages.length)
    ++ [0, 0, 0, (if s.subrows then 2 else 1), 0, 0]
    ++ putU32be s.rowCount
    ++ [0, 0, 0, 0, 0, 0, 0, 0]

def encodeExh (s : Schema) : Bytes :=
  encodeExhHeader s ++ (s.columns.map encodeColumn).flatten ++ (s.pages.map encodePage).flatten
    ++ s.languages.map Lang.code

/-! ## fixed-size region -/

/-- bytes of a non-packed cell in the fixed-size region; `soff` is the heap offset stored for a
string cell -/
def cellBytes (c : Cell) (soff : UInt32) : Bytes :=
  match c with
  | .str _ => putU32be soff
  | .bool b => [if b then 1 else 0]
  | .i8 v => [v] | .u8 v => [v]
  | .i16 v => putU16be v | .u16 v => putU16be v
  | .i32 v => putU32be v | .u32 v => putU32be v | .f32 v => putU32be v
  | .i64 v => putU64be v | .u64 v => putU64be v

/-- a column, the cell stored under it, and the heap offset stored if the cell is a string -/
structure Item where
  col : Column
  cell : Cell
  soff : UInt32

/-- what item `it` puts into byte `k` of the fixed-size region (0 = nothing) -/
def contrib (it : Item) (k : Nat) : UInt8 :=
  match it.col.ty with
  | .packedBool bit =>
    if k = it.col.offset.toNat ∧ it.cell = .bool true then (1 : UInt8) <<< UInt8.ofNat bit.val else 0
  | _ =>
    if it.col.offset.toNat ≤ k then
      match (cellBytes it.cell it.soff)[k - it.col.offset.toNat]? with
      | some b => b
      | none => 0
    else 0

def orAll : List UInt8 → UInt8
  | [] => 0
  | b :: bs => b ||| orAll bs

def regionByte (items : List Item) (k : Nat) : UInt8 := orAll (items.map (contrib · k))

/-- the fixed-size region of one record -/
def fixedRegion (size : Nat) (items : List Item) : Bytes := (List.range size).map (regionByte items)

/-! ## string heap -/

def cellHeap : Cell → Bytes
  | .str s => s ++ [0]
  | _ => []

def heapOf : List Cell → Bytes
  | [] => []
  | c :: cs => cellHeap c ++ heapOf cs

/-- pair columns with cells; a string cell gets heap offset `base +` the heap bytes of the
cells before it in this record -/
def mkItems : List Column → List Cell → Nat → List Item
  | col :: cols, c :: cs, base =>
    ⟨col, c, UInt32.ofNat base⟩ :: mkItems cols cs (base + (cellHeap c).length)
  | _, _, _ => []

/-! ## EXD -/

/-- bytes of one record: sub-row id prefix (sub-row sheets only) + fixed-size region -/
def recSize (s : Schema) : Nat := (if s.subrows then 2 else 0) + s.dataOffset.toNat

def idPrefix (s : Schema) (i : Nat) : Bytes := if s.subrows then putU16be (UInt16.ofNat i) else []

/-- records of the sub-rows `subs`, the first of which has index `i`; `hp` = heap bytes used by
the sub-rows before them.  The heap starts right after the last record. -/
def encodeSubs (s : Schema) : List (List Cell) → Nat → Nat → Bytes
  | [], _, _ => []
  | cells :: rest, i, hp =>
    idPrefix s i
      ++ fixedRegion s.dataOffset.toNat (mkItems s.columns cells (rest.length * recSize s + hp))
      ++ encodeSubs s rest (i + 1) (hp + (heapOf cells).length)

def rowPayload (s : Schema) (r : Row) : Bytes := encodeSubs s r.subs 0 0 ++ heapOf r.subs.flatten

def encodeRow (s : Schema) (r : Row) : Bytes :=
  let p := rowPayload s r
  putU32be (UInt32.ofNat p.length) ++ putU16be (UInt16.ofNat r.subs.length) ++ p

def exdVersion : UInt16 := 2

def encodeExdHeader (indexSize dataSize : Nat) : Bytes :=
  exdMagic ++ putU16be exdVersion ++ [0, 0] ++ putU32be (UInt32.ofNat indexSize)
    ++ putU32be (UInt32.ofNat dataSize) ++ List.replicate 16 0

/-- index entries for chunks laid out one after the other starting at file offset `base` -/
def encodeIndex : List (UInt32 × Bytes) → Nat → Bytes
  | [], _ => []
  | (id, chunk) :: rest, base =>
    putU32be id ++ putU32be (UInt32.ofNat base) ++ encodeIndex rest (base + chunk.length)

def chunksOf (s : Schema) (rows : List Row) : List (UInt32 × Bytes) :=
  rows.map (fun r => (r.id, encodeRow s r))

def encodeExd (s : Schema) (rows : List Row) : Bytes :=
  let chunks := chunksOf s rows
  let body := (chunks.map (·.2)).flatten
  encodeExdHeader (8 * rows.length) body.length
    ++ encodeIndex chunks (32 + 8 * rows.length) ++ body

/-! ## well-formedness (decidable) -/

def isPacked : ColType → Bool
  | .packedBool _ => true
  | _ => false

/-- two columns may live in the same region: their byte ranges are disjoint, or both are packed
bools testing different bits (of the same byte) -/
def diffPacked : ColType → ColType → Bool
  | .packedBool i, .packedBool j => i != j
  | _, _ => false

def compat (a b : Column) : Prop :=
  a.offset.toNat + a.ty.size ≤ b.offset.toNat ∨ b.offset.toNat + b.ty.size ≤ a.offset.toNat ∨
  diffPacked a.ty b.ty = true

instance (a b : Column) : Decidable (compat a b) := by unfold compat; infer_instance

def WFschema (s : Schema) : Prop :=
  s.columns.length < 65536 ∧ s.pages.length < 65536 ∧ s.languages.length < 65536 ∧
  (∀ c ∈ s.columns, c.offset.toNat + c.ty.size ≤ s.dataOffset.toNat) ∧
  s.columns.Pairwise compat

instance (s : Schema) : Decidable (WFschema s) := by unfold WFschema; infer_instance

def typed : List Column → List Cell → Bool
  | [], [] => true
  | col :: cols, c :: cs => c.hasType col.ty && typed cols cs
  | _, _ => false

def nulFree : Cell → Bool
  | .str s => s.all (· ≠ 0)
  | _ => true

def WFrow (s : Schema) (r : Row) : Prop :=
  1 ≤ r.subs.length ∧ r.subs.length < 65536 ∧ (s.subrows = false → r.subs.length = 1) ∧
  ∀ cells ∈ r.subs, typed s.columns cells = true ∧ ∀ c ∈ cells, nulFree c = true

instance (s : Schema) (r : Row) : Decidable (WFrow s r) := by unfold WFrow; infer_instance

def WFrows (s : Schema) (rows : List Row) : Prop :=
  (rows.map (·.id)).Nodup ∧ (encodeExd s rows).length < 4294967296 ∧ ∀ r ∈ rows, WFrow s r

instance (s : Schema) (rows : List Row) : Decidable (WFrows s rows) := by
  unfold WFrows; infer_instance

/-- The input class of known finding `exd.single-subrow`: a sub-row sheet's row that has exactly
one sub-row. -/
def singleSubrow (s : Schema) (r : Row) : Bool := s.subrows && r.subs.length == 1

/-! ## file names -/

/-- decimal digits of a natural number, ASCII -/
def decimal (n : Nat) : Bytes := (Nat.toDigits 10 n).map (fun c => UInt8.ofNat c.toNat)

/-- `<name>_<start id>[_<language code>].exd` -/
def pageFileName (name : Bytes) (lang : Lang) (p : Page) : Bytes :=
  name ++ [0x5f] ++ decimal p.startId.toNat
    ++ (if lang = .none then [] else [0x5f] ++ lang.suffix) ++ [0x2e, 0x65, 0x78, 0x64]

/-- `exd/<lower-case name>.exh` -/
def headerPath (name : Bytes) : Bytes :=
  [0x65, 0x78, 0x64, 0x2f] ++ name.map asciiLower ++ [0x2e, 0x65, 0x78, 0x68]

/-- `exd/<page file name>` -/
def pagePath (name : Bytes) (lang : Lang) (p : Page) : Bytes :=
  [0x65, 0x78, 0x64, 0x2f] ++ pageFileName name lang p

/-! ## root list (`exd/root.exl`) -/

/-- decimal text of an integer -/
def showInt (i : Int) : Bytes := if i < 0 then 0x2d :: decimal i.natAbs else decimal i.natAbs

/-- `EXLT,<version>` then one line `<name>,<id>` per sheet, lines separated by `\n` -/
def encodeRootList (version : Int) (entries : List (Bytes × Int)) : Bytes :=
  [0x45, 0x58, 0x4c, 0x54, 0x2c] ++ showInt version
    ++ (entries.map (fun e => 10 :: (e.1 ++ 0x2c :: showInt e.2))).flatten

def inI32 (i : Int) : Prop := -2147483648 ≤ i ∧ i ≤ 2147483647

instance (i : Int) : Decidable (inI32 i) := by unfold inI32; infer_instance

/-- a sheet name: ASCII without line break or comma, not a `#` comment, not the version key -/
def WFname (n : Bytes) : Prop :=
  (∀ b ∈ n, b ≠ 10 ∧ b ≠ 0x2c ∧ b < 128) ∧ n.head? ≠ some 0x23 ∧ n ≠ [0x45, 0x58, 0x4c, 0x54]

instance (n : Bytes) : Decidable (WFname n) := by unfold WFname; infer_instance

def WFrootList (version : Int) (entries : List (Bytes × Int)) : Prop :=
  inI32 version ∧ ∀ e ∈ entries, WFname e.1 ∧ inI32 e.2

instance (v : Int) (es : List (Bytes × Int)) : Decidable (WFrootList v es) := by
  unfold WFrootList; infer_instance

end Physis.Spec.Excel
