import PhysisModel.Base.Bytes
/-!
# Specification: textbook Blowfish (Schneier 1993) and its π-derived initial tables

Nothing here refers to the model of the Rust code or to the tables extracted from the source:

* `piWords n` — the first `n` 32-bit words of the hexadecimal expansion of the fractional part
  of π, computed in fixed point by Machin's formula; `piWordsStormer` is a second, independent
  evaluation (Størmer's three-term formula, different guard bits) used as a cross-check.
* `Tables`, `F`, `round`, `encryptBlock`, `decryptBlock`, `keySchedule` — the cipher as published:
  16 rounds `xL ^= P_i; xR ^= F(xL); swap`, undo the last swap, whitening with P17/P18;
  subkeys = π tables XOR cycled key, then successively replaced by encryptions of the zero block.
* `pad8`, `ecb` — zero padding to a multiple of 8 and block-wise application on the block's two
  **little-endian** 32-bit words (the SqexArg convention stated by property C11).
-/
namespace Physis.Spec.Blowfish

/-! ## hexadecimal digits of π -/

/-- `Σ_k (-1)^k ⌊⌊2^B / x^(2k+1)⌋ / (2k+1)⌋`, positive and negative terms summed separately.
`pow` is the current `⌊2^B / x^(2k+1)⌋` (obtained by repeated floor division by `x²`), `d = 2k+1`.
The fuel is an upper bound on the number of terms (`pow` at least halves at every step). -/
def atanSeries (x2 : Nat) : Nat → Nat → Nat → Bool → Nat → Nat → Nat × Nat
  | 0, _, _, _, pos, neg => (pos, neg)
  | fuel + 1, pow, d, negative, pos, neg =>
    if pow = 0 then (pos, neg) else
    if negative then atanSeries x2 fuel (pow / x2) (d + 2) false pos (neg + pow / d)
    else atanSeries x2 fuel (pow / x2) (d + 2) true (pos + pow / d) neg

/-- `≈ 2^B · arctan(1/x)` (truncation error below the number of terms) -/
def atanInv (x B : Nat) : Nat :=
  let r := atanSeries (x * x) (B + 1) (2 ^ B / x) 1 false 0 0
  r.1 - r.2

/-- `≈ 2^B · (π − 3)` by Machin: π = 16·arctan(1/5) − 4·arctan(1/239) -/
def piFracMachin (B : Nat) : Nat := 16 * atanInv 5 B - 4 * atanInv 239 B - 3 * 2 ^ B

/-- `≈ 2^B · (π − 3)` by Størmer: π = 24·arctan(1/8) + 8·arctan(1/57) + 4·arctan(1/239) -/
def piFracStormer (B : Nat) : Nat :=
  24 * atanInv 8 B + 8 * atanInv 57 B + 4 * atanInv 239 B - 3 * 2 ^ B

/-- the `n` most significant 32-bit words of a `32·n`-bit number -/
def wordsOf (n x : Nat) : List UInt32 :=
  (List.range n).map (fun i => UInt32.ofNat ((x >>> (32 * (n - 1 - i))) % 2 ^ 32))

/-- first `n` words of the hexadecimal expansion of frac(π) (Machin, 128 guard bits) -/
def piWords (n : Nat) : List UInt32 := wordsOf n (piFracMachin (32 * n + 128) >>> 128)

/-- the same by Størmer's formula with 96 guard bits -/
def piWordsStormer (n : Nat) : List UInt32 := wordsOf n (piFracStormer (32 * n + 96) >>> 96)

theorem wordsOf_length (n x : Nat) : (wordsOf n x).length = n := by
  simp [wordsOf]

theorem piWords_length (n : Nat) : (piWords n).length = n := wordsOf_length _ _

/-! ## the cipher -/

/-- P-array (18 subkeys) and four S-boxes of 256 words -/
structure Tables where
  p : Vector UInt32 18
  s : Vector (Vector UInt32 256) 4

/-- S-box `i` at byte `b` -/
def sbox (t : Tables) (i : Fin 4) (b : UInt8) : UInt32 := (t.s[i])[b.toNat]'(UInt8.toNat_lt b)

theorem sbox_eq (t : Tables) (i : Fin 4) (b : UInt8) :
    sbox t i b = (t.s[i])[b.toNat]'(UInt8.toNat_lt b) := rfl

/-- `F(x) = ((S1[a] + S2[b] mod 2^32) XOR S3[c]) + S4[d] mod 2^32`, a…d the bytes of `x` from the top -/
def F (t : Tables) (x : UInt32) : UInt32 :=
  ((sbox t 0 (x >>> 24).toUInt8 + sbox t 1 (x >>> 16).toUInt8) ^^^ sbox t 2 (x >>> 8).toUInt8)
    + sbox t 3 x.toUInt8

/-- one round with subkey `k`: `xL ^= k; xR ^= F(xL); swap` -/
def round (t : Tables) (k : UInt32) (x : UInt32 × UInt32) : UInt32 × UInt32 :=
  let l := x.1 ^^^ k
  let r := x.2 ^^^ F t l
  (r, l)

/-- 16 rounds with the given subkeys in order, undo the last swap, whiten with `kR`, `kL` -/
def crypt (t : Tables) (ks : List UInt32) (kR kL : UInt32) (x : UInt32 × UInt32) : UInt32 × UInt32 :=
  let y := ks.foldl (fun x k => round t k x) x
  (y.2 ^^^ kL, y.1 ^^^ kR)

def encKeys (t : Tables) : List UInt32 :=
  [t.p[0], t.p[1], t.p[2], t.p[3], t.p[4], t.p[5], t.p[6], t.p[7],
   t.p[8], t.p[9], t.p[10], t.p[11], t.p[12], t.p[13], t.p[14], t.p[15]]

def decKeys (t : Tables) : List UInt32 :=
  [t.p[17], t.p[16], t.p[15], t.p[14], t.p[13], t.p[12], t.p[11], t.p[10],
   t.p[9], t.p[8], t.p[7], t.p[6], t.p[5], t.p[4], t.p[3], t.p[2]]

/-- encryption of the block `(xL, xR)`: P1…P16 in the rounds, `xR ^= P17`, `xL ^= P18` -/
def encryptBlock (t : Tables) (x : UInt32 × UInt32) : UInt32 × UInt32 :=
  crypt t (encKeys t) t.p[16] t.p[17] x

/-- decryption: the same with P18…P1 -/
def decryptBlock (t : Tables) (x : UInt32 × UInt32) : UInt32 × UInt32 :=
  crypt t (decKeys t) t.p[1] t.p[0] x

/-! ## subkey generation -/

/-- byte `n` of the key repeated cyclically -/
def keyByte (key : Bytes) (h : 0 < key.length) (n : Nat) : UInt8 :=
  key[n % key.length]'(Nat.mod_lt _ h)

/-- 32-bit word `i` of the cycled key (big-endian, as in the reference implementation) -/
def keyWord (key : Bytes) (h : 0 < key.length) (i : Nat) : UInt32 :=
  ((keyByte key h (4 * i)).toUInt32 <<< 24) ||| ((keyByte key h (4 * i + 1)).toUInt32 <<< 16) |||
  ((keyByte key h (4 * i + 2)).toUInt32 <<< 8) ||| (keyByte key h (4 * i + 3)).toUInt32

/-- step 2: XOR P1 with the first 32 key bits, P2 with the next … cycling through the key -/
def xorKey (t : Tables) (key : Bytes) (h : 0 < key.length) : Tables :=
  (List.finRange 18).foldl (fun t (i : Fin 18) => { t with p := t.p.set i.val (t.p[i.val] ^^^ keyWord key h i.val) }) t

/-- steps 3–6, one step: replace P(2k+1), P(2k+2) by the encryption of the running block -/
def stepP (tx : Tables × (UInt32 × UInt32)) (k : Fin 9) : Tables × (UInt32 × UInt32) :=
  let y := encryptBlock tx.1 tx.2
  ({ tx.1 with p := (tx.1.p.set (2 * k.val) y.1).set (2 * k.val + 1) y.2 }, y)

/-- steps 3–6: P1,P2 := E(0); P3,P4 := E(P1,P2) under the modified subkeys; … -/
def fillP (tx : Tables × (UInt32 × UInt32)) : Tables × (UInt32 × UInt32) :=
  (List.finRange 9).foldl stepP tx

/-- step 7, one step for S-box `b`: entries 2k, 2k+1 -/
def stepBox (b : Fin 4) (tx : Tables × (UInt32 × UInt32)) (k : Fin 128) : Tables × (UInt32 × UInt32) :=
  let y := encryptBlock tx.1 tx.2
  ({ tx.1 with s := tx.1.s.set b.val (((tx.1.s[b.val]).set (2 * k.val) y.1).set (2 * k.val + 1) y.2) }, y)

/-- step 7 for S-box `b`: its 256 entries, two at a time -/
def fillBox (tx : Tables × (UInt32 × UInt32)) (b : Fin 4) : Tables × (UInt32 × UInt32) :=
  (List.finRange 128).foldl (stepBox b) tx

/-- step 7: all four S-boxes in order -/
def fillS (tx : Tables × (UInt32 × UInt32)) : Tables × (UInt32 × UInt32) :=
  (List.finRange 4).foldl fillBox tx

/-- subkeys for `key` starting from the initial tables `t` (521 block encryptions) -/
def keySchedule (t : Tables) (key : Bytes) (h : 0 < key.length) : Tables :=
  (fillS (fillP (xorKey t key h, (0, 0)))).1

/-! ## the standard initial tables -/

/-- the 18 + 4·256 words of π that initialise Blowfish -/
def piTableWords : List UInt32 := piWords 1042

def vecOfList (n : Nat) (l : List UInt32) (h : l.length = n) : Vector UInt32 n := ⟨l.toArray, by simpa using h⟩

theorem slice_length (off n : Nat) (h : off + n ≤ 1042) : ((piTableWords.drop off).take n).length = n := by
  simp [piTableWords, piWords_length]; omega

def piSlice (off n : Nat) (h : off + n ≤ 1042) : Vector UInt32 n :=
  vecOfList n ((piTableWords.drop off).take n) (slice_length off n h)

/-- P = words 0…17, S1 = words 18…273, …, S4 = words 786…1041 of frac(π) -/
def stdTables : Tables where
  p := piSlice 0 18 (by decide)
  s := #v[piSlice 18 256 (by decide), piSlice 274 256 (by decide), piSlice 530 256 (by decide),
          piSlice 786 256 (by decide)]

/-- Blowfish subkeys for a non-empty key -/
def subkeys (key : Bytes) (h : 0 < key.length) : Tables := keySchedule stdTables key h

/-! ## block mode used by SqexArg: zero padding, ECB, little-endian words -/

def pad8 (m : Bytes) : Bytes := m ++ List.replicate ((8 - m.length % 8) % 8) 0

def le32 (a b c d : UInt8) : UInt32 :=
  a.toUInt32 ||| (b.toUInt32 <<< 8) ||| (c.toUInt32 <<< 16) ||| (d.toUInt32 <<< 24)

/-- apply `f` to every 8-byte block read as two little-endian words (a trailing fragment of fewer
than 8 bytes — absent after `pad8` — is dropped) -/
def ecb (f : UInt32 × UInt32 → UInt32 × UInt32) : Bytes → Bytes
  | b0 :: b1 :: b2 :: b3 :: b4 :: b5 :: b6 :: b7 :: rest =>
    let y := f (le32 b0 b1 b2 b3, le32 b4 b5 b6 b7)
    putU32le y.1 ++ putU32le y.2 ++ ecb f rest
  | _ => []

/-- SqexArg encryption as the property states it -/
def encrypt (key : Bytes) (h : 0 < key.length) (m : Bytes) : Bytes :=
  ecb (encryptBlock (subkeys key h)) (pad8 m)

/-- SqexArg decryption of a ciphertext (a multiple of 8 bytes) -/
def decrypt (key : Bytes) (h : 0 < key.length) (c : Bytes) : Bytes :=
  ecb (decryptBlock (subkeys key h)) (pad8 c)

end Physis.Spec.Blowfish
