import PhysisModel.Base.Bytes
/-!
SHA-1 as FIPS 180-4 states it (§5.1.1 padding, §5.2.1 parsing, §5.3.1 initial value, §4.1.1
functions, §4.2.1 constants, §6.1.2/§6.1.3 hash computation) — no vector tricks, one round per
step.  The message schedule is kept as the sliding window `W_t … W_{t+15}` of §6.1.3:
`W_{t+16} = ROTL¹(W_{t+13} ⊕ W_{t+8} ⊕ W_{t+2} ⊕ W_t)`, which is §6.1.2's
`W_t = ROTL¹(W_{t-3} ⊕ W_{t-8} ⊕ W_{t-14} ⊕ W_{t-16})` with the index shifted.

`sha1With cf` is the hash with the compression function as a parameter (used to state that the
model's buffering and padding are right *whatever* the compression function is); `sha1` plugs in
the textbook `compress`.  Constants are written out here (not imported from `Generated/`), so a
changed constant in `src/sha1.rs` breaks a proof instead of moving the specification.
-/
namespace Physis.Spec.Sha1

/-- the five working variables / chaining values -/
structure Vars where
  a : UInt32
  b : UInt32
  c : UInt32
  d : UInt32
  e : UInt32
deriving DecidableEq, Repr

def rotl1 (x : UInt32) : UInt32 := (x <<< 1) ||| (x >>> 31)
def rotl5 (x : UInt32) : UInt32 := (x <<< 5) ||| (x >>> 27)
def rotl30 (x : UInt32) : UInt32 := (x <<< 30) ||| (x >>> 2)

def ch (x y z : UInt32) : UInt32 := (x &&& y) ^^^ (~~~x &&& z)
def parity (x y z : UInt32) : UInt32 := x ^^^ y ^^^ z
def maj (x y z : UInt32) : UInt32 := (x &&& y) ^^^ (x &&& z) ^^^ (y &&& z)

/-- §4.1.1: f_t -/
def f (t : Nat) (x y z : UInt32) : UInt32 :=
  if t < 20 then ch x y z else if t < 40 then parity x y z else if t < 60 then maj x y z else parity x y z

/-- §4.2.1: K_t -/
def k (t : Nat) : UInt32 :=
  if t < 20 then 0x5a827999 else if t < 40 then 0x6ed9eba1 else if t < 60 then 0x8f1bbcdc else 0xca62c1d6

/-- §5.3.1 -/
def h0 : Vars := ⟨0x67452301, 0xefcdab89, 0x98badcfe, 0x10325476, 0xc3d2e1f0⟩

/-- sixteen consecutive schedule words `W_t … W_{t+15}` -/
structure Window where
  w0 : UInt32
  w1 : UInt32
  w2 : UInt32
  w3 : UInt32
  w4 : UInt32
  w5 : UInt32
  w6 : UInt32
  w7 : UInt32
  w8 : UInt32
  w9 : UInt32
  w10 : UInt32
  w11 : UInt32
  w12 : UInt32
  w13 : UInt32
  w14 : UInt32
  w15 : UInt32

/-- `W_{t+16}` from the window starting at `W_t` -/
def Window.next (w : Window) : UInt32 := rotl1 (w.w13 ^^^ w.w8 ^^^ w.w2 ^^^ w.w0)

/-- the window starting at `W_{t+1}` -/
def Window.shift (w : Window) : Window :=
  ⟨w.w1, w.w2, w.w3, w.w4, w.w5, w.w6, w.w7, w.w8, w.w9, w.w10, w.w11, w.w12, w.w13, w.w14, w.w15, w.next⟩

/-- §6.1.2 step 3, one value of `t` -/
def round (t : Nat) (v : Vars) (wt : UInt32) : Vars :=
  let T := rotl5 v.a + f t v.b v.c v.d + v.e + k t + wt
  ⟨T, v.a, rotl30 v.b, v.c, v.d⟩

/-- rounds `t, t+1, …, t+n-1`; `w` is the window starting at `W_t` -/
def rounds : Nat → Nat → Vars → Window → Vars
  | 0, _, v, _ => v
  | n + 1, t, v, w => rounds n (t + 1) (round t v w.w0) w.shift

/-- big-endian 32-bit words of a byte string (§5.2.1); a trailing partial word is dropped -/
def beWords : Bytes → List UInt32
  | a :: b :: c :: d :: rest =>
    ((a.toUInt32 <<< 24) ||| (b.toUInt32 <<< 16) ||| (c.toUInt32 <<< 8) ||| d.toUInt32) :: beWords rest
  | _ => []

def Window.ofWords : List UInt32 → Option Window
  | [w0, w1, w2, w3, w4, w5, w6, w7, w8, w9, w10, w11, w12, w13, w14, w15] =>
    some ⟨w0, w1, w2, w3, w4, w5, w6, w7, w8, w9, w10, w11, w12, w13, w14, w15⟩
  | _ => none

/-- §6.1.2 on the sixteen words of one block -/
def compressWords (h : Vars) (w : Window) : Vars :=
  let v := rounds 80 0 h w
  ⟨h.a + v.a, h.b + v.b, h.c + v.c, h.d + v.d, h.e + v.e⟩

/-- the compression function on a 64-byte block (`none` if the block is not 64 bytes) -/
def compress? (h : Vars) (block : Bytes) : Option Vars :=
  (Window.ofWords (beWords block)).map (compressWords h)

/-- total version used in the fold: a block that is not 64 bytes (never produced by `pad`) leaves
the state alone; every theorem that uses it carries `block.length = 64`. -/
def compress (h : Vars) (block : Bytes) : Vars :=
  match compress? h block with
  | some v => v
  | none => h

/-- number of zero bytes after the 0x80 marker: smallest `k ≥ 0` with `n + 1 + k ≡ 56 (mod 64)` -/
def zeroPad (n : Nat) : Nat := (119 - n % 64) % 64

/-- §5.1.1: `m ‖ 0x80 ‖ 0^k ‖ (8·|m|) as 64-bit big-endian` -/
def pad (m : Bytes) : Bytes :=
  m ++ 0x80 :: (List.replicate (zeroPad m.length) 0 ++ putU64be (UInt64.ofNat (8 * m.length)))

/-- fold the compression function over the first `n` 64-byte blocks of `bs` -/
def hashBlocks {σ : Type} (cf : σ → Bytes → σ) (h : σ) : Nat → Bytes → σ
  | 0, _ => h
  | n + 1, bs => hashBlocks cf (cf h (bs.take 64)) n (bs.drop 64)

/-- the digest bytes: `H0 ‖ … ‖ H4`, big-endian -/
def digestBytes (v : Vars) : Bytes :=
  putU32be v.a ++ putU32be v.b ++ putU32be v.c ++ putU32be v.d ++ putU32be v.e

def sha1With (cf : Vars → Bytes → Vars) (m : Bytes) : Bytes :=
  let p := pad m
  digestBytes (hashBlocks cf h0 (p.length / 64) p)

/-- SHA-1 of a byte string -/
def sha1 (m : Bytes) : Bytes := sha1With compress m

end Physis.Spec.Sha1
