import PhysisModel.Spec.Mtrl
/-!
Canonical one-line text of a decoded material (the observable compared by the correspondence; the
Rust harness prints the same text from the real structures).  Printing only.
-/
namespace Physis.Spec.Mtrl
open Physis.Generated

def sepBy (sep : String) (l : List String) : String := sep.intercalate l
def brk (sep : String) (l : List String) : String := "[" ++ sepBy sep l ++ "]"
def n32 (v : UInt32) : String := toString v.toNat
def n16 (v : UInt16) : String := toString v.toNat
def n8 (v : UInt8) : String := toString v.toNat
def bit (b : Bool) : String := if b then "1" else "0"

/-- an `f32` only observable through `{:?}`: bit pattern, all NaNs printed `nan` -/
def f32dbg (b : UInt32) : String :=
  if (b &&& 0x7F800000) == 0x7F800000 && (b &&& 0x007FFFFF) != 0 then "nan" else n32 b

def renderLegacyRow (r : LegacyColorTableRow) : String :=
  sepBy "," ((r.diffuseColor.map n32) ++ [n32 r.specularStrength] ++ r.specularColor.map n32 ++
    [n32 r.glossStrength] ++ r.emissiveColor.map n32 ++ [n16 r.tileSet] ++ r.materialRepeat.map n32 ++
    r.materialSkew.map n32)

def renderDawntrailRow (r : DawntrailColorTableRow) : String :=
  sepBy "," ((r.diffuseColor.map n32) ++ [n32 r.unknown1] ++ r.specularColor.map n32 ++ [n32 r.unknown2] ++
    r.emissiveColor.map n32 ++ [n32 r.unknown3, n32 r.sheenRate, n32 r.sheenTint, n32 r.sheenAperture,
    n32 r.unknown4, n32 r.roughness, n32 r.unknown5, n32 r.metalness, n32 r.anisotropy, n32 r.unknown6,
    n32 r.sphereMask, n32 r.unknown7, n32 r.unknown8, n16 r.shaderIndex, n16 r.tileSet, n32 r.tileAlpha,
    n16 r.sphereIndex] ++ r.materialRepeat.map n32 ++ r.materialSkew.map n32)

def renderColorTable : Option ColorTable → String
  | none => "none"
  | some .opaque => "opaque"
  | some (.legacy rows) => "legacy" ++ brk "|" (rows.map renderLegacyRow)
  | some (.dawntrail rows) => "dawntrail" ++ brk "|" (rows.map renderDawntrailRow)

def renderLegacyDye (r : LegacyColorDyeTableRow) : String :=
  n16 r.template ++ ":" ++ bit r.diffuse ++ bit r.specular ++ bit r.emissive ++ bit r.gloss ++
    bit r.specularStrength

def renderDawntrailDye (r : DawntrailColorDyeTableRow) : String :=
  n16 r.template ++ ":" ++ n8 r.channel ++ ":" ++ bit r.diffuse ++ bit r.specular ++ bit r.emissive ++
    bit r.scalar3 ++ bit r.metalness ++ bit r.roughness ++ bit r.sheenRate ++ bit r.sheenTintRate ++
    bit r.sheenAperture ++ bit r.anisotropy ++ bit r.sphereMapIndex ++ bit r.sphereMapMask

def renderDyeTable : Option ColorDyeTable → String
  | none => "none"
  | some .opaque => "opaque"
  | some (.legacy rows) => "legacy" ++ brk "," (rows.map renderLegacyDye)
  | some (.dawntrail rows) => "dawntrail" ++ brk "," (rows.map renderDawntrailDye)

def renderSampler (s : Sampler) : String :=
  sepBy ":" [textureUsageNames.getD s.textureUsage "?", n32 s.flags, n8 s.textureIndex, n8 s.unknown1,
    n8 s.unknown2, n8 s.unknown3]

def renderConstant (c : Constant) : String :=
  n32 c.id ++ ":" ++ n32 c.numValues ++ ":" ++ sepBy "/" (c.values.map f32dbg)

def render (m : Material) : String :=
  sepBy ";" [
    "shpk=" ++ Bytes.toHex m.shaderPackageName,
    "tex=" ++ brk "," (m.texturePaths.map Bytes.toHex),
    "keys=" ++ brk "," (m.shaderKeys.map fun k => n32 k.category ++ ":" ++ n32 k.value),
    "const=" ++ brk "," (m.constants.map renderConstant),
    "samp=" ++ brk "," (m.samplers.map renderSampler),
    "ct=" ++ renderColorTable m.colorTable,
    "dye=" ++ renderDyeTable m.colorDyeTable]

end Physis.Spec.Mtrl
