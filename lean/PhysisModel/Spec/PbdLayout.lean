import PhysisModel.Spec.Pbd
/-!
Pre-bone deformer files in **any layout the reader accepts**.

`Spec.Pbd.encode` stores the out-of-line blocks back to back, in item order, right behind the link table,
and zeroes the 4 reserved bytes of every item.  Nothing in the format asks for that: an item only records
the absolute offset of its block.  This file describes

* the general shape (`assemble`): count, item rows with *explicit* offsets and reserved bytes, link table,
  then arbitrary data; `BlockAt` says that an item's block is found where its row points;
* a concrete family of such files (`encodePlaced`): the blocks stored in any order, each behind any number
  of filler bytes, blocks shared between items with equal bones, unreferenced blocks, any reserved bytes,
  any trailer.  This is the encoder behind the `pbdl` cases of the correspondence.
-/
namespace Physis.Spec.Pbd

/-- what one block can hold: it fits the u16 name offsets, 12 floats per matrix, NUL-free ASCII names -/
def WFBlock (bones : List Bone) : Prop :=
  (encodeBlock bones).length < 2 ^ 16 ∧ ∀ b ∈ bones, b.deform.length = 12 ∧ ∀ c ∈ b.name, c ≠ 0 ∧ c < 128
instance (bones : List Bone) : Decidable (WFBlock bones) := by unfold WFBlock; infer_instance

/-- an item row: the item, the absolute offset of its block, its 4 reserved bytes -/
abbrev Row := Item × Nat × Bytes

/-- item table with explicit block offsets and reserved bytes -/
def encodeItemsAt : List Row → Bytes
  | [] => []
  | (it, off, res) :: r =>
    putU16le it.bodyId ++ putU16le it.linkIndex ++ putU32le (UInt32.ofNat off) ++ res ++ encodeItemsAt r

/-- count, item rows, link table, then `data` (whatever lies behind the tables) -/
def assemble (rows : List Row) (links : List Link) (data : Bytes) : Bytes :=
  putU32le (UInt32.ofNat rows.length) ++ encodeItemsAt rows ++ links.flatMap encodeLink ++ data

/-- the encoded block of `bones` is found at absolute offset `off` (an i32) of `file` -/
def BlockAt (file : Bytes) (off : Nat) (bones : List Bone) : Prop :=
  off < 2 ^ 31 ∧ encodeBlock bones <+: file.drop off
instance (file : Bytes) (off : Nat) (bones : List Bone) : Decidable (BlockAt file off bones) := by
  unfold BlockAt; infer_instance

/-- **a well-formed deformer file in general position**: equal table sizes, a count that fits an i32,
4 reserved bytes per row, and every row points at a well-formed block holding the item's bones -/
def WFRows (rows : List Row) (links : List Link) (data : Bytes) : Prop :=
  links.length = rows.length ∧ rows.length < 2 ^ 31 ∧
  ∀ r ∈ rows, r.2.2.length = 4 ∧ WFBlock r.1.bones ∧ BlockAt (assemble rows links data) r.2.1 r.1.bones
instance (rows : List Row) (links : List Link) (data : Bytes) : Decidable (WFRows rows links data) := by
  unfold WFRows; infer_instance

/-! ### a concrete family: blocks in any order, with gaps -/

/-- one stored block: filler bytes in front of it (alignment, unused space), then the encoded bones -/
structure Stored where
  gap : Bytes
  bones : List Bone
  deriving DecidableEq, Repr

structure Placement where
  /-- the data area in storage order -/
  stored : List Stored
  /-- the 4 bytes behind each item's offset field, in item order (never read by the library) -/
  reserved : List Bytes
  /-- bytes behind the last block -/
  trailer : Bytes
  deriving DecidableEq, Repr

/-- the data area starting at absolute position `pos` and, for each stored block in order, its bones and
absolute offset -/
def place : Nat → List Stored → Bytes × List (List Bone × Nat)
  | _, [] => ([], [])
  | pos, s :: r =>
    let rest := place (pos + s.gap.length + (encodeBlock s.bones).length) r
    (s.gap ++ encodeBlock s.bones ++ rest.1, (s.bones, pos + s.gap.length) :: rest.2)

/-- offset of the first stored block holding exactly these bones -/
def offsetOf (m : List (List Bone × Nat)) (bones : List Bone) : Option Nat :=
  (m.find? (fun p => decide (p.1 = bones))).map (·.2)

/-- the rows of the items: each item points at the first stored block with its bones; `none` when an item
has no stored block or the reserved list has the wrong length -/
def rowsOf (m : List (List Bone × Nat)) : List Item → List Bytes → Option (List Row)
  | [], [] => some []
  | it :: r, res :: rs =>
    match offsetOf m it.bones, rowsOf m r rs with
    | some off, some rest => some ((it, off, res) :: rest)
    | _, _ => none
  | _, _ => none

def encodePlaced (f : File) (p : Placement) : Option Bytes :=
  let pl := place (4 + 12 * f.items.length + 8 * f.links.length) p.stored
  match rowsOf pl.2 f.items p.reserved with
  | some rows => some (assemble rows f.links (pl.1 ++ p.trailer))
  | none => none

/-- what the placed layout can hold -/
def WFPlaced (f : File) (p : Placement) : Prop :=
  f.links.length = f.items.length ∧
  (∀ s ∈ p.stored, WFBlock s.bones) ∧
  (∀ r ∈ p.reserved, r.length = 4) ∧
  match encodePlaced f p with
  | some file => file.length < 2 ^ 31
  | none => False
instance (f : File) (p : Placement) : Decidable (WFPlaced f p) := by
  unfold WFPlaced; split <;> infer_instance

/-- the canonical placement: one block per item, in item order, no gaps, zero reserved bytes -/
def canonical (f : File) : Placement :=
  ⟨f.items.map (fun it => ⟨[], it.bones⟩), f.items.map (fun _ => [0, 0, 0, 0]), []⟩

end Physis.Spec.Pbd
