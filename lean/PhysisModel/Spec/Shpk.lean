import PhysisModel.Base.Bytes
/-!
# Shader packages (`.shpk`): what a file stores, and its byte encoding

* `ShaderPackage` … — the *decoded* package (the shape of the Rust structs of `src/shpk.rs`;
  strings are UTF-8 byte strings, `f32` is its bit pattern).
* `PackageF` … — the *stored* package: every header field, record and count-determining list,
  with the out-of-line data (shader blobs, string heap) as explicit byte regions and explicit
  offsets into them.  This is more general than one canonical layout: names may be shared,
  overlap, or be stored in any order, as real packages do.
* `encode` — the byte layout (little endian): magic, header, vertex shaders, pixel shaders,
  material parameters, optional defaults, four parameter lists, three key tables, the two sub-view
  defaults, nodes, aliases, then the shader blob region, then the string heap.
* `view` — what the stored package *means*: names are the C strings found at their heap offset
  (NUL padding of the declared length removed), a vertex shader's blob is 8 bytes of additional
  header followed by `data_size` bytes of bytecode, the selector table is nodes then aliases.
* `WF` — decidable well-formedness (counts fit their fields, slices inside the file, names ASCII).

No model is imported here.
-/
namespace Physis.Spec.Shpk

/-! ### decoded package -/

structure ResourceParameter where
  id : UInt32
  unknown : UInt16
  slot : UInt16
  size : UInt16
  name : Bytes
  deriving DecidableEq, Repr

structure Shader where
  dataOffset : UInt32
  dataSize : UInt32
  scalarParameterCount : UInt16
  resourceParameterCount : UInt16
  uavParameterCount : UInt16
  textureCount : UInt16
  scalarParameters : List ResourceParameter
  resourceParameters : List ResourceParameter
  uavParameters : List ResourceParameter
  textureParameters : List ResourceParameter
  additionalData : Bytes
  bytecode : Bytes
  deriving DecidableEq, Repr

structure MaterialParameter where
  id : UInt32
  byteOffset : UInt16
  byteSize : UInt16
  deriving DecidableEq, Repr

structure Key where
  id : UInt32
  defaultValue : UInt32
  deriving DecidableEq, Repr

structure Pass where
  id : UInt32
  vertexShader : UInt32
  pixelShader : UInt32
  deriving DecidableEq, Repr

structure NodeAlias where
  selector : UInt32
  node : UInt32
  deriving DecidableEq, Repr

structure Node where
  selector : UInt32
  passCount : UInt32
  passIndices : Bytes
  systemKeys : List UInt32
  sceneKeys : List UInt32
  materialKeys : List UInt32
  subviewKeys : List UInt32
  passes : List Pass
  deriving DecidableEq, Repr

structure ShaderPackage where
  version : UInt32
  format : Bytes
  fileLength : UInt32
  shaderDataOffset : UInt32
  stringsOffset : UInt32
  vertexShaderCount : UInt32
  pixelShaderCount : UInt32
  materialParametersSize : UInt32
  materialParameterCount : UInt16
  hasMatParamDefaults : UInt16
  scalarParameterCount : UInt16
  samplerCount : UInt16
  textureCount : UInt16
  uavCount : UInt16
  systemKeyCount : UInt32
  sceneKeyCount : UInt32
  materialKeyCount : UInt32
  nodeCount : UInt32
  nodeAliasCount : UInt32
  vertexShaders : List Shader
  pixelShaders : List Shader
  materialParameters : List MaterialParameter
  matParamDefaults : List UInt32
  scalarParameters : List ResourceParameter
  samplerParameters : List ResourceParameter
  textureParameters : List ResourceParameter
  uavParameters : List ResourceParameter
  systemKeys : List Key
  sceneKeys : List Key
  materialKeys : List Key
  subViewKey1Default : UInt32
  subViewKey2Default : UInt32
  nodes : List Node
  nodeSelectors : List (UInt32 × UInt32)
  nodeAliases : List NodeAlias
  deriving DecidableEq, Repr

/-! ### stored package -/

/-- a parameter record: the name is `strLen` bytes at `strOff` in the string heap -/
structure ParamF where
  id : UInt32
  strOff : UInt32
  strLen : UInt16
  unknown : UInt16
  slot : UInt16
  size : UInt16
  deriving DecidableEq, Repr

/-- a shader record: its blob is at `dataOffset` in the blob region -/
structure ShaderF where
  dataOffset : UInt32
  dataSize : UInt32
  scalars : List ParamF
  resources : List ParamF
  uavs : List ParamF
  textures : List ParamF
  deriving DecidableEq, Repr

structure NodeF where
  selector : UInt32
  passIndices : Bytes
  systemKeys : List UInt32
  sceneKeys : List UInt32
  materialKeys : List UInt32
  subviewKeys : List UInt32
  passes : List Pass
  deriving DecidableEq, Repr

structure PackageF where
  version : UInt32
  /-- the 4 tag bytes: `DX9\0` or `DX11` -/
  format : Bytes
  fileLength : UInt32
  materialParametersSize : UInt32
  hasMatParamDefaults : UInt16
  unknown1 : UInt16
  unknown2 : UInt16
  vertexShaders : List ShaderF
  pixelShaders : List ShaderF
  materialParameters : List MaterialParameter
  matParamDefaults : List UInt32
  scalars : List ParamF
  samplers : List ParamF
  textures : List ParamF
  uavs : List ParamF
  systemKeys : List Key
  sceneKeys : List Key
  materialKeys : List Key
  subViewKey1Default : UInt32
  subViewKey2Default : UInt32
  nodes : List NodeF
  aliases : List NodeAlias
  /-- shader blob region (starts at `shader_data_offset`) -/
  blob : Bytes
  /-- string heap (starts at `strings_offset`) -/
  strings : Bytes
  deriving DecidableEq, Repr

/-! ### encoder -/

def u16len (l : List α) : UInt16 := UInt16.ofNat l.length
def u32len (l : List α) : UInt32 := UInt32.ofNat l.length

def encParam (p : ParamF) : Bytes :=
  putU32le p.id ++ (putU32le p.strOff ++ (putU16le p.strLen ++ (putU16le p.unknown ++
    (putU16le p.slot ++ putU16le p.size))))

def encShader (s : ShaderF) : Bytes :=
  putU32le s.dataOffset ++ (putU32le s.dataSize ++ (putU16le (u16len s.scalars) ++
    (putU16le (u16len s.resources) ++ (putU16le (u16len s.uavs) ++ (putU16le (u16len s.textures) ++
    (s.scalars.flatMap encParam ++ (s.resources.flatMap encParam ++ (s.uavs.flatMap encParam ++
      s.textures.flatMap encParam))))))))

def encMatParam (m : MaterialParameter) : Bytes :=
  putU32le m.id ++ (putU16le m.byteOffset ++ putU16le m.byteSize)

def encKey (k : Key) : Bytes := putU32le k.id ++ putU32le k.defaultValue

def encPass (p : Pass) : Bytes :=
  putU32le p.id ++ (putU32le p.vertexShader ++ putU32le p.pixelShader)

def encAlias (a : NodeAlias) : Bytes := putU32le a.selector ++ putU32le a.node

def encNode (n : NodeF) : Bytes :=
  putU32le n.selector ++ (putU32le (u32len n.passes) ++ (n.passIndices ++
    (n.systemKeys.flatMap putU32le ++ (n.sceneKeys.flatMap putU32le ++
    (n.materialKeys.flatMap putU32le ++ (n.subviewKeys.flatMap putU32le ++
      n.passes.flatMap encPass))))))

def magic : Bytes := [0x53, 0x68, 0x50, 0x6B]  -- "ShPk"

/-- everything that is read sequentially; `sdo`/`so` are the two offset fields -/
def encSeq (f : PackageF) (sdo so : UInt32) : Bytes :=
  magic ++ (putU32le f.version ++ (f.format ++ (putU32le f.fileLength ++ (putU32le sdo ++ (putU32le so ++
  (putU32le (u32len f.vertexShaders) ++ (putU32le (u32len f.pixelShaders) ++
  (putU32le f.materialParametersSize ++ (putU16le (u16len f.materialParameters) ++
  (putU16le f.hasMatParamDefaults ++ (putU16le (u16len f.scalars) ++ (putU16le f.unknown1 ++
  (putU16le (u16len f.samplers) ++ (putU16le (u16len f.textures) ++ (putU16le (u16len f.uavs) ++
  (putU16le f.unknown2 ++
  (putU32le (u32len f.systemKeys) ++ (putU32le (u32len f.sceneKeys) ++
  (putU32le (u32len f.materialKeys) ++ (putU32le (u32len f.nodes) ++ (putU32le (u32len f.aliases) ++
  (f.vertexShaders.flatMap encShader ++ (f.pixelShaders.flatMap encShader ++
  (f.materialParameters.flatMap encMatParam ++ (f.matParamDefaults.flatMap putU32le ++
  (f.scalars.flatMap encParam ++ (f.samplers.flatMap encParam ++ (f.textures.flatMap encParam ++
  (f.uavs.flatMap encParam ++
  (f.systemKeys.flatMap encKey ++ (f.sceneKeys.flatMap encKey ++ (f.materialKeys.flatMap encKey ++
  (putU32le f.subViewKey1Default ++ (putU32le f.subViewKey2Default ++
  (f.nodes.flatMap encNode ++ f.aliases.flatMap encAlias)))))))))))))))))))))))))))))))))))

/-- length of the sequential part (does not depend on the values of the two offset fields) -/
def seqLen (f : PackageF) : Nat := (encSeq f 0 0).length

def shaderDataOffset (f : PackageF) : UInt32 := UInt32.ofNat (seqLen f)
def stringsOffset (f : PackageF) : UInt32 := UInt32.ofNat (seqLen f + f.blob.length)

/-- the file: sequential part, blob region, string heap -/
def encode (f : PackageF) : Bytes :=
  encSeq f (shaderDataOffset f) (stringsOffset f) ++ (f.blob ++ f.strings)

/-! ### meaning -/

/-- bytes `off .. off+n` of a region (`[]` past the end — guarded by `WF`) -/
def region (r : Bytes) (off n : Nat) : Bytes := (r.drop off).take n

/-- the C string at the start of a byte string -/
def cstr (b : Bytes) : Bytes := b.takeWhile (· != 0)

def viewParam (heap : Bytes) (p : ParamF) : ResourceParameter :=
  { id := p.id, unknown := p.unknown, slot := p.slot, size := p.size
    name := cstr (region heap p.strOff.toNat p.strLen.toNat) }

/-- size of the additional header in front of a vertex shader's bytecode -/
def vertexHeaderSize : Nat := 8

def viewShader (f : PackageF) (isVertex : Bool) (s : ShaderF) : Shader :=
  let data := f.blob ++ f.strings
  let hdr := if isVertex then vertexHeaderSize else 0
  { dataOffset := s.dataOffset, dataSize := s.dataSize
    scalarParameterCount := u16len s.scalars, resourceParameterCount := u16len s.resources
    uavParameterCount := u16len s.uavs, textureCount := u16len s.textures
    scalarParameters := s.scalars.map (viewParam f.strings)
    resourceParameters := s.resources.map (viewParam f.strings)
    uavParameters := s.uavs.map (viewParam f.strings)
    textureParameters := s.textures.map (viewParam f.strings)
    additionalData := region data s.dataOffset.toNat hdr
    bytecode := region data (s.dataOffset.toNat + hdr) s.dataSize.toNat }

def viewNode (n : NodeF) : Node :=
  { selector := n.selector, passCount := u32len n.passes, passIndices := n.passIndices
    systemKeys := n.systemKeys, sceneKeys := n.sceneKeys, materialKeys := n.materialKeys
    subviewKeys := n.subviewKeys, passes := n.passes }

/-- selectors of the nodes with their index -/
def nodeEntries : List NodeF → Nat → List (UInt32 × UInt32)
  | [], _ => []
  | n :: r, i => (n.selector, UInt32.ofNat i) :: nodeEntries r (i + 1)

/-- the selector table: every node under its own selector, then every alias -/
def selectorTable (f : PackageF) : List (UInt32 × UInt32) :=
  nodeEntries f.nodes 0 ++ f.aliases.map (fun a => (a.selector, a.node))

/-- `String::from_utf8(tag).trim_matches('\0')` of an ASCII tag: leading/trailing NULs removed -/
def stripNul (b : Bytes) : Bytes :=
  ((b.dropWhile (· == 0)).reverse.dropWhile (· == 0)).reverse

def view (f : PackageF) : ShaderPackage :=
  { version := f.version, format := stripNul f.format, fileLength := f.fileLength
    shaderDataOffset := shaderDataOffset f, stringsOffset := stringsOffset f
    vertexShaderCount := u32len f.vertexShaders, pixelShaderCount := u32len f.pixelShaders
    materialParametersSize := f.materialParametersSize
    materialParameterCount := u16len f.materialParameters
    hasMatParamDefaults := f.hasMatParamDefaults
    scalarParameterCount := u16len f.scalars, samplerCount := u16len f.samplers
    textureCount := u16len f.textures, uavCount := u16len f.uavs
    systemKeyCount := u32len f.systemKeys, sceneKeyCount := u32len f.sceneKeys
    materialKeyCount := u32len f.materialKeys, nodeCount := u32len f.nodes
    nodeAliasCount := u32len f.aliases
    vertexShaders := f.vertexShaders.map (viewShader f true)
    pixelShaders := f.pixelShaders.map (viewShader f false)
    materialParameters := f.materialParameters
    matParamDefaults := f.matParamDefaults
    scalarParameters := f.scalars.map (viewParam f.strings)
    samplerParameters := f.samplers.map (viewParam f.strings)
    textureParameters := f.textures.map (viewParam f.strings)
    uavParameters := f.uavs.map (viewParam f.strings)
    systemKeys := f.systemKeys, sceneKeys := f.sceneKeys, materialKeys := f.materialKeys
    subViewKey1Default := f.subViewKey1Default, subViewKey2Default := f.subViewKey2Default
    nodes := f.nodes.map viewNode
    nodeSelectors := selectorTable f
    nodeAliases := f.aliases }

/-! ### well-formedness -/

/-- the declared name slice lies in the heap, is a C string followed only by NUL padding, and
is ASCII (names in shader packages are identifiers) -/
def wfParam (heap : Bytes) (p : ParamF) : Bool :=
  let s := region heap p.strOff.toNat p.strLen.toNat
  decide (p.strOff.toNat + p.strLen.toNat ≤ heap.length) &&
  (s.dropWhile (· != 0)).all (· == 0) && s.all (· < 0x80)

def wfShader (f : PackageF) (isVertex : Bool) (s : ShaderF) : Bool :=
  decide (s.scalars.length < 65536) && decide (s.resources.length < 65536) &&
  decide (s.uavs.length < 65536) && decide (s.textures.length < 65536) &&
  s.scalars.all (wfParam f.strings) && s.resources.all (wfParam f.strings) &&
  s.uavs.all (wfParam f.strings) && s.textures.all (wfParam f.strings) &&
  decide (s.dataOffset.toNat + (if isVertex then vertexHeaderSize else 0) + s.dataSize.toNat
            ≤ f.blob.length + f.strings.length)

def wfNode (f : PackageF) (n : NodeF) : Bool :=
  decide (n.passIndices.length = 16) &&
  decide (n.systemKeys.length = f.systemKeys.length) &&
  decide (n.sceneKeys.length = f.sceneKeys.length) &&
  decide (n.materialKeys.length = f.materialKeys.length) &&
  decide (n.subviewKeys.length = 2) &&
  decide (n.passes.length < 4294967296)

/-- number of default floats the header announces: `(size as i32) >> 2` when the flag is 1 -/
def defaultsCount (f : PackageF) : Option Nat :=
  if f.hasMatParamDefaults == 1 then
    (if f.materialParametersSize.toNat < 2147483648 then some (f.materialParametersSize.toNat / 4) else none)
  else some 0

def WF (f : PackageF) : Bool :=
  decide (f.format.length = 4) && f.format.all (· < 0x80) &&
  decide (seqLen f + f.blob.length + f.strings.length < 4294967296) &&
  decide (f.vertexShaders.length < 4294967296) && decide (f.pixelShaders.length < 4294967296) &&
  decide (f.systemKeys.length < 4294967296) && decide (f.sceneKeys.length < 4294967296) &&
  decide (f.materialKeys.length < 4294967296) && decide (f.nodes.length < 4294967296) &&
  decide (f.aliases.length < 4294967296) &&
  decide (f.materialParameters.length < 65536) &&
  decide (f.scalars.length < 65536) && decide (f.samplers.length < 65536) &&
  decide (f.textures.length < 65536) && decide (f.uavs.length < 65536) &&
  f.vertexShaders.all (wfShader f true) && f.pixelShaders.all (wfShader f false) &&
  (defaultsCount f == some f.matParamDefaults.length) &&
  f.scalars.all (wfParam f.strings) && f.samplers.all (wfParam f.strings) &&
  f.textures.all (wfParam f.strings) && f.uavs.all (wfParam f.strings) &&
  f.nodes.all (wfNode f)

/-! ### selectors -/

/-- `Σᵢ ksᵢ · 31^(i₀+i)` over the naturals -/
def polySum : List UInt32 → Nat → Nat
  | [], _ => 0
  | k :: r, i => k.toNat * 31 ^ i + polySum r (i + 1)

/-- the selector of a key list: the base-31 polynomial of the keys modulo 2³² -/
def selectorOf (ks : List UInt32) : UInt32 := UInt32.ofNat (polySum ks 0 % 4294967296)

/-- what a selector resolves to in a decoded package: the first node carrying it, otherwise the
node that the first alias with that selector points to (index into `nodes`) -/
def resolve (nodes : List Node) (aliases : List NodeAlias) (sel : UInt32) : Option Nat :=
  match nodes.findIdx? (·.selector == sel) with
  | some i => some i
  | none => (aliases.find? (·.selector == sel)).map (·.node.toNat)

end Physis.Spec.Shpk
