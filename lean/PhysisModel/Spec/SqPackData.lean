import PhysisModel.Base.Bytes
/-!
# SqPack data-file entries: the packers (C02)

How a file is stored in a `.dat` file: a 128-aligned *entry* = file-info header (with a block
table) followed by the blocks; every block = 16-byte block header + payload, zero-padded to a
multiple of 128; the payload is the content itself (marker 32000) or a raw-deflate stream of it.
Three entry kinds: standard (type 2), model (type 3), texture (type 4).

`Block.compressed = some c` means "stored as the deflate stream `c`"; the relation between `c`
and the content (`inflate c data.length = some data`) is a hypothesis of the theorems.
This file must not import any model of the code.
-/
namespace Physis.Spec.SqPackData
open Physis

structure Block where
  data : Bytes
  compressed : Option Bytes
deriving Repr, DecidableEq

def zeros (n : Nat) : Bytes := List.replicate n 0

/-- bytes needed to reach the next multiple of 128 -/
def pad128 (n : Nat) : Nat := (128 - n % 128) % 128

def align128 (l : Bytes) : Bytes := l ++ zeros (pad128 l.length)

def Block.payload (b : Block) : Bytes :=
  match b.compressed with
  | some c => c
  | none => b.data

/-- third header word: compressed length, or the marker 32000 for a raw block -/
def Block.marker (b : Block) : UInt32 :=
  match b.compressed with
  | some c => c.length.toUInt32
  | none => 32000

def encodeBlock (b : Block) : Bytes :=
  align128 (putU32le 16 ++ putU32le 0 ++ putU32le b.marker ++ putU32le b.data.length.toUInt32 ++ b.payload)

/-- content below 2 GiB; a deflate stream shorter than the marker and holding at most 1 MiB (the
game writes at most 16000 bytes per block; the library refuses a deflated block that declares
more than 1 MiB — its guard against corrupt headers); the padded block fits the 16-bit size tables -/
def Block.wf (b : Block) : Bool :=
  b.data.length < 2147483648 &&
  (match b.compressed with
    | some c => decide (c.length < 32000) && decide (b.data.length ≤ 1048576)
    | none => true) &&
  b.payload.length ≤ 32000

def encodeBlocks (bs : List Block) : Bytes := (bs.map encodeBlock).flatten

def contents (bs : List Block) : Bytes := (bs.map (·.data)).flatten

/-! ### standard entries -/

/-- block table: offset of each block relative to the end of the header, padded block size,
content size -/
def standardTable : Nat → List Block → Bytes
  | _, [] => []
  | off, b :: bs =>
    putU32le off.toUInt32 ++ putU16le (encodeBlock b).length.toUInt16 ++ putU16le b.data.length.toUInt16 ++
      standardTable (off + (encodeBlock b).length) bs

/-- length of the standard file-info header before padding -/
def standardHeaderLen (n : Nat) : Nat := 24 + 8 * n

def standardHeader (bs : List Block) : Bytes :=
  let hl := standardHeaderLen bs.length
  align128 (putU32le (hl + pad128 hl).toUInt32 ++ putU32le 2 ++ putU32le (contents bs).length.toUInt32 ++
    putU32le 0 ++ putU32le 0 ++ putU32le bs.length.toUInt32 ++ standardTable 0 bs)

def packStandard (bs : List Block) : Bytes := standardHeader bs ++ encodeBlocks bs

def standardWf (bs : List Block) : Bool :=
  bs.all (·.wf) && decide (standardHeaderLen bs.length + 128 + (encodeBlocks bs).length < 2147483648)

/-! ### texture entries -/

/-- LOD table: offset of the LOD's first block relative to the end of the header (the texture
header sits before the first LOD), padded size, content size, index of the first block, count -/
def lodTable : Nat → Nat → List (List Block) → Bytes
  | _, _, [] => []
  | off, idx, m :: ms =>
    putU32le off.toUInt32 ++ putU32le (encodeBlocks m).length.toUInt32 ++
      putU32le (contents m).length.toUInt32 ++ putU32le idx.toUInt32 ++ putU32le m.length.toUInt32 ++
      lodTable (off + (encodeBlocks m).length) (idx + m.length) ms

/-- one 16-bit padded size per block -/
def sizeTable (bs : List Block) : Bytes := (bs.map (fun b => putU16le (encodeBlock b).length.toUInt16)).flatten

def textureHeaderLen (mips : List (List Block)) : Nat := 24 + 20 * mips.length + 2 * mips.flatten.length

def textureHeader (texHeader : Bytes) (mips : List (List Block)) : Bytes :=
  let hl := textureHeaderLen mips
  align128 (putU32le (hl + pad128 hl).toUInt32 ++ putU32le 4 ++
    putU32le (texHeader.length + (contents mips.flatten).length).toUInt32 ++
    putU32le 0 ++ putU32le 0 ++ putU32le mips.length.toUInt32 ++
    lodTable texHeader.length 0 mips ++ sizeTable mips.flatten)

def packTexture (texHeader : Bytes) (mips : List (List Block)) : Bytes :=
  textureHeader texHeader mips ++ texHeader ++ encodeBlocks mips.flatten

/-- at least one mip, the first one with at least one block -/
def textureWf (texHeader : Bytes) (mips : List (List Block)) : Bool :=
  mips.flatten.all (·.wf) &&
  (match mips with | (_ :: _) :: _ => true | _ => false) &&
  decide (textureHeaderLen mips + 128 + texHeader.length + (encodeBlocks mips.flatten).length < 2147483648)

/-! ### texture entries whose mip chains do not sit back to back

Every LOD record carries the offset of its first block, so the format allows filler between the
block chains of two LODs (the chain of LOD 0 starts right behind the texture header: the reader
takes the texture header's length from that offset).  `gaps[i]` are the bytes in front of the
chain of LOD `i + 1`. -/

def lodTableG : Nat → Nat → List (Bytes × List Block) → Bytes
  | _, _, [] => []
  | off, idx, (g, m) :: ms =>
    putU32le (off + g.length).toUInt32 ++ putU32le (encodeBlocks m).length.toUInt32 ++
      putU32le (contents m).length.toUInt32 ++ putU32le idx.toUInt32 ++ putU32le m.length.toUInt32 ++
      lodTableG (off + g.length + (encodeBlocks m).length) (idx + m.length) ms

def gappedBody : List (Bytes × List Block) → Bytes
  | [] => []
  | (g, m) :: ms => g ++ encodeBlocks m ++ gappedBody ms

/-- `mips` paired with the filler in front of each chain (empty in front of the first) -/
def withGaps (mips : List (List Block)) (gaps : List Bytes) : List (Bytes × List Block) :=
  match mips with
  | [] => []
  | m :: ms => ([], m) :: (ms.zipIdx.map fun (x, i) => (gaps.getD i [], x))

def packTextureG (texHeader : Bytes) (mips : List (List Block)) (gaps : List Bytes) : Bytes :=
  let hl := textureHeaderLen mips
  align128 (putU32le (hl + pad128 hl).toUInt32 ++ putU32le 4 ++
    putU32le (texHeader.length + (contents mips.flatten).length).toUInt32 ++
    putU32le 0 ++ putU32le 0 ++ putU32le mips.length.toUInt32 ++
    lodTableG texHeader.length 0 (withGaps mips gaps) ++ sizeTable mips.flatten)
  ++ texHeader ++ gappedBody (withGaps mips gaps)

def textureGWf (texHeader : Bytes) (mips : List (List Block)) (gaps : List Bytes) : Bool :=
  textureWf texHeader mips &&
  decide (textureHeaderLen mips + 128 + texHeader.length + (gappedBody (withGaps mips gaps)).length < 2147483648)

/-! ### model entries -/

/-- the eleven block runs of a model entry, in file order: stack, runtime, then per LOD the vertex,
edge-geometry and index runs -/
structure ModelSections where
  stack : List Block
  runtime : List Block
  v0 : List Block
  e0 : List Block
  i0 : List Block
  v1 : List Block
  e1 : List Block
  i1 : List Block
  v2 : List Block
  e2 : List Block
  i2 : List Block
deriving Repr

def ModelSections.all (s : ModelSections) : List Block :=
  s.stack ++ s.runtime ++ s.v0 ++ s.e0 ++ s.i0 ++ s.v1 ++ s.e1 ++ s.i1 ++ s.v2 ++ s.e2 ++ s.i2

structure ModelMeta where
  version : UInt32
  vertexDeclarationNum : UInt16
  materialNum : UInt16
  numLods : UInt8
  indexBufferStreaming : Bool
  edgeGeometry : Bool
deriving Repr, DecidableEq

/-- the eleven values of a `ModelMemorySizes` record in file order: stack, runtime, vertex[3],
edge[3], index[3] -/
def mms (put : Nat → Bytes) (f : List Block → Nat) (s : ModelSections) : Bytes :=
  put (f s.stack) ++ put (f s.runtime) ++ put (f s.v0) ++ put (f s.v1) ++ put (f s.v2) ++
  put (f s.e0) ++ put (f s.e1) ++ put (f s.e2) ++ put (f s.i0) ++ put (f s.i1) ++ put (f s.i2)

def put32 (n : Nat) : Bytes := putU32le n.toUInt32
def put16 (n : Nat) : Bytes := putU16le n.toUInt16

def encLen (bs : List Block) : Nat := (encodeBlocks bs).length
def conLen (bs : List Block) : Nat := (contents bs).length

/-- start of each section relative to the end of the header (file order = reassembly order) -/
def modelOffsets (s : ModelSections) : Bytes :=
  let o1 := encLen s.stack
  let o2 := o1 + encLen s.runtime
  let o3 := o2 + encLen s.v0
  let o4 := o3 + encLen s.e0
  let o5 := o4 + encLen s.i0
  let o6 := o5 + encLen s.v1
  let o7 := o6 + encLen s.e1
  let o8 := o7 + encLen s.i1
  let o9 := o8 + encLen s.v2
  let o10 := o9 + encLen s.e2
  put32 0 ++ put32 o1 ++ put32 o2 ++ put32 o5 ++ put32 o8 ++
  put32 o3 ++ put32 o6 ++ put32 o9 ++ put32 o4 ++ put32 o7 ++ put32 o10

/-- index of each section's first block -/
def modelIndices (s : ModelSections) : Bytes :=
  let n1 := s.stack.length
  let n2 := n1 + s.runtime.length
  let n3 := n2 + s.v0.length
  let n4 := n3 + s.e0.length
  let n5 := n4 + s.i0.length
  let n6 := n5 + s.v1.length
  let n7 := n6 + s.e1.length
  let n8 := n7 + s.i1.length
  let n9 := n8 + s.v2.length
  let n10 := n9 + s.e2.length
  put16 0 ++ put16 n1 ++ put16 n2 ++ put16 n5 ++ put16 n8 ++
  put16 n3 ++ put16 n6 ++ put16 n9 ++ put16 n4 ++ put16 n7 ++ put16 n10

def boolByte (b : Bool) : UInt8 := if b then 1 else 0

def modelHeaderLen (s : ModelSections) : Nat := 208 + 2 * s.all.length

def modelHeader (m : ModelMeta) (s : ModelSections) : Bytes :=
  let hl := modelHeaderLen s
  align128 (putU32le (hl + pad128 hl).toUInt32 ++ putU32le 3 ++ putU32le (68 + conLen s.all).toUInt32 ++
    put32 s.all.length ++ put32 s.all.length ++ putU32le m.version ++
    mms put32 conLen s ++ mms put32 encLen s ++ modelOffsets s ++ modelIndices s ++
    mms put16 List.length s ++
    putU16le m.vertexDeclarationNum ++ putU16le m.materialNum ++
    [m.numLods, boolByte m.indexBufferStreaming, boolByte m.edgeGeometry, 0] ++
    sizeTable s.all)

def packModel (m : ModelMeta) (s : ModelSections) : Bytes := modelHeader m s ++ encodeBlocks s.all

/-- the 0x44-byte header of the reassembled `.mdl` file -/
structure MdlHeader where
  version : UInt32
  stackSize : Nat
  runtimeSize : Nat
  vertexDeclarationCount : UInt16
  materialCount : UInt16
  vertexOffsets : Nat × Nat × Nat
  indexOffsets : Nat × Nat × Nat
  vertexBufferSize : Nat × Nat × Nat
  indexBufferSize : Nat × Nat × Nat
  lodCount : UInt8
  indexBufferStreaming : Bool
  edgeGeometry : Bool
deriving Repr, DecidableEq

def put3 (t : Nat × Nat × Nat) : Bytes := put32 t.1 ++ put32 t.2.1 ++ put32 t.2.2

def encodeMdlHeader (h : MdlHeader) : Bytes :=
  putU32le h.version ++ put32 h.stackSize ++ put32 h.runtimeSize ++
  putU16le h.vertexDeclarationCount ++ putU16le h.materialCount ++
  put3 h.vertexOffsets ++ put3 h.indexOffsets ++ put3 h.vertexBufferSize ++ put3 h.indexBufferSize ++
  [h.lodCount, boolByte h.indexBufferStreaming, boolByte h.edgeGeometry, 0]

/-- where a section starts in the reassembled file: its position if it has blocks, else 0 -/
def secOffset (sec : List Block) (pos : Nat) : Nat := if sec.isEmpty then 0 else pos

/-- the header that describes the reassembled file
`header ++ stack ++ runtime ++ v0 ++ e0 ++ i0 ++ v1 ++ e1 ++ i1 ++ v2 ++ e2 ++ i2` (the `.mdl`
header has no fields for the edge-geometry runs; they sit between the vertex and index data) -/
def mdlHeaderOf (m : ModelMeta) (s : ModelSections) : MdlHeader :=
  let p0 := 68 + conLen s.stack + conLen s.runtime
  let p1 := p0 + conLen s.v0
  let p2 := p1 + conLen s.e0
  let p3 := p2 + conLen s.i0
  let p4 := p3 + conLen s.v1
  let p5 := p4 + conLen s.e1
  let p6 := p5 + conLen s.i1
  let p7 := p6 + conLen s.v2
  let p8 := p7 + conLen s.e2
  { version := m.version
    stackSize := conLen s.stack
    runtimeSize := conLen s.runtime
    vertexDeclarationCount := m.vertexDeclarationNum
    materialCount := m.materialNum
    vertexOffsets := (secOffset s.v0 p0, secOffset s.v1 p3, secOffset s.v2 p6)
    indexOffsets := (secOffset s.i0 p2, secOffset s.i1 p5, secOffset s.i2 p8)
    vertexBufferSize := (conLen s.v0, conLen s.v1, conLen s.v2)
    indexBufferSize := (conLen s.i0, conLen s.i1, conLen s.i2)
    lodCount := m.numLods
    indexBufferStreaming := m.indexBufferStreaming
    edgeGeometry := m.edgeGeometry }

/-- the reassembled model file -/
def unpackedModel (m : ModelMeta) (s : ModelSections) : Bytes :=
  encodeMdlHeader (mdlHeaderOf m s) ++ contents s.all

/-- every block well-formed and non-empty (a block run with blocks has content), fewer than 2^16
blocks, packed size below 2 GiB, unpacked size below 4 GiB (32-bit header fields) -/
def modelWf (s : ModelSections) : Bool :=
  s.all.all (fun b => b.wf && !b.data.isEmpty) &&
  decide (s.all.length < 65536) &&
  decide (modelHeaderLen s + 128 + (encodeBlocks s.all).length < 2147483648) &&
  decide (68 + (contents s.all).length < 4294967296)

/-- `l[off .. off+len]` -/
def slice (l : Bytes) (off len : Nat) : Bytes := (l.drop off).take len


end Physis.Spec.SqPackData
