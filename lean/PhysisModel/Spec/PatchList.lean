import PhysisModel.Base.Bytes
import PhysisModel.Base.WireText
/-!
The patch-list wire text (the multipart-style body the patch servers send), independent of
Physis' reader and writer:

```
--<id>\r\n
Content-Type: application/octet-stream\r\n
Content-Location: <content location>\r\n
X-Patch-Length: <sum of the patch lengths>\r\n
\r\n
<length>\t<size on disk>\t<a>\t<b>\t<version>\t<url>\r\n                                  (boot)
<length>\t<size on disk>\t<a>\t<b>\t<version>\tsha1\t<block size>\t<h1>,<h2>,…\t<url>\r\n   (game)
--<id>--\r\n
```
Strings are UTF-8 byte strings; numbers are decimal.
-/
namespace Physis.Spec.PatchList
open Physis.WireText

inductive Kind | boot | game
deriving DecidableEq, Repr

/-- `PatchEntry` (`i64` / `i32` fields as integers; their ranges are part of `WF`) -/
structure PatchEntry where
  url : Bytes
  version : Bytes
  hashBlockSize : Int
  length : Int
  sizeOnDisk : Int
  hashes : List Bytes
  unknownA : Int
  unknownB : Int
deriving DecidableEq, Repr

/-- `PatchList` -/
structure PatchList where
  id : Bytes
  patchLength : Nat
  contentLocation : Bytes
  requestedVersion : Bytes
  patches : List PatchEntry
deriving DecidableEq, Repr

def crlf : Bytes := [13, 10]
def tab : UInt8 := 9
def comma : UInt8 := 0x2c
def sContentType : Bytes := [0x43, 0x6f, 0x6e, 0x74, 0x65, 0x6e, 0x74, 0x2d, 0x54, 0x79, 0x70, 0x65, 0x3a, 0x20, 0x61, 0x70, 0x70, 0x6c, 0x69, 0x63, 0x61, 0x74, 0x69, 0x6f, 0x6e, 0x2f, 0x6f, 0x63, 0x74, 0x65, 0x74, 0x2d, 0x73, 0x74, 0x72, 0x65, 0x61, 0x6d]  -- "Content-Type: application/octet-stream"
def sContentLocation : Bytes := [0x43, 0x6f, 0x6e, 0x74, 0x65, 0x6e, 0x74, 0x2d, 0x4c, 0x6f, 0x63, 0x61, 0x74, 0x69, 0x6f, 0x6e, 0x3a, 0x20]  -- "Content-Location: "
def sPatchLength : Bytes := [0x58, 0x2d, 0x50, 0x61, 0x74, 0x63, 0x68, 0x2d, 0x4c, 0x65, 0x6e, 0x67, 0x74, 0x68, 0x3a, 0x20]  -- "X-Patch-Length: "
def sSha1 : Bytes := [0x73, 0x68, 0x61, 0x31]  -- "sha1"
def sDashes : Bytes := [0x2d, 0x2d]

def totalLength (ps : List PatchEntry) : Int := (ps.map (·.length)).sum

/-- `h1,h2,…` -/
def joinHashes : List Bytes → Bytes
  | [] => []
  | [h] => h
  | h :: rest => h ++ comma :: joinHashes rest

def encodeRow (kind : Kind) (p : PatchEntry) : Bytes :=
  showInt p.length ++ tab :: (showInt p.sizeOnDisk ++ tab :: (showInt p.unknownA ++ tab ::
    (showInt p.unknownB ++ tab :: (p.version ++ tab ::
      ((match kind with
        | .boot => []
        | .game => sSha1 ++ tab :: (showInt p.hashBlockSize ++ tab :: (joinHashes p.hashes ++ [tab])))
       ++ (p.url ++ crlf))))))

/-- everything before the `X-Patch-Length` header line -/
def headerPrefix (id contentLocation : Bytes) : Bytes :=
  sDashes ++ (id ++ (crlf ++ (sContentType ++ (crlf ++ (sContentLocation ++ (contentLocation ++ crlf))))))

def encode (kind : Kind) (pl : PatchList) : Bytes :=
  headerPrefix pl.id pl.contentLocation ++
    (sPatchLength ++ (showInt (totalLength pl.patches) ++ (crlf ++ (crlf ++
      ((pl.patches.map (encodeRow kind)).flatten ++ (sDashes ++ (pl.id ++ (sDashes ++ crlf))))))))

/-! ### well-formed lists -/

/-- no TAB, CR or LF -/
def sepFree (s : Bytes) : Bool := s.all (fun c => c != 9 && c != 13 && c != 10)
/-- additionally no comma -/
def hashOk (s : Bytes) : Bool := s.all (fun c => c != 9 && c != 13 && c != 10 && c != 0x2c)

def isI64 (i : Int) : Bool := decide (-(2 ^ 63 : Int) ≤ i) && decide (i < 2 ^ 63)
def isI32 (i : Int) : Bool := decide (-(2 ^ 31 : Int) ≤ i) && decide (i < 2 ^ 31)

def WFEntry (kind : Kind) (p : PatchEntry) : Bool :=
  sepFree p.url && sepFree p.version &&
  isI64 p.hashBlockSize && decide (0 ≤ p.length) && isI64 p.length && isI64 p.sizeOnDisk &&
  isI32 p.unknownA && isI32 p.unknownB &&
  (match kind with
   | .boot => true
   | .game => !p.hashes.isEmpty && p.hashes.all hashOk)

/-- `pat` occurs in `s` -/
def occurs (pat : Bytes) : Bytes → Bool
  | [] => pat.isEmpty
  | c :: rest => isPrefix pat (c :: rest) || occurs pat rest

/-- A list the wire format can carry: separator-free strings, lengths that are non-negative
`i64`s whose sum is an `i64` (what `X-Patch-Length` can hold), at least one hash per game entry,
and header lines that do not themselves contain the text `X-Patch-Length: `. -/
def WF (kind : Kind) (pl : PatchList) : Bool :=
  sepFree pl.id && sepFree pl.contentLocation &&
  !occurs sPatchLength (headerPrefix pl.id pl.contentLocation) &&
  pl.patches.all (WFEntry kind) && decide (totalLength pl.patches < 2 ^ 63)

/-- what the wire text of a list carries for one patch: boot rows have no hash columns, and the
two unknown columns are not read back -/
def carried (kind : Kind) (p : PatchEntry) : PatchEntry :=
  match kind with
  | .boot => { p with hashBlockSize := 0, hashes := [], unknownA := 0, unknownB := 0 }
  | .game => { p with unknownA := 0, unknownB := 0 }

/-- the list a reader must produce from `encode kind pl`: the carried part of every patch and
the total patch length (id, content location and requested version are not parsed by Physis) -/
def decoded (kind : Kind) (pl : PatchList) : PatchList :=
  { id := [], patchLength := (totalLength pl.patches).toNat, contentLocation := [],
    requestedVersion := [], patches := pl.patches.map (carried kind) }

end Physis.Spec.PatchList
