import PhysisModel.Base.Fs
/-!
# C04 — what a created patch must achieve (specification side)

The old install is a tree `A`; the new one is given by its regular files `lb` (path components and
content) — directories of the new tree are not observed by the property.  The property: after
applying `create A B` to a copy of `A`, the regular files are exactly `lb`.

Hypotheses of the theorem (all decidable, checked by the driver on every case):
* `pathsOk`   — components are non-empty, contain no `/` and no NUL, are ASCII and are not `.`/`..`
* `nonEmpty`  — no zero-byte file in the new tree (`create` filters them; the property quantifies
                from 1 byte)
* `prefixFree` — no file of the new tree lies below another file of the new tree
* `sizesOk`   — every file is shorter than 2 GiB (it travels as one raw block with an `i32` length)
* `compatible` — no path is a regular file in one tree and a directory in the other
-/
namespace Physis.Spec.ZiPatchCreate
open Physis Physis.Fs

def compOk (c : Bytes) : Bool :=
  !c.isEmpty && c.all (fun b => b ≠ 0 && b ≠ 0x2f && b < 128) && c ≠ [0x2e] && c ≠ [0x2e, 0x2e]

def pathOk (p : Path) : Bool := !p.isEmpty && p.all compOk

def pathsOk (l : List (Path × Bytes)) : Bool := l.all (fun e => pathOk e.1)

def nonEmpty (l : List (Path × Bytes)) : Bool := l.all (fun e => !e.2.isEmpty)

/-- proper non-empty prefixes of `p` -/
def parents (p : Path) : List Path :=
  (List.range p.length).filterMap fun k => if k = 0 then none else some (p.take k)

/-- no file of the listing lies below another file of the listing -/
def prefixFree (l : List (Path × Bytes)) : Bool :=
  l.all fun e => (parents e.1).all fun q => !(l.any fun f => f.1 = q)

/-- every file of the new tree can be created in the old one: it is not a directory there and
none of its parent directories is a regular file there -/
def compatible (A : Tree) (lb : List (Path × Bytes)) : Bool :=
  lb.all fun e => !(get A e.1 == some Node.dir) && (parents e.1).all fun q => !isFile A q

/-- the old tree's own files are addressable -/
def treeOk (A : Tree) : Bool := A.all (fun e => pathOk e.1)

/-- sizes that fit the fields of the format: a file is stored as one raw block whose length is
a signed 32-bit number; the path length (with its NUL) is a u32 -/
def sizesOk (l : List (Path × Bytes)) : Bool :=
  l.all fun e => e.2.length < 2 ^ 31 && (joinSlash e.1).length + 1 < 2 ^ 32

/-- the hypotheses of `c04_create_apply` on an old tree `A` and the files `lb` of the new tree -/
def Inputs (A : Tree) (lb : List (Path × Bytes)) : Bool :=
  treeOk A && pathsOk lb && nonEmpty lb && prefixFree lb && compatible A lb &&
  sizesOk (files A) && sizesOk lb

end Physis.Spec.ZiPatchCreate
