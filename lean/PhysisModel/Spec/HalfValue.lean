/-!
IEEE-754 decoding of finite binary16 / binary32 patterns as exact integers — the value-level
specification that `Base/Half.lean`'s `halfToF32` is proved against (`Proofs/Half.lean`).
-/
namespace Physis.Spec.HalfValue

/-! IEEE-754 decoding of a finite pattern, as an exact integer: `|value| · 2^149` for binary32
(`(2^23 + m) · 2^(e-1)`, or `m` when `e = 0`) and `|value| · 2^24` for binary16
(`(2^10 + m) · 2^(e-1)`, or `m` when `e = 0`), in 280-bit arithmetic (no overflow: the largest
binary32 magnitude is below `2^277`).  The value is `(-1)^sign · mag / 2^149` resp. `/ 2^24`. -/

def f32Mag (b : UInt32) : BitVec 280 :=
  let e : BitVec 280 := (((b >>> 23) &&& 0xFF).toBitVec).setWidth 280
  let m : BitVec 280 := ((b &&& 0x7FFFFF).toBitVec).setWidth 280
  if e = 0 then m else (m ||| (1 <<< 23)) <<< (e - 1)

def halfMag (h : UInt16) : BitVec 280 :=
  let e : BitVec 280 := (((h >>> 10) &&& 0x1F).toBitVec).setWidth 280
  let m : BitVec 280 := ((h &&& 0x3FF).toBitVec).setWidth 280
  if e = 0 then m else (m ||| (1 <<< 10)) <<< (e - 1)


end Physis.Spec.HalfValue
