import PhysisModel.Base.ParserALemmas
import PhysisModel.Base.ParserASkel
/-!
Lemmas for `P.cstr`, `P.forEach` and two more postcondition rules (`restorePosition`, "every element
of a `count` satisfies the element reader's postcondition").
-/
namespace Physis.A

theorem cstrGo_shorter : ∀ (l : Bytes) (pos p : Nat) (r : Bytes),
    P.cstrGo l pos = some (p, r) → r.length < l.length := by
  intro l
  induction l with
  | nil => intro pos p r h; simp [P.cstrGo] at h
  | cons x t ih =>
    intro pos p r h
    unfold P.cstrGo at h
    split at h
    · cases h; simp
    · have := ih _ _ _ h; simp only [List.length_cons]; omega

theorem PGood.cstr : PGood P.cstr := by
  intro w s hs
  unfold P.cstr
  split
  · next p r heq =>
    refine ⟨good_ok _ _, ?_⟩
    intro a s' he; cases he
    have := cstrGo_shorter _ _ _ _ heq
    simp only [Inv] at *; omega
  · exact ⟨good_eof _, by intro a s' he; cases he⟩

theorem forGo_good {α} {f : α → P Unit} (hf : ∀ a, PGood (f a)) (w : Bytes) :
    ∀ (l : List α) (s : St) (pk n : Nat), Inv w s → pk ≤ budget w.length →
      Good (budget w.length) (P.forGo f w l s pk n) ∧
      ∀ a s', (P.forGo f w l s pk n).out = .ok (a, s') → Inv w s' := by
  intro l
  induction l with
  | nil =>
    intro s pk n hs hpk
    unfold P.forGo
    exact ⟨⟨not_faults_ok _ _, hpk⟩, by intro a s' he; cases he; exact hs⟩
  | cons a l ih =>
    intro s pk n hs hpk
    obtain ⟨⟨g1, g2⟩, hi⟩ := hf a w s hs
    unfold P.forGo
    split
    · next u s' k heq =>
      rw [heq] at g2 hi
      exact ih s' (max pk k) (n + 1) (hi _ s' rfl) (Nat.max_le.mpr ⟨hpk, g2⟩)
    · next e k heq =>
      rw [heq] at g2
      exact ⟨⟨not_faults_fail _ _, Nat.max_le.mpr ⟨hpk, g2⟩⟩, by intro a s' he; cases he⟩
    · next x k heq =>
      rw [heq] at g1; exact absurd ⟨x, rfl⟩ g1

theorem PGood.forEach {α} {f : α → P Unit} (l : List α) (hf : ∀ a, PGood (f a)) :
    PGood (P.forEach l f) := by
  intro w s hs
  exact forGo_good hf w l s 0 0 hs (Nat.zero_le _)

theorem forGo_count {α} (f : α → P Unit) (w : Bytes) :
    ∀ (l : List α) (s : St) (pk n m : Nat) (s' : St),
      (P.forGo f w l s pk n).out = .ok (m, s') → m = n + l.length := by
  intro l
  induction l with
  | nil => intro s pk n m s' h; unfold P.forGo at h; cases h; simp
  | cons a l ih =>
    intro s pk n m s' h
    unfold P.forGo at h
    split at h
    · next u s1 k heq =>
      have := ih s1 (max pk k) (n + 1) m s' h
      simp only [List.length_cons]; omega
    · cases h
    · cases h

/-- `forEach` pushes one element per element of the list -/
theorem PPost.forEach_count {α} (l : List α) (f : α → P Unit) :
    PPost (P.forEach l f) (fun m => m = l.length) := by
  intro w s m s' h
  have := forGo_count f w l s 0 0 m s' h
  omega

theorem PPost.restorePosition {α} {p : P α} {Q : α → Prop} (hp : PPost p Q) :
    PPost (P.restorePosition p) Q := by
  intro w s a s' h
  unfold P.restorePosition at h
  split at h
  · next a' s1 k heq => cases h; exact hp w s _ s1 (by rw [heq])
  · next r hne =>
    -- the other outcomes are passed through unchanged
    cases hr : p w s with
    | mk o k =>
      rw [hr] at h
      cases o with
      | ok v => exact absurd hr (by intro hh; exact hne v.1 v.2 k hh)
      | fail e => cases h
      | fault x => cases h

theorem countGo_all {α} {p : P α} {Q : α → Prop} (hp : PPost p Q) (w : Bytes) :
    ∀ (n : Nat) (s : St) (pk : Nat) (acc l : List α) (s' : St), (∀ x ∈ acc, Q x) →
      (P.countGo p w n s pk acc).out = .ok (l, s') → ∀ x ∈ l, Q x := by
  intro n
  induction n with
  | zero =>
    intro s pk acc l s' hacc h
    unfold P.countGo at h; cases h
    intro x hx; exact hacc x (List.mem_reverse.mp hx)
  | succ n ih =>
    intro s pk acc l s' hacc h
    unfold P.countGo at h
    split at h
    · next a s1 k heq =>
      refine ih s1 (max pk k) (a :: acc) l s' ?_ h
      intro x hx
      cases List.mem_cons.mp hx with
      | inl e => rw [e]; exact hp w s a s1 (by rw [heq])
      | inr m => exact hacc x m
    · cases h
    · cases h

/-- every element of a `count` satisfies the element reader's postcondition -/
theorem PPost.count_all {α} {p : P α} {Q : α → Prop} (n : Nat) (hp : PPost p Q) :
    PPost (P.count n p) (fun l => ∀ x ∈ l, Q x) := by
  intro w s l s' h
  exact countGo_all hp w n s 0 [] l s' (by intro x hx; cases hx) h

theorem PPost.and {α} {p : P α} {Q1 Q2 : α → Prop} (h1 : PPost p Q1) (h2 : PPost p Q2) :
    PPost p (fun a => Q1 a ∧ Q2 a) :=
  fun w s a s' h => ⟨h1 w s a s' h, h2 w s a s' h⟩

theorem PPost.eofP {α} {Q : α → Prop} : PPost (P.eofP : P α) Q := by
  intro w s a s' h; cases h

end Physis.A
