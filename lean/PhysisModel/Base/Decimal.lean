import PhysisModel.Base.Bytes
/-!
Decimal notation of naturals and integers as ASCII bytes (what Rust's `Display` for the integer
types prints: no leading zeros, `-` for negatives, never a `+`).  New shared helper (C08/C09).
-/
namespace Physis.Decimal

/-- ASCII digit `'0' + d` -/
def digit (d : Nat) : UInt8 := UInt8.ofNat (48 + d)

/-- the decimal digits of `n`, most significant first; `0` is `"0"` -/
def natDigits (n : Nat) : Bytes :=
  if n < 10 then [digit n] else natDigits (n / 10) ++ [digit (n % 10)]
termination_by n
decreasing_by omega

/-- `format!("{}", v)` for a signed integer -/
def showInt (v : Int) : Bytes :=
  if v < 0 then 45 :: natDigits v.natAbs else natDigits v.toNat

end Physis.Decimal
