import PhysisModel.Base.Fault
/-!
# Rust `str` / `String` operations on byte strings, for the fault models (C17 / C18)

A Rust `String` is modelled as its UTF-8 bytes.  Everything here is a pure, total function; the
operations that can *panic* in Rust (`&s[a..b]`) have a fault-raising version in `M` and an
`Option` version (`str::get`).  All list walks are tail recursive (inputs up to 1 MiB).
-/
namespace Physis.StrF

/-! ### UTF-8 validity (what `String::from_utf8` / `BufRead::read_line` accept) -/

@[inline] def isCont (b : UInt8) : Bool := 0x80 ≤ b && b ≤ 0xBF

/-- RFC 3629 well-formedness (no overlongs, no surrogates, ≤ U+10FFFF) -/
def validUtf8 : Bytes → Bool
  | [] => true
  | a :: r =>
    if a < 0x80 then validUtf8 r
    else if 0xC2 ≤ a && a ≤ 0xDF then
      match r with
      | b :: r => isCont b && validUtf8 r
      | _ => false
    else if a == 0xE0 then
      match r with
      | b :: c :: r => (0xA0 ≤ b && b ≤ 0xBF) && isCont c && validUtf8 r
      | _ => false
    else if (0xE1 ≤ a && a ≤ 0xEC) || a == 0xEE || a == 0xEF then
      match r with
      | b :: c :: r => isCont b && isCont c && validUtf8 r
      | _ => false
    else if a == 0xED then
      match r with
      | b :: c :: r => (0x80 ≤ b && b ≤ 0x9F) && isCont c && validUtf8 r
      | _ => false
    else if a == 0xF0 then
      match r with
      | b :: c :: d :: r => (0x90 ≤ b && b ≤ 0xBF) && isCont c && isCont d && validUtf8 r
      | _ => false
    else if 0xF1 ≤ a && a ≤ 0xF3 then
      match r with
      | b :: c :: d :: r => isCont b && isCont c && isCont d && validUtf8 r
      | _ => false
    else if a == 0xF4 then
      match r with
      | b :: c :: d :: r => (0x80 ≤ b && b ≤ 0x8F) && isCont c && isCont d && validUtf8 r
      | _ => false
    else false

/-- does the byte string contain `pat` starting at its head -/
def isPrefix : Bytes → Bytes → Bool
  | [], _ => true
  | _ :: _, [] => false
  | p :: ps, x :: xs => p == x && isPrefix ps xs

/-- contains U+FFFD (EF BF BD) -/
def containsFFFD : Bytes → Bool
  | [] => false
  | l@(_ :: r) => isPrefix [0xEF, 0xBF, 0xBD] l || containsFFFD r

/-- a string is *clean* when decoding it lossily is the identity and leaves no replacement
character: the digest of a lossily decoded string is its bytes when clean, a marker otherwise -/
def clean (s : Bytes) : Bool := validUtf8 s && !containsFFFD s

/-! ### `BufRead::lines().map_while(Result::ok)` -/

/-- first line of `l` *including* its terminating `\n` (if any), and the rest -/
def readLine : Bytes → Bytes → Bytes × Bytes
  | [], acc => (acc.reverse, [])
  | x :: r, acc => if x = 0x0A then ((x :: acc).reverse, r) else readLine r (x :: acc)

theorem readLine_length : ∀ (l acc : Bytes), (readLine l acc).2.length ≤ l.length := by
  intro l
  induction l with
  | nil => intro acc; simp [readLine]
  | cons x r ih =>
    intro acc
    unfold readLine
    split
    · simp
    · have := ih (x :: acc); simp only [List.length_cons]; omega

/-- strip the `\n` and then one `\r` (only when the line ended in `\n`) -/
def stripEol (line : Bytes) : Bytes :=
  match line.reverse with
  | 0x0A :: 0x0D :: r => r.reverse
  | 0x0A :: r => r.reverse
  | _ => line

/-- the lines a `for line in reader.lines().map_while(Result::ok)` loop sees: reading stops at
EOF or at the first line that is not valid UTF-8 -/
def linesAcc (fuel : Nat) (l : Bytes) (acc : Array Bytes) : Array Bytes :=
  match fuel with
  | 0 => acc
  | fuel + 1 =>
    match l with
    | [] => acc
    | _ =>
      let (line, rest) := readLine l []
      if validUtf8 line then linesAcc fuel rest (acc.push (stripEol line)) else acc

def lines (l : Bytes) : List Bytes := (linesAcc (l.length + 1) l #[]).toList

/-! ### searching and splitting -/

def contains (s : Bytes) (b : UInt8) : Bool := s.any (· == b)

/-- `str::split_once(char)` for an ASCII separator -/
def splitOnceAcc (sep : UInt8) : Bytes → Bytes → Option (Bytes × Bytes)
  | [], _ => none
  | x :: r, acc => if x = sep then some (acc.reverse, r) else splitOnceAcc sep r (x :: acc)
def splitOnce (sep : UInt8) (s : Bytes) : Option (Bytes × Bytes) := splitOnceAcc sep s []

/-- `str::split(char)` for an ASCII separator: always at least one piece -/
def splitCharAcc (sep : UInt8) : Bytes → Bytes → Array Bytes → Array Bytes
  | [], cur, acc => acc.push cur.reverse
  | x :: r, cur, acc =>
    if x = sep then splitCharAcc sep r [] (acc.push cur.reverse) else splitCharAcc sep r (x :: cur) acc
def splitChar (sep : UInt8) (s : Bytes) : Array Bytes := splitCharAcc sep s [] #[]

/-- `str::find(&str)`: byte index of the first occurrence -/
def findAcc (pat : Bytes) : Bytes → Nat → Option Nat
  | [], i => if pat.isEmpty then some i else none
  | l@(_ :: r), i => if isPrefix pat l then some i else findAcc pat r (i + 1)
def find (pat s : Bytes) : Option Nat := findAcc pat s 0

/-- `str::split(&str)` for a non-empty pattern: non-overlapping matches, left to right; always at
least one piece (`"".split("\r\n")` is `[""]`) -/
def splitStrAcc (pat : Bytes) (fuel : Nat) (l cur : Bytes) (acc : Array Bytes) : Array Bytes :=
  match fuel with
  | 0 => acc.push cur.reverse
  | fuel + 1 =>
    match l with
    | [] => acc.push cur.reverse
    | x :: r =>
      if isPrefix pat l then splitStrAcc pat fuel (l.drop pat.length) [] (acc.push cur.reverse)
      else splitStrAcc pat fuel r (x :: cur) acc
def splitStr (pat s : Bytes) : Array Bytes := splitStrAcc pat (s.length + 1) s [] #[]

/-- `trim_matches('\0')` -/
def trimNul (s : Bytes) : Bytes :=
  ((s.dropWhile (· == 0)).reverse.dropWhile (· == 0)).reverse

theorem dropWhile_length_le (p : UInt8 → Bool) : ∀ l : Bytes, (l.dropWhile p).length ≤ l.length := by
  intro l
  induction l with
  | nil => simp
  | cons x r ih =>
    simp only [List.dropWhile_cons]
    split
    · simp only [List.length_cons]; omega
    · simp

theorem trimNul_length (s : Bytes) : (trimNul s).length ≤ s.length := by
  unfold trimNul
  simp only [List.length_reverse]
  have h1 := dropWhile_length_le (· == 0) (s.dropWhile (· == 0)).reverse
  have h2 := dropWhile_length_le (· == 0) s
  simp only [List.length_reverse] at h1
  omega

/-! ### char boundaries and string slicing -/

/-- `str::is_char_boundary` -/
def isCharBoundary (s : Bytes) (i : Nat) : Bool :=
  if i = 0 then true
  else match s[i]? with
    | some b => !isCont b
    | none => i == s.length

/-- `s.get(i..j)` -/
def get? (s : Bytes) (i j : Nat) : Option Bytes :=
  if i ≤ j ∧ j ≤ s.length ∧ isCharBoundary s i ∧ isCharBoundary s j then
    some ((s.drop i).take (j - i)) else none

/-- `&s[i..j]`: panics when out of range, reversed or off a char boundary -/
def slice (s : Bytes) (i j : Nat) : M Bytes :=
  match get? s i j with
  | some r => M.pure' r
  | none => M.fault .slice

/-! ### number parsing (`FromStr` for the integer types, radix 10) -/

def digitsAcc : Bytes → Nat → Option Nat
  | [], n => some n
  | x :: r, n => if 0x30 ≤ x ∧ x ≤ 0x39 then digitsAcc r (n * 10 + (x.toNat - 0x30)) else none

/-- non-empty ASCII digit string -/
def digits (s : Bytes) : Option Nat := if s.isEmpty then none else digitsAcc s 0

/-- `s.parse::<iN>()` with `lo ≤ v ≤ hi`; a lone sign is an error -/
def parseSigned (lo hi : Int) (s : Bytes) : Option Int :=
  match s with
  | [] => none
  | 0x2D :: r => (digits r).bind (fun n => let v : Int := -(n : Int); if lo ≤ v then some v else none)
  | 0x2B :: r => (digits r).bind (fun n => if (n : Int) ≤ hi then some (n : Int) else none)
  | _ => (digits s).bind (fun n => if (n : Int) ≤ hi then some (n : Int) else none)

def parseI32 (s : Bytes) : Option Int := parseSigned (-(2 ^ 31)) (2 ^ 31 - 1) s
def parseI64 (s : Bytes) : Option Int := parseSigned (-(2 ^ 63)) (2 ^ 63 - 1) s

/-- `s.parse::<u64>()`: optional `+`, no `-` -/
def parseU64 (s : Bytes) : Option Nat :=
  match s with
  | [] => none
  | 0x2B :: r => (digits r).bind (fun n => if n < 2 ^ 64 then some n else none)
  | _ => (digits s).bind (fun n => if n < 2 ^ 64 then some n else none)

/-! ### canonical digests (shared with the Rust harness: FNV-1a 64 over a canonical byte string) -/

def fnv1a (bs : Bytes) : UInt64 :=
  bs.foldl (fun h b => (h ^^^ b.toUInt64) * 0x100000001b3) 0xcbf29ce484222325

def natDec (n : Nat) : Bytes := (toString n).toUTF8.toList
def intDec (i : Int) : Bytes := (toString i).toUTF8.toList

/-- canonical pieces: every piece ends in 0xFF -/
def dNat (n : Nat) : Bytes := natDec n ++ [0xFF]
def dInt (i : Int) : Bytes := intDec i ++ [0xFF]
def dBytes (b : Bytes) : Bytes := natDec b.length ++ [0x3A] ++ b ++ [0xFF]
/-- a string that went through a lossy decoder (or `Display` of a `NullString`) -/
def dLossy (b : Bytes) : Bytes := if clean b then dBytes b else [0xFE, 0xFF]

def hex64 (h : UInt64) : String :=
  let s := (Nat.toDigits 16 h.toNat)
  String.ofList (List.replicate (16 - s.length) '0' ++ s)

end Physis.StrF
