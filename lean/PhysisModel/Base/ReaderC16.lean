import PhysisModel.Base.Bytes
/-!
Sequential little-endian readers on a byte list (`Cursor` reads: value and the rest), absolute
positioning (`seekTo`), a `Cursor<&mut Vec<u8>>` style positional writer (`writeAt`, zero-filling)
and the outcome type shared by the C16 models.  Core only (linked into the driver).
-/
namespace Physis

/-- result of a modelled entry point: `ok v` = `Some(v)`, `none` = `None`, `panic` = the Rust code
panics / aborts on this input, `unmodelled` = the input leaves the part of the code that is modelled
(explicitly out of the property's quantifier, e.g. layer groups *with* layers). -/
inductive Outcome (α : Type) where
  | ok (v : α)
  | none
  | panic
  /-- the Rust code does not terminate on this input (e.g. a cyclic parent chain) -/
  | diverges
  | unmodelled
  deriving Repr, DecidableEq

namespace Rd

def u8 : Bytes → Option (UInt8 × Bytes)
  | a :: r => some (a, r)
  | _ => none

def u16le : Bytes → Option (UInt16 × Bytes)
  | a :: b :: r => some (a.toUInt16 ||| (b.toUInt16 <<< 8), r)
  | _ => none

def u32le : Bytes → Option (UInt32 × Bytes)
  | a :: b :: c :: d :: r =>
    some (a.toUInt32 ||| (b.toUInt32 <<< 8) ||| (c.toUInt32 <<< 16) ||| (d.toUInt32 <<< 24), r)
  | _ => none

/-- `n` consecutive little-endian u32 (binrw `[u32; n]` / `count = n`) -/
def u32s : Nat → Bytes → Option (List UInt32 × Bytes)
  | 0, b => some ([], b)
  | n + 1, b =>
    match u32le b with
    | some (v, r) => match u32s n r with
      | some (vs, r') => some (v :: vs, r')
      | none => none
    | none => none

/-- `n` consecutive little-endian u16 -/
def u16s : Nat → Bytes → Option (List UInt16 × Bytes)
  | 0, b => some ([], b)
  | n + 1, b =>
    match u16le b with
    | some (v, r) => match u16s n r with
      | some (vs, r') => some (v :: vs, r')
      | none => none
    | none => none

/-- skip `n` bytes (`pad_before`, relative seek inside the data); fails past the end only when a
read follows, which is how a `Cursor` behaves: the skip itself always succeeds -/
def skip (n : Nat) (b : Bytes) : Bytes := b.drop n

/-- bytes from absolute position `pos` of the whole file (`SeekFrom::Start`) -/
def seekTo (file : Bytes) (pos : Nat) : Bytes := file.drop pos

/-- read bytes up to (not including) the first NUL; `none` when the data ends first
(the Rust loops `unwrap` a failed read there) -/
def cstr : Bytes → Option Bytes
  | [] => none
  | a :: r => if a == 0 then some [] else (cstr r).map (a :: ·)

end Rd

/-- `Cursor<&mut Vec<u8>>`: write `data` at `pos`, zero-filling a gap past the end -/
def writeAt (buf : Bytes) (pos : Nat) (data : Bytes) : Bytes :=
  buf.take pos ++ List.replicate (pos - buf.length) 0 ++ data ++ buf.drop (pos + data.length)

end Physis

namespace Physis
/-- Rust `format!("{:04}", i)` for an unsigned `i`: decimal, left-padded with `0` to width 4 -/
def fmtDec04 (i : Nat) : Bytes :=
  let ds := (Nat.toDigits 10 i).map (fun c => c.toNat.toUInt8)
  List.replicate (4 - ds.length) 0x30 ++ ds
end Physis
