import PhysisModel.Base.Bytes
/-!
Line protocol helpers for the driver.  A case is one line: `op field field ...` (single spaces).
Binary data is lower-case hex, `-` is the empty byte string, numbers are decimal.
A driver answer is `<input-for-impl>\t<expected>[\t<tags>[\t<model>]]`; `=` as input means "the
case line".  `<expected>` is the answer the *specification* assigns (the property predicate is
"the implementation's answer equals it") and `<model>` is the answer of the executable model of
the code; the theorems prove them equal, so `<model>` is only written out where the two are
computed by different definitions (it is what the correspondence compares).
Malformed lines are answered with `bad-case` — never defaulted.
-/
namespace Physis.Proto

def fields (line : String) : List String :=
  (line.trimAscii.toString.splitOn " ").filter (· ≠ "")

def answer (input expected : String) (tags : List String := []) (model : Option String := none) : String :=
  let t := if tags.isEmpty then "-" else " ".intercalate tags
  match model with
  | none => if tags.isEmpty then input ++ "\t" ++ expected else input ++ "\t" ++ expected ++ "\t" ++ t
  | some m => input ++ "\t" ++ expected ++ "\t" ++ t ++ "\t" ++ m

def bad : String := "=\tbad-case"

def natList (s : String) : Option (List Nat) :=
  if s == "-" then some [] else (s.splitOn ",").mapM (·.toNat?)

def showNatList (l : List Nat) : String :=
  if l.isEmpty then "-" else ",".intercalate (l.map toString)

def optStr (o : Option String) : String := match o with | some s => s | none => "none"

end Physis.Proto
