import PhysisModel.Base.Bytes
/-!
Deterministic damage to an encoded file, for the *mutated-encoding* correspondence families
(`mut <seed> <k> <case>`): the driver encodes the abstract case with the `Spec/` encoder, changes
`k` bytes at positions drawn from `<seed>`, runs the executable **model of the code** on the damaged
file and hands the same file to the real code.  There is no specification answer for a damaged
file (the expected answer *is* the model's, tag `corr`): the family ties the model's handling of
padding, reserved fields, redundant fields, bounds checks and error paths to the code — the part
of the model the round-trip theorems (which only see well-formed encodings) do not exercise.
A byte that does not matter to the model must not matter to the code either.
-/
namespace Physis.Mutate

def lcg (s : UInt64) : UInt64 := s * 6364136223846793005 + 1442695040888963407

/-- the replacement for byte `old`: 0x00, 0xFF, `old + 1`, `old − 1`, sign bit flipped, one low bit
flipped, or a random byte -/
def newByte (old : UInt8) (r : UInt64) : UInt8 :=
  let v := match ((r >>> 40) % 8).toNat with
    | 0 => 0x00
    | 1 => 0xFF
    | 2 => old + 1
    | 3 => old - 1
    | 4 => old ^^^ 0x80
    | 5 => old ^^^ ((1 : UInt8) <<< ((r >>> 50) % 8).toUInt8)
    | _ => (r >>> 48).toUInt8
  if v == old then old ^^^ 0x01 else v

/-- `k` single-byte changes; positions uniform over the file (`bias`: half of them inside the first
`bias` bytes, where headers and tables live) -/
def mutate (bs : Bytes) (seed : UInt64) (k : Nat) (bias : Nat := 256) : Bytes :=
  if bs.isEmpty then bs else
  let rec go (a : Array UInt8) (s : UInt64) : Nat → Array UInt8
    | 0 => a
    | n + 1 =>
      let s1 := lcg s
      let s2 := lcg s1
      let range := if (s1 >>> 62) % 2 == 0 then min bias a.size else a.size
      let pos := ((s1 >>> 20) % range.toUInt64).toNat
      go (a.set! pos (newByte a[pos]! s2)) s2 n
  (go bs.toArray seed k).toList

end Physis.Mutate
