import PhysisModel.Base.Bytes
/-!
# Fault-tracking results (C17 / C18)

`Res α` distinguishes the three things a Rust entry point can do:

* `ok a`    – it returns a value,
* `fail`    – it returns its *ordinary* failure (`None` / `Err(..)`),
* `fault f` – it panics or aborts (index / slice out of range, slice off a char boundary,
              `unwrap` / `expect` on `None` / `Err`, debug-build arithmetic overflow,
              `from_utf8(..).unwrap()`, capacity overflow).

`M α` additionally carries the **largest single allocation request** made so far (`peak`), so
that "memory in proportion to the input" is a statement about the model's value, not about a
side condition.  `M` is a writer monad over `(Nat, max, 0)` on top of `Res`.

`Safe B m Q` is the one Hoare-style judgement all C17/C18 theorems are proved with:
`m` does not fault, never requests more than `B` bytes at once, and if it returns `a` then `Q a`.
No Mathlib / Batteries imports: this file is linked into the driver executable.
-/
namespace Physis

inductive Fault where
  | index      -- `a[i]` with `i ≥ len`
  | slice      -- `a[i..j]` out of range / reversed / off a char boundary
  | overflow   -- checked arithmetic (debug build) overflowed
  | unwrap     -- `unwrap` / `expect` on `None` / `Err`
  | utf8       -- `String::from_utf8(..).unwrap()` on invalid UTF-8
  | capacity   -- `Vec` capacity overflow (request > isize::MAX)
  | fuel       -- the model ran out of fuel (never happens: proved)
  deriving Repr, DecidableEq, BEq, Inhabited

def Fault.name : Fault → String
  | .index => "index" | .slice => "slice" | .overflow => "overflow" | .unwrap => "unwrap"
  | .utf8 => "utf8" | .capacity => "capacity" | .fuel => "fuel"

inductive Res (α : Type) where
  | ok (a : α)
  | fail
  | fault (f : Fault)
  deriving Repr, Inhabited

namespace Res
def isFault : Res α → Bool | .fault _ => true | _ => false
def isOk : Res α → Bool | .ok _ => true | _ => false
def toOption : Res α → Option α | .ok a => some a | _ => none
end Res

/-- result + high-water mark of single allocation requests (bytes) -/
structure M (α : Type) where
  res : Res α
  peak : Nat
  deriving Inhabited

namespace M

@[inline] def pure' (a : α) : M α := ⟨.ok a, 0⟩
@[inline] def bind' (m : M α) (f : α → M β) : M β :=
  match m with
  | ⟨.ok a, p⟩ => let o := f a; ⟨o.res, max p o.peak⟩
  | ⟨.fail, p⟩ => ⟨.fail, p⟩
  | ⟨.fault e, p⟩ => ⟨.fault e, p⟩

instance : Monad M where
  pure := pure'
  bind := bind'

/-- ordinary failure (`None` / `Err`) -/
@[inline] def fail : M α := ⟨.fail, 0⟩
/-- panic / abort -/
@[inline] def fault (f : Fault) : M α := ⟨.fault f, 0⟩
/-- an allocation of `n` bytes is requested -/
@[inline] def alloc (n : Nat) : M Unit := ⟨.ok (), n⟩

/-- `?` on an `Option` -/
@[inline] def ofOption : Option α → M α | some a => pure' a | none => fail
/-- `.unwrap()` / `.expect(..)` on an `Option` -/
@[inline] def unwrap : Option α → M α | some a => pure' a | none => fault .unwrap
/-- Rust `assert`-like guard that *fails* (ordinary) -/
@[inline] def guard (c : Bool) : M Unit := if c then pure' () else fail

def faults (m : M α) : Prop := m.res.isFault = true
instance (m : M α) : Decidable m.faults := inferInstanceAs (Decidable (_ = true))

/-- catch the *ordinary* failure (`.ok()` followed by a match; `if let Ok(..)`) – faults propagate -/
@[inline] def try? (m : M α) : M (Option α) :=
  match m with
  | ⟨.ok a, p⟩ => ⟨.ok (some a), p⟩
  | ⟨.fail, p⟩ => ⟨.ok none, p⟩
  | ⟨.fault e, p⟩ => ⟨.fault e, p⟩

end M

/-! ### the judgement -/

/-- `m` never faults, never requests more than `B` bytes at once, and returns only values in `Q` -/
def Safe (B : Nat) (m : M α) (Q : α → Prop) : Prop :=
  m.peak ≤ B ∧ match m.res with
    | .ok a => Q a
    | .fail => True
    | .fault _ => False

namespace Safe

theorem pure {B : Nat} {Q : α → Prop} {a : α} (h : Q a) : Safe B (Pure.pure a : M α) Q :=
  ⟨Nat.zero_le _, h⟩

theorem pure' {B : Nat} {Q : α → Prop} {a : α} (h : Q a) : Safe B (M.pure' a) Q :=
  ⟨Nat.zero_le _, h⟩

theorem fail {B : Nat} {Q : α → Prop} : Safe B (M.fail : M α) Q := ⟨Nat.zero_le _, trivial⟩

theorem bind {B : Nat} {m : M α} {f : α → M β} {Q : α → Prop} {R : β → Prop}
    (hm : Safe B m Q) (hf : ∀ a, Q a → Safe B (f a) R) : Safe B (m >>= f) R := by
  obtain ⟨r, p⟩ := m
  cases r with
  | ok a =>
    have h := hf a hm.2
    refine ⟨?_, ?_⟩
    · show max p (f a).peak ≤ B
      exact Nat.max_le.mpr ⟨hm.1, h.1⟩
    · exact h.2
  | fail => exact ⟨hm.1, trivial⟩
  | fault e => exact hm.2.elim

theorem bind' {B : Nat} {m : M α} {f : α → M β} {Q : α → Prop} {R : β → Prop}
    (hm : Safe B m Q) (hf : ∀ a, Q a → Safe B (f a) R) : Safe B (M.bind' m f) R := bind hm hf

theorem mono {B : Nat} {m : M α} {Q Q' : α → Prop} (h : Safe B m Q) (hq : ∀ a, Q a → Q' a) :
    Safe B m Q' := by
  obtain ⟨r, p⟩ := m
  cases r with
  | ok a => exact ⟨h.1, hq a h.2⟩
  | fail => exact ⟨h.1, trivial⟩
  | fault e => exact h.2.elim

theorem weaken {B B' : Nat} {m : M α} {Q : α → Prop} (h : Safe B m Q) (hb : B ≤ B') :
    Safe B' m Q := ⟨Nat.le_trans h.1 hb, h.2⟩

theorem alloc {B n : Nat} (h : n ≤ B) : Safe B (M.alloc n) (fun _ => True) := ⟨h, trivial⟩

theorem ofOption {B : Nat} {o : Option α} {Q : α → Prop} (h : ∀ a, o = some a → Q a) :
    Safe B (M.ofOption o) Q := by
  cases o with
  | none => exact fail
  | some a => exact pure' (h a rfl)

theorem guard {B : Nat} {c : Bool} : Safe B (M.guard c) (fun _ => c = true) := by
  cases c
  · exact fail
  · exact pure' rfl

theorem unwrap_some {B : Nat} {a : α} {Q : α → Prop} (h : Q a) : Safe B (M.unwrap (some a)) Q :=
  pure' h

theorem try? {B : Nat} {m : M α} {Q : α → Prop} (h : Safe B m Q) :
    Safe B (M.try? m) (fun o => ∀ a, o = some a → Q a) := by
  obtain ⟨r, p⟩ := m
  cases r with
  | ok a => exact ⟨h.1, fun b hb => by cases hb; exact h.2⟩
  | fail => exact ⟨h.1, fun b hb => by cases hb⟩
  | fault e => exact h.2.elim

/-- what the property theorems extract -/
theorem not_faults {B : Nat} {m : M α} {Q : α → Prop} (h : Safe B m Q) : ¬ m.faults := by
  obtain ⟨r, p⟩ := m
  cases r with
  | ok a => simp [M.faults, Res.isFault]
  | fail => simp [M.faults, Res.isFault]
  | fault e => exact h.2.elim

theorem peak_le {B : Nat} {m : M α} {Q : α → Prop} (h : Safe B m Q) : m.peak ≤ B := h.1

end Safe

/-- the allocation budget of C17 / C18: memory "in proportion to the input" -/
def budget (inputLen : Nat) : Nat := 64 * inputLen + 2 ^ 24

/-! ### checked arithmetic (debug build: overflow panics) -/
namespace Arith

@[inline] def addU32 (a b : UInt32) : M UInt32 :=
  if a.toNat + b.toNat < 2 ^ 32 then M.pure' (a + b) else M.fault .overflow
@[inline] def mulU32 (a b : UInt32) : M UInt32 :=
  if a.toNat * b.toNat < 2 ^ 32 then M.pure' (a * b) else M.fault .overflow
@[inline] def addU64 (a b : UInt64) : M UInt64 :=
  if a.toNat + b.toNat < 2 ^ 64 then M.pure' (a + b) else M.fault .overflow
@[inline] def mulU64 (a b : UInt64) : M UInt64 :=
  if a.toNat * b.toNat < 2 ^ 64 then M.pure' (a * b) else M.fault .overflow
/-- `usize` subtraction (values as `Nat`, must not go below zero) -/
@[inline] def subUsize (a b : Nat) : M Nat :=
  if b ≤ a then M.pure' (a - b) else M.fault .overflow
/-- `usize` addition (64-bit target) -/
@[inline] def addUsize (a b : Nat) : M Nat :=
  if a + b < 2 ^ 64 then M.pure' (a + b) else M.fault .overflow
/-- `i64` addition -/
@[inline] def addI64 (a b : Int) : M Int :=
  let s := a + b
  if -(2 ^ 63 : Int) ≤ s ∧ s < 2 ^ 63 then M.pure' s else M.fault .overflow

theorem safe_subUsize {B a b : Nat} (h : b ≤ a) : Safe B (subUsize a b) (fun r => r = a - b) := by
  simp only [subUsize, h, if_true]; exact Safe.pure' rfl
theorem safe_addUsize {B a b : Nat} (h : a + b < 2 ^ 64) : Safe B (addUsize a b) (fun r => r = a + b) := by
  simp only [addUsize, h, if_true]; exact Safe.pure' rfl
theorem safe_addU64 {B : Nat} {a b : UInt64} (h : a.toNat + b.toNat < 2 ^ 64) :
    Safe B (addU64 a b) (fun r => r.toNat = a.toNat + b.toNat) := by
  simp only [addU64, h, if_true]
  refine Safe.pure' ?_
  rw [UInt64.toNat_add]; exact Nat.mod_eq_of_lt h
theorem safe_mulU64 {B : Nat} {a b : UInt64} (h : a.toNat * b.toNat < 2 ^ 64) :
    Safe B (mulU64 a b) (fun r => r.toNat = a.toNat * b.toNat) := by
  simp only [mulU64, h, if_true]
  refine Safe.pure' ?_
  rw [UInt64.toNat_mul]; exact Nat.mod_eq_of_lt h

end Arith

/-! ### slices and indexing on byte strings / lists -/
namespace Sl

/-- `a[i]` -/
@[inline] def index (l : List α) (i : Nat) : M α :=
  match l[i]? with
  | some a => M.pure' a
  | none => M.fault .index

/-- `&a[i..j]` on a byte slice / `Vec` -/
@[inline] def slice (l : List α) (i j : Nat) : M (List α) :=
  if i ≤ j ∧ j ≤ l.length then M.pure' ((l.drop i).take (j - i)) else M.fault .slice

/-- `a.get(i..j)` -/
@[inline] def get? (l : List α) (i j : Nat) : Option (List α) :=
  if i ≤ j ∧ j ≤ l.length then some ((l.drop i).take (j - i)) else none

theorem safe_index {B : Nat} {l : List α} {i : Nat} (h : i < l.length) :
    Safe B (index l i) (fun _ => True) := by
  simp only [index, List.getElem?_eq_getElem h]; exact Safe.pure' trivial

theorem safe_slice {B : Nat} {l : List α} {i j : Nat} (h : i ≤ j ∧ j ≤ l.length) :
    Safe B (slice l i j) (fun r => r.length = j - i) := by
  simp only [slice, h, and_self, if_true]
  refine Safe.pure' ?_
  simp only [List.length_take, List.length_drop]; omega

theorem get?_length {l : List α} {i j : Nat} {r : List α} (h : get? l i j = some r) :
    r.length = j - i ∧ j ≤ l.length := by
  unfold get? at h
  split at h
  · cases h; simp only [List.length_take, List.length_drop]; omega
  · cases h

end Sl

end Physis
