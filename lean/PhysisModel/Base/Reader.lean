import PhysisModel.Base.Bytes
/-!
Cursor primitives shared by the models of binrw-derived readers (SqPack index and dat files).
A reader takes the bytes from the current file position to the end of the file (`rest`) and
returns the value together with the new `rest`.  A relative forward seek (`pad_before/after`,
`pad_size_to`) is `skip` — on a `File` it never fails, only a later read behind the end does;
an absolute seek is `whole.drop n` at the call site.  No Mathlib imports (linked into the driver).
-/
namespace Physis.Reader
open Physis

def u8 : Bytes → Option (UInt8 × Bytes)
  | b :: r => some (b, r)
  | [] => none

def u16le : Bytes → Option (UInt16 × Bytes)
  | a :: b :: r => some (a.toUInt16 ||| (b.toUInt16 <<< 8), r)
  | _ => none

def u32le : Bytes → Option (UInt32 × Bytes)
  | a :: b :: c :: d :: r =>
    some (a.toUInt32 ||| (b.toUInt32 <<< 8) ||| (c.toUInt32 <<< 16) ||| (d.toUInt32 <<< 24), r)
  | _ => none

/-- relative seek forward -/
def skip (n : Nat) (l : Bytes) : Bytes := l.drop n

/-- read exactly `n` bytes -/
def bytes (n : Nat) (l : Bytes) : Option (Bytes × Bytes) :=
  if n ≤ l.length then some (l.take n, l.drop n) else none

/-- a failed binrw assertion / enum `repr` mismatch -/
def require (b : Bool) : Option Unit := if b then some () else none

/-- `#[brw(magic = ...)]` -/
def magic (m : Bytes) (l : Bytes) : Option Bytes :=
  match bytes m.length l with
  | some (x, r) => if x == m then some r else none
  | none => none


end Physis.Reader
