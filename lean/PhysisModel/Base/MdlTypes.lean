import PhysisModel.Base.Bytes
/-!
Plain data records of the MDL format (`src/model.rs`, `src/model_vertex_declarations.rs`), shared
by the format definition (`Spec/Mdl.lean`), the model of the reader (`Model/Mdl.lean`) and the
model of the writer (`Model/MdlWrite.lean`).  Data only — no behaviour lives here.

f32 fields are kept as their `UInt32` bit patterns.  Records that the Rust code only carries
around and never inspects (`ElementId`, `TerrainShadowMesh`, `TerrainShadowSubmesh`,
`BoundingBox`, the unused middle of `MeshLod`) are kept as fixed-size raw byte blocks: binrw reads
and writes their plain little-endian integer / float fields bit for bit.
-/
namespace Physis.Mdl

/-- `[T; 3]` -/
structure Arr3 (α : Type) where
  a : α
  b : α
  c : α
deriving DecidableEq, Repr, Inhabited

namespace Arr3
def get? (x : Arr3 α) : Nat → Option α
  | 0 => some x.a
  | 1 => some x.b
  | 2 => some x.c
  | _ => none
def set (x : Arr3 α) (i : Nat) (v : α) : Arr3 α :=
  match i with
  | 0 => { x with a := v }
  | 1 => { x with b := v }
  | 2 => { x with c := v }
  | _ => x
def toList (x : Arr3 α) : List α := [x.a, x.b, x.c]
def ofList (d : α) : List α → Arr3 α
  | [] => ⟨d, d, d⟩
  | [a] => ⟨a, d, d⟩
  | [a, b] => ⟨a, b, d⟩
  | a :: b :: c :: _ => ⟨a, b, c⟩
def rep (v : α) : Arr3 α := ⟨v, v, v⟩
end Arr3

/-- `ModelFileHeader` (0x44 bytes) -/
structure FileHeader where
  version : UInt32
  stackSize : UInt32
  runtimeSize : UInt32
  vertexDeclarationCount : UInt16
  materialCount : UInt16
  vertexOffsets : Arr3 UInt32
  indexOffsets : Arr3 UInt32
  vertexBufferSize : Arr3 UInt32
  indexBufferSize : Arr3 UInt32
  lodCount : UInt8
  indexBufferStreamingEnabled : Bool
  hasEdgeGeometry : Bool
deriving DecidableEq, Repr, Inhabited

/-- `VertexElement` (8 bytes on disk); `vertexType` / `vertexUsage` are the `repr(u8)` codes -/
structure VertexElement where
  stream : UInt8
  offset : UInt8
  vertexType : UInt8
  vertexUsage : UInt8
  usageIndex : UInt8
deriving DecidableEq, Repr, Inhabited

/-- discriminants of `VertexType` -/
def validType (t : UInt8) : Bool :=
  t == 0 || t == 1 || t == 2 || t == 3 || t == 5 || t == 6 || t == 7 || t == 8 || t == 9 ||
  t == 10 || t == 13 || t == 14 || t == 16 || t == 17
/-- discriminants of `VertexUsage` -/
def validUsage (u : UInt8) : Bool := u < 8

namespace VT
def single1 : UInt8 := 0
def single2 : UInt8 := 1
def single3 : UInt8 := 2
def single4 : UInt8 := 3
def byte4 : UInt8 := 5
def short2 : UInt8 := 6
def short4 : UInt8 := 7
def byteFloat4 : UInt8 := 8
def short2n : UInt8 := 9
def short4n : UInt8 := 10
def half2 : UInt8 := 13
def half4 : UInt8 := 14
def ushort2 : UInt8 := 16
def ushort4 : UInt8 := 17
end VT
namespace VU
def position : UInt8 := 0
def blendWeights : UInt8 := 1
def blendIndices : UInt8 := 2
def normal : UInt8 := 3
def uv : UInt8 := 4
def tangent : UInt8 := 5
def biTangent : UInt8 := 6
def color : UInt8 := 7
end VU

/-- discriminants of `ModelFlags1` (no zero variant exists) -/
def validFlags1 (f : UInt8) : Bool :=
  f == 0x80 || f == 0x40 || f == 0x20 || f == 0x10 || f == 0x08 || f == 0x04 || f == 0x02 || f == 0x01
/-- discriminants of `ModelFlags2` -/
def validFlags2 (f : UInt8) : Bool := f == 0 || validFlags1 f

/-- `ModelHeader` after the vertex declarations -/
structure ModelHeader where
  stringCount : UInt16
  stringSize : UInt32
  strings : Bytes
  radius : UInt32
  meshCount : UInt16
  attributeCount : UInt16
  submeshCount : UInt16
  materialCount : UInt16
  boneCount : UInt16
  boneTableCount : UInt16
  shapeCount : UInt16
  shapeMeshCount : UInt16
  shapeValueCount : UInt16
  lodCount : UInt8
  flags1 : UInt8
  elementIdCount : UInt16
  terrainShadowMeshCount : UInt8
  flags2 : UInt8
  modelClipOutOfDistance : UInt32
  shadowClipOutOfDistance : UInt32
  unknown4 : UInt16
  terrainShadowSubmeshCount : UInt16
  unknown5 : UInt8
  bgChangeMaterialIndex : UInt8
  bgCrestChangeMaterialIndex : UInt8
  unknown6 : UInt8
  unknown7 : UInt16
  unknown8 : UInt16
  unknown9 : UInt16
deriving DecidableEq, Repr, Inhabited

/-- `MeshLod` (60 bytes).  `mid` = the 28 bytes `model_lod_range … edge_geometry_size`. -/
structure MeshLod where
  meshIndex : UInt16
  meshCount : UInt16
  mid : Bytes
  edgeGeometryDataOffset : UInt32
  polygonCount : UInt32
  vertexBufferSize : UInt32
  indexBufferSize : UInt32
  vertexDataOffset : UInt32
  indexDataOffset : UInt32
deriving DecidableEq, Repr, Inhabited

/-- `Mesh` (36 bytes) -/
structure Mesh where
  vertexCount : UInt16
  indexCount : UInt32
  materialIndex : UInt16
  submeshIndex : UInt16
  submeshCount : UInt16
  boneTableIndex : UInt16
  startIndex : UInt32
  vertexBufferOffsets : Arr3 UInt32
  vertexBufferStrides : Arr3 UInt8
  vertexStreamCount : UInt8
deriving DecidableEq, Repr, Inhabited

/-- `Submesh` (16 bytes) -/
structure Submesh where
  indexOffset : UInt32
  indexCount : UInt32
  attributeIndexMask : UInt32
  boneStartIndex : UInt16
  boneCount : UInt16
deriving DecidableEq, Repr, Inhabited

/-- `BoneTable` (132 bytes): 64 indices, count, 3 bytes padding -/
structure BoneTable where
  boneIndices : List UInt16
  boneCount : UInt8
deriving DecidableEq, Repr, Inhabited

/-- `BoneTableV2`; `padding` is read only when `boneCount` is even (else 0) -/
structure BoneTableV2 where
  boneCount : UInt16
  boneIndices : List UInt16
  padding : UInt16
deriving DecidableEq, Repr, Inhabited

structure ShapeStruct where
  stringOffset : UInt32
  shapeMeshStartIndex : Arr3 UInt16
  shapeMeshCount : Arr3 UInt16
deriving DecidableEq, Repr, Inhabited

structure ShapeMesh where
  meshIndexOffset : UInt32
  shapeValueCount : UInt32
  shapeValueOffset : UInt32
deriving DecidableEq, Repr, Inhabited

structure ShapeValue where
  baseIndicesIndex : UInt16
  replacingVertexIndex : UInt16
deriving DecidableEq, Repr, Inhabited

/-- `ModelData` without its `ModelHeader.vertex_declarations` (kept next to it) -/
structure ModelData where
  decls : List (List VertexElement)
  header : ModelHeader
  elementIds : List Bytes                 -- 32 bytes each
  lods : List MeshLod                     -- exactly 3
  meshes : List Mesh
  attributeNameOffsets : List UInt32
  terrainShadowMeshes : List Bytes        -- 20 bytes each
  submeshes : List Submesh
  terrainShadowSubmeshes : List Bytes     -- 12 bytes each
  materialNameOffsets : List UInt32
  boneNameOffsets : List UInt32
  boneTables : List BoneTable
  boneTablesV2 : List BoneTableV2
  shapes : List ShapeStruct
  shapeMeshes : List ShapeMesh
  shapeValues : List ShapeValue
  submeshBoneMapSize : UInt32
  submeshBoneMapSizeV2 : UInt16
  submeshBoneMap : List UInt16
  paddingAmount : UInt8
  unknownPadding : Bytes
  boundingBoxes : Bytes                   -- 4 × 32 bytes
  boneBoundingBoxes : List Bytes          -- 32 bytes each
deriving DecidableEq, Repr, Inhabited

/-- `Vertex`; every component list has the fixed length of the Rust array -/
structure Vertex where
  position : List UInt32    -- 3
  uv0 : List UInt32         -- 2
  uv1 : List UInt32         -- 2
  normal : List UInt32      -- 3
  bitangent : List UInt32   -- 4
  color : List UInt32       -- 4
  boneWeight : List UInt32  -- 4
  boneId : List UInt8       -- 4
deriving DecidableEq, Repr, Inhabited

def Vertex.default : Vertex :=
  ⟨[0, 0, 0], [0, 0], [0, 0], [0, 0, 0], [0, 0, 0, 0], [0, 0, 0, 0], [0, 0, 0, 0], [0, 0, 0, 0]⟩

structure SubMeshView where
  submeshIndex : Nat
  indexCount : UInt32
  indexOffset : UInt32
deriving DecidableEq, Repr, Inhabited

structure Shape where
  name : Bytes              -- UTF-8 bytes of the Rust `String`
  morphedVertices : List Vertex
deriving DecidableEq, Repr, Inhabited

/-- `Part` -/
structure Part where
  meshIndex : UInt16
  vertices : List Vertex
  vertexStreams : List Bytes
  vertexStreamStrides : List Nat
  indices : List UInt16
  materialIndex : UInt16
  submeshes : List SubMeshView
  shapes : List Shape
deriving DecidableEq, Repr, Inhabited

/-- `MDL` -/
structure MDL where
  fileHeader : FileHeader
  modelData : ModelData
  lods : List (List Part)
  affectedBoneNames : List Bytes
  materialNames : List Bytes
deriving DecidableEq, Repr, Inhabited

/-- what `MDL::from_existing` reports to the caller apart from the raw header tables (C06) -/
structure View where
  lods : List (List Part)
  affectedBoneNames : List Bytes
  materialNames : List Bytes
deriving DecidableEq, Repr, Inhabited

def MDL.view (m : MDL) : View := ⟨m.lods, m.affectedBoneNames, m.materialNames⟩

/-- `byte as char` pushed onto a `String`: Latin-1 code point → UTF-8 bytes -/
def latin1Utf8 (b : UInt8) : Bytes :=
  if b < 0x80 then [b] else [(0xC0 : UInt8) ||| (b >>> 6), (0x80 : UInt8) ||| (b &&& 0x3F)]

end Physis.Mdl
