import PhysisModel.Base.ParserA
/-!
Two more cursor primitives for the C18 part `skel` (pbd, tera) — definitions only, linked into the
driver; their lemmas are in `Base/ParserASkelLemmas.lean`.

* `P.cstr`     — the hand-written `while next_char != '\0'` loop of `strings_parser`
                 (`src/common_file_operations.rs`, repaired: `read_le::<u8>()?`): reads bytes up to and
                 including the first NUL; running out of input is an ordinary EOF error.  The `String`
                 grows byte by byte (bounded by the bytes read), so no allocation request is recorded.
* `P.forEach`  — `for x in list { body(x)?; out.push(..) }` with a cursor-using body; the value is the
                 number of elements pushed.  Tail recursive.
-/
namespace Physis.A
namespace P
variable {α : Type}

def cstrGo : Bytes → Nat → Option (Nat × Bytes)
  | [], _ => none
  | x :: r, pos => if x == 0 then some (pos + 1, r) else cstrGo r (pos + 1)

/-- a NUL-terminated string read byte by byte (`read_le::<u8>()?` until `'\0'`) -/
def cstr : P Unit := fun _ s =>
  match cstrGo s.rest s.pos with
  | some (p, r) => .ok ((), ⟨p, r⟩)
  | none => .eof

def forGo (f : α → P Unit) (w : Bytes) : List α → St → Nat → Nat → Res (Nat × St)
  | [], s, pk, n => ⟨.ok (n, s), pk⟩
  | a :: l, s, pk, n =>
    match f a w s with
    | ⟨.ok (_, s'), k⟩ => forGo f w l s' (max pk k) (n + 1)
    | ⟨.fail e, k⟩ => ⟨.fail e, max pk k⟩
    | ⟨.fault x, k⟩ => ⟨.fault x, max pk k⟩

/-- run `f` on every element in order, stop at the first error; yields the number of elements done -/
@[inline] def forEach (l : List α) (f : α → P Unit) : P Nat := fun w s => forGo f w l s 0 0

end P
end Physis.A
