import PhysisModel.Base.Reader
/-!
T4 — layout descriptors of binrw-derived structs and their interpreter.

`lib/binrw2lean.py` translates the `#[binrw]` / `#[binread]` declarations of the *current* Rust
source into values of `Layout` (`Generated/Binrw*.lean`, rewritten by `./check` on every run);
`Layout.read` is the reading semantics of that attribute subset under binrw 0.14 (see
`notes/binrw-tie.md` for exactly what is assumed).  `Proofs/BinrwTie*.lean` prove, for all inputs,
`hand-written model reader = Layout.read <generated descriptor>` followed by a pure projection.

Same reader style as `Base/Reader.lean`: a reader takes the bytes from the current position to the
end of the file and returns the value and the new rest; a relative forward seek is `List.drop`.
Core imports only (may be linked into the driver).
-/
namespace Physis.Binrw
open Physis Physis.Reader

inductive Endian | little | big
deriving DecidableEq, Repr

/-- primitive field types; the signedness does not change what is read (values are kept as bit
patterns) but it is part of the value (`Value.w16 .i16 bits`), so a `u16 → i16` change is seen -/
inductive Prim | u8 | i8 | u16 | i16 | u32 | i32 | u64 | i64 | f32
deriving DecidableEq, Repr

/-- what a layout reads: bit patterns tagged with the declared primitive type, byte strings
(`[u8; N]`, `Vec<u8>`), lists (`[T; N]`, `Vec<T>`) and nested structs (field values in order) -/
inductive Value where
  | w8 (p : Prim) (v : UInt8)
  | w16 (p : Prim) (v : UInt16)
  | w32 (p : Prim) (v : UInt32)
  | w64 (p : Prim) (v : UInt64)
  | bytes (b : Bytes)
  | list (vs : List Value)
  | struct (vs : List Value)
deriving Repr

/-- `count = <integer literal>` / `[T; N]`, or `count = <earlier field of the same struct>`
(index into the fields read so far, in declaration order) -/
inductive Count where
  | lit (n : Nat)
  | field (i : Nat)
deriving DecidableEq, Repr

/-- `magic = b"…"` (bytes as written) or `magic = <int>u32` (written with the endianness in force) -/
inductive Magic where
  | none
  | bytes (b : Bytes)
  | int (p : Prim) (v : Nat)
deriving DecidableEq, Repr

mutual
inductive Kind where
  | prim (p : Prim)
  /-- `#[brw(repr = p)] enum`: the valid discriminants as bit patterns of `p` -/
  | enum (p : Prim) (valid : List Nat)
  | bytes (n : Count)
  | array (n : Count) (k : Kind)
  | struct (l : Layout)
/-- one field: `magic`, then `pad_before`, then the value (with the field's own endianness if it
declares one), then `pad_size_to` (0 = absent), then `pad_after` — the order of binrw's generated
code.  `name` is informational only (never compared). -/
inductive Field where
  | mk (name : String) (endian : Option Endian) (magic : Magic) (padBefore : Nat) (kind : Kind)
       (padSizeTo : Nat) (padAfter : Nat)
/-- a struct: its own endianness (`none` = inherited from the caller), struct-level magic, fields.
`complete = false`: only a prefix of the fields was translated (the next one uses an attribute
outside the subset); `read` then reads that prefix. -/
inductive Layout where
  | mk (endian : Option Endian) (magic : Magic) (fields : List Field) (complete : Bool)
end

/-! ### primitives -/

def u64le : Bytes → Option (UInt64 × Bytes)
  | a :: b :: c :: d :: e :: f :: g :: h :: r =>
    some (a.toUInt64 ||| (b.toUInt64 <<< 8) ||| (c.toUInt64 <<< 16) ||| (d.toUInt64 <<< 24) |||
      (e.toUInt64 <<< 32) ||| (f.toUInt64 <<< 40) ||| (g.toUInt64 <<< 48) ||| (h.toUInt64 <<< 56), r)
  | _ => none

def u16be : Bytes → Option (UInt16 × Bytes)
  | a :: b :: r => some (b.toUInt16 ||| (a.toUInt16 <<< 8), r)
  | _ => none

def u32be : Bytes → Option (UInt32 × Bytes)
  | a :: b :: c :: d :: r =>
    some (d.toUInt32 ||| (c.toUInt32 <<< 8) ||| (b.toUInt32 <<< 16) ||| (a.toUInt32 <<< 24), r)
  | _ => none

def u64be : Bytes → Option (UInt64 × Bytes)
  | a :: b :: c :: d :: e :: f :: g :: h :: r =>
    some (h.toUInt64 ||| (g.toUInt64 <<< 8) ||| (f.toUInt64 <<< 16) ||| (e.toUInt64 <<< 24) |||
      (d.toUInt64 <<< 32) ||| (c.toUInt64 <<< 40) ||| (b.toUInt64 <<< 48) ||| (a.toUInt64 <<< 56), r)
  | _ => none

def Prim.width : Prim → Nat
  | .u8 | .i8 => 1
  | .u16 | .i16 => 2
  | .u32 | .i32 | .f32 => 4
  | .u64 | .i64 => 8

def Prim.signed : Prim → Bool
  | .i8 | .i16 | .i32 | .i64 => true
  | _ => false

/-- one primitive with the endianness in force -/
def readPrim (p : Prim) (e : Endian) (l : Bytes) : Option (Value × Bytes) :=
  match p.width, e with
  | 1, _ => (u8 l).map fun (v, r) => (.w8 p v, r)
  | 2, .little => (u16le l).map fun (v, r) => (.w16 p v, r)
  | 2, .big => (u16be l).map fun (v, r) => (.w16 p v, r)
  | 4, .little => (u32le l).map fun (v, r) => (.w32 p v, r)
  | 4, .big => (u32be l).map fun (v, r) => (.w32 p v, r)
  | _, .little => (u64le l).map fun (v, r) => (.w64 p v, r)
  | _, .big => (u64be l).map fun (v, r) => (.w64 p v, r)

/-- the bit pattern as a natural number -/
def Value.bits : Value → Option Nat
  | .w8 _ v => some v.toNat
  | .w16 _ v => some v.toNat
  | .w32 _ v => some v.toNat
  | .w64 _ v => some v.toNat
  | _ => none

/-- a `repr` enum accepts exactly the listed discriminants -/
def Value.validIn (valid : List Nat) : Value → Bool
  | .w8 _ v => valid.contains v.toNat
  | .w16 _ v => valid.contains v.toNat
  | .w32 _ v => valid.contains v.toNat
  | .w64 _ v => valid.contains v.toNat
  | _ => false

/-- `usize::try_from(x)` of a count field: a negative signed value is a conversion error -/
def Value.asCount : Value → Option Nat
  | .w8 p v => if p.signed && 0x80 ≤ v.toNat then none else some v.toNat
  | .w16 p v => if p.signed && 0x8000 ≤ v.toNat then none else some v.toNat
  | .w32 p v => if p.signed && 0x80000000 ≤ v.toNat then none else some v.toNat
  | .w64 p v => if p.signed && 0x8000000000000000 ≤ v.toNat then none else some v.toNat
  | _ => none

def Count.eval (env : List Value) : Count → Option Nat
  | .lit n => some n
  | .field i => env[i]?.bind Value.asCount

def readMagic (e : Endian) : Magic → Bytes → Option Bytes
  | .none, l => some l
  | .bytes m, l => magic m l
  | .int p v, l => (readPrim p e l).bind fun (x, r) => if x.bits == some v then some r else none

/-- `count = n` / `[T; n]`: element by element -/
def repeatN (rd : Bytes → Option (Value × Bytes)) : Nat → Bytes → Option (List Value × Bytes)
  | 0, l => some ([], l)
  | n + 1, l => (rd l).bind fun (v, l) => (repeatN rd n l).bind fun (vs, l) => some (v :: vs, l)

/-! ### static sizes (bytes consumed by a successful read, where that is a constant) -/

mutual
def Kind.size : Kind → Option Nat
  | .prim p => some p.width
  | .enum p _ => some p.width
  | .bytes (.lit n) => some n
  | .bytes (.field _) => none
  | .array (.lit n) k => k.size.map (n * ·)
  | .array (.field _) _ => none
  | .struct l => l.size
def Field.size : Field → Option Nat
  | .mk _ _ m pb k pst pa =>
    k.size.map fun s => (match m with | .none => 0 | .bytes b => b.length | .int p _ => p.width) +
      pb + (if s < pst then pst else s) + pa
def Layout.size : Layout → Option Nat
  | .mk _ m fs _ =>
    (Layout.sizeFields fs).map fun s => (match m with | .none => 0 | .bytes b => b.length | .int p _ => p.width) + s
def Layout.sizeFields : List Field → Option Nat
  | [] => some 0
  | f :: fs => f.size.bind fun a => (Layout.sizeFields fs).map (a + ·)
end

/-! ### the interpreter -/

mutual
/-- the value of one kind; `env` = the fields of the enclosing struct read so far -/
def Kind.read (e : Endian) (env : List Value) : Kind → Bytes → Option (Value × Bytes)
  | .prim p => readPrim p e
  | .enum p valid => fun l =>
    (readPrim p e l).bind fun (v, r) => (require (v.validIn valid)).bind fun _ => some (v, r)
  | .bytes n => fun l =>
    (n.eval env).bind fun n => (bytes n l).map fun (b, r) => (.bytes b, r)
  | .array n k => fun l =>
    (n.eval env).bind fun n => (repeatN (k.read e env) n l).map fun (vs, r) => (.list vs, r)
  | .struct lay => fun l => (lay.read e l).map fun (vs, r) => (.struct vs, r)
def Field.read (e : Endian) (env : List Value) : Field → Bytes → Option (Value × Bytes)
  | .mk _ fe m padBefore k padSizeTo padAfter => fun l =>
    let e := fe.getD e
    (readMagic e m l).bind fun l =>
    let l := skip padBefore l
    (k.read e env l).bind fun (v, r) =>
    -- pad_size_to: `if size < pad { seek(Current(pad - size)) }`, size = bytes consumed by the value
    -- (the static size where the kind has one — `Kind.read_consumes` shows it is the same number)
    let r := skip (padSizeTo - (match k.size with | some s => s | none => l.length - r.length)) r
    some (v, skip padAfter r)
def Layout.read (e : Endian) : Layout → Bytes → Option (List Value × Bytes)
  | .mk le m fs _ => fun l =>
    let e := le.getD e
    (readMagic e m l).bind fun l => Layout.readFields e [] fs l
/-- fields in declaration order; `acc` = values read so far (for `count = <earlier field>`) -/
def Layout.readFields (e : Endian) (acc : List Value) : List Field → Bytes → Option (List Value × Bytes)
  | [] => fun l => some (acc, l)
  | f :: fs => fun l => (f.read e acc l).bind fun (v, l) => Layout.readFields e (acc ++ [v]) fs l
end

/-- the endianness a struct declares (`#[br(little)]` …); `d` where it declares none (inherited) -/
def Layout.endianOr (d : Endian) : Layout → Endian
  | .mk e _ _ _ => e.getD d

/-! ### normal form (what the regenerated descriptor is compared on)

`Layout.normalize` removes three harmless re-spellings of a declaration: field names; a struct-level
endianness attribute versus the same attribute on each field; `pad_after = a` on one field followed
by `pad_before = b` on the next (no magic in between) versus one pad of `a + b`.  It works on the
struct's own fields (a nested struct is normalised by its own obligation).
`Proofs/BinrwLemmas.lean`: `Layout.read e (normalize l) = Layout.read e l`. -/

def Field.pushEndian (le : Option Endian) : Field → Field
  | .mk _ fe m pb k pst pa => .mk "" (match fe with | some x => some x | none => le) m pb k pst pa

def mergePads : List Field → List Field
  | [] => []
  | .mk n fe m pb k pst pa :: fs =>
    match mergePads fs with
    | .mk n2 fe2 .none pb2 k2 pst2 pa2 :: gs =>
      .mk n fe m pb k pst 0 :: .mk n2 fe2 .none (pa + pb2) k2 pst2 pa2 :: gs
    | gs => .mk n fe m pb k pst pa :: gs

def Layout.normalize : Layout → Layout
  | .mk le m fs c =>
    .mk (match m with | .int _ _ => le | _ => none) m (mergePads (fs.map (Field.pushEndian le))) c

/-- the normal form under the endianness `e` in force at the place where the struct is read: the
struct's own attribute, if any, is resolved first (so a redundant `#[brw(little)]` on a struct that
is only ever read little-endian does not change the normal form) -/
def Layout.normalizeAt (e : Endian) : Layout → Layout
  | .mk le m fs c => (Layout.mk (some (le.getD e)) m fs c).normalize

/-- project every element of a `Vec` / array value -/
def projAll {α : Type} (proj : Value → Option α) : List Value → Option (List α)
  | [] => some []
  | v :: vs => (proj v).bind fun a => (projAll proj vs).map (a :: ·)

/-- the phrasing of every tie theorem: `model reader l = via proj (Layout.read e generated l)` —
the hand-written reader is the generated layout followed by a pure projection of the values -/
def via {α : Type} (proj : List Value → Option α) (x : Option (List Value × Bytes)) : Option (α × Bytes) :=
  x.bind fun (vs, r) => (proj vs).map fun a => (a, r)

end Physis.Binrw
