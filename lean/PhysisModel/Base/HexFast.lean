import PhysisModel.Base.Bytes
/-!
Hex decoding for multi-megabyte protocol fields (driver use only): works on the UTF-8 bytes of
the string from the back, so the list is built directly, without an intermediate `List Char`.
Same language as `Bytes.ofHex` (`-` = empty; odd length or a non-hex digit ⇒ `none`).
-/
namespace Physis.Bytes

def hexNibble (c : UInt8) : Option UInt8 :=
  if 48 ≤ c ∧ c ≤ 57 then some (c - 48)
  else if 97 ≤ c ∧ c ≤ 102 then some (c - 87)
  else if 65 ≤ c ∧ c ≤ 70 then some (c - 55)
  else none

def ofHexBytesGo (ba : ByteArray) : Nat → Bytes → Option Bytes
  | 0, acc => some acc
  | i + 1, acc =>
    match hexNibble (ba.get! (2 * i)), hexNibble (ba.get! (2 * i + 1)) with
    | some x, some y => ofHexBytesGo ba i ((x * 16 + y) :: acc)
    | _, _ => none

def ofHexBig (s : String) : Option Bytes :=
  if s == "-" then some [] else
  let ba := s.toUTF8
  if ba.size % 2 != 0 then none else ofHexBytesGo ba (ba.size / 2) []

end Physis.Bytes
