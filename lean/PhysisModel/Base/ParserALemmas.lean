import PhysisModel.Base.ParserA
/-!
# Generic lemmas about `Res` and the cursor monad `P`

`Good B r`   : `r` did not fault and requested at most `B` bytes in one allocation.
`PGood p`    : for **every** input and every cursor state, `p` is `Good (budget |input|)` and keeps
               the cursor invariant (`rest` is no longer than the input).
Every primitive of `Base/ParserA.lean` is `PGood`, and `bind` preserves `PGood`; hence any reader
assembled from the primitives is total, panic-free and allocation-bounded by construction.  The
tactic `pgood` assembles such a proof.
-/
namespace Physis.A

/-! ## `Res` -/

theorem not_faults_ok {α} (a : α) (k : Nat) : ¬ faults (⟨.ok a, k⟩ : Res α) := by
  intro ⟨f, h⟩; cases h
theorem not_faults_fail {α} (e : Bool) (k : Nat) : ¬ faults (⟨.fail e, k⟩ : Res α) := by
  intro ⟨f, h⟩; cases h

theorem faults_of_isFault {α} {r : Res α} (h : r.isFault = true) : faults r := by
  unfold Res.isFault at h
  split at h
  · next f hf => exact ⟨f, hf⟩
  · cases h

theorem Good.mk' {α} {B : Nat} {r : Res α} (h1 : ∀ f, r.out ≠ .fault f) (h2 : r.peak ≤ B) : Good B r :=
  ⟨fun ⟨f, h⟩ => h1 f h, h2⟩

@[simp] theorem good_ok {α} (B : Nat) (a : α) : Good B (Res.ok a) :=
  ⟨not_faults_ok a 0, Nat.zero_le _⟩
@[simp] theorem good_pure {α} (B : Nat) (a : α) : Good B (Pure.pure a : Res α) := good_ok B a
@[simp] theorem good_fail {α} (B : Nat) : Good B (Res.fail : Res α) :=
  ⟨not_faults_fail _ 0, Nat.zero_le _⟩
@[simp] theorem good_eof {α} (B : Nat) : Good B (Res.eof : Res α) :=
  ⟨not_faults_fail _ 0, Nat.zero_le _⟩
theorem good_guard (B : Nat) (c : Bool) : Good B (Res.guard c) := by
  unfold Res.guard; split <;> simp
theorem good_ofOption {α} (B : Nat) (o : Option α) : Good B (Res.ofOption o) := by
  cases o <;> simp [Res.ofOption]
theorem good_alloc {B n : Nat} (h : n ≤ B) : Good B (Res.alloc n) :=
  ⟨not_faults_ok () n, h⟩
theorem good_require {B : Nat} {c : Bool} {f : Fault} (h : c = true) : Good B (Res.require c f) := by
  subst h; simp [Res.require]
theorem not_good_panic {α} (B : Nat) (f : Fault) : ¬ Good B (Res.panic f : Res α) := by
  intro ⟨h, _⟩; exact h ⟨f, rfl⟩

@[simp] theorem Res.ok_bind {α β} (a : α) (f : α → Res β) : (Res.ok a >>= f) = f a := by
  show Res.bind (Res.ok a) f = f a
  unfold Res.bind Res.ok
  simp

theorem Res.bind_def {α β} (r : Res α) (f : α → Res β) : (r >>= f) = Res.bind r f := rfl

/-- `bind` preserves `Good`; the continuation only has to be good on the value actually produced -/
theorem Good.bind {α β} {B : Nat} {r : Res α} {f : α → Res β}
    (hr : Good B r) (hf : ∀ a, r.out = .ok a → Good B (f a)) : Good B (r >>= f) := by
  obtain ⟨h1, h2⟩ := hr
  rw [Res.bind_def]; unfold Res.bind
  split
  · next a h =>
    obtain ⟨g1, g2⟩ := hf a h
    refine ⟨?_, ?_⟩
    · intro ⟨x, hx⟩; exact g1 ⟨x, hx⟩
    · exact Nat.max_le.mpr ⟨h2, g2⟩
  · next e h => exact ⟨not_faults_fail _ _, h2⟩
  · next x h => exact absurd ⟨x, h⟩ h1

theorem Good.bind' {α β} {B : Nat} {r : Res α} {f : α → Res β}
    (hr : Good B r) (hf : ∀ a, Good B (f a)) : Good B (r >>= f) :=
  Good.bind hr (fun a _ => hf a)

theorem Good.attempt {α} {B : Nat} {r : Res α} (hr : Good B r) : Good B r.attempt := by
  obtain ⟨h1, h2⟩ := hr
  unfold Res.attempt
  split
  · exact ⟨not_faults_ok _ _, h2⟩
  · exact ⟨not_faults_ok _ _, h2⟩
  · next f h => exact absurd ⟨f, h⟩ h1

theorem Good.mono {α} {B B' : Nat} {r : Res α} (h : Good B r) (hb : B ≤ B') : Good B' r :=
  ⟨h.1, Nat.le_trans h.2 hb⟩

/-- what `guard` tells the continuation -/
theorem guard_ok {c : Bool} {u : Unit} (h : (Res.guard c).out = .ok u) : c = true := by
  unfold Res.guard at h; split at h
  · assumption
  · cases h

theorem addQ_ok {m a b v : Nat} (h : (addQ m a b).out = .ok v) : v = a + b ∧ a + b ≤ m := by
  unfold addQ at h; split at h
  · cases h; exact ⟨rfl, by assumption⟩
  · cases h
theorem subQ_ok {a b v : Nat} (h : (subQ a b).out = .ok v) : v = a - b ∧ b ≤ a := by
  unfold subQ at h; split at h
  · cases h; exact ⟨rfl, by assumption⟩
  · cases h
theorem mulQ_ok {m a b v : Nat} (h : (mulQ m a b).out = .ok v) : v = a * b ∧ a * b ≤ m := by
  unfold mulQ at h; split at h
  · cases h; exact ⟨rfl, by assumption⟩
  · cases h
theorem good_addQ (B m a b : Nat) : Good B (addQ m a b) := by unfold addQ; split <;> simp
theorem good_subQ (B a b : Nat) : Good B (subQ a b) := by unfold subQ; split <;> simp
theorem good_mulQ (B m a b : Nat) : Good B (mulQ m a b) := by unfold mulQ; split <;> simp

theorem good_subC {B a b : Nat} (h : b ≤ a) : Good B (subC a b) := by
  unfold subC; rw [if_pos h]; simp
theorem subC_ok {a b v : Nat} (h : (subC a b).out = .ok v) : v = a - b ∧ b ≤ a := by
  unfold subC at h; split at h
  · cases h; exact ⟨rfl, by assumption⟩
  · cases h
theorem good_addC {B m a b : Nat} (h : a + b ≤ m) : Good B (addC m a b) := by
  unfold addC; rw [if_pos h]; simp
theorem addC_ok {m a b v : Nat} (h : (addC m a b).out = .ok v) : v = a + b ∧ a + b ≤ m := by
  unfold addC at h; split at h
  · cases h; exact ⟨rfl, by assumption⟩
  · cases h
theorem good_mulC {B m a b : Nat} (h : a * b ≤ m) : Good B (mulC m a b) := by
  unfold mulC; rw [if_pos h]; simp
theorem mulC_ok {m a b v : Nat} (h : (mulC m a b).out = .ok v) : v = a * b ∧ a * b ≤ m := by
  unfold mulC at h; split at h
  · cases h; exact ⟨rfl, by assumption⟩
  · cases h
theorem good_vecAlloc {B n sz : Nat} (h1 : n * sz ≤ ISIZEMAX) (h2 : n * sz ≤ B) : Good B (vecAlloc n sz) := by
  unfold vecAlloc; rw [if_neg (by omega)]; exact good_alloc h2

/-! ## the cursor monad -/

/-- cursor invariant: the unread suffix is no longer than the input -/
def Inv (w : Bytes) (s : St) : Prop := s.rest.length ≤ w.length

def PGood {α} (p : P α) : Prop :=
  ∀ w s, Inv w s →
    Good (budget w.length) (p w s) ∧ ∀ a s', (p w s).out = .ok (a, s') → Inv w s'

/-- on success the reader consumed at least one byte (needed for `until_eof` to terminate) -/
def Consumes {α} (p : P α) : Prop :=
  ∀ w s a s', (p w s).out = .ok (a, s') → s'.rest.length < s.rest.length

theorem P.bind_def {α β} (p : P α) (f : α → P β) : (p >>= f) = P.bind p f := rfl
theorem P.pure_def {α} (a : α) : (Pure.pure a : P α) = P.pure a := rfl

theorem PGood.pure {α} (a : α) : PGood (Pure.pure a : P α) := by
  intro w s hs
  refine ⟨good_ok _ _, ?_⟩
  intro a' s' h; cases h; exact hs

theorem PGood.bind {α β} {p : P α} {f : α → P β} (hp : PGood p) (hf : ∀ a, PGood (f a)) :
    PGood (p >>= f) := by
  intro w s hs
  obtain ⟨⟨g1, g2⟩, hi⟩ := hp w s hs
  rw [P.bind_def]; unfold P.bind
  split
  · next a s' k heq =>
    rw [heq] at hi g2
    obtain ⟨⟨f1, f2⟩, fi⟩ := hf a w s' (hi a s' rfl)
    refine ⟨⟨?_, ?_⟩, ?_⟩
    · intro ⟨x, hx⟩; exact f1 ⟨x, hx⟩
    · exact Nat.max_le.mpr ⟨g2, f2⟩
    · intro b s'' h; exact fi b s'' h
  · next e k heq =>
    rw [heq] at g2
    exact ⟨⟨not_faults_fail _ _, g2⟩, by intro a s' h; cases h⟩
  · next x k heq =>
    rw [heq] at g1
    exact absurd ⟨x, rfl⟩ g1

theorem PGood.ite {α} {c : Prop} [Decidable c] {p q : P α} (hp : PGood p) (hq : PGood q) :
    PGood (if c then p else q) := by
  split <;> assumption

theorem budget_ge (n : Nat) : 16777216 ≤ budget n := by unfold budget; omega

/-- a cursor-free computation is good under every budget that is at least the constant part -/
theorem PGood.lift {α} {r : Res α} (h : ∀ B, 16777216 ≤ B → Good B r) : PGood (P.lift r) := by
  intro w s hs
  obtain ⟨h1, h2⟩ := h (budget w.length) (budget_ge _)
  unfold P.lift
  split
  · exact ⟨⟨not_faults_ok _ _, h2⟩, by intro a s' h; cases h; exact hs⟩
  · exact ⟨⟨not_faults_fail _ _, h2⟩, by intro a s' h; cases h⟩
  · next x k => exact absurd ⟨x, rfl⟩ h1

theorem PGood.failP {α} : PGood (P.failP : P α) := by
  intro w s _; exact ⟨good_fail _, by intro a s' h; cases h⟩
theorem PGood.eofP {α} : PGood (P.eofP : P α) := by
  intro w s _; exact ⟨good_eof _, by intro a s' h; cases h⟩

/-- a reader that touches no heap, never faults, and only shortens or re-derives `rest` -/
theorem PGood.of_simple {α} {p : P α}
    (h : ∀ w s, Inv w s → (p w s).peak = 0 ∧ (∀ f, (p w s).out ≠ .fault f) ∧
      ∀ a s', (p w s).out = .ok (a, s') → Inv w s') : PGood p := by
  intro w s hs
  obtain ⟨h0, h1, h2⟩ := h w s hs
  exact ⟨⟨fun ⟨f, hf⟩ => h1 f hf, by rw [h0]; exact Nat.zero_le _⟩, h2⟩

theorem length_drop_le (n : Nat) (l : Bytes) : (l.drop n).length ≤ l.length := by
  simp only [List.length_drop]; omega

theorem PGood.u8 : PGood P.u8 := by
  apply PGood.of_simple; intro w s hs; unfold P.u8
  split
  · next a r h =>
    refine ⟨rfl, (by intro f hf; cases hf), ?_⟩
    intro a' s' he; cases he
    simp only [Inv] at *; rw [h] at hs; simp only [List.length_cons] at hs; omega
  · exact ⟨rfl, (by intro f hf; cases hf), by intro a s' he; cases he⟩

theorem PGood.u16le : PGood P.u16le := by
  apply PGood.of_simple; intro w s hs; unfold P.u16le
  split
  · next a b r h =>
    refine ⟨rfl, (by intro f hf; cases hf), ?_⟩
    intro a' s' he; cases he
    simp only [Inv] at *; rw [h] at hs; simp only [List.length_cons] at hs; omega
  · exact ⟨rfl, (by intro f hf; cases hf), by intro a s' he; cases he⟩

theorem PGood.u16be : PGood P.u16be := by
  apply PGood.of_simple; intro w s hs; unfold P.u16be
  split
  · next a b r h =>
    refine ⟨rfl, (by intro f hf; cases hf), ?_⟩
    intro a' s' he; cases he
    simp only [Inv] at *; rw [h] at hs; simp only [List.length_cons] at hs; omega
  · exact ⟨rfl, (by intro f hf; cases hf), by intro a s' he; cases he⟩

theorem PGood.u32le : PGood P.u32le := by
  apply PGood.of_simple; intro w s hs; unfold P.u32le
  split
  · next a b c d r h =>
    refine ⟨rfl, (by intro f hf; cases hf), ?_⟩
    intro a' s' he; cases he
    simp only [Inv] at *; rw [h] at hs; simp only [List.length_cons] at hs; omega
  · exact ⟨rfl, (by intro f hf; cases hf), by intro a s' he; cases he⟩

theorem PGood.u32be : PGood P.u32be := by
  apply PGood.of_simple; intro w s hs; unfold P.u32be
  split
  · next a b c d r h =>
    refine ⟨rfl, (by intro f hf; cases hf), ?_⟩
    intro a' s' he; cases he
    simp only [Inv] at *; rw [h] at hs; simp only [List.length_cons] at hs; omega
  · exact ⟨rfl, (by intro f hf; cases hf), by intro a s' he; cases he⟩

theorem PGood.u64le : PGood P.u64le := by
  apply PGood.of_simple; intro w s hs; unfold P.u64le
  split
  · next a b c d e f g h' r h =>
    refine ⟨rfl, (by intro f hf; cases hf), ?_⟩
    intro a' s' he; cases he
    simp only [Inv] at *; rw [h] at hs; simp only [List.length_cons] at hs; omega
  · exact ⟨rfl, (by intro f hf; cases hf), by intro a s' he; cases he⟩

theorem PGood.u64be : PGood P.u64be := by
  apply PGood.of_simple; intro w s hs; unfold P.u64be
  split
  · next a b c d e f g h' r h =>
    refine ⟨rfl, (by intro f hf; cases hf), ?_⟩
    intro a' s' he; cases he
    simp only [Inv] at *; rw [h] at hs; simp only [List.length_cons] at hs; omega
  · exact ⟨rfl, (by intro f hf; cases hf), by intro a s' he; cases he⟩

theorem PGood.f32le : PGood P.f32le := PGood.u32le
theorem PGood.f32be : PGood P.f32be := PGood.u32be

theorem PGood.bytes (n : Nat) : PGood (P.bytes n) := by
  apply PGood.of_simple; intro w s hs; unfold P.bytes
  simp only
  split
  · refine ⟨rfl, (by intro f hf; cases hf), ?_⟩
    intro a' s' he; cases he
    simp only [Inv] at *; have := length_drop_le n s.rest; omega
  · exact ⟨rfl, (by intro f hf; cases hf), by intro a s' he; cases he⟩

theorem PGood.getPos : PGood P.getPos := by
  apply PGood.of_simple; intro w s hs
  exact ⟨rfl, (by intro f hf; cases hf), by intro a s' he; cases he; exact hs⟩
theorem PGood.remaining : PGood P.remaining := by
  apply PGood.of_simple; intro w s hs
  exact ⟨rfl, (by intro f hf; cases hf), by intro a s' he; cases he; exact hs⟩
theorem PGood.inputLen : PGood P.inputLen := by
  apply PGood.of_simple; intro w s hs
  exact ⟨rfl, (by intro f hf; cases hf), by intro a s' he; cases he; exact hs⟩
theorem PGood.seekStart (n : Nat) : PGood (P.seekStart n) := by
  apply PGood.of_simple; intro w s _
  refine ⟨rfl, (by intro f hf; cases hf), ?_⟩
  intro a s' he; cases he; exact length_drop_le n w
theorem PGood.skip (n : Nat) : PGood (P.skip n) := by
  apply PGood.of_simple; intro w s hs
  refine ⟨rfl, (by intro f hf; cases hf), ?_⟩
  intro a s' he; cases he
  simp only [Inv] at *; have := length_drop_le n s.rest; omega

theorem PGood.magic (m : Bytes) : PGood (P.magic m) := by
  apply PGood.of_simple; intro w s hs; unfold P.magic
  simp only
  split
  · split
    · refine ⟨rfl, (by intro f hf; cases hf), ?_⟩
      intro a s' he; cases he
      simp only [Inv] at *; have := length_drop_le m.length s.rest; omega
    · exact ⟨rfl, (by intro f hf; cases hf), by intro a s' he; cases he⟩
  · exact ⟨rfl, (by intro f hf; cases hf), by intro a s' he; cases he⟩

theorem PGood.assertP (c : Bool) : PGood (P.assertP c) := by
  apply PGood.of_simple; intro w s hs; unfold P.assertP
  split
  · exact ⟨rfl, (by intro f hf; cases hf), by intro a s' he; cases he; exact hs⟩
  · exact ⟨rfl, (by intro f hf; cases hf), by intro a s' he; cases he⟩

theorem PGood.ifCond {α} {c : Bool} {p : P α} {d : α} (hp : PGood p) : PGood (P.ifCond c p d) := by
  unfold P.ifCond; split
  · exact hp
  · exact PGood.pure d

theorem PGood.map {α β} {f : α → β} {p : P α} (hp : PGood p) : PGood (P.map f p) :=
  PGood.bind (p := p) hp (fun a => PGood.pure (f a))

theorem PGood.tryMap {α β} {f : α → Option β} {p : P α} (hp : PGood p) : PGood (P.tryMap f p) := by
  apply PGood.bind (p := p) hp
  intro a; split
  · exact PGood.pure _
  · exact PGood.failP

theorem PGood.mapRes {α β} {f : α → Res β} {p : P α} (hp : PGood p)
    (hf : ∀ a B, 16777216 ≤ B → Good B (f a)) :
    PGood (P.mapRes f p) :=
  PGood.bind (p := p) hp (fun a => PGood.lift (hf a))

theorem PGood.reprEnum {p : P Nat} {t : List Nat} (hp : PGood p) : PGood (P.reprEnum p t) := by
  apply PGood.bind (p := p) hp
  intro v; split
  · exact PGood.pure _
  · exact PGood.failP

theorem PGood.padSizeTo {α} {n : Nat} {p : P α} (hp : PGood p) : PGood (P.padSizeTo n p) := by
  intro w s hs
  obtain ⟨⟨g1, g2⟩, hi⟩ := hp w s hs
  unfold P.padSizeTo
  split
  · next a s' k heq =>
    rw [heq] at hi g2
    have hi' := hi a s' rfl
    simp only
    split
    · refine ⟨⟨not_faults_ok _ _, g2⟩, ?_⟩
      intro a' s'' he; cases he
      simp only [Inv] at *; have := length_drop_le (n - (s'.pos - s.pos)) s'.rest; omega
    · refine ⟨⟨not_faults_ok _ _, g2⟩, ?_⟩
      intro a' s'' he; cases he; exact hi'
  · exact ⟨⟨g1, g2⟩, hi⟩

theorem PGood.restorePosition {α} {p : P α} (hp : PGood p) : PGood (P.restorePosition p) := by
  intro w s hs
  obtain ⟨⟨g1, g2⟩, hi⟩ := hp w s hs
  unfold P.restorePosition
  split
  · next a s' k heq =>
    rw [heq] at g2
    exact ⟨⟨not_faults_ok _ _, g2⟩, by intro a' s'' he; cases he; exact hs⟩
  · exact ⟨⟨g1, g2⟩, hi⟩

theorem PGood.orElse {α} {p q : P α} (hp : PGood p) (hq : PGood q) : PGood (P.orElse p q) := by
  intro w s hs
  obtain ⟨⟨g1, g2⟩, hi⟩ := hp w s hs
  obtain ⟨⟨q1, q2⟩, qi⟩ := hq w s hs
  unfold P.orElse
  split
  · next e k heq =>
    rw [heq] at g2
    split
    · next e' k' heq' =>
      rw [heq'] at q2
      exact ⟨⟨not_faults_fail _ _, Nat.max_le.mpr ⟨g2, q2⟩⟩, by intro a s' he; cases he⟩
    · next o k' hne heq' =>
      rw [heq'] at q1 q2 qi
      refine ⟨⟨?_, Nat.max_le.mpr ⟨g2, q2⟩⟩, ?_⟩
      · intro ⟨x, hx⟩; exact q1 ⟨x, hx⟩
      · intro a s' he; exact qi a s' he
  · exact ⟨⟨g1, g2⟩, hi⟩

theorem take_length_le_budget {n : Nat} {w : Bytes} {s : St} (hs : Inv w s)
    (h : (s.rest.take n).length = n) : n ≤ budget w.length := by
  simp only [List.length_take] at h
  simp only [Inv] at hs
  unfold budget; omega

/-- the repaired `Vec<u8>` read: the request is validated against the remaining input -/
theorem PGood.countBytesChecked (n : Nat) : PGood (P.countBytesChecked n) := by
  intro w s hs; unfold P.countBytesChecked
  simp only
  split
  · next h =>
    refine ⟨⟨not_faults_ok _ _, take_length_le_budget hs h⟩, ?_⟩
    intro a s' he; cases he
    simp only [Inv] at *; have := length_drop_le n s.rest; omega
  · exact ⟨⟨not_faults_fail _ _, Nat.zero_le _⟩, by intro a s' he; cases he⟩

/-- binrw's `Vec<u8>` read is good when the count is small **a priori** (a constant, a `u8`/`u16`
field): it reserves `n` bytes before looking at the input. -/
theorem PGood.countBytes {n : Nat} (hn : n ≤ 16777216) : PGood (P.countBytes n) := by
  intro w s hs; unfold P.countBytes
  have hb : n ≤ budget w.length := by unfold budget; omega
  split
  · next h => unfold ISIZEMAX at h; omega
  · simp only
    split
    · refine ⟨⟨not_faults_ok _ _, hb⟩, ?_⟩
      intro a s' he; cases he
      simp only [Inv] at *; have := length_drop_le n s.rest; omega
    · exact ⟨⟨not_faults_fail _ _, hb⟩, by intro a s' he; cases he⟩

theorem PGood.countInts (n width : Nat) : PGood (P.countInts n width) := PGood.bytes _

theorem countGo_good {α} {p : P α} (hp : PGood p) (w : Bytes) :
    ∀ (n : Nat) (s : St) (pk : Nat) (acc : List α), Inv w s → pk ≤ budget w.length →
      Good (budget w.length) (P.countGo p w n s pk acc) ∧
      ∀ a s', (P.countGo p w n s pk acc).out = .ok (a, s') → Inv w s' := by
  intro n
  induction n with
  | zero =>
    intro s pk acc hs hpk
    unfold P.countGo
    exact ⟨⟨not_faults_ok _ _, hpk⟩, by intro a s' he; cases he; exact hs⟩
  | succ n ih =>
    intro s pk acc hs hpk
    obtain ⟨⟨g1, g2⟩, hi⟩ := hp w s hs
    unfold P.countGo
    split
    · next a s' k heq =>
      rw [heq] at g2 hi
      exact ih s' (max pk k) (a :: acc) (hi a s' rfl) (Nat.max_le.mpr ⟨hpk, g2⟩)
    · next e k heq =>
      rw [heq] at g2
      exact ⟨⟨not_faults_fail _ _, Nat.max_le.mpr ⟨hpk, g2⟩⟩, by intro a s' he; cases he⟩
    · next x k heq =>
      rw [heq] at g1; exact absurd ⟨x, rfl⟩ g1

theorem PGood.count {α} {p : P α} (n : Nat) (hp : PGood p) : PGood (P.count n p) := by
  intro w s hs
  exact countGo_good hp w n s 0 [] hs (Nat.zero_le _)

theorem untilEofGo_good {α} {p : P α} (hp : PGood p) (hc : Consumes p) (w : Bytes) :
    ∀ (fuel : Nat) (s : St) (pk : Nat) (acc : List α), Inv w s → pk ≤ budget w.length →
      s.rest.length < fuel →
      Good (budget w.length) (P.untilEofGo p w fuel s pk acc) ∧
      ∀ a s', (P.untilEofGo p w fuel s pk acc).out = .ok (a, s') → Inv w s' := by
  intro fuel
  induction fuel with
  | zero => intro s pk acc _ _ h; omega
  | succ f ih =>
    intro s pk acc hs hpk hf
    obtain ⟨⟨g1, g2⟩, hi⟩ := hp w s hs
    unfold P.untilEofGo
    split
    · next a s' k heq =>
      rw [heq] at g2 hi
      have hlt := hc w s a s' (by rw [heq])
      exact ih s' (max pk k) (a :: acc) (hi a s' rfl) (Nat.max_le.mpr ⟨hpk, g2⟩) (by omega)
    · next k heq =>
      rw [heq] at g2
      exact ⟨⟨not_faults_ok _ _, Nat.max_le.mpr ⟨hpk, g2⟩⟩, by intro a s' he; cases he; exact hs⟩
    · next k heq =>
      rw [heq] at g2
      exact ⟨⟨not_faults_fail _ _, Nat.max_le.mpr ⟨hpk, g2⟩⟩, by intro a s' he; cases he⟩
    · next x k heq =>
      rw [heq] at g1; exact absurd ⟨x, rfl⟩ g1

/-- `until_eof` terminates and is good when the element reader consumes input on success -/
theorem PGood.untilEof {α} {p : P α} (hp : PGood p) (hc : Consumes p) : PGood (P.untilEof p) := by
  intro w s hs
  exact untilEofGo_good hp hc w (s.rest.length + 1) s 0 [] hs (Nat.zero_le _) (Nat.lt_succ_self _)

/-! ### `Consumes` for the readers used under `until_eof` -/

theorem Consumes.u8 : Consumes P.u8 := by
  intro w s a s' h; unfold P.u8 at h
  split at h
  · next x r hr => cases h; rw [hr]; simp
  · cases h

/-- a reader that starts by skipping/reading through `bytes`/fixed reads consumes input as soon as
its first step does and later steps never move backwards; for the fixed-layout structs under
`until_eof` it is simplest to state consumption through the total size. -/
theorem Consumes.of_first {α β} {p : P α} {f : α → P β} (hp : Consumes p)
    (hf : ∀ a w s b s', (f a w s).out = .ok (b, s') → s'.rest.length ≤ s.rest.length) :
    Consumes (p >>= f) := by
  intro w s b s' h
  rw [P.bind_def] at h; unfold P.bind at h
  split at h
  · next a s1 k heq =>
    have h1 := hp w s a s1 (by rw [heq])
    have h2 := hf a w s1 b s' h
    omega
  · cases h
  · cases h

/-- on success the cursor did not move backwards (no seek to an earlier position) -/
def NonInc {α} (p : P α) : Prop :=
  ∀ w s a s', (p w s).out = .ok (a, s') → s'.rest.length ≤ s.rest.length

theorem Consumes.nonInc {α} {p : P α} (h : Consumes p) : NonInc p :=
  fun w s a s' he => Nat.le_of_lt (h w s a s' he)

theorem NonInc.pure {α} (a : α) : NonInc (Pure.pure a : P α) := by
  intro w s a' s' h; cases h; exact Nat.le_refl _

theorem NonInc.bind {α β} {p : P α} {f : α → P β} (hp : NonInc p) (hf : ∀ a, NonInc (f a)) :
    NonInc (p >>= f) := by
  intro w s b s' h
  rw [P.bind_def] at h; unfold P.bind at h
  split at h
  · next a s1 k heq =>
    have h1 := hp w s a s1 (by rw [heq])
    have h2 := hf a w s1 b s' h
    omega
  · cases h
  · cases h

theorem Consumes.bind_left {α β} {p : P α} {f : α → P β} (hp : Consumes p) (hf : ∀ a, NonInc (f a)) :
    Consumes (p >>= f) := by
  intro w s b s' h
  rw [P.bind_def] at h; unfold P.bind at h
  split at h
  · next a s1 k heq =>
    have h1 := hp w s a s1 (by rw [heq])
    have h2 := hf a w s1 b s' h
    omega
  · cases h
  · cases h

theorem Consumes.bind_right {α β} {p : P α} {f : α → P β} (hp : NonInc p) (hf : ∀ a, Consumes (f a)) :
    Consumes (p >>= f) := by
  intro w s b s' h
  rw [P.bind_def] at h; unfold P.bind at h
  split at h
  · next a s1 k heq =>
    have h1 := hp w s a s1 (by rw [heq])
    have h2 := hf a w s1 b s' h
    omega
  · cases h
  · cases h

theorem NonInc.skip (n : Nat) : NonInc (P.skip n) := by
  intro w s a s' h; cases h; exact length_drop_le n s.rest

theorem NonInc.lift {α} (r : Res α) : NonInc (P.lift r) := by
  intro w s a s' h; unfold P.lift at h
  split at h
  · cases h; exact Nat.le_refl _
  · cases h
  · cases h

theorem Consumes.u16le : Consumes P.u16le := by
  intro w s a s' h; unfold P.u16le at h
  split at h
  · next x y r hr => cases h; rw [hr]; simp only [List.length_cons]; omega
  · cases h
theorem Consumes.u16be : Consumes P.u16be := by
  intro w s a s' h; unfold P.u16be at h
  split at h
  · next x y r hr => cases h; rw [hr]; simp only [List.length_cons]; omega
  · cases h
theorem Consumes.u32le : Consumes P.u32le := by
  intro w s a s' h; unfold P.u32le at h
  split at h
  · next x y z t r hr => cases h; rw [hr]; simp only [List.length_cons]; omega
  · cases h
theorem Consumes.u32be : Consumes P.u32be := by
  intro w s a s' h; unfold P.u32be at h
  split at h
  · next x y z t r hr => cases h; rw [hr]; simp only [List.length_cons]; omega
  · cases h

theorem NonInc.u8 : NonInc P.u8 := Consumes.u8.nonInc
theorem NonInc.u16le : NonInc P.u16le := Consumes.u16le.nonInc
theorem NonInc.u16be : NonInc P.u16be := Consumes.u16be.nonInc
theorem NonInc.u32le : NonInc P.u32le := Consumes.u32le.nonInc
theorem NonInc.u32be : NonInc P.u32be := Consumes.u32be.nonInc

theorem NonInc.bytes (n : Nat) : NonInc (P.bytes n) := by
  intro w s a s' h; unfold P.bytes at h
  simp only at h
  split at h
  · cases h; exact length_drop_le n s.rest
  · cases h

theorem NonInc.countBytes (n : Nat) : NonInc (P.countBytes n) := by
  intro w s a s' h; unfold P.countBytes at h
  split at h
  · cases h
  · simp only at h
    split at h
    · cases h; exact length_drop_le n s.rest
    · cases h

theorem NonInc.countBytesChecked (n : Nat) : NonInc (P.countBytesChecked n) := by
  intro w s a s' h; unfold P.countBytesChecked at h
  simp only at h
  split at h
  · cases h; exact length_drop_le n s.rest
  · cases h

/-! ### postconditions and minimal consumption -/

/-- every value the reader can produce satisfies `Q` -/
def PPost {α} (p : P α) (Q : α → Prop) : Prop :=
  ∀ w s a s', (p w s).out = .ok (a, s') → Q a

theorem PPost.pure {α} {a : α} {Q : α → Prop} (h : Q a) : PPost (Pure.pure a : P α) Q := by
  intro w s a' s' he; cases he; exact h

theorem PPost.bind {α β} {p : P α} {f : α → P β} {Q1 : α → Prop} {Q : β → Prop}
    (hp : PPost p Q1) (hf : ∀ a, Q1 a → PPost (f a) Q) : PPost (p >>= f) Q := by
  intro w s b s' h
  rw [P.bind_def] at h; unfold P.bind at h
  split at h
  · next a s1 k heq => exact hf a (hp w s a s1 (by rw [heq])) w s1 b s' h
  · cases h
  · cases h

theorem PPost.trivial {α} (p : P α) : PPost p (fun _ => True) := fun _ _ _ _ _ => True.intro

/-- a step whose value carries no information for the postcondition -/
theorem PPost.bind_skip {α β} {p : P α} {f : α → P β} {Q : β → Prop}
    (hf : ∀ a, PPost (f a) Q) : PPost (p >>= f) Q :=
  PPost.bind (Q1 := fun _ => True) (PPost.trivial p) (fun a _ => hf a)

theorem PPost.map {α β} {p : P α} {f : α → β} {Q : β → Prop} (h : ∀ a, Q (f a)) : PPost (P.map f p) Q :=
  PPost.bind (p := p) (PPost.trivial p) (fun a _ => PPost.pure (h a))

theorem countGo_length {α} (p : P α) (w : Bytes) :
    ∀ (n : Nat) (s : St) (pk : Nat) (acc l : List α) (s' : St),
      (P.countGo p w n s pk acc).out = .ok (l, s') → l.length = n + acc.length := by
  intro n
  induction n with
  | zero =>
    intro s pk acc l s' h
    unfold P.countGo at h; cases h; simp
  | succ n ih =>
    intro s pk acc l s' h
    unfold P.countGo at h
    split at h
    · next a s1 k heq =>
      have := ih s1 (max pk k) (a :: acc) l s' h
      simp only [List.length_cons] at this; omega
    · cases h
    · cases h

/-- `count n p` yields exactly `n` elements -/
theorem PPost.count_length {α} (n : Nat) (p : P α) : PPost (P.count n p) (fun l => l.length = n) := by
  intro w s l s' h
  have := countGo_length p w n s 0 [] l s' h
  simpa using this

/-- `bind` where the continuation is only good for the values the first reader can produce -/
theorem PGood.bind_post {α β} {p : P α} {f : α → P β} {Q : α → Prop}
    (hp : PGood p) (hq : PPost p Q) (hf : ∀ a, Q a → PGood (f a)) : PGood (p >>= f) := by
  intro w s hs
  obtain ⟨⟨g1, g2⟩, hi⟩ := hp w s hs
  rw [P.bind_def]; unfold P.bind
  split
  · next a s' k heq =>
    rw [heq] at hi g2
    have hqa : Q a := hq w s a s' (by rw [heq])
    obtain ⟨⟨f1, f2⟩, fi⟩ := hf a hqa w s' (hi a s' rfl)
    refine ⟨⟨?_, ?_⟩, ?_⟩
    · intro ⟨x, hx⟩; exact f1 ⟨x, hx⟩
    · exact Nat.max_le.mpr ⟨g2, f2⟩
    · intro b s'' h; exact fi b s'' h
  · next e k heq =>
    rw [heq] at g2
    exact ⟨⟨not_faults_fail _ _, g2⟩, by intro a s' h; cases h⟩
  · next x k heq =>
    rw [heq] at g1
    exact absurd ⟨x, rfl⟩ g1

theorem PPost.bytes_length (n : Nat) : PPost (P.bytes n) (fun l => l.length = n) := by
  intro w s a s' h; unfold P.bytes at h
  simp only at h
  split at h
  · next hl => cases h; exact hl
  · cases h

theorem PPost.failP {α} {Q : α → Prop} : PPost (P.failP : P α) Q := by
  intro w s a s' h; cases h

theorem PPost.ite {α} {c : Prop} [Decidable c] {p q : P α} {Q : α → Prop}
    (hp : c → PPost p Q) (hq : ¬ c → PPost q Q) : PPost (if c then p else q) Q := by
  split
  · next h => exact hp h
  · next h => exact hq h

theorem PPost.lift_panic {α} {Q : α → Prop} (f : Fault) : PPost (P.lift (Res.panic f : Res α)) Q := by
  intro w s a s' h; cases h

/-- on success the reader consumed at least `n` bytes of what was in front of the cursor -/
def ConsumesN {α} (n : Nat) (p : P α) : Prop :=
  ∀ w s a s', (p w s).out = .ok (a, s') → s'.rest.length + n ≤ s.rest.length

theorem ConsumesN.of_nonInc {α} {p : P α} (h : NonInc p) : ConsumesN 0 p :=
  fun w s a s' he => by have := h w s a s' he; omega

theorem ConsumesN.bind {α β} {n m : Nat} {p : P α} {f : α → P β}
    (hp : ConsumesN n p) (hf : ∀ a, ConsumesN m (f a)) : ConsumesN (n + m) (p >>= f) := by
  intro w s b s' h
  rw [P.bind_def] at h; unfold P.bind at h
  split at h
  · next a s1 k heq =>
    have h1 := hp w s a s1 (by rw [heq])
    have h2 := hf a w s1 b s' h
    omega
  · cases h
  · cases h

theorem ConsumesN.pure {α} (a : α) : ConsumesN 0 (Pure.pure a : P α) := by
  intro w s a' s' h; cases h; omega

theorem ConsumesN.mono {α} {n m : Nat} {p : P α} (h : ConsumesN n p) (hm : m ≤ n) : ConsumesN m p :=
  fun w s a s' he => by have := h w s a s' he; omega

theorem ConsumesN.bytes (n : Nat) : ConsumesN n (P.bytes n) := by
  intro w s a s' h; unfold P.bytes at h
  simp only at h
  split at h
  · next hl =>
    cases h
    simp only [List.length_take] at hl
    simp only [List.length_drop]; omega
  · cases h

theorem ConsumesN.u8 : ConsumesN 1 P.u8 := by
  intro w s a s' h; unfold P.u8 at h
  split at h
  · next x r hr => cases h; rw [hr]; simp only [List.length_cons]; omega
  · cases h
theorem ConsumesN.u16le : ConsumesN 2 P.u16le := by
  intro w s a s' h; unfold P.u16le at h
  split at h
  · next x y r hr => cases h; rw [hr]; simp only [List.length_cons]; omega
  · cases h
theorem ConsumesN.u16be : ConsumesN 2 P.u16be := by
  intro w s a s' h; unfold P.u16be at h
  split at h
  · next x y r hr => cases h; rw [hr]; simp only [List.length_cons]; omega
  · cases h
theorem ConsumesN.u32le : ConsumesN 4 P.u32le := by
  intro w s a s' h; unfold P.u32le at h
  split at h
  · next x y z t r hr => cases h; rw [hr]; simp only [List.length_cons]; omega
  · cases h
theorem ConsumesN.u32be : ConsumesN 4 P.u32be := by
  intro w s a s' h; unfold P.u32be at h
  split at h
  · next x y z t r hr => cases h; rw [hr]; simp only [List.length_cons]; omega
  · cases h

theorem ConsumesN.map {α β} {n : Nat} {p : P α} {f : α → β} (hp : ConsumesN n p) :
    ConsumesN n (P.map f p) := by
  have := ConsumesN.bind (p := p) (f := fun a => (Pure.pure (f a) : P β)) hp (fun a => ConsumesN.pure (f a))
  exact this

theorem ConsumesN.reprEnum {n : Nat} {p : P Nat} {t : List Nat} (hp : ConsumesN n p) :
    ConsumesN n (P.reprEnum p t) := by
  have : ConsumesN (n + 0) (P.reprEnum p t) := by
    apply ConsumesN.bind (p := p) hp
    intro v; split
    · exact ConsumesN.pure _
    · intro w s a s' h; cases h
  simpa using this

/-- a successful run from position 0 means the input is at least `n` bytes long -/
theorem ConsumesN.run_length {α} {n : Nat} {p : P α} (hp : ConsumesN n p) {w : Bytes} {a : α}
    (h : (P.run p w).out = .ok a) : n ≤ w.length := by
  unfold P.run at h
  split at h
  · next a' s' k heq =>
    have := hp w ⟨0, w⟩ a' s' (by rw [heq])
    simp only at this; omega
  · cases h
  · cases h

theorem PPost.run {α} {p : P α} {Q : α → Prop} (hp : PPost p Q) {w : Bytes} {a : α}
    (h : (P.run p w).out = .ok a) : Q a := by
  unfold P.run at h
  split at h
  · next a' s' k heq => cases h; exact hp w ⟨0, w⟩ _ s' (by rw [heq])
  · cases h
  · cases h

/-! ### running a reader -/

theorem PGood.run {α} {p : P α} (hp : PGood p) (w : Bytes) : Good (budget w.length) (P.run p w) := by
  obtain ⟨⟨g1, g2⟩, _⟩ := hp w ⟨0, w⟩ (Nat.le_refl _)
  unfold P.run
  split
  · next a s k heq => rw [heq] at g2; exact ⟨not_faults_ok _ _, g2⟩
  · next e k heq => rw [heq] at g2; exact ⟨not_faults_fail _ _, g2⟩
  · next x k heq => rw [heq] at g1; exact absurd ⟨x, rfl⟩ g1

theorem PGood.runAt {α} {p : P α} (hp : PGood p) (w : Bytes) (pos : Nat) :
    Good (budget w.length) (P.runAt p w pos) := by
  obtain ⟨⟨g1, g2⟩, _⟩ := hp w ⟨pos, w.drop pos⟩ (length_drop_le pos w)
  unfold P.runAt
  split
  · next a s k heq => rw [heq] at g2; exact ⟨not_faults_ok _ _, g2⟩
  · next e k heq => rw [heq] at g2; exact ⟨not_faults_fail _ _, g2⟩
  · next x k heq => rw [heq] at g1; exact absurd ⟨x, rfl⟩ g1

/-! ### allocation-free readers (for cursors over derived buffers, where the budget of the
original input has to be carried over) -/

/-- the reader requests no heap -/
def PZero {α} (p : P α) : Prop := ∀ w s, (p w s).peak = 0

theorem PZero.pure {α} (a : α) : PZero (Pure.pure a : P α) := fun _ _ => rfl
theorem PZero.bind {α β} {p : P α} {f : α → P β} (hp : PZero p) (hf : ∀ a, PZero (f a)) :
    PZero (p >>= f) := by
  intro w s
  have h1 := hp w s
  rw [P.bind_def]; unfold P.bind
  split
  · next a s' k heq =>
    rw [heq] at h1; simp only at h1
    have h2 := hf a w s'
    simp only [h1, h2]; rfl
  · next e k heq => rw [heq] at h1; exact h1
  · next x k heq => rw [heq] at h1; exact h1
theorem PZero.u8 : PZero P.u8 := by intro w s; unfold P.u8; split <;> rfl
theorem PZero.u16le : PZero P.u16le := by intro w s; unfold P.u16le; split <;> rfl
theorem PZero.u16be : PZero P.u16be := by intro w s; unfold P.u16be; split <;> rfl
theorem PZero.u32le : PZero P.u32le := by intro w s; unfold P.u32le; split <;> rfl
theorem PZero.u32be : PZero P.u32be := by intro w s; unfold P.u32be; split <;> rfl
theorem PZero.u64le : PZero P.u64le := by intro w s; unfold P.u64le; split <;> rfl
theorem PZero.bytes (n : Nat) : PZero (P.bytes n) := by
  intro w s; unfold P.bytes; simp only; split <;> rfl
theorem PZero.skip (n : Nat) : PZero (P.skip n) := fun _ _ => rfl
theorem PZero.seekStart (n : Nat) : PZero (P.seekStart n) := fun _ _ => rfl
theorem PZero.map {α β} {p : P α} {f : α → β} (hp : PZero p) : PZero (P.map f p) :=
  PZero.bind (p := p) hp (fun a => PZero.pure (f a))

/-- an allocation-free good reader is good under every budget, on every buffer -/
theorem PGood.runAt_zero {α} {p : P α} (hp : PGood p) (hz : PZero p) (w : Bytes) (pos B : Nat) :
    Good B (P.runAt p w pos) := by
  obtain ⟨g1, _⟩ := PGood.runAt hp w pos
  refine ⟨g1, ?_⟩
  have := hz w ⟨pos, w.drop pos⟩
  unfold P.runAt
  split
  · next a s k heq => rw [heq] at this; simp only at this; simp [this]
  · next e k heq => rw [heq] at this; simp only at this; simp [this]
  · next x k heq => rw [heq] at this; simp only at this; simp [this]

/-- assembles `PGood` for a reader written with `do` from the primitives -/
syntax "pgood_step" : tactic
macro_rules
  | `(tactic| pgood_step) => `(tactic| first
    | exact PGood.pure _
    | exact PGood.u8 | exact PGood.u16le | exact PGood.u16be | exact PGood.u32le | exact PGood.u32be
    | exact PGood.u64le | exact PGood.u64be | exact PGood.f32le | exact PGood.f32be
    | exact PGood.bytes _ | exact PGood.getPos | exact PGood.remaining | exact PGood.inputLen
    | exact PGood.seekStart _ | exact PGood.skip _ | exact PGood.magic _ | exact PGood.assertP _
    | exact PGood.failP | exact PGood.eofP
    | exact PGood.countBytesChecked _ | exact PGood.countInts _ _
    | assumption
    | apply PGood.bind
    | apply PGood.ite
    | apply PGood.ifCond
    | apply PGood.map
    | apply PGood.tryMap
    | apply PGood.reprEnum
    | apply PGood.padSizeTo
    | apply PGood.restorePosition
    | apply PGood.orElse
    | apply PGood.count
    | intro _
    | split)

macro "pgood" : tactic => `(tactic| repeat pgood_step)

end Physis.A
