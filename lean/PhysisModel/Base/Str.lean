import PhysisModel.Base.Bytes
/-!
Models of the few Rust `std` string / formatting routines the SqPack code relies on, on ASCII
byte strings (`Bytes`).  They stand for external library behaviour (listed as assumptions of
C01): `str::split_once`, `str::rsplit_once` (= `rfind` + `split_at` + skip the separator),
`str::to_lowercase` restricted to ASCII, `format!("{:02}")`, `format!("{:02x}")`.
No Mathlib imports: linked into the driver.
-/
namespace Physis.Str

/-- ASCII `/` -/
def slash : UInt8 := 47

/-- `str::to_lowercase` on ASCII input -/
def lower (p : Bytes) : Bytes := p.map asciiLower

/-- `str::split_once(c)`: text before and after the first `c` -/
def splitOnce (c : UInt8) : Bytes → Option (Bytes × Bytes)
  | [] => none
  | b :: r =>
    if b == c then some ([], r)
    else match splitOnce c r with
      | some (x, y) => some (b :: x, y)
      | none => none

/-- `str::rsplit_once(c)`: text before and after the last `c` -/
def rsplitOnce (c : UInt8) (l : Bytes) : Option (Bytes × Bytes) :=
  match splitOnce c l.reverse with
  | some (x, y) => some (y.reverse, x.reverse)
  | none => none

/-- `s.split(c).next()`: text before the first `c`, or all of `s` -/
def firstToken (c : UInt8) (l : Bytes) : Bytes :=
  match splitOnce c l with
  | some (x, _) => x
  | none => l

def digit (n : Nat) : UInt8 := if n < 10 then (48 + n).toUInt8 else (87 + n).toUInt8

/-- digits of `n` in base `b`, most significant first (fuel = `n + 1` suffices) -/
def digitsAux (b : Nat) : Nat → Nat → Bytes → Bytes
  | 0, _, acc => acc
  | fuel + 1, n, acc =>
    if n < b ∨ b < 2 then digit (n % b) :: acc
    else digitsAux b fuel (n / b) (digit (n % b) :: acc)

def digits (b n : Nat) : Bytes := digitsAux b (n + 1) n []

/-- zero-pad on the left to width 2 (never truncates) -/
def pad2 (l : Bytes) : Bytes := List.replicate (2 - l.length) 48 ++ l

/-- `format!("{:02}", n)` for an unsigned / non-negative integer -/
def dec2 (n : Nat) : Bytes := pad2 (digits 10 n)
/-- `format!("{:02x}", n)` -/
def hex2 (n : Nat) : Bytes := pad2 (digits 16 n)
/-- `format!("{}", n)` -/
def dec (n : Nat) : Bytes := digits 10 n

def toString (b : Bytes) : String := String.ofList (b.map (fun c => Char.ofNat c.toNat))

end Physis.Str
