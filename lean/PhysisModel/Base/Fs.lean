import PhysisModel.Base.Bytes
/-!
# A small model of a directory tree (the part of `std::fs` the patcher uses)

A tree is an association list `Path → Node` *below a root directory that always exists*
(`[]` is the root).  A path is a list of components (byte strings).  Every operation is a total
function returning `none` where `std::fs` reports an error; observations go through `get`, and
two trees are the same install when they agree on `get` (`Equiv`).

No Mathlib: this file is linked into the driver.
-/
namespace Physis.Fs

abbrev Name := Bytes
abbrev Path := List Name

inductive Node where
  | file (data : Bytes)
  | dir
  deriving DecidableEq, Repr, Inhabited

abbrev Tree := List (Path × Node)

def get : Tree → Path → Option Node
  | [], _ => none
  | (q, n) :: r, p => if q = p then some n else get r p

/-- extensional equality of installs -/
def Equiv (t u : Tree) : Prop := ∀ p, get t p = get u p

def erase (t : Tree) (p : Path) : Tree := t.filter (fun e => decide (e.1 ≠ p))
def set (t : Tree) (p : Path) (n : Node) : Tree := (p, n) :: erase t p
/-- remove `p` and everything below it (`remove_dir_all`) -/
def eraseUnder (t : Tree) (p : Path) : Tree := t.filter (fun e => decide (¬ p <+: e.1))

def isFile (t : Tree) (p : Path) : Bool :=
  match get t p with
  | some (.file _) => true
  | _ => false

/-- the root always exists and is a directory -/
def isDir (t : Tree) (p : Path) : Bool :=
  match p with
  | [] => true
  | _ => match get t p with
    | some .dir => true
    | _ => false

def fileAt (t : Tree) (p : Path) : Option Bytes :=
  match get t p with
  | some (.file d) => some d
  | _ => none

/-- `fs::create_dir_all (pre ++ p)` where `pre` is known to be a directory: walk down, creating the
missing directories; a component that is a regular file is an error (`ENOTDIR` / `EEXIST`), and
since a file has no children nothing has been created before the error. -/
def mkdirAll (t : Tree) (pre : Path) : Path → Option Tree
  | [] => some t
  | c :: rest =>
    match get t (pre ++ [c]) with
    | some (.file _) => none
    | some .dir => mkdirAll t (pre ++ [c]) rest
    | none => mkdirAll (set t (pre ++ [c]) .dir) (pre ++ [c]) rest

/-- `OpenOptions::new().write(true).create(true).truncate(false).open(p)`: fails on a directory
(`EISDIR`), on the root, and when the parent is not an existing directory; creates an empty file
when there is none. -/
def openCreate (t : Tree) (p : Path) : Option Tree :=
  match p with
  | [] => none
  | _ =>
    match get t p with
    | some (.file _) => some t
    | some .dir => none
    | none => if isDir t p.dropLast then some (set t p (.file [])) else none

def zeros (n : Nat) : Bytes := List.replicate n 0

/-- `seek(Start(off)); write_all(data)` on a file whose content is `old` (POSIX: a gap past the old
end reads as zeros; writing nothing changes nothing, not even the length). -/
def writeAt (old : Bytes) (off : Nat) (data : Bytes) : Bytes :=
  if data.isEmpty then old
  else old.take off ++ zeros (off - old.length) ++ data ++ old.drop (off + data.length)

/-- the regular files of a tree, in the order of the association list -/
def files (t : Tree) : List (Path × Bytes) :=
  t.filterMap (fun e => match e.2 with | .file d => some (e.1, d) | .dir => none)

def dirs (t : Tree) : List Path :=
  t.filterMap (fun e => match e.2 with | .file _ => none | .dir => some e.1)

/-- split a `/`-separated relative path into its components -/
def splitSlash : Bytes → List Bytes
  | [] => [[]]
  | b :: r =>
    match splitSlash r with
    | [] => [[]]      -- unreachable
    | c :: cs => if b = 0x2f then [] :: c :: cs else (b :: c) :: cs

/-- join components with `/` -/
def joinSlash : List Bytes → Bytes
  | [] => []
  | [c] => c
  | c :: d :: r => c ++ 0x2f :: joinSlash (d :: r)

end Physis.Fs
