import PhysisModel.Base.ParserALemmas
import PhysisModel.Base.ParserAPbc
/-! # `PGood` for the loop combinators of `Base/ParserAPbc.lean` -/
namespace Physis.A

theorem eachGo_good {α} {f : α → P Unit} (hf : ∀ a, PGood (f a)) (w : Bytes) :
    ∀ (l : List α) (s : St) (pk : Nat), Inv w s → pk ≤ budget w.length →
      Good (budget w.length) (P.eachGo f w l s pk) ∧
      ∀ a s', (P.eachGo f w l s pk).out = .ok (a, s') → Inv w s' := by
  intro l
  induction l with
  | nil =>
    intro s pk hs hpk
    unfold P.eachGo
    exact ⟨⟨not_faults_ok _ _, hpk⟩, by intro a s' he; cases he; exact hs⟩
  | cons x l ih =>
    intro s pk hs hpk
    obtain ⟨⟨g1, g2⟩, hi⟩ := hf x w s hs
    unfold P.eachGo
    split
    · next u s' k heq =>
      rw [heq] at g2 hi
      exact ih s' (max pk k) (hi u s' rfl) (Nat.max_le.mpr ⟨hpk, g2⟩)
    · next e k heq =>
      rw [heq] at g2
      exact ⟨⟨not_faults_fail _ _, Nat.max_le.mpr ⟨hpk, g2⟩⟩, by intro a s' he; cases he⟩
    · next x k heq =>
      rw [heq] at g1; exact absurd ⟨x, rfl⟩ g1

theorem PGood.each {α} {f : α → P Unit} (l : List α) (hf : ∀ a, PGood (f a)) :
    PGood (P.each l f) := by
  intro w s hs
  exact eachGo_good hf w l s 0 hs (Nat.zero_le _)

theorem whileGo_good {c : Nat → Bool} {body : P Unit} (hp : PGood body) (hc : Consumes body) (w : Bytes) :
    ∀ (fuel : Nat) (s : St) (pk : Nat), Inv w s → pk ≤ budget w.length →
      s.rest.length < fuel →
      Good (budget w.length) (P.whileGo c body w fuel s pk) ∧
      ∀ a s', (P.whileGo c body w fuel s pk).out = .ok (a, s') → Inv w s' := by
  intro fuel
  induction fuel with
  | zero => intro s pk _ _ h; omega
  | succ f ih =>
    intro s pk hs hpk hf
    obtain ⟨⟨g1, g2⟩, hi⟩ := hp w s hs
    unfold P.whileGo
    split
    · split
      · next u s' k heq =>
        rw [heq] at g2 hi
        have hlt := hc w s u s' (by rw [heq])
        exact ih s' (max pk k) (hi u s' rfl) (Nat.max_le.mpr ⟨hpk, g2⟩) (by omega)
      · next e k heq =>
        rw [heq] at g2
        exact ⟨⟨not_faults_fail _ _, Nat.max_le.mpr ⟨hpk, g2⟩⟩, by intro a s' he; cases he⟩
      · next x k heq =>
        rw [heq] at g1; exact absurd ⟨x, rfl⟩ g1
    · exact ⟨⟨not_faults_ok _ _, hpk⟩, by intro a s' he; cases he; exact hs⟩

/-- a `while` loop over the cursor terminates and is good when its body consumes input -/
theorem PGood.whileP {c : Nat → Bool} {body : P Unit} (hp : PGood body) (hc : Consumes body) :
    PGood (P.whileP c body) := by
  intro w s hs
  exact whileGo_good hp hc w (s.rest.length + 1) s 0 hs (Nat.zero_le _) (Nat.lt_succ_self _)

theorem NonInc.failP {α} : NonInc (P.failP : P α) := by
  intro w s a s' h; cases h

theorem NonInc.ite {α} {c : Prop} [Decidable c] {p q : P α} (hp : NonInc p) (hq : NonInc q) :
    NonInc (if c then p else q) := by
  split <;> assumption

end Physis.A
