import PhysisModel.Base.Fs
/-!
Text form of directory trees for the line protocol (driver side; the Rust side is
`harness/src/c03fs.rs`).

```
tree    := "-" | entry (";" entry)*
entry   := path ":" content          regular file
         | path "/"                  directory (needed only for empty ones: parents are implied)
content := "-" | hex | "~" len "." seed        (pattern: byte i = (seed + 7·i + 13·(i / 256)) mod 256)
         | "^" len "." seed "." bits      (noise: 32-bit LCG `s ← 1664525·s + 1013904223` started at
                                           `(seed + 1)·2654435761`; byte i = top `bits` (1..8) bits of the
                                           state after i + 1 steps — content deflate cannot shrink below
                                           `bits/8` of its length)
```
path    := (plain | "/" | "%" h h)+     plain = ASCII letter, digit, `.`, `_`, `-`; `%hh` (two **lower-case**
                                        hex digits) = the byte hh, for every other byte 01..7f except `/`
                                        (space = `%20`, `%` = `%25`, `:` = `%3a`, …).  A byte has exactly one
                                        spelling: `%41` (a plain byte), `%2F`, `%00`, `%80` and a bare ` `/`+`/… are
                                        malformed, so the text of a path is unique (`pathText?` is injective).
```
Canonical output: entries sorted by the bytes of the `/`-joined path (the bytes, not their escaped
text); paths are printed with the same escapes (`showPath`: every byte that is not plain and not the
`/` between components is `%hh`, also bytes ≥ 80 that only a faulty implementation can produce); a
content longer than 32 bytes is printed as `h<len>.<fnv1a-64 of the bytes, 16 hex digits>`.
-/
namespace Physis.FsText
open Physis Physis.Fs

def pattern (len seed : Nat) : Bytes :=
  (List.range len).map fun i => UInt8.ofNat (seed + 7 * i + 13 * (i / 256))

/-- pseudo-random content, see the grammar above (tail recursive: contents reach 1 MiB) -/
def noise (len seed bits : Nat) : Bytes :=
  let sh : UInt8 := UInt8.ofNat (8 - bits)
  let rec go : Nat → UInt32 → Array UInt8 → Array UInt8
    | 0, _, acc => acc
    | n + 1, s, acc =>
      let s' := s * 1664525 + 1013904223
      go n s' (acc.push ((s' >>> 24).toUInt8 >>> sh))
  (go len ((UInt32.ofNat seed + 1) * 2654435761) (Array.mkEmpty len)).toList

def parseContent (s : String) : Option Bytes :=
  if s.startsWith "^" then
    match (s.drop 1).toString.splitOn "." with
    | [a, b, c] => do
      let len ← a.toNat?
      let seed ← b.toNat?
      let bits ← c.toNat?
      if 1 ≤ bits ∧ bits ≤ 8 then pure (noise len seed bits) else none
    | _ => none
  else if s.startsWith "~" then
    match (s.drop 1).toString.splitOn "." with
    | [a, b] => do
      let len ← a.toNat?
      let seed ← b.toNat?
      pure (pattern len seed)
    | _ => none
  else Bytes.ofHexFast s

/-- bytes that travel as themselves in a path of the line protocol -/
def plainByte (b : UInt8) : Bool :=
  (48 ≤ b && b ≤ 57) || (65 ≤ b && b ≤ 90) || (97 ≤ b && b ≤ 122) || b == 46 || b == 95 || b == 45

def lhexVal (c : Char) : Option Nat :=
  if '0' ≤ c ∧ c ≤ '9' then some (c.toNat - 48)
  else if 'a' ≤ c ∧ c ≤ 'f' then some (c.toNat - 87)
  else none

/-- decode the text of a path (grammar above); `none` = malformed -/
def unescapeChars : List Char → Option Bytes
  | [] => some []
  | c :: rest =>
    if c = '%' then
      match rest with
      | a :: b :: rest' =>
        match lhexVal a, lhexVal b with
        | some x, some y =>
          let v := x * 16 + y
          if v = 0 ∨ 128 ≤ v ∨ v = 0x2f ∨ plainByte (UInt8.ofNat v) then none
          else (unescapeChars rest').map (UInt8.ofNat v :: ·)
        | _, _ => none
      | _ => none
    else if c.toNat < 128 ∧ (plainByte (UInt8.ofNat c.toNat) ∨ c = '/') then
      (unescapeChars rest).map (UInt8.ofNat c.toNat :: ·)
    else none

/-- the bytes of a `/`-separated path written in the line protocol -/
def pathText? (s : String) : Option Bytes := unescapeChars s.toList

example : unescapeChars ['%', '2', '0', 'a', '/', '%', '2', '5', '.', 'b', '%', '7', 'f'] =
    some [0x20, 0x61, 0x2f, 0x25, 0x2e, 0x62, 0x7f] := by decide
example : unescapeChars ['%', '4', '1'] = none ∧ unescapeChars ['%', '2', 'F'] = none ∧
    unescapeChars ['%', '2', 'f'] = none ∧ unescapeChars ['%', '0', '0'] = none ∧
    unescapeChars ['%', '8', '0'] = none ∧ unescapeChars ['a', ' '] = none ∧ unescapeChars ['%', '2'] = none := by decide

/-- a tree path of the line protocol: well-formed text, no empty component -/
def treePath? (s : String) : Option Path :=
  match pathText? s with
  | some bs => if !bs.isEmpty && (splitSlash bs).all (fun c => !c.isEmpty) then some (splitSlash bs) else none
  | none => none

/-- all proper non-empty prefixes of a path (its parent directories), shortest first -/
def parents (p : Path) : List Path :=
  (List.range p.length).filterMap fun k => if k = 0 then none else some (p.take k)

/-- insert the directories leading to `p` that are not there yet -/
def withParents (t : Tree) (p : Path) : Tree :=
  (parents p).foldl (fun t q => match get t q with | none => t ++ [(q, Node.dir)] | some _ => t) t

/-- parse a tree; a path may occur once; parents are made explicit; a file used as a directory
is rejected -/
def parseTree (s : String) : Option Tree :=
  if s == "-" then some [] else
  let rec go (es : List String) (t : Tree) : Option Tree :=
    match es with
    | [] => some t
    | e :: rest =>
      if e.endsWith "/" then
        let ps := (e.dropEnd 1).toString
        match treePath? ps with
        | none => none
        | some p =>
        let t := withParents t p
        match get t p with
        | some (.file _) => none
        | some .dir => go rest t
        | none => go rest (t ++ [(p, Node.dir)])
      else
        match e.splitOn ":" with
        | [ps, cs] =>
          match treePath? ps, parseContent cs with
          | some p, some d =>
            let t := withParents t p
            match get t p with
            | some _ => none
            | none => go rest (t ++ [(p, Node.file d)])
          | _, _ => none
        | _ => none
  match go (s.splitOn ";") [] with
  | none => none
  | some t =>
    -- no regular file may have children
    if t.all (fun e => (parents e.1).all (fun q => !isFile t q)) then some t else none

def bytesLe : Bytes → Bytes → Bool
  | [], _ => true
  | _ :: _, [] => false
  | a :: r, b :: s => if a < b then true else if b < a then false else bytesLe r s

def fnv1a (bs : Bytes) : UInt64 :=
  bs.foldl (fun h b => (h ^^^ b.toUInt64) * 0x100000001b3) 0xcbf29ce484222325

def hex16 (v : UInt64) : String :=
  String.ofList ((List.range 16).map fun i => Bytes.hexDigit ((v >>> (UInt64.ofNat (60 - 4 * i))).toNat % 16))

def showContent (d : Bytes) : String :=
  if d.length ≤ 32 then Bytes.toHex d else s!"h{d.length}.{hex16 (fnv1a d)}"

/-- a path in the line protocol; the `/` are the separators between components (a `/` byte *inside* a
component — no file system has one — would be printed `%2f`) -/
def showPath (p : Path) : String :=
  "/".intercalate (p.map fun c => String.ofList (c.flatMap fun b =>
    if plainByte b then [Char.ofNat b.toNat]
    else ['%', Bytes.hexDigit (b.toNat / 16), Bytes.hexDigit (b.toNat % 16)]))

/-- canonical text of a tree; `withDirs = false` prints regular files only -/
def showTree (t : Tree) (withDirs : Bool) : String :=
  let es := t.filter (fun e => withDirs || (match e.2 with | .file _ => true | .dir => false))
  let es := es.mergeSort (fun a b => bytesLe (joinSlash a.1) (joinSlash b.1))
  if es.isEmpty then "-" else
  ";".intercalate (es.map fun e =>
    match e.2 with
    | .file d => showPath e.1 ++ ":" ++ showContent d
    | .dir => showPath e.1 ++ "/")

end Physis.FsText
