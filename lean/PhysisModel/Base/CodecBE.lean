import PhysisModel.Base.ParserBE
import PhysisModel.Base.BytesLemmas
/-!
The relation `Reads p w v` — parser `p` consumes exactly the bytes `w` (whatever follows them) and
returns `v` — with its composition lemmas, for the big-endian parser layer of `Base/ParserBE.lean`.
Proof-side only (imports `BytesLemmas`, hence `bv_decide (timeout := 300)`): not linked into the driver.
-/
namespace Physis.ParserBE
open Physis

def Reads {α} (p : P α) (w : Bytes) (v : α) : Prop := ∀ rest, p (w ++ rest) = some (v, rest)

theorem Reads.pure {α} (v : α) : Reads (P.pure v) [] v := fun _ => rfl

theorem Reads.bind {α β} {p : P α} {f : α → P β} {w1 w2 : Bytes} {a : α} {b : β}
    (h1 : Reads p w1 a) (h2 : Reads (f a) w2 b) : Reads (P.bind p f) (w1 ++ w2) b := by
  intro rest
  simp only [P.bind, List.append_assoc, h1 (w2 ++ rest), h2 rest]

theorem bind_eq {α β} (p : P α) (f : α → P β) : (p >>= f) = P.bind p f := rfl
theorem pure_eq {α} (a : α) : (Pure.pure a : P α) = P.pure a := rfl

@[simp] theorem u8_cons (b : UInt8) (r : Bytes) : u8 (b :: r) = some (b, r) := rfl

@[simp] theorem u16be_put (v : UInt16) (r : Bytes) :
    u16be ((v >>> 8).toUInt8 :: v.toUInt8 :: r) = some (v, r) := by
  have := getU16be_put v
  simp only [putU16be] at this
  simp only [u16be, this, Option.map]

@[simp] theorem u32be_put (v : UInt32) (r : Bytes) :
    u32be ((v >>> 24).toUInt8 :: (v >>> 16).toUInt8 :: (v >>> 8).toUInt8 :: v.toUInt8 :: r)
      = some (v, r) := by
  have := getU32be_put v
  simp only [putU32be] at this
  simp only [u32be, this, Option.map]

theorem reads_u8 (b : UInt8) : Reads u8 [b] b := fun _ => rfl
theorem reads_u16be (v : UInt16) : Reads u16be (putU16be v) v := fun r => by
  simp only [putU16be, List.cons_append, List.nil_append, u16be_put]
theorem reads_u32be (v : UInt32) : Reads u32be (putU32be v) v := fun r => by
  simp only [putU32be, List.cons_append, List.nil_append, u32be_put]

theorem reads_skip (w : Bytes) : Reads (skip w.length) w () := fun r => by
  simp only [skip, List.drop_left]

theorem reads_magic (m : Bytes) : Reads (magic m) m () := fun r => by
  simp only [magic, List.take_left, List.drop_left, if_true]

theorem reads_tryMap {α β} {p : P α} {f : α → Option β} {w : Bytes} {a : α} {b : β}
    (h : Reads p w a) (hf : f a = some b) : Reads (tryMap p f) w b := by
  intro rest
  simp only [tryMap, P.bind, h rest, hf, P.pure]

/-- `count` over the encodings of a list reads the list back -/
theorem reads_count {α β} {p : P α} {enc : β → Bytes} {dec : β → α}
    (h : ∀ x, Reads p (enc x) (dec x)) (xs : List β) :
    Reads (count p xs.length) (xs.map enc).flatten (xs.map dec) := by
  induction xs with
  | nil => exact Reads.pure []
  | cons x xs ih =>
    simp only [List.length_cons, count, List.map_cons, List.flatten_cons]
    refine Reads.bind (h x) ?_
    have := Reads.bind (f := fun as => P.pure (dec x :: as)) ih (Reads.pure _)
    simpa only [List.append_nil] using this

end Physis.ParserBE
