import PhysisModel.Base.Bytes
/-!
A minimal remaining-input parser layer for the big-endian binrw grammars (EXH / EXD):
`P α = Bytes → Option (α × Bytes)`; `none` is binrw's `Err` (`from_existing(..).ok()` ⇒ `None`).
`skip n` mirrors `pad_before` / `pad_after` on a `Cursor`: seeking past the end succeeds and the
next read fails, which is exactly what `List.drop` on a short list followed by a read gives.
The `Reads` relation and its lemmas are in `Base/CodecBE.lean` (not linked into the driver).
-/
namespace Physis.ParserBE
open Physis

abbrev P (α : Type) := Bytes → Option (α × Bytes)

@[inline] def P.pure {α} (a : α) : P α := fun bs => some (a, bs)
@[inline] def P.bind {α β} (p : P α) (f : α → P β) : P β := fun bs =>
  match p bs with
  | some (a, rest) => f a rest
  | none => none

instance : Monad P where
  pure := P.pure
  bind := P.bind

def fail {α} : P α := fun _ => none

def u8 : P UInt8
  | b :: r => some (b, r)
  | [] => none

def u16be : P UInt16
  | a :: b :: r => (getU16be [a, b]).map (·, r)
  | _ => none

def u32be : P UInt32
  | a :: b :: c :: d :: r => (getU32be [a, b, c, d]).map (·, r)
  | _ => none

/-- `pad_before = n` / `pad_after = n` -/
def skip (n : Nat) : P Unit := fun bs => some ((), bs.drop n)

/-- `#[brw(magic = b"....")]` -/
def magic (m : Bytes) : P Unit := fun bs =>
  if bs.take m.length = m then some ((), bs.drop m.length) else none

/-- `#[br(count = n)]` on a `Vec` of structs: `n` elements, any failure fails the whole read -/
def count {α} (p : P α) : Nat → P (List α)
  | 0 => P.pure []
  | n + 1 => P.bind p (fun a => P.bind (count p n) (fun as => P.pure (a :: as)))

/-- `#[brw(repr(..))]` enum: the raw value is read, an unknown discriminant is an error -/
def tryMap {α β} (p : P α) (f : α → Option β) : P β :=
  P.bind p (fun a => match f a with | some b => P.pure b | none => fail)

end Physis.ParserBE
