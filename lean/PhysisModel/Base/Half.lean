/-!
IEEE-754 binary16 → binary32 widening on bit patterns (`half::f16::to_f32`), written for C14
(colour tables of materials).  Lean's `Float32` is opaque to the kernel, hence a bit-level
definition; it follows the portable fallback of the `half` crate (`f16_to_f32_fallback`) branch
by branch and is compared with the compiled `f16::to_f32` on **all 65 536 patterns on every run**
of `./check C14` (ops `half` and the colour-table sweep of `harness/src/c14.rs`).
No imports: linked into the driver executable.
-/
namespace Physis

/-- index of the highest set bit of a non-zero 10-bit mantissa (`15 - leading_zeros_u16(m)`) -/
def halfHiBit (m : UInt32) : UInt32 :=
  if m ≥ 512 then 9 else if m ≥ 256 then 8 else if m ≥ 128 then 7 else if m ≥ 64 then 6
  else if m ≥ 32 then 5 else if m ≥ 16 then 4 else if m ≥ 8 then 3 else if m ≥ 4 then 2
  else if m ≥ 2 then 1 else 0

/-- `f16::from_bits(i).to_f32().to_bits()` -/
def halfToF32 (i : UInt16) : UInt32 :=
  -- signed zero
  if i &&& 0x7FFF == 0 then i.toUInt32 <<< 16 else
  let halfSign : UInt32 := (i &&& 0x8000).toUInt32
  let halfExp : UInt32 := (i &&& 0x7C00).toUInt32
  let halfMan : UInt32 := (i &&& 0x03FF).toUInt32
  -- infinity / NaN (NaN is quieted, payload kept)
  if halfExp == 0x7C00 then
    if halfMan == 0 then (halfSign <<< 16) ||| (0x7F800000 : UInt32)
    else (halfSign <<< 16) ||| (0x7FC00000 : UInt32) ||| (halfMan <<< 13)
  else
  let sign : UInt32 := halfSign <<< 16
  -- subnormal half: normalise
  if halfExp == 0 then
    let e : UInt32 := 9 - halfHiBit halfMan          -- leading_zeros_u16(half_man) - 6
    let exp : UInt32 := (127 - 15 - e) <<< 23
    let man : UInt32 := (halfMan <<< (14 + e)) &&& 0x7FFFFF
    sign ||| exp ||| man
  else
  -- normal: re-bias the exponent (−15 + 127), widen the mantissa
  let exp : UInt32 := ((halfExp >>> 10) + 112) <<< 23
  let man : UInt32 := halfMan <<< 13
  sign ||| exp ||| man

end Physis
