import PhysisModel.Base.Bytes
/-!
# Fault-tracking results for the asset / archive side (C18)

`Res α` is the result of running a piece of Rust code in the model:

* `out = ok a`      — the code produced a value;
* `out = fail eof`  — the *ordinary* failure (`None`, `Err(_)`); `eof` records whether a binrw
                      error would answer `is_eof()` (only `until_eof` looks at it);
* `out = fault f`   — the code **panicked / aborted** (index out of range, slice out of range,
                      arithmetic overflow in a debug build, `unwrap` on `None`/`Err`, explicit
                      `panic!`, capacity overflow, fuel exhausted = non-termination);
* `peak`            — the largest single heap request (bytes) made so far through an *explicit,
                      input-sized* allocation (`vec![0; n]`, `Vec::with_capacity(n)`, binrw's
                      `Vec<u8>` `reserve_exact(count)`).  Collections that grow element by element
                      are not recorded here: they are bounded by the work done.

`Good B r` = "no fault and every recorded request ≤ B".  `bind` preserves it; the property
theorems instantiate `B` with `budget |input| = 64·|input| + 2^24`, the threshold the harness'
counting allocator enforces (`harness/src/alloc.rs`).

(The user-file side, C17, has its own `Base/Fault.lean`; the two are to be unified by the lead.)
-/
namespace Physis.A

inductive Fault
  | index      -- `x[i]` out of range
  | slice      -- `x[a..b]` out of range / not on a char boundary
  | overflow   -- checked arithmetic in a debug build (`+ - * <<`), `capacity overflow`
  | unwrap     -- `unwrap` / `expect` on `None` / `Err`
  | utf8       -- `String::from_utf8(..).unwrap()`
  | explicit   -- `panic!()`, `unreachable!()`, `assert!`
  | fuel       -- the model ran out of fuel: the Rust loop does not terminate / recursion too deep
  deriving Repr, DecidableEq, Inhabited

inductive Out (α : Type)
  | ok (a : α)
  | fail (eof : Bool)
  | fault (f : Fault)
  deriving Repr, Inhabited

structure Res (α : Type) where
  out : Out α
  peak : Nat := 0
  deriving Repr, Inhabited

namespace Res
variable {α β : Type}

@[inline] def ok (a : α) : Res α := ⟨.ok a, 0⟩
/-- ordinary failure that is not an end-of-input error -/
@[inline] def fail : Res α := ⟨.fail false, 0⟩
/-- ordinary failure caused by running out of input (`UnexpectedEof`) -/
@[inline] def eof : Res α := ⟨.fail true, 0⟩
@[inline] def panic (f : Fault) : Res α := ⟨.fault f, 0⟩

@[inline] def bind (r : Res α) (f : α → Res β) : Res β :=
  match r.out with
  | .ok a => let s := f a; ⟨s.out, max r.peak s.peak⟩
  | .fail e => ⟨.fail e, r.peak⟩
  | .fault x => ⟨.fault x, r.peak⟩

instance : Monad Res where
  pure := ok
  bind := bind

/-- an explicit heap request of `n` bytes -/
@[inline] def alloc (n : Nat) : Res Unit := ⟨.ok (), n⟩

/-- `if !c { return None }` -/
@[inline] def guard (c : Bool) : Res Unit := if c then ok () else fail
/-- `assert!(c)` / an index check: panics with `f` when `c` is false -/
@[inline] def require (c : Bool) (f : Fault) : Res Unit := if c then ok () else panic f
/-- `x?` on an `Option` -/
@[inline] def ofOption : Option α → Res α
  | some a => ok a
  | Option.none => fail
/-- `x.unwrap()` on an `Option` -/
@[inline] def unwrap : Option α → Res α
  | some a => ok a
  | Option.none => panic .unwrap

/-- `.ok()` / `catch`: an ordinary failure becomes a value, a fault stays a fault -/
@[inline] def attempt (r : Res α) : Res (Option α) :=
  match r.out with
  | .ok a => ⟨.ok (some a), r.peak⟩
  | .fail _ => ⟨.ok Option.none, r.peak⟩
  | .fault f => ⟨.fault f, r.peak⟩

def isFault (r : Res α) : Bool := match r.out with | .fault _ => true | _ => false
def isOk (r : Res α) : Bool := match r.out with | .ok _ => true | _ => false

/-- the outcome class printed by the driver -/
def cls (r : Res α) : String :=
  match r.out with
  | .ok _ => "some"
  | .fail _ => "none"
  | .fault f => "fault:" ++ (reprStr f)

end Res

/-- the property's allocation budget: "memory in proportion to the input" -/
def budget (inputLen : Nat) : Nat := 64 * inputLen + 16777216

/-- `r` panicked / aborted -/
def faults {α : Type} (r : Res α) : Prop := ∃ f, r.out = .fault f

/-- no fault, and every explicit allocation request is at most `B` bytes -/
def Good {α : Type} (B : Nat) (r : Res α) : Prop := ¬ faults r ∧ r.peak ≤ B

/-! ## Checked arithmetic (Rust debug build: overflow panics) and the checked_* forms -/

def U16MAX : Nat := 65535
def U32MAX : Nat := 4294967295
def U64MAX : Nat := 18446744073709551615
/-- `usize::MAX` on the 64-bit targets the harness runs on -/
def USIZEMAX : Nat := U64MAX
/-- `isize::MAX`: the largest allocation `Vec` accepts before `capacity overflow` -/
def ISIZEMAX : Nat := 9223372036854775807

/-- `a + b` in an unsigned type with maximum `m` (panics on overflow in a debug build) -/
@[inline] def addC (m a b : Nat) : Res Nat := if a + b ≤ m then .ok (a + b) else .panic .overflow
@[inline] def subC (a b : Nat) : Res Nat := if b ≤ a then .ok (a - b) else .panic .overflow
@[inline] def mulC (m a b : Nat) : Res Nat := if a * b ≤ m then .ok (a * b) else .panic .overflow
/-- `a.checked_add(b)?` -/
@[inline] def addQ (m a b : Nat) : Res Nat := if a + b ≤ m then .ok (a + b) else .fail
@[inline] def subQ (a b : Nat) : Res Nat := if b ≤ a then .ok (a - b) else .fail
@[inline] def mulQ (m a b : Nat) : Res Nat := if a * b ≤ m then .ok (a * b) else .fail

/-- `i32 as u64` / `as usize`: sign extension -/
def i32AsU64 (v : UInt32) : Nat := if v.toNat < 2147483648 then v.toNat else v.toNat + (U64MAX + 1 - 4294967296)
/-- value of an `i32` bit pattern -/
def i32Val (v : UInt32) : Int := if v.toNat < 2147483648 then v.toNat else (v.toNat : Int) - 4294967296
def i16Val (v : UInt16) : Int := if v.toNat < 32768 then v.toNat else (v.toNat : Int) - 65536
def i16AsU64 (v : UInt16) : Nat := if v.toNat < 32768 then v.toNat else v.toNat + (U64MAX + 1 - 65536)

/-- `vec![0u8; n]`, `Vec::with_capacity(n)` with element size `sz`: `capacity overflow` panic past
`isize::MAX`, otherwise a request of `n·sz` bytes -/
@[inline] def vecAlloc (n sz : Nat) : Res Unit :=
  if n * sz > ISIZEMAX then .panic .overflow else .alloc (n * sz)

/-! ## slicing / indexing with Rust's panics -/

@[inline] def indexF {α : Type} (l : List α) (i : Nat) : Res α :=
  match l[i]? with
  | some a => .ok a
  | none => .panic .index

/-- `&x[a..b]` -/
@[inline] def sliceF {α : Type} (l : List α) (a b : Nat) : Res (List α) :=
  if a ≤ b ∧ b ≤ l.length then .ok ((l.drop a).take (b - a)) else .panic .slice

/-- `&x[a..]` -/
@[inline] def sliceFromF {α : Type} (l : List α) (a : Nat) : Res (List α) :=
  if a ≤ l.length then .ok (l.drop a) else .panic .slice

/-! ## UTF-8 validity exactly as `core::str::from_utf8` decides it -/

namespace Utf8

def cont (b : UInt8) : Bool := 0x80 ≤ b && b ≤ 0xBF

/-- Rust's validation automaton (`core::str::validations::run_utf8_validation`):
rejects overlong forms, surrogates and code points above U+10FFFF. -/
def valid : Bytes → Bool
  | [] => true
  | b0 :: rest =>
    if b0 < 0x80 then valid rest
    else if 0xC2 ≤ b0 && b0 ≤ 0xDF then
      match rest with
      | b1 :: r => cont b1 && valid r
      | _ => false
    else if b0 == 0xE0 then
      match rest with
      | b1 :: b2 :: r => (0xA0 ≤ b1 && b1 ≤ 0xBF) && cont b2 && valid r
      | _ => false
    else if (0xE1 ≤ b0 && b0 ≤ 0xEC) || b0 == 0xEE || b0 == 0xEF then
      match rest with
      | b1 :: b2 :: r => cont b1 && cont b2 && valid r
      | _ => false
    else if b0 == 0xED then
      match rest with
      | b1 :: b2 :: r => (0x80 ≤ b1 && b1 ≤ 0x9F) && cont b2 && valid r
      | _ => false
    else if b0 == 0xF0 then
      match rest with
      | b1 :: b2 :: b3 :: r => (0x90 ≤ b1 && b1 ≤ 0xBF) && cont b2 && cont b3 && valid r
      | _ => false
    else if 0xF1 ≤ b0 && b0 ≤ 0xF3 then
      match rest with
      | b1 :: b2 :: b3 :: r => cont b1 && cont b2 && cont b3 && valid r
      | _ => false
    else if b0 == 0xF4 then
      match rest with
      | b1 :: b2 :: b3 :: r => (0x80 ≤ b1 && b1 ≤ 0x8F) && cont b2 && cont b3 && valid r
      | _ => false
    else false

end Utf8

end Physis.A
