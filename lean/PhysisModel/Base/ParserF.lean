import PhysisModel.Base.Fault
/-!
# Fault-tracking cursor monad with the binrw 0.14 primitives used by Physis (C17 / C18)

`P α` reads from a fixed input `inp` with a cursor `Cur`; the cursor may sit past the end of the
input (`Cursor<&[u8]>` / `File` seek semantics: seeking past the end succeeds, the next read hits
EOF).  Results are `M` values: `ok`, ordinary `fail` (binrw `Err`), or `fault` (panic), plus the
allocation high-water mark.

The cursor carries the *remaining* bytes so that sequential reads are O(1) on lists.

What is encoded here once, from reading binrw 0.14.2 (`src/helpers.rs` `count_with`,
`src/strings.rs`, `binrw_derive/src/binrw/codegen`):
* integers: `read_exact` of the width, EOF ⇒ `Err`;
* `magic`: read the magic's type, compare, mismatch ⇒ `Err`;
* `pad_before/after = n`: `seek(Current(n))`, never fails on a cursor;
* `pad_size_to = n`: after the field, if fewer than `n` bytes were consumed seek to `start + n`
  (a field that consumed *more* is left alone);
* `count = e`: `usize::try_from(e)` (failure ⇒ `Err`), then
  - `Vec<u8>`: **`reserve_exact(n)` up front**, then `take(n).read_to_end` (`vecU8`);
  - `Vec<iN/uN>` (N > 8): grows in chunks while reading (`vecU32le`);
  - other element types: `repeat_with(read).take(n).collect::<Result<Vec<_>,_>>()` – lazy;
* `NullString`: bytes up to the first NUL, EOF ⇒ `Err`;
* enums with per-variant magic: variants are tried in order, the position is restored between
  attempts, a *panic* inside an attempt is still a panic (`orElse`);
* `restore_position`.

Generic lemmas (`SafeP.*`): every primitive is fault-free and allocation-bounded; `bind`
preserves both.  A reader built only from primitives is therefore total *by construction*; user
closures (`from_utf8(x).unwrap()`, `x[0..4]`) are the only places a per-format proof is needed.
-/
namespace Physis

structure Cur where
  rest : Bytes
  pos : Nat

def P (α : Type) := Bytes → Cur → M (α × Cur)

namespace P

@[inline] def pure' (a : α) : P α := fun _ c => M.pure' (a, c)
@[inline] def bind' (p : P α) (f : α → P β) : P β :=
  fun inp c => M.bind' (p inp c) (fun r => f r.1 inp r.2)

instance : Monad P where
  pure := pure'
  bind := bind'

@[inline] def lift (m : M α) : P α := fun _ c => M.bind' m (fun a => M.pure' (a, c))
@[inline] def fail : P α := fun _ _ => M.fail
@[inline] def fault (f : Fault) : P α := fun _ _ => M.fault f
@[inline] def alloc (n : Nat) : P Unit := lift (M.alloc n)
@[inline] def guard (c : Bool) : P Unit := if c then pure' () else fail
@[inline] def ofOption : Option α → P α | some a => pure' a | none => fail

/-- run from the start of `inp` -/
@[inline] def run (p : P α) (inp : Bytes) : M α :=
  M.bind' (p inp ⟨inp, 0⟩) (fun r => M.pure' r.1)

/-- `stream_position()` -/
@[inline] def getPos : P Nat := fun _ c => M.pure' (c.pos, c)
/-- the whole input (`buffer` is still in scope in the Rust code) -/
@[inline] def input : P Bytes := fun inp c => M.pure' (inp, c)
/-- bytes left (0 when the cursor is past the end) -/
@[inline] def remaining : P Nat := fun _ c => M.pure' (c.rest.length, c)

/-- `seek(SeekFrom::Start(n))` -/
@[inline] def seekStart (n : Nat) : P Unit := fun inp _ => M.pure' ((), ⟨inp.drop n, n⟩)
/-- `seek(SeekFrom::Current(n))`, `n ≥ 0` (padding) -/
@[inline] def skip (n : Nat) : P Unit := fun _ c => M.pure' ((), ⟨c.rest.drop n, c.pos + n⟩)
/-- `seek(SeekFrom::Current(-n))`; a negative resulting position is an I/O error -/
@[inline] def back (n : Nat) : P Unit := fun inp c =>
  if n ≤ c.pos then M.pure' ((), ⟨inp.drop (c.pos - n), c.pos - n⟩) else M.fail

/-- `read_exact` of `n` bytes (into a fixed-size buffer: no heap request) -/
@[inline] def take (n : Nat) : P Bytes := fun _ c =>
  let (a, r) := c.rest.splitAt n
  if a.length = n then M.pure' (a, ⟨r, c.pos + n⟩) else M.fail

@[inline] def u8 : P UInt8 := fun _ c =>
  match c.rest with
  | [] => M.fail
  | x :: r => M.pure' (x, ⟨r, c.pos + 1⟩)

@[inline] def u16le : P UInt16 := fun _ c =>
  match c.rest with
  | a :: b :: r => M.pure' (a.toUInt16 ||| (b.toUInt16 <<< 8), ⟨r, c.pos + 2⟩)
  | _ => M.fail
@[inline] def u16be : P UInt16 := fun _ c =>
  match c.rest with
  | a :: b :: r => M.pure' (b.toUInt16 ||| (a.toUInt16 <<< 8), ⟨r, c.pos + 2⟩)
  | _ => M.fail
@[inline] def u32le : P UInt32 := fun _ c =>
  match c.rest with
  | a :: b :: c' :: d :: r =>
    M.pure' (a.toUInt32 ||| (b.toUInt32 <<< 8) ||| (c'.toUInt32 <<< 16) ||| (d.toUInt32 <<< 24), ⟨r, c.pos + 4⟩)
  | _ => M.fail
@[inline] def u32be : P UInt32 := fun _ c =>
  match c.rest with
  | a :: b :: c' :: d :: r =>
    M.pure' (d.toUInt32 ||| (c'.toUInt32 <<< 8) ||| (b.toUInt32 <<< 16) ||| (a.toUInt32 <<< 24), ⟨r, c.pos + 4⟩)
  | _ => M.fail
@[inline] def u64le : P UInt64 := fun _ c =>
  match c.rest with
  | a :: b :: c' :: d :: e :: f :: g :: h :: r =>
    M.pure' (a.toUInt64 ||| (b.toUInt64 <<< 8) ||| (c'.toUInt64 <<< 16) ||| (d.toUInt64 <<< 24) |||
      (e.toUInt64 <<< 32) ||| (f.toUInt64 <<< 40) ||| (g.toUInt64 <<< 48) ||| (h.toUInt64 <<< 56), ⟨r, c.pos + 8⟩)
  | _ => M.fail
@[inline] def u64be : P UInt64 := fun _ c =>
  match c.rest with
  | a :: b :: c' :: d :: e :: f :: g :: h :: r =>
    M.pure' (h.toUInt64 ||| (g.toUInt64 <<< 8) ||| (f.toUInt64 <<< 16) ||| (e.toUInt64 <<< 24) |||
      (d.toUInt64 <<< 32) ||| (c'.toUInt64 <<< 40) ||| (b.toUInt64 <<< 48) ||| (a.toUInt64 <<< 56), ⟨r, c.pos + 8⟩)
  | _ => M.fail

/-- `#[brw(magic = ..)]` -/
@[inline] def magic (m : Bytes) : P Unit := fun inp c =>
  M.bind' (take m.length inp c) (fun r => if r.1 == m then M.pure' ((), r.2) else M.fail)

/-- `#[br(count = n)] Vec<u8>`: **reserves `n` bytes up front**, then reads; a request above
`isize::MAX` panics (`capacity overflow`). -/
@[inline] def vecU8 (n : Nat) : P Bytes := fun inp c =>
  if n ≥ 2 ^ 63 then M.fault .capacity else
  M.bind' (M.alloc n) (fun _ => take n inp c)

/-- reading at most `n` bytes *incrementally* (`reader.take(n).read_to_end(&mut v)` without a
reservation): the buffer grows geometrically with the bytes actually present. -/
@[inline] def vecU8Bounded (n : Nat) : P Bytes := fun inp c =>
  let (a, r) := c.rest.splitAt n
  M.bind' (M.alloc (2 * a.length + 32)) (fun _ =>
    if a.length = n then M.pure' (a, ⟨r, c.pos + n⟩) else M.fail)

def u32sOfBytesLE : Bytes → List UInt32
  | a :: b :: c :: d :: r =>
    (a.toUInt32 ||| (b.toUInt32 <<< 8) ||| (c.toUInt32 <<< 16) ||| (d.toUInt32 <<< 24)) :: u32sOfBytesLE r
  | _ => []

/-- tail-recursive version used at run time -/
def u32sOfBytesLEAcc : Bytes → Array UInt32 → Array UInt32
  | a :: b :: c :: d :: r, acc =>
    u32sOfBytesLEAcc r (acc.push (a.toUInt32 ||| (b.toUInt32 <<< 8) ||| (c.toUInt32 <<< 16) ||| (d.toUInt32 <<< 24)))
  | _, acc => acc

/-- `#[br(count = n)] Vec<u32>` (little endian): binrw grows the vector in chunks while reading
(`vec_fast_int`), so the heap request is bounded by twice the bytes actually read (+ one chunk);
all `4·n` bytes must be present. -/
@[inline] def vecU32le (n : Nat) : P (Array UInt32) := fun _ c =>
  let (a, r) := c.rest.splitAt (4 * n)
  M.bind' (M.alloc (2 * a.length + 32)) (fun _ =>
    if a.length = 4 * n then M.pure' (u32sOfBytesLEAcc a #[], ⟨r, c.pos + 4 * n⟩) else M.fail)

/-- `#[br(count = n)] Vec<T>` for a struct `T`: lazy collection, no up-front reservation -/
def count (n : Nat) (p : P α) : P (List α) :=
  match n with
  | 0 => pure' []
  | k + 1 => bind' p (fun a => bind' (count k p) (fun as => pure' (a :: as)))

/-- bytes up to (not including) the first NUL of `l`, and what follows the NUL -/
def splitNul : Bytes → Bytes → Option (Bytes × Bytes × Nat)
  | [], _ => none
  | x :: r, acc => if x = 0 then some (acc.reverse, r, acc.length + 1) else splitNul r (x :: acc)

/-- `binrw::NullString` -/
@[inline] def nullString : P Bytes := fun _ c =>
  match splitNul c.rest [] with
  | none => M.fail
  | some (s, r, k) => M.bind' (M.alloc (2 * s.length + 8)) (fun _ => M.pure' (s, ⟨r, c.pos + k⟩))

/-- `#[brw(pad_size_to = n)]` -/
@[inline] def padSizeTo (n : Nat) (p : P α) : P α := fun inp c =>
  M.bind' (p inp c) (fun r =>
    if r.2.pos - c.pos < n then M.pure' (r.1, ⟨c.rest.drop n, c.pos + n⟩) else M.pure' r)

/-- `#[br(restore_position)]` -/
@[inline] def restorePosition (p : P α) : P α := fun inp c =>
  M.bind' (p inp c) (fun r => M.pure' (r.1, c))

/-- enum variants: try `p`; on ordinary failure rewind and try `q`.  A fault in `p` propagates. -/
@[inline] def orElse (p q : P α) : P α := fun inp c =>
  match p inp c with
  | ⟨.ok a, k⟩ => ⟨.ok a, k⟩
  | ⟨.fail, k⟩ => let o := q inp c; ⟨o.res, max k o.peak⟩
  | ⟨.fault e, k⟩ => ⟨.fault e, k⟩

/-- `.ok()` on a sub-read, continuing either way (the cursor stays where the failed read left it
is **not** modelled: callers re-seek before the next read) -/
@[inline] def try? (p : P α) : P (Option α) := fun inp c =>
  match p inp c with
  | ⟨.ok (a, c'), k⟩ => ⟨.ok (some a, c'), k⟩
  | ⟨.fail, k⟩ => ⟨.ok (none, c), k⟩
  | ⟨.fault e, k⟩ => ⟨.fault e, k⟩

end P

/-! ### the judgement for parsers -/

/-- a cursor never holds more than the input (invariant of every primitive) -/
def Cur.Within (inp : Bytes) (c : Cur) : Prop := c.rest.length ≤ inp.length

/-- on input `inp`, from every cursor (within the input), `p` is `Safe`, returns only values in
`Q`, and leaves a cursor within the input -/
def SafeP (B : Nat) (inp : Bytes) (p : P α) (Q : α → Prop) : Prop :=
  ∀ c : Cur, c.Within inp → Safe B (p inp c) (fun r => Q r.1 ∧ r.2.Within inp)

namespace SafeP
variable {B : Nat} {inp : Bytes}

theorem pure {a : α} {Q : α → Prop} (h : Q a) : SafeP B inp (Pure.pure a : P α) Q :=
  fun _ hc => Safe.pure' ⟨h, hc⟩
theorem pure' {a : α} {Q : α → Prop} (h : Q a) : SafeP B inp (P.pure' a) Q :=
  fun _ hc => Safe.pure' ⟨h, hc⟩
theorem fail {Q : α → Prop} : SafeP B inp (P.fail : P α) Q := fun _ _ => Safe.fail

theorem bind {p : P α} {f : α → P β} {Q : α → Prop} {R : β → Prop}
    (hp : SafeP B inp p Q) (hf : ∀ a, Q a → SafeP B inp (f a) R) : SafeP B inp (p >>= f) R :=
  fun c hc => Safe.bind' (hp c hc) (fun r hr => hf r.1 hr.1 r.2 hr.2)
theorem bind' {p : P α} {f : α → P β} {Q : α → Prop} {R : β → Prop}
    (hp : SafeP B inp p Q) (hf : ∀ a, Q a → SafeP B inp (f a) R) : SafeP B inp (P.bind' p f) R :=
  bind hp hf

theorem mono {p : P α} {Q Q' : α → Prop} (h : SafeP B inp p Q) (hq : ∀ a, Q a → Q' a) :
    SafeP B inp p Q' := fun c hc => Safe.mono (h c hc) (fun r hr => ⟨hq r.1 hr.1, hr.2⟩)

theorem triv {p : P α} {Q : α → Prop} (h : SafeP B inp p Q) : SafeP B inp p (fun _ => True) :=
  mono h (fun _ _ => trivial)

theorem lift {m : M α} {Q : α → Prop} (h : Safe B m Q) : SafeP B inp (P.lift m) Q :=
  fun _ hc => Safe.bind' h (fun _ ha => Safe.pure' ⟨ha, hc⟩)

theorem alloc {n : Nat} (h : n ≤ B) : SafeP B inp (P.alloc n) (fun _ => True) :=
  lift (Safe.alloc h)

theorem guard {c : Bool} : SafeP B inp (P.guard c) (fun _ => c = true) := by
  cases c
  · exact fail
  · exact pure' rfl

theorem ofOption {o : Option α} {Q : α → Prop} (h : ∀ a, o = some a → Q a) :
    SafeP B inp (P.ofOption o) Q := by
  cases o with
  | none => exact fail
  | some a => exact pure' (h a rfl)

theorem run {p : P α} {Q : α → Prop} (h : SafeP B inp p Q) : Safe B (p.run inp) Q :=
  Safe.bind' (h ⟨inp, 0⟩ (Nat.le_refl _)) (fun _ hr => Safe.pure' hr.1)

theorem getPos : SafeP B inp P.getPos (fun _ => True) := fun _ hc => Safe.pure' ⟨trivial, hc⟩
theorem input : SafeP B inp P.input (fun r => r = inp) := fun _ hc => Safe.pure' ⟨rfl, hc⟩
theorem remaining : SafeP B inp P.remaining (fun r => r ≤ inp.length) :=
  fun _ hc => Safe.pure' ⟨hc, hc⟩
theorem seekStart {n : Nat} : SafeP B inp (P.seekStart n) (fun _ => True) :=
  fun _ _ => Safe.pure' ⟨trivial, by simp only [Cur.Within, List.length_drop]; omega⟩
theorem skip {n : Nat} : SafeP B inp (P.skip n) (fun _ => True) :=
  fun c hc => Safe.pure' ⟨trivial, by simp only [Cur.Within, List.length_drop] at *; omega⟩
theorem back {n : Nat} : SafeP B inp (P.back n) (fun _ => True) := by
  intro c hc; unfold P.back; split
  · exact Safe.pure' ⟨trivial, by simp only [Cur.Within, List.length_drop]; omega⟩
  · exact Safe.fail

theorem splitAt_within {c : Cur} {n : Nat} (hc : c.Within inp) :
    (c.rest.splitAt n).2.length ≤ inp.length ∧ (c.rest.splitAt n).1.length ≤ inp.length := by
  simp only [Cur.Within, List.splitAt_eq, List.length_drop, List.length_take] at *; omega

theorem take {n : Nat} : SafeP B inp (P.take n) (fun r => r.length = n) := by
  intro c hc; unfold P.take; dsimp only; split
  · next h => exact Safe.pure' ⟨h, (splitAt_within hc).1⟩
  · exact Safe.fail

theorem u8 : SafeP B inp P.u8 (fun _ => True) := by
  intro c hc; unfold P.u8; split
  · exact Safe.fail
  · next h => exact Safe.pure' ⟨trivial, by simp only [Cur.Within, h, List.length_cons] at *; omega⟩
theorem u16le : SafeP B inp P.u16le (fun _ => True) := by
  intro c hc; unfold P.u16le; split
  · next h => exact Safe.pure' ⟨trivial, by simp only [Cur.Within, h, List.length_cons] at *; omega⟩
  · exact Safe.fail
theorem u16be : SafeP B inp P.u16be (fun _ => True) := by
  intro c hc; unfold P.u16be; split
  · next h => exact Safe.pure' ⟨trivial, by simp only [Cur.Within, h, List.length_cons] at *; omega⟩
  · exact Safe.fail
theorem u32le : SafeP B inp P.u32le (fun _ => True) := by
  intro c hc; unfold P.u32le; split
  · next h => exact Safe.pure' ⟨trivial, by simp only [Cur.Within, h, List.length_cons] at *; omega⟩
  · exact Safe.fail
theorem u32be : SafeP B inp P.u32be (fun _ => True) := by
  intro c hc; unfold P.u32be; split
  · next h => exact Safe.pure' ⟨trivial, by simp only [Cur.Within, h, List.length_cons] at *; omega⟩
  · exact Safe.fail
theorem u64le : SafeP B inp P.u64le (fun _ => True) := by
  intro c hc; unfold P.u64le; split
  · next h => exact Safe.pure' ⟨trivial, by simp only [Cur.Within, h, List.length_cons] at *; omega⟩
  · exact Safe.fail
theorem u64be : SafeP B inp P.u64be (fun _ => True) := by
  intro c hc; unfold P.u64be; split
  · next h => exact Safe.pure' ⟨trivial, by simp only [Cur.Within, h, List.length_cons] at *; omega⟩
  · exact Safe.fail

theorem magic {m : Bytes} : SafeP B inp (P.magic m) (fun _ => True) := by
  intro c hc; unfold P.magic
  refine Safe.bind' (take c hc) (fun r hr => ?_)
  split
  · exact Safe.pure' ⟨trivial, hr.2⟩
  · exact Safe.fail

/-- `Vec<u8>` with `count = n`: the up-front reservation is the only obligation -/
theorem vecU8 {n : Nat} (h : n ≤ B) (h63 : n < 2 ^ 63) :
    SafeP B inp (P.vecU8 n) (fun r => r.length = n) := by
  intro c hc; unfold P.vecU8
  have : ¬ n ≥ 2 ^ 63 := by omega
  simp only [this, if_false]
  exact Safe.bind' (Safe.alloc h) (fun _ _ => take c hc)

/-- incremental byte reads never ask for more than twice the input (+32) -/
theorem vecU8Bounded {n : Nat} (hB : 2 * inp.length + 32 ≤ B) :
    SafeP B inp (P.vecU8Bounded n) (fun r => r.length = n) := by
  intro c hc; unfold P.vecU8Bounded; dsimp only
  have hw := splitAt_within (n := n) hc
  refine Safe.bind' (Safe.alloc (by omega)) (fun _ _ => ?_)
  split
  · next h => exact Safe.pure' ⟨h, hw.1⟩
  · exact Safe.fail

theorem vecU32le {n : Nat} (hB : 2 * inp.length + 32 ≤ B) :
    SafeP B inp (P.vecU32le n) (fun _ => True) := by
  intro c hc; unfold P.vecU32le; dsimp only
  have hw := splitAt_within (n := 4 * n) hc
  refine Safe.bind' (Safe.alloc (by omega)) (fun _ _ => ?_)
  split
  · exact Safe.pure' ⟨trivial, hw.1⟩
  · exact Safe.fail

theorem count {n : Nat} {p : P α} {Q : α → Prop} (hp : SafeP B inp p Q) :
    SafeP B inp (P.count n p) (fun l => l.length = n ∧ ∀ a ∈ l, Q a) := by
  induction n with
  | zero => exact pure' ⟨rfl, fun _ h => by cases h⟩
  | succ k ih =>
    unfold P.count
    refine bind' hp (fun a ha => bind' ih (fun as has => pure' ⟨?_, ?_⟩))
    · simp only [List.length_cons, has.1]
    · intro x hx
      cases hx with
      | head => exact ha
      | tail _ h => exact has.2 x h

theorem splitNul_spec : ∀ (l acc : Bytes) s r k, P.splitNul l acc = some (s, r, k) →
    s.length + r.length < acc.length + l.length + 1 ∧ s.length ≤ acc.length + l.length := by
  intro l
  induction l with
  | nil => intro acc s r k h; cases h
  | cons x t ih =>
    intro acc s r k h
    unfold P.splitNul at h
    split at h
    · cases h; simp only [List.length_reverse, List.length_cons]; omega
    · have := ih (x :: acc) s r k h
      simp only [List.length_cons] at *; omega

theorem nullString (hB : 2 * inp.length + 8 ≤ B) :
    SafeP B inp P.nullString (fun r => r.length ≤ inp.length) := by
  intro c hc; unfold P.nullString
  split
  · exact Safe.fail
  · next s r k h =>
    have := splitNul_spec _ _ _ _ _ h
    simp only [Cur.Within, List.length_nil] at *
    refine Safe.bind' (Safe.alloc (by omega)) (fun _ _ => Safe.pure' ⟨?_, ?_⟩)
    · show s.length ≤ inp.length; omega
    · show r.length ≤ inp.length; omega

theorem padSizeTo {n : Nat} {p : P α} {Q : α → Prop} (hp : SafeP B inp p Q) :
    SafeP B inp (P.padSizeTo n p) Q := by
  intro c hc; unfold P.padSizeTo
  refine Safe.bind' (hp c hc) (fun r hr => ?_)
  split
  · exact Safe.pure' ⟨hr.1, by simp only [Cur.Within, List.length_drop] at *; omega⟩
  · exact Safe.pure' hr

theorem restorePosition {p : P α} {Q : α → Prop} (hp : SafeP B inp p Q) :
    SafeP B inp (P.restorePosition p) Q := by
  intro c hc; unfold P.restorePosition
  exact Safe.bind' (hp c hc) (fun r hr => Safe.pure' ⟨hr.1, hc⟩)

theorem orElse {p q : P α} {Q : α → Prop} (hp : SafeP B inp p Q) (hq : SafeP B inp q Q) :
    SafeP B inp (P.orElse p q) Q := by
  intro c hc; unfold P.orElse
  have h1 := hp c hc
  have h2 := hq c hc
  split
  · next a k he => rw [he] at h1; exact h1
  · next k he =>
    rw [he] at h1
    exact ⟨Nat.max_le.mpr ⟨h1.1, h2.1⟩, h2.2⟩
  · next e k he => rw [he] at h1; exact h1.2.elim

theorem try? {p : P α} {Q : α → Prop} (hp : SafeP B inp p Q) :
    SafeP B inp (P.try? p) (fun o => ∀ a, o = some a → Q a) := by
  intro c hc; unfold P.try?
  have h1 := hp c hc
  split
  · next a c' k he =>
    rw [he] at h1
    exact ⟨h1.1, ⟨fun b hb => by cases hb; exact h1.2.1, h1.2.2⟩⟩
  · next k he =>
    rw [he] at h1
    exact ⟨h1.1, ⟨fun b hb => (by cases hb), hc⟩⟩
  · next e k he => rw [he] at h1; exact h1.2.elim

end SafeP

/-! ### forward-only parsers: the judgement with progress

`SafePD B inp k p Q`: as `SafeP`, and on success the cursor has advanced by at least `k` bytes
(`rest` got shorter by ≥ `k`).  Everything except absolute / backward seeks is forward-only; the
chunk loop of `ZiPatch::apply` needs this to show that its fuel is never exhausted (every chunk
consumes at least its 4-byte size field). -/
def SafePD (B : Nat) (inp : Bytes) (k : Nat) (p : P α) (Q : α → Prop) : Prop :=
  ∀ c : Cur, c.Within inp → Safe B (p inp c) (fun r => Q r.1 ∧ r.2.rest.length + k ≤ c.rest.length)

namespace SafePD
variable {B : Nat} {inp : Bytes}

theorem toSafeP {k : Nat} {p : P α} {Q : α → Prop} (h : SafePD B inp k p Q) : SafeP B inp p Q :=
  fun c hc => Safe.mono (h c hc) (fun r hr => ⟨hr.1, by simp only [Cur.Within] at *; omega⟩)

theorem weaken {k k' : Nat} {p : P α} {Q : α → Prop} (h : SafePD B inp k p Q) (hk : k' ≤ k) :
    SafePD B inp k' p Q :=
  fun c hc => Safe.mono (h c hc) (fun r hr => ⟨hr.1, by omega⟩)

theorem pure {a : α} {Q : α → Prop} (h : Q a) : SafePD B inp 0 (Pure.pure a : P α) Q :=
  fun _ _ => Safe.pure' ⟨h, Nat.le_refl _⟩
theorem fail {k : Nat} {Q : α → Prop} : SafePD B inp k (P.fail : P α) Q := fun _ _ => Safe.fail

/-- progress adds up; the common case is `k₂ = 0` -/
theorem bindK {k : Nat} {p : P α} {f : α → P β} {Q : α → Prop} {R : β → Prop}
    (hp : SafePD B inp k p Q) (hf : ∀ a, Q a → SafePD B inp 0 (f a) R) : SafePD B inp k (p >>= f) R :=
  fun c hc => Safe.bind' (hp c hc) (fun r hr =>
    Safe.mono (hf r.1 hr.1 r.2 (by simp only [Cur.Within] at *; omega)) (fun r' hr' => ⟨hr'.1, by omega⟩))
theorem bind {p : P α} {f : α → P β} {Q : α → Prop} {R : β → Prop}
    (hp : SafePD B inp 0 p Q) (hf : ∀ a, Q a → SafePD B inp 0 (f a) R) : SafePD B inp 0 (p >>= f) R :=
  bindK hp hf

theorem mono {k : Nat} {p : P α} {Q Q' : α → Prop} (h : SafePD B inp k p Q) (hq : ∀ a, Q a → Q' a) :
    SafePD B inp k p Q' := fun c hc => Safe.mono (h c hc) (fun r hr => ⟨hq r.1 hr.1, hr.2⟩)
theorem triv {k : Nat} {p : P α} {Q : α → Prop} (h : SafePD B inp k p Q) : SafePD B inp k p (fun _ => True) :=
  mono h (fun _ _ => trivial)

theorem lift {m : M α} {Q : α → Prop} (h : Safe B m Q) : SafePD B inp 0 (P.lift m) Q :=
  fun _ _ => Safe.bind' h (fun _ ha => Safe.pure' ⟨ha, Nat.le_refl _⟩)
theorem alloc {n : Nat} (h : n ≤ B) : SafePD B inp 0 (P.alloc n) (fun _ => True) := lift (Safe.alloc h)
theorem guard {c : Bool} : SafePD B inp 0 (P.guard c) (fun _ => c = true) := by
  cases c
  · exact fail
  · exact fun _ _ => Safe.pure' ⟨rfl, Nat.le_refl _⟩
theorem ofOption {o : Option α} {Q : α → Prop} (h : ∀ a, o = some a → Q a) :
    SafePD B inp 0 (P.ofOption o) Q := by
  cases o with
  | none => exact fail
  | some a => exact fun _ _ => Safe.pure' ⟨h a rfl, Nat.le_refl _⟩

theorem skip {n : Nat} : SafePD B inp 0 (P.skip n) (fun _ => True) :=
  fun c _ => Safe.pure' ⟨trivial, by simp only [List.length_drop]; omega⟩

theorem take {n : Nat} : SafePD B inp n (P.take n) (fun r => r.length = n) := by
  intro c _; unfold P.take; dsimp only; split
  · next h =>
    refine Safe.pure' ⟨h, ?_⟩
    simp only [List.splitAt_eq, List.length_take, List.length_drop] at *; omega
  · exact Safe.fail

theorem u8 : SafePD B inp 1 P.u8 (fun _ => True) := by
  intro c _; unfold P.u8; split
  · exact Safe.fail
  · next h => exact Safe.pure' ⟨trivial, by simp only [h, List.length_cons]; omega⟩
theorem u16be : SafePD B inp 2 P.u16be (fun _ => True) := by
  intro c _; unfold P.u16be; split
  · next h => exact Safe.pure' ⟨trivial, by simp only [h, List.length_cons]; omega⟩
  · exact Safe.fail
theorem u32be : SafePD B inp 4 P.u32be (fun _ => True) := by
  intro c _; unfold P.u32be; split
  · next h => exact Safe.pure' ⟨trivial, by simp only [h, List.length_cons]; omega⟩
  · exact Safe.fail
theorem u32le : SafePD B inp 4 P.u32le (fun _ => True) := by
  intro c _; unfold P.u32le; split
  · next h => exact Safe.pure' ⟨trivial, by simp only [h, List.length_cons]; omega⟩
  · exact Safe.fail
theorem u64be : SafePD B inp 8 P.u64be (fun _ => True) := by
  intro c _; unfold P.u64be; split
  · next h => exact Safe.pure' ⟨trivial, by simp only [h, List.length_cons]; omega⟩
  · exact Safe.fail
theorem u64le : SafePD B inp 8 P.u64le (fun _ => True) := by
  intro c _; unfold P.u64le; split
  · next h => exact Safe.pure' ⟨trivial, by simp only [h, List.length_cons]; omega⟩
  · exact Safe.fail

theorem vecU8 {n : Nat} (h : n ≤ B) (h63 : n < 2 ^ 63) :
    SafePD B inp n (P.vecU8 n) (fun r => r.length = n) := by
  intro c hc; unfold P.vecU8
  have : ¬ n ≥ 2 ^ 63 := by omega
  simp only [this, if_false]
  exact Safe.bind' (Safe.alloc h) (fun _ _ => take c hc)

theorem vecU8Bounded {n : Nat} (hB : 2 * inp.length + 32 ≤ B) :
    SafePD B inp n (P.vecU8Bounded n) (fun r => r.length = n ∧ n ≤ inp.length) := by
  intro c hc; unfold P.vecU8Bounded; dsimp only
  have hw := SafeP.splitAt_within (n := n) hc
  refine Safe.bind' (Safe.alloc (by omega)) (fun _ _ => ?_)
  split
  · next h =>
    refine Safe.pure' ⟨⟨h, by omega⟩, ?_⟩
    simp only [List.splitAt_eq, List.length_take, List.length_drop] at *; omega
  · exact Safe.fail

theorem padSizeTo {n : Nat} {p : P α} {Q : α → Prop} (hp : SafePD B inp 0 p Q) :
    SafePD B inp 0 (P.padSizeTo n p) Q := by
  intro c hc; unfold P.padSizeTo
  refine Safe.bind' (hp c hc) (fun r hr => ?_)
  split
  · exact Safe.pure' ⟨hr.1, by simp only [List.length_drop]; omega⟩
  · exact Safe.pure' hr

theorem restorePosition {k : Nat} {p : P α} {Q : α → Prop} (hp : SafePD B inp k p Q) :
    SafePD B inp 0 (P.restorePosition p) Q := by
  intro c hc; unfold P.restorePosition
  exact Safe.bind' (hp c hc) (fun r hr => Safe.pure' ⟨hr.1, Nat.le_refl _⟩)

end SafePD

end Physis
