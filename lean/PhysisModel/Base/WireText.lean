import PhysisModel.Base.Bytes
/-!
Rust `str` operations used by the text formats (patch lists) and path handling, on UTF-8 byte
strings: `split(char)`, `split("\r\n")`, `find(&str)`, integer `to_string` / `parse`.
Substring search and splitting on ASCII separators act on the UTF-8 bytes exactly as they act
on the characters, so `Bytes` is a faithful carrier for `String` here.
-/
namespace Physis.WireText

/-- `s.split(sep)` for a one-byte (ASCII) separator; `cur` holds the current piece, reversed -/
def splitByteAux (sep : UInt8) : Bytes → Bytes → List Bytes
  | cur, [] => [cur.reverse]
  | cur, c :: rest =>
    if c = sep then cur.reverse :: splitByteAux sep [] rest else splitByteAux sep (c :: cur) rest

def splitByte (sep : UInt8) (s : Bytes) : List Bytes := splitByteAux sep [] s

/-- `s.split("\r\n")` -/
def splitCRLFAux : Bytes → Bytes → List Bytes
  | cur, [] => [cur.reverse]
  | cur, [c] => [(c :: cur).reverse]
  | cur, a :: b :: rest =>
    if a = 13 ∧ b = 10 then cur.reverse :: splitCRLFAux [] rest
    else splitCRLFAux (a :: cur) (b :: rest)

def splitCRLF (s : Bytes) : List Bytes := splitCRLFAux [] s

def isPrefix : Bytes → Bytes → Bool
  | [], _ => true
  | _ :: _, [] => false
  | a :: p, b :: s => a == b && isPrefix p s

/-- `s.find(pat)`: byte index of the first occurrence -/
def findSub (pat : Bytes) : Bytes → Option Nat
  | [] => if pat.isEmpty then some 0 else none
  | c :: rest =>
    if isPrefix pat (c :: rest) then some 0 else (findSub pat rest).map (· + 1)

/-! ### integers -/

def digit (d : Nat) : UInt8 := UInt8.ofNat (48 + d)

/-- decimal digits of a natural number, most significant first, no leading zero (`0` ↦ "0") -/
def showNat (n : Nat) : Bytes :=
  if _h : n < 10 then [digit n] else showNat (n / 10) ++ [digit (n % 10)]
termination_by n
decreasing_by omega

/-- `i32::to_string` / `i64::to_string` -/
def showInt (i : Int) : Bytes :=
  if i < 0 then 0x2d :: showNat i.natAbs else showNat i.natAbs

/-- the digit loop of `from_str_radix(…, 10)`: `checked_mul(10)` then `checked_add`/`checked_sub`
of the digit, failing on a non-digit and as soon as the magnitude leaves `0..=max` -/
def parseDigits (max : Nat) : Nat → Bytes → Option Nat
  | acc, [] => some acc
  | acc, c :: rest =>
    if 48 ≤ c ∧ c ≤ 57 then
      let v := acc * 10 + (c.toNat - 48)
      if v ≤ max then parseDigits max v rest else none
    else none

/-- `str::parse::<u64>()` -/
def parseU64 (s : Bytes) : Option Nat :=
  match s with
  | [] => none
  | [0x2b] => none
  | [0x2d] => none
  | c :: rest => if c = 0x2b then parseDigits (2 ^ 64 - 1) 0 rest else parseDigits (2 ^ 64 - 1) 0 (c :: rest)

/-- `str::parse::<i64>()` -/
def parseI64 (s : Bytes) : Option Int :=
  match s with
  | [] => none
  | [0x2b] => none
  | [0x2d] => none
  | c :: rest =>
    if c = 0x2b then (parseDigits (2 ^ 63 - 1) 0 rest).map Int.ofNat
    else if c = 0x2d then (parseDigits (2 ^ 63) 0 rest).map (fun n => - Int.ofNat n)
    else (parseDigits (2 ^ 63 - 1) 0 (c :: rest)).map Int.ofNat

end Physis.WireText
