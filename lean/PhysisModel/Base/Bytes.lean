/-
Byte strings and fixed-width little/big-endian codecs shared by every model.
No Mathlib imports: this file is linked into the `physis-model` driver executable.
-/
namespace Physis

abbrev Bytes := List UInt8

namespace Bytes

def hexDigit (n : Nat) : Char :=
  if n < 10 then Char.ofNat (48 + n) else Char.ofNat (87 + n)

def toHex (bs : Bytes) : String :=
  if bs.isEmpty then "-" else
  String.ofList (bs.foldr (fun b acc => hexDigit (b.toNat / 16) :: hexDigit (b.toNat % 16) :: acc) [])

def hexVal (c : Char) : Option Nat :=
  if '0' ≤ c ∧ c ≤ '9' then some (c.toNat - 48)
  else if 'a' ≤ c ∧ c ≤ 'f' then some (c.toNat - 87)
  else if 'A' ≤ c ∧ c ≤ 'F' then some (c.toNat - 55)
  else none

def ofHexChars : List Char → Option Bytes
  | [] => some []
  | [_] => none
  | a :: b :: rest => do
    let x ← hexVal a
    let y ← hexVal b
    let r ← ofHexChars rest
    pure (UInt8.ofNat (x * 16 + y) :: r)

/-- `-` stands for the empty byte string so that no protocol field is ever empty. -/
def ofHex (s : String) : Option Bytes :=
  if s == "-" then some [] else ofHexChars s.toList

/-- tail-recursive hex decoder for large inputs (driver use only) -/
def ofHexFast (s : String) : Option Bytes :=
  if s == "-" then some [] else
  let rec go (cs : List Char) (acc : Array UInt8) : Option (Array UInt8) :=
    match cs with
    | [] => some acc
    | [_] => none
    | a :: b :: rest =>
      match hexVal a, hexVal b with
      | some x, some y => go rest (acc.push (UInt8.ofNat (x * 16 + y)))
      | _, _ => none
  (go s.toList #[]).map Array.toList

def ofString (s : String) : Bytes := s.toUTF8.toList

end Bytes

/-! ### little / big endian writers -/

def putU16le (v : UInt16) : Bytes := [v.toUInt8, (v >>> 8).toUInt8]
def putU16be (v : UInt16) : Bytes := [(v >>> 8).toUInt8, v.toUInt8]
def putU32le (v : UInt32) : Bytes :=
  [v.toUInt8, (v >>> 8).toUInt8, (v >>> 16).toUInt8, (v >>> 24).toUInt8]
def putU32be (v : UInt32) : Bytes :=
  [(v >>> 24).toUInt8, (v >>> 16).toUInt8, (v >>> 8).toUInt8, v.toUInt8]
def putU64le (v : UInt64) : Bytes :=
  [v.toUInt8, (v >>> 8).toUInt8, (v >>> 16).toUInt8, (v >>> 24).toUInt8,
   (v >>> 32).toUInt8, (v >>> 40).toUInt8, (v >>> 48).toUInt8, (v >>> 56).toUInt8]
def putU64be (v : UInt64) : Bytes :=
  [(v >>> 56).toUInt8, (v >>> 48).toUInt8, (v >>> 40).toUInt8, (v >>> 32).toUInt8,
   (v >>> 24).toUInt8, (v >>> 16).toUInt8, (v >>> 8).toUInt8, v.toUInt8]

/-! ### readers on exactly-sized lists -/

def getU16le : Bytes → Option UInt16
  | [a, b] => some (a.toUInt16 ||| (b.toUInt16 <<< 8))
  | _ => none
def getU16be : Bytes → Option UInt16
  | [a, b] => some (b.toUInt16 ||| (a.toUInt16 <<< 8))
  | _ => none
def getU32le : Bytes → Option UInt32
  | [a, b, c, d] => some (a.toUInt32 ||| (b.toUInt32 <<< 8) ||| (c.toUInt32 <<< 16) ||| (d.toUInt32 <<< 24))
  | _ => none
def getU32be : Bytes → Option UInt32
  | [a, b, c, d] => some (d.toUInt32 ||| (c.toUInt32 <<< 8) ||| (b.toUInt32 <<< 16) ||| (a.toUInt32 <<< 24))
  | _ => none
def getU64le : Bytes → Option UInt64
  | [a, b, c, d, e, f, g, h] =>
    some (a.toUInt64 ||| (b.toUInt64 <<< 8) ||| (c.toUInt64 <<< 16) ||| (d.toUInt64 <<< 24) |||
      (e.toUInt64 <<< 32) ||| (f.toUInt64 <<< 40) ||| (g.toUInt64 <<< 48) ||| (h.toUInt64 <<< 56))
  | _ => none
def getU64be : Bytes → Option UInt64
  | [a, b, c, d, e, f, g, h] =>
    some (h.toUInt64 ||| (g.toUInt64 <<< 8) ||| (f.toUInt64 <<< 16) ||| (e.toUInt64 <<< 24) |||
      (d.toUInt64 <<< 32) ||| (c.toUInt64 <<< 40) ||| (b.toUInt64 <<< 48) ||| (a.toUInt64 <<< 56))
  | _ => none

@[simp] theorem putU16le_length (v) : (putU16le v).length = 2 := rfl
@[simp] theorem putU16be_length (v) : (putU16be v).length = 2 := rfl
@[simp] theorem putU32le_length (v) : (putU32le v).length = 4 := rfl
@[simp] theorem putU32be_length (v) : (putU32be v).length = 4 := rfl
@[simp] theorem putU64le_length (v) : (putU64le v).length = 8 := rfl
@[simp] theorem putU64be_length (v) : (putU64be v).length = 8 := rfl

/-- lower-case an ASCII byte (Rust `to_lowercase` restricted to ASCII input) -/
def asciiLower (b : UInt8) : UInt8 := if 65 ≤ b ∧ b ≤ 90 then b + 32 else b

end Physis
