import PhysisModel.Base.Bytes
import Std.Tactic.BVDecide
/-! Round-trip lemmas for the fixed-width codecs (bit-vector facts, discharged by `bv_decide (timeout := 300)`). -/
namespace Physis

theorem getU16le_put (v : UInt16) : getU16le (putU16le v) = some v := by
  simp only [putU16le, getU16le]; congr 1; bv_decide (timeout := 300)
theorem getU16be_put (v : UInt16) : getU16be (putU16be v) = some v := by
  simp only [putU16be, getU16be]; congr 1; bv_decide (timeout := 300)
theorem getU32le_put (v : UInt32) : getU32le (putU32le v) = some v := by
  simp only [putU32le, getU32le]; congr 1; bv_decide (timeout := 300)
theorem getU32be_put (v : UInt32) : getU32be (putU32be v) = some v := by
  simp only [putU32be, getU32be]; congr 1; bv_decide (timeout := 300)
theorem getU64le_put (v : UInt64) : getU64le (putU64le v) = some v := by
  simp only [putU64le, getU64le]; congr 1; bv_decide (timeout := 300)
theorem getU64be_put (v : UInt64) : getU64be (putU64be v) = some v := by
  simp only [putU64be, getU64be]; congr 1; bv_decide (timeout := 300)


end Physis
