import PhysisModel.Base.FaultA
/-!
# Cursor monad with the binrw primitives used by the asset / archive readers (C18)

`P α = whole input → cursor state → Res (α × cursor state)`.

The cursor state is the position **and** the bytes from that position on (`rest = whole.drop pos`
is maintained by every primitive; sequential reads are O(1) on `rest`, a seek recomputes it).
The position may lie beyond the end of the input (`Cursor`/`File` seeks never fail there; the
next read reports end-of-input), exactly as with `std::io::Cursor` and `std::fs::File`.

Every primitive mirrors binrw 0.14.2 (`~/.cargo/registry/src/*/binrw-0.14.2`):

* integers / floats: `read_exact` of the width, `UnexpectedEof` when short;
* `magic`: reads the literal's width, `BadMagic` (not an EOF error) on mismatch;
* `pad_before/after = n`: `seek(Current(n))` — never fails, may pass the end;
* `pad_size_to = n`: skip what is missing to `n` after the field;
* `count` — three flavours (`helpers::count_with`):
  `countBytes`  `Vec<u8>`: **`reserve_exact(n)` up front** (the allocation fault point), then
                `take(n).read_to_end`, `not enough bytes` (EOF) when short;
  `countInts`   `Vec<i8|u16|i16|u32|i32|u64|i64>`: chunked `read_exact`, grows with the data read;
  `count`       any other element type: `repeat_with(read).take(n).collect()` — stops at the
                first error, grows element by element;
* `until_eof`: reads elements until an error that `is_eof()`; any other error propagates;
* `seek_before = Start(n)`, `restore_position`, `if(c)`, `repr` enums, `assert`, `map`, `try_map`.

`Base/ParserALemmas.lean` proves that each of these is fault-free and allocation-bounded for
every input and that `bind` preserves both, so a reader built only from them is total,
panic-free and allocation-bounded by construction.
-/
namespace Physis.A

structure St where
  pos : Nat
  rest : Bytes
  deriving Repr, Inhabited

def P (α : Type) : Type := Bytes → St → Res (α × St)

namespace P
variable {α β : Type}

@[inline] def pure (a : α) : P α := fun _ s => .ok (a, s)

@[inline] def bind (p : P α) (f : α → P β) : P β := fun w s =>
  match p w s with
  | ⟨.ok (a, s'), k⟩ => let r := f a w s'; ⟨r.out, max k r.peak⟩
  | ⟨.fail e, k⟩ => ⟨.fail e, k⟩
  | ⟨.fault x, k⟩ => ⟨.fault x, k⟩

instance : Monad P where
  pure := pure
  bind := bind

/-- run a reader on a whole buffer from position 0 (`T::read(&mut Cursor::new(buffer))`) -/
@[inline] def run (p : P α) (w : Bytes) : Res α :=
  match p w ⟨0, w⟩ with
  | ⟨.ok (a, _), k⟩ => ⟨.ok a, k⟩
  | ⟨.fail e, k⟩ => ⟨.fail e, k⟩
  | ⟨.fault x, k⟩ => ⟨.fault x, k⟩

/-- run from a given position of a buffer -/
@[inline] def runAt (p : P α) (w : Bytes) (pos : Nat) : Res (α × Nat) :=
  match p w ⟨pos, w.drop pos⟩ with
  | ⟨.ok (a, s), k⟩ => ⟨.ok (a, s.pos), k⟩
  | ⟨.fail e, k⟩ => ⟨.fail e, k⟩
  | ⟨.fault x, k⟩ => ⟨.fault x, k⟩

/-- lift a computation that does not touch the cursor (a `map` / `try_map` closure, an `assert`) -/
@[inline] def lift (r : Res α) : P α := fun _ s =>
  match r with
  | ⟨.ok a, k⟩ => ⟨.ok (a, s), k⟩
  | ⟨.fail e, k⟩ => ⟨.fail e, k⟩
  | ⟨.fault x, k⟩ => ⟨.fault x, k⟩

@[inline] def failP : P α := fun _ _ => .fail
@[inline] def eofP : P α := fun _ _ => .eof

/-! ### fixed-width reads -/

@[inline] def u8 : P UInt8 := fun _ s =>
  match s.rest with
  | a :: r => .ok (a, ⟨s.pos + 1, r⟩)
  | _ => .eof

@[inline] def u16le : P UInt16 := fun _ s =>
  match s.rest with
  | a :: b :: r => .ok (a.toUInt16 ||| (b.toUInt16 <<< 8), ⟨s.pos + 2, r⟩)
  | _ => .eof

@[inline] def u16be : P UInt16 := fun _ s =>
  match s.rest with
  | a :: b :: r => .ok (b.toUInt16 ||| (a.toUInt16 <<< 8), ⟨s.pos + 2, r⟩)
  | _ => .eof

@[inline] def u32le : P UInt32 := fun _ s =>
  match s.rest with
  | a :: b :: c :: d :: r =>
    .ok (a.toUInt32 ||| (b.toUInt32 <<< 8) ||| (c.toUInt32 <<< 16) ||| (d.toUInt32 <<< 24), ⟨s.pos + 4, r⟩)
  | _ => .eof

@[inline] def u32be : P UInt32 := fun _ s =>
  match s.rest with
  | a :: b :: c :: d :: r =>
    .ok (d.toUInt32 ||| (c.toUInt32 <<< 8) ||| (b.toUInt32 <<< 16) ||| (a.toUInt32 <<< 24), ⟨s.pos + 4, r⟩)
  | _ => .eof

@[inline] def u64le : P UInt64 := fun _ s =>
  match s.rest with
  | a :: b :: c :: d :: e :: f :: g :: h :: r =>
    .ok (a.toUInt64 ||| (b.toUInt64 <<< 8) ||| (c.toUInt64 <<< 16) ||| (d.toUInt64 <<< 24) |||
      (e.toUInt64 <<< 32) ||| (f.toUInt64 <<< 40) ||| (g.toUInt64 <<< 48) ||| (h.toUInt64 <<< 56), ⟨s.pos + 8, r⟩)
  | _ => .eof

@[inline] def u64be : P UInt64 := fun _ s =>
  match s.rest with
  | a :: b :: c :: d :: e :: f :: g :: h :: r =>
    .ok (h.toUInt64 ||| (g.toUInt64 <<< 8) ||| (f.toUInt64 <<< 16) ||| (e.toUInt64 <<< 24) |||
      (d.toUInt64 <<< 32) ||| (c.toUInt64 <<< 40) ||| (b.toUInt64 <<< 48) ||| (a.toUInt64 <<< 56), ⟨s.pos + 8, r⟩)
  | _ => .eof

/-- f32 as its bit pattern (no reader in this repository looks at the value while parsing) -/
@[inline] def f32le : P UInt32 := u32le
@[inline] def f32be : P UInt32 := u32be

/-- `[u8; n]` / `read_exact` of `n` bytes: all or `UnexpectedEof` -/
@[inline] def bytes (n : Nat) : P Bytes := fun _ s =>
  let a := s.rest.take n
  if a.length = n then .ok (a, ⟨s.pos + n, s.rest.drop n⟩) else .eof

/-! ### positions -/

@[inline] def getPos : P Nat := fun _ s => .ok (s.pos, s)
/-- `seek(SeekFrom::Start(n))` (`seek_before`) -/
@[inline] def seekStart (n : Nat) : P Unit := fun w _ => .ok ((), ⟨n, w.drop n⟩)
/-- `seek(SeekFrom::Current(n))`, `n ≥ 0` (`pad_before`, `pad_after`) -/
@[inline] def skip (n : Nat) : P Unit := fun _ s => .ok ((), ⟨s.pos + n, s.rest.drop n⟩)
/-- number of bytes from the cursor to the end of the input (0 when beyond the end) -/
@[inline] def remaining : P Nat := fun _ s => .ok (s.rest.length, s)
/-- total input length -/
@[inline] def inputLen : P Nat := fun w s => .ok (w.length, s)

/-- `#[br(pad_size_to = n)]` -/
@[inline] def padSizeTo (n : Nat) (p : P α) : P α := fun w s =>
  match p w s with
  | ⟨.ok (a, s'), k⟩ =>
    let used := s'.pos - s.pos
    if used < n then ⟨.ok (a, ⟨s'.pos + (n - used), s'.rest.drop (n - used)⟩), k⟩ else ⟨.ok (a, s'), k⟩
  | r => r

/-- `#[br(restore_position)]` -/
@[inline] def restorePosition (p : P α) : P α := fun w s =>
  match p w s with
  | ⟨.ok (a, _), k⟩ => ⟨.ok (a, s), k⟩
  | r => r

/-! ### control -/

/-- `#[br(magic = b"....")]`: short input is an EOF error, a mismatch is `BadMagic` -/
@[inline] def magic (m : Bytes) : P Unit := fun _ s =>
  let a := s.rest.take m.length
  if a.length = m.length then
    if a == m then .ok ((), ⟨s.pos + m.length, s.rest.drop m.length⟩) else .fail
  else .eof

/-- `#[br(assert(c))]` -/
@[inline] def assertP (c : Bool) : P Unit := fun _ s => if c then .ok ((), s) else .fail

/-- `#[br(if(c))]` with the type's default otherwise -/
@[inline] def ifCond (c : Bool) (p : P α) (dflt : α) : P α := if c then p else pure dflt

/-- `#[br(map = f)]` -/
@[inline] def map (f : α → β) (p : P α) : P β := bind p (fun a => pure (f a))
/-- `#[br(try_map = f)]`: `Err` is an ordinary (non-EOF) parse error -/
@[inline] def tryMap (f : α → Option β) (p : P α) : P β :=
  bind p (fun a => match f a with | some b => pure b | none => failP)
/-- a `map` closure that can panic (`String::from_utf8(x).unwrap()`) -/
@[inline] def mapRes (f : α → Res β) (p : P α) : P β := bind p (fun a => lift (f a))

/-- `#[br(repr = T)]` enum: the integer must be one of the listed discriminants -/
@[inline] def reprEnum (p : P Nat) (table : List Nat) : P Nat :=
  bind p (fun v => if table.contains v then pure v else failP)

/-- first alternative that parses (data enums: every variant is tried from the same position);
the combined error is an EOF error only when every variant's error is one -/
@[inline] def orElse (p q : P α) : P α := fun w s =>
  match p w s with
  | ⟨.fail e, k⟩ =>
    match q w s with
    | ⟨.fail e', k'⟩ => ⟨.fail (e && e'), max k k'⟩
    | ⟨o, k'⟩ => ⟨o, max k k'⟩
  | r => r

/-! ### collections -/

/-- `Vec<u8>` with `count = n`: `reserve_exact(n)` **before** reading -/
@[inline] def countBytes (n : Nat) : P Bytes := fun _ s =>
  if n > ISIZEMAX then ⟨.fault .overflow, 0⟩ else
  let a := s.rest.take n
  if a.length = n then ⟨.ok (a, ⟨s.pos + n, s.rest.drop n⟩), n⟩ else ⟨.fail true, n⟩

/-- a `Vec<u8>` read that validates `n` against the remaining input first (the repaired form) -/
@[inline] def countBytesChecked (n : Nat) : P Bytes := fun _ s =>
  let a := s.rest.take n
  if a.length = n then ⟨.ok (a, ⟨s.pos + n, s.rest.drop n⟩), n⟩ else ⟨.fail true, 0⟩

/-- `Vec<intN>` with `count = n`, `width` bytes each: chunked, grows with what was read.
The values are returned as raw `width`-byte groups. -/
@[inline] def countInts (n width : Nat) : P Bytes := bytes (n * width)

def countGo (p : P α) (w : Bytes) : Nat → St → Nat → List α → Res (List α × St)
  | 0, s, pk, acc => ⟨.ok (acc.reverse, s), pk⟩
  | n + 1, s, pk, acc =>
    match p w s with
    | ⟨.ok (a, s'), k⟩ => countGo p w n s' (max pk k) (a :: acc)
    | ⟨.fail e, k⟩ => ⟨.fail e, max pk k⟩
    | ⟨.fault x, k⟩ => ⟨.fault x, max pk k⟩

/-- `Vec<T>` with `count = n` for any other element type -/
@[inline] def count (n : Nat) (p : P α) : P (List α) := fun w s => countGo p w n s 0 []

def untilEofGo (p : P α) (w : Bytes) : Nat → St → Nat → List α → Res (List α × St)
  | 0, _, pk, _ => ⟨.fault .fuel, pk⟩
  | f + 1, s, pk, acc =>
    match p w s with
    | ⟨.ok (a, s'), k⟩ => untilEofGo p w f s' (max pk k) (a :: acc)
    | ⟨.fail true, k⟩ => ⟨.ok (acc.reverse, s), max pk k⟩
    | ⟨.fail false, k⟩ => ⟨.fail false, max pk k⟩
    | ⟨.fault x, k⟩ => ⟨.fault x, max pk k⟩

/-- `parse_with = until_eof`.  Fuel = remaining bytes + 1: an element reader that succeeds
without consuming input would make the Rust loop run (and allocate) forever, which the model
reports as the fault `fuel`. -/
@[inline] def untilEof (p : P α) : P (List α) := fun w s => untilEofGo p w (s.rest.length + 1) s 0 []

end P

/-! ### little helpers used by the format models -/

/-- `x.trim_matches('\0')` is irrelevant for faults; what matters is `from_utf8` -/
def utf8Unwrap (x : Bytes) : Res Unit := if Utf8.valid x then .ok () else .panic .utf8
/-- the repaired closure: invalid UTF-8 is an ordinary parse error -/
def utf8Check (x : Bytes) : Res Unit := if Utf8.valid x then .ok () else .fail

end Physis.A
