import PhysisModel.Base.ParserA
/-!
# Two loop combinators for the cursor monad (C18 part `pbc`)

* `P.each l f`   — `for x in l { f(x)? }` over an already parsed list;
* `P.whileP c body` — `while c(cursor.position()) { body? }` with fuel `remaining + 1`: a body that
  succeeds without consuming input would make the Rust loop spin for ever, which the model reports
  as the fault `fuel`.

The lemmas (`PGood.each`, `PGood.whileP`) are in `Base/ParserAPbcLemmas.lean`.
-/
namespace Physis.A
namespace P
variable {α : Type}

def eachGo (f : α → P Unit) (w : Bytes) : List α → St → Nat → Res (Unit × St)
  | [], s, pk => ⟨.ok ((), s), pk⟩
  | a :: l, s, pk =>
    match f a w s with
    | ⟨.ok (_, s'), k⟩ => eachGo f w l s' (max pk k)
    | ⟨.fail e, k⟩ => ⟨.fail e, max pk k⟩
    | ⟨.fault x, k⟩ => ⟨.fault x, max pk k⟩

/-- `for x in l { f(x)? }` -/
@[inline] def each (l : List α) (f : α → P Unit) : P Unit := fun w s => eachGo f w l s 0

def whileGo (c : Nat → Bool) (body : P Unit) (w : Bytes) : Nat → St → Nat → Res (Unit × St)
  | 0, _, pk => ⟨.fault .fuel, pk⟩
  | f + 1, s, pk =>
    if c s.pos then
      match body w s with
      | ⟨.ok (_, s'), k⟩ => whileGo c body w f s' (max pk k)
      | ⟨.fail e, k⟩ => ⟨.fail e, max pk k⟩
      | ⟨.fault x, k⟩ => ⟨.fault x, max pk k⟩
    else ⟨.ok ((), s), pk⟩

/-- `while c(position) { body? }` -/
@[inline] def whileP (c : Nat → Bool) (body : P Unit) : P Unit :=
  fun w s => whileGo c body w (s.rest.length + 1) s 0

end P
end Physis.A
