/-
Bit-level IEEE-754 software floats: binary32 values are their `UInt32` bit patterns, binary16
("half") values their `UInt16` bit patterns.

Every operation is computed on the raw bits as a `Nat` (the `…N` functions) and wrapped into
`UIntN`.  The `…N` functions expect arguments below `2^32` (resp. `2^16`), which `UIntN.toNat`
guarantees.

Kernel evaluation: the exhaustive theorems of `Proofs/SoftFloat.lean` run these functions inside
the kernel (`decide +kernel`) on every half / every byte.  The kernel has GMP fast paths for the
*primitive* `Nat.add/sub/mul/div/mod/pow/log2/land/lor/xor/shiftLeft/shiftRight/beq/ble` on
literals, but reaching them through the type-class notation (`HAnd.hAnd → AndOp.and → Nat.land`) and
through `if … then` on a `Decidable` proposition (`Nat.decEq`, a dependent match carrying proofs)
costs roughly 10–80 µs per occurrence (measured), far more than the operation itself.  Hence, *inside
`section NatCore` only*, the usual operator tokens are re-bound by local macros to the primitive
`Nat` functions they unfold to anyway (`a &&& b` is `Nat.land a b`, `a == b` is `Nat.beq a b`, …)
and conditions are `Bool`s (`bif`, `≤?`, `<?`).  Nothing else changes: it reads like the Rust and
each operator is definitionally equal to the type-class version.

No Mathlib imports: this file is linked into the `physis-model` driver executable.
-/
namespace Physis.SoftFloat

section NatCore

local macro_rules | `($a &&& $b) => `(Nat.land $a $b)
local macro_rules | `($a ||| $b) => `(Nat.lor $a $b)
local macro_rules | `($a ^^^ $b) => `(Nat.xor $a $b)
local macro_rules | `($a <<< $b) => `(Nat.shiftLeft $a $b)
local macro_rules | `($a >>> $b) => `(Nat.shiftRight $a $b)
local macro_rules | `($a + $b) => `(Nat.add $a $b)
local macro_rules | `($a - $b) => `(Nat.sub $a $b)
local macro_rules | `($a * $b) => `(Nat.mul $a $b)
local macro_rules | `($a / $b) => `(Nat.div $a $b)
local macro_rules | `($a % $b) => `(Nat.mod $a $b)
local macro_rules | `($a == $b) => `(Nat.beq $a $b)
/-- `a ≤ b` as a `Bool` -/
local infix:50 " ≤? " => Nat.ble
/-- `a < b` as a `Bool` -/
local infix:50 " <? " => Nat.blt

/-! ## classification -/

def qnanN : Nat := 0x7FC00000

def isNaN32N (x : Nat) : Bool := 0x7F800000 <? x &&& 0x7FFFFFFF
def isInf32N (x : Nat) : Bool := x &&& 0x7FFFFFFF == 0x7F800000
def isNaN16N (h : Nat) : Bool := 0x7C00 <? h &&& 0x7FFF
def isInf16N (h : Nat) : Bool := h &&& 0x7FFF == 0x7C00

/-! ## half ↔ single: `half` crate 2.7.1, `binary16/arch.rs` -/

/-! The two conversions are the Rust functions branch for branch, with the same masks and shifts.
They are cut into one small definition per branch, and the Rust locals `half_sign`, `half_exp`, …
are one-line functions of the input instead of `let`s (the kernel substitutes, i.e. copies, the
rest of a body at every `let` and at every unfolding, so small bodies are what it evaluates best). -/

def halfSign (i : Nat) : Nat := i &&& 0x8000
def halfExp (i : Nat) : Nat := i &&& 0x7C00
def halfMan (i : Nat) : Nat := i &&& 0x03FF

/-- infinity or NaN (`half_exp == 0x7C00`): NaN keeps the mantissa and gets the quiet bit -/
def halfToF32InfNaN (i : Nat) : Nat :=
  bif halfMan i == 0 then (halfSign i <<< 16) ||| 0x7F800000
  else (halfSign i <<< 16) ||| 0x7FC00000 ||| (halfMan i <<< 13)

/-- subnormals (`half_exp == 0`), normalised by adjusting the exponent;
`leading_zeros_u16(m)` is `15 - log2 m` for `m ≠ 0` -/
def halfToF32Sub (i : Nat) : Nat :=
  let e := (15 - Nat.log2 (halfMan i)) - 6
  (halfSign i <<< 16) ||| ((127 - 15 - e) <<< 23) ||| ((halfMan i <<< (14 + e)) &&& 0x7FFFFF)

/-- `f16_to_f32_fallback(i: u16) -> f32` -/
def halfToF32N (i : Nat) : Nat :=
  -- Check for signed zero
  bif i &&& 0x7FFF == 0 then i <<< 16
  -- Check for an infinity or NaN when all exponent bits set
  else bif halfExp i == 0x7C00 then halfToF32InfNaN i
  -- Check for subnormals, which will be normalized by adjusting exponent
  else bif halfExp i == 0 then halfToF32Sub i
  -- sign | exp | man with exp = (unbiased_exp + 127) << 23, unbiased_exp = (half_exp >> 10) - 15
  else (halfSign i <<< 16) ||| (((halfExp i >>> 10) + 112) <<< 23) ||| ((halfMan i &&& 0x03FF) <<< 13)

def f32Sign (x : Nat) : Nat := x &&& 0x80000000
def f32Exp (x : Nat) : Nat := x &&& 0x7F800000
def f32Man (x : Nat) : Nat := x &&& 0x007FFFFF

/-- all exponent bits set: infinity, or NaN with the quiet bit and the shifted mantissa bits -/
def f32ToHalfInfNaN (x : Nat) : Nat :=
  (f32Sign x >>> 16) ||| 0x7C00 ||| (bif f32Man x == 0 then 0 else 0x0200) ||| (f32Man x >>> 13)

/-- `half_exp <= 0` with `14 - half_exp <= 24`; `man` already carries the hidden bit:
`half_man = man >> (14 - half_exp)`, plus one when the round bit is set and (sticky or odd) -/
def f32ToHalfSubRound (halfSign man e : Nat) : Nat :=
  let roundBit := 1 <<< (125 - e)
  bif !(man &&& roundBit == 0) && !(man &&& (3 * roundBit - 1) == 0) then
    halfSign ||| ((man >>> (126 - e)) + 1)
  else halfSign ||| (man >>> (126 - e))

/-- underflow, `half_exp <= 0` (`e ≤ 112`): signed zero when `14 - half_exp > 24` -/
def f32ToHalfUnderflow (halfSign man e : Nat) : Nat :=
  bif 24 <? 126 - e then halfSign else f32ToHalfSubRound halfSign (man ||| 0x00800000) e

/-- the normal range: `(half_sign | half_exp | half_man)`, plus one (possibly carrying into the
exponent, up to infinity) when the round bit `0x1000` is set and (sticky or odd) -/
def f32ToHalfNormal (halfSign man e : Nat) : Nat :=
  bif !(man &&& 0x00001000 == 0) && !(man &&& (3 * 0x00001000 - 1) == 0) then
    (halfSign ||| ((e - 112) <<< 10) ||| (man >>> 13)) + 1
  else halfSign ||| ((e - 112) <<< 10) ||| (man >>> 13)

/-- `f32_to_f16_fallback(value: f32) -> u16`.  The Rust `half_exp : i32` is `e - 112` for
`e = exp >> 23`; its comparisons are restated on `e`
(`half_exp >= 0x1F ↔ 143 ≤ e`, `half_exp <= 0 ↔ e ≤ 112`, `14 - half_exp = 126 - e`). -/
def f32ToHalfN (x : Nat) : Nat :=
  bif f32Exp x == 0x7F800000 then f32ToHalfInfNaN x
  -- exponent overflow: infinity
  else bif 143 ≤? f32Exp x >>> 23 then (f32Sign x >>> 16) ||| 0x7C00
  else bif f32Exp x >>> 23 ≤? 112 then
    f32ToHalfUnderflow (f32Sign x >>> 16) (f32Man x) (f32Exp x >>> 23)
  else f32ToHalfNormal (f32Sign x >>> 16) (f32Man x) (f32Exp x >>> 23)

/-! ## integer → f32 (exact below `2^24`) -/

def natToF32N (v : Nat) : Nat :=
  bif v == 0 then 0 else
  let l := Nat.log2 v
  ((127 + l) <<< 23) ||| ((v <<< (23 - l)) &&& 0x7FFFFF)

/-! ## the correctly-rounded core

A finite f32 is `± mant · 2^(bexp - 149)` with `bexp = max (E - 1) 0` for the exponent field `E`
(`mant` carries the hidden bit when `E ≠ 0`). -/

def signBitN (x : Nat) : Bool := 0x80000000 ≤? x
def mant32N (x : Nat) : Nat :=
  bif (x >>> 23) &&& 0xFF == 0 then x &&& 0x7FFFFF else (x &&& 0x7FFFFF) ||| 0x800000
def bexp32N (x : Nat) : Nat := ((x >>> 23) &&& 0xFF) - 1
def minN (a b : Nat) : Nat := bif a ≤? b then a else b

/-- The f32 nearest to `± num / den` (`den > 0`): ties to even, overflow to `±inf`, gradual
underflow, `num = 0` gives `±0`.  (`den = 0` gives the quiet NaN.)

`e` is chosen with `q = ⌊num / den · 2^(149 - e)⌋ ∈ [2^23, 2^24)`, or `e = 0` and `q < 2^23`
(subnormal); then `e * 2^23 + q` is the bit pattern: the hidden bit of `q` increments the exponent
field from `e` to `e + 1`, and a mantissa carry after rounding (`q = 2^24`) moves on to the next
binade (or to infinity) by the same addition. -/
def roundToF32N (neg : Bool) (num den : Nat) : Nat :=
  bif den == 0 then qnanN else
  let s := bif neg then 0x80000000 else 0
  bif num == 0 then s else
  let e := (Nat.log2 num + 126) - Nat.log2 den
  let n := bif e ≤? 149 then num <<< (149 - e) else num
  let d := bif e ≤? 149 then den else den <<< (e - 149)
  -- n / d ∈ (2^22, 2^24), or e = 0 and n / d < 2^23
  let low := n / d <? 0x800000 && 0 <? e
  let n := bif low then 2 * n else n
  let e := bif low then e - 1 else e
  let q := n / d
  let r := n % d
  let q := bif d <? 2 * r || (2 * r == d && q % 2 == 1) then q + 1 else q
  let bits := e * 0x800000 + q
  bif 0x7F800000 ≤? bits then s ||| 0x7F800000 else s ||| bits

/-- the f32 nearest to `± mag · 2^(e - bias)` -/
def roundScaledN (neg : Bool) (mag e bias : Nat) : Nat :=
  bif bias ≤? e then roundToF32N neg (mag <<< (e - bias)) 1
  else roundToF32N neg mag (1 <<< (bias - e))

/-! ## arithmetic: IEEE-754 binary32, round to nearest even.  Every NaN result is `0x7FC00000`. -/

def f32AddN (a b : Nat) : Nat :=
  bif isNaN32N a || isNaN32N b then qnanN
  else bif isInf32N a then (bif isInf32N b && !(a == b) then qnanN else a)
  else bif isInf32N b then b
  else
    let ea := bexp32N a
    let eb := bexp32N b
    let e := minN ea eb
    let x := mant32N a <<< (ea - e)
    let y := mant32N b <<< (eb - e)
    bif !(xor (signBitN a) (signBitN b)) then roundScaledN (signBitN a) (x + y) e 149
    else bif y <? x then roundScaledN (signBitN a) (x - y) e 149
    else bif x <? y then roundScaledN (signBitN b) (y - x) e 149
    else 0   -- exact cancellation: +0 when rounding to nearest

def f32SubN (a b : Nat) : Nat := f32AddN a (b ^^^ 0x80000000)

def f32MulN (a b : Nat) : Nat :=
  bif isNaN32N a || isNaN32N b then qnanN else
  let neg := xor (signBitN a) (signBitN b)
  let s := bif neg then 0x80000000 else 0
  let za := a &&& 0x7FFFFFFF == 0
  let zb := b &&& 0x7FFFFFFF == 0
  bif isInf32N a then (bif zb then qnanN else s ||| 0x7F800000)
  else bif isInf32N b then (bif za then qnanN else s ||| 0x7F800000)
  else roundScaledN neg (mant32N a * mant32N b) (bexp32N a + bexp32N b) 298

def f32DivN (a b : Nat) : Nat :=
  bif isNaN32N a || isNaN32N b then qnanN else
  let neg := xor (signBitN a) (signBitN b)
  let s := bif neg then 0x80000000 else 0
  let za := a &&& 0x7FFFFFFF == 0
  let zb := b &&& 0x7FFFFFFF == 0
  bif isInf32N a then (bif isInf32N b then qnanN else s ||| 0x7F800000)
  else bif isInf32N b then s
  else bif zb then (bif za then qnanN else s ||| 0x7F800000)
  else
    let ea := bexp32N a
    let eb := bexp32N b
    let e := minN ea eb
    roundToF32N neg (mant32N a <<< (ea - e)) (mant32N b <<< (eb - e))

/-! ## `f32::round`, `as u8`, comparisons -/

/-- Rust `f32::round`: nearest integer, halves away from zero; the sign (also of zero) is kept;
`|x| ≥ 2^23`, infinities and NaN are returned unchanged. -/
def f32RoundN (x : Nat) : Nat :=
  let e := (x >>> 23) &&& 0xFF
  let s := x &&& 0x80000000
  bif 150 ≤? e then x
  else bif e <? 126 then s                      -- |x| < 0.5
  else bif e == 126 then s ||| 0x3F800000       -- 0.5 ≤ |x| < 1
  else
    let sh := 150 - e                           -- number of fraction bits, 1..23
    let mag := (x &&& 0x7FFFFFFF) + (1 <<< (sh - 1))
    s ||| ((mag >>> sh) <<< sh)

/-- Rust `x as u8`: truncation toward zero, saturating; NaN gives 0. -/
def f32ToU8SatN (x : Nat) : Nat :=
  bif isNaN32N x then 0
  else bif signBitN x then 0
  else
    let e := x >>> 23
    bif e <? 127 then 0
    else bif 135 ≤? e then 255
    else ((x &&& 0x7FFFFF) ||| 0x800000) >>> (150 - e)

/-- IEEE `a > b` -/
def f32GtN (a b : Nat) : Bool :=
  bif isNaN32N a || isNaN32N b then false else
  let ma := a &&& 0x7FFFFFFF
  let mb := b &&& 0x7FFFFFFF
  bif ma == 0 && mb == 0 then false
  else bif signBitN a then (bif signBitN b then ma <? mb else false)
  else (bif signBitN b then true else mb <? ma)

/-- IEEE `a == b` -/
def f32EqN (a b : Nat) : Bool :=
  bif isNaN32N a || isNaN32N b then false
  else a == b || (a &&& 0x7FFFFFFF == 0 && b &&& 0x7FFFFFFF == 0)

end NatCore

/-! ## the `UIntN` interface -/

def isNaN32 (x : UInt32) : Bool := isNaN32N x.toNat
def isInf32 (x : UInt32) : Bool := isInf32N x.toNat
def isNaN16 (h : UInt16) : Bool := isNaN16N h.toNat
def isInf16 (h : UInt16) : Bool := isInf16N h.toNat

/-- Rust `half::f16::from_bits(h).to_f32().to_bits()` -/
def halfToF32 (h : UInt16) : UInt32 := UInt32.ofNat (halfToF32N h.toNat)
/-- Rust `half::f16::from_f32(f32::from_bits(x)).to_bits()` -/
def f32ToHalf (x : UInt32) : UInt16 := UInt16.ofNat (f32ToHalfN x.toNat)

/-- Rust `f32::from(b)` for `b : u8` -/
def u8ToF32 (b : UInt8) : UInt32 := UInt32.ofNat (natToF32N b.toNat)
/-- Rust `f32::from(v)` for `v : u16` -/
def u16ToF32 (v : UInt16) : UInt32 := UInt32.ofNat (natToF32N v.toNat)

/-- finite `x` is `± mant · 2^exp` -/
def decode32 (x : UInt32) : Bool × Nat × Int :=
  (signBitN x.toNat, mant32N x.toNat, (bexp32N x.toNat : Int) - 149)

def roundToF32 (neg : Bool) (num den : Nat) : UInt32 := UInt32.ofNat (roundToF32N neg num den)

def f32Add (a b : UInt32) : UInt32 := UInt32.ofNat (f32AddN a.toNat b.toNat)
def f32Sub (a b : UInt32) : UInt32 := UInt32.ofNat (f32SubN a.toNat b.toNat)
def f32Mul (a b : UInt32) : UInt32 := UInt32.ofNat (f32MulN a.toNat b.toNat)
def f32Div (a b : UInt32) : UInt32 := UInt32.ofNat (f32DivN a.toNat b.toNat)
def f32Round (x : UInt32) : UInt32 := UInt32.ofNat (f32RoundN x.toNat)
def f32ToU8Sat (x : UInt32) : UInt8 := UInt8.ofNat (f32ToU8SatN x.toNat)
def f32Gt (a b : UInt32) : Bool := f32GtN a.toNat b.toNat
def f32Eq (a b : UInt32) : Bool := f32EqN a.toNat b.toNat

/-! ## constants -/

def f32One : UInt32 := 0x3F800000
def f32Two : UInt32 := 0x40000000
def f32NegOne : UInt32 := 0xBF800000
/-- `MAX_BYTE_FLOAT = u8::MAX as f32` -/
def f32_255 : UInt32 := 0x437F0000
/-- `MAX_BYTE_FLOAT / 2.0` (exact) -/
def f32_127_5 : UInt32 := 0x42FF0000

/-! ## the MDL vertex component codecs of `src/model_file_operations.rs`, in Rust's operation order -/

/-- `read_byte_float4`: `f32::from(b) / MAX_BYTE_FLOAT` -/
def readByteFloat (b : UInt8) : UInt32 := f32Div (u8ToF32 b) f32_255
/-- `write_byte_float4`: `(x * MAX_BYTE_FLOAT).round() as u8` -/
def writeByteFloat (x : UInt32) : UInt8 := f32ToU8Sat (f32Round (f32Mul x f32_255))
/-- `write_byte_float42`: `x.round() as u8` -/
def writeByteFloat42 (x : UInt32) : UInt8 := f32ToU8Sat (f32Round x)
/-- `read_tangent`, x/y/z: `f32::from(b) * 2.0 / MAX_BYTE_FLOAT - 1.0` -/
def readTangentXYZ (b : UInt8) : UInt32 :=
  f32Sub (f32Div (f32Mul (u8ToF32 b) f32Two) f32_255) f32One
/-- `read_tangent`, w: `if … == 1.0 { 1.0 } else { -1.0 }` -/
def readTangentW (b : UInt8) : UInt32 :=
  if f32Eq (readTangentXYZ b) f32One then f32One else f32NegOne
/-- `write_tangent`, x/y/z: `((x + 1.0) * (MAX_BYTE_FLOAT / 2.0)).round() as u8` -/
def writeTangentXYZ (x : UInt32) : UInt8 :=
  f32ToU8Sat (f32Round (f32Mul (f32Add x f32One) f32_127_5))
/-- `write_tangent`, w: `if x > 0.0 { 255 } else { 0 }` -/
def writeTangentW (x : UInt32) : UInt8 := if f32Gt x 0 then 255 else 0

/-! ## exhaustive checks by divide and conquer

`forallBits n p` evaluates `p` on `0 … 2^n - 1` splitting the range in halves, so that the
recursion depth of an evaluator (the kernel's in particular) is `n`, not `2^n`.  It is stated
with `Nat.rec` directly (hence `noncomputable`: proofs only) because the kernel unfolds that five
times faster than the `brecOn` encoding of structural recursion. -/

noncomputable def forallFrom (n : Nat) : (base : Nat) → (p : Nat → Bool) → Bool :=
  Nat.rec (fun base p => p base)
    (fun n ih base p => ih base p && ih (Nat.add base (Nat.pow 2 n)) p) n

noncomputable def forallBits (n : Nat) (p : Nat → Bool) : Bool := forallFrom n 0 p

theorem forallFrom_zero (base : Nat) (p : Nat → Bool) : forallFrom 0 base p = p base := rfl
theorem forallFrom_succ (n base : Nat) (p : Nat → Bool) :
    forallFrom (n + 1) base p = (forallFrom n base p && forallFrom n (base + 2 ^ n) p) := rfl

theorem forallFrom_sound (n : Nat) : ∀ (base : Nat) (p : Nat → Bool),
    forallFrom n base p = true → ∀ k, k < 2 ^ n → p (base + k) = true := by
  induction n with
  | zero =>
    intro base p h k hk
    have : k = 0 := by omega
    subst this
    rwa [forallFrom_zero] at h
  | succ n ih =>
    intro base p h k hk
    rw [forallFrom_succ, Bool.and_eq_true] at h
    have h2 : 2 ^ (n + 1) = 2 ^ n + 2 ^ n := by omega
    by_cases hlt : k < 2 ^ n
    · exact ih base p h.1 k hlt
    · have := ih (base + 2 ^ n) p h.2 (k - 2 ^ n) (by omega)
      have e : base + 2 ^ n + (k - 2 ^ n) = base + k := by omega
      rwa [e] at this

theorem forallBits_sound {n : Nat} {p : Nat → Bool} (h : forallBits n p = true) :
    ∀ k, k < 2 ^ n → p k = true := by
  intro k hk
  have := forallFrom_sound n 0 p h k hk
  rwa [Nat.zero_add] at this

/-- two adjacent ranges checked separately (as separate declarations: the kernel's caches live
for one declaration, so a 65 536-fold check is cut into chunks to bound its memory) -/
theorem forallFrom_join {n base : Nat} {p : Nat → Bool} (h0 : forallFrom n base p = true)
    (h1 : forallFrom n (base + 2 ^ n) p = true) : forallFrom (n + 1) base p = true := by
  rw [forallFrom_succ, h0, h1]; rfl

theorem forallU8_sound {p : UInt8 → Bool} (h : forallBits 8 (fun k => p (UInt8.ofNat k)) = true) :
    ∀ b : UInt8, p b = true := by
  intro b
  have := forallBits_sound h b.toNat b.toNat_lt
  simpa using this

theorem forallU16_sound {p : UInt16 → Bool}
    (h : forallBits 16 (fun k => p (UInt16.ofNat k)) = true) : ∀ v : UInt16, p v = true := by
  intro v
  have := forallBits_sound h v.toNat v.toNat_lt
  simpa using this

end Physis.SoftFloat
