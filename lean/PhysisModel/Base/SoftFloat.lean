-- TEMPORARY STUB (interface only) — replaced by the real bit-level model
namespace Physis.SoftFloat
def isNaN32 (x : UInt32) : Bool := (x &&& 0x7FFFFFFF) > 0x7F800000
def isNaN16 (h : UInt16) : Bool := (h &&& 0x7FFF) > 0x7C00
def halfToF32 (h : UInt16) : UInt32 := h.toUInt32
def f32ToHalf (x : UInt32) : UInt16 := x.toUInt16
def u8ToF32 (b : UInt8) : UInt32 := b.toUInt32
def u16ToF32 (b : UInt16) : UInt32 := b.toUInt32
def f32Sub (a b : UInt32) : UInt32 := a - b
def f32Gt (a b : UInt32) : Bool := a > b
def readByteFloat (b : UInt8) : UInt32 := b.toUInt32
def writeByteFloat (x : UInt32) : UInt8 := x.toUInt8
def writeByteFloat42 (x : UInt32) : UInt8 := x.toUInt8
def readTangentXYZ (b : UInt8) : UInt32 := b.toUInt32
def readTangentW (b : UInt8) : UInt32 := b.toUInt32
def writeTangentXYZ (x : UInt32) : UInt8 := x.toUInt8
def writeTangentW (x : UInt32) : UInt8 := x.toUInt8
def f32One : UInt32 := 0x3F800000
end Physis.SoftFloat
