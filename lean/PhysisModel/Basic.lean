def hello := "world"
