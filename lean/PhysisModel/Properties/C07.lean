import PhysisModel.Proofs.SoftFloat
import PhysisModel.Proofs.MdlHeaders
import PhysisModel.Proofs.MdlWriteBytes
import PhysisModel.Model.MdlWrite
import PhysisModel.Spec.MdlEdit
import PhysisModel.Proofs.MdlEditParse
import PhysisModel.Proofs.MdlDriverTie
import PhysisModel.Proofs.MdlEditRedundant
/-!
# C07 — written models re-read as the same model, including after edits
-/
namespace Physis.C07
open Physis Physis.Mdl Physis.Spec.Mdl Physis.SoftFloat

/-- Re-encoding a decoded attribute reproduces the stored bytes for every canonical encoding —
exhaustively: all 63 488 non-NaN half patterns (`f16::from_f32 ∘ f16::to_f32`), all 256 values of
a normalised byte (`round(x·255) as u8 ∘ b/255`), all 256 values of a tangent component
(`round((x+1)·127.5) as u8 ∘ (2b/255 − 1)`), and the handedness byte for its canonical values. -/
theorem c07_codec_reencode :
    (∀ h : UInt16, isNaN16 h = false → f32ToHalf (halfToF32 h) = h) ∧
    (∀ b : UInt8, writeByteFloat (readByteFloat b) = b) ∧
    (∀ b : UInt8, writeTangentXYZ (readTangentXYZ b) = b) ∧
    (∀ b : UInt8, writeTangentW (readTangentW b) = (if b = 255 then 255 else 0)) :=
  ⟨half_reencode, byteFloat_reencode, tangent_reencode, tangentW_reencode⟩

/-- the recorded finding on (BlendWeights, Byte4): `write_byte_float42 ∘ read_tangent` is the
identity on no byte but 0 -/
theorem c07_blendweights_byte4_witness :
    ∀ b : UInt8, writeByteFloat42 (readTangentXYZ b) = b ↔ b = 0 :=
  byte42_fixed_iff

/-! ## header self-consistency over all edit histories

`HeaderOK` (`Proofs/MdlHeaders.lean`): the three `MeshLod` rows form a chain — LOD 0's vertex section
starts at `0x44 + stack_size + runtime_size`, every index section starts where its vertex section
ends, the next LOD where the index section ends (hence pairwise disjoint, ordered, after the
runtime block); every row's vertex size is Σ vertex count × Σ stream strides over its meshes; its
index size is `(E/16 + 1)·16 mod 2³²` with `E` the largest `2·(start_index + index_count)` of its
meshes; `stack_size = declarations·136`; `runtime_size = calculate_runtime_size`; the file-header
arrays repeat the rows of the parsed LODs; shape counts match the tables; and (for used LODs owning
disjoint mesh ranges) the stream offsets of every mesh are the running sums — disjoint, inside the
vertex section. -/

/-- **Invariant over all edit histories** (induction over the edit list; every operation
re-establishes it because it ends in `update_headers`): after any sequence of
`replace_vertices` / `remove_shape_meshes` / `add_shape_mesh` calls with arbitrary arguments that
does not panic, the headers are self-consistent. -/
theorem c07_headers_consistent (es : List Edit) (m m' : MDL) (h0 : HeaderOK m)
    (h : es.foldlM Mdl.applyEdit m = .ok m') : HeaderOK m' :=
  headers_consistent es m m' h0 h

/-- … and a non-empty history needs no assumption on the model it starts from -/
theorem c07_headers_consistent_after_edit (es : List Edit) (hne : es ≠ []) (m m' : MDL)
    (h : es.foldlM Mdl.applyEdit m = .ok m') : HeaderOK m' :=
  headers_consistent_of_ne_nil es hne m m' h

/-- the section layout in the words of the property: for the three LOD rows, offsets chain from the
end of the runtime block, each section starting where the previous one ends -/
theorem c07_sections_chain {m : MDL} (h : HeaderOK m) {l0 l1 l2 : MeshLod}
    (h3 : m.modelData.lods = [l0, l1, l2]) :
    l0.vertexDataOffset.toNat = 68 + m.fileHeader.stackSize.toNat + m.fileHeader.runtimeSize.toNat ∧
    l0.indexDataOffset.toNat = l0.vertexDataOffset.toNat + l0.vertexBufferSize.toNat ∧
    l1.vertexDataOffset.toNat = l0.indexDataOffset.toNat + l0.indexBufferSize.toNat ∧
    l1.indexDataOffset.toNat = l1.vertexDataOffset.toNat + l1.vertexBufferSize.toNat ∧
    l2.vertexDataOffset.toNat = l1.indexDataOffset.toNat + l1.indexBufferSize.toNat ∧
    l2.indexDataOffset.toNat = l2.vertexDataOffset.toNat + l2.vertexBufferSize.toNat ∧
    l0.edgeGeometryDataOffset = l0.indexDataOffset ∧ l1.edgeGeometryDataOffset = l1.indexDataOffset ∧
    l2.edgeGeometryDataOffset = l2.indexDataOffset :=
  h.three_rows h3

/-- index sections are 16-byte padded and (unless `2·(start+count)` comes within 16 bytes of 2³²,
where the code's `wrapping_add` wraps to 0 — `index_padding_wrap_witness`) hold every mesh's index
range, exceeding the largest one by 1..16 bytes -/
theorem c07_index_section_padded {ms : List Mesh} {l : MeshLod} (h : RowOK ms l) :
    l.indexBufferSize.toNat % 16 = 0 ∧
    (indexExtentTo ms l.meshIndex.toNat l.meshCount.toNat < 4294967280 →
      (∀ d, d < l.meshCount.toNat →
        (meshAt ms (l.meshIndex.toNat + d)).indexExtent ≤ l.indexBufferSize.toNat) ∧
      l.indexBufferSize.toNat ≤ indexExtentTo ms l.meshIndex.toNat l.meshCount.toNat + 16) :=
  ⟨h.index_mod16, fun hw => ⟨(h.index_bounds hw).1, (h.index_bounds hw).2.2⟩⟩

/-- the per-mesh stream offsets after any history on a model with three rows whose used LODs own
disjoint mesh ranges: running sums of count × stride (pairwise disjoint ranges inside the LOD's
vertex section: `StreamsUpTo.ordered`, `HeaderOK.stream_in_section`) -/
theorem c07_stream_offsets (es : List Edit) (m m' : MDL) (h0 : Inv m)
    (h : es.foldlM Mdl.applyEdit m = .ok m') (i : Nat) (hi : i < m'.lods.length) :
    StreamsOK m'.modelData.meshes (lodAt m'.modelData.lods i) :=
  history_streams es m m' h0 h i hi

/-- non-vacuity: a three-edit history on the concrete consistent model `exOut` (1 LOD in use,
2 meshes, 2 streams each) succeeds and keeps the invariant -/
example : ∃ m', exHistory.foldlM Mdl.applyEdit exOut = .ok m' ∧ HeaderOK m' := by
  obtain ⟨m', h⟩ := exists_ok (r := exHistory.foldlM Mdl.applyEdit exOut) (by rfl)
  exact ⟨m', h, c07_headers_consistent exHistory exOut m' (by decide +kernel) h⟩

/-! ## write ∘ parse -/

/-- **Writing a parsed model and parsing the result gives the same model** — for every abstract
model in C07's quantifier (`WF`, `Canonical`: version ≤ 5, canonical attribute encodings, no
terrain-shadow tables; any LOD / mesh / stream / declaration structure, shapes, bone tables): the
model `m0` parsed from its file is written back as **exactly the same bytes**, so parsing the
written buffer returns `m0` again — file header, `model_data`, vertices, indices, sub-meshes,
shapes, raw streams, names. -/
theorem c07_write_parse (a : AbstractModel) (h : WF a = true) (hcan : Canonical a = true)
    (v : View) (hv : view a = some v) :
    ∃ m0 buf, fromExisting (encodeMdl a) = .ok m0 ∧ writeToBuffer m0 = .ok buf ∧
      buf = encodeMdl a ∧ fromExisting buf = .ok m0 ∧ m0.view = v ∧
      m0.fileHeader = fileHeader a ∧ m0.modelData = modelData a :=
  write_parse a h hcan v hv

/-- a concrete canonical model: 2 vertices, Position Half4 + Normal Half4 in stream 0 (padding
lanes 1.0 / 0.0), BiTangent + Color ByteFloat4 in stream 1 with 2 zero slack bytes, 3 indices
padded to 8 words, one sub-mesh starting at the mesh's start, one bone -/
def canonicalSample : AbstractModel :=
  { version := 0x1000005, fileMaterialCount := 1, indexBufferStreamingEnabled := false,
    hasEdgeGeometry := false, lodCount := 1,
    lods := [
      { meshes := [
          { decl := [⟨0, 0, 14, 0, 0⟩, ⟨0, 8, 14, 3, 0⟩, ⟨1, 0, 8, 6, 0⟩, ⟨1, 4, 8, 7, 0⟩]
            vertexCount := 2
            streams := [⟨16, [0x00, 0x3C, 0x00, 0xC0, 0x01, 0x00, 0x00, 0x3C,
                              0x00, 0x38, 0xFF, 0x7B, 0x00, 0x80, 0x00, 0x00,
                              0x66, 0x2E, 0x00, 0xBC, 0x00, 0x7C, 0x00, 0x3C,
                              0x00, 0x00, 0x00, 0x3C, 0x00, 0x00, 0x00, 0x00]⟩,
                        ⟨10, [1, 128, 254, 255, 0, 1, 127, 255, 0, 0,
                              255, 0, 77, 0, 200, 100, 50, 25, 0, 0]⟩]
            indices := [0, 1, 0], indexPad := 5, materialIndex := 0, boneTableIndex := 0
            submeshes := [⟨0, 3, 0, 0, 1⟩] }],
        mid := List.replicate 28 0, edgeGeometryDataOffset := 0, polygonCount := 1 },
      { meshes := [], mid := List.replicate 28 0, edgeGeometryDataOffset := 0, polygonCount := 0 },
      { meshes := [], mid := List.replicate 28 0, edgeGeometryDataOffset := 0, polygonCount := 0 }],
    misc := ⟨0x3F800000, 0x08, 0, 0, 0, 0, 0, 0, 0, 0, 0, 0, 0⟩,
    attributes := [], bones := [[0x6A, 0x5F, 0x6B, 0x61, 0x6F]], materials := [[0x2F, 0x6D]],
    shapes := [], shapeMeshes := [], shapeValues := [], elementIds := [],
    terrainShadowMeshes := [], terrainShadowSubmeshes := [],
    boneTables := [⟨List.replicate 64 0, 1⟩], boneTablesV2 := [], submeshBoneMap := [0],
    padding := [0xAA, 0xBB], boundingBoxes := List.replicate 128 0,
    boneBoundingBoxes := [List.replicate 32 0] }

/-- non-vacuity of `c07_write_parse` -/
example : WF canonicalSample = true ∧ Canonical canonicalSample = true ∧
    (view canonicalSample).isSome = true := by
  decide +kernel

/-- For **any** in-memory model (in particular after any edit history): if the version is ≤ 5, the
tables are consistent with their counts, and every vertex / index write lands at or after the end
of the runtime block, then re-parsing the written buffer returns the same `file_header` and the
same `model_data` (the writer emits exactly the format's runtime block — each bone-map size only
for its version — and the geometry writes never touch it).

The whole-file statement for edited models

  theorem c07_edit_then_parse (a) (es) (a') (h : applyEdits a es = some a') (WF, Canonical for a, a') :
      parse (write (edits (parse (encodeMdl a)))) reports `view a'` and `HeaderFlags.allOk`

is proved below as `c07_edit_then_parse_partial` (see there for the exact side conditions). -/
theorem c07_write_parse_headers_partial (m : MDL) (hv : isV5 m.fileHeader.version = true)
    (hok : modelDataOk m.fileHeader m.modelData = true) (hw : writesAfterHeader m = true)
    (buf : Bytes) (hb : writeToBuffer m = .ok buf) :
    ∃ rest rest', parseFileHeader buf = .ok (m.fileHeader, rest) ∧
      parseModelData m.fileHeader rest = .ok (m.modelData, rest') :=
  write_parse_headers m hv hok hw buf hb

/-- Re-encoding a decoded element reproduces its stored bytes for every writable `(usage, type)`
pair and every canonical raw value (lifted from `c07_codec_reencode` to whole elements, incl. the
1.0 / 0.0 padding lanes and the handedness byte). -/
theorem c07_element_reencode (u t : UInt8) (raw : Bytes) (v : Vertex)
    (hw : writable u t = true) (hl : raw.length = typeSize t) (hc : canonicalRaw u t raw = true) :
    encodeElement u t (stdDecode u t raw v) = .ok raw :=
  encodeElement_canonical u t raw v hw hl hc

/-! ## further non-vacuity instances -/

/-- hypotheses of `c07_element_reencode`: a Position Half4 element (w lane 1.0) and a BiTangent
element (handedness 255) -/
example : writable VU.position VT.half4 = true ∧
    [0x00, 0x38, 0xFF, 0x7B, 0x00, 0x80, 0x00, 0x3C].length = typeSize VT.half4 ∧
    canonicalRaw VU.position VT.half4 [0x00, 0x38, 0xFF, 0x7B, 0x00, 0x80, 0x00, 0x3C] = true ∧
    writable VU.biTangent VT.byteFloat4 = true ∧ canonicalRaw VU.biTangent VT.byteFloat4 [1, 128, 254, 255] = true := by
  decide +kernel

/-- hypotheses of `c07_sections_chain` / `c07_index_section_padded`: the consistent model `exOut` -/
example : HeaderOK exOut := by decide +kernel

/-- hypotheses of `c07_write_parse_headers_partial` on the parsed `canonicalSample` -/
def parsedSample : Option MDL :=
  (view canonicalSample).map fun v =>
    { fileHeader := fileHeader canonicalSample, modelData := modelData canonicalSample,
      lods := v.lods, affectedBoneNames := v.affectedBoneNames, materialNames := v.materialNames }

example : (parsedSample.map fun m => isV5 m.fileHeader.version &&
    modelDataOk m.fileHeader m.modelData && writesAfterHeader m) = some true := by
  decide +kernel

/-! ## parse ∘ write ∘ edits ∘ parse (edited models) -/

/-- **After any non-empty history of `replace_vertices` / `remove_shape_meshes` /
`add_shape_mesh` calls supplied consistently, the written file re-parses as exactly the new
geometry, and its header is self-consistent.**

`a` is the model in the file the session starts from (`WF`, `Canonical`); `es` the abstract edit
history, `a' = applyEdits a es` its meaning (`Spec/MdlEdit.lean`); `ces = cedits a es` the concrete
API calls — the vertices passed to `replace_vertices` / `add_shape_mesh` are the specification's
decoding (`verticesOf`) of the new canonical stream bytes under the mesh's declaration, exactly as
the check's driver builds them (`Proofs/MdlRep.lean`).  Side conditions, all decidable:
`editsOk2` (`Proofs/MdlHistory2.lean`: new streams come with the strides of the mesh — the API
cannot change them; for `add_shape_mesh` the mesh it extends is well-formed at that moment, the
new records have one stride each, the `u16` vertex count does not wrap), the final model is
well-formed and canonical (`WF a'`, `Canonical a'`: canonical encodings, every mesh starts at its
first sub-mesh's offset — nothing is asked of the intermediate states), every LOD in use has a mesh
(`usedNonempty a'`), and the file of the model **as `update_headers` lays it out** (`relayout a'`:
same geometry — `view_relayout` —, index sections padded to the next multiple of 16 strictly above,
`Spec/MdlRelayout.lean`) stays below 4 GiB.

Conclusion: `from_existing (encodeMdl a)` returns a model `m0`, and for **every** outcome `mE` of
the edit calls on `m0` that returns, `write_to_buffer mE` returns a buffer whose re-parse `m1`
reports exactly `view a'` — new vertices (after canonical encoding), indices, sub-mesh ranges,
raw streams, shapes, names —, carries `mE`'s `file_header` and `model_data` unchanged, and the
property's header predicate evaluated on the written file (`headerFlags`: vertex sections sized
Σ count × stride, index sections 16-byte padded and holding the indices, non-empty sections after
the runtime block and pairwise disjoint, every section inside the file) is `allOk`.  No bound on
sizes or history length; nothing about the intermediate states is assumed beyond that the calls
return.  (The empty history is `c07_write_parse`; there the padding flag need not hold — an unedited
file keeps whatever index padding it came with.)

`_partial`: (1) a LOD in use without meshes is excluded (`update_headers` gives it a 16-byte index
section that `Spec.encodeMdl` cannot express); (2) that the edit calls return (no panic of the
overflow-checked arithmetic in `update_headers`, which depends on the magnitudes of the supplied
sub-mesh offsets at intermediate states) is a hypothesis here — it is a conclusion in
`c07_edit_then_parse_total_partial` under explicit size conditions; (3) the classes of the
recorded findings `c07.writer-unsupported-layout` / `c06.blendweights-byte4` are excluded through
`Canonical` (`writable` pairs only), exactly as in `c07_write_parse`.  The statement of the former
comment (`c07_edit_then_parse`) with hypotheses on `a`, `a'` only is **false** for
`add_shape_mesh` called between the `replace_vertices` calls of one re-layout (the code records
the mesh's stale start index; witness `corpus/C07/sp-add-shape-noncontiguous.case`, confirmed
against the real code): `Spec.applyEdit` now rejects such a call as not supplied consistently.

Proof: `Proofs/MdlEditParse.lean` — abstraction relation `Rep` kept by every edit
(`Proofs/MdlHistory*.lean`), `update_headers` characterised through `HeaderOK` +
`StartsFromSubmesh` (`Proofs/MdlUpdate.lean`), identification of the in-memory tables with
`modelData (relayout a')` on the LODs in use (`Proofs/MdlLaidOut.lean`, using
`calculate_runtime_size` = encoded length, `Proofs/MdlRuntimeSize.lean`), frame lemmas for the
stale rows of unused LODs and the stale per-part views (`Proofs/MdlFrame.lean`), the flags
(`Proofs/MdlFlags.lean`), then `c07_write_parse` / `c06_parse_encode_partial`. -/
theorem c07_edit_then_parse_partial (a : AbstractModel) (h : WF a = true) (hcan : Canonical a = true)
    (v0 : View) (hv0 : view a = some v0)
    (es : List AEdit) (hne : es ≠ []) (hes : editsOk2 a es = true)
    (a' : AbstractModel) (ha' : applyEdits a es = some a')
    (ces : List Edit) (hces : cedits a es = some ces)
    (h' : WF a' = true) (hlen' : (encodeMdl (relayout a')).length < 4294967296)
    (hcan' : Canonical a' = true) (hne' : usedNonempty a' = true)
    (v : View) (hv : view a' = some v) :
    ∃ m0, fromExisting (encodeMdl a) = .ok m0 ∧
      ∀ mE, ces.foldlM Mdl.applyEdit m0 = .ok mE →
        ∃ buf m1, writeToBuffer mE = .ok buf ∧ fromExisting buf = .ok m1 ∧ m1.view = v ∧
          m1.fileHeader = mE.fileHeader ∧ m1.modelData = mE.modelData ∧
          headerFlags m1.fileHeader buf.length m1.lods = HeaderFlags.allOk := by
  refine ⟨parsedOf a v0, parse_encode a h (canonical_noWeightsByte4 a hcan) v0 hv0, fun mE hE => ?_⟩
  obtain ⟨buf, m1, h1, h2, h3, h4, h5, h6⟩ :=
    edit_then_parse a h hcan v0 hv0 es hne hes a' ha' ces hces h' hlen' hcan' hne' v hv mE hE
  exact ⟨buf, m1, h1, h2, h5, h3, h4, h6⟩

/-- **… and the edit calls do return** when every intermediate state is small enough: `editsFit`
(`Proofs/MdlReturns.lean`, decidable, stated on the abstract states only) asks of the state after
every edit `Fits`: table sizes within `u16`, ≤ 3 streams per mesh, unused LODs without meshes,
every mesh of a LOD in use has a sub-mesh and `2·(first sub-mesh offset + index count) < 2³² − 16`
(no overflow of the checked `start + count`, `· 2`, no wrap of the padding), and header + runtime
block + stack + Σ (Σ count × Σ strides + padded index extent) `< 2³²`; and of the state before an
`add_shape_mesh` that the `u16` shape-mesh count can be incremented.  Then nothing is assumed about
the outcome of the calls: they return some `mE`, and the conclusion of
`c07_edit_then_parse_partial` holds for it.  `_partial` for the same reasons (1), (3) as there. -/
theorem c07_edit_then_parse_total_partial (a : AbstractModel) (h : WF a = true)
    (hcan : Canonical a = true) (v0 : View) (hv0 : view a = some v0)
    (es : List AEdit) (hne : es ≠ []) (hes : editsOk2 a es = true) (hfit : editsFit a es = true)
    (a' : AbstractModel) (ha' : applyEdits a es = some a')
    (ces : List Edit) (hces : cedits a es = some ces)
    (h' : WF a' = true) (hlen' : (encodeMdl (relayout a')).length < 4294967296)
    (hcan' : Canonical a' = true) (hne' : usedNonempty a' = true)
    (v : View) (hv : view a' = some v) :
    ∃ m0 mE buf m1, fromExisting (encodeMdl a) = .ok m0 ∧ ces.foldlM Mdl.applyEdit m0 = .ok mE ∧
      writeToBuffer mE = .ok buf ∧ fromExisting buf = .ok m1 ∧ m1.view = v ∧
      m1.fileHeader = mE.fileHeader ∧ m1.modelData = mE.modelData ∧
      headerFlags m1.fileHeader buf.length m1.lods = HeaderFlags.allOk := by
  obtain ⟨mE, hE⟩ := edits_return_initial a h hcan v0 hv0 es hes hfit a' ha' ces hces
  obtain ⟨buf, m1, h1, h2, h3, h4, h5, h6⟩ :=
    edit_then_parse a h hcan v0 hv0 es hne hes a' ha' ces hces h' hlen' hcan' hne' v hv mE hE
  exact ⟨parsedOf a v0, mE, buf, m1, parse_encode a h (canonical_noWeightsByte4 a hcan) v0 hv0, hE,
    h1, h2, h5, h3, h4, h6⟩

/-- `canonicalSample` with one (empty) shape, so that `add_shape_mesh` has something to extend -/
def shapeSample : AbstractModel :=
  { canonicalSample with shapes := [⟨[0x73], ⟨0, 0, 0⟩, ⟨0, 0, 0⟩⟩] }

/-- a three-edit history on `shapeSample`: `remove_shape_meshes`; the mesh gets 3 new vertices
(canonical records: Position / Normal Half4 with their 1.0 / 0.0 lanes, BiTangent, Color, 2 slack
bytes), 6 indices, one sub-mesh `(0, 6)`; then `add_shape_mesh` with one shape value (base index 1)
and its replacement vertex -/
def sampleEdits : List AEdit :=
  let r0 : Bytes := [0x00, 0x3C, 0x00, 0xC0, 0x01, 0x00, 0x00, 0x3C,
                     0x00, 0x38, 0x00, 0x38, 0x00, 0xB8, 0x00, 0x00]
  let r1 : Bytes := [1, 128, 254, 255, 10, 20, 30, 40, 0, 0]
  [.removeShapes,
   .replace 0 0 3 [⟨16, r0 ++ (r0 ++ r0)⟩, ⟨10, r1 ++ (r1 ++ r1)⟩] [0, 1, 2, 2, 1, 0] [(0, 6)],
   .addShape 0 0 0 0 [1] [⟨16, r0⟩, ⟨10, r1⟩]]

/-- non-vacuity of `c07_edit_then_parse_partial` / `c07_edit_then_parse_total_partial`: every hypothesis holds on `shapeSample` with
`sampleEdits`, the concrete calls return, and the final view reports the added shape -/
example :
    (match view shapeSample, applyEdits shapeSample sampleEdits, cedits shapeSample sampleEdits with
     | some v0, some a', some ces =>
       WF shapeSample && Canonical shapeSample &&
       editsOk2 shapeSample sampleEdits && editsFit shapeSample sampleEdits && WF a' && Canonical a' &&
         usedNonempty a' &&
         decide ((encodeMdl (relayout a')).length < 4294967296) &&
         (match view a' with
          | some v => v.lods.all (fun ps => ps.all (fun p => p.shapes.length == 1 && p.vertices.length == 4))
          | none => false) &&
         isOk (ces.foldlM Mdl.applyEdit (parsedOf shapeSample v0))
     | _, _, _ => false) = true := by
  decide +kernel
/-- The concrete API calls the check's driver issues for an `edit` / `wbytes` case
(`Driver/C07.lean`: `concretizeAll`, run with `applyCEdit`) are the calls
`c07_edit_then_parse_partial` quantifies over (`cedits`, run with `Mdl.applyEdit`), on every history
the specification gives a meaning. -/
theorem c07_driver_calls (a a' : AbstractModel) (es : List AEdit) (h : applyEdits a es = some a') :
    (Driver.C07.concretizeAll a es).map (·.map toEdit) = cedits a es ∧
    ∀ (cs : List Driver.C07.CEdit) (m : MDL),
      cs.foldlM Driver.C07.applyCEdit m = (cs.map toEdit).foldlM Mdl.applyEdit m :=
  ⟨concretizeAll_eq es a a' h, foldlM_applyCEdit⟩

end Physis.C07

/-! ### redundant header copies: the writer (wredun) -/
namespace Physis.C07
open Physis Physis.Mdl Physis.Spec.Mdl Physis.SoftFloat

/-! A `.mdl` file stores offsets, sizes and the LOD count twice; `Spec/MdlRedundant.lean` lists which
copy `MDL::from_existing` uses and defines `encodeMdlR m ρ`, the file of `m` in which every copy the
reader does **not** use holds what `ρ` says (`c06_parse_redundant_partial`: it parses to the header
records as stored and to the geometry of `m`).  This block is the writer's half.  What
`write_to_buffer` / `update_headers` do with the copies, found by reading `Model/MdlWrite.lean`
against `src/model.rs`:

| copy | `write_to_buffer` | `update_headers` (end of every edit) |
|---|---|---|
| `MeshLod.vertexDataOffset` (read) | seek target of every vertex element | recomputed |
| `FileHeader.indexOffsets` (read) | seek target of the index data | recomputed (parsed LODs) |
| `MeshLod.indexDataOffset`, `edgeGeometryDataOffset`, `vertexBufferSize`, `indexBufferSize` | echoed | recomputed |
| `FileHeader.stackSize`, `runtimeSize` | echoed | recomputed |
| `FileHeader.vertexOffsets`, `vertexBufferSize`, `indexBufferSize` | echoed **and used for the final length**: the buffer is zero-extended to `max (offset + size)` (`declaredEnd`) | recomputed (parsed LODs only) |
| `FileHeader.lodCount` | echoed | not used, not recomputed (fix C07-06; before it bounded the first loop: mesh start indices, stream offsets) |

So no data is *placed* by an unread copy (the seeded change `C07-r6m2`, index seek through
`MeshLod.indexDataOffset`, is exactly a violation of `c07_writer_reads_same`), the unedited round
trip can only differ in trailing zeros, and since fix C07-06 (`update_headers` loops over the parsed
LODs, as `from_existing` and its own four copy loops do) no edit looks at an unread copy either; the
stale file-header LOD count is merely echoed into the written file, where the reader ignores it. -/

/-- **The geometry pass of the writer reads of the two header records what the reader reads, and
nothing else**: for any two pairs of records that agree on `ReadsSame` (`FileHeader.indexOffsets`;
per LOD row `meshIndex`, `meshCount`, `vertexDataOffset`; declarations, mesh / sub-mesh / shape
tables, strings, `ModelHeader.lodCount`, name offsets — `Proofs/MdlRedundant.lean`), any parts and any
buffer, the vertex / index pass of `write_to_buffer` is the same program run.  In particular no seek
target depends on `MeshLod.indexDataOffset`, `FileHeader.vertexOffsets` or any stored size.
(Counterpart of `c06_reader_ignores_redundant`.) -/
theorem c07_writer_reads_same (fh fh' : FileHeader) (md md' : ModelData)
    (hrs : ReadsSame fh fh' md md') (lods : List (List Part)) (buf : Array UInt8) :
    (∀ l, writePart fh' md' l = writePart fh md l) ∧
    writeLods fh' md' lods buf = writeLods fh md lods buf :=
  ⟨writePart_congrR hrs, writeLods_congrR hrs lods buf⟩

/-- **The writer echoes every stored copy and moves nothing** — for every well-formed canonical
model `m` and **every** `ρ`, no side condition: the model `m0` parsed from `encodeMdlR m ρ` is
written to a buffer that differs from that file by trailing zeros only.  Either the buffer is the
file followed by zeros (the zero fill up to the largest `offset + size` of the stored file header),
or the file is the buffer followed by zeros (possible only with three LODs in use: index padding
behind the last mesh, which the geometry pass never writes and which no declared section end
covers any more). -/
theorem c07_write_redundant_bytes (m : AbstractModel) (h : WF m = true) (hcan : Canonical m = true)
    (ρ : Redundant) (v : View) (hv : view m = some v) :
    ∃ m0 buf k, fromExisting (encodeMdlR m ρ) = .ok m0 ∧ writeToBuffer m0 = .ok buf ∧
      (buf = encodeMdlR m ρ ++ zeros k ∨ encodeMdlR m ρ = buf ++ zeros k) := by
  obtain ⟨buf, k, hw, hk⟩ := write_redundant_bytes m h hcan ρ v hv
  exact ⟨_, buf, k, parse_encodeR m h (canonical_noWeightsByte4 m hcan) ρ v hv, hw, hk⟩

/-- **Stale copies cannot move or corrupt anything the reader later reads** (parse → write → parse
on a file whose unread copies are arbitrary).  `m` well-formed and canonical (C07's quantifier, as
in `c07_write_parse`), `ρ` any replacement of the unread copies with `ρ.keepsTail m`: some section
end the stored file header declares reaches the end of the file.  Then `from_existing` on
`encodeMdlR m ρ` returns `m0`; `write_to_buffer m0` returns **that very file followed by zeros** up
to the declared end — i.e. `encodeMdlR m ρ'` for `ρ' = ρ` (every copy is echoed, none recomputed)
plus the fill —; and `from_existing` on the written buffer returns `m0` again: the view of `m`
(vertices, indices, sub-mesh ranges, raw streams, shapes, names), the file header and the
`model_data` as stored.  No bound on `ρ`: the declared end is computed in unbounded arithmetic
(`u64` in the code), nothing can wrap.

`keepsTail` is needed because the final length is the one thing the writer takes from unread copies
(`FileHeader.vertexOffsets`, `vertexBufferSize`, `indexBufferSize`).  It holds for **every** `ρ` when
fewer than three LODs are in use (`c07_redundant_keeps_tail`).

The full statement

  theorem c07_write_redundant (m) (WF m) (Canonical m) (ρ) (view m = some v) :
      ∃ m0 buf m1, fromExisting (encodeMdlR m ρ) = .ok m0 ∧ writeToBuffer m0 = .ok buf ∧
        fromExisting buf = .ok m1 ∧ m1.view = v ∧ m1.fileHeader = m0.fileHeader ∧ m1.modelData = m0.modelData

(no `keepsTail`) is believed true and checked by correspondence (`wredun` cases with `fvs` / `fis`
deltas on three-LOD models): in the remaining case the written buffer lacks only the zero index
padding behind the last mesh of LOD 2 (`c07_write_redundant_bytes`), which the reader never reads;
`c07_write_redundant_reparse` proves it up to "the re-parse returns".
"partial" also for the excluded classes of the recorded findings, as in `c07_write_parse`. -/
theorem c07_write_redundant_partial (m : AbstractModel) (h : WF m = true) (hcan : Canonical m = true)
    (ρ : Redundant) (hend : ρ.keepsTail m = true) (v : View) (hv : view m = some v) :
    ∃ m0 buf m1, fromExisting (encodeMdlR m ρ) = .ok m0 ∧ writeToBuffer m0 = .ok buf ∧
      buf = encodeMdlR m ρ ++ zeros (declaredEnd (ρ.fh (fileHeader m)) - (encodeMdlR m ρ).length) ∧
      fromExisting buf = .ok m1 ∧ m1 = m0 ∧ m1.view = v ∧
      m1.fileHeader = ρ.fh (fileHeader m) ∧ m1.modelData = ρ.md (modelData m) := by
  obtain ⟨buf, hw, hb, hp⟩ := write_redundant m h hcan ρ hend v hv
  exact ⟨_, buf, _, parse_encodeR m h (canonical_noWeightsByte4 m hcan) ρ v hv, hw, hb, hp, rfl, rfl,
    rfl, rfl⟩

/-- **For every `ρ`, without `keepsTail`**: the model `m0` parsed from `encodeMdlR m ρ` is written,
and the re-parse of the written buffer, **if it returns at all, returns `m0`** — the view of `m`,
the header records as stored.  Whatever the unread copies hold, they cannot make the reader report
a different model after a write; what `c07_write_redundant_partial` adds under `keepsTail` is that
the re-parse does return.  (Outside `keepsTail` the written buffer is the file minus trailing zero
index padding, `c07_write_redundant_bytes`; reads are monotone in the file, `afterHeaders_le`.) -/
theorem c07_write_redundant_reparse (m : AbstractModel) (h : WF m = true) (hcan : Canonical m = true)
    (ρ : Redundant) (v : View) (hv : view m = some v) :
    ∃ m0 buf, fromExisting (encodeMdlR m ρ) = .ok m0 ∧ writeToBuffer m0 = .ok buf ∧
      ∀ m1, fromExisting buf = .ok m1 → m1 = m0 ∧ m1.view = v := by
  obtain ⟨buf, hw, hp⟩ := write_redundant_reparse m h hcan ρ v hv
  exact ⟨_, buf, parse_encodeR m h (canonical_noWeightsByte4 m hcan) ρ v hv, hw,
    fun m1 h1 => ⟨hp m1 h1, by rw [hp m1 h1]; rfl⟩⟩

/-- with fewer than three LODs in use `keepsTail` holds for every `ρ`: the third LOD of a canonical
model is empty, so its index offset in the file header — a copy the reader uses, hence kept by
`ρ` — is the length of the file -/
theorem c07_redundant_keeps_tail (m : AbstractModel) (h : WF m = true) (hcan : Canonical m = true)
    (hc : m.lodCount.toNat < 3) (ρ : Redundant) : ρ.keepsTail m = true :=
  keepsTail_of_lodCount m h hcan hc ρ

/-- every unread copy `0xDEADBEEF`, the file header's LOD count `0xEF` (`Properties/C06.lean`
`sampleRedundant`) -/
def sampleRedundant : Redundant := Redundant.const 0xDEADBEEF 0xEF

/-- non-vacuity of `c07_write_redundant_partial` / `c07_write_redundant_bytes` /
`c07_redundant_keeps_tail`: the hypotheses hold on `canonicalSample` with every unread copy
overwritten, every replaced field differs from the consistent copy, and the declared end lies
7.4 GB behind the end of the file (the written buffer is the file followed by that many zeros) -/
example : WF canonicalSample = true ∧ Canonical canonicalSample = true ∧
    (view canonicalSample).isSome = true ∧ canonicalSample.lodCount.toNat < 3 ∧
    sampleRedundant.keepsTail canonicalSample = true ∧
    (let a := fileHeader canonicalSample; let b := sampleRedundant.fh a
     a.stackSize ≠ b.stackSize ∧ a.runtimeSize ≠ b.runtimeSize ∧ a.vertexOffsets ≠ b.vertexOffsets ∧
     a.vertexBufferSize ≠ b.vertexBufferSize ∧ a.indexBufferSize ≠ b.indexBufferSize ∧
     a.lodCount ≠ b.lodCount) ∧
    (List.zip (modelData canonicalSample).lods (sampleRedundant.md (modelData canonicalSample)).lods).all
      (fun (a, b) => a.edgeGeometryDataOffset != b.edgeGeometryDataOffset &&
        a.vertexBufferSize != b.vertexBufferSize && a.indexBufferSize != b.indexBufferSize &&
        a.indexDataOffset != b.indexDataOffset) = true ∧
    declaredEnd (sampleRedundant.fh (fileHeader canonicalSample)) = 2 * 0xDEADBEEF ∧
    (encodeMdlR canonicalSample sampleRedundant).length = 886 := by
  decide +kernel

/-- hypothesis of `c07_writer_reads_same` on the same records: they agree on every field that is read
(decided by evaluation) although every replaced field differs -/
example : ReadsSame (fileHeader canonicalSample) (sampleRedundant.fh (fileHeader canonicalSample))
    (modelData canonicalSample) (sampleRedundant.md (modelData canonicalSample)) := by
  decide +kernel

/-- `canonicalSample` with its mesh in all three LODs, all in use -/
def threeLodSample : AbstractModel :=
  { canonicalSample with
    lodCount := 3
    lods := canonicalSample.lods.take 1 ++ (canonicalSample.lods.take 1 ++ canonicalSample.lods.take 1) }

/-- the case outside `keepsTail` exists (second alternative of `c07_write_redundant_bytes`, the case
`c07_write_redundant_reparse` is about): three LODs in use, every stored size and the file header's
vertex offsets 0 — the largest declared end is the start of LOD 2's index section, 16 bytes before
the end of the 1398-byte file.  (Evaluated with `#eval`, not kernel-checked for time: the written
buffer has 1388 bytes — the file without the 10 bytes of index padding behind the last mesh — and
re-parses to the view of the model.) -/
example : WF threeLodSample = true ∧ Canonical threeLodSample = true ∧
    (view threeLodSample).isSome = true ∧
    (Redundant.const 0 3).keepsTail threeLodSample = false ∧
    (encodeMdlR threeLodSample (Redundant.const 0 3)).length = 1398 ∧
    declaredEnd ((Redundant.const 0 3).fh (fileHeader threeLodSample)) = 1382 := by
  decide +kernel

/-- sanity (test, labelled as such): the executable model run on a concrete file with perturbed
copies (every unread `u32` copy 40, file-header LOD count 7): the written buffer is the file followed
by zeros up to the declared end 926 (index offset of LOD 2 — kept, the file length — + 40) … -/
example :
    ((fromExisting (encodeMdlR canonicalSample (Redundant.const 40 7))).toOption.bind
        (fun m0 => (writeToBuffer m0).toOption)) =
      some (encodeMdlR canonicalSample (Redundant.const 40 7) ++ zeros (926 - 886)) := by
  decide +kernel

/-- … and that buffer re-parses to the view of the model -/
example :
    ((fromExisting (encodeMdlR canonicalSample (Redundant.const 40 7) ++ zeros (926 - 886))).map
        MDL.view).toOption = view canonicalSample := by
  decide +kernel

/-- **The same after edits — for every `ρ`.**  `a` well-formed and canonical, `ρ` **any** replacement
of the unread copies; history, side conditions and conclusion as in `c07_edit_then_parse_partial`,
with the session starting from `encodeMdlR a ρ` instead of `encodeMdl a`: for every outcome `mE` of
the edit calls that returns, `write_to_buffer mE` returns a buffer whose re-parse reports exactly
`view a'`, with `mE`'s `file_header` and `model_data`.  Stale stored stack / runtime sizes, offsets
and buffer sizes in either table are all recomputed by the `update_headers` call every edit ends
with (seeded change `C07-r7m2`: sizes recomputed only when a shape table changed); the stored
file-header LOD count is read by nobody (fix C07-06) and echoed into the written file
(`m1.fileHeader = mE.fileHeader`, whose `lodCount` is still `ρ`'s).  The header flags are all ok when
moreover the size slots `ρ` stores for the LODs **not in use** are 0: `update_headers` never rewrites
the file-header slots of unparsed LODs.

Before fix C07-06 this needed `ρ.fileLodCount a.lodCount = a.lodCount` and was false without:
`update_headers` bounded its first loop by `file_header.lod_count` while the reader loops over
`model_data.header.lod_count` — a stored count below the real one left stale mesh offsets behind
(the written file re-parsed to other vertices), a count above 3 panicked (fixed defect
`file-lod-count`, witnesses `corpus/C07/fx-06-file-lod-count*.case`, found while proving this theorem).
Proof: the abstraction relation `Rep` of the edit route forgets every field `ρ` replaces
(`rep_initialR`).  `_partial` as `c07_edit_then_parse_partial`. -/
theorem c07_edit_redundant_partial (a : AbstractModel) (h : WF a = true) (hcan : Canonical a = true)
    (ρ : Redundant) (v0 : View) (hv0 : view a = some v0)
    (es : List AEdit) (hne : es ≠ []) (hes : editsOk2 a es = true)
    (a' : AbstractModel) (ha' : applyEdits a es = some a')
    (ces : List Edit) (hces : cedits a es = some ces)
    (h' : WF a' = true) (hlen' : (encodeMdl (relayout a')).length < 4294967296)
    (hcan' : Canonical a' = true) (hne' : usedNonempty a' = true)
    (v : View) (hv : view a' = some v) :
    ∃ m0, fromExisting (encodeMdlR a ρ) = .ok m0 ∧
      ∀ mE, ces.foldlM Mdl.applyEdit m0 = .ok mE →
        ∃ buf m1, writeToBuffer mE = .ok buf ∧ fromExisting buf = .ok m1 ∧ m1.view = v ∧
          m1.fileHeader = mE.fileHeader ∧ m1.modelData = mE.modelData ∧
          (UnusedEmpty a.lodCount.toNat (ρ.fh (fileHeader a)) →
            headerFlags m1.fileHeader buf.length m1.lods = HeaderFlags.allOk) := by
  refine ⟨parsedR a ρ v0, parse_encodeR a h (canonical_noWeightsByte4 a hcan) ρ v0 hv0, fun mE hE => ?_⟩
  obtain ⟨buf, m1, h1, h2, h3, h4, h5, h6⟩ :=
    edit_then_parseR a h hcan ρ v0 hv0 es hne hes a' ha' ces hces h' hlen' hcan' hne' v hv mE hE
  exact ⟨buf, m1, h1, h2, h5, h3, h4, h6⟩

/-- … and under `editsFit` the edit calls on the model parsed from `encodeMdlR a ρ` return -/
theorem c07_edit_redundant_total_partial (a : AbstractModel) (h : WF a = true)
    (hcan : Canonical a = true) (ρ : Redundant)
    (v0 : View) (hv0 : view a = some v0)
    (es : List AEdit) (hne : es ≠ []) (hes : editsOk2 a es = true) (hfit : editsFit a es = true)
    (a' : AbstractModel) (ha' : applyEdits a es = some a')
    (ces : List Edit) (hces : cedits a es = some ces)
    (h' : WF a' = true) (hlen' : (encodeMdl (relayout a')).length < 4294967296)
    (hcan' : Canonical a' = true) (hne' : usedNonempty a' = true)
    (v : View) (hv : view a' = some v) :
    ∃ m0 mE buf m1, fromExisting (encodeMdlR a ρ) = .ok m0 ∧ ces.foldlM Mdl.applyEdit m0 = .ok mE ∧
      writeToBuffer mE = .ok buf ∧ fromExisting buf = .ok m1 ∧ m1.view = v ∧
      m1.fileHeader = mE.fileHeader ∧ m1.modelData = mE.modelData ∧
      (UnusedEmpty a.lodCount.toNat (ρ.fh (fileHeader a)) →
        headerFlags m1.fileHeader buf.length m1.lods = HeaderFlags.allOk) := by
  obtain ⟨mE, hE⟩ := edits_return_initialR a h hcan ρ v0 hv0 es hes hfit a' ha' ces hces
  obtain ⟨buf, m1, h1, h2, h3, h4, h5, h6⟩ :=
    edit_then_parseR a h hcan ρ v0 hv0 es hne hes a' ha' ces hces h' hlen' hcan' hne' v hv mE hE
  exact ⟨parsedR a ρ v0, mE, buf, m1, parse_encodeR a h (canonical_noWeightsByte4 a hcan) ρ v0 hv0,
    hE, h1, h2, h5, h3, h4, h6⟩

/-- stale copies for an edit session on `shapeSample`: every unread `u32` copy of the LOD in use
`0xDEADBEEF` (stack / runtime size, all LOD-table copies, slot 0 of the file-header arrays), the
slots of the two unused LODs 0, the file header's LOD count 0 (one LOD is in use) -/
def staleRedundant : Redundant :=
  { Redundant.const 0xDEADBEEF 0 with
    vertexOffsets := fun _ => ⟨0xDEADBEEF, 0, 0⟩
    vertexBufferSize := fun _ => ⟨0xDEADBEEF, 0, 0⟩
    indexBufferSize := fun _ => ⟨0xDEADBEEF, 0, 0⟩ }

/-- non-vacuity of `c07_edit_redundant_partial` / `_total_partial`: the hypotheses of
`c07_edit_then_parse_total_partial` on `shapeSample` / `sampleEdits` (see there), the stored
file-header LOD count differs from the real one, the unused-slot condition of the flags, and the edit calls on the model parsed from the perturbed file
return -/
example :
    (staleRedundant.fh (fileHeader shapeSample)).lodCount ≠ (fileHeader shapeSample).lodCount ∧
    UnusedEmpty shapeSample.lodCount.toNat (staleRedundant.fh (fileHeader shapeSample)) ∧
    (match view shapeSample, applyEdits shapeSample sampleEdits, cedits shapeSample sampleEdits with
     | some v0, some a', some ces =>
       WF shapeSample && Canonical shapeSample &&
       editsOk2 shapeSample sampleEdits && editsFit shapeSample sampleEdits && WF a' && Canonical a' &&
         usedNonempty a' && decide ((encodeMdl (relayout a')).length < 4294967296) &&
         (view a').isSome && isOk (ces.foldlM Mdl.applyEdit (parsedR shapeSample staleRedundant v0))
     | _, _, _ => false) = true := by
  refine ⟨by decide +kernel, ?_, by decide +kernel⟩
  intro i h1 h3
  have hi : i = 1 ∨ i = 2 := by
    have : shapeSample.lodCount.toNat = 1 := by decide +kernel
    omega
  rcases hi with rfl | rfl <;> decide +kernel

end Physis.C07
