import PhysisModel.Proofs.SoftFloat
import PhysisModel.Model.MdlWrite
import PhysisModel.Spec.MdlEdit
/-!
# C07 — written models re-read as the same model, including after edits
-/
namespace Physis.C07
open Physis Physis.Mdl Physis.Spec.Mdl Physis.SoftFloat

/-- Re-encoding a decoded attribute reproduces the stored bytes for every canonical encoding —
exhaustively: all 63 488 non-NaN half patterns (`f16::from_f32 ∘ f16::to_f32`), all 256 values of
a normalised byte (`round(x·255) as u8 ∘ b/255`), all 256 values of a tangent component
(`round((x+1)·127.5) as u8 ∘ (2b/255 − 1)`), and the handedness byte for its canonical values. -/
theorem c07_codec_reencode :
    (∀ h : UInt16, isNaN16 h = false → f32ToHalf (halfToF32 h) = h) ∧
    (∀ b : UInt8, writeByteFloat (readByteFloat b) = b) ∧
    (∀ b : UInt8, writeTangentXYZ (readTangentXYZ b) = b) ∧
    (∀ b : UInt8, writeTangentW (readTangentW b) = (if b = 255 then 255 else 0)) :=
  ⟨half_reencode, byteFloat_reencode, tangent_reencode, tangentW_reencode⟩

/-- the recorded finding on (BlendWeights, Byte4): `write_byte_float42 ∘ read_tangent` is the
identity on no byte but 0 -/
theorem c07_blendweights_byte4_witness :
    ∀ b : UInt8, writeByteFloat42 (readTangentXYZ b) = b ↔ b = 0 :=
  byte42_fixed_iff

end Physis.C07
