import PhysisModel.Proofs.SoftFloat
import PhysisModel.Proofs.MdlHeaders
import PhysisModel.Model.MdlWrite
import PhysisModel.Spec.MdlEdit
/-!
# C07 — written models re-read as the same model, including after edits
-/
namespace Physis.C07
open Physis Physis.Mdl Physis.Spec.Mdl Physis.SoftFloat

/-- Re-encoding a decoded attribute reproduces the stored bytes for every canonical encoding —
exhaustively: all 63 488 non-NaN half patterns (`f16::from_f32 ∘ f16::to_f32`), all 256 values of
a normalised byte (`round(x·255) as u8 ∘ b/255`), all 256 values of a tangent component
(`round((x+1)·127.5) as u8 ∘ (2b/255 − 1)`), and the handedness byte for its canonical values. -/
theorem c07_codec_reencode :
    (∀ h : UInt16, isNaN16 h = false → f32ToHalf (halfToF32 h) = h) ∧
    (∀ b : UInt8, writeByteFloat (readByteFloat b) = b) ∧
    (∀ b : UInt8, writeTangentXYZ (readTangentXYZ b) = b) ∧
    (∀ b : UInt8, writeTangentW (readTangentW b) = (if b = 255 then 255 else 0)) :=
  ⟨half_reencode, byteFloat_reencode, tangent_reencode, tangentW_reencode⟩

/-- the recorded finding on (BlendWeights, Byte4): `write_byte_float42 ∘ read_tangent` is the
identity on no byte but 0 -/
theorem c07_blendweights_byte4_witness :
    ∀ b : UInt8, writeByteFloat42 (readTangentXYZ b) = b ↔ b = 0 :=
  byte42_fixed_iff

/-! ## header self-consistency over all edit histories

`HeaderOK` (`Proofs/MdlHeaders.lean`): the three `MeshLod` rows form a chain — LOD 0's vertex section
starts at `0x44 + stack_size + runtime_size`, every index section starts where its vertex section
ends, the next LOD where the index section ends (hence pairwise disjoint, ordered, after the
runtime block); every row's vertex size is Σ vertex count × Σ stream strides over its meshes; its
index size is `(E/16 + 1)·16 mod 2³²` with `E` the largest `2·(start_index + index_count)` of its
meshes; `stack_size = declarations·136`; `runtime_size = calculate_runtime_size`; the file-header
arrays repeat the rows of the parsed LODs; shape counts match the tables; and (for used LODs owning
disjoint mesh ranges) the stream offsets of every mesh are the running sums — disjoint, inside the
vertex section. -/

/-- **Invariant over all edit histories** (induction over the edit list; every operation
re-establishes it because it ends in `update_headers`): after any sequence of
`replace_vertices` / `remove_shape_meshes` / `add_shape_mesh` calls with arbitrary arguments that
does not panic, the headers are self-consistent. -/
theorem c07_headers_consistent (es : List Edit) (m m' : MDL) (h0 : HeaderOK m)
    (h : es.foldlM Mdl.applyEdit m = .ok m') : HeaderOK m' :=
  headers_consistent es m m' h0 h

/-- … and a non-empty history needs no assumption on the model it starts from -/
theorem c07_headers_consistent_after_edit (es : List Edit) (hne : es ≠ []) (m m' : MDL)
    (h : es.foldlM Mdl.applyEdit m = .ok m') : HeaderOK m' :=
  headers_consistent_of_ne_nil es hne m m' h

/-- the section layout in the words of the property: for the three LOD rows, offsets chain from the
end of the runtime block, each section starting where the previous one ends -/
theorem c07_sections_chain {m : MDL} (h : HeaderOK m) {l0 l1 l2 : MeshLod}
    (h3 : m.modelData.lods = [l0, l1, l2]) :
    l0.vertexDataOffset.toNat = 68 + m.fileHeader.stackSize.toNat + m.fileHeader.runtimeSize.toNat ∧
    l0.indexDataOffset.toNat = l0.vertexDataOffset.toNat + l0.vertexBufferSize.toNat ∧
    l1.vertexDataOffset.toNat = l0.indexDataOffset.toNat + l0.indexBufferSize.toNat ∧
    l1.indexDataOffset.toNat = l1.vertexDataOffset.toNat + l1.vertexBufferSize.toNat ∧
    l2.vertexDataOffset.toNat = l1.indexDataOffset.toNat + l1.indexBufferSize.toNat ∧
    l2.indexDataOffset.toNat = l2.vertexDataOffset.toNat + l2.vertexBufferSize.toNat ∧
    l0.edgeGeometryDataOffset = l0.indexDataOffset ∧ l1.edgeGeometryDataOffset = l1.indexDataOffset ∧
    l2.edgeGeometryDataOffset = l2.indexDataOffset :=
  h.three_rows h3

/-- index sections are 16-byte padded and (unless `2·(start+count)` comes within 16 bytes of 2³²,
where the code's `wrapping_add` wraps to 0 — `index_padding_wrap_witness`) hold every mesh's index
range, exceeding the largest one by 1..16 bytes -/
theorem c07_index_section_padded {ms : List Mesh} {l : MeshLod} (h : RowOK ms l) :
    l.indexBufferSize.toNat % 16 = 0 ∧
    (indexExtentTo ms l.meshIndex.toNat l.meshCount.toNat < 4294967280 →
      (∀ d, d < l.meshCount.toNat →
        (meshAt ms (l.meshIndex.toNat + d)).indexExtent ≤ l.indexBufferSize.toNat) ∧
      l.indexBufferSize.toNat ≤ indexExtentTo ms l.meshIndex.toNat l.meshCount.toNat + 16) :=
  ⟨h.index_mod16, fun hw => ⟨(h.index_bounds hw).1, (h.index_bounds hw).2.2⟩⟩

/-- the per-mesh stream offsets after any history on a model with three rows whose used LODs own
disjoint mesh ranges: running sums of count × stride (pairwise disjoint ranges inside the LOD's
vertex section: `StreamsUpTo.ordered`, `HeaderOK.stream_in_section`) -/
theorem c07_stream_offsets (es : List Edit) (m m' : MDL) (h0 : Inv m)
    (h : es.foldlM Mdl.applyEdit m = .ok m') (i : Nat) (hi : i < m'.fileHeader.lodCount.toNat) :
    StreamsOK m'.modelData.meshes (lodAt m'.modelData.lods i) :=
  history_streams es m m' h0 h i hi

/-- non-vacuity: a three-edit history on the concrete consistent model `exOut` (1 LOD in use,
2 meshes, 2 streams each) succeeds and keeps the invariant -/
example : ∃ m', exHistory.foldlM Mdl.applyEdit exOut = .ok m' ∧ HeaderOK m' := by
  obtain ⟨m', h⟩ := exists_ok (r := exHistory.foldlM Mdl.applyEdit exOut) (by rfl)
  exact ⟨m', h, c07_headers_consistent exHistory exOut m' (by decide +kernel) h⟩

end Physis.C07
