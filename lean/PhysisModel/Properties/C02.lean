import PhysisModel.Proofs.Dat
import PhysisModel.Proofs.DatGapped
import PhysisModel.Properties.C01
import PhysisModel.Proofs.BinrwTieDat
/-!
# C02 — extraction returns exactly the bytes that were packed

Property theorems only (helper lemmas: `Proofs/Reader`, `Proofs/Dat`).

Setting.  `packStandard / packTexture / packModel` (`Spec/SqPackData.lean`) lay an entry out as
SqPack does; the dat file is `pre ++ entry ++ suf` for **any** bytes `pre`, `suf` (so the entry
sits at any offset, in particular any 128-aligned one, in any dat file); `readFromOffset` is the
model of `SqPackData::read_from_offset`.  `inflate` — zlib's raw inflate behind
`no_header_decompress` — is a parameter; the only thing assumed about it is `Deflated inflate b`
for the blocks that are stored deflated: their stream inflates to their content.
Results are `some (some bytes)`: no panic, `Some(bytes)`.
-/
namespace Physis.C02
open Physis Physis.Dat Physis.Spec.SqPackData

/-- a raw block (marker 32000) reads back as its content — whatever `inflate` is -/
theorem c02_block_raw (inflate : Inflate) (b : Block) (hraw : b.compressed = none) (hwf : b.wf = true)
    (whole rest : Bytes) (pos : Nat) (hw : whole.drop pos = encodeBlock b ++ rest) :
    readDataBlock inflate whole pos = some (some b.data) :=
  readDataBlock_encode inflate b hwf (fun c hc => by rw [hraw] at hc; cases hc) whole rest pos hw

/-- a deflated block reads back as its content as soon as its stream inflates to it -/
theorem c02_block_deflated (inflate : Inflate) (b : Block) (c : Bytes) (hc : b.compressed = some c)
    (hinf : inflate c b.data.length = some b.data) (hwf : b.wf = true)
    (whole rest : Bytes) (pos : Nat) (hw : whole.drop pos = encodeBlock b ++ rest) :
    readDataBlock inflate whole pos = some (some b.data) :=
  readDataBlock_encode inflate b hwf
    (fun c' hc' => by rw [hc] at hc'; cases hc'; exact hinf) whole rest pos hw

/-- a standard entry yields the concatenation of its blocks: for all contents, all splits into
blocks, every raw/deflated choice, at every offset -/
theorem c02_standard (inflate : Inflate) (bs : List Block) (hwf : standardWf bs = true)
    (hd : ∀ b ∈ bs, Deflated inflate b) (pre suf : Bytes)
    (hsz : pre.length + (packStandard bs).length < 18446744073709551616) :
    readFromOffset inflate (pre ++ packStandard bs ++ suf) pre.length = some (some (contents bs)) :=
  readFromOffset_standard inflate bs hwf hd pre suf hsz

/-- a texture entry yields the texture header followed by every mip block in order -/
theorem c02_texture (inflate : Inflate) (texHeader : Bytes) (mips : List (List Block))
    (hwf : textureWf texHeader mips = true) (hd : ∀ b ∈ mips.flatten, Deflated inflate b)
    (pre suf : Bytes) (hsz : pre.length + (packTexture texHeader mips).length < 18446744073709551616) :
    readFromOffset inflate (pre ++ packTexture texHeader mips ++ suf) pre.length =
      some (some (texHeader ++ contents mips.flatten)) :=
  readFromOffset_texture inflate texHeader mips hwf hd pre suf hsz

/-- A model entry yields the 0x44-byte model file header followed by the stack, the runtime and,
for LOD 0, 1, 2 in turn, the vertex, edge-geometry and index sections — for arbitrary block counts
in each of the eleven runs (with fix C02-01; before it the edge-geometry runs were skipped without
advancing the block-size index). -/
theorem c02_model (inflate : Inflate) (m : ModelMeta) (s : ModelSections)
    (hwf : modelWf s = true) (hd : ∀ b ∈ s.all, Deflated inflate b) (pre suf : Bytes)
    (hsz : pre.length + (packModel m s).length < 18446744073709551616) :
    readFromOffset inflate (pre ++ packModel m s ++ suf) pre.length =
      some (some (encodeMdlHeader (mdlHeaderOf m s) ++
        (contents s.stack ++ contents s.runtime ++ contents s.v0 ++ contents s.e0 ++ contents s.i0 ++ contents s.v1 ++ contents s.e1 ++ contents s.i1 ++ contents s.v2 ++ contents s.e2 ++ contents s.i2))) := by
  rw [readFromOffset_model inflate m s hwf hd pre suf hsz]
  simp only [unpackedModel, ModelSections.all, contents_append]

/-- The synthesized header describes the reassembled file byte for byte: the stack and runtime
sizes, and for every LOD the vertex / index offsets and sizes, are the positions and lengths of
those sections in the output (a section without blocks has size 0 and offset 0). -/
theorem c02_model_header_describes (m : ModelMeta) (s : ModelSections) :
    let h := mdlHeaderOf m s
    let out := unpackedModel m s
    out.length = 68 + (contents s.all).length ∧
    slice out 68 h.stackSize = contents s.stack ∧
    slice out (68 + h.stackSize) h.runtimeSize = contents s.runtime ∧
    (s.v0 ≠ [] → slice out h.vertexOffsets.1 h.vertexBufferSize.1 = contents s.v0) ∧
    (s.i0 ≠ [] → slice out h.indexOffsets.1 h.indexBufferSize.1 = contents s.i0) ∧
    (s.v1 ≠ [] → slice out h.vertexOffsets.2.1 h.vertexBufferSize.2.1 = contents s.v1) ∧
    (s.i1 ≠ [] → slice out h.indexOffsets.2.1 h.indexBufferSize.2.1 = contents s.i1) ∧
    (s.v2 ≠ [] → slice out h.vertexOffsets.2.2 h.vertexBufferSize.2.2 = contents s.v2) ∧
    (s.i2 ≠ [] → slice out h.indexOffsets.2.2 h.indexBufferSize.2.2 = contents s.i2) ∧
    (s.v0 = [] → h.vertexBufferSize.1 = 0) ∧ (s.i0 = [] → h.indexBufferSize.1 = 0) ∧
    (s.v1 = [] → h.vertexBufferSize.2.1 = 0) ∧ (s.i1 = [] → h.indexBufferSize.2.1 = 0) ∧
    (s.v2 = [] → h.vertexBufferSize.2.2 = 0) ∧ (s.i2 = [] → h.indexBufferSize.2.2 = 0) := by
  intro h out
  obtain ⟨st, rt, v0, e0, i0, v1, e1, i1, v2, e2, i2⟩ := s
  have hH := encodeMdlHeader_length h
  have key : ∀ (x y z : Bytes) (off len : Nat), out = x ++ y ++ z → off = x.length → len = y.length →
      slice out off len = y := by
    intro x y z off len e1 e2 e3; rw [e1, e2, e3]; exact slice_mid x y z
  have hsec : ∀ (sec : List Block) (p : Nat), sec ≠ [] → secOffset sec p = p := by
    intro sec p hne; cases sec with
    | nil => exact absurd rfl hne
    | cons b bs => rfl
  have hout : out = encodeMdlHeader h ++ (contents st ++ contents rt ++ contents v0 ++ contents e0 ++ contents i0 ++ contents v1 ++ contents e1 ++ contents i1 ++ contents v2 ++ contents e2 ++ contents i2) := by
    simp only [out, h, unpackedModel, ModelSections.all, contents_append]
  refine ⟨?_, ?_, ?_, ?_, ?_, ?_, ?_, ?_, ?_, ?_, ?_, ?_, ?_, ?_, ?_⟩
  · simp only [hout, List.length_append, hH, ModelSections.all, contents_append]
  · apply key (encodeMdlHeader h) (contents st) (contents rt ++ contents v0 ++ contents e0 ++ contents i0 ++ contents v1 ++ contents e1 ++ contents i1 ++ contents v2 ++ contents e2 ++ contents i2)
    · simp only [hout, List.append_assoc]
    · exact hH.symm
    · rfl
  · apply key (encodeMdlHeader h ++ contents st) (contents rt) (contents v0 ++ contents e0 ++ contents i0 ++ contents v1 ++ contents e1 ++ contents i1 ++ contents v2 ++ contents e2 ++ contents i2)
    · simp only [hout, List.append_assoc]
    · simp only [List.length_append, hH]; rfl
    · rfl
  · intro hne
    apply key (encodeMdlHeader h ++ contents st ++ contents rt) (contents v0) (contents e0 ++ contents i0 ++ contents v1 ++ contents e1 ++ contents i1 ++ contents v2 ++ contents e2 ++ contents i2)
    · simp only [hout, List.append_assoc, List.append_nil]
    · simp only [h, mdlHeaderOf, hsec v0 _ hne, List.length_append, encodeMdlHeader_length, conLen]
    · rfl
  · intro hne
    apply key (encodeMdlHeader h ++ contents st ++ contents rt ++ contents v0 ++ contents e0) (contents i0) (contents v1 ++ contents e1 ++ contents i1 ++ contents v2 ++ contents e2 ++ contents i2)
    · simp only [hout, List.append_assoc, List.append_nil]
    · simp only [h, mdlHeaderOf, hsec i0 _ hne, List.length_append, encodeMdlHeader_length, conLen]
    · rfl
  · intro hne
    apply key (encodeMdlHeader h ++ contents st ++ contents rt ++ contents v0 ++ contents e0 ++ contents i0) (contents v1) (contents e1 ++ contents i1 ++ contents v2 ++ contents e2 ++ contents i2)
    · simp only [hout, List.append_assoc, List.append_nil]
    · simp only [h, mdlHeaderOf, hsec v1 _ hne, List.length_append, encodeMdlHeader_length, conLen]
    · rfl
  · intro hne
    apply key (encodeMdlHeader h ++ contents st ++ contents rt ++ contents v0 ++ contents e0 ++ contents i0 ++ contents v1 ++ contents e1) (contents i1) (contents v2 ++ contents e2 ++ contents i2)
    · simp only [hout, List.append_assoc, List.append_nil]
    · simp only [h, mdlHeaderOf, hsec i1 _ hne, List.length_append, encodeMdlHeader_length, conLen]
    · rfl
  · intro hne
    apply key (encodeMdlHeader h ++ contents st ++ contents rt ++ contents v0 ++ contents e0 ++ contents i0 ++ contents v1 ++ contents e1 ++ contents i1) (contents v2) (contents e2 ++ contents i2)
    · simp only [hout, List.append_assoc, List.append_nil]
    · simp only [h, mdlHeaderOf, hsec v2 _ hne, List.length_append, encodeMdlHeader_length, conLen]
    · rfl
  · intro hne
    apply key (encodeMdlHeader h ++ contents st ++ contents rt ++ contents v0 ++ contents e0 ++ contents i0 ++ contents v1 ++ contents e1 ++ contents i1 ++ contents v2 ++ contents e2) (contents i2) ([])
    · simp only [hout, List.append_assoc, List.append_nil]
    · simp only [h, mdlHeaderOf, hsec i2 _ hne, List.length_append, encodeMdlHeader_length, conLen]
    · rfl
  all_goals
    intro he
    simp only [] at he
    subst he
    rfl

/-- End to end (C01 + C02): if a stored path's index entry points at a packed standard entry in its
dat file, `GameData::extract(path)` returns exactly the packed content — after any query history,
whatever else the dat file contains. -/
theorem c02_extract_standard (inflate : Inflate) (disk : GameData.Disk) (a : Spec.Archive.Archive)
    (hr : Spec.Archive.Realises disk a) (hw : a.WF) (qs : List GameData.Query) (p : Bytes)
    (l : Spec.Archive.Loc) (hl : Spec.Archive.locate a p = some l)
    (bs : List Block) (hwf : standardWf bs = true) (hd : ∀ b ∈ bs, Deflated inflate b) (pre suf : Bytes)
    (hoff : pre.length = l.offset.toNat)
    (hsz : pre.length + (packStandard bs).length < 18446744073709551616)
    (hdat : disk (Spec.Archive.repoDir l.exp)
      (Spec.Archive.datName a.platform l.exp l.cat l.chunk l.datId.toNat) = some (pre ++ packStandard bs ++ suf)) :
    (GameData.extractFull inflate disk (GameData.run disk (GameData.fresh a) qs) p).1 =
      some (some (contents bs)) := by
  rw [C01.c01_extract_reads inflate disk a hr hw qs p, hl]
  simp only [hdat, ← hoff]
  exact c02_standard inflate bs hwf hd pre suf hsz

/-! ### non-vacuity: an `inflate` that understands RFC 1951 *stored* blocks, and a mixed entry -/

/-- inflate for a stream made of one final stored block: `01 LEN NLEN data` -/
def storedInflate : Inflate := fun c n =>
  match c with
  | 1 :: lo :: hi :: _ :: _ :: d => if d.length = n ∧ lo.toNat + 256 * hi.toNat = n then some d else none
  | _ => none

/-- a raw block `[10,20,30,40,50]` and a deflated (stored-stream) block `[1,2,3]` -/
def b1 : Block := { data := [10, 20, 30, 40, 50], compressed := none }
def b2 : Block := { data := [1, 2, 3], compressed := some [1, 3, 0, 252, 255, 1, 2, 3] }

example : standardWf [b1, b2] = true := by decide +kernel
example : ∀ b ∈ [b1, b2], Deflated storedInflate b := by
  intro b hb c hc
  simp only [List.mem_cons, List.mem_nil_iff, or_false] at hb
  rcases hb with rfl | rfl
  · cases hc
  · cases hc; decide
example : textureWf [9, 9, 9, 9] [[b1], [b2, b1], []] = true := by decide +kernel
example : modelWf ⟨[b1], [b2], [b1, b2], [b1], [], [], [], [b2], [], [b2, b2], []⟩ = true := by decide +kernel
/-- the model evaluated on a concrete packed file (a test, labelled as such): two blocks behind a
128-byte prefix -/
example : readFromOffset storedInflate (List.replicate 128 7 ++ packStandard [b1, b2] ++ [5, 5]) 128 =
    some (some [10, 20, 30, 40, 50, 1, 2, 3]) := by decide +kernel

end Physis.C02

/-! ### T4: binrw declarations regenerated from the source

`Generated/BinrwDat.lean` is re-translated from the `#[binrw]`/`#[derive(BinRead)]` declarations of
`src/sqpack/data.rs` on every run (`lib/binrw2lean.py`); the hand-written readers of `Model/Dat.lean`
are `Layout.read` of the regenerated descriptors followed by a pure projection
(`Proofs/BinrwTieDat.lean`), for all inputs. -/
namespace Physis.C02
open Physis.Binrw Physis.Generated

theorem c02_binrw_TextureLodBlock (l : Bytes) :
    Dat.readLod l = via BinrwTie.Dat.lodOf (Layout.read BinrwTie.Dat.endian BinrwDat.textureLodBlock l) :=
  BinrwTie.Dat.readLod_eq_generated l

/-- `Vec<TextureLodBlock>` with `count = n` -/
theorem c02_binrw_TextureLodBlock_vec (n : Nat) (l : Bytes) :
    Dat.readLods n l =
      (repeatN (Kind.read BinrwTie.Dat.endian [] (.struct BinrwDat.textureLodBlock)) n l).bind fun vs =>
        (projAll BinrwTie.Dat.lodOfV vs.1).map (·, vs.2) :=
  BinrwTie.Dat.readLods_eq_generated n l

/-- `Block` (`offset: i32`, `pad_after = 4`) × n -/
theorem c02_binrw_Block_vec (n : Nat) (l : Bytes) :
    Dat.readBlocks n l =
      (repeatN (Kind.read .little [] (.struct BinrwDat.block)) n l).bind fun vs =>
        (projAll BinrwTie.Dat.offsetOfV vs.1).map (·, vs.2) :=
  BinrwTie.Dat.readBlocks_eq_generated n l

/-- `BlockHeader`: the translated prefix (size, pad 4, x, y), then `compression` reads one more i32
and restores the position -/
theorem c02_binrw_BlockHeader (l : Bytes) :
    Dat.readBlockHeader l =
      (via BinrwTie.Dat.blockHeaderOf (Layout.read .little BinrwDat.blockHeader l)).bind fun x =>
        (Reader.u32le x.2).map fun _ => x :=
  BinrwTie.Dat.readBlockHeader_eq_generated l

/-- `FileInfo`: the translated prefix (size, `file_type` as `repr = i32` enum {1,2,3,4}, file_size), then the
block `file_type` selects — `StandardFileBlock` and `TextureBlock` (`count = num_blocks`) through their
regenerated layouts -/
theorem c02_binrw_FileInfo (l : Bytes) :
    Dat.readFileInfo l =
      (Layout.read .little BinrwDat.fileInfo l).bind
        (BinrwTie.Dat.infoRest BinrwDat.standardFileBlock BinrwDat.textureBlock) :=
  BinrwTie.Dat.readFileInfo_eq_generated l

end Physis.C02

/-! ### T4 (continued): `ModelFileBlock` and the instantiations of the generic `ModelMemorySizes<T>` -/
namespace Physis.C02
open Physis.Binrw Physis.Generated

theorem c02_binrw_ModelMemorySizes_u32 (l : Bytes) :
    Dat.readMMS Reader.u32le l =
      via BinrwTie.Dat.mms32Of (Layout.read BinrwTie.Dat.endian BinrwDat.modelMemorySizes_u32 l) :=
  BinrwTie.Dat.readMMS32_eq_generated l

theorem c02_binrw_ModelMemorySizes_u16 (l : Bytes) :
    Dat.readMMS Reader.u16le l =
      via BinrwTie.Dat.mms16Of (Layout.read BinrwTie.Dat.endian BinrwDat.modelMemorySizes_u16 l) :=
  BinrwTie.Dat.readMMS16_eq_generated l

/-- the whole `ModelFileBlock` (63 primitive reads, `pad_after = 1`); the two
`map = read_bool_from::<u8>` closures are applied by the projection -/
theorem c02_binrw_ModelFileBlock (l : Bytes) :
    Dat.readModelFileBlock l =
      via BinrwTie.Dat.modelFileBlockOf (Layout.read BinrwTie.Dat.endian BinrwDat.modelFileBlock l) :=
  BinrwTie.Dat.readModelFileBlock_eq_generated l

end Physis.C02

/-! ### texture entries with filler between the mip chains

Every LOD record of a texture entry carries the offset of its first block, so the chains of two
LODs need not sit back to back.  `packTextureG texHeader mips gaps` (`Spec/SqPackData.lean`) puts
`gaps[i]` — arbitrary bytes of arbitrary length, `[]` where `gaps` is too short, surplus ignored —
in front of the chain of LOD `i + 1` and records `offset + gaps[i].length` in that LOD's record (the
chain of LOD 0 starts right behind the texture header, whose length the reader takes from that
record).  `c02_texture` is the case `gaps = []` (`c02_texture_gapped_generalises`).
Helper lemmas: `Proofs/DatGapped.lean` (the LOD walk under the invariant "the chain starts where
its record says", not "at the running sum of the chains before it"). -/
namespace Physis.C02
open Physis Physis.Dat Physis.Spec.SqPackData

/-- a texture entry whose mip chains are separated by arbitrary filler yields the texture header
followed by every mip block in order — nothing of the filler -/
theorem c02_texture_gapped (inflate : Inflate) (texHeader : Bytes) (mips : List (List Block))
    (gaps : List Bytes)
    (hwf : textureGWf texHeader mips gaps = true) (hd : ∀ b ∈ mips.flatten, Deflated inflate b)
    (pre suf : Bytes)
    (hsz : pre.length + (packTextureG texHeader mips gaps).length < 18446744073709551616) :
    readFromOffset inflate (pre ++ packTextureG texHeader mips gaps ++ suf) pre.length =
      some (some (texHeader ++ contents mips.flatten)) :=
  readFromOffset_textureG inflate texHeader mips gaps hwf hd pre suf hsz

/-- without filler the gapped entry is the plain one, so `c02_texture_gapped` subsumes `c02_texture` -/
theorem c02_texture_gapped_generalises (texHeader : Bytes) (mips : List (List Block)) :
    packTextureG texHeader mips [] = packTexture texHeader mips :=
  packTextureG_nil texHeader mips

/-- … and the well-formedness predicates coincide there -/
theorem c02_texture_gapped_wf_nil (texHeader : Bytes) (mips : List (List Block)) :
    textureGWf texHeader mips [] = textureWf texHeader mips :=
  textureGWf_nil texHeader mips

/-- `c02_texture` re-derived from the gapped theorem -/
example (inflate : Inflate) (texHeader : Bytes) (mips : List (List Block))
    (hwf : textureWf texHeader mips = true) (hd : ∀ b ∈ mips.flatten, Deflated inflate b)
    (pre suf : Bytes) (hsz : pre.length + (packTexture texHeader mips).length < 18446744073709551616) :
    readFromOffset inflate (pre ++ packTexture texHeader mips ++ suf) pre.length =
      some (some (texHeader ++ contents mips.flatten)) := by
  rw [← c02_texture_gapped_generalises] at hsz ⊢
  exact c02_texture_gapped inflate texHeader mips [] (by rw [c02_texture_gapped_wf_nil]; exact hwf) hd pre suf hsz

/-! non-vacuity: two mips (`[b1]`, `[b2, b1]`; `b2` stored deflated), the 5-byte filler
`[7, 8, 9, 10, 11]` in front of the second chain, a 4-byte texture header -/
example : textureGWf [9, 9, 9, 9] [[b1], [b2, b1]] [[7, 8, 9, 10, 11]] = true := by decide +kernel
/-- the filler is really there: the entry is 5 bytes longer than the plain one and differs from it -/
example : (packTextureG [9, 9, 9, 9] [[b1], [b2, b1]] [[7, 8, 9, 10, 11]]).length =
    (packTexture [9, 9, 9, 9] [[b1], [b2, b1]]).length + 5 := by decide +kernel
/-- the second LOD record carries offset 4 + 128 + 5 = 137 = 0x89 (record 1 starts at byte 24 + 20) -/
example : ((packTextureG [9, 9, 9, 9] [[b1], [b2, b1]] [[7, 8, 9, 10, 11]]).drop 44).take 4 = [137, 0, 0, 0] := by
  decide +kernel
/-- the theorem instantiated (hypotheses discharged on the concrete value) -/
example : readFromOffset storedInflate
    (List.replicate 128 7 ++ packTextureG [9, 9, 9, 9] [[b1], [b2, b1]] [[7, 8, 9, 10, 11]] ++ [5, 5])
    (List.replicate 128 (7 : UInt8)).length =
    some (some ([9, 9, 9, 9] ++ contents [[b1], [b2, b1]].flatten)) :=
  c02_texture_gapped storedInflate [9, 9, 9, 9] [[b1], [b2, b1]] [[7, 8, 9, 10, 11]] (by decide +kernel)
    (by
      intro b hb c hc
      simp only [List.flatten_cons, List.flatten_nil, List.cons_append, List.nil_append, List.append_nil,
        List.mem_cons, List.mem_nil_iff, or_false] at hb
      rcases hb with rfl | rfl | rfl
      · cases hc
      · cases hc; decide
      · cases hc)
    _ _ (by decide +kernel)
/-- the model evaluated on that file (a test, labelled as such) -/
example : readFromOffset storedInflate
    (List.replicate 128 7 ++ packTextureG [9, 9, 9, 9] [[b1], [b2, b1]] [[7, 8, 9, 10, 11]] ++ [5, 5]) 128 =
    some (some [9, 9, 9, 9, 10, 20, 30, 40, 50, 1, 2, 3, 10, 20, 30, 40, 50]) := by decide +kernel

end Physis.C02
