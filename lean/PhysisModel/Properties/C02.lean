import PhysisModel.Model.Dat
import PhysisModel.Spec.SqPackData
namespace Physis.C02
end Physis.C02
