import PhysisModel.Proofs.Bcn
/-!
# C13 — textures decode to the pixels their format defines

Property theorems only; helper lemmas live in `Proofs/Bcn.lean`, `Proofs/Tex.lean`.
`pxOfWord w` is the RGBA pixel that `Texture::decode` emits for the image word `w`
(`[v[2], v[1], v[0], v[3]]` of its little-endian bytes).
-/
namespace Physis.C13
open Physis Physis.Bcn Physis.Spec.Bcn Physis.Proofs.Bcn

/-- The word → RGBA byte shuffle of `Texture::decode` is the pixel `pxOfWord`. -/
theorem c13_shuffle (w : UInt32) : Tex.shuffle w = (pxOfWord w).bytes := rfl

/-- **BC1 block, all 2⁶⁴ blocks**: `decode_bc1_block` on any block never panics and every one of
the 16 buffer entries is a decoding the format permits (endpoint expansion, mode switch on
`q0 > q1`, interpolants, selector order) — and it is the canonical one (black entry opaque). -/
theorem c13_bc1_block (conv : Bc3Colour) (data : Bytes) (buf : List UInt32)
    (hd : 8 ≤ data.length) (hb : buf.length = 16) :
    ∃ buf', decodeBc1Block data buf = .ok buf' ∧ buf'.length = 16 ∧
      ∀ i, i < 16 → ∃ w, buf'[i]? = some w ∧
        canonPixel conv .bc1 (data.take 8) i = some (pxOfWord w) ∧
        PixelOK conv .bc1 (data.take 8) i (pxOfWord w) := by
  obtain ⟨buf', h1, h2, _, h4⟩ := bc1_blockOK conv data buf hd hb (fun _ _ => trivial)
  exact ⟨buf', h1, h2, h4⟩

/-- non-vacuity: a 3-colour-mode block (`q0 = 0x0000 ≤ q1 = 0xFFFF`) with selectors 0,1,2,3 in row 0 -/
example : ∃ buf', decodeBc1Block [0, 0, 0xFF, 0xFF, 0xE4, 0, 0, 0] (List.replicate 16 0) = .ok buf' ∧
    buf'.take 4 = [0xFF000000, 0xFFFFFFFF, 0xFF7F7F7F, 0xFF000000] := by
  refine ⟨_, rfl, ?_⟩
  decide

/-- **BC3 alpha, all blocks, any channel**: `decode_bc3_alpha` never panics on ≥ 8 bytes; entry `i`
of the buffer gets exactly the palette value the format assigns (6- or 4-interpolant mode, 3-bit
selectors from the 48-bit field) in the given channel, all other bits untouched. -/
theorem c13_bc3_alpha (d0 d1 d2 d3 d4 d5 d6 d7 : UInt8) (rest : Bytes) (buf : List UInt32) (channel : UInt32) :
    ∃ buf', decodeBc3Alpha (d0 :: d1 :: d2 :: d3 :: d4 :: d5 :: d6 :: d7 :: rest) buf channel = .ok buf' ∧
      buf'.length = buf.length ∧
      ∀ i p, buf[i]? = some p → ∃ v : UInt16, v ≤ 255 ∧
        alphaAt [d0, d1, d2, d3, d4, d5, d6, d7] i = some v.toNat ∧
        buf'[i]? = some ((p &&& chanMask channel) ||| (v.toUInt32 <<< (channel * 8))) :=
  decodeBc3Alpha_ok d0 d1 d2 d3 d4 d5 d6 d7 rest buf channel

/-- **BC3 block, all 2¹²⁸ blocks, as the code decodes it**: interpolated alpha over a colour half
decoded *with BC1's mode switch* (`Bc3Colour.bc1Modes`). -/
theorem c13_bc3_block_bc1modes (data : Bytes) (buf : List UInt32)
    (hd : 16 ≤ data.length) (hb : buf.length = 16) :
    ∃ buf', decodeBc3Block data buf = .ok buf' ∧ buf'.length = 16 ∧
      ∀ i, i < 16 → ∃ w, buf'[i]? = some w ∧
        canonPixel .bc1Modes .bc3 (data.take 16) i = some (pxOfWord w) ∧
        PixelOK .bc1Modes .bc3 (data.take 16) i (pxOfWord w) := by
  obtain ⟨buf', h1, h2, _, h4⟩ := bc3_blockOK data buf hd hb (fun _ _ => trivial)
  exact ⟨buf', h1, h2, h4⟩

/-- **BC5 block, all 2¹²⁸ blocks**: first half → red, second half → green, blue and alpha are
whatever the shared buffer held (0 and 255 from its initialisation, preserved by every block). -/
theorem c13_bc5_block (conv : Bc3Colour) (data : Bytes) (buf : List UInt32)
    (hd : 16 ≤ data.length) (hb : buf.length = 16)
    (hinv : ∀ p ∈ buf, (pxOfWord p).b = 0 ∧ (pxOfWord p).a = 255) :
    ∃ buf', decodeBc5Block data buf = .ok buf' ∧ buf'.length = 16 ∧
      (∀ p ∈ buf', (pxOfWord p).b = 0 ∧ (pxOfWord p).a = 255) ∧
      ∀ i, i < 16 → ∃ w, buf'[i]? = some w ∧
        canonPixel conv .bc5 (data.take 16) i = some (pxOfWord w) ∧
        PixelOK conv .bc5 (data.take 16) i (pxOfWord w) :=
  bc5_blockOK conv data buf hd hb hinv

/-- non-vacuity of `c13_bc5_block`'s buffer hypothesis: the buffer `block_decoder` starts from -/
example : ∀ p ∈ List.replicate 16 (color 0 0 0 255), (pxOfWord p).b = 0 ∧ (pxOfWord p).a = 255 := by
  decide

end Physis.C13
