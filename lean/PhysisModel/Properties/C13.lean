import PhysisModel.Proofs.Tex
import PhysisModel.Proofs.BinrwTieTex
/-!
# C13 — textures decode to the pixels their format defines

Property theorems only; helper lemmas live in `Proofs/Bcn.lean`, `Proofs/Tex.lean`.
`pxOfWord w` is the RGBA pixel that `Texture::decode` emits for the image word `w`
(`[v[2], v[1], v[0], v[3]]` of its little-endian bytes).
-/
namespace Physis.C13
open Physis Physis.Bcn Physis.Spec.Bcn Physis.Spec.Tex Physis.Proofs.Bcn Physis.Proofs.Tex

/-- The word → RGBA byte shuffle of `Texture::decode` is the pixel `pxOfWord`. -/
theorem c13_shuffle (w : UInt32) : Tex.shuffle w = (pxOfWord w).bytes := rfl

/-- **BC1 block, all 2⁶⁴ blocks**: `decode_bc1_block` on any block never panics and every one of
the 16 buffer entries is a decoding the format permits (endpoint expansion, mode switch on
`q0 > q1`, interpolants, selector order) — and it is the canonical one (black entry opaque). -/
theorem c13_bc1_block (conv : Bc3Colour) (data : Bytes) (buf : List UInt32)
    (hd : 8 ≤ data.length) (hb : buf.length = 16) :
    ∃ buf', decodeBc1Block data buf = .ok buf' ∧ buf'.length = 16 ∧
      ∀ i, i < 16 → ∃ w, buf'[i]? = some w ∧
        canonPixel conv .bc1 (data.take 8) i = some (pxOfWord w) ∧
        PixelOK conv .bc1 (data.take 8) i (pxOfWord w) := by
  obtain ⟨buf', h1, h2, _, h4⟩ := bc1_blockOK conv data buf hd hb (fun _ _ => trivial)
  exact ⟨buf', h1, h2, h4⟩

/-- non-vacuity: a 3-colour-mode block (`q0 = 0x0000 ≤ q1 = 0xFFFF`) with selectors 0,1,2,3 in row 0 -/
example : ∃ buf', decodeBc1Block [0, 0, 0xFF, 0xFF, 0xE4, 0, 0, 0] (List.replicate 16 0) = .ok buf' ∧
    buf'.take 4 = [0xFF000000, 0xFFFFFFFF, 0xFF7F7F7F, 0xFF000000] := by
  refine ⟨_, rfl, ?_⟩
  decide

/-- **BC3 alpha, all blocks, any channel**: `decode_bc3_alpha` never panics on ≥ 8 bytes; entry `i`
of the buffer gets exactly the palette value the format assigns (6- or 4-interpolant mode, 3-bit
selectors from the 48-bit field) in the given channel, all other bits untouched. -/
theorem c13_bc3_alpha (d0 d1 d2 d3 d4 d5 d6 d7 : UInt8) (rest : Bytes) (buf : List UInt32) (channel : UInt32) :
    ∃ buf', decodeBc3Alpha (d0 :: d1 :: d2 :: d3 :: d4 :: d5 :: d6 :: d7 :: rest) buf channel = .ok buf' ∧
      buf'.length = buf.length ∧
      ∀ i p, buf[i]? = some p → ∃ v : UInt16, v ≤ 255 ∧
        alphaAt [d0, d1, d2, d3, d4, d5, d6, d7] i = some v.toNat ∧
        buf'[i]? = some ((p &&& chanMask channel) ||| (v.toUInt32 <<< (channel * 8))) :=
  decodeBc3Alpha_ok d0 d1 d2 d3 d4 d5 d6 d7 rest buf channel

/-- **BC3 block, all 2¹²⁸ blocks, as the code decodes it**: interpolated alpha over a colour half
decoded *with BC1's mode switch* (`Bc3Colour.bc1Modes`). -/
theorem c13_bc3_block_bc1modes (data : Bytes) (buf : List UInt32)
    (hd : 16 ≤ data.length) (hb : buf.length = 16) :
    ∃ buf', decodeBc3Block data buf = .ok buf' ∧ buf'.length = 16 ∧
      ∀ i, i < 16 → ∃ w, buf'[i]? = some w ∧
        canonPixel .bc1Modes .bc3 (data.take 16) i = some (pxOfWord w) ∧
        PixelOK .bc1Modes .bc3 (data.take 16) i (pxOfWord w) := by
  obtain ⟨buf', h1, h2, _, h4⟩ := bc3_blockOK data buf hd hb (fun _ _ => trivial)
  exact ⟨buf', h1, h2, h4⟩

/-  Full statement against the format documents (colour half always 4-colour):

      theorem c13_bc3_block … : … PixelOK .always4 .bc3 (data.take 16) i (pxOfWord w)

    for all blocks.  False for the code that exists (`c13_bc3_colour_witness` below); proved for
    every block whose colour endpoints satisfy `q0 > q1` — the only ones a conforming BC3 encoder
    emits apart from solid-colour blocks: -/
theorem c13_bc3_block_partial (data : Bytes) (buf : List UInt32)
    (hd : 16 ≤ data.length) (hb : buf.length = 16)
    (hq : leNat ((data.drop 8).take 2) > leNat ((data.drop 10).take 2)) :
    ∃ buf', decodeBc3Block data buf = .ok buf' ∧ buf'.length = 16 ∧
      ∀ i, i < 16 → ∃ w, buf'[i]? = some w ∧
        canonPixel .always4 .bc3 (data.take 16) i = some (pxOfWord w) ∧
        PixelOK .always4 .bc3 (data.take 16) i (pxOfWord w) := by
  obtain ⟨buf', h1, h2, h4⟩ := c13_bc3_block_bc1modes data buf hd hb
  refine ⟨buf', h1, h2, ?_⟩
  intro i hi
  obtain ⟨w, e1, e2, e3⟩ := h4 i hi
  have hagree : (colourAt true ((data.take 16).drop 8) i).map (·.1)
      = (colourAt false ((data.take 16).drop 8) i).map (·.1) := by
    obtain ⟨d0, d1, d2, d3, d4, d5, d6, d7, rest, rfl⟩ := exists_eight data (by omega)
    obtain ⟨c0, c1, c2, c3, c4, c5, c6, c7, rest', rfl⟩ := exists_eight rest (by simp at hd; omega)
    simp only [List.drop_succ_cons, List.drop_zero, List.take_succ_cons, List.take_zero] at hq
    simp [colourAt, colourEntry, hq]
  exact ⟨w, e1, (bc3_conv_agree _ _ hagree (pxOfWord w)).2 ▸ e2, (bc3_conv_agree _ _ hagree (pxOfWord w)).1 e3⟩

/-- non-vacuity: colour half `q0 = 0xFFFF > q1 = 0x0000` -/
example : leNat (([1, 2, 3, 4, 5, 6, 7, 8, 0xFF, 0xFF, 0, 0, 0xE4, 0, 0, 0] : Bytes).drop 8 |>.take 2)
    > leNat (([1, 2, 3, 4, 5, 6, 7, 8, 0xFF, 0xFF, 0, 0, 0xE4, 0, 0, 0] : Bytes).drop 10 |>.take 2) := by
  decide

/-- **BC5 block, all 2¹²⁸ blocks**: first half → red, second half → green, blue and alpha are
whatever the shared buffer held (0 and 255 from its initialisation, preserved by every block). -/
theorem c13_bc5_block (conv : Bc3Colour) (data : Bytes) (buf : List UInt32)
    (hd : 16 ≤ data.length) (hb : buf.length = 16)
    (hinv : ∀ p ∈ buf, (pxOfWord p).b = 0 ∧ (pxOfWord p).a = 255) :
    ∃ buf', decodeBc5Block data buf = .ok buf' ∧ buf'.length = 16 ∧
      (∀ p ∈ buf', (pxOfWord p).b = 0 ∧ (pxOfWord p).a = 255) ∧
      ∀ i, i < 16 → ∃ w, buf'[i]? = some w ∧
        canonPixel conv .bc5 (data.take 16) i = some (pxOfWord w) ∧
        PixelOK conv .bc5 (data.take 16) i (pxOfWord w) :=
  bc5_blockOK conv data buf hd hb hinv

/-- non-vacuity of `c13_bc5_block`'s buffer hypothesis: the buffer `block_decoder` starts from -/
example : ∀ p ∈ List.replicate 16 (color 0 0 0 255), (pxOfWord p).b = 0 ∧ (pxOfWord p).a = 255 := by
  decide


/-! ## whole textures through `Texture::from_existing`

`hd` is any header, `payload` any byte string; the hypotheses are exactly the property's
quantifier: one of the four formats, payload long enough (`needed`), and for 3-D block-compressed
textures the height a multiple of 4 (`SliceAligned`).  No bound on width / height / depth. -/

/-- **Whole image, every format, every size, the code's BC3 convention.**  On the file
`Spec.Tex.encode hd payload`, `Texture::from_existing` returns a texture (never `None`, never a
panic) that reports the header's width / height / depth and 3-D flag and whose `rgba` has
`4·w·h·d` bytes, each pixel `(x, y, z)` being a decoding that `PixelOK` permits for position
`within x y` of block `blockIndex x y z` — partial edge blocks and the reused block buffer included.
For BGRA, BC1 and BC5 this *is* the property; for BC3 the colour half is read with BC1's mode
switch (`.bc1Modes`), see `c13_image_partial` / `c13_bc3_colour_witness`. -/
theorem c13_image_bc1modes (hd : Header) (fmt : Format) (payload : Bytes)
    (hwf : hd.WF) (hfmt : formatOfCode hd.formatCode = some fmt)
    (ha : SliceAligned fmt hd.height.toNat hd.depth.toNat)
    (hen : needed fmt hd.width.toNat hd.height.toNat hd.depth.toNat ≤ payload.length) :
    ∃ t, Tex.fromExisting (encode hd payload) = .ok (some t) ∧
      DecodedOK .bc1Modes fmt hd payload (toDecoded t) := by
  obtain ⟨rgba, e, hc⟩ := fromExisting_ok hd hwf fmt hfmt payload ha hen
  refine ⟨_, e, ?_, ?_, ?_, ?_, hc.imageOK⟩
  · by_cases h : is3D hd.attrs = true <;> simp [toDecoded, h]
  · simp [toDecoded]
  · simp [toDecoded]
  · simp [toDecoded]

/-  The full statement of the property would be

      theorem c13_image … : ∃ t, Tex.fromExisting (encode hd payload) = .ok (some t) ∧
          DecodedOK .always4 fmt hd payload (toDecoded t)

    with the same hypotheses as above.  It is **false** for the code that exists
    (`c13_bc3_colour_witness`): open finding `bc3-colour-mode`.  Proved instead, with the class
    `Bc3ConventionsDiffer` excluded as an explicit decidable hypothesis: -/

/-- **Whole image against the format documents** (BC3 colour always 4-colour), for every texture
outside the class `Bc3ConventionsDiffer` — in particular for every BGRA, BC1 and BC5 texture
(`c13_image_non_bc3`) and every BC3 texture whose visible pixels only select entries on which the
two readings of the colour half agree. -/
theorem c13_image_partial (hd : Header) (fmt : Format) (payload : Bytes)
    (hwf : hd.WF) (hfmt : formatOfCode hd.formatCode = some fmt)
    (ha : SliceAligned fmt hd.height.toNat hd.depth.toNat)
    (hen : needed fmt hd.width.toNat hd.height.toNat hd.depth.toNat ≤ payload.length)
    (hk : ¬ Bc3ConventionsDiffer fmt hd.width.toNat hd.height.toNat hd.depth.toNat payload.toArray) :
    ∃ t, Tex.fromExisting (encode hd payload) = .ok (some t) ∧
      DecodedOK .always4 fmt hd payload (toDecoded t) := by
  obtain ⟨rgba, e, hc⟩ := fromExisting_ok hd hwf fmt hfmt payload ha hen
  refine ⟨_, e, ?_, ?_, ?_, ?_, (hc.always4 hk).imageOK⟩
  · by_cases h : is3D hd.attrs = true <;> simp [toDecoded, h]
  · simp [toDecoded]
  · simp [toDecoded]
  · simp [toDecoded]

/-- BGRA, BC1 and BC5 at full strength: no exclusion at all. -/
theorem c13_image_non_bc3 (hd : Header) (fmt : Format) (payload : Bytes)
    (hwf : hd.WF) (hfmt : formatOfCode hd.formatCode = some fmt) (hne : fmt ≠ .bc3)
    (ha : SliceAligned fmt hd.height.toNat hd.depth.toNat)
    (hen : needed fmt hd.width.toNat hd.height.toNat hd.depth.toNat ≤ payload.length) :
    ∃ t, Tex.fromExisting (encode hd payload) = .ok (some t) ∧
      DecodedOK .always4 fmt hd payload (toDecoded t) :=
  c13_image_partial hd fmt payload hwf hfmt ha hen (fun h => hne h.1)

/-- a 5 × 3 BC1 texture (partial edge blocks in both directions), 3-D flag set -/
def exHeader : Header := ⟨0x1000000, 0x3420, 5, 3, 1, 1, [0, 1, 2], [80, 0, 0, 0, 0, 0, 0, 0, 0, 0, 0, 0, 0]⟩
def exPayload : Bytes := [0, 0, 0xFF, 0xFF, 0xE4, 0x1B, 0, 0xFF, 0x34, 0x12, 0x34, 0x12, 1, 2, 3, 4]

/-- non-vacuity of the hypotheses of `c13_image_bc1modes` / `_partial` / `_non_bc3` -/
example : exHeader.WF ∧ formatOfCode exHeader.formatCode = some .bc1 ∧
    SliceAligned .bc1 exHeader.height.toNat exHeader.depth.toNat ∧
    needed .bc1 exHeader.width.toNat exHeader.height.toNat exHeader.depth.toNat ≤ exPayload.length ∧
    ¬ Bc3ConventionsDiffer .bc1 exHeader.width.toNat exHeader.height.toNat exHeader.depth.toNat exPayload.toArray := by
  decide

/-- The witness of finding `bc3-colour-mode`: one 4×4 BC3 block, colour half `q0 = q1 = 0x1234`
(a solid colour) with every selector 3.  The code returns black pixels; the format documents
assign the solid colour — the decoded image is **not** permitted by `PixelOK .always4`. -/
def witnessHeader : Header := ⟨0, 0x3431, 4, 4, 1, 1, [0, 1, 2], [80, 0, 0, 0, 0, 0, 0, 0, 0, 0, 0, 0, 0]⟩
def witnessPayload : Bytes := [0xFF, 0, 0, 0, 0, 0, 0, 0, 0x34, 0x12, 0x34, 0x12, 0xFF, 0xFF, 0xFF, 0xFF]

theorem c13_bc3_colour_witness :
    ∃ t, Tex.fromExisting (encode witnessHeader witnessPayload) = .ok (some t) ∧
      ¬ DecodedOK .always4 .bc3 witnessHeader witnessPayload (toDecoded t) ∧
      Bc3ConventionsDiffer .bc3 4 4 1 witnessPayload.toArray := by
  refine ⟨_, rfl, ?_, ?_⟩
  · decide +kernel
  · decide +kernel

/-- **Length**: the decoded image has exactly `4 · width · height · depth` bytes. -/
theorem c13_length (hd : Header) (fmt : Format) (payload : Bytes)
    (hwf : hd.WF) (hfmt : formatOfCode hd.formatCode = some fmt)
    (ha : SliceAligned fmt hd.height.toNat hd.depth.toNat)
    (hen : needed fmt hd.width.toNat hd.height.toNat hd.depth.toNat ≤ payload.length) :
    ∃ t, Tex.fromExisting (encode hd payload) = .ok (some t) ∧
      t.rgba.length = 4 * (hd.width.toNat * hd.height.toNat * hd.depth.toNat) := by
  obtain ⟨rgba, e, hc⟩ := fromExisting_ok hd hwf fmt hfmt payload ha hen
  exact ⟨_, e, hc.1⟩

/-- **3-D flag**: the texture is reported three-dimensional exactly when attribute bit 24
(`TEXTURE_TYPE3_D`) is set — whatever the other 31 attribute bits are. -/
theorem c13_is_3d (hd : Header) (fmt : Format) (payload : Bytes)
    (hwf : hd.WF) (hfmt : formatOfCode hd.formatCode = some fmt)
    (ha : SliceAligned fmt hd.height.toNat hd.depth.toNat)
    (hen : needed fmt hd.width.toNat hd.height.toNat hd.depth.toNat ≤ payload.length) :
    ∃ t, Tex.fromExisting (encode hd payload) = .ok (some t) ∧
      (t.textureType = .ThreeDimensional ↔ hd.attrs.toNat.testBit 24 = true) := by
  obtain ⟨rgba, e, _⟩ := fromExisting_ok hd hwf fmt hfmt payload ha hen
  refine ⟨_, e, ?_⟩
  rw [Nat.testBit_eq_decide_div_mod_eq]
  have : is3D hd.attrs = decide (hd.attrs.toNat / 2 ^ 24 % 2 = 1) := rfl
  rw [← this]
  by_cases h : is3D hd.attrs = true <;> simp [h]

/-- the model's result is *equal* to the specification's canonical expected result
(`Spec.Tex.expected`, what the check compares the real code with) — code convention, all inputs -/
theorem c13_model_eq_expected_bc1modes (hd : Header) (fmt : Format) (payload : Bytes)
    (hwf : hd.WF) (hfmt : formatOfCode hd.formatCode = some fmt)
    (ha : SliceAligned fmt hd.height.toNat hd.depth.toNat)
    (hen : needed fmt hd.width.toNat hd.height.toNat hd.depth.toNat ≤ payload.length) :
    ∃ t, Tex.fromExisting (encode hd payload) = .ok (some t) ∧
      expected .bc1Modes hd payload = some (toDecoded t) := by
  obtain ⟨rgba, e, hc⟩ := fromExisting_ok hd hwf fmt hfmt payload ha hen
  refine ⟨_, e, ?_⟩
  simp only [expected, hfmt, canonImage_eq _ _ _ _ _ _ _ hc hen, toDecoded, Option.some.injEq,
    Decoded.mk.injEq, and_true]
  by_cases h : is3D hd.attrs = true <;> simp [h]

/-- … and equal to the expected result under the documents' convention outside the finding's class -/
theorem c13_model_eq_expected_partial (hd : Header) (fmt : Format) (payload : Bytes)
    (hwf : hd.WF) (hfmt : formatOfCode hd.formatCode = some fmt)
    (ha : SliceAligned fmt hd.height.toNat hd.depth.toNat)
    (hen : needed fmt hd.width.toNat hd.height.toNat hd.depth.toNat ≤ payload.length)
    (hk : ¬ Bc3ConventionsDiffer fmt hd.width.toNat hd.height.toNat hd.depth.toNat payload.toArray) :
    ∃ t, Tex.fromExisting (encode hd payload) = .ok (some t) ∧
      expected .always4 hd payload = some (toDecoded t) := by
  obtain ⟨rgba, e, hc⟩ := fromExisting_ok hd hwf fmt hfmt payload ha hen
  refine ⟨_, e, ?_⟩
  simp only [expected, hfmt, canonImage_eq _ _ _ _ _ _ _ (hc.always4 hk) hen, toDecoded, Option.some.injEq,
    Decoded.mk.injEq, and_true]
  by_cases h : is3D hd.attrs = true <;> simp [h]

/-- **BGRA**: the `B8G8R8A8` loop turns every 4-byte group `b g r a` into `r g b a` (for every pixel
count; `PixelOK .bgra blk 0 px` unfolds to `blk = [px.b, px.g, px.r, px.a]`). -/
theorem c13_bgra (conv : Bc3Colour) (n : Nat) (src : Bytes) (h : 4 * n ≤ src.length) :
    ∃ out, Tex.bgraLoop n src = .ok out ∧ out.length = 4 * n ∧
      ∀ k, k < n → ∃ px, pxAt out.toArray k = some px ∧
        (src.drop (k * 4)).take 4 = [px.b, px.g, px.r, px.a] := by
  obtain ⟨out, e, hl, hp⟩ := bgraLoop_ok conv n src h
  refine ⟨out, e, hl, ?_⟩
  intro k hk
  obtain ⟨px, h1, _, h3⟩ := hp k hk
  exact ⟨px, h1, h3.2⟩

/-- the header survives the round trip through the Spec encoder (what ties case lines to files) -/
theorem c13_header_roundtrip (hd : Header) (fmt : Format) (payload : Bytes)
    (hwf : hd.WF) (hfmt : formatOfCode hd.formatCode = some fmt) :
    Tex.readHeader (encode hd payload) =
      some (⟨hd.attrs, modelFormat fmt, hd.width, hd.height, hd.depth, hd.mipLevels, hd.lodOffsets,
        hd.offsetToSurface⟩, payload) ∧ (encode hd payload).drop 80 = payload :=
  ⟨readHeader_encode hd hwf _ (ofU32_of_formatOfCode _ _ hfmt) payload, drop_encode hd hwf payload⟩

/-- Every byte string of at least 80 bytes is `encode hd payload` for some well-formed header: the
theorems above, stated on encoder outputs, therefore speak about **every** file whose header the
code can read (shorter inputs make `from_existing` return `None`; they are C18's). -/
theorem c13_every_file_is_encoded (buffer : Bytes) (h : 80 ≤ buffer.length) :
    ∃ hd payload, hd.WF ∧ buffer = encode hd payload :=
  exists_encode buffer h

/-- The conventions fixed in `Spec/Bcn.lean` lie inside the latitude DESIGN §6.13 allows: bit
replication is within < 1 of the exact `v·255/31` resp. `v·255/63`. -/
theorem c13_expand_close :
    (∀ v, v < 32 → 31 * expand5 v < 255 * v + 31 ∧ 255 * v < 31 * expand5 v + 31) ∧
    (∀ v, v < 64 → 63 * expand6 v < 255 * v + 63 ∧ 255 * v < 63 * expand6 v + 63) := by
  decide

end Physis.C13

/-! ### T4: binrw declarations regenerated from the source

`Generated/BinrwTex.lean` is re-translated from the declarations of `src/tex.rs` on every run
(`lib/binrw2lean.py`); `Tex.readHeader` is `Layout.read` of the regenerated `TexHeader` descriptor
(little-endian by the struct's own attribute — the ambient `.big` in the statement is deliberately the
wrong one) followed by a pure projection (`Proofs/BinrwTieTex.lean`), for all inputs. -/
namespace Physis.C13
open Physis.Binrw Physis.Generated

theorem c13_binrw_TexHeader (buffer : Bytes) :
    Tex.readHeader buffer =
      via BinrwTie.Tex.texHeaderOf (Layout.read .big BinrwTex.texHeader buffer) :=
  BinrwTie.Tex.readHeader_eq_generated buffer

end Physis.C13
