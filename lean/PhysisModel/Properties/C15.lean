import PhysisModel.Proofs.Paths
import PhysisModel.Generated.RaceTable
/-!
# C15 — game paths, race codes and repository file names are well-formed and unambiguous

* `Generated.raceIdTable` / `supportedTribesTable` are the graphs of the **compiled**
  `get_race_id` / `get_supported_tribes` over their whole domain, dumped on every run (T2); the
  `…_table` theorems are kernel evaluations over those tables and are re-proved on every run.
* the remaining theorems are about the closed-form models in `Model/Race.lean`,
  `Model/Paths.lean`, for all arguments.
-/
namespace Physis.C15
open Physis Physis.Race Physis.Paths Physis.Spec.Paths Physis.Generated

/-! ## race codes (T2: over the dumped tables) -/

/-- every race's supported tribes are exactly its own two tribes (so the 16 tribes partition
over the 8 races) — compiled `get_supported_tribes` -/
theorem c15_two_own_tribes_table :
    supportedTribesTable = (List.range 8).map (fun i => (i + 1, (ownTribes (i + 1)).1, (ownTribes (i + 1)).2)) := by
  decide +kernel

/-- the dump covers the whole domain, in order -/
theorem c15_table_domain :
    raceIdTable.map (fun e => (e.1, e.2.1, e.2.2.1)) =
      (List.range 8).flatMap (fun r => (List.range 16).flatMap (fun t => (List.range 2).map (fun g => (r + 1, t + 1, g)))) := by
  decide +kernel

/-- compiled `get_race_id` is defined exactly on the valid triples -/
theorem c15_race_id_defined_table :
    ∀ e ∈ raceIdTable, (e.2.2.2 ≠ 0 ↔ validTriple e.1 e.2.1 e.2.2.1) := by
  decide +kernel

/-- compiled `get_race_id`: distinct body types never share a code -/
theorem c15_race_id_injective_table :
    ∀ a ∈ raceIdTable, ∀ b ∈ raceIdTable, a.2.2.2 ≠ 0 → a.2.2.2 = b.2.2.2 →
      bodyType a.1 a.2.1 a.2.2.1 = bodyType b.1 b.2.1 b.2.2.1 := by
  decide +kernel

/-- every code fits the four-digit field of the path builders -/
theorem c15_race_id_four_digits_table : ∀ e ∈ raceIdTable, e.2.2.2 < 10000 := by
  decide +kernel

/-- the closed-form model used by the unbounded theorems below *is* the compiled function -/
theorem c15_model_is_table :
    raceIdTable.map (fun e => (raceId e.1 e.2.1 e.2.2.1).getD 0) = raceIdTable.map (fun e => e.2.2.2) := by
  decide +kernel

/-! ## race codes (closed-form model, all arguments) -/

/-
`Race`, `Tribe`, `Gender` are Rust enums: discriminants outside 1..8 / 1..16 / 0..1 do not exist,
so the quantifiers range over exactly those values (plus 0 / 17 / 2 as out-of-range probes).
-/
theorem c15_race_id_defined :
    ∀ r, r ≤ 8 → ∀ t, t ≤ 16 → ∀ g, g ≤ 1 → validTriple r t g →
      ∃ c, raceId r t g = some c ∧ c < 10000 := by
  decide +kernel

theorem c15_race_id_none :
    ∀ r, r ≤ 9 → ∀ t, t ≤ 17 → ∀ g, g ≤ 2 → ¬ validTriple r t g → raceId r t g = none := by
  decide +kernel

/-- all (race, tribe, gender) discriminant triples -/
def allTriples : List (Nat × Nat × Nat) :=
  (List.range 8).flatMap (fun r => (List.range 16).flatMap (fun t => (List.range 2).map (fun g => (r + 1, t + 1, g))))

theorem c15_race_id_injective :
    ∀ a ∈ allTriples, ∀ b ∈ allTriples, raceId a.1 a.2.1 a.2.2 ≠ none →
      raceId a.1 a.2.1 a.2.2 = raceId b.1 b.2.1 b.2.2 → bodyType a.1 a.2.1 a.2.2 = bodyType b.1 b.2.1 b.2.2 := by
  decide +kernel

example : validTriple 8 15 1 ∧ raceId 8 15 1 = some 1801 := by decide

/-! ## path builders (closed form, all ids 0..9999) -/

theorem c15_equipment_path_injective (id id' c c' : Nat) (a a' : Bytes)
    (hid : id < 10000) (hid' : id' < 10000) (hc : c < 10000) (hc' : c' < 10000)
    (ha : a.length = 3) (ha' : a'.length = 3)
    (h : equipmentPath id c a = equipmentPath id' c' a') : id = id' ∧ c = c' ∧ a = a' := by
  unfold equipmentPath equipmentFile at h
  simp only [List.append_assoc] at h
  have l1 := fmt04_length hid; have l1' := fmt04_length hid'
  have l2 := fmt04_length hc; have l2' := fmt04_length hc'
  have h := List.append_cancel_left h
  obtain ⟨e1, h⟩ := List.append_inj h (by omega)
  have h := List.append_cancel_left h
  have h := List.append_cancel_left h
  obtain ⟨e2, h⟩ := List.append_inj h (by omega)
  have h := List.append_cancel_left h
  obtain ⟨_, h⟩ := List.append_inj h (by omega)
  have h := List.append_cancel_left h
  obtain ⟨e3, _⟩ := List.append_inj h (by omega)
  exact ⟨fmt04_inj hid hid' e1, fmt04_inj hc hc' e2, e3⟩

theorem c15_skeleton_path_injective (c c' : Nat) (hc : c < 10000) (hc' : c' < 10000)
    (h : skeletonPath c = skeletonPath c') : c = c' := by
  unfold skeletonPath at h
  simp only [List.append_assoc] at h
  have h := List.append_cancel_left h
  obtain ⟨e, _⟩ := List.append_inj h (by rw [fmt04_length hc, fmt04_length hc'])
  exact fmt04_inj hc hc' e

theorem c15_character_path_injective (k k' ver ver' c c' : Nat) (cat cat' : Bytes × Bytes × Bytes)
    (hk : charCategory k = some cat) (hk' : charCategory k' = some cat')
    (hv : ver < 10000) (hv' : ver' < 10000) (hc : c < 10000) (hc' : c' < 10000)
    (h : characterPath cat ver c = characterPath cat' ver' c') : k = k' ∧ ver = ver' ∧ c = c' := by
  have l1 := fmt04_length hv; have l1' := fmt04_length hv'
  have l2 := fmt04_length hc; have l2' := fmt04_length hc'
  obtain ⟨p, a, x⟩ := cat
  obtain ⟨p', a', x'⟩ := cat'
  have hp : p.length = 4 ∧ a.length = 3 ∧ x.length = 1 := by
    unfold charCategory at hk; split at hk <;> simp at hk <;> obtain ⟨rfl, rfl, rfl⟩ := hk <;> decide
  have hp' : p'.length = 4 ∧ a'.length = 3 ∧ x'.length = 1 := by
    unfold charCategory at hk'; split at hk' <;> simp at hk' <;> obtain ⟨rfl, rfl, rfl⟩ := hk' <;> decide
  simp only [characterPath, List.append_assoc] at h
  have h := List.append_cancel_left h
  obtain ⟨e1, h⟩ := List.append_inj h (by omega)
  have h := List.append_cancel_left h
  obtain ⟨e2, h⟩ := List.append_inj h (by omega)
  have h := List.append_cancel_left h
  obtain ⟨_, h⟩ := List.append_inj h (by omega)
  obtain ⟨e3, _⟩ := List.append_inj h (by omega)
  refine ⟨?_, fmt04_inj hv hv' e3, fmt04_inj hc hc' e1⟩
  subst e2
  -- the directory name determines the category
  unfold charCategory at hk hk'
  split at hk <;> simp at hk <;> split at hk' <;> simp at hk' <;>
    first | rfl | (exfalso; have := hk.1.trans hk'.1.symm; revert this; decide)

/-- the id and slot read back from a built equipment file name are the ones it was built from -/
theorem c15_deconstruct_build (id c s : Nat) (a : Bytes) (hid : id < 10000) (hc : c < 10000)
    (hs : slotAbbrev s = some a) : deconstruct (equipmentFile id c a) = some (id, s) := by
  have hl := slotAbbrev_length hs
  obtain ⟨x, y, z, rfl⟩ : ∃ x y z, a = [x, y, z] := by
    match a, hl with
    | [x, y, z], _ => exact ⟨x, y, z, rfl⟩
  have hd : (List.drop 6 (equipmentFile id c [x, y, z])).take 4 = fmt04 id := by
    simp [equipmentFile, fmt04, hid, hc]
  have ht : (List.drop 11 (equipmentFile id c [x, y, z])).take 3 = [x, y, z] := by
    simp [equipmentFile, fmt04, hid, hc]
  have hlen : ¬ (equipmentFile id c [x, y, z]).length < 14 := by
    simp [equipmentFile, fmt04, hid, hc]
  simp only [deconstruct, hlen, if_false, hd, ht, parseDigits_fmt04 hid, slotFromAbbrev_slotAbbrev hs]

example : deconstruct (equipmentFile 0 101 [0x74,0x6f,0x70]) = some (0, 4) :=
  c15_deconstruct_build 0 101 4 _ (by decide) (by decide) rfl

/-! ## repository ordering -/

theorem eq_of_map_eq {α β : Type} (f : α → β) (l' l : List α) (h : l'.map f = l.map f)
    (inj : ∀ a ∈ l', ∀ b ∈ l, f a = f b → a = b) : l' = l := by
  induction l' generalizing l with
  | nil => cases l <;> simp_all
  | cons a t ih =>
    cases l with
    | nil => simp at h
    | cons b u =>
      simp only [List.map_cons, List.cons.injEq] at h
      have hab : a = b := inj a (List.mem_cons_self ..) b (List.mem_cons_self ..) h.1
      subst hab
      congr 1
      exact ih u h.2 (fun x hx y hy => inj x (List.mem_cons_of_mem _ hx) y (List.mem_cons_of_mem _ hy))

/-- `a` does not sort after `b` under `Repository::cmp` -/
def repoLe (a b : Repo) : Prop := repoCmp a b ≠ .gt
instance (a b : Repo) : Decidable (repoLe a b) := by unfold repoLe; infer_instance

theorem repoLe_iff_key (a b : Repo) (ha : ∀ n, a = some n → 1 ≤ n) :
    repoLe a b ↔ repoKey a ≤ repoKey b := by
  unfold repoLe repoCmp repoKey
  cases a with
  | none => simp
  | some n =>
    cases b with
    | none => have := ha n rfl; simp; omega
    | some m => simp [Nat.compare_eq_gt]

/-- However the repositories were discovered (any permutation `l` of the set), any arrangement
that is sorted under the implementation's comparator is the canonical one: ascending by key,
i.e. base game first, then expansions by number.  `Vec::sort` is assumed only to return a sorted
permutation.  Hypothesis: expansion numbers ≥ 1 (`ex1..ex9`; repositories are identified by their kind and number). -/
theorem c15_sort_canonical (l l' : List Repo)
    (hpos : ∀ r ∈ l, ∀ n, r = some n → 1 ≤ n) (hperm : l'.Perm l)
    (hs : l.Pairwise repoLe) (hs' : l'.Pairwise repoLe) : l' = l := by
  have hpos' : ∀ r ∈ l', ∀ n, r = some n → 1 ≤ n := fun r hr => hpos r (hperm.subset hr)
  have key_inj : ∀ a ∈ l, ∀ b ∈ l, repoKey a = repoKey b → a = b := by
    intro a ha b hb h
    cases a <;> cases b <;> simp [repoKey] at h ⊢
    · have := hpos _ hb _ rfl; omega
    · have := hpos _ ha _ rfl; omega
    · exact h
  have s1 : l.Pairwise (fun a b => repoKey a ≤ repoKey b) :=
    hs.imp_of_mem (fun {a b} ha _ h => (repoLe_iff_key a b (hpos a ha)).1 h)
  have s2 : l'.Pairwise (fun a b => repoKey a ≤ repoKey b) :=
    hs'.imp_of_mem (fun {a b} ha _ h => (repoLe_iff_key a b (hpos' a ha)).1 h)
  have m1 : (l.map repoKey).Pairwise (· ≤ ·) := List.pairwise_map.2 s1
  have m2 : (l'.map repoKey).Pairwise (· ≤ ·) := List.pairwise_map.2 s2
  have hk : l'.map repoKey = l.map repoKey :=
    (hperm.map repoKey).eq_of_pairwise (fun a b _ _ h1 h2 => Nat.le_antisymm h1 h2) m2 m1
  exact eq_of_map_eq repoKey l' l hk (fun a ha b hb h => key_inj a (hperm.subset ha) b hb h)

/-- non-vacuity: a discovered order `[ex2, ffxiv, ex1]`, its sorted arrangement `[ffxiv, ex1, ex2]` -/
example : ([none, some 1, some 2] : List Repo).Pairwise repoLe ∧
    ([some 2, none, some 1] : List Repo).Perm [none, some 1, some 2] := by
  refine ⟨by decide, ?_⟩
  exact (List.Perm.swap _ _ _).trans (List.Perm.cons _ (List.Perm.swap _ _ _))

/-! ## index / dat file names: read side = patch side = documented shape -/

theorem fmt_digits_agree :
    ∀ ex, ex ≤ 9 → ∀ chunk, chunk ≤ 9 →
      fmt02 ex ++ fmt02 chunk = fmt04x (ex * 256 + chunk) ∧ patchFolder (ex * 256 + chunk) = repoName ex := by
  decide +kernel

theorem fmt02x_spec : ∀ cat, cat < 256 → fmt02x cat = [hexChar (cat / 16), hexChar (cat % 16)] := by
  decide +kernel
theorem fmt02_spec : ∀ n, n < 100 → fmt02 n = [decChar (n / 10), decChar (n % 10)] := by
  decide +kernel
theorem decimal_spec : ∀ n, n ≤ 9 → decimal n = [decChar n] := by
  decide +kernel

/-- For every category id, expansion 0..9, chunk 0..9, platform tag and data-file number 0..7, the
names the archive reader opens are the names patching writes to (`sub_id = expansion << 8 | chunk`;
`.index2` is index file id 2 on the patch side), in the same repository folder, and they have the
documented shape. -/
theorem c15_names_agree (cat ex chunk dat : Nat) (tag : Bytes)
    (hcat : cat < 256) (hex : ex ≤ 9) (hchunk : chunk ≤ 9) (hdat : dat ≤ 7) :
    indexFilename cat ex chunk tag = patchIndexFilename cat (ex * 256 + chunk) tag 0 ∧
    index2Filename cat ex chunk tag = patchIndexFilename cat (ex * 256 + chunk) tag 2 ∧
    datFilename cat ex chunk tag dat = patchDatFilename cat (ex * 256 + chunk) tag dat ∧
    repoName ex = patchFolder (ex * 256 + chunk) ∧
    indexFilename cat ex chunk tag = indexName cat ex chunk tag ∧
    index2Filename cat ex chunk tag = index2Name cat ex chunk tag ∧
    datFilename cat ex chunk tag dat = datName cat ex chunk tag dat := by
  obtain ⟨h1, h2⟩ := fmt_digits_agree ex hex chunk hchunk
  have hx := fmt02x_spec cat hcat
  have he := fmt02_spec ex (by omega)
  have hc := fmt02_spec chunk (by omega)
  have hd := decimal_spec dat (by omega)
  have d2 : decimal 2 = [0x32] := by decide +kernel
  have e4 : fmt04x (ex * 256 + chunk) = [decChar (ex / 10), decChar (ex % 10), decChar (chunk / 10), decChar (chunk % 10)] := by
    rw [← h1, he, hc]; rfl
  refine ⟨?_, ?_, ?_, h2.symm, ?_, ?_, ?_⟩ <;>
    simp [indexFilename, index2Filename, datFilename, patchIndexFilename, patchDatFilename, indexName, index2Name,
      datName, stem, hx, he, hc, hd, d2, e4]

/-- all five platform tags are distinct, so names of different platforms never collide -/
theorem c15_platform_tags_distinct :
    ∀ p, p ≤ 4 → ∀ q, q ≤ 4 → platformString p = platformString q → p = q := by
  decide +kernel

/-! ## putting it together: paths from valid inputs are defined and unambiguous -/

/-- Two equipment paths built from valid race triples and ids ≤ 9999 coincide only if the ids, the
slots and the *body types* coincide. -/
theorem c15_equipment_paths_unambiguous
    (a b : Nat × Nat × Nat) (ha : a ∈ allTriples) (hb : b ∈ allTriples)
    (id id' s s' c c' : Nat) (x x' : Bytes)
    (hc : raceId a.1 a.2.1 a.2.2 = some c) (hc' : raceId b.1 b.2.1 b.2.2 = some c')
    (hid : id < 10000) (hid' : id' < 10000) (hs : slotAbbrev s = some x) (hs' : slotAbbrev s' = some x')
    (h : equipmentPath id c x = equipmentPath id' c' x') :
    id = id' ∧ s = s' ∧ bodyType a.1 a.2.1 a.2.2 = bodyType b.1 b.2.1 b.2.2 := by
  have four : ∀ t ∈ allTriples, ∀ c, raceId t.1 t.2.1 t.2.2 = some c → c < 10000 := by decide +kernel
  obtain ⟨e1, e2, e3⟩ := c15_equipment_path_injective id id' c c' x x' hid hid' (four a ha c hc) (four b hb c' hc')
    (slotAbbrev_length hs) (slotAbbrev_length hs') h
  subst e2 e3
  refine ⟨e1, slotAbbrev_inj hs hs', ?_⟩
  exact c15_race_id_injective a ha b hb (by rw [hc]; simp) (by rw [hc, hc'])

end Physis.C15
