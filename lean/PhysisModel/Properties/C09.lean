import PhysisModel.Proofs.CharDat
import PhysisModel.Base.BytesLemmas
import PhysisModel.Proofs.GearSets
import PhysisModel.Proofs.GearDecode
import PhysisModel.Generated.GearSlotCodes
set_option autoImplicit false
/-!
# C09 — saved character and gear-set files keep the documented layout

Property theorems only; helper lemmas live in `Proofs/{LeRead,CharDat,GearSets}.lean`.

* `Spec.CharDat.encode` / `Spec.GearSet.encode` are the documented layouts (offset tables in the
  file headers of `Spec/CharDatLayout.lean`, `Spec/GearSetLayout.lean`) — the encoders the
  correspondence feeds to the real code; `Spec.GearSet.decode` is an independent fixed-stride reader.
* `CharDat.writeChar / parseChar / calcChecksum` model `src/chardat.rs`; `GearSets.writeGear /
  parseGear` model `src/gearsets.rs` + `src/dat.rs`.

**Finding D12 (`gearsets.id-overlaps-marker`).**  `convert_to_gear_id` ORs and
`convert_from_gear_id` AND-NOTs the decimal constant 1 000 000 (0xF4240), so an item id sharing a
bit with it does not survive write → read.  The gear-set theorems are therefore `_partial`: the
hypothesis `Spec.GearSet.WF` contains, beyond the property's quantifier, the explicit clause
`id &&& 1000000 = 0` (`Spec.GearSet.IdOK`); `c09_gearsets_marker_witness` proves the failure for id 64.
-/
namespace Physis.C09
open Physis Physis.CharDat Physis.GearSets Physis.LeRead

/-! ## character presets -/
section chardat
open Physis.Spec.CharDat (Preset WF Canonical encode layout docChecksum)

/-- T2: the bytes the compiled enum readers accept, and what they write back, are exactly the
documented race (1–8), gender (0/1) and tribe (1–16) codes. -/
theorem c09_chardat_codes :
    Generated.raceTable = Spec.CharDat.raceCodes.map (fun c => (c, c)) ∧
    Generated.genderTable = Spec.CharDat.genderCodes.map (fun c => (c, c)) ∧
    Generated.tribeTable = Spec.CharDat.tribeCodes.map (fun c => (c, c)) := by decide

/-- The writer does not panic and emits exactly the documented file. -/
theorem c09_chardat_write_is_encode (p : Preset) (h : WF p) : writeChar p = some (encode p) :=
  writeChar_eq_encode p h

/-- Every field sits at its documented byte position in the written file, the file has the
documented size, and the checksum field holds the documented checksum of the file itself. -/
theorem c09_chardat_layout (p : Preset) (h : WF p) :
    ∃ f, writeChar p = some f ∧ f.length = 0xD4 ∧
      f.take 4 = [0x14, 0xFF, 0x13, 0x20] ∧
      getU32le ((f.drop 0x04).take 4) = some p.version ∧
      getU32le ((f.drop 0x08).take 4) = some (docChecksum f) ∧
      (f.drop 0x0C).take 4 = [0, 0, 0, 0] ∧
      (f.drop 0x10).take 27 =
        [p.appearance.race, p.appearance.gender, p.appearance.age, p.appearance.height, p.appearance.tribe,
         p.appearance.face, p.appearance.hair, (if p.appearance.enableHighlights then 1 else 0),
         p.appearance.skinTone, p.appearance.rightEyeColor, p.appearance.hairTone, p.appearance.highlights,
         p.appearance.facialFeatures, p.appearance.facialFeatureColor, p.appearance.eyebrows,
         p.appearance.leftEyeColor, p.appearance.eyes, p.appearance.nose, p.appearance.jaw, p.appearance.mouth,
         p.appearance.lipsToneFurPattern, p.appearance.raceFeatureSize, p.appearance.raceFeatureType,
         p.appearance.bust, p.appearance.facePaint, p.appearance.facePaintColor, p.appearance.voice] ∧
      f[0x2B]? = some 0 ∧
      getU32le ((f.drop 0x2C).take 4) = some p.timestamp ∧
      f.drop 0x30 = p.comment ++ List.replicate (164 - p.comment.length) 0 := by
  refine ⟨encode p, writeChar_eq_encode p h, ?_⟩
  obtain ⟨_, _, _, hlen, _⟩ := h
  have hck : docChecksum (encode p) = docChecksum (layout p 0) := by
    rw [encode, docChecksum_layout _ _ hlen, docChecksum_layout _ _ hlen]
  rw [hck, encode, layout_eq]
  generalize docChecksum (layout p 0) = ck
  simp only [writeCustomize, writeBool, putU32le, List.cons_append, List.nil_append, List.append_nil]
  refine ⟨by simp; omega, rfl, ?_, ?_, rfl, rfl, rfl, ?_, rfl⟩
  · exact getU32le_put p.version
  · exact getU32le_put ck
  · exact getU32le_put p.timestamp

/-- write → parse returns the same values. -/
theorem c09_chardat_roundtrip (p : Preset) (h : WF p) : (writeChar p).bind parseChar = some p := by
  rw [writeChar_eq_encode p h, Option.bind_some, encode, parseChar_layout p _ h]

/-- The reader accepts the documented file of every well-formed preset and returns its values. -/
theorem c09_chardat_parse_encode (p : Preset) (h : WF p) : parseChar (encode p) = some p :=
  parseChar_layout p _ h

/-- parse → write reproduces a canonical file byte for byte. -/
theorem c09_chardat_canonical (b : Bytes) (h : Canonical b) : (parseChar b).bind writeChar = some b := by
  obtain ⟨p, hp, rfl⟩ := h
  rw [encode, parseChar_layout p _ hp, Option.bind_some, writeChar_eq_encode p hp]; rfl

/-- Hyur Midlander male with a 3-byte comment -/
def samplePreset : Preset :=
  ⟨1, ⟨1, 0, 1, 50, 1, 5, 1, true, 2, 37, 53, 0, 2, 2, 0, 37, 0, 0, 0, 0, 43, 50, 0, 0, 0, 36, 1⟩, 0x67CC5AFE, [72, 105, 33]⟩
example : WF samplePreset := by decide
example : Canonical (encode samplePreset) := ⟨samplePreset, by decide, rfl⟩
end chardat

/-! ## gear sets -/
section gearsets
open Physis.Spec.GearSet (Table WF Canonical encode)

/-- T2: `usize → GearSlotType` (`try_from`) and `GearSlotType as usize` are mutually inverse on
0..13 with the documented variant names, and nothing else is accepted — the positional
representation of `HashMap<GearSlotType, GearSlot>` in the model is faithful. -/
theorem c09_gearslot_codes :
    Generated.gearSlotTable =
      (Spec.GearSet.slotNames.zipIdx.map fun (n, i) => (i, n, i)) ++ [(14, "-", 255), (15, "-", 255)] := by
  rfl

/-- The writer emits exactly the documented file — for every table with 100 entries, names of at
most 46 bytes and 14 slots per set (no hypothesis on the ids: the marker is *written* as documented). -/
theorem c09_gearsets_write_is_encode (t : Table) (hl : t.sets.length = 100)
    (h : ∀ s ∈ t.sets, ∀ g, s = some g → g.name.length ≤ 46 ∧ g.slots.length = 14) :
    writeGear (ofTable t) = encode t :=
  writeGear_ofTable t hl h

/-- The written file has the documented size 17 + 45204. -/
theorem c09_gearsets_size (t : Table) (hl : t.sets.length = 100)
    (h : ∀ s ∈ t.sets, ∀ g, s = some g → g.name.length ≤ 46 ∧ g.slots.length = 14) :
    (writeGear (ofTable t)).length = 45221 := by
  rw [writeGear_ofTable t hl h, encode_length t hl h]

/- Full statement (the property): for every table in the quantifier — `WF` *without* the clause
`id &&& 1000000 = 0` — `parseGear (writeGear (ofTable t)) = .ok (ofTable t)`.  False at the pinned
commit (D12, `c09_gearsets_marker_witness`); proved below with the clause. -/

/-- write → parse returns the same table (names, item ids, glamour ids, facewear, hidden fields),
for ids that do not overlap the marker. -/
theorem c09_gearsets_roundtrip_partial (t : Table) (h : WF t) :
    parseGear (writeGear (ofTable t)) = .ok (ofTable t) ∧ toTable (ofTable t) = t := by
  rw [writeGear_ofTable t h.1 (wf_sizes t h)]
  exact ⟨parseGear_encode t h, toTable_ofTable t⟩

/-- An independent fixed-stride decoder (`Spec.GearSet.decode`: de-obfuscate, 452-byte set records,
28-byte slot records, marker bits cleared) reads the written file back to the same names, item ids,
glamour ids, facewear and hidden fields. -/
theorem c09_gearsets_independent_partial (t : Table) (h : WF t) :
    Spec.GearSet.decode (writeGear (ofTable t)) = some t := by
  rw [writeGear_ofTable t h.1 (wf_sizes t h)]
  exact Spec.GearSet.decode_encode t h

/-- The reader accepts the documented file of every well-formed table and returns it. -/
theorem c09_gearsets_parse_encode_partial (t : Table) (h : WF t) : parseGear (encode t) = .ok (ofTable t) :=
  parseGear_encode t h

/-- parse → write reproduces a canonical file byte for byte. -/
theorem c09_gearsets_canonical_partial (b : Bytes) (h : Canonical b) :
    ∃ g, parseGear b = .ok g ∧ writeGear g = b := by
  obtain ⟨t, ht, rfl⟩ := h
  exact ⟨ofTable t, parseGear_encode t ht, writeGear_ofTable t ht.1 (wf_sizes t ht)⟩

/-- D12 witness: a slot holding item id 64 (a marker bit) is written as the bare marker and read
back as *no item*: the slot disappears. -/
theorem c09_gearsets_marker_witness :
    readSlot (writeSlot ⟨64, none, 0, 0, 0, 0, 0⟩) = some (⟨0, none, 0, 0, 0, 0, 0⟩, []) ∧
    convertFromSlots [⟨0, none, 0, 0, 0, 0, 0⟩] = [none] ∧
    writeSlot ⟨64, none, 0, 0, 0, 0, 0⟩ = writeSlot {} := by decide

/-- one set "WM" at position 0: main hand 5269 glamoured as 2453, body 8395913; facewear 7 -/
def sampleTable : Table :=
  ⟨0, 0, 0, some ⟨0, [87, 77], 0,
      [some ⟨5269, some 2453, 0, 0, 0, 0, 0⟩, none, none, some ⟨8395913, none, 0, 0, 0, 0, 0⟩] ++ List.replicate 10 none,
      some 7⟩ :: List.replicate 99 none⟩
example : WF sampleTable := by decide +kernel
end gearsets

end Physis.C09
