import PhysisModel.Proofs.C17
import PhysisModel.Proofs.C17Patch
/-!
# C17 — untrusted user and launcher files never crash the caller

For every entry point `e` the fault model `e : Bytes → M α` (`Model/Fault/*.lean`) mirrors the Rust
code **with the C17 fix patches applied**; each Rust operation that can panic is a fault-raising
primitive at the same place, each heap request that depends on file contents is logged.

* `c17_<e>_total : ∀ b, ¬ (e b).faults` — no panic for **any** byte string (no length bound);
* `c17_<e>_alloc : ∀ b, (e b).peak ≤ 64·|b| + 2^24` — every single allocation request is within the
  budget the harness' counting allocator enforces;
* `c17_<e>_unguarded_witness` — the same model with the guard removed (= the pinned commit) faults
  on a concrete input: the guard is necessary, and that input is the corpus witness.

Termination ("never runs unboundedly") is by construction: every model is a structurally
recursive Lean function (the kernel accepted it), with recursion on the list of lines / offsets /
rows or on a count that a failed read cuts short.
-/
namespace Physis.C17
open Physis Physis.F

/-! ### ConfigFile::from_existing -/
theorem c17_cfg_total (b : Bytes) : ¬ (Cfg.fromExisting true b).faults :=
  (Cfg.safe_fromExisting b).not_faults
theorem c17_cfg_alloc (b : Bytes) : (Cfg.fromExisting true b).peak ≤ 64 * b.length + 2 ^ 24 :=
  (Cfg.safe_fromExisting b).peak_le
/-- pinned commit: the line `<` panics (`&line[1..0]`) -/
theorem c17_cfg_unguarded_witness : (Cfg.fromExisting false [0x3C]).faults := by decide
/-- pinned commit: `é>` panics (byte 1 is not a char boundary) -/
theorem c17_cfg_unguarded_witness_boundary : (Cfg.fromExisting false [0xC3, 0xA9, 0x3E]).faults := by decide

/-! ### EXL::from_existing -/
theorem c17_exl_total (b : Bytes) : ¬ (Exl.fromExisting b).faults :=
  (Exl.safe_fromExisting b).not_faults
theorem c17_exl_alloc (b : Bytes) : (Exl.fromExisting b).peak ≤ 64 * b.length + 2 ^ 24 :=
  (Exl.safe_fromExisting b).peak_le

/-! ### FileInfo::from_existing -/
theorem c17_fiin_total (b : Bytes) : ¬ (Fiin.fromExisting true b).faults :=
  (Fiin.safe_fromExisting b).not_faults
theorem c17_fiin_alloc (b : Bytes) : (Fiin.fromExisting true b).peak ≤ 64 * b.length + 2 ^ 24 :=
  (Fiin.safe_fromExisting b).peak_le

/-! ### CharacterData::from_existing (for every table of valid enum bytes) -/
theorem c17_chardat_total (en : Chardat.Enums) (b : Bytes) : ¬ (Chardat.fromExisting true en b).faults :=
  (Chardat.safe_fromExisting en b).not_faults
theorem c17_chardat_alloc (en : Chardat.Enums) (b : Bytes) :
    (Chardat.fromExisting true en b).peak ≤ 64 * b.length + 2 ^ 24 :=
  (Chardat.safe_fromExisting en b).peak_le

/-! ### GearSets::from_existing -/
theorem c17_gearsets_total (b : Bytes) : ¬ (Gearsets.fromExisting true b).faults :=
  (Gearsets.safe_fromExisting b).not_faults
theorem c17_gearsets_alloc (b : Bytes) : (Gearsets.fromExisting true b).peak ≤ 64 * b.length + 2 ^ 24 :=
  (Gearsets.safe_fromExisting b).peak_le
/-- pinned commit: a header with `content_size = 0` panics (`0 - 1`) -/
theorem c17_gearsets_unguarded_witness :
    (Gearsets.fromExisting false [5, 0, 0x6D, 0, 0, 0, 0, 0, 0, 0, 0, 0, 0, 0, 0, 0, 0xFF]).faults := by decide
/-- pinned commit: `content_size = 0xFFFFFFFF` requests 4 GiB for a 17-byte file -/
theorem c17_gearsets_unguarded_overalloc :
    ¬ (Gearsets.fromExisting false [5, 0, 0x6D, 0, 0, 0, 0, 0, 0xFF, 0xFF, 0xFF, 0xFF, 0, 0, 0, 0, 0xFF]).peak
      ≤ 64 * 17 + 2 ^ 24 := by decide

/-! ### ChatLog::from_existing (for every enum table) -/
theorem c17_log_total (en : Log.Enums) (b : Bytes) : ¬ (Log.fromExisting true en b).faults :=
  (Log.safe_fromExisting en b).not_faults
theorem c17_log_alloc (en : Log.Enums) (b : Bytes) :
    (Log.fromExisting true en b).peak ≤ 64 * b.length + 2 ^ 24 :=
  (Log.safe_fromExisting en b).peak_le
/-- pinned commit: a 3-byte log panics (`expect("Cannot parse header.")`) -/
theorem c17_log_unguarded_witness (en : Log.Enums) : (Log.fromExisting false en [0, 0, 0]).faults := by
  simp [Log.fromExisting, Log.chatLog, Log.expectOr, Log.header, P.run, P.bind', P.try?, P.input, P.u32le,
    M.bind', M.pure', M.fail, M.faults, Res.isFault, P.fault, M.fault, Bind.bind]

/-! ### PatchList::from_string / to_string -/
theorem c17_patchlist_from_string_total (k : Patchlist.Kind) (s : Bytes) :
    ¬ (Patchlist.fromString true k s).faults :=
  (Patchlist.safe_fromString k s).not_faults
theorem c17_patchlist_from_string_alloc (k : Patchlist.Kind) (s : Bytes) :
    (Patchlist.fromString true k s).peak ≤ 64 * s.length + 2 ^ 24 :=
  (Patchlist.safe_fromString k s).peak_le
/-- for **every** list value (the struct has public fields): no panic -/
theorem c17_patchlist_to_string_total (k : Patchlist.Kind) (id loc : Bytes) (ps : List Patchlist.PatchEntry) :
    ¬ (Patchlist.toString true k id loc ps).faults :=
  (Patchlist.safe_toString (B := 0) k id loc ps).not_faults
/-- pinned commit: the empty string panics (`1 - 2`) -/
theorem c17_patchlist_unguarded_witness : (Patchlist.fromString false .boot []).faults := by decide
/-- pinned commit: a game entry without hashes panics on write (`hashes[0]`) -/
theorem c17_patchlist_write_unguarded_witness :
    (Patchlist.toString false .game [] [] [⟨[], [], 0, 0, 0, []⟩]).faults := by decide
/-- pinned commit: two lengths that sum beyond `i64::MAX` panic on write -/
theorem c17_patchlist_write_unguarded_overflow :
    (Patchlist.toString false .boot [] [] [⟨[], [], 0, 2 ^ 63 - 1, 0, []⟩, ⟨[], [], 0, 1, 0, []⟩]).faults := by decide

/-! ### ZiPatch::apply — for every inflate behaviour, every file-size limit, every start tree -/

/-- no panic on any patch bytes: no unwrap of a missing target info, no arithmetic on block counts
and lengths that can overflow, no capacity overflow; and the chunk / block loops never exhaust
their fuel (`Fault.fuel`), i.e. they terminate because every iteration consumes input -/
theorem c17_apply_total (inflate : Bytes → Nat → Bool) (limit : Nat) (fs : Fs.FS) (b : Bytes) :
    ¬ (Patch.apply inflate limit fs b).faults :=
  (Patch.safe_apply inflate limit fs b).not_faults

/-- **A patch that fails part-way reports an error rather than success**: the model returns `Ok`
only from the `EndOfFile` arm — a stream that ends, fails to parse, or hits an I/O error before an
`EOF_` chunk yields `Err` (the ordinary failure), never `Ok`. -/
theorem c17_patch_error (inflate : Bytes → Nat → Bool) (limit : Nat) (fs : Fs.FS) (b : Bytes)
    (last : Patch.Cmd) (fs' : Fs.FS) (h : (Patch.apply inflate limit fs b).res = .ok (last, fs')) :
    last = Patch.Cmd.eof := by
  have hs := (Patch.safe_apply inflate limit fs b).2
  rw [h] at hs
  exact hs

/-- **Memory in proportion to the patch**: every allocation requested while applying a patch is at
most `64·|b| + 2^24` bytes — for every byte string, every behaviour of inflate, every start tree and
file-size limit.  Sites whose size comes from the file: names, paths, AddData payloads and
uncompressed blocks are read incrementally (`SafePD.vecU8Bounded`: at most twice the input); a
compressed block requests its padded compressed length (< 32000 + 143) and its declared
decompressed length, which fix C17-13 refuses above 1 MiB; and the AddFile loop writes every block
to the target as soon as it is read, so nothing accumulates over the blocks of a file. -/
theorem c17_apply_alloc (inflate : Bytes → Nat → Bool) (limit : Nat) (fs : Fs.FS) (b : Bytes) :
    (Patch.apply inflate limit fs b).peak ≤ 64 * b.length + 2 ^ 24 :=
  (Patch.safe_apply inflate limit fs b).peak_le

/-- before fix C17-13 (`capped := false`): a 16-byte block header declaring 2^31 − 1 decompressed
bytes makes the block reader request that much for a 128-byte block -/
theorem c17_apply_alloc_unfixed_witness :
    ¬ (Patch.readDataBlock false (fun _ _ => true)
        (16 :: 0 :: 0 :: 0 :: 0 :: 0 :: 0 :: 0 :: 5 :: 0 :: 0 :: 0 :: 0xFF :: 0xFF :: 0xFF :: 0x7F :: List.replicate 112 0)
        ⟨16 :: 0 :: 0 :: 0 :: 0 :: 0 :: 0 :: 0 :: 5 :: 0 :: 0 :: 0 :: 0xFF :: 0xFF :: 0xFF :: 0x7F :: List.replicate 112 0, 0⟩).peak
      ≤ 64 * 128 + 2 ^ 24 := by decide +kernel

/-- the same block is refused by the fixed reader before anything is requested -/
example :
    (Patch.readDataBlock true (fun _ _ => true)
        (16 :: 0 :: 0 :: 0 :: 0 :: 0 :: 0 :: 0 :: 5 :: 0 :: 0 :: 0 :: 0xFF :: 0xFF :: 0xFF :: 0x7F :: List.replicate 112 0)
        ⟨16 :: 0 :: 0 :: 0 :: 0 :: 0 :: 0 :: 0 :: 5 :: 0 :: 0 :: 0 :: 0xFF :: 0xFF :: 0xFF :: 0x7F :: List.replicate 112 0, 0⟩).peak
      = 0 := by decide +kernel

/-- sixteen bytes: size 128 (= the padded length of an empty compressed part), 4 skipped,
compressed_length 0, decompressed_length 2^20 -/
def bombBlock : Bytes := [0x80, 0, 0, 0, 0, 0, 0, 0, 0, 0, 0, 0, 0, 0, 0x10, 0]

/-- the cap alone would not do: with the block reader capped at 1 MiB but the loop of the code
before C17-13 (every block appended to one `Vec`), ten 16-byte block headers that each declare
1 MiB — a 164-byte input when inflate accepts them — make the `Vec` grow beyond the budget.
(With libz-rs a block of 2^20 zero bytes deflates to about 1 KiB, still 1000 : 1.)  Hence the
loop was changed to write block by block. -/
theorem c17_apply_accumulate_unfixed_witness :
    ¬ (Patch.readBlocksAccum true (fun _ _ => true) (2 ^ 40) 165 0
        ((List.replicate 10 bombBlock).flatten ++ [0, 0, 0, 0])
        ⟨(List.replicate 10 bombBlock).flatten ++ [0, 0, 0, 0], 0⟩).peak
      ≤ 64 * 164 + 2 ^ 24 := by decide +kernel

/-! ### execlookup::extract_frontier_url, BootData::from_existing -/
theorem c17_execlookup_total (file : Option Bytes) : ¬ (Exec.extractFrontierUrl true file).faults :=
  (Exec.safe_extract file).not_faults
theorem c17_execlookup_alloc (file : Bytes) :
    (Exec.extractFrontierUrl true (some file)).peak ≤ 64 * file.length + 2 ^ 24 :=
  (Exec.safe_extract (some file)).peak_le
/-- pinned commit: a missing launcher panics (`fs::read(..).unwrap()`) -/
theorem c17_execlookup_unguarded_witness : (Exec.extractFrontierUrl false none).faults := by decide
theorem c17_bootdata_total (d : Bool) (ver : Option Bytes) : ¬ (Exec.bootData d ver).faults :=
  (Exec.safe_bootData d ver).not_faults

/-- non-vacuity of `c17_patch_error`: header + `EOF_` chunk is accepted (`Ok`), the same stream
without the `EOF_` chunk is `Err` -/
example : (Patch.apply (fun _ _ => false) 0 ⟨.dir, [], []⟩
    [0x91, 0x5A, 0x49, 0x50, 0x41, 0x54, 0x43, 0x48, 0x0D, 0x0A, 0x1A, 0x0A, 0, 0, 0, 0, 0x45, 0x4F, 0x46, 0x5F]).res.isOk
      = true := by decide +kernel
example : (Patch.apply (fun _ _ => false) 0 ⟨.dir, [], []⟩
    [0x91, 0x5A, 0x49, 0x50, 0x41, 0x54, 0x43, 0x48, 0x0D, 0x0A, 0x1A, 0x0A]).res.isOk = false := by decide +kernel

end Physis.C17
