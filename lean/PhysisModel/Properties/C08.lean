import PhysisModel.Proofs.Cfg
import PhysisModel.Proofs.Exl
set_option autoImplicit false
/-!
# C08 — config and list text files survive parse / edit / write

Property theorems only; helper lemmas live in `Proofs/{StrLines,Cfg,Exl}.lean`.

* `Spec.Cfg.Config` / `Spec.Exl.ListFile` are the abstract files of the property's quantifier,
  `Spec.Cfg.encode` / `Spec.Exl.encode` the documented text formats (the very encoders the
  correspondence feeds to the real code), `Spec.Cfg.setValue` the specified effect of `set_value`.
* `Cfg.parseCfg / writeCfg / setValue / hasKey / hasCategory` and `Exl.parseExl / writeExl /
  contains` are the models of `src/cfg.rs` and `src/exl.rs`.
* `Cfg.view cf` is the configuration a `ConfigFile` value stands for, `Cfg.ofConfig c` the value the
  parser builds (a map entry exactly for the categories that have keys).

All theorems hold for every input, without size bounds.  Well-formedness (`Spec.Cfg.WF`,
`Spec.Exl.WF`) is *weaker* than the quantifier of the property: values may contain TAB and CR,
names may contain `<`/`>`; only what the format really cannot carry is excluded.
-/
namespace Physis.C08
open Physis Physis.Cfg Physis.Exl
open Physis.Spec.Cfg (Config encode WF Canonical namesOf keysOf setValues ValueOK)

/-! ## configuration files -/

/-- The writer emits exactly the documented format of the configuration the value stands for
(every `ConfigFile`, no hypothesis). -/
theorem c08_cfg_write_is_encode (cf : ConfigFile) : writeCfg cf = encode (view cf) :=
  writeCfg_eq_encode cf

/-- Parsing the documented file of a well-formed configuration never panics and returns its
categories, keys and values in order. -/
theorem c08_cfg_parse_encode (c : Config) (h : WF c) :
    parseCfg (encode c) = some (ofConfig c) ∧ view (ofConfig c) = c :=
  ⟨parseCfg_encode c h, view_ofConfig c h.1⟩

/-- parse ∘ write: a written configuration parses back to the same categories, keys and values. -/
theorem c08_cfg_parse_write (cf : ConfigFile) (h : WF (view cf)) :
    (parseCfg (writeCfg cf)).map view = some (view cf) := by
  rw [writeCfg_eq_encode, parseCfg_encode _ h, Option.map_some, view_ofConfig _ h.1]

/-- write ∘ parse: writing a parsed canonical file reproduces it byte for byte. -/
theorem c08_cfg_write_parse (b : Bytes) (h : Canonical b) : (parseCfg b).map writeCfg = some b := by
  obtain ⟨c, hc, rfl⟩ := h
  rw [parseCfg_encode c hc, Option.map_some, writeCfg_eq_encode, view_ofConfig c hc.1]

/-- `set_value` has the specified effect on every `ConfigFile`: the value of every occurrence of
the key, in every category, is replaced and nothing else changes. -/
theorem c08_set_value (cf : ConfigFile) (k v : Bytes) :
    view (Cfg.setValue cf k v) = Spec.Cfg.setValue (view cf) k v ∧
    (Cfg.setValue cf k v).categories = cf.categories :=
  ⟨view_setValue cf k v, rfl⟩

/-- Pointwise reading of the specified effect: same categories; line `j` of category `i` keeps
its key and gets the new value iff its key is `k`. -/
theorem c08_set_value_pointwise (c : Config) (k v : Bytes) (i j : Nat) :
    namesOf (Spec.Cfg.setValue c k v) = namesOf c ∧
    ((Spec.Cfg.setValue c k v)[i]?.bind (·.2[j]?)) =
      (c[i]?.bind (·.2[j]?)).map (fun e => if e.1 = k then (e.1, v) else e) := by
  refine ⟨namesOf_setValue c k v, ?_⟩
  simp only [Spec.Cfg.setValue, List.getElem?_map]
  cases c[i]? with
  | none => rfl
  | some cat => simp [List.getElem?_map]

/-- Any sequence of `set_value` calls (absent keys, duplicated keys, repeated edits) on any
`ConfigFile` has the specified cumulative effect. -/
theorem c08_set_value_seq (cf : ConfigFile) (edits : List (Bytes × Bytes)) :
    view (edits.foldl (fun cf e => Cfg.setValue cf e.1 e.2) cf) = setValues (view cf) edits := by
  unfold setValues
  induction edits generalizing cf with
  | nil => rfl
  | cons e t ih => simp only [List.foldl_cons, ih, view_setValue]

/-- Parse a canonical file, apply any edit sequence with admissible values, write: the result is
the documented file of the edited configuration, and it parses back to it. -/
theorem c08_edit_roundtrip (c : Config) (edits : List (Bytes × Bytes)) (h : WF c)
    (hv : ∀ e ∈ edits, ValueOK e.2) :
    ∃ cf, parseCfg (encode c) = some cf ∧
      writeCfg (edits.foldl (fun cf e => Cfg.setValue cf e.1 e.2) cf) = encode (setValues c edits) ∧
      parseCfg (encode (setValues c edits)) = some (ofConfig (setValues c edits)) ∧
      view (ofConfig (setValues c edits)) = setValues c edits := by
  have hwf : WF (setValues c edits) := by
    unfold setValues
    induction edits generalizing c with
    | nil => exact h
    | cons e t ih =>
      exact ih _ (wf_setValue c e.1 e.2 h (hv e (by simp))) (fun x hx => hv x (by simp [hx]))
  refine ⟨ofConfig c, parseCfg_encode c h, ?_, parseCfg_encode _ hwf, view_ofConfig _ hwf.1⟩
  rw [setValues_ofConfig, writeCfg_eq_encode, view_ofConfig _ hwf.1]

/-- Key and category queries on a parsed file agree with the file's content — also for categories
without any key/value line (`has_category` after fix C08-01) — and edits do not change them. -/
theorem c08_queries (c : Config) (edits : List (Bytes × Bytes)) (k n : Bytes) :
    let cf := edits.foldl (fun cf e => Cfg.setValue cf e.1 e.2) (ofConfig c)
    (hasKey cf k = true ↔ k ∈ keysOf c) ∧ (hasCategory cf n = true ↔ n ∈ namesOf c) := by
  intro cf
  have e : cf = ofConfig (setValues c edits) := setValues_ofConfig c edits
  rw [e, hasKey_ofConfig, hasCategory_ofConfig, keysOf_setValues, namesOf_setValues]
  exact ⟨Iff.rfl, Iff.rfl⟩

/-- The iteration order of the `HashMap` behind `settings` is not observable: `has_key` gives the
same answer and `set_value` the same map (up to the same permutation) for any order. -/
theorem c08_hashmap_order_irrelevant (cs : List Bytes) (s s' : Settings) (h : s.Perm s') (k v : Bytes) :
    hasKey ⟨cs, s⟩ k = hasKey ⟨cs, s'⟩ k ∧
    (Cfg.setValue ⟨cs, s⟩ k v).settings.Perm (Cfg.setValue ⟨cs, s'⟩ k v).settings :=
  ⟨hasKey_perm cs s s' h k, setValue_perm cs s s' h k v⟩

/-- a concrete well-formed configuration: an empty category, a duplicated key, an empty key and
value, a value with a TAB:  `<A>` / `<>` `k⇥v` `k⇥` `⇥` / `<B C>` `k⇥a⇥b` -/
def sampleCfg : Config :=
  [([65], []),
   ([], [([107], [118]), ([107], []), ([], [])]),
   ([66, 32, 67], [([107], [97, 9, 98])])]

example : WF sampleCfg := by decide +kernel
example : Canonical (encode sampleCfg) := ⟨sampleCfg, by decide +kernel, rfl⟩
example : WF (view (ofConfig sampleCfg)) := by decide +kernel
example : ∀ e ∈ [(([107] : Bytes), ([120, 9, 121] : Bytes)), ([122], [])], ValueOK e.2 := by decide +kernel
/-- the edit really changes both occurrences of `k` in `<>` and the one in `<B C>` -/
example : Spec.Cfg.setValue sampleCfg [107] [49] =
    [([65], []), ([], [([107], [49]), ([107], [49]), ([], [])]), ([66, 32, 67], [([107], [49])])] := by
  decide +kernel

/-! ## Excel lists -/
open Physis.Spec.Exl (ListFile Row entriesOf stripComments)

/-- `i32` text round trip: Rust's `Display` output is read back by `str::parse::<i32>` as the same
number, for every 32-bit value. -/
theorem c08_i32_decimal_roundtrip (v : Int) (h : Spec.Exl.I32 v) :
    StrLines.parseI32 (Decimal.showInt v) = some v :=
  parseI32_showInt v h

/-- The writer emits exactly the documented format (every `EXL` value, no hypothesis). -/
theorem c08_exl_write_is_encode (e : EXL) : writeExl e = Spec.Exl.encode (toFile e) :=
  writeExl_eq_encode e

/-- Parsing the documented file of a well-formed list (any version, any 32-bit ids, comment rows
anywhere) returns the version and exactly the entries, in order; comment rows are ignored. -/
theorem c08_exl_parse_encode (f : ListFile) (h : Spec.Exl.WF f) :
    parseExl (Spec.Exl.encode f) = ⟨f.version, entriesOf f⟩ :=
  parseExl_encode f h

/-- parse ∘ write: a written list parses back to the same version and entries. -/
theorem c08_exl_parse_write (e : EXL) (h : Spec.Exl.WF (toFile e)) : parseExl (writeExl e) = e := by
  rw [writeExl_eq_encode, parseExl_encode _ h, entriesOf_toFile]; rfl

/-- write ∘ parse: writing a parsed canonical list reproduces it byte for byte. -/
theorem c08_exl_write_parse (b : Bytes) (h : Spec.Exl.Canonical b) : writeExl (parseExl b) = b := by
  obtain ⟨f, hf, hs, rfl⟩ := h
  rw [parseExl_encode f hf, writeExl_eq_encode, toFile_entriesOf f hs]

/-- `contains` on a parsed list agrees with the file's entries (case-sensitive, comments excluded). -/
theorem c08_exl_contains (f : ListFile) (h : Spec.Exl.WF f) (k : Bytes) :
    Exl.contains (parseExl (Spec.Exl.encode f)) k = true ↔ k ∈ (entriesOf f).map (·.1) := by
  rw [parseExl_encode f h, contains_iff]

/-- `EXLT,-2147483648` / `#c,1` / `Foo,2147483647` / `#` / `a b,-1` -/
def sampleExl : ListFile :=
  ⟨-2147483648, [.comment [35, 99, 44, 49], .entry [70, 111, 111] 2147483647, .comment [35], .entry [97, 32, 98] (-1)]⟩

example : Spec.Exl.WF sampleExl := by decide +kernel
example : Spec.Exl.WF (toFile ⟨2, [([70, 111, 111], 0), ([66, 97, 114], -5)]⟩) := by decide +kernel
example : Spec.Exl.Canonical (Spec.Exl.encode (stripComments sampleExl)) :=
  ⟨stripComments sampleExl, by decide +kernel, by decide +kernel, rfl⟩
example : Spec.Exl.I32 (-2147483648) := by decide

end Physis.C08
