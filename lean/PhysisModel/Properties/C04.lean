import PhysisModel.Proofs.PatchCreate
import PhysisModel.Proofs.PatchWriter
/-!
# C04 — a created patch turns the old tree into the new tree

Property theorems only (helper lemmas: `Proofs/Fs.lean`, `Proofs/PatchBytes.lean`,
`Proofs/PatchCreate.lean`).  `Patch.create` / `Patch.apply` are the models of `ZiPatch::create`
(with fix `C04-01`) and `ZiPatch::apply`; trees are `Fs.Tree`s below the data directory.
-/
namespace Physis.C04
open Physis Physis.Fs Physis.Patch Physis.Spec.ZiPatchCreate

/-- **Create, then apply.**  `A` is the old install, `B` the new one; `la` and `lb` are *any* lists
holding exactly the regular files of `A` and of `B` — that is, the two recursive directory
listings in whatever order (and however often) `read_dir` returns them.  Under the decidable input
conditions `Inputs` (valid path components, no zero-byte file in `B`, no path that is a file in one
tree and a directory in the other, files below 2 GiB), applying the created patch to `A` succeeds
and leaves exactly `B`'s regular files with `B`'s contents: added files appear, files present in both
end with `B`'s content, files only in `A` disappear.  `inflate` is arbitrary: created patches hold
no compressed block. -/
theorem c04_create_apply (inflate : Bytes → Nat → Option Bytes) (A B : Tree) (la lb : List (Path × Bytes))
    (hin : Inputs A (files B) = true)
    (hla : ∀ p d, (p, d) ∈ la ↔ get A p = some (.file d))
    (hlb : ∀ p d, (p, d) ∈ lb ↔ get B p = some (.file d)) :
    ∃ T, Patch.apply inflate (Patch.create la lb) A = (.ok, T) ∧
      ∀ p d, get T p = some (.file d) ↔ get B p = some (.file d) := by
  simp only [Inputs, Bool.and_eq_true] at hin
  obtain ⟨⟨⟨⟨⟨⟨hA, hpB⟩, hneB⟩, hpf⟩, hcompat⟩, hszA⟩, hszB⟩ := hin
  have hmemB : ∀ e ∈ lb, e ∈ files B := fun e he => mem_files B e.1 e.2 ((hlb e.1 e.2).mp he)
  have hmemA : ∀ e ∈ la, e ∈ files A := fun e he => mem_files A e.1 e.2 ((hla e.1 e.2).mp he)
  have H : Hyp A lb := by
    constructor
    · intro p d d' h1 h2
      have := (hlb p d).mp h1
      rw [(hlb p d').mp h2] at this
      cases this; rfl
    · intro e he q hq f hf hfq
      have := List.all_eq_true.mp hpf e (hmemB e he)
      have := List.all_eq_true.mp this q hq
      simp only [Bool.not_eq_true', List.any_eq_false, decide_eq_true_eq] at this
      exact this f (hmemB f hf) hfq
    · intro e he
      have := List.all_eq_true.mp hcompat e (hmemB e he)
      simp only [Bool.and_eq_true, Bool.not_eq_true', beq_eq_false_iff_ne, ne_eq, List.all_eq_true] at this
      exact ⟨this.1, this.2⟩
    · intro e he
      exact List.all_eq_true.mp hpB e (hmemB e he)
  have hokA : ∀ e ∈ la, pathOk e.1 = true := by
    intro e he
    have := get_mem A e.1 _ ((hla e.1 e.2).mp he)
    exact List.all_eq_true.mp hA _ this
  have hne : ∀ e ∈ lb, 0 < e.2.length := by
    intro e he
    have := List.all_eq_true.mp hneB e (hmemB e he)
    simp only [Bool.not_eq_true', List.isEmpty_eq_false_iff] at this
    exact List.length_pos_iff.mpr this
  have hsz : ∀ l l' : List (Path × Bytes), sizesOk l' = true → (∀ e ∈ l, e ∈ l') → SizesOk l := by
    intro l l' h hl e he
    have := List.all_eq_true.mp h e (hl e he)
    simpa using this
  obtain ⟨T, h1, h2⟩ := create_apply inflate A la lb H (fun p d => by rw [hla, fileAt_iff]) hokA hne
    (hsz la _ hszA hmemA) (hsz lb _ hszB hmemB)
  exact ⟨T, h1, fun p d => by rw [← fileAt_iff, h2, hlb]⟩

/-- **The writer, seek by seek.**  `Patch.createSeek` drives a cursor the way the code drives its
`BufWriter<Cursor<&mut Vec<u8>>>` — chunk with zero crc, `seek(Current(-4))`, block header with its
`restore_position` field, data, `seek(Current(4))`, zero-fill on the next write — and ends with
exactly the bytes `Patch.create` states, for all listings (no seek ever fails). -/
theorem c04_create_seek (base new : List (Path × Bytes)) :
    Patch.createSeek base new = some (Patch.create base new) :=
  createSeek_eq base new

/-- `c04_create_apply` through the seek-by-seek writer -/
theorem c04_create_seek_apply (inflate : Bytes → Nat → Option Bytes) (A B : Tree) (la lb : List (Path × Bytes))
    (hin : Inputs A (files B) = true)
    (hla : ∀ p d, (p, d) ∈ la ↔ get A p = some (.file d))
    (hlb : ∀ p d, (p, d) ∈ lb ↔ get B p = some (.file d)) :
    ∃ patch T, Patch.createSeek la lb = some patch ∧ Patch.apply inflate patch A = (.ok, T) ∧
      ∀ p d, get T p = some (.file d) ↔ get B p = some (.file d) := by
  obtain ⟨T, h1, h2⟩ := c04_create_apply inflate A B la lb hin hla hlb
  exact ⟨_, T, c04_create_seek la lb, h1, h2⟩

/-- **The listing order does not matter**: two runs of `create` that saw the directory entries in
different orders produce patches with the same effect on the files of `A`. -/
theorem c04_listing_order (inflate : Bytes → Nat → Option Bytes) (A B : Tree)
    (la la' lb lb' : List (Path × Bytes)) (hin : Inputs A (files B) = true)
    (hla : ∀ p d, (p, d) ∈ la ↔ get A p = some (.file d))
    (hla' : ∀ p d, (p, d) ∈ la' ↔ get A p = some (.file d))
    (hlb : ∀ p d, (p, d) ∈ lb ↔ get B p = some (.file d))
    (hlb' : ∀ p d, (p, d) ∈ lb' ↔ get B p = some (.file d)) :
    ∃ T T', Patch.apply inflate (Patch.create la lb) A = (.ok, T) ∧
      Patch.apply inflate (Patch.create la' lb') A = (.ok, T') ∧
      ∀ p d, get T p = some (.file d) ↔ get T' p = some (.file d) := by
  obtain ⟨T, h1, h2⟩ := c04_create_apply inflate A B la lb hin hla hlb
  obtain ⟨T', h1', h2'⟩ := c04_create_apply inflate A B la' lb' hin hla' hlb'
  exact ⟨T, T', h1, h1', fun p d => by rw [h2, h2']⟩

/-- **Block round trip**, for every data length below 2 GiB — including 1..3 bytes, where the
reader's 4-byte look-ahead after the header runs into whatever follows the block (`rest`; in a
created patch at least the 4-byte gap and the `EOF_` chunk). -/
theorem c04_block_roundtrip (inflate : Bytes → Nat → Option Bytes) (d rest : Bytes)
    (hd : d.length < 2 ^ 31) (hpeek : 4 ≤ d.length + rest.length) :
    readDataBlockPatch inflate (writeDataBlockPatch d ++ rest) = some (d, rest) :=
  readDataBlockPatch_write inflate d rest hd hpeek

/-- the block writer aligns: header plus data plus the stated `size` is the next multiple of 128
at or above `len + 16` -/
theorem c04_block_size_field (l : UInt64) (h : l < 0x80000000) :
    (pad128 l - l).toUInt32.toUInt64 + l = pad128 l ∧ pad128 l % 128 = 0 ∧ l + 16 ≤ pad128 l ∧ pad128 l < l + 144 := by
  simp only [pad128]; bv_decide (timeout := 300)

/-! ### non-vacuity -/

/-- old tree: `f0` = 01, `gone` = 02, and an empty directory `d9` -/
def exA : Tree := [([[0x66, 0x30]], .file [1]), ([[0x67, 0x6f, 0x6e, 0x65]], .file [2]), ([[0x64, 0x39]], .dir)]
/-- new tree: `f0` = 01 02 (changed), `d0/f1` = 03 (added, in a new directory) -/
def exB : Tree := [([[0x66, 0x30]], .file [1, 2]), ([[0x64, 0x30]], .dir), ([[0x64, 0x30], [0x66, 0x31]], .file [3])]

example : Inputs exA (files exB) = true := by decide
example : ∀ p d, (p, d) ∈ files exA ↔ get exA p = some (.file d) := by
  intro p d
  constructor
  · intro h; simp [files, exA] at h; rcases h with ⟨rfl, rfl⟩ | ⟨rfl, rfl⟩ <;> decide
  · intro h; exact mem_files exA p d h
/-- the model really runs on this instance: the patch applies and `gone` is gone -/
example : (Patch.apply (fun _ _ => none) (Patch.create (files exA) (files exB)) exA).1 = .ok := by
  decide +kernel
example : get (Patch.apply (fun _ _ => none) (Patch.create (files exA) (files exB)) exA).2
    [[0x67, 0x6f, 0x6e, 0x65]] = none := by decide +kernel
example : get (Patch.apply (fun _ _ => none) (Patch.create (files exA) (files exB)) exA).2
    [[0x66, 0x30]] = some (.file [1, 2]) := by decide +kernel
/-- block round trip on a 3-byte block followed by 4 bytes -/
example : readDataBlockPatch (fun _ _ => none) (writeDataBlockPatch [7, 8, 9] ++ [0, 0, 0, 0]) =
    some ([7, 8, 9], [0, 0, 0, 0]) := c04_block_roundtrip _ _ _ (by decide) (by decide)

end Physis.C04
