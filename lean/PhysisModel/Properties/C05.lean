import PhysisModel.Spec.Excel
import PhysisModel.Model.Exd
namespace Physis.C05
end Physis.C05
