import PhysisModel.Proofs.ExcelIndex
import PhysisModel.Generated.ExcelCodes
import PhysisModel.Proofs.ExcelRootList
import PhysisModel.Proofs.ExcelArchive
import PhysisModel.Spec.Deflate
import PhysisModel.Proofs.BinrwTieExcel
/-!
# C05 — Excel sheets decode to the cell values stored in them

Property theorems only; helper lemmas are in `Proofs/Excel*.lean`.  `Spec/Excel.lean` defines the
abstract values (schema, rows, typed cells), the encoders `encodeExh` / `encodeExd` and the
decidable well-formedness predicates; `Model/Exh.lean`, `Model/Exd.lean` mirror the Rust reader
(with fix patches C05-01..03 applied).  `toExh`, `toExd`, `toData` (in `Proofs/`) map abstract
values to the reader's value types constructor by constructor.
-/
namespace Physis.C05
open Physis Physis.Spec.Excel Physis.Exh Physis.Exd Physis.Proofs.Excel

/-- `EXH::from_existing` on an encoded header returns exactly the schema's fixed-region size, row
count, column definitions (type, offset), pages and languages, for every well-formed schema. -/
theorem c05_exh_roundtrip (s : Schema) (h : WFschema s) :
    Exh.fromExisting (encodeExh s) = some (toExh s) := exh_roundtrip s h

/-- a sub-row schema with a string, two packed bools sharing a byte and a u16 -/
def exSchema : Schema where
  version := 3
  dataOffset := 8
  subrows := true
  rowCount := 2
  columns := [⟨.string, 0⟩, ⟨.packedBool 0, 4⟩, ⟨.packedBool 7, 4⟩, ⟨.uint16, 6⟩]
  pages := [⟨0, 2⟩]
  languages := [.none, .en]

/-- non-vacuity of `WFschema` -/
example : WFschema exSchema := by decide

/-- `EXD::from_existing` on an encoded page returns the index `(row id, absolute chunk offset)` of
every stored row, in order, and the whole file as data view. -/
theorem c05_exd_index_roundtrip (s : Schema) (rows : List Row) (h : WFrows s rows) :
    Exd.fromExisting (encodeExd s rows) = some (toExd s rows) := by
  have := h.2.1
  rw [encodeExd_length] at this
  exact exd_parse s rows (by omega)

/-
The full statement of the design — not provable for the code as it is, see
`c05_single_subrow_witness` (open finding `exd.single-subrow`):

theorem c05_read_row (s : Schema) (rows : List Row) (hs : WFschema s) (hr : WFrows s rows)
    (r : Row) (hmem : r ∈ rows) :
    ∃ exh exd, Exh.fromExisting (encodeExh s) = some exh ∧
      Exd.fromExisting (encodeExd s rows) = some exd ∧
      readRow exd exh r.id = .ok (r.subs.map (·.map toData))
-/

/-- Reading a stored row id from the encoded page with the encoded header returns one record per
stored sub-row, whose cells are the stored cells column by column (all 19 column types; strings,
every packed-bool bit, integers and float bit patterns exactly) — for every well-formed schema and
row set, excluding only rows in the class of the open finding `exd.single-subrow`. -/
theorem c05_read_row_partial (s : Schema) (rows : List Row) (hs : WFschema s) (hr : WFrows s rows)
    (r : Row) (hmem : r ∈ rows) (hns : singleSubrow s r = false) :
    ∃ exh exd, Exh.fromExisting (encodeExh s) = some exh ∧
      Exd.fromExisting (encodeExd s rows) = some exd ∧
      readRow exd exh r.id = .ok (r.subs.map (·.map toData)) := by
  refine ⟨toExh s, toExd s rows, exh_roundtrip s hs, c05_exd_index_roundtrip s rows hr, ?_⟩
  obtain ⟨hnd, hsmall, hrows⟩ := hr
  obtain ⟨pre, post, rfl⟩ := List.append_of_mem hmem
  have hnotin : r.id ∉ (chunksOf s pre).map (·.1) := by
    simp only [List.map_append, List.map_cons] at hnd
    have := (List.nodup_append.mp hnd).2.2
    intro hin
    simp only [chunksOf, List.map_map, Function.comp_def] at hin
    exact this r.id hin r.id (List.mem_cons_self ..) rfl
  have hchunks : chunksOf s (pre ++ r :: post)
      = chunksOf s pre ++ (r.id, encodeRow s r) :: chunksOf s post := by
    simp [chunksOf]
  have hfind := find_index (chunksOf s pre) (chunksOf s post) r.id (encodeRow s r)
    (32 + 8 * (pre ++ r :: post).length) hnotin
  rw [← hchunks] at hfind
  have hlenfile := encodeExd_length s (pre ++ r :: post)
  -- the file around the chunk
  have hfile : encodeExd s (pre ++ r :: post) =
      (encodeExdHeader (8 * (pre ++ r :: post).length)
          (((chunksOf s (pre ++ r :: post)).map (·.2)).flatten).length
        ++ encodeIndex (chunksOf s (pre ++ r :: post)) (32 + 8 * (pre ++ r :: post).length)
        ++ ((chunksOf s pre).map (·.2)).flatten)
      ++ (encodeRow s r ++ ((chunksOf s post).map (·.2)).flatten) := by
    simp only [encodeExd, hchunks, List.map_append, List.map_cons, List.flatten_append,
      List.flatten_cons, List.append_assoc]
  have hbody : (((chunksOf s (pre ++ r :: post)).map (·.2)).flatten).length
      = (((chunksOf s pre).map (·.2)).flatten).length + ((encodeRow s r).length
        + (((chunksOf s post).map (·.2)).flatten).length) := by
    simp only [hchunks, List.map_append, List.map_cons, List.flatten_append, List.flatten_cons,
      List.length_append]
  have hoff : (UInt32.ofNat (32 + 8 * (pre ++ r :: post).length
      + (((chunksOf s pre).map (·.2)).flatten).length)).toNat
      = 32 + 8 * (pre ++ r :: post).length + (((chunksOf s pre).map (·.2)).flatten).length := by
    rw [UInt32.toNat_ofNat']
    exact Nat.mod_eq_of_lt (by omega)
  simp only [readRow, toExd, hfind]
  refine readRowAt_correct s hs r (hrows r hmem) hns _ _ _ _ hfile ?_ hsmall
  rw [hoff]
  simp only [List.length_append, encodeExdHeader_length, encodeIndex_length]
  simp [chunksOf]

/-- For default sheets (no sub-rows) the statement holds without exclusion: every stored row
reads back as its single record. -/
theorem c05_read_row_default (s : Schema) (rows : List Row) (hs : WFschema s) (hr : WFrows s rows)
    (hd : s.subrows = false) (r : Row) (hmem : r ∈ rows) :
    ∃ exh exd, Exh.fromExisting (encodeExh s) = some exh ∧
      Exd.fromExisting (encodeExd s rows) = some exd ∧
      readRow exd exh r.id = .ok (r.subs.map (·.map toData)) :=
  c05_read_row_partial s rows hs hr r hmem (by simp [singleSubrow, hd])

/-- a default sheet: string, Bool, three packed bools in one byte, i64, f32 (shuffled order) -/
def dSchema : Schema where
  version := 3
  dataOffset := 20
  subrows := false
  rowCount := 2
  columns := [⟨.packedBool 3, 5⟩, ⟨.string, 0⟩, ⟨.int64, 8⟩, ⟨.bool, 4⟩, ⟨.packedBool 0, 5⟩,
    ⟨.float32, 16⟩, ⟨.packedBool 7, 5⟩]
  pages := [⟨0, 2⟩]
  languages := [.ja, .en]

def dRows : List Row :=
  [⟨1, [[.bool true, .str [0x61, 0x62], .i64 0xFFFFFFFFFFFFFFFF, .bool true, .bool false,
      .f32 0x7FC00000, .bool true]]⟩,
   ⟨4294967295, [[.bool false, .str [], .i64 0, .bool false, .bool true, .f32 0, .bool false]]⟩]

/-- non-vacuity of `c05_read_row_default` -/
example : WFschema dSchema ∧ WFrows dSchema dRows ∧ dSchema.subrows = false := by decide +kernel

/-- a sub-row sheet with one u16 column -/
def wSchema : Schema where
  version := 3
  dataOffset := 2
  subrows := true
  rowCount := 2
  columns := [⟨.uint16, 0⟩]
  pages := [⟨0, 2⟩]
  languages := [.none]

/-- row 5 has exactly one sub-row, row 6 has two -/
def wRows : List Row := [⟨5, [[.u16 0x1234]]⟩, ⟨6, [[.u16 1], [.u16 2]]⟩]

/-- non-vacuity of `c05_read_row_partial` / `c05_read_row_unknown`: the hypotheses hold for this
sheet and its row 6 (two sub-rows) -/
example : WFschema wSchema ∧ WFrows wSchema wRows ∧ singleSubrow wSchema ⟨6, [[.u16 1], [.u16 2]]⟩ = false
    ∧ (7 : UInt32) ∉ wRows.map (·.id) := by decide +kernel

/-- Open finding `exd.single-subrow`: for a well-formed sub-row sheet, reading the row that has
exactly one sub-row does **not** return the stored cell (0x1234): the reader infers the sheet kind
from `row_count > 1`, treats the row as a default-sheet row and decodes the 2-byte sub-row id (0)
as the cell.  Hence the full `c05_read_row` is false for the code as it is. -/
theorem c05_single_subrow_witness :
    WFschema wSchema ∧ WFrows wSchema wRows ∧ singleSubrow wSchema ⟨5, [[.u16 0x1234]]⟩ = true ∧
    (match Exh.fromExisting (encodeExh wSchema), Exd.fromExisting (encodeExd wSchema wRows) with
      | some exh, some exd => (match readRow exd exh 5 with | .ok v => some v | .error _ => none)
      | _, _ => none) = some [[.uint16 0]] := by decide +kernel

/-- An id that is not stored yields nothing. -/
theorem c05_read_row_unknown (s : Schema) (rows : List Row) (hs : WFschema s) (hr : WFrows s rows)
    (id : UInt32) (hid : id ∉ rows.map (·.id)) :
    ∃ exh exd, Exh.fromExisting (encodeExh s) = some exh ∧
      Exd.fromExisting (encodeExd s rows) = some exd ∧
      readRow exd exh id = .error .none := by
  refine ⟨toExh s, toExd s rows, exh_roundtrip s hs, c05_exd_index_roundtrip s rows hr, ?_⟩
  have : id ∉ (chunksOf s rows).map (·.1) := by
    simpa only [chunksOf, List.map_map, Function.comp_def] using hid
  simp only [readRow, toExd, find_index_none _ id _ this]

/-- `EXD::calculate_filename` builds `<name>_<start id>[_<language code>].exd`; `Language::None`
has no suffix. -/
theorem c05_filename (name : Bytes) (l : Lang) (p : Page) :
    calculateFilename name (toModelLang l) (toModelPage p) = pageFileName name l p := by
  cases l <;> simp [calculateFilename, pageFileName, toModelLang, toModelPage, fmtNat, decimal,
    Nat.repr, getLanguageCode, Lang.suffix]

/-- `GameData::read_excel_sheet_header`: a name listed in the root list is looked up in the archive
under `exd/<lower-case name>.exh` and what is stored there is parsed as the header; a name that
is not listed yields nothing (the archive is not even asked). -/
theorem c05_sheet_lookup (extract : Bytes → Option Bytes) (entries : List (Bytes × Int)) (name : Bytes) :
    (name ∈ entries.map (·.1) →
      readExcelSheetHeader extract entries name = (extract (headerPath name)).bind Exh.fromExisting) ∧
    (name ∉ entries.map (·.1) → readExcelSheetHeader extract entries name = none) := by
  constructor
  · intro h
    cases hf : entries.find? (fun e => e.1 == name) with
    | some e => simp only [readExcelSheetHeader, hf, sheetHeaderPath, headerPath]
    | none =>
      exfalso
      obtain ⟨e, he, rfl⟩ := List.mem_map.mp h
      have := List.find?_eq_none.mp hf e he
      simp at this
  · intro h
    cases hf : entries.find? (fun e => e.1 == name) with
    | none => simp only [readExcelSheetHeader, hf]
    | some e =>
      exfalso
      have hm := List.mem_of_find?_eq_some hf
      have hp := List.find?_some hf
      simp only [beq_iff_eq] at hp
      exact h (List.mem_map.mpr ⟨e, hm, hp⟩)

/-- `GameData::read_excel_sheet`: page `k` of a sheet in language `l` is looked up under
`exd/<name>_<start id of page k>[_<language code>].exd`. -/
theorem c05_page_lookup (extract : Bytes → Option Bytes) (name : Bytes) (s : Schema) (l : Lang)
    (k : Nat) (hk : k < s.pages.length) :
    readExcelSheet extract name (toExh s) (toModelLang l) k =
      match (extract (pagePath name l s.pages[k])).bind Exd.fromExisting with
      | some exd => .ok exd
      | none => .error .none := by
  have hp : (toExh s).pages[k]? = some (toModelPage s.pages[k]) := by
    simp [toExh, hk]
  simp only [readExcelSheet, hp, pagePath, c05_filename]
  cases (extract ([101, 120, 100, 47] ++ pageFileName name l s.pages[k])).bind Exd.fromExisting <;> rfl

/-- non-vacuity of `c05_sheet_lookup` / `c05_page_lookup`: "Item" is listed in a root list with
two entries; `exSchema` has a page 0 -/
example : ([0x49, 0x74, 0x65, 0x6d] : Bytes) ∈
    ([([0x41], 1), ([0x49, 0x74, 0x65, 0x6d], 2)] : List (Bytes × Int)).map (·.1) ∧
    0 < exSchema.pages.length := by decide

/-- `EXL::from_existing` on an encoded root list (`EXLT,<version>` then `<name>,<id>` lines)
returns the version and the entries in order; hence `get_all_sheet_names` returns exactly the
listed names. -/
theorem c05_sheet_names (v : Int) (es : List (Bytes × Int)) (h : WFrootList v es) :
    ExcelRootList.fromExisting (encodeRootList v es) = ⟨v, es⟩ ∧
    allSheetNames (ExcelRootList.fromExisting (encodeRootList v es)).entries = es.map (·.1) := by
  have := Proofs.ExcelRootList.rootList_roundtrip v es h
  exact ⟨this, by rw [this]; rfl⟩

/-- The two steps composed: with `exd/root.exl` = the encoded root list, a listed sheet name is
looked up under `exd/<lower-case name>.exh`, an unlisted one is not looked up at all. -/
theorem c05_sheet_lookup_rootlist (extract : Bytes → Option Bytes) (v : Int)
    (es : List (Bytes × Int)) (h : WFrootList v es) (name : Bytes) :
    readExcelSheetHeader extract (ExcelRootList.fromExisting (encodeRootList v es)).entries name =
      if name ∈ es.map (·.1) then (extract (headerPath name)).bind Exh.fromExisting else none := by
  rw [(c05_sheet_names v es h).1]
  have := c05_sheet_lookup extract es name
  split
  · rename_i hin; exact this.1 hin
  · rename_i hin; exact this.2 hin

/-- non-vacuity: a root list with a negative id, a name containing `/`, and one starting lower-case -/
example : WFrootList 2 [([0x41, 0x2f, 0x62], -1), ([0x69, 0x74, 0x65, 0x6d], 2147483647)] := by
  decide

/-! ## Sheets stored in a (synthetic) archive

Setting as in C01 / C02: `a : Archive` describes the index files of an installation, `disk` is any
file system that `Realises` it, `fresh a` is the handle `GameData::from_existing` returns,
`runCalls inflate disk (fresh a) cs` the handle after any history `cs` of calls (plain
`exists` / `find_offset` / `extract` queries and the three Excel entry points, in any order).
`StoresStd inflate disk a p content` (`Proofs/ExcelArchive.lean`): the index entry that `locate`
finds for the game path `p` points at a packed standard entry (`Spec/SqPackData.packStandard`,
any split into blocks, each raw or deflated) whose content is `content`.
Results are `some (some v)`: no panic, `Some(v)`.  The model of the glue is
`Model/GameDataExcel.lean`; `inflate` (zlib) is a parameter constrained only on the deflated
blocks, as in C02.
-/
section archive
open Physis.GameData Physis.Spec.Archive Physis.Str

/-- every history of calls on a handle — plain archive queries and Excel entry points mixed —
leaves it in a state some history of plain queries produces (only the index-file cache persists),
so "after any history" below is exactly C01's notion -/
theorem c05_calls_are_queries (inflate : Dat.Inflate) (disk : Disk) (g : GameData.GameData) (cs : List Call) :
    ∃ qs, runCalls inflate disk g cs = run disk g qs := runCalls_is_run inflate disk g cs

private theorem extractFull_stored (inflate : Dat.Inflate) (disk : Disk) (a : Archive)
    (hr : Realises disk a) (hw : a.WF) (p content : Bytes) (h : StoresStd inflate disk a p content)
    (qs : List Query) :
    extractFull inflate disk (run disk (fresh a) qs) p =
      (some (some content), run disk (fresh a) (qs ++ [.extract p])) := by
  rw [pair_eta (extractFull inflate disk (run disk (fresh a) qs) p),
    extract_stored inflate disk a hr hw p content h qs, extractFull_snd_run, run_append]

private theorem extractFull_absent (inflate : Dat.Inflate) (disk : Disk) (a : Archive)
    (hr : Realises disk a) (hw : a.WF) (p : Bytes) (h : locate a p = none) (qs : List Query) :
    extractFull inflate disk (run disk (fresh a) qs) p =
      (some none, run disk (fresh a) (qs ++ [.extract p])) := by
  rw [pair_eta (extractFull inflate disk (run disk (fresh a) qs) p),
    extract_absent inflate disk a hr hw p h qs, extractFull_snd_run, run_append]

/-- `GameData::get_all_sheet_names` on an installation that stores the encoded root list under
`exd/root.exl` returns exactly the listed names, in order — after any history. -/
theorem c05_names_from_archive (inflate : Dat.Inflate) (disk : Disk) (a : Archive)
    (hr : Realises disk a) (hw : a.WF) (v : Int) (es : List (Bytes × Int)) (hroot : WFrootList v es)
    (h1 : StoresStd inflate disk a rootListPath (encodeRootList v es)) (cs : List Call) :
    (getAllSheetNames inflate disk (runCalls inflate disk (fresh a) cs)).1 = some (some (es.map (·.1))) := by
  obtain ⟨qs, hq⟩ := runCalls_is_run inflate disk (fresh a) cs
  rw [hq]
  simp only [getAllSheetNames, extractFull_stored inflate disk a hr hw _ _ h1 qs,
    (c05_sheet_names v es hroot).1, allSheetNames]

/-- `GameData::read_excel_sheet_header(name)` for a listed name (as spelled in the root list,
upper-case letters and sub-directories included) whose encoded header is stored under
`exd/<lower-case name>.exh` returns the schema — after any history. -/
theorem c05_header_from_archive (inflate : Dat.Inflate) (disk : Disk) (a : Archive)
    (hr : Realises disk a) (hw : a.WF) (v : Int) (es : List (Bytes × Int)) (hroot : WFrootList v es)
    (name : Bytes) (hname : name ∈ es.map (·.1)) (s : Schema) (hs : WFschema s)
    (h1 : StoresStd inflate disk a rootListPath (encodeRootList v es))
    (h2 : StoresStd inflate disk a (headerPath name) (encodeExh s)) (cs : List Call) :
    (readExcelSheetHeader inflate disk (runCalls inflate disk (fresh a) cs) name).1 =
      some (some (toExh s)) := by
  obtain ⟨qs, hq⟩ := runCalls_is_run inflate disk (fresh a) cs
  rw [hq]
  have hfind : ∃ e, es.find? (fun e => e.1 == name) = some e := by
    cases hf : es.find? (fun e => e.1 == name) with
    | some e => exact ⟨e, rfl⟩
    | none =>
      exfalso
      obtain ⟨e, he, rfl⟩ := List.mem_map.mp hname
      have := List.find?_eq_none.mp hf e he
      simp at this
  obtain ⟨e, hfind⟩ := hfind
  have h2' : StoresStd inflate disk a (sheetHeaderPath name) (encodeExh s) := h2
  simp only [GameData.readExcelSheetHeader, extractFull_stored inflate disk a hr hw _ _ h1 qs,
    (c05_sheet_names v es hroot).1, hfind, extractFull_stored inflate disk a hr hw _ _ h2',
    exh_roundtrip s hs]

/-- `GameData::read_excel_sheet(name, exh, language, k)` with the schema's header, when the encoded
page is stored under the lower-cased `exd/<name>_<start id of page k>[_<language code>].exd`,
returns the page (index of every row; data view = the file) — after any history.  The name is
passed on as spelled; the archive lookup ignores letter case (`storesStd_lower`: storing under the
lower-cased path and under the spelled path are the same thing). -/
theorem c05_page_from_archive (inflate : Dat.Inflate) (disk : Disk) (a : Archive)
    (hr : Realises disk a) (hw : a.WF) (name : Bytes) (s : Schema) (k : Nat) (hk : k < s.pages.length)
    (l : Lang) (rows : List Row) (hrows : WFrows s rows)
    (h3 : StoresStd inflate disk a (lower (pagePath name l s.pages[k])) (encodeExd s rows))
    (cs : List Call) :
    (GameData.readExcelSheet inflate disk (runCalls inflate disk (fresh a) cs) name (toExh s)
      (toModelLang l) k).1 = some (some (toExd s rows)) := by
  obtain ⟨qs, hq⟩ := runCalls_is_run inflate disk (fresh a) cs
  rw [hq]
  have hp : (toExh s).pages[k]? = some (toModelPage s.pages[k]) := by
    simp [toExh, hk]
  have h3' : StoresStd inflate disk a (sheetPagePath name (toModelLang l) (toModelPage s.pages[k]))
      (encodeExd s rows) := by
    rw [sheetPagePath, c05_filename]
    exact (storesStd_lower inflate disk a _ _).mp h3
  simp only [GameData.readExcelSheet, hp, extractFull_stored inflate disk a hr hw _ _ h3' qs,
    c05_exd_index_roundtrip s rows hrows]

/-- **End to end.**  For a well-formed installation that stores the root list, the header and a
page of a well-formed sheet under the names the root list, the sheet name, the page's start id and
the language imply: after any history on the handle, `read_excel_sheet_header(name)` returns a
header `exh`; after any (other) history `read_excel_sheet(name, &exh, language, k)` returns a page
`exd`; and `exd.read_row(&exh, id)` returns, for every stored row outside the class of the open
finding `exd.single-subrow`, one record per stored sub-row with the stored cells column by
column, and `None` for an id the page does not store. -/
theorem c05_sheet_from_archive (inflate : Dat.Inflate) (disk : Disk) (a : Archive)
    (hr : Realises disk a) (hw : a.WF) (v : Int) (es : List (Bytes × Int)) (hroot : WFrootList v es)
    (name : Bytes) (hname : name ∈ es.map (·.1)) (s : Schema) (hs : WFschema s)
    (k : Nat) (hk : k < s.pages.length) (l : Lang) (rows : List Row) (hrows : WFrows s rows)
    (h1 : StoresStd inflate disk a rootListPath (encodeRootList v es))
    (h2 : StoresStd inflate disk a (headerPath name) (encodeExh s))
    (h3 : StoresStd inflate disk a (lower (pagePath name l s.pages[k])) (encodeExd s rows))
    (cs1 cs2 : List Call) :
    ∃ exh exd,
      (readExcelSheetHeader inflate disk (runCalls inflate disk (fresh a) cs1) name).1 = some (some exh) ∧
      (GameData.readExcelSheet inflate disk (runCalls inflate disk (fresh a) cs2) name exh
        (toModelLang l) k).1 = some (some exd) ∧
      (∀ r ∈ rows, singleSubrow s r = false → readRow exd exh r.id = .ok (r.subs.map (·.map toData))) ∧
      (∀ id, id ∉ rows.map (·.id) → readRow exd exh id = .error .none) := by
  refine ⟨toExh s, toExd s rows,
    c05_header_from_archive inflate disk a hr hw v es hroot name hname s hs h1 h2 cs1,
    c05_page_from_archive inflate disk a hr hw name s k hk l rows hrows h3 cs2, ?_, ?_⟩
  · intro r hmem hns
    obtain ⟨exh, exd, e1, e2, e3⟩ := c05_read_row_partial s rows hs hrows r hmem hns
    rw [exh_roundtrip s hs] at e1
    rw [c05_exd_index_roundtrip s rows hrows] at e2
    cases e1; cases e2
    exact e3
  · intro id hid
    obtain ⟨exh, exd, e1, e2, e3⟩ := c05_read_row_unknown s rows hs hrows id hid
    rw [exh_roundtrip s hs] at e1
    rw [c05_exd_index_roundtrip s rows hrows] at e2
    cases e1; cases e2
    exact e3

/-- Only what is stored is found: a name the root list does not contain yields `None` (and the
archive is asked for nothing but the root list); a listed name whose header path the archive does
not store yields `None`; a page whose path is not stored yields `None` — never a panic, after any
history. -/
theorem c05_sheet_not_stored (inflate : Dat.Inflate) (disk : Disk) (a : Archive)
    (hr : Realises disk a) (hw : a.WF) (v : Int) (es : List (Bytes × Int)) (hroot : WFrootList v es)
    (h1 : StoresStd inflate disk a rootListPath (encodeRootList v es)) (name : Bytes) (cs : List Call) :
    (name ∉ es.map (·.1) →
      ∃ qs, runCalls inflate disk (fresh a) cs = run disk (fresh a) qs ∧
        readExcelSheetHeader inflate disk (runCalls inflate disk (fresh a) cs) name =
          (some none, run disk (fresh a) (qs ++ [.extract rootListPath]))) ∧
    (locate a (headerPath name) = none →
      (readExcelSheetHeader inflate disk (runCalls inflate disk (fresh a) cs) name).1 = some none) ∧
    (∀ (s : Schema) (k : Nat) (_ : k < s.pages.length) (l : Lang),
      locate a (pagePath name l s.pages[k]) = none →
      (GameData.readExcelSheet inflate disk (runCalls inflate disk (fresh a) cs) name (toExh s)
        (toModelLang l) k).1 = some none) := by
  obtain ⟨qs, hq⟩ := runCalls_is_run inflate disk (fresh a) cs
  refine ⟨fun hn => ⟨qs, hq, ?_⟩, fun hl => ?_, fun s k hk l hl => ?_⟩
  · have hfind : es.find? (fun e => e.1 == name) = none := by
      apply List.find?_eq_none.mpr
      intro e he hb
      simp only [beq_iff_eq] at hb
      exact hn (List.mem_map.mpr ⟨e, he, hb⟩)
    rw [hq]
    simp only [GameData.readExcelSheetHeader, extractFull_stored inflate disk a hr hw _ _ h1 qs,
      (c05_sheet_names v es hroot).1, hfind]
  · rw [hq]
    have hl' : locate a (sheetHeaderPath name) = none := hl
    simp only [GameData.readExcelSheetHeader, extractFull_stored inflate disk a hr hw _ _ h1 qs,
      (c05_sheet_names v es hroot).1]
    cases es.find? (fun e => e.1 == name) with
    | none => rfl
    | some e => simp only [extractFull_absent inflate disk a hr hw _ hl']
  · rw [hq]
    have hp : (toExh s).pages[k]? = some (toModelPage s.pages[k]) := by
      simp [toExh, hk]
    have hl' : locate a (sheetPagePath name (toModelLang l) (toModelPage s.pages[k])) = none := by
      rw [sheetPagePath, c05_filename]; exact hl
    simp only [GameData.readExcelSheet, hp, extractFull_absent inflate disk a hr hw _ hl']

/-- The handle-level glue and the abstract-`extract` model of `c05_sheet_lookup` /
`c05_page_lookup` are two models of the same Rust functions; they agree: with `ex` = what
`extract` returns on the handle at the moment of each call (no panic), the header call is
`Exd.readExcelSheetHeader ex` on the parsed root list and the page call is `Exd.readExcelSheet ex`. -/
theorem c05_glue_agrees_with_lookup (inflate : Dat.Inflate) (disk : Disk) (g : GameData.GameData)
    (name : Bytes) (ex : Bytes → Option Bytes) :
    (∀ root,
      (extractFull inflate disk g rootListPath).1 = some (some root) →
      (extractFull inflate disk (extractFull inflate disk g rootListPath).2 (sheetHeaderPath name)).1
        = some (ex (sheetHeaderPath name)) →
      (GameData.readExcelSheetHeader inflate disk g name).1 =
        some (Exd.readExcelSheetHeader ex (ExcelRootList.fromExisting root).entries name)) ∧
    (∀ (exh : Exh.EXH) (language : Exh.Language) (page : Nat),
      (∀ pg, exh.pages[page]? = some pg →
        (extractFull inflate disk g (sheetPagePath name language pg)).1
          = some (ex (sheetPagePath name language pg))) →
      (GameData.readExcelSheet inflate disk g name exh language page).1 =
        match Exd.readExcelSheet ex name exh language page with
        | .ok exd => some (some exd)
        | .error .none => some none
        | .error .panic => none) := by
  constructor
  · intro root h1 h2
    unfold GameData.readExcelSheetHeader Exd.readExcelSheetHeader
    generalize extractFull inflate disk g rootListPath = r at h1 h2
    obtain ⟨res, g1⟩ := r
    simp only [] at h1 h2
    subst h1
    simp only []
    cases (ExcelRootList.fromExisting root).entries.find? (fun e => e.1 == name) with
    | none => rfl
    | some e =>
      simp only []
      generalize extractFull inflate disk g1 (sheetHeaderPath name) = r2 at h2
      obtain ⟨res2, g2⟩ := r2
      simp only [] at h2
      subst h2
      cases ex (sheetHeaderPath name) <;> rfl
  · intro exh language page h
    unfold GameData.readExcelSheet Exd.readExcelSheet
    cases hp : exh.pages[page]? with
    | none => rfl
    | some pg =>
      have h' := h pg hp
      simp only []
      generalize extractFull inflate disk g (sheetPagePath name language pg) = r at h'
      obtain ⟨res, g1⟩ := r
      simp only [] at h'
      subst h'
      simp only [sheetPagePath]
      cases hx : ex ([0x65, 0x78, 0x64, 0x2f] ++ calculateFilename name language pg) with
      | none => rfl
      | some buf =>
        simp only [Option.bind_some]
        cases Exd.fromExisting buf <;> rfl

/-! ### non-vacuity: a concrete installation -/
section
open Physis.Spec.SqPackData
/-- "Quest/Item" -/
def xName : Bytes := [0x51, 0x75, 0x65, 0x73, 0x74, 0x2f, 0x49, 0x74, 0x65, 0x6d]
def xRoot : List (Bytes × Int) := [([0x41], 1), (xName, -2)]

/-- root list in two raw blocks -/
def xB1 : List Block :=
  [⟨(encodeRootList 2 xRoot).take 7, none⟩, ⟨(encodeRootList 2 xRoot).drop 7, none⟩]
/-- header: a raw block and a deflated one (RFC 1951 stored stream) -/
def xB2 : List Block :=
  [⟨(encodeExh dSchema).take 10, none⟩,
   ⟨(encodeExh dSchema).drop 10, some (Spec.Deflate.storedBlock ((encodeExh dSchema).drop 10))⟩]
def xB3 : List Block := [⟨encodeExd dSchema dRows, none⟩]

def xDat : Bytes := packStandard xB1 ++ packStandard xB2 ++ packStandard xB3

/-- `exd/quest/item_0_en.exd` -/
def xPagePath : Bytes := lower (pagePath xName .en ⟨0, 2⟩)

def xIndex : IndexFile :=
  { platform := .win32, kind := .index2,
    entries := [⟨.full (jamcrc rootListPath), false, 0, 0⟩,
                ⟨.full (jamcrc (headerPath xName)), false, 0, 384⟩,
                ⟨.full (jamcrc xPagePath), false, 0, 768⟩],
    dataSeg := [], folderSeg := [] }

def xArch : Archive := { platform := .win32, dirs := [baseDir], slot := fun _ _ _ _ => .file xIndex }
def xDatName : Bytes := datName .win32 0 .exd 0 0
def xDisk : Disk := fun _ n => if n = xDatName then some xDat else some (encodeIndex xIndex)

/-- the three entries sit at offsets 0, 384, 768 of the dat file -/
example : (packStandard xB1).length = 384 ∧ (packStandard xB2).length = 384 := by decide +kernel
private theorem xIndex_wf : xIndex.wf = true := by decide +kernel
private theorem xArch_wf : xArch.WF := ⟨by decide, fun _ _ _ _ _ _ => xIndex_wf⟩

private theorem indexName_ne (e : Nat) (c : Category) (ch : Nat) (k : Kind) :
    indexName .win32 e c ch k ≠ xDatName := by
  intro h
  have h2 : (indexName .win32 e c ch k).getLast? = xDatName.getLast? := by rw [h]
  have h3 : xDatName.getLast? = some 48 := by decide +kernel
  rw [h3] at h2
  cases k <;> simp [indexName] at h2

private theorem xRealises : Realises xDisk xArch := by
  intro e c ch k _ _
  simp only [xDisk, xArch, indexName_ne, if_false, Slot.bytes]


private theorem xDeflated : ∀ bs ∈ [xB1, xB2, xB3], ∀ b ∈ bs, Dat.Deflated C02.storedInflate b := by
  intro bs hbs b hb c hc
  simp only [List.mem_cons, List.mem_nil_iff, or_false] at hbs
  rcases hbs with rfl | rfl | rfl <;>
    simp only [xB1, xB2, xB3, List.mem_cons, List.mem_nil_iff, or_false] at hb
  · rcases hb with rfl | rfl <;> cases hc
  · rcases hb with rfl | rfl
    · cases hc
    · cases hc; decide +kernel
  · subst hb; cases hc

private theorem xStores1 : StoresStd C02.storedInflate xDisk xArch rootListPath (encodeRootList 2 xRoot) :=
  ⟨⟨0, .exd, 0, 0, 0⟩, xB1, [], packStandard xB2 ++ packStandard xB3, by decide +kernel, by decide +kernel,
    xDeflated xB1 (by simp), rfl, by decide +kernel, by decide +kernel, by decide +kernel⟩

private theorem xStores2 : StoresStd C02.storedInflate xDisk xArch (headerPath xName) (encodeExh dSchema) :=
  ⟨⟨0, .exd, 0, 0, 384⟩, xB2, packStandard xB1, packStandard xB3, by decide +kernel, by decide +kernel,
    xDeflated xB2 (by simp), by decide +kernel, by decide +kernel, by decide +kernel, by decide +kernel⟩

private theorem xStores3 : StoresStd C02.storedInflate xDisk xArch (lower (pagePath xName .en dSchema.pages[0]))
    (encodeExd dSchema dRows) :=
  ⟨⟨0, .exd, 0, 0, 768⟩, xB3, packStandard xB1 ++ packStandard xB2, [], by decide +kernel, by decide +kernel,
    xDeflated xB3 (by simp), by decide +kernel, by decide +kernel, by decide +kernel, by decide +kernel⟩


/-- non-vacuity of `c05_sheet_from_archive` (and of `c05_names_from_archive`,
`c05_header_from_archive`, `c05_page_from_archive`): an installation whose `0a0000.win32.dat0`
holds the root list (two raw blocks), the header of `dSchema` (a raw and a deflated block) and its
English page 0 — sheet name `Quest/Item`, stored under `exd/quest/item.exh` and
`exd/quest/item_0_en.exd` — satisfies every hypothesis; hence after any two histories the header
and the page come back and both rows of `dRows` read back cell by cell. -/
example (cs1 cs2 : List Call) :
    ∃ exh exd,
      (readExcelSheetHeader C02.storedInflate xDisk (runCalls C02.storedInflate xDisk (fresh xArch) cs1) xName).1
        = some (some exh) ∧
      (GameData.readExcelSheet C02.storedInflate xDisk (runCalls C02.storedInflate xDisk (fresh xArch) cs2) xName exh
        (toModelLang .en) 0).1 = some (some exd) ∧
      (∀ r ∈ dRows, singleSubrow dSchema r = false → readRow exd exh r.id = .ok (r.subs.map (·.map toData))) ∧
      (∀ id, id ∉ dRows.map (·.id) → readRow exd exh id = .error .none) :=
  c05_sheet_from_archive C02.storedInflate xDisk xArch xRealises xArch_wf 2 xRoot (by decide) xName
    (by decide) dSchema (by decide) 0 (by decide) .en dRows (by decide +kernel) xStores1 xStores2 xStores3 cs1 cs2

/-- non-vacuity of `c05_glue_agrees_with_lookup` (header part): on the fresh handle of `xArch` both
`extract` hypotheses hold, with `ex` = "the header of `dSchema`" -/
example :
    (extractFull C02.storedInflate xDisk (fresh xArch) rootListPath).1 = some (some (encodeRootList 2 xRoot)) ∧
    (extractFull C02.storedInflate xDisk (extractFull C02.storedInflate xDisk (fresh xArch) rootListPath).2
      (sheetHeaderPath xName)).1 = some ((fun _ => some (encodeExh dSchema)) (sheetHeaderPath xName)) := by
  constructor
  · exact extract_stored _ _ _ xRealises xArch_wf _ _ xStores1 []
  · rw [extractFull_snd_run]
    exact extract_stored _ _ _ xRealises xArch_wf _ _ xStores2 [.extract rootListPath]

/-- non-vacuity of `c05_sheet_not_stored`: `B` is not listed; the German page is not stored -/
example : ([0x42] : Bytes) ∉ xRoot.map (·.1) ∧ locate xArch (headerPath [0x42]) = none ∧
    locate xArch (pagePath xName .de dSchema.pages[0]) = none := by decide +kernel

end

end archive

/-- (T2) The model's code tables are the compiled reader's: the harness pushes **every** u16 /
u8 through the compiled `EXH::from_existing` as a column-type / language code and dumps the accepted
ones with the variant they decode to (and `get_language_code`); these are exactly the model's
`ColumnDataType` / `Language` tables.  With `c05_exh_roundtrip` this also ties the *spec's* codes
(`ColType.code`, `Lang.code`, `Lang.suffix`) to the compiled code. -/
theorem c05_code_tables :
    Generated.excelColumnCodes = ColumnDataType.all.map (fun t => (t.code.toNat, t)) ∧
    Generated.excelLanguageCodes = Language.all.map (fun l => (l.code.toNat, l, getLanguageCode l)) ∧
    (∀ t : ColType, (toModelType t).code = t.code) ∧
    (∀ l : Lang, (toModelLang l).code = l.code ∧ getLanguageCode (toModelLang l) = l.suffix) := by
  refine ⟨by decide, by decide, ?_, ?_⟩
  · intro t
    cases t with
    | packedBool b => revert b; decide
    | _ => rfl
  · intro l; cases l <;> exact ⟨rfl, rfl⟩

end Physis.C05

/-! ### T4: binrw declarations regenerated from the source

`Generated/BinrwExcel.lean` is re-translated from the `#[binrw]` declarations of `src/exh.rs` and
`src/exd.rs` (big-endian) on every run (`lib/binrw2lean.py`); the `ParserBE.P` readers of
`Model/Exh.lean` / `Model/Exd.lean`, applied to their input, are `Layout.read` of the regenerated
descriptors followed by a pure projection (`Proofs/BinrwTieExcel.lean`), for all inputs.  The ambient
endianness `.big` in the statements is the regenerated one of the enclosing `EXH` / `EXD`
(`c05_binrw_endian`). -/
namespace Physis.C05
open Physis.Binrw Physis.Generated

theorem c05_binrw_endian :
    BinrwExcel.eXH.endianOr .little = .big ∧ BinrwExcel.eXD.endianOr .little = .big :=
  BinrwTie.Excel.endian_generated

theorem c05_binrw_EXHHeader (l : Bytes) :
    Exh.pHeader l = via BinrwTie.Excel.exhHeaderOf (Layout.read .big BinrwExcel.eXHHeader l) :=
  BinrwTie.Excel.pHeader_eq_generated l

theorem c05_binrw_ExcelDataPagination (l : Bytes) :
    Exh.pPage l = via BinrwTie.Excel.pageOf (Layout.read .big BinrwExcel.excelDataPagination l) :=
  BinrwTie.Excel.pPage_eq_generated l

/-- `#[br(count = n)] Vec<ExcelDataPagination>` -/
theorem c05_binrw_ExcelDataPagination_vec (n : Nat) (l : Bytes) :
    ParserBE.count Exh.pPage n l =
      (repeatN (Kind.read .big [] (.struct BinrwExcel.excelDataPagination)) n l).bind fun vs =>
        (projAll BinrwTie.Excel.pageOfV vs.1).map (·, vs.2) :=
  BinrwTie.Excel.countPage_eq_generated n l

theorem c05_binrw_ExcelDataOffset (l : Bytes) :
    Exd.pDataOffset l = via BinrwTie.Excel.dataOffsetOf (Layout.read .big BinrwExcel.excelDataOffset l) :=
  BinrwTie.Excel.pDataOffset_eq_generated l

/-- `#[br(count = n)] Vec<ExcelDataOffset>` -/
theorem c05_binrw_ExcelDataOffset_vec (n : Nat) (l : Bytes) :
    ParserBE.count Exd.pDataOffset n l =
      (repeatN (Kind.read .big [] (.struct BinrwExcel.excelDataOffset)) n l).bind fun vs =>
        (projAll BinrwTie.Excel.dataOffsetOfV vs.1).map (·, vs.2) :=
  BinrwTie.Excel.countDataOffset_eq_generated n l

/-- `EXD`: the regenerated `EXDHeader` (magic `EXDF`, version, pad 2, index_size, pad 20), then
`index_size / 8` offsets (the `count` expression itself is not translated) -/
theorem c05_binrw_EXDHeader (l : Bytes) :
    Exd.pExdHead l =
      (Layout.read .big BinrwExcel.eXDHeader l).bind fun x =>
        match x.1 with
        | [.w16 .u16 version, .w32 .u32 indexSize] =>
          (ParserBE.count Exd.pDataOffset (indexSize / 8).toNat x.2).map fun o => ((version, indexSize, o.1), o.2)
        | _ => none :=
  BinrwTie.Excel.pExdHead_eq_generated l

end Physis.C05

/-! ### T4 (continued): `ExcelColumnDefinition` and the `Language` elements -/
namespace Physis.C05
open Physis.Binrw Physis.Generated

/-- `ExcelColumnDefinition`: `ColumnDataType` (`repr(u16)`, the regenerated discriminant list = the
codes of the model's `ColumnDataType`, `BinrwTie.Excel.column_valid`) and the u16 offset -/
theorem c05_binrw_ExcelColumnDefinition (l : Bytes) :
    Exh.pColumn l = via BinrwTie.Excel.columnOf (Layout.read .big BinrwExcel.excelColumnDefinition l) :=
  BinrwTie.Excel.pColumn_eq_generated l

theorem c05_binrw_ExcelColumnDefinition_vec (n : Nat) (l : Bytes) :
    ParserBE.count Exh.pColumn n l =
      (repeatN (Kind.read .big [] (.struct BinrwExcel.excelColumnDefinition)) n l).bind fun vs =>
        (projAll BinrwTie.Excel.columnOfV vs.1).map (·, vs.2) :=
  BinrwTie.Excel.countColumn_eq_generated n l

/-- `Vec<Language>` with `count = n`: each element is the regenerated `repr(u8)` enum `Language` -/
theorem c05_binrw_Language_vec (n : Nat) (l : Bytes) :
    ParserBE.count Exh.pLanguage n l =
      (repeatN (Kind.read .big [] (.enum BinrwExcel.languageRepr BinrwExcel.languageValid)) n l).bind fun vs =>
        (projAll BinrwTie.Excel.languageOfV vs.1).map (·, vs.2) :=
  BinrwTie.Excel.countLanguage_eq_generated n l

end Physis.C05
