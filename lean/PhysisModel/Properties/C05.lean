import PhysisModel.Proofs.ExcelRecord
namespace Physis.C05
open Physis Physis.Spec.Excel Physis.Exh Physis.Exd Physis.Proofs.Excel

theorem c05_exh_roundtrip (s : Schema) (h : WFschema s) :
    Exh.fromExisting (encodeExh s) = some (toExh s) := exh_roundtrip s h

theorem c05_filename (name : Bytes) (l : Lang) (p : Page) :
    calculateFilename name (toModelLang l) (toModelPage p) = pageFileName name l p := by
  cases l <;> simp [calculateFilename, pageFileName, toModelLang, toModelPage, fmtNat, decimal,
    Nat.repr, getLanguageCode, Lang.suffix]

end Physis.C05
