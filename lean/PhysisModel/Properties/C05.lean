import PhysisModel.Proofs.ExcelIndex
import PhysisModel.Generated.ExcelCodes
import PhysisModel.Proofs.ExcelRootList
/-!
# C05 — Excel sheets decode to the cell values stored in them

Property theorems only; helper lemmas are in `Proofs/Excel*.lean`.  `Spec/Excel.lean` defines the
abstract values (schema, rows, typed cells), the encoders `encodeExh` / `encodeExd` and the
decidable well-formedness predicates; `Model/Exh.lean`, `Model/Exd.lean` mirror the Rust reader
(with fix patches C05-01..03 applied).  `toExh`, `toExd`, `toData` (in `Proofs/`) map abstract
values to the reader's value types constructor by constructor.
-/
namespace Physis.C05
open Physis Physis.Spec.Excel Physis.Exh Physis.Exd Physis.Proofs.Excel

/-- `EXH::from_existing` on an encoded header returns exactly the schema's fixed-region size, row
count, column definitions (type, offset), pages and languages, for every well-formed schema. -/
theorem c05_exh_roundtrip (s : Schema) (h : WFschema s) :
    Exh.fromExisting (encodeExh s) = some (toExh s) := exh_roundtrip s h

/-- a sub-row schema with a string, two packed bools sharing a byte and a u16 -/
def exSchema : Schema where
  version := 3
  dataOffset := 8
  subrows := true
  rowCount := 2
  columns := [⟨.string, 0⟩, ⟨.packedBool 0, 4⟩, ⟨.packedBool 7, 4⟩, ⟨.uint16, 6⟩]
  pages := [⟨0, 2⟩]
  languages := [.none, .en]

/-- non-vacuity of `WFschema` -/
example : WFschema exSchema := by decide

/-- `EXD::from_existing` on an encoded page returns the index `(row id, absolute chunk offset)` of
every stored row, in order, and the whole file as data view. -/
theorem c05_exd_index_roundtrip (s : Schema) (rows : List Row) (h : WFrows s rows) :
    Exd.fromExisting (encodeExd s rows) = some (toExd s rows) := by
  have := h.2.1
  rw [encodeExd_length] at this
  exact exd_parse s rows (by omega)

/-
The full statement of the design — not provable for the code as it is, see
`c05_single_subrow_witness` (open finding `exd.single-subrow`):

theorem c05_read_row (s : Schema) (rows : List Row) (hs : WFschema s) (hr : WFrows s rows)
    (r : Row) (hmem : r ∈ rows) :
    ∃ exh exd, Exh.fromExisting (encodeExh s) = some exh ∧
      Exd.fromExisting (encodeExd s rows) = some exd ∧
      readRow exd exh r.id = .ok (r.subs.map (·.map toData))
-/

/-- Reading a stored row id from the encoded page with the encoded header returns one record per
stored sub-row, whose cells are the stored cells column by column (all 19 column types; strings,
every packed-bool bit, integers and float bit patterns exactly) — for every well-formed schema and
row set, excluding only rows in the class of the open finding `exd.single-subrow`. -/
theorem c05_read_row_partial (s : Schema) (rows : List Row) (hs : WFschema s) (hr : WFrows s rows)
    (r : Row) (hmem : r ∈ rows) (hns : singleSubrow s r = false) :
    ∃ exh exd, Exh.fromExisting (encodeExh s) = some exh ∧
      Exd.fromExisting (encodeExd s rows) = some exd ∧
      readRow exd exh r.id = .ok (r.subs.map (·.map toData)) := by
  refine ⟨toExh s, toExd s rows, exh_roundtrip s hs, c05_exd_index_roundtrip s rows hr, ?_⟩
  obtain ⟨hnd, hsmall, hrows⟩ := hr
  obtain ⟨pre, post, rfl⟩ := List.append_of_mem hmem
  have hnotin : r.id ∉ (chunksOf s pre).map (·.1) := by
    simp only [List.map_append, List.map_cons] at hnd
    have := (List.nodup_append.mp hnd).2.2
    intro hin
    simp only [chunksOf, List.map_map, Function.comp_def] at hin
    exact this r.id hin r.id (List.mem_cons_self ..) rfl
  have hchunks : chunksOf s (pre ++ r :: post)
      = chunksOf s pre ++ (r.id, encodeRow s r) :: chunksOf s post := by
    simp [chunksOf]
  have hfind := find_index (chunksOf s pre) (chunksOf s post) r.id (encodeRow s r)
    (32 + 8 * (pre ++ r :: post).length) hnotin
  rw [← hchunks] at hfind
  have hlenfile := encodeExd_length s (pre ++ r :: post)
  -- the file around the chunk
  have hfile : encodeExd s (pre ++ r :: post) =
      (encodeExdHeader (8 * (pre ++ r :: post).length)
          (((chunksOf s (pre ++ r :: post)).map (·.2)).flatten).length
        ++ encodeIndex (chunksOf s (pre ++ r :: post)) (32 + 8 * (pre ++ r :: post).length)
        ++ ((chunksOf s pre).map (·.2)).flatten)
      ++ (encodeRow s r ++ ((chunksOf s post).map (·.2)).flatten) := by
    simp only [encodeExd, hchunks, List.map_append, List.map_cons, List.flatten_append,
      List.flatten_cons, List.append_assoc]
  have hbody : (((chunksOf s (pre ++ r :: post)).map (·.2)).flatten).length
      = (((chunksOf s pre).map (·.2)).flatten).length + ((encodeRow s r).length
        + (((chunksOf s post).map (·.2)).flatten).length) := by
    simp only [hchunks, List.map_append, List.map_cons, List.flatten_append, List.flatten_cons,
      List.length_append]
  have hoff : (UInt32.ofNat (32 + 8 * (pre ++ r :: post).length
      + (((chunksOf s pre).map (·.2)).flatten).length)).toNat
      = 32 + 8 * (pre ++ r :: post).length + (((chunksOf s pre).map (·.2)).flatten).length := by
    rw [UInt32.toNat_ofNat']
    exact Nat.mod_eq_of_lt (by omega)
  simp only [readRow, toExd, hfind]
  refine readRowAt_correct s hs r (hrows r hmem) hns _ _ _ _ hfile ?_ hsmall
  rw [hoff]
  simp only [List.length_append, encodeExdHeader_length, encodeIndex_length]
  simp [chunksOf]

/-- For default sheets (no sub-rows) the statement holds without exclusion: every stored row
reads back as its single record. -/
theorem c05_read_row_default (s : Schema) (rows : List Row) (hs : WFschema s) (hr : WFrows s rows)
    (hd : s.subrows = false) (r : Row) (hmem : r ∈ rows) :
    ∃ exh exd, Exh.fromExisting (encodeExh s) = some exh ∧
      Exd.fromExisting (encodeExd s rows) = some exd ∧
      readRow exd exh r.id = .ok (r.subs.map (·.map toData)) :=
  c05_read_row_partial s rows hs hr r hmem (by simp [singleSubrow, hd])

/-- a default sheet: string, Bool, three packed bools in one byte, i64, f32 (shuffled order) -/
def dSchema : Schema where
  version := 3
  dataOffset := 20
  subrows := false
  rowCount := 2
  columns := [⟨.packedBool 3, 5⟩, ⟨.string, 0⟩, ⟨.int64, 8⟩, ⟨.bool, 4⟩, ⟨.packedBool 0, 5⟩,
    ⟨.float32, 16⟩, ⟨.packedBool 7, 5⟩]
  pages := [⟨0, 2⟩]
  languages := [.ja, .en]

def dRows : List Row :=
  [⟨1, [[.bool true, .str [0x61, 0x62], .i64 0xFFFFFFFFFFFFFFFF, .bool true, .bool false,
      .f32 0x7FC00000, .bool true]]⟩,
   ⟨4294967295, [[.bool false, .str [], .i64 0, .bool false, .bool true, .f32 0, .bool false]]⟩]

/-- non-vacuity of `c05_read_row_default` -/
example : WFschema dSchema ∧ WFrows dSchema dRows ∧ dSchema.subrows = false := by decide +kernel

/-- a sub-row sheet with one u16 column -/
def wSchema : Schema where
  version := 3
  dataOffset := 2
  subrows := true
  rowCount := 2
  columns := [⟨.uint16, 0⟩]
  pages := [⟨0, 2⟩]
  languages := [.none]

/-- row 5 has exactly one sub-row, row 6 has two -/
def wRows : List Row := [⟨5, [[.u16 0x1234]]⟩, ⟨6, [[.u16 1], [.u16 2]]⟩]

/-- non-vacuity of `c05_read_row_partial` / `c05_read_row_unknown`: the hypotheses hold for this
sheet and its row 6 (two sub-rows) -/
example : WFschema wSchema ∧ WFrows wSchema wRows ∧ singleSubrow wSchema ⟨6, [[.u16 1], [.u16 2]]⟩ = false
    ∧ (7 : UInt32) ∉ wRows.map (·.id) := by decide +kernel

/-- Open finding `exd.single-subrow`: for a well-formed sub-row sheet, reading the row that has
exactly one sub-row does **not** return the stored cell (0x1234): the reader infers the sheet kind
from `row_count > 1`, treats the row as a default-sheet row and decodes the 2-byte sub-row id (0)
as the cell.  Hence the full `c05_read_row` is false for the code as it is. -/
theorem c05_single_subrow_witness :
    WFschema wSchema ∧ WFrows wSchema wRows ∧ singleSubrow wSchema ⟨5, [[.u16 0x1234]]⟩ = true ∧
    (match Exh.fromExisting (encodeExh wSchema), Exd.fromExisting (encodeExd wSchema wRows) with
      | some exh, some exd => (match readRow exd exh 5 with | .ok v => some v | .error _ => none)
      | _, _ => none) = some [[.uint16 0]] := by decide +kernel

/-- An id that is not stored yields nothing. -/
theorem c05_read_row_unknown (s : Schema) (rows : List Row) (hs : WFschema s) (hr : WFrows s rows)
    (id : UInt32) (hid : id ∉ rows.map (·.id)) :
    ∃ exh exd, Exh.fromExisting (encodeExh s) = some exh ∧
      Exd.fromExisting (encodeExd s rows) = some exd ∧
      readRow exd exh id = .error .none := by
  refine ⟨toExh s, toExd s rows, exh_roundtrip s hs, c05_exd_index_roundtrip s rows hr, ?_⟩
  have : id ∉ (chunksOf s rows).map (·.1) := by
    simpa only [chunksOf, List.map_map, Function.comp_def] using hid
  simp only [readRow, toExd, find_index_none _ id _ this]

/-- `EXD::calculate_filename` builds `<name>_<start id>[_<language code>].exd`; `Language::None`
has no suffix. -/
theorem c05_filename (name : Bytes) (l : Lang) (p : Page) :
    calculateFilename name (toModelLang l) (toModelPage p) = pageFileName name l p := by
  cases l <;> simp [calculateFilename, pageFileName, toModelLang, toModelPage, fmtNat, decimal,
    Nat.repr, getLanguageCode, Lang.suffix]

/-- `GameData::read_excel_sheet_header`: a name listed in the root list is looked up in the archive
under `exd/<lower-case name>.exh` and what is stored there is parsed as the header; a name that
is not listed yields nothing (the archive is not even asked). -/
theorem c05_sheet_lookup (extract : Bytes → Option Bytes) (entries : List (Bytes × Int)) (name : Bytes) :
    (name ∈ entries.map (·.1) →
      readExcelSheetHeader extract entries name = (extract (headerPath name)).bind Exh.fromExisting) ∧
    (name ∉ entries.map (·.1) → readExcelSheetHeader extract entries name = none) := by
  constructor
  · intro h
    cases hf : entries.find? (fun e => e.1 == name) with
    | some e => simp only [readExcelSheetHeader, hf, sheetHeaderPath, headerPath]
    | none =>
      exfalso
      obtain ⟨e, he, rfl⟩ := List.mem_map.mp h
      have := List.find?_eq_none.mp hf e he
      simp at this
  · intro h
    cases hf : entries.find? (fun e => e.1 == name) with
    | none => simp only [readExcelSheetHeader, hf]
    | some e =>
      exfalso
      have hm := List.mem_of_find?_eq_some hf
      have hp := List.find?_some hf
      simp only [beq_iff_eq] at hp
      exact h (List.mem_map.mpr ⟨e, hm, hp⟩)

/-- `GameData::read_excel_sheet`: page `k` of a sheet in language `l` is looked up under
`exd/<name>_<start id of page k>[_<language code>].exd`. -/
theorem c05_page_lookup (extract : Bytes → Option Bytes) (name : Bytes) (s : Schema) (l : Lang)
    (k : Nat) (hk : k < s.pages.length) :
    readExcelSheet extract name (toExh s) (toModelLang l) k =
      match (extract (pagePath name l s.pages[k])).bind Exd.fromExisting with
      | some exd => .ok exd
      | none => .error .none := by
  have hp : (toExh s).pages[k]? = some (toModelPage s.pages[k]) := by
    simp [toExh, hk]
  simp only [readExcelSheet, hp, pagePath, c05_filename]
  cases (extract ([101, 120, 100, 47] ++ pageFileName name l s.pages[k])).bind Exd.fromExisting <;> rfl

/-- non-vacuity of `c05_sheet_lookup` / `c05_page_lookup`: "Item" is listed in a root list with
two entries; `exSchema` has a page 0 -/
example : ([0x49, 0x74, 0x65, 0x6d] : Bytes) ∈
    ([([0x41], 1), ([0x49, 0x74, 0x65, 0x6d], 2)] : List (Bytes × Int)).map (·.1) ∧
    0 < exSchema.pages.length := by decide

/-- `EXL::from_existing` on an encoded root list (`EXLT,<version>` then `<name>,<id>` lines)
returns the version and the entries in order; hence `get_all_sheet_names` returns exactly the
listed names. -/
theorem c05_sheet_names (v : Int) (es : List (Bytes × Int)) (h : WFrootList v es) :
    ExcelRootList.fromExisting (encodeRootList v es) = ⟨v, es⟩ ∧
    allSheetNames (ExcelRootList.fromExisting (encodeRootList v es)).entries = es.map (·.1) := by
  have := Proofs.ExcelRootList.rootList_roundtrip v es h
  exact ⟨this, by rw [this]; rfl⟩

/-- The two steps composed: with `exd/root.exl` = the encoded root list, a listed sheet name is
looked up under `exd/<lower-case name>.exh`, an unlisted one is not looked up at all. -/
theorem c05_sheet_lookup_rootlist (extract : Bytes → Option Bytes) (v : Int)
    (es : List (Bytes × Int)) (h : WFrootList v es) (name : Bytes) :
    readExcelSheetHeader extract (ExcelRootList.fromExisting (encodeRootList v es)).entries name =
      if name ∈ es.map (·.1) then (extract (headerPath name)).bind Exh.fromExisting else none := by
  rw [(c05_sheet_names v es h).1]
  have := c05_sheet_lookup extract es name
  split
  · rename_i hin; exact this.1 hin
  · rename_i hin; exact this.2 hin

/-- non-vacuity: a root list with a negative id, a name containing `/`, and one starting lower-case -/
example : WFrootList 2 [([0x41, 0x2f, 0x62], -1), ([0x69, 0x74, 0x65, 0x6d], 2147483647)] := by
  decide

/-- (T2) The model's code tables are the compiled reader's: the harness pushes **every** u16 /
u8 through the compiled `EXH::from_existing` as a column-type / language code and dumps the accepted
ones with the variant they decode to (and `get_language_code`); these are exactly the model's
`ColumnDataType` / `Language` tables.  With `c05_exh_roundtrip` this also ties the *spec's* codes
(`ColType.code`, `Lang.code`, `Lang.suffix`) to the compiled code. -/
theorem c05_code_tables :
    Generated.excelColumnCodes = ColumnDataType.all.map (fun t => (t.code.toNat, t)) ∧
    Generated.excelLanguageCodes = Language.all.map (fun l => (l.code.toNat, l, getLanguageCode l)) ∧
    (∀ t : ColType, (toModelType t).code = t.code) ∧
    (∀ l : Lang, (toModelLang l).code = l.code ∧ getLanguageCode (toModelLang l) = l.suffix) := by
  refine ⟨by decide, by decide, ?_, ?_⟩
  · intro t
    cases t with
    | packedBool b => revert b; decide
    | _ => rfl
  · intro l; cases l <;> exact ⟨rfl, rfl⟩

end Physis.C05
