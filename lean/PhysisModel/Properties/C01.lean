import PhysisModel.Model.GameData
import PhysisModel.Spec.Archive
namespace Physis.C01
end Physis.C01
