import PhysisModel.Proofs.GameData
import PhysisModel.Model.Extract
import PhysisModel.Proofs.Archive
import PhysisModel.Proofs.BinrwTieIndex
/-!
# C01 — archive lookup finds every stored game path, and only stored paths, history-independently

Property theorems only (helper lemmas: `Proofs/Reader`, `Proofs/Index`, `Proofs/GameData`).

Setting.  `a : Archive` is the abstract installation (`Spec/Archive.lean`): platform, directories
below `sqpack`, and for every (expansion, category, chunk, kind) an index slot that is absent, a
well-formed index file, or junk.  `disk` is any file system that `Realises` it (index files are
the `Spec` encodings; everything else on the disk is arbitrary).  `fresh a` is the handle
`GameData::from_existing` returns; `run disk g qs` is the handle after the query history `qs`.
The model mirrors Physis with fixes C01-01..03 applied.
-/
namespace Physis.C01
open Physis Physis.Str Physis.Spec.Archive Physis.GameData Physis.Index

/-- opening a well-formed installation does not panic and yields `fresh a`, whatever the order in
which the OS lists the directories -/
theorem c01_open (a : Archive) (hw : a.WF) :
    fromExisting (modelPlat a.platform) a.dirs = some (fresh a) :=
  fromExisting_ok a.platform a.dirs hw.1

/-- **Main theorem.**  After any history of queries on one handle, every query is answered as the
specification says: `exists` ⇔ some index file of the repository and category the path names
contains the path's hash; `find_offset` = the offset of the first such entry (chunk ascending,
`index` before `index2`, table order); `extract` opens the dat file `<cat><exp><chunk>.<platform>.dat<id>`
in that repository's directory and reads at that offset. -/
theorem c01_answers (disk : Disk) (a : Archive) (hr : Realises disk a) (hw : a.WF)
    (qs : List Query) (q : Query) :
    (step disk (run disk (fresh a) qs) q).1 = specAnswer a q := by
  have hinv := run_inv disk _ qs (fresh a) (fresh_inv disk a)
  rw [(step_eq disk _ _ q hinv).1, pureAnswer_eq disk a hr hw q]

/-- The hypothesis `Realises` is satisfiable for **every** archive: index file names are
unambiguous on the slots lookup can name (expansions 0..9, chunks 0..254), so the disk holding
exactly the archive's index files under their names realises it. -/
theorem c01_realisable (a : Archive) : Realises (diskOf a) a := realises_diskOf a

/-- the main theorem on the canonical disk: no hypothesis besides well-formedness -/
theorem c01_answers_canonical (a : Archive) (hw : a.WF) (qs : List Query) (q : Query) :
    (step (diskOf a) (run (diskOf a) (fresh a) qs) q).1 = specAnswer a q :=
  c01_answers (diskOf a) a (realises_diskOf a) hw qs q

/-- `locate` finds something exactly for the stored paths (sanity of the specification) -/
theorem c01_stored_iff_locate (a : Archive) (p : Bytes) : Stored a p ↔ (locate a p).isSome = true := by
  rw [locate_eq]
  constructor
  · rintro ⟨e, c, hres, ch, hch, k, f, hslot, h, hh, en, hen, heq⟩
    simp only [hres, Option.bind_some, List.findSome?_isSome_iff]
    refine ⟨(ch, k), (mem_candidates_iff ch k).mpr hch, ?_⟩
    simp only [specTry, hslot, Slot.find, findIn, hh]
    cases hf : f.entries.find? (fun e => e.hash == h) with
    | some x => rfl
    | none =>
      have := (List.find?_eq_none.mp hf) en hen
      simp [heq] at this
  · intro h
    cases hres : resolve a p with
    | none => simp [hres] at h
    | some ec =>
      obtain ⟨e, c⟩ := ec
      simp only [hres, Option.bind_some, List.findSome?_isSome_iff] at h
      obtain ⟨x, hx, hsome⟩ := h
      obtain ⟨ch, k⟩ := x
      simp only [specTry] at hsome
      cases hslot : a.slot e c ch k with
      | absent => simp [hslot, Slot.find] at hsome
      | junk bs => simp [hslot, Slot.find] at hsome
      | file f =>
        simp only [hslot, Slot.find, findIn] at hsome
        cases hh : hashOf f.kind (lower p) with
        | none => simp [hh] at hsome
        | some hv =>
          simp only [hh] at hsome
          cases hf : f.entries.find? (fun e => e.hash == hv) with
          | none => simp [hf] at hsome
          | some en =>
            refine ⟨e, c, hres, ch, (mem_candidates_iff ch k).mp hx, k, f, hslot, hv, hh, en,
              List.mem_of_find?_eq_some hf, ?_⟩
            simpa using List.find?_some hf

/-- `exists` answers `true` exactly for stored paths (and `false` otherwise — never a panic),
after any history -/
theorem c01_exists_iff (disk : Disk) (a : Archive) (hr : Realises disk a) (hw : a.WF)
    (qs : List Query) (p : Bytes) :
    ((step disk (run disk (fresh a) qs) (.exists p)).1 = .bool true ↔ Stored a p) ∧
    ((step disk (run disk (fresh a) qs) (.exists p)).1 = .bool false ↔ ¬ Stored a p) := by
  rw [c01_answers disk a hr hw, c01_stored_iff_locate]
  simp only [specAnswer, Answer.bool.injEq]
  cases (locate a p).isSome <;> simp

/-- `find_offset` returns the offset of the located entry; `extract` opens the dat file the entry
designates — directory of the repository, `CCEEKK.<platform>.dat<id>` — and reads at that offset -/
theorem c01_locate (disk : Disk) (a : Archive) (hr : Realises disk a) (hw : a.WF)
    (qs : List Query) (p : Bytes) :
    (step disk (run disk (fresh a) qs) (.findOffset p)).1 = .offset ((locate a p).map (·.offset)) ∧
    (step disk (run disk (fresh a) qs) (.extract p)).1 =
      .dat ((locate a p).map (fun l =>
        ((repoDir l.exp, datName a.platform l.exp l.cat l.chunk l.datId.toNat), l.offset))) := by
  rw [c01_answers disk a hr hw, c01_answers disk a hr hw]
  exact ⟨rfl, rfl⟩

/-- `extract` in full (C01 ∘ C02 models): after any history, `extract(p)` is `None` for a path that
is not stored or whose dat file is missing, and otherwise exactly what `read_from_offset` returns
on the designated dat file at the designated offset -/
theorem c01_extract_reads (inflate : Dat.Inflate) (disk : Disk) (a : Archive) (hr : Realises disk a)
    (hw : a.WF) (qs : List Query) (p : Bytes) :
    (extractFull inflate disk (run disk (fresh a) qs) p).1 =
      match locate a p with
      | none => some none
      | some l =>
        match disk (repoDir l.exp) (datName a.platform l.exp l.cat l.chunk l.datId.toNat) with
        | none => some none
        | some content => Dat.readFromOffset inflate content l.offset.toNat := by
  have h := (c01_locate disk a hr hw qs p).2
  simp only [step] at h
  unfold extractFull
  generalize extractQ disk (run disk (fresh a) qs) p = r at h
  obtain ⟨ans, g'⟩ := r
  simp only [] at h
  subst h
  cases locate a p with
  | none => rfl
  | some l =>
    simp only [Option.map_some]
    cases disk (repoDir l.exp) (datName a.platform l.exp l.cat l.chunk l.datId.toNat) <;> rfl

/-- Letter case never matters — on **any** disk (well-formed or not), for any repository list and
after any history: two paths with the same ASCII lower-casing get the same answers. -/
theorem c01_case_insensitive (disk : Disk) (repos : List Repository.Repository) (qs : List Query) (p q : Bytes)
    (h : lower p = lower q) :
    let g := run disk { repositories := repos, indexFiles := [] } qs
    (step disk g (.exists p)).1 = (step disk g (.exists q)).1 ∧
    (step disk g (.findOffset p)).1 = (step disk g (.findOffset q)).1 ∧
    (step disk g (.extract p)).1 = (step disk g (.extract q)).1 := by
  intro g
  have hinv : Inv disk repos g := run_inv disk repos qs _ ⟨rfl, cacheIsMemo_nil disk⟩
  simp only [(step_eq disk repos g _ hinv).1]
  exact pureAnswer_lower disk repos p q h

/-- History independence — on **any** disk: the answer to a query after any history of queries on
the same handle is the answer a freshly opened handle gives (the cache `index_files` is a memo of
the disk: invariant `CacheIsMemo`, induction over the history). -/
theorem c01_history_independent (disk : Disk) (repos : List Repository.Repository) (qs : List Query) (q : Query) :
    (step disk (run disk { repositories := repos, indexFiles := [] } qs) q).1 =
      (step disk { repositories := repos, indexFiles := [] } q).1 := by
  have h0 : Inv disk repos { repositories := repos, indexFiles := [] } := ⟨rfl, cacheIsMemo_nil disk⟩
  rw [(step_eq disk repos _ q (run_inv disk repos qs _ h0)).1, (step_eq disk repos _ q h0).1]

/-- the three bit fields of an entry's location word: bit 0 = synonym flag, bits 1..3 = dat id,
bits 4..31 = offset in 128-byte units -/
theorem c01_entry_bits (w : UInt32) :
    (decodeEntryData w).isSynonym = w.toBitVec.getLsbD 0 ∧
    (decodeEntryData w).dataFileId = ((w >>> 1) &&& 7).toUInt8 ∧
    (decodeEntryData w).offset = (w >>> 4).toUInt64 * 128 := by
  simp only [decodeEntryData]
  refine ⟨?_, ?_, ?_⟩ <;> bv_decide (timeout := 300)

/-- the location word written by the encoder decodes to the entry's fields -/
theorem c01_entry_roundtrip (e : Entry) (h : e.wf = true) :
    decodeEntryData (entryWord e) = { isSynonym := e.synonym, dataFileId := e.datId, offset := e.offset } :=
  decode_entryWord e h

/-- every well-formed index file — `index` with 16-byte records or `index2` with 8-byte records —
parses to exactly its entry table, all entries, in order -/
theorem c01_parse_index (f : IndexFile) (h : f.wf = true) :
    Index.parse (encodeIndex f) = some (indexToModel f) :=
  parse_encodeIndex f h

/-- in particular every entry of an index2 table of `n` 8-byte records is visible (this is what
`count = size / 16` broke) -/
theorem c01_index2_all_entries (f : IndexFile) (h : f.wf = true) (hk : f.kind = .index2) :
    ∃ ix, Index.parse (encodeIndex f) = some ix ∧ ix.indexType = .index2 ∧
      ix.entries.length = f.entries.length ∧
      ∀ e ∈ f.entries, entryToModel e ∈ ix.entries := by
  refine ⟨indexToModel f, parse_encodeIndex f h, ?_, ?_, ?_⟩
  · simp [indexToModel, hk, kindToModel]
  · simp [indexToModel]
  · intro e he; exact List.mem_map_of_mem he

/-- a file that does not start with the SqPack magic is not an index file -/
theorem c01_junk_rejected (bs : Bytes) (h : (bs.take 8 != Spec.Archive.sqpackMagic) = true) : Index.parse bs = none :=
  parse_junk bs h

/-! ### non-vacuity: a concrete archive, a disk realising it, and a stored path -/

/-- "exd/root.exl" -/
def p0 : Bytes := [101,120,100,47,114,111,111,116,46,101,120,108]
/-- "EXD/Root.EXL" -/
def p0' : Bytes := [69,88,68,47,82,111,111,116,46,69,88,76]

/-- an index2 file with two entries; the second is `exd/root.exl` in dat3 at offset 0x1280 -/
def f0 : IndexFile :=
  { platform := .win32, kind := .index2,
    entries := [⟨.full 0x12345678, false, 1, 256⟩, ⟨.full (jamcrc p0), true, 3, 0x1280⟩],
    dataSeg := List.replicate 256 0xFF, folderSeg := List.replicate 16 0 }

/-- every index file of the installation is `f0` -/
def a0 : Archive := { platform := .win32, dirs := [exName 1, baseDir, [122,122,122]], slot := fun _ _ _ _ => .file f0 }
def disk0 : Disk := fun _ _ => some (encodeIndex f0)

private theorem f0_wf : f0.wf = true := by decide +kernel
private theorem a0_wf : a0.WF := ⟨by decide, fun _ _ _ _ _ _ => f0_wf⟩
example : Realises disk0 a0 := fun _ _ _ _ _ _ => rfl
example : locate a0 p0 = some ⟨0, .exd, 0, 3, 0x1280⟩ := by decide +kernel
example : lower p0' = lower p0 := by decide
/-- instance of `c01_locate` + `c01_case_insensitive`: after any history, the upper-case spelling
resolves to dat3 at 0x1280 -/
example (qs : List Query) :
    (step disk0 (run disk0 (fresh a0) qs) (.findOffset p0')).1 = .offset (some 0x1280) := by
  have h := (c01_locate disk0 a0 (fun _ _ _ _ _ _ => rfl) a0_wf qs p0').1
  rw [h]
  have : locate a0 p0' = some ⟨0, .exd, 0, 3, 0x1280⟩ := by decide +kernel
  rw [this]; rfl
example : (decodeEntryData 0x00000257).dataFileId = 3 ∧ (decodeEntryData 0x00000257).offset = 0x1280 := by
  decide

end Physis.C01

/-! ### T4: binrw declarations regenerated from the source

`Generated/BinrwIndex.lean` is re-translated from the `#[binrw]` declarations of `src/sqpack/mod.rs`,
`src/sqpack/index.rs` and `src/common.rs` on every run (`lib/binrw2lean.py`); each theorem says that a
hand-written reader of `Model/Index.lean` is exactly `Layout.read` of the regenerated descriptor
followed by a pure projection (`Proofs/BinrwTieIndex.lean`), for all inputs. -/
namespace Physis.C01
open Physis.Binrw Physis.Generated

theorem c01_binrw_SqPackHeader (l : Bytes) :
    Index.readSqPackHeader l =
      via BinrwTie.Index.sqPackHeaderOf (Layout.read BinrwTie.Index.endian BinrwIndex.sqPackHeader l) :=
  BinrwTie.Index.readSqPackHeader_eq_generated l

theorem c01_binrw_SegementDescriptor (l : Bytes) :
    Index.readDescriptor l =
      via BinrwTie.Index.descriptorOf (Layout.read BinrwTie.Index.endian BinrwIndex.segementDescriptor l) :=
  BinrwTie.Index.readDescriptor_eq_generated l

theorem c01_binrw_SqPackIndexHeader (l : Bytes) :
    Index.readIndexHeader l =
      via BinrwTie.Index.indexHeaderOf (Layout.read BinrwTie.Index.endian BinrwIndex.sqPackIndexHeader l) :=
  BinrwTie.Index.readIndexHeader_eq_generated l

theorem c01_binrw_DataEntry (n : Nat) (l : Bytes) :
    Index.readRecords 256 0 n l =
      (Kind.read BinrwTie.Index.endian [] (.array (.lit n) (.struct BinrwIndex.dataEntry)) l).map (·.2) :=
  BinrwTie.Index.readRecords_data_eq_generated n l

theorem c01_binrw_FolderEntry (n : Nat) (l : Bytes) :
    Index.readRecords 12 4 n l =
      (Kind.read BinrwTie.Index.endian [] (.array (.lit n) (.struct BinrwIndex.folderEntry)) l).map (·.2) :=
  BinrwTie.Index.readRecords_folder_eq_generated n l

/-- non-vacuity: the generated header layout accepts a well-formed 1024-byte header and the
projection keeps platform, size, version and file type -/
example : (via BinrwTie.Index.descriptorOf (Layout.read .little BinrwIndex.segementDescriptor
    ([1,0,0,0, 2,0,0,0, 3,0,0,0] ++ List.replicate 60 0))).map (fun x => (x.1.count, x.1.offset, x.1.size, x.2.length))
    = some (1, 2, 3, 0) := by decide +kernel

end Physis.C01
