import PhysisModel.Proofs.Shpk
import PhysisModel.Properties.C12
/-!
# C14 — materials and shader packages decode to what their files store

Property theorems only (helper lemmas: `Proofs/Shpk.lean`, `Proofs/Mtrl.lean`, `Proofs/MsCommon.lean`).
-/
namespace Physis.C14
open Physis Physis.MsCommon Physis.Spec.Shpk

/-! ## selectors -/

/-- `build_selector ks` is the base-31 polynomial `Σᵢ ksᵢ·31ⁱ` of the keys modulo 2³², for every
key list. -/
theorem c14_selector (ks : List UInt32) :
    (Shpk.buildSelector ks).toNat = polySum ks 0 % 4294967296 :=
  Shpk.buildSelector_toNat ks

/-- the same as an equation between 32-bit values -/
theorem c14_selector_eq (ks : List UInt32) : Shpk.buildSelector ks = selectorOf ks := by
  apply UInt32.toNat_inj.mp
  rw [c14_selector, selectorOf, UInt32.toNat_ofNat']
  exact (Nat.mod_mod _ _).symm

/-- `build_selector_from_all_keys`: the polynomial of the four per-table polynomials. -/
theorem c14_selector_all_keys (sys scn mat sub : List UInt32) :
    Shpk.buildSelectorFromAllKeys sys scn mat sub =
      selectorOf [selectorOf sys, selectorOf scn, selectorOf mat, selectorOf sub] := by
  simp only [Shpk.buildSelectorFromAllKeys, Shpk.buildSelectorFromKeys, c14_selector_eq]

/-- sanity (tests, labelled as such): a small polynomial, and wrap-around past 2³² -/
example : polySum [1, 2, 3] 0 = 1 + 2 * 31 + 3 * 961 := by decide
example : Shpk.buildSelector [1, 2, 3] = 2946 := by decide
example : Shpk.buildSelector [0xFFFFFFFF, 0xFFFFFFFF] = 0xFFFFFFE0 := by decide

/-! ## `find_node` -/

/-- `from_existing` builds the selector table as: every node under its own selector with its
index, then every alias. -/
theorem c14_from_existing_selectors (buf : Bytes) (p : ShaderPackage)
    (h : Shpk.fromExisting buf = .ok p) :
    p.nodeSelectors = Shpk.pushNodes p.nodes 0 ++ p.nodeAliases.map (fun a => (a.selector, a.node)) := by
  unfold Shpk.fromExisting at h
  split at h
  · cases h
  · cases h; rfl

/-- `find_node` resolves a selector to the **first node carrying it**, otherwise to the node that
the **first alias with that selector** points to (nodes take precedence over aliases); `None` if
neither exists.  (An alias pointing past the node list makes the Rust index panic — the
`panic` outcome; crash-freedom is C18.) -/
theorem c14_find_node (p : ShaderPackage) (sel : UInt32)
    (hsel : p.nodeSelectors = Shpk.pushNodes p.nodes 0 ++ p.nodeAliases.map (fun a => (a.selector, a.node)))
    (hn : p.nodes.length < 4294967296) :
    Shpk.findNodeIdx p sel =
      match resolve p.nodes p.nodeAliases sel with
      | none => .ok none
      | some i => if i < p.nodes.length then .ok (some i) else .error .panic := by
  unfold Shpk.findNodeIdx resolve
  rw [hsel, Shpk.findEntry_append, Shpk.findEntry_pushNodes, Shpk.findEntry_aliases]
  cases hf : p.nodes.findIdx? (·.selector == sel) with
  | none => cases p.nodeAliases.find? (·.selector == sel) <;> simp
  | some j =>
    have hj : j < p.nodes.length := (List.findIdx?_eq_some_iff_findIdx_eq.mp hf).1
    have hm : j % 4294967296 = j := Nat.mod_eq_of_lt (by omega)
    simp [hm, hj]

/-- `find_node` returns the node at that index. -/
theorem c14_find_node_value (p : ShaderPackage) (sel : UInt32) (i : Nat)
    (h : Shpk.findNodeIdx p sel = .ok (some i)) : Shpk.findNode p sel = .ok p.nodes[i]? := by
  simp [Shpk.findNode, h]

/-! ## shader packages: parsing returns what the file stores -/

/-- For every well-formed stored package `f` (any number of vertex / pixel shaders with their four
parameter lists, material parameters with or without defaults, key tables, nodes with passes,
aliases; any blob region and string heap), `ShaderPackage::from_existing` on the encoded file
returns exactly `view f`: every count and field, every parameter with the name stored at its heap
offset, every shader's additional header and bytecode slice, and the selector table. -/
theorem c14_shpk_parse_encode (f : PackageF) (h : WF f = true) :
    Shpk.fromExisting (encode f) = .ok (view f) :=
  Shpk.fromExisting_encode f h

/-- non-vacuity: a DX11 package with one vertex shader (8-byte header + 2 bytes of bytecode, one
texture parameter `g_T`), one pixel shader, one material parameter with a default, one system key,
two nodes carrying the same selector, and an alias -/
def examplePackage : PackageF :=
  { version := 0x0B01, format := [0x44, 0x58, 0x31, 0x31], fileLength := 0
    materialParametersSize := 4, hasMatParamDefaults := 1, unknown1 := 0, unknown2 := 0
    vertexShaders := [{ dataOffset := 0, dataSize := 2, scalars := [], resources := [], uavs := []
                        textures := [{ id := 7, strOff := 0, strLen := 4, unknown := 0, slot := 1, size := 1 }] }]
    pixelShaders := [{ dataOffset := 10, dataSize := 1, scalars := [], resources := [], uavs := [], textures := [] }]
    materialParameters := [{ id := 9, byteOffset := 0, byteSize := 4 }]
    matParamDefaults := [0x3F800000]
    scalars := [], samplers := [], textures := [], uavs := []
    systemKeys := [{ id := 1, defaultValue := 2 }], sceneKeys := [], materialKeys := []
    subViewKey1Default := 3, subViewKey2Default := 4
    nodes := [{ selector := 77, passIndices := List.replicate 16 0xFF, systemKeys := [2], sceneKeys := []
                materialKeys := [], subviewKeys := [3, 4], passes := [{ id := 5, vertexShader := 0, pixelShader := 0 }] },
              { selector := 77, passIndices := List.replicate 16 0, systemKeys := [6], sceneKeys := []
                materialKeys := [], subviewKeys := [3, 4], passes := [] }]
    aliases := [{ selector := 78, node := 1 }]
    blob := [1, 2, 3, 4, 5, 6, 7, 8, 0xA0, 0xA1, 0xB0], strings := [0x67, 0x5F, 0x54, 0] }

example : WF examplePackage = true := by decide +kernel
example : Shpk.fromExisting (encode examplePackage) = .ok (view examplePackage) :=
  c14_shpk_parse_encode _ (by decide +kernel)
example : ((view examplePackage).vertexShaders.map (·.bytecode)) = [[0xA0, 0xA1]] := by decide +kernel
example : ((view examplePackage).vertexShaders.map (·.textureParameters.map (·.name))) =
    [[[0x67, 0x5F, 0x54]]] := by decide +kernel
example : resolve (view examplePackage).nodes (view examplePackage).nodeAliases 77 = some 0 := by
  decide +kernel
example : resolve (view examplePackage).nodes (view examplePackage).nodeAliases 78 = some 1 := by
  decide +kernel

/-- `find_node` on a parsed, well-formed package resolves selectors as the specification says
(`resolve` on the stored nodes and aliases). -/
theorem c14_shpk_find_node (f : PackageF) (h : WF f = true) (sel : UInt32) :
    ∃ p, Shpk.fromExisting (encode f) = .ok p ∧
      Shpk.findNodeIdx p sel =
        match resolve (f.nodes.map viewNode) f.aliases sel with
        | none => .ok none
        | some i => if i < f.nodes.length then .ok (some i) else .error .panic := by
  refine ⟨view f, c14_shpk_parse_encode f h, ?_⟩
  have hn : (view f).nodes.length < 4294967296 := by
    simp only [WF, Bool.and_eq_true, decide_eq_true_eq] at h
    simp only [view, List.length_map]
    exact h.1.1.1.1.1.1.1.1.1.1.1.1.1.1.2
  have := c14_find_node (view f) sel
    (c14_from_existing_selectors _ _ (c14_shpk_parse_encode f h)) hn
  simpa only [view, List.length_map] using this

/-! ## shader-key CRC -/

/-- `ShaderPackage::crc` is the reflected CRC-32 with zero initial value and no final XOR
(the shader CRC theorem of C12), given zlib's documented `crc32`. -/
theorem c14_crc (s : Bytes) :
    Shpk.crc Spec.Crc32.zlibCrc32 s = Spec.Crc32.crcBitwise 0 0 s :=
  C12.c12_shader_crc s

end Physis.C14
