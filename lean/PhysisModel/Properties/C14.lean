import PhysisModel.Proofs.Shpk
import PhysisModel.Proofs.Mtrl
import PhysisModel.Proofs.Half
import PhysisModel.Properties.C12
import PhysisModel.Proofs.BinrwTieMs
/-!
# C14 — materials and shader packages decode to what their files store

Property theorems only (helper lemmas: `Proofs/Shpk.lean`, `Proofs/Mtrl.lean`, `Proofs/MsCommon.lean`).
-/
namespace Physis.C14
open Physis Physis.MsCommon Physis.Spec.Shpk

/-! ## selectors -/

/-- `build_selector ks` is the base-31 polynomial `Σᵢ ksᵢ·31ⁱ` of the keys modulo 2³², for every
key list. -/
theorem c14_selector (ks : List UInt32) :
    (Shpk.buildSelector ks).toNat = polySum ks 0 % 4294967296 :=
  Shpk.buildSelector_toNat ks

/-- the same as an equation between 32-bit values -/
theorem c14_selector_eq (ks : List UInt32) : Shpk.buildSelector ks = selectorOf ks := by
  apply UInt32.toNat_inj.mp
  rw [c14_selector, selectorOf, UInt32.toNat_ofNat']
  exact (Nat.mod_mod _ _).symm

/-- `build_selector_from_all_keys`: the polynomial of the four per-table polynomials. -/
theorem c14_selector_all_keys (sys scn mat sub : List UInt32) :
    Shpk.buildSelectorFromAllKeys sys scn mat sub =
      selectorOf [selectorOf sys, selectorOf scn, selectorOf mat, selectorOf sub] := by
  simp only [Shpk.buildSelectorFromAllKeys, Shpk.buildSelectorFromKeys, c14_selector_eq]

/-- sanity (tests, labelled as such): a small polynomial, and wrap-around past 2³² -/
example : polySum [1, 2, 3] 0 = 1 + 2 * 31 + 3 * 961 := by decide
example : Shpk.buildSelector [1, 2, 3] = 2946 := by decide
example : Shpk.buildSelector [0xFFFFFFFF, 0xFFFFFFFF] = 0xFFFFFFE0 := by decide

/-! ## `find_node` -/

/-- `from_existing` builds the selector table as: every node under its own selector with its
index, then every alias. -/
theorem c14_from_existing_selectors (buf : Bytes) (p : ShaderPackage)
    (h : Shpk.fromExisting buf = .ok p) :
    p.nodeSelectors = Shpk.pushNodes p.nodes 0 ++ p.nodeAliases.map (fun a => (a.selector, a.node)) := by
  unfold Shpk.fromExisting at h
  split at h
  · cases h
  · cases h; rfl

/-- `find_node` resolves a selector to the **first node carrying it**, otherwise to the node that
the **first alias with that selector** points to (nodes take precedence over aliases); `None` if
neither exists.  (An alias pointing past the node list makes the Rust index panic — the
`panic` outcome; crash-freedom is C18.) -/
theorem c14_find_node (p : ShaderPackage) (sel : UInt32)
    (hsel : p.nodeSelectors = Shpk.pushNodes p.nodes 0 ++ p.nodeAliases.map (fun a => (a.selector, a.node)))
    (hn : p.nodes.length < 4294967296) :
    Shpk.findNodeIdx p sel =
      match resolve p.nodes p.nodeAliases sel with
      | none => .ok none
      | some i => if i < p.nodes.length then .ok (some i) else .error .panic := by
  unfold Shpk.findNodeIdx resolve
  rw [hsel, Shpk.findEntry_append, Shpk.findEntry_pushNodes, Shpk.findEntry_aliases]
  cases hf : p.nodes.findIdx? (·.selector == sel) with
  | none => cases p.nodeAliases.find? (·.selector == sel) <;> simp
  | some j =>
    have hj : j < p.nodes.length := (List.findIdx?_eq_some_iff_findIdx_eq.mp hf).1
    have hm : j % 4294967296 = j := Nat.mod_eq_of_lt (by omega)
    simp [hm, hj]

/-- `find_node` returns the node at that index. -/
theorem c14_find_node_value (p : ShaderPackage) (sel : UInt32) (i : Nat)
    (h : Shpk.findNodeIdx p sel = .ok (some i)) : Shpk.findNode p sel = .ok p.nodes[i]? := by
  simp [Shpk.findNode, h]

/-! ## shader packages: parsing returns what the file stores -/

/-- For every well-formed stored package `f` (any number of vertex / pixel shaders with their four
parameter lists, material parameters with or without defaults, key tables, nodes with passes,
aliases; any blob region and string heap), `ShaderPackage::from_existing` on the encoded file
returns exactly `view f`: every count and field, every parameter with the name stored at its heap
offset, every shader's additional header and bytecode slice, and the selector table. -/
theorem c14_shpk_parse_encode (f : PackageF) (h : WF f = true) :
    Shpk.fromExisting (encode f) = .ok (view f) :=
  Shpk.fromExisting_encode f h

/-- non-vacuity: a DX11 package with one vertex shader (8-byte header + 2 bytes of bytecode, one
texture parameter `g_T`), one pixel shader, one material parameter with a default, one system key,
two nodes carrying the same selector, and an alias -/
def examplePackage : PackageF :=
  { version := 0x0B01, format := [0x44, 0x58, 0x31, 0x31], fileLength := 0
    materialParametersSize := 4, hasMatParamDefaults := 1, unknown1 := 0, unknown2 := 0
    vertexShaders := [{ dataOffset := 0, dataSize := 2, scalars := [], resources := [], uavs := []
                        textures := [{ id := 7, strOff := 0, strLen := 4, unknown := 0, slot := 1, size := 1 }] }]
    pixelShaders := [{ dataOffset := 10, dataSize := 1, scalars := [], resources := [], uavs := [], textures := [] }]
    materialParameters := [{ id := 9, byteOffset := 0, byteSize := 4 }]
    matParamDefaults := [0x3F800000]
    scalars := [], samplers := [], textures := [], uavs := []
    systemKeys := [{ id := 1, defaultValue := 2 }], sceneKeys := [], materialKeys := []
    subViewKey1Default := 3, subViewKey2Default := 4
    nodes := [{ selector := 77, passIndices := List.replicate 16 0xFF, systemKeys := [2], sceneKeys := []
                materialKeys := [], subviewKeys := [3, 4], passes := [{ id := 5, vertexShader := 0, pixelShader := 0 }] },
              { selector := 77, passIndices := List.replicate 16 0, systemKeys := [6], sceneKeys := []
                materialKeys := [], subviewKeys := [3, 4], passes := [] }]
    aliases := [{ selector := 78, node := 1 }]
    blob := [1, 2, 3, 4, 5, 6, 7, 8, 0xA0, 0xA1, 0xB0], strings := [0x67, 0x5F, 0x54, 0] }

example : WF examplePackage = true := by decide +kernel
example : Shpk.fromExisting (encode examplePackage) = .ok (view examplePackage) :=
  c14_shpk_parse_encode _ (by decide +kernel)
example : ((view examplePackage).vertexShaders.map (·.bytecode)) = [[0xA0, 0xA1]] := by decide +kernel
example : ((view examplePackage).vertexShaders.map (·.textureParameters.map (·.name))) =
    [[[0x67, 0x5F, 0x54]]] := by decide +kernel
example : resolve (view examplePackage).nodes (view examplePackage).nodeAliases 77 = some 0 := by
  decide +kernel
example : resolve (view examplePackage).nodes (view examplePackage).nodeAliases 78 = some 1 := by
  decide +kernel

/-- `find_node` on a parsed, well-formed package resolves selectors as the specification says
(`resolve` on the stored nodes and aliases). -/
theorem c14_shpk_find_node (f : PackageF) (h : WF f = true) (sel : UInt32) :
    ∃ p, Shpk.fromExisting (encode f) = .ok p ∧
      Shpk.findNodeIdx p sel =
        match resolve (f.nodes.map viewNode) f.aliases sel with
        | none => .ok none
        | some i => if i < f.nodes.length then .ok (some i) else .error .panic := by
  refine ⟨view f, c14_shpk_parse_encode f h, ?_⟩
  have hn : (view f).nodes.length < 4294967296 := by
    simp only [WF, Bool.and_eq_true, decide_eq_true_eq] at h
    simp only [view, List.length_map]
    exact h.1.1.1.1.1.1.1.1.1.1.1.1.1.1.2
  have := c14_find_node (view f) sel
    (c14_from_existing_selectors _ _ (c14_shpk_parse_encode f h)) hn
  simpa only [view, List.length_map] using this

/-! ## materials: parsing returns what the file stores -/

/-- For every well-formed stored material `m` (0..255 textures, UV / colour sets, any additional
data, absent / legacy 16-row / Dawntrail 32-row / undecoded colour table with **arbitrary** half
patterns, absent / legacy / Dawntrail / undecoded dye table, any number of shader keys, constants of
0..4 floats, samplers, shader values, trailing bytes), `Material::from_existing` on the encoded file
returns exactly `view m`: the shader package name and texture paths from the string heap, keys,
constants with their float values, samplers, and every colour-table / dye-table row with each
component taken from **its own** stored half-word (`decodeLegacyRow`, `decodeDawntrailRow`) or bit
field (`packLegacyDye`, `packDawntrailDye`). -/
theorem c14_mtrl_parse_encode (m : Spec.Mtrl.MaterialF) (h : Spec.Mtrl.WF m = true) :
    Mtrl.fromExisting (Spec.Mtrl.encode m) = .ok (Spec.Mtrl.view m) :=
  Mtrl.fromExisting_encode m h

/-- what "its own stored half" means for a legacy row, spelled out: the sixteen stored words go,
in order, to diffuse r g b, specular strength, specular r g b, gloss strength, emissive r g b,
tile set (raw), repeat x y, skew x y — each widened by `halfToF32` on its own. -/
theorem c14_legacy_row_components (d0 d1 d2 ss s0 s1 s2 gs e0 e1 e2 ts r0 r1 k0 k1 : UInt16) :
    Spec.Mtrl.decodeLegacyRow [d0, d1, d2, ss, s0, s1, s2, gs, e0, e1, e2, ts, r0, r1, k0, k1] =
      { diffuseColor := [halfToF32 d0, halfToF32 d1, halfToF32 d2], specularStrength := halfToF32 ss
        specularColor := [halfToF32 s0, halfToF32 s1, halfToF32 s2], glossStrength := halfToF32 gs
        emissiveColor := [halfToF32 e0, halfToF32 e1, halfToF32 e2], tileSet := ts
        materialRepeat := [halfToF32 r0, halfToF32 r1], materialSkew := [halfToF32 k0, halfToF32 k1] } := rfl

/-- dye bit fields: a stored legacy dye word decodes to the row it was packed from (bits 0–4 the
five flags, bits 5–15 the template) — for every row with an 11-bit template. -/
theorem c14_legacy_dye_bits (r : Spec.Mtrl.LegacyColorDyeTableRow) (h : Spec.Mtrl.wfLegacyDye r = true)
    (t : Bytes) :
    Mtrl.legacyColorDyeTableRow (putU16le (Spec.Mtrl.packLegacyDye r) ++ t) = .ok (r, t) :=
  Mtrl.legacyDye_rt r h t

/-- Dawntrail dye word: bits 0–11 the twelve flags, 16–26 the template, 27–28 the channel; the
remaining bits are ignored. -/
theorem c14_dawntrail_dye_bits (d : Spec.Mtrl.DawntrailDyeF) (h : Spec.Mtrl.wfDawntrailDye d = true)
    (t : Bytes) :
    Mtrl.dawntrailColorDyeTableRow (putU32le (Spec.Mtrl.packDawntrailDye d) ++ t) = .ok (d.row, t) :=
  Mtrl.dawntrailDye_rt d h t

/-- non-vacuity: one texture, the shader package name after it, a legacy colour table whose rows
hold sixteen different halves (1.0, 2.0, 3.0, …), a legacy dye table, one key, one two-float
constant, one sampler -/
def exampleMaterial : Spec.Mtrl.MaterialF :=
  { version := 0x01030000, fileSize := 0, dataSetSize := 0
    textures := [[0x61, 0x2E, 0x74, 0x65, 0x78]]
    heapRest := [0x62, 0x67, 0x2E, 0x73, 0x68, 0x70, 0x6B, 0], shaderPackageNameOffset := 6
    textureOffsets := [0], uvSets := [{ nameOffset := 0, index := 0 }], colorSets := []
    tableFlags := 0xC, additionalRest := []
    colorTable := .legacy (List.replicate 16
      [0x3C00, 0x4000, 0x4200, 0x4400, 0x4500, 0x4600, 0x4700, 0x4800, 0x4880, 0x4900, 0x4980, 7,
       0x4A00, 0x4A80, 0x4B00, 0x4B80])
    dyeTable := .legacy (List.replicate 16
      { template := 1234, diffuse := true, specular := false, emissive := true, gloss := false
        specularStrength := true })
    shaderValueListSize := 8, materialFlags := 0
    shaderKeys := [{ category := 1, value := 2 }]
    constants := [{ constantId := 9, valueOffset := 0, valueSize := 8 }]
    samplers := [{ textureUsage := 6, flags := 0, textureIndex := 0, unknown1 := 0, unknown2 := 0, unknown3 := 0 }]
    shaderValues := [0x3F800000, 0x40000000], trailing := [] }

example : Spec.Mtrl.WF exampleMaterial = true := by decide +kernel
example : Mtrl.fromExisting (Spec.Mtrl.encode exampleMaterial) = .ok (Spec.Mtrl.view exampleMaterial) :=
  c14_mtrl_parse_encode _ (by decide +kernel)
/-- the green and blue components are those of the second and third stored half (2.0, 3.0), not
copies of the first (defect D14) -/
example : (match (Spec.Mtrl.view exampleMaterial).colorTable with
    | some (.legacy (r :: _)) => r.diffuseColor | _ => []) = [0x3F800000, 0x40000000, 0x40400000] := by
  decide +kernel
example : (Spec.Mtrl.view exampleMaterial).shaderPackageName = [0x62, 0x67, 0x2E, 0x73, 0x68, 0x70, 0x6B] := by
  decide +kernel
example : (Spec.Mtrl.view exampleMaterial).constants.map (·.values) = [[0x3F800000, 0x40000000, 0, 0]] := by
  decide +kernel
example : Spec.Mtrl.wfLegacyDye ⟨2047, true, true, false, true, false⟩ = true := by decide
example : Spec.Mtrl.wfDawntrailDye
    ⟨⟨2047, 3, true, false, true, false, true, false, true, false, true, false, true, true⟩, 0xE000F000⟩ = true := by
  decide

/-! ## what a stored half means -/

/-- `halfToF32` (the `f16::to_f32` of the colour-table readers) is exact: for **every finite half**
the binary32 result is finite and denotes the same real number — `|v|·2^149` of the result equals
`|v|·2^24` of the half times `2^125` (IEEE-754 decoding, `Spec/HalfValue.lean`). -/
theorem c14_half_value (h : UInt16) (hfin : (h >>> 10) &&& 0x1F ≠ 0x1F) :
    Spec.HalfValue.f32Mag (halfToF32 h) = Spec.HalfValue.halfMag h <<< 125 ∧
      (halfToF32 h >>> 23) &&& 0xFF ≠ 0xFF :=
  halfToF32_value h hfin

/-- the sign bit is kept; zero, infinity and NaN are mapped to zero, infinity and NaN -/
theorem c14_half_sign_classes (a : UInt16) :
    halfToF32 a >>> 31 = (a >>> 15).toUInt32 ∧
    ((halfToF32 a &&& 0x7FFFFFFF = 0) ↔ (a &&& 0x7FFF = 0)) ∧
    ((halfToF32 a &&& 0x7FFFFFFF = 0x7F800000) ↔ (a &&& 0x7FFF = 0x7C00)) ∧
    ((halfToF32 a &&& 0x7FFFFFFF > 0x7F800000) ↔ (a &&& 0x7FFF > 0x7C00)) :=
  ⟨halfToF32_sign a, halfToF32_classes a⟩

/-- sanity (tests): 1.0, the smallest subnormal 2⁻²⁴, the largest finite 65504, −2.0; and the
decoders on 1.0 -/
example : halfToF32 0x3C00 = 0x3F800000 := by decide
example : halfToF32 0x0001 = 0x33800000 := by decide
example : halfToF32 0x7BFF = 0x477FE000 := by decide
example : halfToF32 0xC000 = 0xC0000000 := by decide
example : Spec.HalfValue.f32Mag 0x3F800000 = 1 <<< 149 := by decide
example : Spec.HalfValue.halfMag 0x3C00 = 1 <<< 24 := by decide
example : ((0x0001 : UInt16) >>> 10) &&& 0x1F ≠ 0x1F := by decide

/-! ## shader-key CRC -/

/-- `ShaderPackage::crc` is the reflected CRC-32 with zero initial value and no final XOR
(the shader CRC theorem of C12), given zlib's documented `crc32`. -/
theorem c14_crc (s : Bytes) :
    Shpk.crc Spec.Crc32.zlibCrc32 s = Spec.Crc32.crcBitwise 0 0 s :=
  C12.c12_shader_crc s

end Physis.C14

/-! ### T4: binrw declarations regenerated from the source

`Generated/BinrwMs.lean` is re-translated from the `#[binrw]` declarations of `src/mtrl.rs` and
`src/shpk.rs` on every run (`lib/binrw2lean.py`); the `MsCommon.P` record parsers of `Model/Mtrl.lean` /
`Model/Shpk.lean`, applied to their input, are `Layout.read` of the regenerated descriptors followed by
a pure projection, with a read error as `.error .fail` (`BinrwTie.Ms.toR`; `Proofs/BinrwTieMs.lean`),
for all inputs.  `endianMtrl` / `endianShpk` are the regenerated endianness of the enclosing
`MaterialData` / `ShaderPackage` (`c14_binrw_endian`). -/
namespace Physis.C14
open Physis.Binrw Physis.Generated

theorem c14_binrw_endian : BinrwTie.Ms.endianMtrl = .little ∧ BinrwTie.Ms.endianShpk = .little :=
  BinrwTie.Ms.endian_generated

/-- `ShaderPackage` starts with the magic `ShPk` and the u32 version (the next field has `try_map`) -/
theorem c14_binrw_ShaderPackage_prefix :
    BinrwMs.shaderPackage.normalizeAt .big =
      (Layout.mk (some .little) (.bytes [0x53, 0x68, 0x50, 0x6B]) [.mk "" none .none 0 (.prim .u32) 0 0] false).normalizeAt .big :=
  BinrwTie.Ms.shaderPackage_generated

theorem c14_binrw_MaterialFileHeader (l : Bytes) :
    Physis.Mtrl.materialFileHeader l =
      BinrwTie.Ms.toR (via BinrwTie.Ms.materialFileHeaderOf (Layout.read BinrwTie.Ms.endianMtrl BinrwMs.materialFileHeader l)) :=
  BinrwTie.Ms.materialFileHeader_eq_generated l

theorem c14_binrw_MaterialHeader (l : Bytes) :
    Physis.Mtrl.materialHeader l =
      BinrwTie.Ms.toR (via BinrwTie.Ms.materialHeaderOf (Layout.read BinrwTie.Ms.endianMtrl BinrwMs.materialHeader l)) :=
  BinrwTie.Ms.materialHeader_eq_generated l

theorem c14_binrw_ColorSet (l : Bytes) :
    Physis.Mtrl.colorSet l =
      BinrwTie.Ms.toR (via BinrwTie.Ms.colorSetOf (Layout.read BinrwTie.Ms.endianMtrl BinrwMs.colorSet l)) :=
  BinrwTie.Ms.colorSet_eq_generated l

theorem c14_binrw_ShaderKey (l : Bytes) :
    Physis.Mtrl.shaderKey l =
      BinrwTie.Ms.toR (via BinrwTie.Ms.shaderKeyOf (Layout.read BinrwTie.Ms.endianMtrl BinrwMs.shaderKey l)) :=
  BinrwTie.Ms.shaderKey_eq_generated l

theorem c14_binrw_ConstantStruct (l : Bytes) :
    Physis.Mtrl.constantStruct l =
      BinrwTie.Ms.toR (via BinrwTie.Ms.constantStructOf (Layout.read BinrwTie.Ms.endianMtrl BinrwMs.constantStruct l)) :=
  BinrwTie.Ms.constantStruct_eq_generated l

theorem c14_binrw_MaterialParameter (l : Bytes) :
    Physis.Shpk.materialParameter l =
      BinrwTie.Ms.toR (via BinrwTie.Ms.materialParameterOf (Layout.read BinrwTie.Ms.endianShpk BinrwMs.materialParameter l)) :=
  BinrwTie.Ms.materialParameter_eq_generated l

theorem c14_binrw_Key (l : Bytes) :
    Physis.Shpk.key l =
      BinrwTie.Ms.toR (via BinrwTie.Ms.keyOf (Layout.read BinrwTie.Ms.endianShpk BinrwMs.key l)) :=
  BinrwTie.Ms.key_eq_generated l

theorem c14_binrw_Pass (l : Bytes) :
    Physis.Shpk.pass l =
      BinrwTie.Ms.toR (via BinrwTie.Ms.passOf (Layout.read BinrwTie.Ms.endianShpk BinrwMs.pass l)) :=
  BinrwTie.Ms.pass_eq_generated l

theorem c14_binrw_NodeAlias (l : Bytes) :
    Physis.Shpk.nodeAlias l =
      BinrwTie.Ms.toR (via BinrwTie.Ms.nodeAliasOf (Layout.read BinrwTie.Ms.endianShpk BinrwMs.nodeAlias l)) :=
  BinrwTie.Ms.nodeAlias_eq_generated l

end Physis.C14
